(* C09: proofs over model.AlphWatcher that depend on the extracted page-loop exit test, the treatment of unconvertible events
   and the nil tests of GetTokenInfo (the flag-independent part is in AlphWatcherBase). *)
From Coq Require Import List ZArith Bool Lia Arith.
From WH Require Import gen.Extracted model.AlphWatcher proofs.AlphWatcherBase.
Import ListNotations.
Open Scope Z_scope.

(* ------------------------------------------------------------------ GetTokenInfo never panics (repaired nil tests) *)
Lemma shape_test_same : forall rs i, shape_test rs i i <> ShPanic.
Proof.
  intros rs i. unfold shape_test. destruct (nth i rs CFailed) as [|rets] eqn:E; cbn [succeeded negb].
  - discriminate.
  - destruct rets as [|v [|w t]]; discriminate.
Qed.

Lemma tokinfo_tests_own : alph_tokinfo_tests = (0, 1, 2)%nat.
Proof. reflexivity. Qed.

Lemma get_token_info_no_panic : forall id a, get_token_info id a <> TiPanic.
Proof.
  intros id a. unfold get_token_info. destruct (id =? alph_native_id); [discriminate|].
  destruct a as [|rs]; [discriminate|].
  destruct (negb (Nat.eqb (length rs) 3)); [discriminate|].
  rewrite tokinfo_tests_own.
  pose proof (shape_test_same rs 0) as P0. pose proof (shape_test_same rs 1) as P1. pose proof (shape_test_same rs 2) as P2.
  destruct (shape_test rs 0 0); try discriminate; try congruence.
  destruct (shape_test rs 1 1); try discriminate; try congruence.
  destruct (shape_test rs 2 2); try discriminate; try congruence.
  destruct (to_bytevec v); [|discriminate]. destruct (to_bytevec v0); [|discriminate]. destruct (to_uint8 v1); discriminate.
Qed.

Lemma validate_attest_no_panic : forall m a, validate_attest m a <> VaPanic.
Proof.
  intros m a. unfold validate_attest. destruct (m_tok m) as [ti|]; [|discriminate].
  pose proof (get_token_info_no_panic (ti_id ti) a) as P.
  destruct (get_token_info (ti_id ti) a) as [t| |]; try discriminate; try congruence.
  destruct (tokinfo_eqb ti t); discriminate.
Qed.

(* ------------------------------------------------------------------ handleUnconfirmedEvents: every event is judged on its own *)
Lemma unconv_skipped : alph_unconv_aborts = false.
Proof. reflexivity. Qed.

(* contribution of one event of the stream to the batch *)
Definition keep1 (a : mc_ans) (e : cevent) : list uevent := match classify a e with Keep u => [u] | _ => [] end.

Lemma classify_cases : forall a e, classify a e = Skip \/ exists u, classify a e = Keep u.
Proof.
  intros a e. unfold classify. rewrite unconv_skipped. destruct (to_unconfirmed e) as [m|]; [|left; reflexivity].
  destruct (is_attest m).
  - pose proof (validate_attest_no_panic m a) as P. destruct (validate_attest m a); try congruence; [right; eexists; reflexivity | left; reflexivity].
  - right. eexists. reflexivity.
Qed.

Fixpoint keep_from (tok : Z -> mc_ans) (idx : Z) (evs : list cevent) : list uevent :=
  match evs with [] => [] | e :: t => keep1 (tok idx) e ++ keep_from tok (idx + 1) t end.

Lemma handle_unconfirmed_spec : forall tok evs idx, handle_unconfirmed tok idx evs = HuOk (keep_from tok idx evs).
Proof.
  intros tok evs. induction evs as [|e t IH]; intro idx; cbn [handle_unconfirmed keep_from]; [reflexivity|].
  unfold keep1. destruct (classify_cases (tok idx) e) as [H | [u H]]; rewrite H, IH; reflexivity.
Qed.

Lemma keep_from_app : forall tok a b idx,
  keep_from tok idx (a ++ b) = keep_from tok idx a ++ keep_from tok (idx + Z.of_nat (length a)) b.
Proof.
  intros tok a. induction a as [|e t IH]; intros b idx.
  - cbn [app keep_from length]. f_equal. lia.
  - cbn [app keep_from length]. rewrite IH, <- app_assoc. do 3 f_equal. lia.
Qed.

(* a malformed event (one toUnconfirmedEvent rejects) contributes nothing, and changes nothing else *)
Lemma keep1_malformed : forall a e, to_unconfirmed e = None -> keep1 a e = [].
Proof. intros a e H. unfold keep1, classify. rewrite H, unconv_skipped. reflexivity. Qed.

Lemma keep_from_one_event : forall tok a e b idx,
  keep_from tok idx (a ++ e :: b) =
  keep_from tok idx a ++ keep1 (tok (idx + Z.of_nat (length a))) e ++ keep_from tok (idx + Z.of_nat (length a) + 1) b.
Proof. intros. rewrite keep_from_app. cbn [keep_from]. reflexivity. Qed.

Lemma keep_from_malformed_transparent : forall tok a e b idx, to_unconfirmed e = None ->
  keep_from tok idx (a ++ e :: b) = keep_from tok idx a ++ keep_from tok (idx + Z.of_nat (length a) + 1) b.
Proof. intros. rewrite keep_from_one_event, keep1_malformed by assumption. reflexivity. Qed.

(* a well-formed non-attestation event is kept whatever its sender (the sender filter comes after confirmation) *)
Lemma keep1_plain : forall a e m, to_unconfirmed e = Some m -> is_attest m = false ->
  keep1 a e = [ {| u_ev := e; u_msg := m; u_chain := None |} ].
Proof. intros a e m H A. unfold keep1, classify. rewrite H, A. reflexivity. Qed.

Lemma keep1_attest : forall a e m, to_unconfirmed e = Some m -> is_attest m = true ->
  keep1 a e = match validate_attest m a with VaOk t => [ {| u_ev := e; u_msg := m; u_chain := Some t |} ] | _ => [] end.
Proof. intros a e m H A. unfold keep1, classify. rewrite H, A. destruct (validate_attest m a); reflexivity. Qed.

(* every kept element stems from its event *)
Definition good (u : uevent) : Prop :=
  to_unconfirmed (u_ev u) = Some (u_msg u) /\
  (is_attest (u_msg u) = true -> exists t, u_chain u = Some t /\ m_tok (u_msg u) = Some t).

Lemma keep1_good : forall a e u, In u (keep1 a e) -> u_ev u = e /\ good u /\
  (is_attest (u_msg u) = true -> exists t, u_chain u = Some t /\ get_token_info (ti_id t) a = TiOk t).
Proof.
  intros a e u. unfold keep1, classify. destruct (to_unconfirmed e) as [m|] eqn:T.
  - destruct (is_attest m) eqn:A.
    + destruct (validate_attest m a) as [t| |] eqn:V; cbn [In]; try tauto.
      intros [<-|[]]. unfold good. cbn [u_ev u_msg u_chain]. apply validate_attest_ok in V as [V1 V2].
      split; [reflexivity|]. split; [split; [exact T|intros _; exists t; auto]|intros _; exists t; auto].
    + cbn [In]. intros [<-|[]]. unfold good. cbn [u_ev u_msg u_chain]. split; [reflexivity|]. split; [split; [exact T|]|]; rewrite A; discriminate.
  - rewrite unconv_skipped. cbn [In]. tauto.
Qed.

Lemma keep_from_in : forall tok evs idx u, In u (keep_from tok idx evs) ->
  exists i e, In e evs /\ In u (keep1 (tok i) e).
Proof.
  intros tok evs. induction evs as [|e t IH]; intros idx u; cbn [keep_from]; [intros []|].
  intro H. apply in_app_or in H as [H|H].
  - exists idx, e. split; [left; reflexivity|exact H].
  - destruct (IH _ _ H) as (i & e' & I & K). exists i, e'. split; [right; exact I|exact K].
Qed.

(* ------------------------------------------------------------------ segments of the event stream *)
Lemma skipn_plus : forall {A} (l : list A) a b, skipn (a + b) l = skipn b (skipn a l).
Proof.
  intros A l a. revert l. induction a as [|a IH]; intros l b; [reflexivity|].
  destruct l as [|x l]; cbn [plus skipn]; [rewrite skipn_nil; reflexivity|apply IH].
Qed.
Lemma firstn_plus_skip : forall {A} (l : list A) n m, firstn (n + m) l = firstn n l ++ firstn m (skipn n l).
Proof.
  intros A l n. revert l. induction n as [|n IH]; intros l m; [reflexivity|].
  destruct l as [|x l]; cbn [plus firstn skipn app]; [rewrite firstn_nil; reflexivity|f_equal; apply IH].
Qed.

Lemma In_firstn : forall {A} (l : list A) n x, In x (firstn n l) -> In x l.
Proof.
  intros A l. induction l as [|y l IH]; intros n x H; destruct n; cbn [firstn] in H; try destruct H as [H|H]; try (destruct H; fail).
  - left. exact H.
  - right. eapply IH. exact H.
Qed.
Lemma In_skipn : forall {A} (l : list A) n x, In x (skipn n l) -> In x l.
Proof.
  intros A l. induction l as [|y l IH]; intros n x H; destruct n; cbn [skipn] in H; try exact H.
  right. eapply IH. exact H.
Qed.

Section Stream.
Variable log : list cevent.     (* the governance contract's event stream (append-only; the part that ever becomes visible) *)

Definition seg (s : Z) (n : nat) : list cevent := firstn n (skipn (Z.to_nat s) log).
Definition loglen : Z := Z.of_nat (length log).

Lemma seg_length : forall s n, 0 <= s -> s + Z.of_nat n <= loglen -> length (seg s n) = n.
Proof.
  intros s n Hs H. unfold seg, loglen in *. rewrite firstn_length, skipn_length. lia.
Qed.

Lemma seg_app : forall s n m, 0 <= s -> seg s (n + m) = seg s n ++ seg (s + Z.of_nat n) m.
Proof.
  intros s n m Hs. unfold seg. replace (Z.to_nat (s + Z.of_nat n)) with (Z.to_nat s + n)%nat by lia.
  rewrite skipn_plus. apply firstn_plus_skip.
Qed.

Lemma seg_in : forall s n e, In e (seg s n) -> In e log.
Proof.
  intros s n e H. unfold seg in H. apply In_firstn in H. apply In_skipn in H. exact H.
Qed.

(* well-behaved paging during one poll that obtained `count`: every page request is answered with a segment of the
   stream starting at the requested index (whatever page size, whatever has landed meanwhile), and the answer is not
   empty while the requested index is below the count the node has already reported *)
Definition wb_pages (pg : nat -> Z -> page_ans) (count : Z) : Prop :=
  forall k s, 0 <= s <= loglen -> exists n : nat,
    pg k s = Page (seg s n) (s + Z.of_nat n) /\ s + Z.of_nat n <= loglen /\ (s < count -> (0 < n)%nat).

Lemma page_exit_ge : forall next count, alph_page_exit next count = (next >=? count).
Proof. reflexivity. Qed.

Lemma page_loop_wb : forall pg tok count, wb_pages pg count ->
  forall fuel k cur acc, 0 <= cur <= loglen -> (Z.to_nat (count - cur) < fuel)%nat ->
  exists from' j, page_loop pg tok fuel k cur count acc =
                  PBatch from' (acc ++ keep_from tok cur (seg cur (Z.to_nat (from' - cur)))) (k + j)
    /\ count <= from' /\ cur <= from' <= loglen /\ (1 <= j)%nat /\ Z.of_nat j <= Z.max 1 (count - cur).
Proof.
  intros pg tok count WB. induction fuel as [|f IH]; intros k cur acc Hc Hf; [lia|].
  destruct (WB k cur Hc) as (n & Hp & Hl & Hn).
  cbn [page_loop]. rewrite Hp, handle_unconfirmed_spec, page_exit_ge.
  destruct (cur + Z.of_nat n >=? count) eqn:E.
  - exists (cur + Z.of_nat n), 1%nat. replace (Z.to_nat (cur + Z.of_nat n - cur)) with n by lia.
    replace (k + 1)%nat with (S k) by lia. repeat apply conj; try reflexivity; try lia.
  - assert (Hlt : cur + Z.of_nat n < count) by lia. assert (Hn' : (0 < n)%nat) by (apply Hn; lia).
    destruct (IH (S k) (cur + Z.of_nat n) (acc ++ keep_from tok cur (seg cur n))) as (from' & j & Hr & H1 & H2 & H3 & H4); [lia|lia|].
    exists from', (S j). rewrite Hr. repeat apply conj; try lia.
    f_equal; [|lia]. rewrite <- app_assoc. f_equal.
    replace (Z.to_nat (from' - cur)) with (n + Z.to_nat (from' - (cur + Z.of_nat n)))%nat by lia.
    rewrite seg_app by lia. rewrite keep_from_app. rewrite seg_length by lia. reflexivity.
Qed.

(* one poll against a well-behaved node: terminates without exhausting the fuel, delivers exactly the kept events of
   stream[from .. from'), reaches at least the polled count, and needs at most max(1, count - from) page requests *)
Theorem poll_wb : forall pg tok count from, 0 <= from <= loglen -> wb_pages pg count ->
  poll (Some count) pg tok from = PIdle /\ count = from \/
  exists from' nreq, poll (Some count) pg tok from = PBatch from' (keep_from tok from (seg from (Z.to_nat (from' - from)))) nreq
    /\ count <= from' /\ from <= from' <= loglen /\ (1 <= nreq)%nat /\ Z.of_nat nreq <= Z.max 1 (count - from)
    /\ Z.of_nat nreq <= Z.max 0 (count - from) + 1.
Proof.
  intros pg tok count from Hf WB. unfold poll. destruct (count =? from) eqn:E.
  - left. split; [reflexivity|lia].
  - right. destruct (page_loop_wb pg tok count WB (poll_fuel from count) 0%nat from [] Hf) as (from' & j & Hr & H1 & H2 & H3 & H4).
    + unfold poll_fuel. lia.
    + exists from', j. rewrite Hr. cbn [app plus]. repeat apply conj; try reflexivity; lia.
Qed.

End Stream.

(* ================================================================== C09: no loss, no duplicate, no spin, robustness *)
(* ================================================================== C09: no loss, no duplicate, no spin, robustness *)
(* a re-observation request never terminates the watcher *)
Lemma gov_events_no_panic : forall c blk hd tok evs pos, gov_events c blk hd tok pos evs <> GePanic.
Proof.
  intros c blk hd tok evs. induction evs as [|te t IH]; intro pos; cbn [gov_events]; [discriminate|].
  destruct (negb (e_index (t_ev te) =? alph_wm_event_index)); [apply IH|].
  destruct (alph_reobs_addr_filter && negb (t_addr te =? c_gov c)); [apply IH|].
  destruct (alph_reobs_block_filter && negb (e_block (t_ev te) =? blk)); [apply IH|].
  destruct (hd (e_block (t_ev te))); [|discriminate]. destruct (e_conv (t_ev te)) as [m|]; [|discriminate].
  specialize (IH (pos + 1)).
  destruct (is_attest m).
  - pose proof (validate_attest_no_panic m (tok pos)) as P. destruct (validate_attest m (tok pos)) as [ti| |]; [|exact IH|congruence].
    destruct (gov_events c blk hd tok (pos + 1) t); cbn [ge_cons]; congruence.
  - destruct (gov_events c blk hd tok (pos + 1) t); cbn [ge_cons]; congruence.
Qed.

Lemma reobserve_flag : forall c r, snd (reobserve c r) = FNone.
Proof.
  intros c r. unfold reobserve. destruct (negb (r_chain r =? alph_chain_id)); [reflexivity|].
  destruct (negb (r_txlen r =? alph_txid_len)); [reflexivity|].
  destruct (r_status r) as [[blk|]|]; try reflexivity. destruct (r_events r) as [evs|]; [|reflexivity].
  pose proof (gov_events_no_panic c blk (r_hd r) (r_tok r) evs 0) as P.
  destruct (gov_events c blk (r_hd r) (r_tok r) 0 evs); try reflexivity; [congruence|].
  destruct (r_mc r) as [[|]|]; try reflexivity. destruct (r_height r); reflexivity.
Qed.

Lemma keep_from_ext : forall tok T evs idx, (forall i, tok i = T i) -> keep_from tok idx evs = keep_from T idx evs.
Proof.
  intros tok T evs. induction evs as [|e t IH]; intros idx H; cbn [keep_from]; [reflexivity|]. rewrite H, IH by exact H. reflexivity.
Qed.

Lemma process_blocks_total : forall mn height now mc hd P, (forall b, mc b <> None) -> (forall b, hd b <> None) ->
  exists P' conf, process_blocks mn height now mc hd P = Some (P', conf).
Proof.
  intros mn height now mc hd P Hm Hh. induction P as [|b t (P' & conf & IH)]; cbn [process_blocks]; [eauto|].
  unfold process_block. destruct (mc (pb_hash b)) as [canon|] eqn:M; [|exfalso; eapply Hm; exact M].
  destruct (pb_hdr b) as [h|].
  - rewrite IH. eauto.
  - destruct (hd (pb_hash b)) as [h|] eqn:Hd; [|exfalso; eapply Hh; exact Hd]. rewrite IH. eauto.
Qed.

Section Partition.
Variable c : cfg.
Variable log : list cevent.
Variable T : Z -> mc_ans.       (* the node's metadata answer for the event at each stream index *)

(* a step without node API error against a node with well-behaved paging *)
Definition fine (o : op) : Prop :=
  match o with
  | OPoll cn pg tok => exists count, cn = Some count /\ wb_pages log pg count /\ (forall i, tok i = T i)
  | OTick _ _ mc hd => (forall b, mc b <> None) /\ (forall b, hd b <> None)
  | OHeightErr => False
  | _ => True
  end.

Definition poll_bound (s : wstate) (o : op) : Prop :=
  match o with
  | OPoll (Some count) _ _ =>
      w_inflight s = None ->
      count <= w_from (fst (step c s o)) /\ Z.of_nat (o_nreq (snd (step c s o))) <= Z.max 0 (count - w_from s) + 1
  | _ => True
  end.

Lemma seg_zero : forall s, seg log s 0 = [].
Proof. reflexivity. Qed.

Theorem step_fine : forall s o, Inv0 s -> w_dead s = false -> 0 <= w_from s <= loglen log -> fine o ->
  let s' := fst (step c s o) in let x := snd (step c s o) in
  w_dead s' = false /\ o_flag x = FNone /\ w_from s <= w_from s' <= loglen log /\
  o_batch x = keep_from T (w_from s) (seg log (w_from s) (Z.to_nat (w_from s' - w_from s))) /\ poll_bound s o.
Proof.
  intros s o HI D Hf Hfine. pose proof HI as [I1 I2].
  assert (Same : forall w, w_from w = w_from s -> w_dead w = false ->
            w_dead w = false /\ FNone = FNone /\ w_from s <= w_from w <= loglen log /\
            @nil uevent = keep_from T (w_from s) (seg log (w_from s) (Z.to_nat (w_from w - w_from s)))).
  { intros w E Dw. rewrite E, Z.sub_diag. cbn [Z.to_nat]. rewrite seg_zero. cbn [keep_from]. repeat apply conj; auto; lia. }
  cbv zeta. unfold poll_bound, step. rewrite D.
  destruct o as [cn pg tok| |height now mc hd|r|]; cbn [fine] in Hfine.
  - destruct Hfine as (count & -> & WB & Ht).
    destruct (w_inflight s) as [l0|] eqn:F; cbn [fst snd out0 o_flag o_batch].
    + destruct (Same s eq_refl D) as (S1 & S2 & S3 & S4). repeat apply conj; auto; try lia. intro Hc; discriminate Hc.
    + destruct (poll_wb log pg tok count (w_from s) Hf WB) as [[P E]|(from' & nreq & P & B1 & B2 & B3 & B4 & B5)]; rewrite P.
      * cbn [fst snd out0 o_flag o_batch o_nreq]. destruct (Same s eq_refl D) as (S1 & S2 & S3 & S4). repeat apply conj; auto; try lia; try (intros _; cbn [o_nreq out0 Z.of_nat]; lia).
      * cbn [fst snd o_flag o_batch o_nreq w_from w_dead]. rewrite (keep_from_ext tok T) by exact Ht. repeat apply conj; auto; try lia; try (intros _; split; lia).
  - destruct (w_inflight s) as [l|] eqn:F; cbn [fst snd out0 o_flag o_batch].
    + destruct (Same {| w_from := w_from s; w_inflight := None; w_pending := add_batch (w_pending s) l;
                        w_enabled := if is_nil l then w_enabled s else true; w_dead := false |} eq_refl eq_refl) as (S1 & S2 & S3 & S4).
      repeat apply conj; auto; try lia.
    + destruct (Same s eq_refl D) as (S1 & S2 & S3 & S4). repeat apply conj; auto; try lia.
  - destruct Hfine as [Hm Hh]. destruct (process_blocks_total (c_mainnet c) height now mc hd (w_pending s) Hm Hh) as (P' & conf & R). rewrite R.
    destruct (process_blocks_good c NoP1 NoP2 NoP1 _ _ _ _ _ _ _ (fun _ _ _ => I) I2 R) as [G1 G2].
    pose proof (handle_confirmed_noerr c NoP1 NoP2 NoP1 _ _ _ _ G2) as E.
    destruct (handle_confirmed (c_bridge c) conf) as [f err]. cbn [snd] in E. subst err. cbn [fst snd o_flag o_batch].
    destruct (Same {| w_from := w_from s; w_inflight := w_inflight s; w_pending := P';
                      w_enabled := if is_nil P' then false else w_enabled s; w_dead := false |} eq_refl eq_refl) as (S1 & S2 & S3 & S4).
    repeat apply conj; auto; try lia.
  - pose proof (reobserve_flag c r) as Fl. destruct (reobserve c r) as [f fl]. cbn [snd] in Fl. subst fl. cbn [fst snd o_flag o_batch].
    destruct (Same s eq_refl D) as (S1 & S2 & S3 & S4). repeat apply conj; auto; try lia.
  - destruct Hfine.
Qed.

Fixpoint all_quiet (s : wstate) (ops : list op) : Prop :=
  match ops with
  | [] => True
  | o :: t => o_flag (snd (step c s o)) = FNone /\ poll_bound s o /\ all_quiet (fst (step c s o)) t
  end.

(* over every history of error-free steps: the watcher never terminates, never spins, never panics, every poll stays
   within its request bound and reaches the polled count, and the batches delivered are - in order, each exactly once -
   the kept events of stream[from0 .. from_final) *)
Theorem partition_all_histories : forall ops s, Inv0 s -> w_dead s = false -> 0 <= w_from s <= loglen log -> Forall fine ops ->
  w_dead (final c s ops) = false /\ all_quiet s ops /\ w_from s <= w_from (final c s ops) <= loglen log /\
  batches c s ops = keep_from T (w_from s) (seg log (w_from s) (Z.to_nat (w_from (final c s ops) - w_from s))).
Proof.
  induction ops as [|o t IH]; intros s HI D Hf Hfine; cbn [final all_quiet batches].
  - rewrite Z.sub_diag. cbn [Z.to_nat]. rewrite seg_zero. cbn [keep_from]. repeat apply conj; auto; lia.
  - inversion Hfine as [|o' t' Ho Ht]; subst.
    destruct (step_fine s o HI D Hf Ho) as (S1 & S2 & S3 & S4 & S5).
    pose proof (step_inv c NoP1 NoP2 NoP1 s o HI (op_ok_st_of c NoP1 NoP2 NoP1 o (op_ok_triv c o))) as HI'.
    destruct (IH (fst (step c s o)) HI' S1 ltac:(lia) Ht) as (J1 & J2 & J3 & J4).
    repeat apply conj; auto; try lia.
    rewrite S4, J4.
    set (f0 := w_from s) in *. set (f1 := w_from (fst (step c s o))) in *. set (f2 := w_from (final c (fst (step c s o)) t)) in *.
    replace (Z.to_nat (f2 - f0)) with (Z.to_nat (f1 - f0) + Z.to_nat (f2 - f1))%nat by lia.
    rewrite seg_app by lia. rewrite keep_from_app. rewrite seg_length by (unfold loglen in *; lia).
    replace (f0 + Z.of_nat (Z.to_nat (f1 - f0))) with f1 by lia. reflexivity.
Qed.

(* fromIndex never moves backwards, so it ends at or above every count it has polled *)
Lemma final_from_mono : forall ops s, Inv0 s -> w_dead s = false -> 0 <= w_from s <= loglen log -> Forall fine ops -> w_from s <= w_from (final c s ops).
Proof. intros ops s HI D Hf Hfine. destruct (partition_all_histories ops s HI D Hf Hfine) as (_ & _ & H & _). lia. Qed.

End Partition.

(* the control flow of a poll (fromIndex afterwards, number of page requests, outcome) does not depend on the contents of
   the events at all - only on the nextStart values the node reports *)
Definition pnext (a : page_ans) : option Z := match a with PageErr => None | Page _ n => Some n end.
Definition pshape (r : poll_res) : poll_res :=
  match r with PBatch f _ n => PBatch f [] n | x => x end.

Lemma page_loop_shape : forall pg1 pg2 tok1 tok2 count, (forall k s, pnext (pg1 k s) = pnext (pg2 k s)) ->
  forall fuel k cur acc1 acc2,
  pshape (page_loop pg1 tok1 fuel k cur count acc1) = pshape (page_loop pg2 tok2 fuel k cur count acc2).
Proof.
  intros pg1 pg2 tok1 tok2 count Hn. induction fuel as [|f IH]; intros k cur acc1 acc2; cbn [page_loop]; [reflexivity|].
  specialize (Hn k cur). destruct (pg1 k cur) as [|e1 n1]; destruct (pg2 k cur) as [|e2 n2]; cbn [pnext] in Hn; try discriminate; [reflexivity|].
  injection Hn as <-. rewrite !handle_unconfirmed_spec. destruct (alph_page_exit n1 count); [reflexivity|apply IH].
Qed.

Theorem poll_shape_independent_of_contents : forall pg1 pg2 tok1 tok2 cn from,
  (forall k s, pnext (pg1 k s) = pnext (pg2 k s)) -> pshape (poll cn pg1 tok1 from) = pshape (poll cn pg2 tok2 from).
Proof.
  intros pg1 pg2 tok1 tok2 cn from Hn. unfold poll. destruct cn as [count|]; [|reflexivity].
  destruct (count =? from); [reflexivity|]. apply page_loop_shape. exact Hn.
Qed.

(* a poll ends in an error only because of a node API error, and never panics, whatever the events contain *)
Lemma page_loop_outcomes : forall pg tok count fuel k cur acc,
  match page_loop pg tok fuel k cur count acc with
  | PFatal => exists k' s, pg k' s = PageErr
  | PPanic => False
  | _ => True
  end.
Proof.
  intros pg tok count. induction fuel as [|f IH]; intros k cur acc; cbn [page_loop]; [exact I|].
  destruct (pg k cur) as [|evs next] eqn:P; [eauto|]. rewrite handle_unconfirmed_spec.
  destruct (alph_page_exit next count); [exact I|apply IH].
Qed.

Theorem poll_fatal_only_by_api_error : forall cn pg tok from,
  match poll cn pg tok from with
  | PFatal => cn = None \/ exists k s, pg k s = PageErr
  | PPanic => False
  | _ => True
  end.
Proof.
  intros cn pg tok from. unfold poll. destruct cn as [count|]; [|left; reflexivity].
  destruct (count =? from); [exact I|].
  pose proof (page_loop_outcomes pg tok count (poll_fuel from count) 0 from []) as H.
  destruct (page_loop pg tok (poll_fuel from count) 0 from count []); auto.
Qed.
