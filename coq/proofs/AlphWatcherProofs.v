(* Proofs about the Alephium watcher model (C08 / C09). *)
From Coq Require Import List ZArith Bool Lia.
From WH Require Import gen.Extracted model.AlphWatcher.
Import ListNotations.
Open Scope Z_scope.

(* ------------------------------------------------------------------ isEventConfirmed *)
Definition sane_hdr (h : header) (cl : Z) : Prop :=
  0 <= h_height h <= 2147483647 - 255 /\ 0 <= cl <= 255 /\ - 4611686018427387904 <= h_ts h <= 4611686018427387904.

Lemma wrap32_id : forall x, -2147483648 <= x <= 2147483647 -> wrap32 x = x.
Proof. intros x H. unfold wrap32. rewrite Z.mod_small by lia. lia. Qed.
Lemma wrap64_id : forall x, -9223372036854775808 <= x <= 9223372036854775807 -> wrap64 x = x.
Proof. intros x H. unfold wrap64. rewrite Z.mod_small by lia. lia. Qed.

Definition hold (mainnet : bool) (m : wmsg) : Z :=
  if mainnet && is_transfer m then Z.max (m_cl m) 205 * 16000 else m_cl m * 16000.

Lemma duration_hold : forall mn m, alph_duration mn (is_transfer m) (m_cl m) = hold mn m.
Proof. reflexivity. Qed.

Lemma confirmed_spec : forall mn m h now height,
  sane_hdr h (m_cl m) ->
  confirmed mn m h now height = true <-> (h_height h + m_cl m <= height /\ h_ts h + hold mn m <= now).
Proof.
  intros mn m h now height (Hh & Hc & Ht). unfold confirmed. rewrite duration_hold.
  assert (Hd : 0 <= hold mn m <= 255 * 16000) by (unfold hold; destruct (mn && is_transfer m); lia).
  rewrite wrap32_id by lia. rewrite wrap64_id by lia.
  unfold alph_height_short, alph_time_short.
  destruct (h_height h + m_cl m >? height) eqn:A; destruct (h_ts h + hold mn m >? now) eqn:B; split; intros; try discriminate; try lia; auto.
Qed.
