(* Proofs about the Alephium watcher model (C08 / C09). *)
From Coq Require Import List ZArith Bool Lia Arith.
From WH Require Import gen.Extracted model.AlphWatcher.
Import ListNotations.
Open Scope Z_scope.

(* ------------------------------------------------------------------ GetTokenInfo never panics (repaired nil tests) *)
Lemma shape_test_same : forall rs i, shape_test rs i i <> ShPanic.
Proof.
  intros rs i. unfold shape_test. destruct (nth i rs CFailed) as [|rets] eqn:E; cbn [succeeded negb].
  - discriminate.
  - destruct rets as [|v [|w t]]; discriminate.
Qed.

Lemma tokinfo_tests_own : alph_tokinfo_tests = (0, 1, 2)%nat.
Proof. reflexivity. Qed.

Lemma get_token_info_no_panic : forall id a, get_token_info id a <> TiPanic.
Proof.
  intros id a. unfold get_token_info. destruct (id =? alph_native_id); [discriminate|].
  destruct a as [|rs]; [discriminate|].
  destruct (negb (Nat.eqb (length rs) 3)); [discriminate|].
  rewrite tokinfo_tests_own.
  pose proof (shape_test_same rs 0) as P0. pose proof (shape_test_same rs 1) as P1. pose proof (shape_test_same rs 2) as P2.
  destruct (shape_test rs 0 0); try discriminate; try congruence.
  destruct (shape_test rs 1 1); try discriminate; try congruence.
  destruct (shape_test rs 2 2); try discriminate; try congruence.
  destruct (to_bytevec v); [|discriminate]. destruct (to_bytevec v0); [|discriminate]. destruct (to_uint8 v1); discriminate.
Qed.

Lemma tokinfo_eqb_eq : forall a b, tokinfo_eqb a b = true -> a = b.
Proof.
  intros [a1 a2 a3 a4] [b1 b2 b3 b4]. unfold tokinfo_eqb. cbn [ti_id ti_dec ti_sym ti_name]. intro H.
  apply andb_prop in H as [H H4]. apply andb_prop in H as [H H3]. apply andb_prop in H as [H1 H2].
  apply Z.eqb_eq in H1, H2, H3, H4. subst. reflexivity.
Qed.

Lemma validate_attest_no_panic : forall m a, validate_attest m a <> VaPanic.
Proof.
  intros m a. unfold validate_attest. destruct (m_tok m) as [ti|]; [|discriminate].
  pose proof (get_token_info_no_panic (ti_id ti) a) as P.
  destruct (get_token_info (ti_id ti) a) as [t| |]; try discriminate; try congruence.
  destruct (tokinfo_eqb ti t); discriminate.
Qed.

(* what a successful validation means: the payload decodes and equals the token contract's answer *)
Lemma validate_attest_ok : forall m a t, validate_attest m a = VaOk t ->
  m_tok m = Some t /\ get_token_info (ti_id t) a = TiOk t.
Proof.
  intros m a t. unfold validate_attest. destruct (m_tok m) as [ti|]; [|discriminate].
  destruct (get_token_info (ti_id ti) a) as [t'| |] eqn:G; try discriminate.
  destruct (tokinfo_eqb ti t') eqn:E; [|discriminate]. intro H. injection H as <-.
  apply tokinfo_eqb_eq in E. subst t'. split; [reflexivity|exact G].
Qed.

(* ------------------------------------------------------------------ handleUnconfirmedEvents: every event is judged on its own *)
Lemma unconv_skipped : alph_unconv_aborts = false.
Proof. reflexivity. Qed.

(* contribution of one event of the stream to the batch *)
Definition keep1 (a : mc_ans) (e : cevent) : list uevent := match classify a e with Keep u => [u] | _ => [] end.

Lemma classify_cases : forall a e, classify a e = Skip \/ exists u, classify a e = Keep u.
Proof.
  intros a e. unfold classify. rewrite unconv_skipped. destruct (to_unconfirmed e) as [m|]; [|left; reflexivity].
  destruct (is_attest m).
  - pose proof (validate_attest_no_panic m a) as P. destruct (validate_attest m a); try congruence; [right; eexists; reflexivity | left; reflexivity].
  - right. eexists. reflexivity.
Qed.

Fixpoint keep_from (tok : Z -> mc_ans) (idx : Z) (evs : list cevent) : list uevent :=
  match evs with [] => [] | e :: t => keep1 (tok idx) e ++ keep_from tok (idx + 1) t end.

Lemma handle_unconfirmed_spec : forall tok evs idx, handle_unconfirmed tok idx evs = HuOk (keep_from tok idx evs).
Proof.
  intros tok evs. induction evs as [|e t IH]; intro idx; cbn [handle_unconfirmed keep_from]; [reflexivity|].
  unfold keep1. destruct (classify_cases (tok idx) e) as [H | [u H]]; rewrite H, IH; reflexivity.
Qed.

Lemma keep_from_app : forall tok a b idx,
  keep_from tok idx (a ++ b) = keep_from tok idx a ++ keep_from tok (idx + Z.of_nat (length a)) b.
Proof.
  intros tok a. induction a as [|e t IH]; intros b idx.
  - cbn [app keep_from length]. f_equal. lia.
  - cbn [app keep_from length]. rewrite IH, <- app_assoc. do 3 f_equal. lia.
Qed.

(* a malformed event (one toUnconfirmedEvent rejects) contributes nothing, and changes nothing else *)
Lemma keep1_malformed : forall a e, to_unconfirmed e = None -> keep1 a e = [].
Proof. intros a e H. unfold keep1, classify. rewrite H, unconv_skipped. reflexivity. Qed.

Lemma keep_from_one_event : forall tok a e b idx,
  keep_from tok idx (a ++ e :: b) =
  keep_from tok idx a ++ keep1 (tok (idx + Z.of_nat (length a))) e ++ keep_from tok (idx + Z.of_nat (length a) + 1) b.
Proof. intros. rewrite keep_from_app. cbn [keep_from]. reflexivity. Qed.

Lemma keep_from_malformed_transparent : forall tok a e b idx, to_unconfirmed e = None ->
  keep_from tok idx (a ++ e :: b) = keep_from tok idx a ++ keep_from tok (idx + Z.of_nat (length a) + 1) b.
Proof. intros. rewrite keep_from_one_event, keep1_malformed by assumption. reflexivity. Qed.

(* a well-formed non-attestation event is kept whatever its sender (the sender filter comes after confirmation) *)
Lemma keep1_plain : forall a e m, to_unconfirmed e = Some m -> is_attest m = false ->
  keep1 a e = [ {| u_ev := e; u_msg := m; u_chain := None |} ].
Proof. intros a e m H A. unfold keep1, classify. rewrite H, A. reflexivity. Qed.

Lemma keep1_attest : forall a e m, to_unconfirmed e = Some m -> is_attest m = true ->
  keep1 a e = match validate_attest m a with VaOk t => [ {| u_ev := e; u_msg := m; u_chain := Some t |} ] | _ => [] end.
Proof. intros a e m H A. unfold keep1, classify. rewrite H, A. destruct (validate_attest m a); reflexivity. Qed.

(* every kept element stems from its event *)
Definition good (u : uevent) : Prop :=
  to_unconfirmed (u_ev u) = Some (u_msg u) /\
  (is_attest (u_msg u) = true -> exists t, u_chain u = Some t /\ m_tok (u_msg u) = Some t).

Lemma keep1_good : forall a e u, In u (keep1 a e) -> u_ev u = e /\ good u /\
  (is_attest (u_msg u) = true -> exists t, u_chain u = Some t /\ get_token_info (ti_id t) a = TiOk t).
Proof.
  intros a e u. unfold keep1, classify. destruct (to_unconfirmed e) as [m|] eqn:T.
  - destruct (is_attest m) eqn:A.
    + destruct (validate_attest m a) as [t| |] eqn:V; cbn [In]; try tauto.
      intros [<-|[]]. unfold good. cbn [u_ev u_msg u_chain]. apply validate_attest_ok in V as [V1 V2].
      split; [reflexivity|]. split; [split; [exact T|intros _; exists t; auto]|intros _; exists t; auto].
    + cbn [In]. intros [<-|[]]. unfold good. cbn [u_ev u_msg u_chain]. split; [reflexivity|]. split; [split; [exact T|]|]; rewrite A; discriminate.
  - rewrite unconv_skipped. cbn [In]. tauto.
Qed.

Lemma keep_from_in : forall tok evs idx u, In u (keep_from tok idx evs) ->
  exists i e, In e evs /\ In u (keep1 (tok i) e).
Proof.
  intros tok evs. induction evs as [|e t IH]; intros idx u; cbn [keep_from]; [intros []|].
  intro H. apply in_app_or in H as [H|H].
  - exists idx, e. split; [left; reflexivity|exact H].
  - destruct (IH _ _ H) as (i & e' & I & K). exists i, e'. split; [right; exact I|exact K].
Qed.

(* ------------------------------------------------------------------ segments of the event stream *)
Lemma skipn_plus : forall {A} (l : list A) a b, skipn (a + b) l = skipn b (skipn a l).
Proof.
  intros A l a. revert l. induction a as [|a IH]; intros l b; [reflexivity|].
  destruct l as [|x l]; cbn [plus skipn]; [rewrite skipn_nil; reflexivity|apply IH].
Qed.
Lemma firstn_plus_skip : forall {A} (l : list A) n m, firstn (n + m) l = firstn n l ++ firstn m (skipn n l).
Proof.
  intros A l n. revert l. induction n as [|n IH]; intros l m; [reflexivity|].
  destruct l as [|x l]; cbn [plus firstn skipn app]; [rewrite firstn_nil; reflexivity|f_equal; apply IH].
Qed.

Lemma In_firstn : forall {A} (l : list A) n x, In x (firstn n l) -> In x l.
Proof.
  intros A l. induction l as [|y l IH]; intros n x H; destruct n; cbn [firstn] in H; try destruct H as [H|H]; try (destruct H; fail).
  - left. exact H.
  - right. eapply IH. exact H.
Qed.
Lemma In_skipn : forall {A} (l : list A) n x, In x (skipn n l) -> In x l.
Proof.
  intros A l. induction l as [|y l IH]; intros n x H; destruct n; cbn [skipn] in H; try exact H.
  right. eapply IH. exact H.
Qed.

Section Stream.
Variable log : list cevent.     (* the governance contract's event stream (append-only; the part that ever becomes visible) *)

Definition seg (s : Z) (n : nat) : list cevent := firstn n (skipn (Z.to_nat s) log).
Definition loglen : Z := Z.of_nat (length log).

Lemma seg_length : forall s n, 0 <= s -> s + Z.of_nat n <= loglen -> length (seg s n) = n.
Proof.
  intros s n Hs H. unfold seg, loglen in *. rewrite firstn_length, skipn_length. lia.
Qed.

Lemma seg_app : forall s n m, 0 <= s -> seg s (n + m) = seg s n ++ seg (s + Z.of_nat n) m.
Proof.
  intros s n m Hs. unfold seg. replace (Z.to_nat (s + Z.of_nat n)) with (Z.to_nat s + n)%nat by lia.
  rewrite skipn_plus. apply firstn_plus_skip.
Qed.

Lemma seg_in : forall s n e, In e (seg s n) -> In e log.
Proof.
  intros s n e H. unfold seg in H. apply In_firstn in H. apply In_skipn in H. exact H.
Qed.

(* well-behaved paging during one poll that obtained `count`: every page request is answered with a segment of the
   stream starting at the requested index (whatever page size, whatever has landed meanwhile), and the answer is not
   empty while the requested index is below the count the node has already reported *)
Definition wb_pages (pg : nat -> Z -> page_ans) (count : Z) : Prop :=
  forall k s, 0 <= s <= loglen -> exists n : nat,
    pg k s = Page (seg s n) (s + Z.of_nat n) /\ s + Z.of_nat n <= loglen /\ (s < count -> (0 < n)%nat).

Lemma page_exit_ge : forall next count, alph_page_exit next count = (next >=? count).
Proof. reflexivity. Qed.

Lemma page_loop_wb : forall pg tok count, wb_pages pg count ->
  forall fuel k cur acc, 0 <= cur <= loglen -> (Z.to_nat (count - cur) < fuel)%nat ->
  exists from' j, page_loop pg tok fuel k cur count acc =
                  PBatch from' (acc ++ keep_from tok cur (seg cur (Z.to_nat (from' - cur)))) (k + j)
    /\ count <= from' /\ cur <= from' <= loglen /\ (1 <= j)%nat /\ Z.of_nat j <= Z.max 1 (count - cur).
Proof.
  intros pg tok count WB. induction fuel as [|f IH]; intros k cur acc Hc Hf; [lia|].
  destruct (WB k cur Hc) as (n & Hp & Hl & Hn).
  cbn [page_loop]. rewrite Hp, handle_unconfirmed_spec, page_exit_ge.
  destruct (cur + Z.of_nat n >=? count) eqn:E.
  - exists (cur + Z.of_nat n), 1%nat. replace (Z.to_nat (cur + Z.of_nat n - cur)) with n by lia.
    replace (k + 1)%nat with (S k) by lia. repeat apply conj; try reflexivity; try lia.
  - assert (Hlt : cur + Z.of_nat n < count) by lia. assert (Hn' : (0 < n)%nat) by (apply Hn; lia).
    destruct (IH (S k) (cur + Z.of_nat n) (acc ++ keep_from tok cur (seg cur n))) as (from' & j & Hr & H1 & H2 & H3 & H4); [lia|lia|].
    exists from', (S j). rewrite Hr. repeat apply conj; try lia.
    f_equal; [|lia]. rewrite <- app_assoc. f_equal.
    replace (Z.to_nat (from' - cur)) with (n + Z.to_nat (from' - (cur + Z.of_nat n)))%nat by lia.
    rewrite seg_app by lia. rewrite keep_from_app. rewrite seg_length by lia. reflexivity.
Qed.

(* one poll against a well-behaved node: terminates without exhausting the fuel, delivers exactly the kept events of
   stream[from .. from'), reaches at least the polled count, and needs at most max(1, count - from) page requests *)
Theorem poll_wb : forall pg tok count from, 0 <= from <= loglen -> wb_pages pg count ->
  poll (Some count) pg tok from = PIdle /\ count = from \/
  exists from' nreq, poll (Some count) pg tok from = PBatch from' (keep_from tok from (seg from (Z.to_nat (from' - from)))) nreq
    /\ count <= from' /\ from <= from' <= loglen /\ (1 <= nreq)%nat /\ Z.of_nat nreq <= Z.max 1 (count - from)
    /\ Z.of_nat nreq <= Z.max 0 (count - from) + 1.
Proof.
  intros pg tok count from Hf WB. unfold poll. destruct (count =? from) eqn:E.
  - left. split; [reflexivity|lia].
  - right. destruct (page_loop_wb pg tok count WB (poll_fuel from count) 0%nat from [] Hf) as (from' & j & Hr & H1 & H2 & H3 & H4).
    + unfold poll_fuel. lia.
    + exists from', j. rewrite Hr. cbn [app plus]. repeat apply conj; try reflexivity; lia.
Qed.

End Stream.

(* ================================================================== the structural invariant of the watcher's state *)
Lemma to_unconfirmed_some : forall e m, to_unconfirmed e = Some m <-> e_index e = alph_wm_event_index /\ e_conv e = Some m.
Proof.
  intros e m. unfold to_unconfirmed. destruct (e_index e =? alph_wm_event_index) eqn:E.
  - apply Z.eqb_eq in E. tauto.
  - apply Z.eqb_neq in E. split; [discriminate|tauto].
Qed.

Definition plist (p : list pblock) : list uevent := flat_map pb_evs p.

Section Safety.
Variable c : cfg.
(* provenance predicates, arbitrary: whatever holds for everything the node answered holds for what is forwarded *)
Variable EP : cevent -> Prop.        (* "is an event of the configured governance contract" *)
Variable HP : Z -> header -> Prop.   (* HP b h: "h is the header of block b" *)
Variable AP : mc_ans -> Prop.        (* "is an answer of the node to the token-metadata multicall" *)

Definition op_ok (o : op) : Prop :=
  match o with
  | OPoll cnt pg tok => (forall k s evs next, pg k s = Page evs next -> Forall EP evs) /\ (forall i, AP (tok i))
  | OTick height now mc hd => forall b h, hd b = Some h -> HP b h
  | OReobs r => (forall evs, r_events r = Some evs -> Forall (fun te => t_addr te = c_gov c -> EP (t_ev te)) evs)
                /\ (forall b h, r_hd r b = Some h -> HP b h) /\ (forall i, AP (r_tok r i))
  | _ => True
  end.

Definition attest_ok (m : wmsg) (ch : option tokinfo) : Prop :=
  is_attest m = true -> exists t a, ch = Some t /\ m_tok m = Some t /\ AP a /\ get_token_info (ti_id t) a = TiOk t.

Definition ugood (u : uevent) : Prop :=
  EP (u_ev u) /\ to_unconfirmed (u_ev u) = Some (u_msg u) /\ attest_ok (u_msg u) (u_chain u).

Definition bgood (b : pblock) : Prop :=
  Forall (fun u => ugood u /\ e_block (u_ev u) = pb_hash b) (pb_evs b) /\ (forall h, pb_hdr b = Some h -> HP (pb_hash b) h).

Definition Inv (s : wstate) : Prop :=
  (forall l, w_inflight s = Some l -> Forall ugood l) /\ Forall bgood (w_pending s).

Lemma Inv_init : forall from0, Inv (init from0).
Proof. intro from0. split; [intros l H; discriminate H|constructor]. Qed.

(* ---- polling *)
Lemma keep1_ugood : forall a e u, EP e -> AP a -> In u (keep1 a e) -> ugood u.
Proof.
  intros a e u He Ha H. apply keep1_good in H as (E & (G1 & G2) & G3). unfold ugood. rewrite E. repeat apply conj; auto.
  - rewrite <- E. exact G1.
  - intro A. destruct (G2 A) as (t & C1 & C2). destruct (G3 A) as (t' & C1' & C3). assert (t' = t) by congruence. subst t'.
    exists t, a. auto.
Qed.

Lemma keep_from_ugood : forall tok evs idx, Forall EP evs -> (forall i, AP (tok i)) -> Forall ugood (keep_from tok idx evs).
Proof.
  intros tok evs idx He Ha. apply Forall_forall. intros u H. apply keep_from_in in H as (i & e & I & K).
  eapply keep1_ugood; [|apply Ha|exact K]. rewrite Forall_forall in He. apply He. exact I.
Qed.

Lemma page_loop_ugood : forall pg tok count,
  (forall k s evs next, pg k s = Page evs next -> Forall EP evs) -> (forall i, AP (tok i)) ->
  forall fuel k cur acc from' batch n, Forall ugood acc -> page_loop pg tok fuel k cur count acc = PBatch from' batch n -> Forall ugood batch.
Proof.
  intros pg tok count Hp Ha. induction fuel as [|f IH]; intros k cur acc from' batch n Hacc H; [discriminate|].
  cbn [page_loop] in H. destruct (pg k cur) as [|evs next] eqn:P; [discriminate|].
  rewrite handle_unconfirmed_spec in H.
  assert (G : Forall ugood (acc ++ keep_from tok cur evs)).
  { apply Forall_app. split; [exact Hacc|]. apply keep_from_ugood; [eapply Hp; exact P|exact Ha]. }
  destruct (alph_page_exit next count).
  - injection H as <- <- <-. exact G.
  - eapply IH; [exact G|exact H].
Qed.

(* ---- delivering a batch to the event loop *)
Lemma add_event_bgood : forall p u, Forall bgood p -> ugood u -> Forall bgood (add_event p u).
Proof.
  intros p u Hp Hu. induction p as [|b t IH]; cbn [add_event].
  - constructor; [|constructor]. split; cbn [pb_evs pb_hdr pb_hash]; [|intros h H; discriminate H].
    constructor; [split; [exact Hu|reflexivity]|constructor].
  - inversion Hp as [|b' t' Hb Ht]; subst. destruct (pb_hash b =? e_block (u_ev u)) eqn:E.
    + apply Z.eqb_eq in E. constructor; [|exact Ht]. destruct Hb as [Hb1 Hb2]. split; cbn [pb_evs pb_hdr pb_hash]; [|exact Hb2].
      apply Forall_app. split; [exact Hb1|]. constructor; [split; [exact Hu|symmetry; exact E]|constructor].
    + constructor; [exact Hb|apply IH; exact Ht].
Qed.

Lemma add_batch_bgood : forall l p, Forall bgood p -> Forall ugood l -> Forall bgood (add_batch p l).
Proof.
  unfold add_batch. induction l as [|u l IH]; intros p Hp Hl; cbn [fold_left]; [exact Hp|].
  inversion Hl; subst. apply IH; [apply add_event_bgood; assumption|assumption].
Qed.

(* ---- height tick *)
Definition cgood (height now : Z) (mc : Z -> option bool) (x : uevent * header) : Prop :=
  ugood (fst x) /\ HP (e_block (u_ev (fst x))) (snd x) /\ mc (e_block (u_ev (fst x))) = Some true /\
  confirmed (c_mainnet c) (u_msg (fst x)) (snd x) now height = true.

Lemma process_block_good : forall height now mc hd b k conf,
  (forall b h, hd b = Some h -> HP b h) -> bgood b ->
  process_block (c_mainnet c) height now mc hd b = BOk k conf ->
  (forall b', k = Some b' -> bgood b') /\ Forall (cgood height now mc) conf.
Proof.
  intros height now mc hd b k conf Hhd [Hb1 Hb2] H. unfold process_block in H.
  destruct (mc (pb_hash b)) as [canon|] eqn:M; [|discriminate].
  destruct (match pb_hdr b with Some h => Some h | None => hd (pb_hash b) end) as [h|] eqn:Hh; [|discriminate].
  assert (HPh : HP (pb_hash b) h).
  { destruct (pb_hdr b) as [h'|] eqn:P; [injection Hh as <-; apply Hb2; reflexivity|apply Hhd; exact Hh]. }
  injection H as <- <-. split.
  - intros b' Hk. destruct (filter _ (pb_evs b)) as [|x r] eqn:F; [discriminate|]. injection Hk as <-.
    split; cbn [pb_evs pb_hdr pb_hash]; [|intros h' Hq; injection Hq as <-; exact HPh].
    rewrite <- F. apply Forall_forall. intros u Hu. apply filter_In in Hu as [Hu _]. rewrite Forall_forall in Hb1. apply Hb1. exact Hu.
  - destruct canon; [|constructor]. apply Forall_forall. intros [u h'] Hx. apply in_map_iff in Hx as (u' & Hx & Hu').
    injection Hx as <- <-. apply filter_In in Hu' as [Hu' Hc]. rewrite Forall_forall in Hb1. destruct (Hb1 _ Hu') as [G E].
    unfold cgood. cbn [fst snd]. rewrite E. auto.
Qed.

Lemma process_blocks_good : forall height now mc hd p p' conf,
  (forall b h, hd b = Some h -> HP b h) -> Forall bgood p ->
  process_blocks (c_mainnet c) height now mc hd p = Some (p', conf) ->
  Forall bgood p' /\ Forall (cgood height now mc) conf.
Proof.
  intros height now mc hd p. induction p as [|b t IH]; intros p' conf Hhd Hp H; cbn [process_blocks] in H.
  - injection H as <- <-. split; constructor.
  - inversion Hp as [|b0 t0 Hb Ht]; subst.
    destruct (process_block (c_mainnet c) height now mc hd b) as [|k cf] eqn:B; [discriminate|].
    destruct (process_blocks (c_mainnet c) height now mc hd t) as [[q cf']|] eqn:R; [|discriminate].
    injection H as <- <-. destruct (IH _ _ Hhd Ht eq_refl) as [I1 I2].
    destruct (process_block_good _ _ _ _ _ _ _ Hhd Hb B) as [K1 K2]. split.
    + destruct k as [b'|]; [constructor; [apply K1; reflexivity|exact I1]|exact I1].
    + apply Forall_app. split; assumption.
Qed.

(* handleConfirmedEvents never meets an unknown event index: toUnconfirmedEvent has filtered it *)
Lemma handle_confirmed_noerr : forall height now mc conf, Forall (cgood height now mc) conf ->
  snd (handle_confirmed (c_bridge c) conf) = false.
Proof.
  intros height now mc conf. induction conf as [|[u h] t IH]; intro H; cbn [handle_confirmed]; [reflexivity|].
  inversion H as [|x t' Hx Ht]; subst. destruct Hx as ((G1 & G2 & G3) & _). cbn [fst] in G2. apply to_unconfirmed_some in G2 as [G2 _].
  rewrite G2, Z.eqb_refl. specialize (IH Ht). destruct (handle_confirmed (c_bridge c) t) as [f e]. cbn [snd] in *.
  destruct (m_sender (u_msg u) =? c_bridge c); exact IH.
Qed.

Lemma gov_events_no_panic : forall blk hd tok evs pos, gov_events c blk hd tok pos evs <> GePanic.
Proof.
  intros blk hd tok evs. induction evs as [|te t IH]; intro pos; cbn [gov_events]; [discriminate|].
  destruct (negb (e_index (t_ev te) =? alph_wm_event_index)); [apply IH|].
  destruct (alph_reobs_addr_filter && negb (t_addr te =? c_gov c)); [apply IH|].
  destruct (alph_reobs_block_filter && negb (e_block (t_ev te) =? blk)); [apply IH|].
  destruct (hd (e_block (t_ev te))); [|discriminate]. destruct (e_conv (t_ev te)) as [m|]; [|discriminate].
  specialize (IH (pos + 1)).
  destruct (is_attest m).
  - pose proof (validate_attest_no_panic m (tok pos)) as P. destruct (validate_attest m (tok pos)) as [ti| |]; [|exact IH|congruence].
    destruct (gov_events c blk hd tok (pos + 1) t); cbn [ge_cons]; congruence.
  - destruct (gov_events c blk hd tok (pos + 1) t); cbn [ge_cons]; congruence.
Qed.

Lemma reobserve_flag : forall r, snd (reobserve c r) = FNone.
Proof.
  intro r. unfold reobserve. destruct (negb (r_chain r =? alph_chain_id)); [reflexivity|].
  destruct (negb (r_txlen r =? alph_txid_len)); [reflexivity|].
  destruct (r_status r) as [[blk|]|]; try reflexivity. destruct (r_events r) as [evs|]; [|reflexivity].
  pose proof (gov_events_no_panic blk (r_hd r) (r_tok r) evs 0) as P.
  destruct (gov_events c blk (r_hd r) (r_tok r) 0 evs); try reflexivity; [congruence|].
  destruct (r_mc r) as [[|]|]; try reflexivity. destruct (r_height r); reflexivity.
Qed.

(* ---- one step preserves the invariant (a re-observation request never touches the watcher's state) *)
Definition op_ok_st (o : op) : Prop := match o with OReobs _ => True | _ => op_ok o end.

Lemma op_ok_st_of : forall o, op_ok o -> op_ok_st o.
Proof. intros o H. destruct o; exact H || exact I. Qed.

Theorem step_inv : forall s o, Inv s -> op_ok_st o -> Inv (fst (step c s o)).
Proof.
  intros s o HI Hok. pose proof HI as [I1 I2]. unfold step. destruct (w_dead s) eqn:D; [exact HI|].
  assert (Hdie : Inv (die s)) by (split; [exact I1|exact I2]).
  destruct o as [cnt pg tok| |height now mc hd|r|].
  - destruct (w_inflight s) as [l0|] eqn:F; [exact HI|].
    destruct Hok as [Hp Ha].
    destruct (poll cnt pg tok (w_from s)) as [|from' batch n| | |] eqn:P; cbn [fst]; try (exact HI || exact Hdie).
    split; cbn [w_inflight w_pending]; [|exact I2].
    intros l Hl. injection Hl as <-. unfold poll in P. destruct cnt as [count|]; [|discriminate].
    destruct (count =? w_from s); [discriminate|].
    eapply page_loop_ugood; [exact Hp|exact Ha| |exact P]. constructor.
  - destruct (w_inflight s) as [l|] eqn:F; cbn [fst]; [|exact HI].
    split; cbn [w_inflight w_pending]; [intros l' H; discriminate H|].
    apply add_batch_bgood; [exact I2|apply (proj1 HI); exact F].
  - destruct (process_blocks (c_mainnet c) height now mc hd (w_pending s)) as [[p' conf]|] eqn:R; [|exact Hdie].
    destruct (process_blocks_good _ _ _ _ _ _ _ Hok I2 R) as [G1 G2].
    destruct (handle_confirmed (c_bridge c) conf) as [f err]. cbn [fst].
    split; cbn [w_inflight w_pending]; assumption.
  - destruct (reobserve c r) as [f fl]. cbn [fst]. destruct fl; exact HI || exact Hdie.
  - exact Hdie.
Qed.

End Safety.

(* ================================================================== accounting: nothing is forwarded twice *)
Definition cnt (p : uevent -> bool) (l : list uevent) : nat := length (filter p l).
Definition fwd_u (f : fwd) : uevent := {| u_ev := f_ev f; u_msg := f_msg f; u_chain := f_chain f |}.

Lemma fwd_u_mkfwd : forall u h, fwd_u (mkfwd u h) = u.
Proof. intros [e m ch] h. reflexivity. Qed.

Lemma cnt_app : forall p a b, cnt p (a ++ b) = (cnt p a + cnt p b)%nat.
Proof. intros. unfold cnt. rewrite filter_app, app_length. reflexivity. Qed.

Lemma cnt_filter_split : forall p f l, (cnt p (filter f l) + cnt p (filter (fun x => negb (f x)) l) = cnt p l)%nat.
Proof.
  intros p f l. unfold cnt. induction l as [|x l IH]; [reflexivity|]. cbn [filter].
  destruct (f x); cbn [negb filter]; destruct (p x); cbn [length]; lia.
Qed.

Lemma cnt_filter_le : forall p f l, (cnt p (filter f l) <= cnt p l)%nat.
Proof. intros p f l. pose proof (cnt_filter_split p f l). lia. Qed.

Lemma plist_add_event : forall p P u, cnt p (plist (add_event P u)) = (cnt p (plist P) + cnt p [u])%nat.
Proof.
  intros p P u. induction P as [|b t IH]; cbn [add_event].
  - unfold plist. cbn [flat_map pb_evs]. rewrite app_nil_r. reflexivity.
  - destruct (pb_hash b =? e_block (u_ev u)).
    + unfold plist. cbn [flat_map pb_evs]. rewrite !cnt_app. lia.
    + unfold plist in *. cbn [flat_map]. rewrite !cnt_app, IH. lia.
Qed.

Lemma plist_add_batch : forall p l P, cnt p (plist (add_batch P l)) = (cnt p (plist P) + cnt p l)%nat.
Proof.
  intros p l. unfold add_batch. induction l as [|u l IH]; intro P; cbn [fold_left].
  - unfold cnt at 3. cbn. lia.
  - rewrite IH, plist_add_event. change (u :: l) with ([u] ++ l). rewrite cnt_app. lia.
Qed.

Lemma process_block_count : forall p mn height now mc hd b k conf,
  process_block mn height now mc hd b = BOk k conf ->
  (cnt p (map fst conf) + cnt p (match k with Some b' => pb_evs b' | None => [] end) <= cnt p (pb_evs b))%nat.
Proof.
  intros p mn height now mc hd b k conf H. unfold process_block in H.
  destruct (mc (pb_hash b)) as [canon|]; [|discriminate].
  destruct (match pb_hdr b with Some h => Some h | None => hd (pb_hash b) end) as [h|]; [|discriminate].
  injection H as <- <-.
  pose proof (cnt_filter_split p (fun u => confirmed mn (u_msg u) h now height) (pb_evs b)) as S.
  set (remain := filter (fun u => negb (confirmed mn (u_msg u) h now height)) (pb_evs b)) in *.
  assert (K : cnt p (match (match remain with [] => None | _ :: _ => Some {| pb_hash := pb_hash b; pb_hdr := Some h; pb_evs := remain |} end) with
                     | Some b' => pb_evs b' | None => [] end) = cnt p remain) by (destruct remain; reflexivity).
  rewrite K. destruct canon.
  - rewrite map_map. cbn [fst]. rewrite map_id. lia.
  - cbn [map]. unfold cnt at 1. cbn. lia.
Qed.

Lemma process_blocks_count : forall p mn height now mc hd P P' conf,
  process_blocks mn height now mc hd P = Some (P', conf) ->
  (cnt p (map fst conf) + cnt p (plist P') <= cnt p (plist P))%nat.
Proof.
  intros p mn height now mc hd P. induction P as [|b t IH]; intros P' conf H; cbn [process_blocks] in H.
  - injection H as <- <-. cbn. lia.
  - destruct (process_block mn height now mc hd b) as [|k cf] eqn:B; [discriminate|].
    destruct (process_blocks mn height now mc hd t) as [[q cf']|] eqn:R; [|discriminate].
    injection H as <- <-. specialize (IH _ _ eq_refl). pose proof (process_block_count p _ _ _ _ _ _ _ _ B) as C.
    rewrite map_app, cnt_app. unfold plist in *. cbn [flat_map]. rewrite cnt_app.
    destruct k as [b'|]; cbn [flat_map]; rewrite ?cnt_app; lia.
Qed.

Lemma handle_confirmed_count : forall p br conf,
  (cnt p (map fwd_u (fst (handle_confirmed br conf))) <= cnt p (map fst conf))%nat.
Proof.
  intros p br conf. induction conf as [|[u h] t IH]; cbn [handle_confirmed]; [cbn; lia|].
  destruct (e_index (u_ev u) =? alph_wm_event_index); [|cbn [fst map]; unfold cnt at 1; cbn; lia].
  destruct (handle_confirmed br t) as [f e]. cbn [fst] in *. cbn [map fst].
  change (u :: map fst t) with ([u] ++ map fst t). rewrite cnt_app.
  destruct (m_sender (u_msg u) =? br); cbn [fst map]; [|lia].
  rewrite fwd_u_mkfwd. change (u :: map fwd_u f) with ([u] ++ map fwd_u f). rewrite cnt_app. lia.
Qed.

(* what the watcher holds: pending events plus the batch in flight between fetchEvents and the event loop *)
Definition held (s : wstate) : list uevent := plist (w_pending s) ++ match w_inflight s with Some l => l | None => [] end.
(* messages forwarded by the polling path in a step *)
Definition tick_fwd (o : op) (x : out) : list uevent := match o with OTick _ _ _ _ => map fwd_u (o_fwd x) | _ => [] end.

Lemma held_die : forall s, held (die s) = held s.
Proof. reflexivity. Qed.
Lemma cnt_nil : forall p, cnt p [] = 0%nat.
Proof. reflexivity. Qed.

Lemma step_count : forall c p s o,
  (cnt p (tick_fwd o (snd (step c s o))) + cnt p (held (fst (step c s o))) <= cnt p (held s) + cnt p (o_batch (snd (step c s o))))%nat.
Proof.
  intros c p s o. unfold step.
  assert (Triv : forall o', (cnt p (tick_fwd o' out0) + cnt p (held s) <= cnt p (held s) + cnt p (o_batch out0))%nat).
  { intro o'. destruct o'; cbn [tick_fwd out0 o_fwd o_batch map]; rewrite ?cnt_nil; lia. }
  destruct (w_dead s); [apply Triv|].
  destruct o as [cn pg tok| |height now mc hd|r|].
  - destruct (w_inflight s) as [l0|] eqn:F; [apply Triv|].
    destruct (poll cn pg tok (w_from s)) as [|from' batch n| | |];
      [apply (Triv (OPoll cn pg tok))| |cbn [fst snd tick_fwd o_batch]; rewrite held_die, !cnt_nil; lia ..].
    cbn [fst snd tick_fwd o_batch]. unfold held. cbn [w_pending w_inflight]. rewrite F, !cnt_app, cnt_nil. lia.
  - destruct (w_inflight s) as [l|] eqn:F; [|apply Triv]. cbn [fst snd tick_fwd o_batch out0].
    unfold held. cbn [w_pending w_inflight]. rewrite F, !cnt_app, plist_add_batch, !cnt_nil. lia.
  - destruct (process_blocks (c_mainnet c) height now mc hd (w_pending s)) as [[p' conf]|] eqn:R.
    + pose proof (process_blocks_count p _ _ _ _ _ _ _ _ R) as C. pose proof (handle_confirmed_count p (c_bridge c) conf) as Hc.
      destruct (handle_confirmed (c_bridge c) conf) as [f err]. cbn [fst snd tick_fwd o_fwd o_batch] in *.
      unfold held. cbn [w_pending w_inflight]. rewrite !cnt_app, cnt_nil. lia.
    + cbn [fst snd tick_fwd o_fwd o_batch map]. rewrite held_die, !cnt_nil. lia.
  - destruct (reobserve c r) as [f fl]. cbn [fst snd tick_fwd o_batch]. destruct fl; rewrite ?held_die, !cnt_nil; lia.
  - cbn [fst snd tick_fwd o_batch]. rewrite held_die, !cnt_nil. lia.
Qed.

(* the batches produced and the messages forwarded on the polling path along a history *)
Fixpoint batches (c : cfg) (s : wstate) (ops : list op) : list uevent :=
  match ops with [] => [] | o :: t => o_batch (snd (step c s o)) ++ batches c (fst (step c s o)) t end.
Fixpoint tick_fwds (c : cfg) (s : wstate) (ops : list op) : list uevent :=
  match ops with [] => [] | o :: t => tick_fwd o (snd (step c s o)) ++ tick_fwds c (fst (step c s o)) t end.
Fixpoint final (c : cfg) (s : wstate) (ops : list op) : wstate :=
  match ops with [] => s | o :: t => final c (fst (step c s o)) t end.

Theorem forwarded_at_most_fetched : forall c p ops s,
  (cnt p (tick_fwds c s ops) + cnt p (held (final c s ops)) <= cnt p (held s) + cnt p (batches c s ops))%nat.
Proof.
  intros c p ops. induction ops as [|o t IH]; intro s; cbn [tick_fwds batches final]; [cbn; lia|].
  rewrite !cnt_app. specialize (IH (fst (step c s o))). pose proof (step_count c p s o). lia.
Qed.

Lemma run_final : forall c ops s, snd (run c s ops) = final c s ops.
Proof.
  intros c ops. induction ops as [|o t IH]; intro s; cbn [run final]; [reflexivity|].
  destruct (step c s o) as [s' x]. cbn [fst]. specialize (IH s'). destruct (run c s' t) as [xs s'']. cbn [snd] in *. exact IH.
Qed.

(* ================================================================== the block poller stays enabled while events are pending *)
Lemma process_blocks_nil : forall mn height now mc hd P conf, process_blocks mn height now mc hd P = Some ([], conf) -> P = [] \/ P <> [].
Proof. intros. destruct P; [left; reflexivity|right; discriminate]. Qed.

Lemma add_batch_nonempty : forall l P, add_batch P l <> [] -> P <> [] \/ l <> [].
Proof. intros l P H. destruct l; [left; exact H|right; discriminate]. Qed.

Definition poller_inv (s : wstate) : Prop := w_pending s <> [] -> w_enabled s = true.

Lemma step_poller : forall c s o, poller_inv s -> poller_inv (fst (step c s o)).
Proof.
  intros c s o I. unfold step. destruct (w_dead s); [exact I|].
  destruct o as [cn pg tok| |height now mc hd|r|].
  - destruct (w_inflight s); [exact I|]. destruct (poll cn pg tok (w_from s)); exact I.
  - destruct (w_inflight s) as [l|]; [|exact I]. cbn [fst]. unfold poller_inv. cbn [w_pending w_enabled].
    intro H. destruct l as [|u l]; cbn [is_nil]; [|reflexivity]. apply I. exact H.
  - destruct (process_blocks (c_mainnet c) height now mc hd (w_pending s)) as [[p' conf]|] eqn:R; [|exact I].
    destruct (handle_confirmed (c_bridge c) conf) as [f err]. cbn [fst]. unfold poller_inv. cbn [w_pending w_enabled].
    intro H. destruct p' as [|b p']; [congruence|]. cbn [is_nil]. apply I. destruct (w_pending s); [|discriminate].
    cbn [process_blocks] in R. discriminate.
  - destruct (reobserve c r) as [f fl]. destruct fl; exact I.
  - exact I.
Qed.

Theorem poller_enabled_while_pending : forall c ops from0, poller_inv (final c (init from0) ops).
Proof.
  intros c ops from0. assert (G : forall s, poller_inv s -> poller_inv (final c s ops)).
  { induction ops as [|o t IH]; intros s I; cbn [final]; [exact I|]. apply IH. apply step_poller. exact I. }
  apply G. intro H. exfalso. apply H. reflexivity.
Qed.

(* ================================================================== C09: no loss, no duplicate, no spin, robustness *)
Definition NoP1 {A} : A -> Prop := fun _ => True.
Definition NoP2 {A B} : A -> B -> Prop := fun _ _ => True.
(* the structural invariant alone (no provenance predicates) *)
Definition Inv0 : wstate -> Prop := Inv NoP1 NoP2 NoP1.

Lemma op_ok_triv : forall c o, op_ok c NoP1 NoP2 NoP1 o.
Proof.
  intros c o. destruct o as [cn pg tok| |height now mc hd|r|]; cbn [op_ok]; unfold NoP1, NoP2; auto.
  - split; [|auto]. intros k s evs next _. apply Forall_forall. auto.
  - split; [|auto]. intros evs _. apply Forall_forall. auto.
Qed.

Lemma step_dead : forall c s o, w_dead s = true -> step c s o = (s, out0).
Proof. intros c s o H. unfold step. rewrite H. reflexivity. Qed.

Lemma final_dead : forall c ops s, w_dead s = true -> w_dead (final c s ops) = true.
Proof.
  intros c ops. induction ops as [|o t IH]; intros s H; cbn [final]; [exact H|]. rewrite step_dead by exact H. cbn [fst]. apply IH. exact H.
Qed.

Lemma keep_from_ext : forall tok T evs idx, (forall i, tok i = T i) -> keep_from tok idx evs = keep_from T idx evs.
Proof.
  intros tok T evs. induction evs as [|e t IH]; intros idx H; cbn [keep_from]; [reflexivity|]. rewrite H, IH by exact H. reflexivity.
Qed.

Lemma process_blocks_total : forall mn height now mc hd P, (forall b, mc b <> None) -> (forall b, hd b <> None) ->
  exists P' conf, process_blocks mn height now mc hd P = Some (P', conf).
Proof.
  intros mn height now mc hd P Hm Hh. induction P as [|b t (P' & conf & IH)]; cbn [process_blocks]; [eauto|].
  unfold process_block. destruct (mc (pb_hash b)) as [canon|] eqn:M; [|exfalso; eapply Hm; exact M].
  destruct (pb_hdr b) as [h|].
  - rewrite IH. eauto.
  - destruct (hd (pb_hash b)) as [h|] eqn:Hd; [|exfalso; eapply Hh; exact Hd]. rewrite IH. eauto.
Qed.

Section Partition.
Variable c : cfg.
Variable log : list cevent.
Variable T : Z -> mc_ans.       (* the node's metadata answer for the event at each stream index *)

(* a step without node API error against a node with well-behaved paging *)
Definition fine (o : op) : Prop :=
  match o with
  | OPoll cn pg tok => exists count, cn = Some count /\ wb_pages log pg count /\ (forall i, tok i = T i)
  | OTick _ _ mc hd => (forall b, mc b <> None) /\ (forall b, hd b <> None)
  | OHeightErr => False
  | _ => True
  end.

Definition poll_bound (s : wstate) (o : op) : Prop :=
  match o with
  | OPoll (Some count) _ _ =>
      w_inflight s = None ->
      count <= w_from (fst (step c s o)) /\ Z.of_nat (o_nreq (snd (step c s o))) <= Z.max 0 (count - w_from s) + 1
  | _ => True
  end.

Lemma seg_zero : forall s, seg log s 0 = [].
Proof. reflexivity. Qed.

Theorem step_fine : forall s o, Inv0 s -> w_dead s = false -> 0 <= w_from s <= loglen log -> fine o ->
  let s' := fst (step c s o) in let x := snd (step c s o) in
  w_dead s' = false /\ o_flag x = FNone /\ w_from s <= w_from s' <= loglen log /\
  o_batch x = keep_from T (w_from s) (seg log (w_from s) (Z.to_nat (w_from s' - w_from s))) /\ poll_bound s o.
Proof.
  intros s o HI D Hf Hfine. pose proof HI as [I1 I2].
  assert (Same : forall w, w_from w = w_from s -> w_dead w = false ->
            w_dead w = false /\ FNone = FNone /\ w_from s <= w_from w <= loglen log /\
            @nil uevent = keep_from T (w_from s) (seg log (w_from s) (Z.to_nat (w_from w - w_from s)))).
  { intros w E Dw. rewrite E, Z.sub_diag. cbn [Z.to_nat]. rewrite seg_zero. cbn [keep_from]. repeat apply conj; auto; lia. }
  cbv zeta. unfold poll_bound, step. rewrite D.
  destruct o as [cn pg tok| |height now mc hd|r|]; cbn [fine] in Hfine.
  - destruct Hfine as (count & -> & WB & Ht).
    destruct (w_inflight s) as [l0|] eqn:F; cbn [fst snd out0 o_flag o_batch].
    + destruct (Same s eq_refl D) as (S1 & S2 & S3 & S4). repeat apply conj; auto; try lia. intro Hc; discriminate Hc.
    + destruct (poll_wb log pg tok count (w_from s) Hf WB) as [[P E]|(from' & nreq & P & B1 & B2 & B3 & B4 & B5)]; rewrite P.
      * cbn [fst snd out0 o_flag o_batch o_nreq]. destruct (Same s eq_refl D) as (S1 & S2 & S3 & S4). repeat apply conj; auto; try lia; try (intros _; cbn [o_nreq out0 Z.of_nat]; lia).
      * cbn [fst snd o_flag o_batch o_nreq w_from w_dead]. rewrite (keep_from_ext tok T) by exact Ht. repeat apply conj; auto; try lia; try (intros _; split; lia).
  - destruct (w_inflight s) as [l|] eqn:F; cbn [fst snd out0 o_flag o_batch].
    + destruct (Same {| w_from := w_from s; w_inflight := None; w_pending := add_batch (w_pending s) l;
                        w_enabled := if is_nil l then w_enabled s else true; w_dead := false |} eq_refl eq_refl) as (S1 & S2 & S3 & S4).
      repeat apply conj; auto; try lia.
    + destruct (Same s eq_refl D) as (S1 & S2 & S3 & S4). repeat apply conj; auto; try lia.
  - destruct Hfine as [Hm Hh]. destruct (process_blocks_total (c_mainnet c) height now mc hd (w_pending s) Hm Hh) as (P' & conf & R). rewrite R.
    destruct (process_blocks_good c NoP1 NoP2 NoP1 _ _ _ _ _ _ _ (fun _ _ _ => I) I2 R) as [G1 G2].
    pose proof (handle_confirmed_noerr c NoP1 NoP2 NoP1 _ _ _ _ G2) as E.
    destruct (handle_confirmed (c_bridge c) conf) as [f err]. cbn [snd] in E. subst err. cbn [fst snd o_flag o_batch].
    destruct (Same {| w_from := w_from s; w_inflight := w_inflight s; w_pending := P';
                      w_enabled := if is_nil P' then false else w_enabled s; w_dead := false |} eq_refl eq_refl) as (S1 & S2 & S3 & S4).
    repeat apply conj; auto; try lia.
  - pose proof (reobserve_flag c r) as Fl. destruct (reobserve c r) as [f fl]. cbn [snd] in Fl. subst fl. cbn [fst snd o_flag o_batch].
    destruct (Same s eq_refl D) as (S1 & S2 & S3 & S4). repeat apply conj; auto; try lia.
  - destruct Hfine.
Qed.

Fixpoint all_quiet (s : wstate) (ops : list op) : Prop :=
  match ops with
  | [] => True
  | o :: t => o_flag (snd (step c s o)) = FNone /\ poll_bound s o /\ all_quiet (fst (step c s o)) t
  end.

(* over every history of error-free steps: the watcher never terminates, never spins, never panics, every poll stays
   within its request bound and reaches the polled count, and the batches delivered are - in order, each exactly once -
   the kept events of stream[from0 .. from_final) *)
Theorem partition_all_histories : forall ops s, Inv0 s -> w_dead s = false -> 0 <= w_from s <= loglen log -> Forall fine ops ->
  w_dead (final c s ops) = false /\ all_quiet s ops /\ w_from s <= w_from (final c s ops) <= loglen log /\
  batches c s ops = keep_from T (w_from s) (seg log (w_from s) (Z.to_nat (w_from (final c s ops) - w_from s))).
Proof.
  induction ops as [|o t IH]; intros s HI D Hf Hfine; cbn [final all_quiet batches].
  - rewrite Z.sub_diag. cbn [Z.to_nat]. rewrite seg_zero. cbn [keep_from]. repeat apply conj; auto; lia.
  - inversion Hfine as [|o' t' Ho Ht]; subst.
    destruct (step_fine s o HI D Hf Ho) as (S1 & S2 & S3 & S4 & S5).
    pose proof (step_inv c NoP1 NoP2 NoP1 s o HI (op_ok_st_of c NoP1 NoP2 NoP1 o (op_ok_triv c o))) as HI'.
    destruct (IH (fst (step c s o)) HI' S1 ltac:(lia) Ht) as (J1 & J2 & J3 & J4).
    repeat apply conj; auto; try lia.
    rewrite S4, J4.
    set (f0 := w_from s) in *. set (f1 := w_from (fst (step c s o))) in *. set (f2 := w_from (final c (fst (step c s o)) t)) in *.
    replace (Z.to_nat (f2 - f0)) with (Z.to_nat (f1 - f0) + Z.to_nat (f2 - f1))%nat by lia.
    rewrite seg_app by lia. rewrite keep_from_app. rewrite seg_length by (unfold loglen in *; lia).
    replace (f0 + Z.of_nat (Z.to_nat (f1 - f0))) with f1 by lia. reflexivity.
Qed.

(* fromIndex never moves backwards, so it ends at or above every count it has polled *)
Lemma final_from_mono : forall ops s, Inv0 s -> w_dead s = false -> 0 <= w_from s <= loglen log -> Forall fine ops -> w_from s <= w_from (final c s ops).
Proof. intros ops s HI D Hf Hfine. destruct (partition_all_histories ops s HI D Hf Hfine) as (_ & _ & H & _). lia. Qed.

End Partition.

(* the control flow of a poll (fromIndex afterwards, number of page requests, outcome) does not depend on the contents of
   the events at all - only on the nextStart values the node reports *)
Definition pnext (a : page_ans) : option Z := match a with PageErr => None | Page _ n => Some n end.
Definition pshape (r : poll_res) : poll_res :=
  match r with PBatch f _ n => PBatch f [] n | x => x end.

Lemma page_loop_shape : forall pg1 pg2 tok1 tok2 count, (forall k s, pnext (pg1 k s) = pnext (pg2 k s)) ->
  forall fuel k cur acc1 acc2,
  pshape (page_loop pg1 tok1 fuel k cur count acc1) = pshape (page_loop pg2 tok2 fuel k cur count acc2).
Proof.
  intros pg1 pg2 tok1 tok2 count Hn. induction fuel as [|f IH]; intros k cur acc1 acc2; cbn [page_loop]; [reflexivity|].
  specialize (Hn k cur). destruct (pg1 k cur) as [|e1 n1]; destruct (pg2 k cur) as [|e2 n2]; cbn [pnext] in Hn; try discriminate; [reflexivity|].
  injection Hn as <-. rewrite !handle_unconfirmed_spec. destruct (alph_page_exit n1 count); [reflexivity|apply IH].
Qed.

Theorem poll_shape_independent_of_contents : forall pg1 pg2 tok1 tok2 cn from,
  (forall k s, pnext (pg1 k s) = pnext (pg2 k s)) -> pshape (poll cn pg1 tok1 from) = pshape (poll cn pg2 tok2 from).
Proof.
  intros pg1 pg2 tok1 tok2 cn from Hn. unfold poll. destruct cn as [count|]; [|reflexivity].
  destruct (count =? from); [reflexivity|]. apply page_loop_shape. exact Hn.
Qed.

(* a poll ends in an error only because of a node API error, and never panics, whatever the events contain *)
Lemma page_loop_outcomes : forall pg tok count fuel k cur acc,
  match page_loop pg tok fuel k cur count acc with
  | PFatal => exists k' s, pg k' s = PageErr
  | PPanic => False
  | _ => True
  end.
Proof.
  intros pg tok count. induction fuel as [|f IH]; intros k cur acc; cbn [page_loop]; [exact I|].
  destruct (pg k cur) as [|evs next] eqn:P; [eauto|]. rewrite handle_unconfirmed_spec.
  destruct (alph_page_exit next count); [exact I|apply IH].
Qed.

Theorem poll_fatal_only_by_api_error : forall cn pg tok from,
  match poll cn pg tok from with
  | PFatal => cn = None \/ exists k s, pg k s = PageErr
  | PPanic => False
  | _ => True
  end.
Proof.
  intros cn pg tok from. unfold poll. destruct cn as [count|]; [|left; reflexivity].
  destruct (count =? from); [exact I|].
  pose proof (page_loop_outcomes pg tok count (poll_fuel from count) 0 from []) as H.
  destruct (page_loop pg tok (poll_fuel from count) 0 from count []); auto.
Qed.

(* ================================================================== C09: a pending event is forwarded at the first tick at which it is final *)
Definition pending_in (P : list pblock) (blk : Z) (u : uevent) : Prop :=
  exists b, In b P /\ pb_hash b = blk /\ In u (pb_evs b).

Lemma add_event_keeps : forall P u' blk u, pending_in P blk u -> pending_in (add_event P u') blk u.
Proof.
  intros P u' blk u. induction P as [|b t IH]; intros (b0 & Hb & Hh & Hu); [destruct Hb|]. cbn [add_event].
  destruct (pb_hash b =? e_block (u_ev u')) eqn:E.
  - destruct Hb as [<-|Hb].
    + eexists. split; [left; reflexivity|]. cbn [pb_hash pb_evs]. split; [exact Hh|apply in_or_app; left; exact Hu].
    + exists b0. split; [right; exact Hb|auto].
  - destruct Hb as [<-|Hb].
    + exists b. split; [left; reflexivity|auto].
    + destruct IH as (b1 & H1 & H2 & H3); [exists b0; auto|]. exists b1. split; [right; exact H1|auto].
Qed.

Lemma add_batch_keeps : forall l P blk u, pending_in P blk u -> pending_in (add_batch P l) blk u.
Proof.
  unfold add_batch. induction l as [|u' l IH]; intros P blk u H; cbn [fold_left]; [exact H|]. apply IH. apply add_event_keeps. exact H.
Qed.

Lemma handle_confirmed_in : forall br conf u h,
  Forall (fun x => e_index (u_ev (fst x)) = alph_wm_event_index) conf -> In (u, h) conf -> m_sender (u_msg u) = br ->
  In (mkfwd u h) (fst (handle_confirmed br conf)).
Proof.
  intros br conf u h. induction conf as [|[u0 h0] t IH]; intros Hi Hin Hs; [destruct Hin|]. cbn [handle_confirmed].
  inversion Hi as [|x t' Hx Ht]; subst x t'. cbn [fst] in Hx. rewrite Hx, Z.eqb_refl.
  destruct (handle_confirmed br t) as [f e] eqn:R. cbn [fst] in IH.
  destruct Hin as [Heq|Hin].
  - injection Heq as -> ->. rewrite Hs, Z.eqb_refl. cbn [fst]. left. reflexivity.
  - specialize (IH Ht Hin Hs). destruct (m_sender (u_msg u0) =? br); cbn [fst]; [right; exact IH|exact IH].
Qed.

Section TickLiveness.
Variable c : cfg.
Variable H : Z -> header.     (* the header of every block: the node's header answers are consistent with it *)
Definition HPh : Z -> header -> Prop := fun b h => h = H b.
Definition InvH : wstate -> Prop := Inv NoP1 HPh NoP1.
Definition okH (o : op) : Prop := match o with OTick _ _ _ hd => forall b h, hd b = Some h -> h = H b | _ => True end.

Lemma step_InvH : forall s o, InvH s -> okH o -> InvH (fst (step c s o)).
Proof.
  intros s o HI Hok. apply (step_inv c NoP1 HPh NoP1 s o HI). destruct o as [cn pg tok| |height now mc hd|r|]; cbn [op_ok_st op_ok]; try exact I.
  - split; [|unfold NoP1; auto]. intros k s0 evs next _. apply Forall_forall. unfold NoP1. auto.
  - exact Hok.
Qed.

Lemma process_block_live : forall height now mc hd b k conf,
  (forall b h, hd b = Some h -> h = H b) -> bgood NoP1 HPh NoP1 b ->
  process_block (c_mainnet c) height now mc hd b = BOk k conf ->
  forall u, In u (pb_evs b) ->
  (confirmed (c_mainnet c) (u_msg u) (H (pb_hash b)) now height = false ->
     exists b', k = Some b' /\ pb_hash b' = pb_hash b /\ In u (pb_evs b')) /\
  (confirmed (c_mainnet c) (u_msg u) (H (pb_hash b)) now height = true -> mc (pb_hash b) = Some true -> In (u, H (pb_hash b)) conf).
Proof.
  intros height now mc hd b k conf Hhd [Hb1 Hb2] R u Hu. unfold process_block in R.
  destruct (mc (pb_hash b)) as [canon|] eqn:M; [|discriminate].
  destruct (match pb_hdr b with Some h => Some h | None => hd (pb_hash b) end) as [h|] eqn:Hh; [|discriminate].
  assert (Eh : h = H (pb_hash b)).
  { destruct (pb_hdr b) as [h'|] eqn:P; [injection Hh as <-; apply Hb2; reflexivity|apply Hhd; exact Hh]. }
  subst h. injection R as <- <-. split.
  - intro Hc. assert (Hin : In u (filter (fun u0 => negb (confirmed (c_mainnet c) (u_msg u0) (H (pb_hash b)) now height)) (pb_evs b))).
    { apply filter_In. split; [exact Hu|rewrite Hc; reflexivity]. }
    destruct (filter (fun u0 => negb (confirmed (c_mainnet c) (u_msg u0) (H (pb_hash b)) now height)) (pb_evs b)) as [|x r] eqn:F; [destruct Hin|].
    eexists. split; [reflexivity|]. cbn [pb_hash pb_evs]. split; [reflexivity|exact Hin].
  - intros Hc Hm. injection Hm as ->. apply in_map_iff. exists u. split; [reflexivity|]. apply filter_In. auto.
Qed.

Lemma process_blocks_live : forall height now mc hd P P' conf,
  (forall b h, hd b = Some h -> h = H b) -> Forall (bgood NoP1 HPh NoP1) P ->
  process_blocks (c_mainnet c) height now mc hd P = Some (P', conf) ->
  forall blk u, pending_in P blk u ->
  (confirmed (c_mainnet c) (u_msg u) (H blk) now height = false -> pending_in P' blk u) /\
  (confirmed (c_mainnet c) (u_msg u) (H blk) now height = true -> mc blk = Some true -> In (u, H blk) conf).
Proof.
  intros height now mc hd P. induction P as [|b t IH]; intros P' conf Hhd HP R blk u (b0 & Hb & Hh & Hu); [destruct Hb|].
  cbn [process_blocks] in R. inversion HP as [|b' t' Hbg Htg]; subst.
  destruct (process_block (c_mainnet c) height now mc hd b) as [|k cf] eqn:B; [discriminate|].
  destruct (process_blocks (c_mainnet c) height now mc hd t) as [[q cf']|] eqn:R'; [|discriminate].
  injection R as <- <-. destruct Hb as [<-|Hb].
  - destruct (process_block_live _ _ _ _ _ _ _ Hhd Hbg B u Hu) as [L1 L2]. split.
    + intro Hc. destruct (L1 Hc) as (b' & -> & E1 & E2). exists b'. split; [left; reflexivity|auto].
    + intros Hc Hm. apply in_or_app. left. apply L2; assumption.
  - destruct (IH _ _ Hhd Htg eq_refl (pb_hash b0) u) as [L1 L2]; [exists b0; auto|]. split.
    + intro Hc. destruct (L1 Hc) as (b' & E0 & E1 & E2). exists b'. split; [destruct k; [right|]; exact E0|auto].
    + intros Hc Hm. apply in_or_app. right. apply L2; assumption.
Qed.

Lemma step_keeps_pending : forall s o blk u, InvH s -> okH o -> w_dead (fst (step c s o)) = false ->
  pending_in (w_pending s) blk u ->
  (forall height now mc hd, o = OTick height now mc hd -> confirmed (c_mainnet c) (u_msg u) (H blk) now height = false) ->
  pending_in (w_pending (fst (step c s o))) blk u.
Proof.
  intros s o blk u HI Hok Dd Hp Hnc. pose proof HI as [I1 I2]. revert Dd. unfold step. destruct (w_dead s); [intros _; exact Hp|].
  destruct o as [cn pg tok| |height now mc hd|r|].
  - destruct (w_inflight s); [intros _; exact Hp|]. destruct (poll cn pg tok (w_from s)); intros _; exact Hp.
  - destruct (w_inflight s) as [l|]; [|intros _; exact Hp]. intros _. cbn [fst w_pending]. apply add_batch_keeps. exact Hp.
  - destruct (process_blocks (c_mainnet c) height now mc hd (w_pending s)) as [[P' conf]|] eqn:R; [|cbn [fst die w_dead]; discriminate].
    destruct (process_blocks_live _ _ _ _ _ _ _ Hok I2 R blk u Hp) as [L1 _].
    destruct (handle_confirmed (c_bridge c) conf) as [f err]. intros _. cbn [fst w_pending]. apply L1. eapply Hnc. reflexivity.
  - destruct (reobserve c r) as [f fl]. destruct fl; intros _; exact Hp.
  - cbn [fst die w_dead]. discriminate.
Qed.

Lemma step_forwards : forall s height now mc hd blk u, InvH s -> okH (OTick height now mc hd) ->
  w_dead (fst (step c s (OTick height now mc hd))) = false ->
  pending_in (w_pending s) blk u -> m_sender (u_msg u) = c_bridge c ->
  confirmed (c_mainnet c) (u_msg u) (H blk) now height = true -> mc blk = Some true ->
  In (mkfwd u (H blk)) (o_fwd (snd (step c s (OTick height now mc hd)))).
Proof.
  intros s height now mc hd blk u HI Hok Dd Hp Hs Hc Hm. pose proof HI as [I1 I2]. revert Dd. unfold step.
  destruct (w_dead s) eqn:D; [cbn [fst]; congruence|].
  destruct (process_blocks (c_mainnet c) height now mc hd (w_pending s)) as [[P' conf]|] eqn:R; [|cbn [fst die w_dead]; discriminate].
  destruct (process_blocks_live _ _ _ _ _ _ _ Hok I2 R blk u Hp) as [_ L2].
  destruct (process_blocks_good c NoP1 HPh NoP1 _ _ _ _ _ _ _ Hok I2 R) as [G1 G2].
  assert (Hidx : Forall (fun x => e_index (u_ev (fst x)) = alph_wm_event_index) conf).
  { eapply Forall_impl; [|exact G2]. intros x ((_ & G & _) & _). apply to_unconfirmed_some in G. tauto. }
  pose proof (handle_confirmed_in (c_bridge c) conf u (H blk) Hidx (L2 Hc Hm) Hs) as Hin.
  destruct (handle_confirmed (c_bridge c) conf) as [f err]. intros _. cbn [fst snd o_fwd] in *. exact Hin.
Qed.

(* the first tick at which the event is final forwards it, whatever else happened before *)
Theorem pending_forwarded_when_final : forall pre s height now mc hd blk u,
  InvH s -> Forall okH pre -> okH (OTick height now mc hd) ->
  w_dead (fst (step c (final c s pre) (OTick height now mc hd))) = false ->
  pending_in (w_pending s) blk u -> m_sender (u_msg u) = c_bridge c ->
  (forall h' n' mc' hd', In (OTick h' n' mc' hd') pre -> confirmed (c_mainnet c) (u_msg u) (H blk) n' h' = false) ->
  confirmed (c_mainnet c) (u_msg u) (H blk) now height = true -> mc blk = Some true ->
  In (mkfwd u (H blk)) (o_fwd (snd (step c (final c s pre) (OTick height now mc hd)))).
Proof.
  induction pre as [|o t IH]; intros s height now mc hd blk u HI Hpre Hok Dd Hp Hs Hnc Hc Hm; cbn [final] in *.
  - apply step_forwards; assumption.
  - inversion Hpre as [|o' t' Ho Ht]; subst.
    assert (D1 : w_dead (fst (step c s o)) = false).
    { destruct (w_dead (fst (step c s o))) eqn:D1; [|reflexivity]. exfalso.
      pose proof (final_dead c t _ D1) as D2. rewrite step_dead in Dd by exact D2. cbn [fst] in Dd. congruence. }
    apply IH; try assumption.
    + apply step_InvH; assumption.
    + apply step_keeps_pending; try assumption. intros h' n' mc' hd' E. eapply Hnc. left. exact E.
    + intros h' n' mc' hd' Hin. eapply Hnc. right. exact Hin.
Qed.

End TickLiveness.

(* after a height tick nothing that is confirmed remains pending: confirmed events were forwarded or - orphaned block,
   foreign sender - dropped for good *)
Lemma process_block_leaves : forall mn height now mc hd b k conf, process_block mn height now mc hd b = BOk k conf ->
  forall b', k = Some b' -> exists h, pb_hdr b' = Some h /\ Forall (fun u => confirmed mn (u_msg u) h now height = false) (pb_evs b').
Proof.
  intros mn height now mc hd b k conf R b' Hk. unfold process_block in R.
  destruct (mc (pb_hash b)) as [canon|]; [|discriminate].
  destruct (match pb_hdr b with Some h => Some h | None => hd (pb_hash b) end) as [h|]; [|discriminate].
  injection R as <- <-. destruct (filter _ (pb_evs b)) as [|x r] eqn:F; [discriminate|]. injection Hk as <-.
  exists h. cbn [pb_hdr pb_evs]. split; [reflexivity|]. rewrite <- F. apply Forall_forall. intros u Hu.
  apply filter_In in Hu as [_ Hu]. apply negb_true_iff in Hu. exact Hu.
Qed.

Lemma process_blocks_leaves : forall mn height now mc hd P P' conf, process_blocks mn height now mc hd P = Some (P', conf) ->
  Forall (fun b' => exists h, pb_hdr b' = Some h /\ Forall (fun u => confirmed mn (u_msg u) h now height = false) (pb_evs b')) P'.
Proof.
  intros mn height now mc hd P. induction P as [|b t IH]; intros P' conf R; cbn [process_blocks] in R.
  - injection R as <- <-. constructor.
  - destruct (process_block mn height now mc hd b) as [|k cf] eqn:B; [discriminate|].
    destruct (process_blocks mn height now mc hd t) as [[q cf']|] eqn:R'; [|discriminate].
    injection R as <- <-. specialize (IH _ _ eq_refl). destruct k as [b'|]; [|exact IH].
    constructor; [eapply process_block_leaves; [exact B|reflexivity]|exact IH].
Qed.

Theorem tick_leaves_only_unconfirmed : forall c s height now mc hd,
  w_dead (fst (step c s (OTick height now mc hd))) = false ->
  Forall (fun b' => exists h, pb_hdr b' = Some h /\ Forall (fun u => confirmed (c_mainnet c) (u_msg u) h now height = false) (pb_evs b'))
         (w_pending (fst (step c s (OTick height now mc hd)))) \/ w_dead s = true.
Proof.
  intros c s height now mc hd. unfold step. destruct (w_dead s); [right; reflexivity|]. left.
  destruct (process_blocks (c_mainnet c) height now mc hd (w_pending s)) as [[P' conf]|] eqn:R; [|cbn [fst die w_dead] in *; discriminate].
  pose proof (process_blocks_leaves _ _ _ _ _ _ _ _ R) as L. destruct (handle_confirmed (c_bridge c) conf) as [f err]. cbn [fst w_pending]. exact L.
Qed.

(* ================================================================== reading the justification *)
(* what GetTokenInfo accepts: the native token, or three succeeded calls with exactly one well-typed return each *)
Lemma get_token_info_spec : forall id a t, get_token_info id a = TiOk t ->
  (id = alph_native_id /\ t = {| ti_id := alph_native_id; ti_dec := alph_native_decimals; ti_sym := alph_native_sym; ti_name := alph_native_name |}) \/
  (exists vs vn vd s n d, a = McRes [COk [vs]; COk [vn]; COk [vd]] /\ to_bytevec vs = Some s /\ to_bytevec vn = Some n /\ to_uint8 vd = Some d /\
                          t = {| ti_id := id; ti_dec := d; ti_sym := s; ti_name := n |}).
Proof.
  intros id a t. unfold get_token_info. destruct (id =? alph_native_id) eqn:E.
  - intro H. injection H as <-. left. apply Z.eqb_eq in E. auto.
  - destruct a as [|rs]; [discriminate|]. destruct rs as [|r0 [|r1 [|r2 [|r3 rest]]]]; cbn [length Nat.eqb negb]; try discriminate.
    rewrite tokinfo_tests_own. unfold shape_test. cbn [nth].
    destruct r0 as [|[|v0 [|w0 t0]]]; cbn [succeeded negb]; try discriminate.
    destruct r1 as [|[|v1 [|w1 t1]]]; cbn [succeeded negb]; try discriminate.
    destruct r2 as [|[|v2 [|w2 t2]]]; cbn [succeeded negb]; try discriminate.
    destruct (to_bytevec v0) as [s|] eqn:B0; [|discriminate]. destruct (to_bytevec v1) as [n|] eqn:B1; [|discriminate].
    destruct (to_uint8 v2) as [d|] eqn:B2; [|discriminate]. intro H. injection H as <-. right. exists v0, v1, v2, s, n, d. auto.
Qed.
