(* C08 for the composed pipeline (model.AlphPipeline): every message handed to the signer, on either path and along every
   history, is `faithful` (the conversion of the raw fields of ONE event the node served, handed over as toMessagePublication
   with the header of that event's block) AND its abstraction is `justified` in the sense of C08 in the step that sends it.
   Depends on the extracted re-observation filters / confirmation test (as AlphWatcherSafety does); the guard-independent part
   is in AlphPipelineBase. *)
From Coq Require Import List ZArith Bool Lia Arith.
From Coq Require Import Strings.Byte.
From WH Require Import lib.Bytes gen.Extracted gen.ExtractedAlphPipe model.Vaa model.AlphPipeline proofs.AlphPipelineRead proofs.AlphPipelineBase.
From WH Require model.AlphConv model.AlphWatcher proofs.AlphConvProofs proofs.AlphWatcherBase proofs.AlphWatcherSafety.
Import ListNotations.
Open Scope Z_scope.

Module WS := AlphWatcherSafety.

Section Safety.
Variable c : xcfg.
Variable EP : xevent -> Prop.
Variable HP : Z -> W.header -> Prop.
Variable AP : xmc_ans -> Prop.

Local Notation xop_ok := (AlphPipelineBase.xop_ok c EP HP AP).
Local Notation xattest_ok := (AlphPipelineRead.xattest_ok AP).
Local Notation XInv := (AlphPipelineBase.XInv EP HP AP).
Local Notation faithful := (AlphPipelineRead.faithful c EP HP AP).
Local Notation EPa := (AlphPipelineBase.EPa EP).
Local Notation APa := (AlphPipelineBase.APa AP).

Definition xrgood (r : xreobs_in) (evs : list xtevent) (blk : Z) (x : xtevent * xuevent * W.header) : Prop :=
  let '(te, u, h) := x in
  In te evs /\ xt_addr te = xc_gov c /\ x_block (xu_ev u) = blk /\ xr_hd r blk = Some h /\ xattest_ok (xu_msg u) (xu_chain u).

Lemma reobs_filters : alph_reobs_addr_filter = true /\ alph_reobs_block_filter = true /\ alph_reobs_wallclock = true.
Proof. repeat split. Qed.

Lemma xgov_events_good : forall r txid blk all evs pos l, (forall i, AP (xr_tok r i)) -> incl evs all ->
  xgov_events c txid blk (xr_hd r) (xr_tok r) pos evs = XGeOk l -> Forall (xrgood r all blk) l.
Proof.
  intros r txid blk all evs. induction evs as [|te t IH]; intros pos l Ha Hi H; cbn [xgov_events] in H.
  - injection H as <-. constructor.
  - assert (Hi' : incl t all) by (intros x Hx; apply Hi; right; exact Hx).
    assert (Hte : In te all) by (apply Hi; left; reflexivity).
    cbv zeta in H. destruct reobs_filters as (FA & FB & _). rewrite FA, FB in H. cbn [andb] in H.
    destruct (negb (x_index (with_txid txid (xt_ev te)) =? alph_wm_event_index)); [eapply IH; eauto|].
    destruct (negb (xt_addr te =? xc_gov c)) eqn:EA; [eapply IH; eauto|].
    destruct (negb (x_block (with_txid txid (xt_ev te)) =? blk)) eqn:EB; [eapply IH; eauto|].
    apply negb_false_iff in EA, EB. apply Z.eqb_eq in EA, EB.
    destruct (xr_hd r (x_block (with_txid txid (xt_ev te)))) as [h|] eqn:Hh; [|discriminate H].
    destruct (conv (with_txid txid (xt_ev te))) as [w|]; [|discriminate H].
    rewrite EB in Hh.
    destruct (xis_attest w) eqn:A.
    + destruct (xvalidate_attest w (xr_tok r pos)) as [ti| |] eqn:V; [|eapply IH; eauto|discriminate H].
      destruct (xgov_events c txid blk (xr_hd r) (xr_tok r) (pos + 1) t) as [| |l'] eqn:R; try discriminate H.
      cbn [xge_cons] in H. injection H as <-. constructor; [|eapply IH; eauto].
      unfold xrgood. cbn [xu_ev xu_msg xu_chain]. repeat apply conj; auto.
      intros _. apply xvalidate_attest_ok in V as [V1 V2]. exists ti, (xr_tok r pos). auto.
    + destruct (xgov_events c txid blk (xr_hd r) (xr_tok r) (pos + 1) t) as [| |l'] eqn:R; try discriminate H.
      cbn [xge_cons] in H. injection H as <-. constructor; [|eapply IH; eauto].
      unfold xrgood. cbn [xu_ev xu_msg xu_chain]. repeat apply conj; auto.
      intro A'. rewrite A in A'. discriminate A'.
Qed.

(* what a re-observation hands over: faithful, and the event is one the node listed for the REQUESTED transaction (32-byte
   hash, hex-encoded) with the governance contract's address, in the block the transaction is confirmed in *)
Definition reobs_from (r : xreobs_in) (f : xfwd) : Prop :=
  length (xr_txhash r) = 32%nat /\ x_txid (xf_ev f) = C.to_hex (xr_txhash r) /\
  xr_status r = Some (Some (x_block (xf_ev f))) /\ xr_mc r = Some true /\
  exists te evs, xr_events r = Some evs /\ In te evs /\ xf_ev f = with_txid (req_txid r) (xt_ev te) /\ xt_addr te = xc_gov c.

Lemma txid_len32 : alph_txid_len = 32.
Proof. reflexivity. Qed.

Lemma xreobserve_faithful : forall r, xop_ok (XReobs r) -> Forall (fun f => faithful f /\ reobs_from r f) (fst (xreobserve c r)).
Proof.
  intros r (He & Hh & Ha). unfold xreobserve.
  destruct (negb (xr_chain r =? alph_chain_id)); [constructor|].
  destruct (negb (Z.of_nat (length (xr_txhash r)) =? alph_txid_len)) eqn:EL; [constructor|].
  apply negb_false_iff in EL. apply Z.eqb_eq in EL. rewrite txid_len32 in EL.
  destruct (xr_status r) as [[blk|]|] eqn:St; try constructor. destruct (xr_events r) as [evs|] eqn:Ev; [|constructor].
  destruct (xgov_events c (req_txid r) blk (xr_hd r) (xr_tok r) 0 evs) as [| |l] eqn:G; try constructor.
  pose proof (xgov_events_ok _ _ _ _ _ _ _ _ G) as OK.
  apply (xgov_events_good r (req_txid r) blk evs) in G; [|exact Ha|apply incl_refl].
  destruct (xr_mc r) as [[|]|] eqn:Mc; try constructor. destruct (xr_height r) as [height|] eqn:Ht; [|constructor].
  cbn [fst]. rewrite (xhandle_gov_spec (req_txid r)) by (apply Forall_filter; exact OK).
  apply Forall_forall. intros f Hf. apply in_map_iff in Hf as ([[te u] h] & <- & Hx).
  apply filter_In in Hx as [Hx Hs]. apply filter_In in Hx as [Hx _]. cbn [fst snd] in *.
  rewrite Forall_forall in G, OK. specialize (G _ Hx). specialize (OK _ Hx). destruct G as (G1 & G2 & G3 & G4 & G5). destruct OK as (O1 & O2 & O3).
  apply bytes_eqb_eq in Hs.
  assert (J1 : EP (xu_ev u)). { specialize (He _ eq_refl). rewrite Forall_forall in He. rewrite O1. apply He; assumption. }
  assert (Cv : C.to_wormhole_message (x_fields (xu_ev u)) (x_txid (xu_ev u)) = C.COk (xu_msg u)).
  { unfold conv in O2. destruct (C.to_wormhole_message (x_fields (xu_ev u)) (x_txid (xu_ev u))) as [w|]; [|discriminate O2]. injection O2 as ->. reflexivity. }
  split.
  - unfold faithful, mkxfwd. cbn [xf_ev xf_msg xf_hdr xf_chain xf_pub]. rewrite G3. repeat apply conj; auto.
  - unfold reobs_from, mkxfwd. cbn [xf_ev]. rewrite G3. repeat apply conj; auto; try lia.
    + rewrite O1. reflexivity.
    + exists te, evs. auto.
Qed.

(* ---- one step *)
Definition xjust (o : xop) (f : xfwd) : Prop :=
  faithful f /\ match o with XTick _ _ _ _ => True | XReobs r => reobs_from r f | _ => False end.

Theorem xstep_good : forall s o, XInv s -> xop_ok o ->
  XInv (fst (xstep c s o)) /\ Forall (xjust o) (xo_fwd (snd (xstep c s o))).
Proof.
  intros s o HI Hok. pose proof HI as [I1 I2]. unfold xstep. destruct (x_dead s) eqn:D; [split; [exact HI|constructor]|].
  assert (Hdie : XInv (xdie s)) by (split; [exact I1|exact I2]).
  destruct o as [cnt pg tok| |height now mc hd|r|].
  - destruct (x_inflight s) as [l0|] eqn:F; [split; [exact HI|constructor]|].
    destruct Hok as [Hp Ha].
    destruct (xpoll cnt pg tok (x_from s)) as [|from' batch n| | |] eqn:P; cbn [fst snd xo_fwd xout0 xfail]; (split; [|constructor]); try (exact HI || exact Hdie).
    split; cbn [x_inflight x_pending]; [|exact I2].
    intros l Hl. injection Hl as <-. unfold xpoll in P. destruct cnt as [count|]; [|discriminate].
    destruct (count =? x_from s); [discriminate|].
    eapply (xpage_loop_good EP AP); [exact Hp|exact Ha| |exact P]. constructor.
  - destruct (x_inflight s) as [l|] eqn:F; cbn [fst snd xo_fwd xout0]; (split; [|constructor]); [|exact HI].
    split; cbn [x_inflight x_pending]; [intros l' H; discriminate H|].
    apply (xadd_batch_good EP HP AP); [exact I2|apply (proj1 HI); exact F].
  - destruct (xprocess_blocks (xc_mainnet c) height now mc hd (x_pending s)) as [[p' conf]|] eqn:R; [|split; [exact Hdie|constructor]].
    destruct (xprocess_blocks_good c EP HP AP _ _ _ _ _ _ _ Hok I2 R) as [G1 G2].
    destruct (xhandle_confirmed_faithful c EP HP AP height now mc conf G2) as [J1 J2].
    destruct (xhandle_confirmed (xc_bridge c) conf) as [f err]. cbn [fst snd xo_fwd] in *. split.
    + split; cbn [x_inflight x_pending]; assumption.
    + eapply Forall_impl; [|exact J1]. intros a Ha. split; [exact Ha|exact I].
  - pose proof (xreobserve_faithful r Hok) as J. destruct (xreobserve c r) as [f fl]. cbn [fst snd xo_fwd] in *. split.
    + destruct fl; exact HI || exact Hdie.
    + exact J.
  - split; [exact Hdie|constructor].
Qed.

Lemma xall_fwds_good : forall ops s, XInv s -> Forall xop_ok ops -> Forall (fun x => xjust (fst x) (snd x)) (xall_fwds c s ops).
Proof.
  induction ops as [|o t IH]; intros s HI Hok; cbn [xall_fwds]; [constructor|].
  inversion Hok as [|o' t' Ho Ht]; subst. destruct (xstep_good s o HI Ho) as [HI' J].
  apply Forall_app. split; [|apply IH; assumption].
  apply Forall_forall. intros [o' f] Hin. apply in_map_iff in Hin as (f' & E & Hin). injection E as <- <-.
  rewrite Forall_forall in J. apply J. exact Hin.
Qed.


Theorem pipeline_end_to_end : forall ops s, XInv s -> Forall xop_ok ops ->
  Forall (fun x => xjust (fst x) (snd x) /\ WS.justified (abs_cfg c) EPa HP APa (abs_op (fst x)) (abs_fwd (snd x))) (xall_fwds c s ops).
Proof.
  induction ops as [|o t IH]; intros s HI Hok; cbn [xall_fwds]; [constructor|].
  inversion Hok as [|o' t' Ho Ht]; subst. destruct (xstep_good s o HI Ho) as [HI' J].
  pose proof (WS.step_just (abs_cfg c) EPa HP APa (abs_state s) (abs_op o) (abs_Inv EP HP AP s HI) (abs_op_ok c EP HP AP o Ho)) as JA.
  rewrite sim_step in JA. cbn [snd abs_out W.o_fwd] in JA.
  apply Forall_app. split; [|apply IH; assumption].
  apply Forall_forall. intros [o' f] Hin. apply in_map_iff in Hin as (f' & E & Hin). injection E as <- <-. cbn [fst snd].
  rewrite Forall_forall in J, JA. split; [apply J; exact Hin|]. apply JA. apply in_map. exact Hin.
Qed.

End Safety.

(* on the re-observation path the tx hash of the message is the requested hash itself *)
Theorem reobserved_tx_hash : forall c EP HP AP r f, faithful c EP HP AP f -> reobs_from c r f -> m_tx (xf_pub f) = xr_txhash r.
Proof.
  intros c EP HP AP r f (_ & _ & _ & Cv & _ & Pb & _) (L & Tx & _). rewrite Pb.
  pose proof (CP.mp_fields (xf_msg f) (W.h_ts (xf_hdr f))) as F. cbv zeta in F. destruct F as (_ & _ & _ & _ & _ & _ & _ & F8). rewrite F8.
  destruct (CP.wm_accepts_only _ _ _ Cv) as (s0 & s1 & s2 & s3 & s4 & s5 & nonce & _ & _ & _ & _ & _ & _ & _ & _ & _ & _ & _ & _ & _ & ET).
  rewrite ET, Tx. apply CP.hex_to_hash_to_hex. exact L.
Qed.

Lemma xshape_one : forall rs t i v, xshape_test rs t i = XShOne v -> nth i rs XFailed = XOk [v].
Proof.
  intros rs t i v. unfold xshape_test. destruct (negb (xsucceeded (nth t rs XFailed))); [discriminate|].
  destruct (nth i rs XFailed) as [|[|w [|w' r]]]; try discriminate. intro H. injection H as <-. reflexivity.
Qed.

(* what GetTokenInfo accepts (on the raw answers, whichever result is nil-tested): the native token's constant answer, or three
   succeeded calls with exactly one return each - two byte vectors and a U256 in 0..255 - whose NUL-trimmed bytes / value it
   returns with the requested id *)
Theorem xget_token_info_spec : forall id a t, xget_token_info id a = XTiOk t ->
  (id = alph_token_id /\ t = native_info) \/
  (exists vs vn vd sb nb d, a = XMcRes [XOk [vs]; XOk [vn]; XOk [vd]] /\ C.to_bytevec vs = C.COk sb /\ C.to_bytevec vn = C.COk nb /\ C.to_uint8 vd = C.COk d /\
     t = {| C.t_id := id; C.t_decimals := d; C.t_symbol := C.bytes_to_string sb; C.t_name := C.bytes_to_string nb |}).
Proof.
  intros id a t. unfold xget_token_info. destruct (bytes_eqb_spec id alph_token_id) as [E|E].
  - intro H. injection H as <-. left. auto.
  - destruct a as [|rs]; [discriminate|]. destruct rs as [|r0 [|r1 [|r2 [|r3 rest]]]]; cbn [length Nat.eqb negb]; try discriminate.
    destruct alph_tokinfo_tests as [[t0 t1] t2].
    destruct (xshape_test [r0; r1; r2] t0 0) as [| |v0] eqn:S0; try discriminate.
    destruct (xshape_test [r0; r1; r2] t1 1) as [| |v1] eqn:S1; try discriminate.
    destruct (xshape_test [r0; r1; r2] t2 2) as [| |v2] eqn:S2; try discriminate.
    apply xshape_one in S0, S1, S2. cbn [nth] in S0, S1, S2. subst r0 r1 r2.
    destruct (C.to_bytevec v0) as [sb|] eqn:B0; [|discriminate]. destruct (C.to_bytevec v1) as [nb|] eqn:B1; [|discriminate].
    destruct (C.to_uint8 v2) as [d|] eqn:B2; [|discriminate]. intro H. injection H as <-. right. exists v0, v1, v2, sb, nb, d. auto.
Qed.
