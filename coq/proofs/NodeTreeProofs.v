(* Proofs about model/NodeTree.v: the supervisor of model/Supervisor.v composed with the extracted service tree of the guardian node.
   Everything is proved for an arbitrary tree T and configuration c (hypotheses on T are boolean checks that props/ discharges by
   computation on the extracted node_tree), over all histories of process-level events. *)
From Coq Require Import List ZArith Lia Bool Arith String.
From WH Require Import gen.ExtractedTree model.Supervisor proofs.SupervisorProofs model.NodeTree.
Import ListNotations.
Open Scope Z_scope.

Notation pstep1 := (pstep true).
Notation prun1 := (prun true).

(* ------------------------------------------------------------------ every process step is at most one supervisor event *)
Lemma lift_run s o f s' : lift s o f = PRun s' -> exists u, o = Ok u /\ s' = f u.
Proof. destruct o; cbn [lift]; intros H; try discriminate. inv H. eexists. split; reflexivity. Qed.

Lemma lift_crash s o f cz : lift s o f = PCrash cz -> cz = CSupervisor /\ (o = ProcessorPanic \/ o = LockedPanic).
Proof. destruct o; cbn [lift]; intros H; try discriminate; inv H; auto. Qed.

Lemma panic_of_run T s d s' : panic_of true T s d = PRun s' ->
  step true (p_sup s) (EReturn d RErr) = Ok (p_sup s') /\ s' = with_sup s (p_sup s') /\ (nt_propagate T && negb (recovers T d) = false).
Proof.
  unfold panic_of. destruct (negb (has (d, TInst) (s_toks (p_sup s)))); [discriminate|].
  destruct (nt_propagate T && negb (recovers T d)); [discriminate|]. intros H. apply lift_run in H as (u & E & ->). cbn [p_sup with_sup]. auto.
Qed.

(* the supervisor events behind a step: none (the root runnable moved on without calling the supervisor, rootCtx was cancelled), or one *)
Definition sup_events_of T (c : cfg) (s : pst) (e : pev) : list ev :=
  match e with
  | PSup e => match e with
              | EKill | EProcSchedule _ => [e]
              | _ => match signal_misuse (p_sup s) e with Some d => [EReturn d RErr] | None => [e] end
              end
  | PRoot f =>
    match nth_error (prog_of T c) (p_pc s) with
    | Some (RRun svs roe) => match run_group [] (ids svs) (s_tree (p_sup s)) with
                             | GOk _ _ => [ERunGroup [] (ids svs)]
                             | GRejected => if roe then [EReturn [] RErr] else []
                             | GNoNode => []
                             end
    | Some (RCtor _) => if f then [EReturn [] RErr] else []
    | Some RSignalHealthy => match signal_misuse (p_sup s) (ESignalHealthy []) with Some d => [EReturn d RErr] | None => [ESignalHealthy []] end
    | Some RSignalDone => match signal_misuse (p_sup s) (ESignalDone []) with Some d => [EReturn d RErr] | None => [ESignalDone []] end
    | Some RWaitCtx => []
    | Some (RReturn isnil) => [EReturn [] (if isnil then RNil else RErr)]
    | None => []
    end
  | PPanic d => [EReturn d RErr]
  | _ => []
  end.

Lemma run_one s e u : step true s e = Ok u -> run true [e] s = Ok u.
Proof. intros H. cbn [run]. rewrite H. reflexivity. Qed.

Lemma pstep_sup T c s e s' : pstep1 T c s e = PRun s' -> run true (sup_events_of T c s e) (p_sup s) = Ok (p_sup s').
Proof.
  destruct e as [e|f|d|x|n|x|]; cbn [pstep sup_events_of].
  - unfold sup_event. destruct (root_own e); [discriminate|].
    destruct e as [d|d k| | |d|d|d|d names|d k];
      try (destruct (signal_misuse (p_sup s) _) as [d0|] eqn:Em;
           [intros H; apply panic_of_run in H as (H & _ & _); apply run_one; exact H
           |intros H; apply lift_run in H as (u & E & ->); apply run_one; exact E]).
    + intros H; apply lift_run in H as (u & E & ->); apply run_one; exact E.
    + destruct (p_rootctx s); [|discriminate]. intros H; apply lift_run in H as (u & E & ->); apply run_one; exact E.
  - unfold root_step. destruct (negb (has ([], TInst) (s_toks (p_sup s)))); [discriminate|].
    destruct (nth_error (prog_of T c) (p_pc s)) as [[svs roe|w| | | |isnil]|]; try discriminate.
    + destruct (run_group [] (ids svs) (s_tree (p_sup s))) eqn:Er; try discriminate.
      * intros H; apply lift_run in H as (u & E & ->); apply run_one; exact E.
      * destruct roe; [intros H; apply lift_run in H as (u & E & ->); apply run_one; exact E|]. intros H; inv H. reflexivity.
    + destruct f; [intros H; apply lift_run in H as (u & E & ->); apply run_one; exact E|]. intros H; inv H. reflexivity.
    + destruct (signal_misuse (p_sup s) (ESignalHealthy [])) as [d0|];
        [intros H; apply panic_of_run in H as (H & _ & _); apply run_one; exact H|intros H; apply lift_run in H as (u & E & ->); apply run_one; exact E].
    + destruct (signal_misuse (p_sup s) (ESignalDone [])) as [d0|];
        [intros H; apply panic_of_run in H as (H & _ & _); apply run_one; exact H|intros H; apply lift_run in H as (u & E & ->); apply run_one; exact E].
    + destruct (cancelled [] (s_tree (p_sup s))); [|discriminate]. intros H; inv H. reflexivity.
    + intros H; apply lift_run in H as (u & E & ->); apply run_one; exact E.
  - intros H; apply panic_of_run in H as (H & _ & _); apply run_one; exact H.
  - destruct (existsb (Z.eqb x) (p_started s) && spawns_unguarded T x); discriminate.
  - destruct (n <? List.length (nt_unsupervised T))%nat; discriminate.
  - destruct (existsb (Z.eqb x) (p_started s) && holds_root_cancel T x); [|discriminate]. intros H; inv H. reflexivity.
  - destruct (p_rootctx s); discriminate.
Qed.

Lemma run_app a : forall b s, run true (a ++ b) s = match run true a s with Ok s' => run true b s' | o => o end.
Proof. induction a as [|e r IH]; intros b s; cbn [app run]; [reflexivity|]. destruct (step true s e); try reflexivity. apply IH. Qed.

(* the supervisor history behind a process history *)
Fixpoint sup_history T c (h : list pev) (s : pst) : list ev :=
  match h with
  | [] => []
  | e :: r => sup_events_of T c s e ++ match pstep1 T c s e with PRun s' => sup_history T c r s' | _ => [] end
  end.

Lemma prun_sup T c h : forall s s', prun1 T c h s = PRun s' -> run true (sup_history T c h s) (p_sup s) = Ok (p_sup s').
Proof.
  induction h as [|e r IH]; intros s s' H; cbn [prun sup_history] in *; [inv H; reflexivity|].
  destruct (pstep1 T c s e) as [s1| | |] eqn:E; try discriminate. rewrite run_app, (pstep_sup _ _ _ _ _ E). apply IH. exact H.
Qed.

(* ------------------------------------------------------------------ C18 lifted to the process: invariant, one instance, no supervisor panic *)
Theorem pstep_inv T c s e s' : Inv (p_sup s) -> pstep1 T c s e = PRun s' -> Inv (p_sup s').
Proof. intros Hinv H. eapply run_inv; [exact Hinv|]. apply (pstep_sup _ _ _ _ _ H). Qed.

Theorem prun_inv T c h s s' : Inv (p_sup s) -> prun1 T c h s = PRun s' -> Inv (p_sup s').
Proof. intros Hinv H. eapply run_inv; [exact Hinv|]. apply (prun_sup _ _ _ _ _ H). Qed.

Theorem node_inv T c h s : prun1 T c h (pinit) = PRun s -> Inv (p_sup s).
Proof. apply prun_inv. exact inv_init. Qed.

Theorem node_at_most_one_instance T c h s d : prun1 T c h pinit = PRun s -> (running d (p_sup s) <= 1)%nat.
Proof. intros H. eapply at_most_one_instance. exact (prun_sup _ _ _ _ _ H). Qed.

(* the supervisor's own code never brings the process down *)
Theorem pstep_not_supervisor T c s e : Inv (p_sup s) -> pstep1 T c s e <> PCrash CSupervisor.
Proof.
  intros Hinv. pose proof (fun e => step_no_panic (p_sup s) e Hinv) as Hnp.
  assert (L : forall o f, (o <> ProcessorPanic /\ o <> LockedPanic) -> lift s o f <> PCrash CSupervisor).
  { intros o f [H1 H2] H. apply lift_crash in H as [_ [H|H]]; contradiction. }
  assert (P : forall d, panic_of true T s d <> PCrash CSupervisor).
  { intros d. unfold panic_of. destruct (negb (has (d, TInst) (s_toks (p_sup s)))); [discriminate|].
    destruct (nt_propagate T && negb (recovers T d)); [discriminate|]. apply L, Hnp. }
  destruct e as [e|f|d|x|n|x|]; cbn [pstep].
  - unfold sup_event. destruct (root_own e); [discriminate|].
    destruct e as [d|d k| | |d|d|d|d names|d k]; try (destruct (signal_misuse (p_sup s) _); [apply P|apply L, Hnp]).
    + apply L, Hnp.
    + destruct (p_rootctx s); [apply L, Hnp|discriminate].
  - unfold root_step. destruct (negb (has ([], TInst) (s_toks (p_sup s)))) eqn:Eh; [discriminate|]. apply negb_false_iff, has_in in Eh.
    destruct (nth_error (prog_of T c) (p_pc s)) as [[svs roe|w| | | |isnil]|]; try discriminate.
    + destruct (run_group [] (ids svs) (s_tree (p_sup s))) eqn:Er.
      * apply L, Hnp.
      * destruct roe; [apply L, Hnp|discriminate].
      * exfalso. unfold run_group in Er. destruct Hinv as (_ & _ & _ & Hhome & _). specialize (Hhome _ _ Eh).
        destruct (find [] (s_tree (p_sup s))) as [i|]; [|contradiction]. destruct (n_state i); try discriminate.
        destruct (existsb _ (ids svs)); [discriminate|]. destruct (negb (nodupz (ids svs))); discriminate.
    + destruct f; [apply L, Hnp|discriminate].
    + destruct (signal_misuse (p_sup s) (ESignalHealthy [])); [apply P|apply L, Hnp].
    + destruct (signal_misuse (p_sup s) (ESignalDone [])); [apply P|apply L, Hnp].
    + destruct (cancelled [] (s_tree (p_sup s))); discriminate.
    + apply L, Hnp.
  - apply P.
  - destruct (existsb (Z.eqb x) (p_started s) && spawns_unguarded T x); discriminate.
  - destruct (n <? List.length (nt_unsupervised T))%nat; discriminate.
  - destruct (existsb (Z.eqb x) (p_started s) && holds_root_cancel T x); discriminate.
  - destruct (p_rootctx s); discriminate.
Qed.

Theorem node_crash_never_by_supervisor T c h : prun1 T c h pinit <> PCrash CSupervisor.
Proof.
  assert (G : forall h s, Inv (p_sup s) -> prun1 T c h s <> PCrash CSupervisor).
  { clear h. induction h as [|e r IH]; intros s Hinv; cbn [prun]; [discriminate|].
    destruct (pstep1 T c s e) as [s1|cz| |] eqn:E; try discriminate.
    - apply IH. eapply pstep_inv; eassumption.
    - intros H. inv H. exact (pstep_not_supervisor T c s e Hinv E). }
  apply G. exact inv_init.
Qed.

(* a step that crashes the process is a panic event: a runnable panicking in its own goroutine (PPanic, or a Signal call in the wrong
   state), a goroutine spawned by a service, a goroutine of runNode *)
Definition panic_event (s : pst) (e : pev) : bool :=
  match e with
  | PPanic _ | PSpawnPanic _ | POutsidePanic _ => true
  | PSup e => match signal_misuse (p_sup s) e with Some _ => true | None => false end
  | PRoot _ => match signal_misuse (p_sup s) (ESignalHealthy []), signal_misuse (p_sup s) (ESignalDone []) with None, None => false | _, _ => true end
  | _ => false
  end.

Lemma crash_cause T c s e cz : pstep1 T c s e = PCrash cz -> cz = CSupervisor \/ panic_event s e = true.
Proof.
  assert (L0 : forall o f, lift s o f = PCrash cz -> cz = CSupervisor) by (intros o f H0; apply lift_crash in H0 as [H0 _]; exact H0).
  assert (L : forall o f (Q : Prop), lift s o f = PCrash cz -> cz = CSupervisor \/ Q) by (intros o f Q H0; left; exact (L0 _ _ H0)).
  assert (P : forall d, panic_of true T s d = PCrash cz -> cz = CSupervisor \/ cz = CPanic d).
  { intros d. unfold panic_of. destruct (negb (has (d, TInst) (s_toks (p_sup s)))); [discriminate|].
    destruct (nt_propagate T && negb (recovers T d)); [intros H; inv H; right; reflexivity|]. intros H. apply lift_crash in H as [H _]. left. exact H. }
  destruct e as [e|f|d|x|n|x|]; cbn [panic_event pstep]; try (intros _; right; reflexivity).
  - unfold sup_event. destruct (root_own e); [discriminate|].
    destruct e as [d|d k| | |d|d|d|d names|d k]; try (destruct (signal_misuse (p_sup s) _); [intros _; right; reflexivity|apply L]).
    destruct (p_rootctx s); [apply L|discriminate].
  - unfold root_step. destruct (negb (has ([], TInst) (s_toks (p_sup s)))); [discriminate|].
    destruct (nth_error (prog_of T c) (p_pc s)) as [[svs roe|w| | | |isnil]|]; try discriminate.
    + destruct (run_group [] (ids svs) (s_tree (p_sup s))); [apply L|destruct roe; [apply L|discriminate]|intros H; inv H; left; reflexivity].
    + destruct f; [apply L|discriminate].
    + destruct (signal_misuse (p_sup s) (ESignalHealthy [])); [intros _; right; reflexivity|apply L].
    + destruct (signal_misuse (p_sup s) (ESignalDone [])); [intros _; right; destruct (signal_misuse (p_sup s) (ESignalHealthy [])); reflexivity|apply L].
    + destruct (cancelled [] (s_tree (p_sup s))); discriminate.
    + apply L.
  - destruct (existsb (Z.eqb x) (p_started s) && holds_root_cancel T x); discriminate.
  - destruct (p_rootctx s); discriminate.
Qed.

Theorem crash_only_by_panic T c s e cz : Inv (p_sup s) -> pstep1 T c s e = PCrash cz -> panic_event s e = true.
Proof.
  intros Hinv H. destruct (crash_cause _ _ _ _ _ H) as [->|H0]; [|exact H0]. exfalso. exact (pstep_not_supervisor T c s e Hinv H).
Qed.

(* ------------------------------------------------------------------ (a) a panic inside a supervised runnable, with the options as extracted *)
Theorem panic_terminates_process T c s d :
  nt_propagate T = true -> recovers T d = false -> has (d, TInst) (s_toks (p_sup s)) = true -> pstep1 T c s (PPanic d) = PCrash (CPanic d).
Proof. intros Hp Hr Hh. cbn [pstep]. unfold panic_of. rewrite Hh, Hp, Hr. reflexivity. Qed.

(* without the option (or with a recover inside the service) the same panic is an error exit of that runnable: the restart rule applies *)
Theorem panic_captured_is_error_exit T c s d :
  nt_propagate T && negb (recovers T d) = false -> pstep1 T c s (PPanic d) = pstep1 T c s (PSup (EReturn d RErr)) \/ d = [].
Proof.
  intros Hp. destruct d as [|x d']; [right; reflexivity|left]. cbn [pstep]. unfold sup_event, panic_of. cbn [root_own signal_misuse]. rewrite Hp.
  cbn [step]. unfold token, dn in *. destruct (negb (has (x :: d', TInst) (s_toks (p_sup s)))); reflexivity.
Qed.

(* (b) a panic in a goroutine a service spawned itself: the process dies whatever the supervisor's options are *)
Theorem spawn_panic_terminates_regardless T c s x :
  In x (p_started s) -> spawns_unguarded T x = true -> pstep1 T c s (PSpawnPanic x) = PCrash (CSpawnPanic x).
Proof.
  intros Hin Hs. cbn [pstep]. rewrite Hs, andb_true_r.
  assert (existsb (Z.eqb x) (p_started s) = true) as ->; [|reflexivity]. apply existsb_exists. exists x. split; [exact Hin|apply Z.eqb_refl].
Qed.

Theorem outside_panic_terminates T c s n : (n < List.length (nt_unsupervised T))%nat -> pstep1 T c s (POutsidePanic n) = PCrash (COutsidePanic n).
Proof. intros H. cbn [pstep]. apply Nat.ltb_lt in H. rewrite H. reflexivity. Qed.

(* ------------------------------------------------------------------ (c2) cancelling the root context *)
Theorem node_no_starts_after_kill T c h s s' d :
  s_killed (p_sup s) = true -> prun1 T c h s = PRun s' -> s_killed (p_sup s') = true /\ (running d (p_sup s') <= running d (p_sup s))%nat.
Proof. intros Hk H. exact (no_starts_after_kill true _ _ _ d Hk (prun_sup _ _ _ _ _ H)). Qed.

(* what a step does to the process-level fields *)
Lemma pstep_frame T c s e s' : pstep1 T c s e = PRun s' ->
  (In EKill (sup_events_of T c s e) -> p_rootctx s = true) /\
  (p_rootctx s = true -> p_rootctx s' = true) /\
  (p_rootctx s' = true -> p_rootctx s = true \/ exists x, In x (p_started s) /\ holds_root_cancel T x = true) /\
  (forall x, In x (p_started s) -> In x (p_started s')).
Proof.
  assert (W : forall u, s' = with_sup s u -> (p_rootctx s = true -> p_rootctx s' = true) /\
    (p_rootctx s' = true -> p_rootctx s = true \/ exists x, In x (p_started s) /\ holds_root_cancel T x = true) /\ (forall x, In x (p_started s) -> In x (p_started s'))).
  { intros u ->. cbn [with_sup p_rootctx p_started]. auto. }
  assert (B : forall u, s' = bump s u -> (p_rootctx s = true -> p_rootctx s' = true) /\
    (p_rootctx s' = true -> p_rootctx s = true \/ exists x, In x (p_started s) /\ holds_root_cancel T x = true) /\ (forall x, In x (p_started s) -> In x (p_started s'))).
  { intros u ->. cbn [bump p_rootctx p_started]. auto. }
  assert (NK : forall d k, In EKill [EReturn d k] -> p_rootctx s = true) by (intros d k [H|[]]; discriminate).
  assert (P : forall d, panic_of true T s d = PRun s' -> exists u, s' = with_sup s u) by (intros d H; apply panic_of_run in H as (_ & H & _); eexists; exact H).
  destruct e as [e|f|d|x|n|x|]; cbn [pstep sup_events_of].
  - unfold sup_event. destruct (root_own e); [discriminate|].
    destruct e as [d|d k| | |d|d|d|d names|d k];
      try (destruct (signal_misuse (p_sup s) _) as [d0|];
           [intros H; apply P in H as [u Hu]; split; [apply NK|exact (W u Hu)]
           |intros H; apply lift_run in H as (u & _ & Hu); split; [intros [H0|[]]; discriminate|exact (W u Hu)]]).
    + intros H. apply lift_run in H as (u & _ & ->). cbn [p_rootctx p_started]. split; [intros [H0|[]]; discriminate|]. split; [auto|]. split; [auto|].
      intros x Hx. destruct d as [|y [|? ?]]; try exact Hx. right. exact Hx.
    + intros H. assert (Er : p_rootctx s = true) by (destruct (p_rootctx s); [reflexivity|discriminate]). rewrite Er in H.
      apply lift_run in H as (u & _ & Hu). split; [intros _; exact Er|exact (W u Hu)].
  - unfold root_step. destruct (negb (has ([], TInst) (s_toks (p_sup s)))); [discriminate|].
    destruct (nth_error (prog_of T c) (p_pc s)) as [[svs roe|w| | | |isnil]|]; try discriminate.
    + destruct (run_group [] (ids svs) (s_tree (p_sup s))); try discriminate.
      * intros H. apply lift_run in H as (u & _ & Hu). split; [intros [H0|[]]; discriminate|exact (B u Hu)].
      * destruct roe; [intros H; apply lift_run in H as (u & _ & Hu); split; [apply NK|exact (W u Hu)]|]. intros H; inv H. split; [intros []|exact (B _ eq_refl)].
    + destruct f; [intros H; apply lift_run in H as (u & _ & Hu); split; [apply NK|exact (W u Hu)]|]. intros H; inv H. split; [intros []|exact (B _ eq_refl)].
    + destruct (signal_misuse (p_sup s) (ESignalHealthy [])) as [d0|];
        [intros H; apply P in H as [u Hu]; split; [apply NK|exact (W u Hu)]|intros H; apply lift_run in H as (u & _ & Hu); split; [intros [H0|[]]; discriminate|exact (B u Hu)]].
    + destruct (signal_misuse (p_sup s) (ESignalDone [])) as [d0|];
        [intros H; apply P in H as [u Hu]; split; [apply NK|exact (W u Hu)]|intros H; apply lift_run in H as (u & _ & Hu); split; [intros [H0|[]]; discriminate|exact (B u Hu)]].
    + destruct (cancelled [] (s_tree (p_sup s))); [|discriminate]. intros H; inv H. split; [intros []|exact (B _ eq_refl)].
    + intros H; apply lift_run in H as (u & _ & Hu); split; [apply NK|exact (W u Hu)].
  - intros H. apply P in H as [u Hu]. split; [apply NK|exact (W u Hu)].
  - destruct (existsb (Z.eqb x) (p_started s) && spawns_unguarded T x); discriminate.
  - destruct (n <? List.length (nt_unsupervised T))%nat; discriminate.
  - destruct (existsb (Z.eqb x) (p_started s) && holds_root_cancel T x) eqn:E; [|discriminate]. intros H; inv H. cbn [p_rootctx p_started].
    split; [intros []|]. split; [auto|]. split; [|auto]. intros _. right. apply andb_true_iff in E as [E1 E2]. apply existsb_exists in E1 as (y & Hy & Ey).
    apply Z.eqb_eq in Ey. subst y. exists x. auto.
  - destruct (p_rootctx s); discriminate.
Qed.

Lemma step_killed u e u' : step true u e = Ok u' -> s_killed u' = true -> s_killed u = true \/ e = EKill.
Proof.
  destruct e as [d|d k| | |d|d|d|d names|d k]; cbn [step].
  - destruct (s_killed u || _); [discriminate|]. destruct (find d (s_tree u)); [|discriminate]. intros H; inv H. cbn. auto.
  - destruct (s_killed u || _); [discriminate|]. destruct (proc_died d k (s_tree u)); [|discriminate]. intros H; inv H. cbn. discriminate.
  - destruct (s_killed u); [discriminate|]. destruct (gc true (s_tree u)). intros H; inv H. cbn. discriminate.
  - auto.
  - destruct (has (d, TSleep true) (s_toks u)); [intros H; inv H; cbn; auto|]. destruct (has (d, TSleep false) (s_toks u)); [intros H; inv H; cbn; auto|discriminate].
  - destruct (negb _); [discriminate|]. destruct (find d (s_tree u)) as [i|]; [|discriminate]. destruct (n_state i); intros H; inv H; cbn; auto.
  - destruct (negb _); [discriminate|]. destruct (find d (s_tree u)) as [i|]; [|discriminate]. destruct (n_state i); intros H; inv H; cbn; auto.
  - destruct (negb _); [discriminate|]. destruct (run_group d names (s_tree u)); try discriminate; intros H; inv H; cbn; auto.
  - destruct (negb _); [discriminate|]. intros H; inv H; cbn; auto.
Qed.

(* the supervisor is shut down only after rootCtx was cancelled, and rootCtx is cancelled only by a service that was handed
   rootCtxCancel and has been started *)
Definition KillInv T (s : pst) : Prop :=
  (s_killed (p_sup s) = true -> p_rootctx s = true) /\
  (p_rootctx s = true -> exists x, In x (p_started s) /\ holds_root_cancel T x = true).

Lemma pstep_killinv T c s e s' : KillInv T s -> pstep1 T c s e = PRun s' -> KillInv T s'.
Proof.
  intros [K1 K2] H. destruct (pstep_frame _ _ _ _ _ H) as (F1 & F2 & F3 & F4). pose proof (pstep_sup _ _ _ _ _ H) as Hr. split.
  - intros Hk. assert (s_killed (p_sup s) = true \/ In EKill (sup_events_of T c s e)) as [H0|H0]; [|apply F2, K1, H0|apply F2, F1, H0].
    revert Hr. assert (L : (List.length (sup_events_of T c s e) <= 1)%nat).
    { clear. destruct e as [e|f|d|x|n|x|]; cbn [sup_events_of List.length]; try lia.
      - destruct e; try (destruct (signal_misuse (p_sup s) _)); cbn; lia.
      - destruct (nth_error (prog_of T c) (p_pc s)) as [[svs roe|w| | | |isnil]|]; cbn [List.length]; try lia.
        + destruct (run_group [] (ids svs) (s_tree (p_sup s))); [cbn; lia|destruct roe; cbn; lia|cbn; lia].
        + destruct f; cbn; lia.
        + destruct (signal_misuse (p_sup s) (ESignalHealthy [])); cbn; lia.
        + destruct (signal_misuse (p_sup s) (ESignalDone [])); cbn; lia. }
    destruct (sup_events_of T c s e) as [|e0 [|e1 r]]; cbn [run List.length] in *; [intros H0; inv H0; left; rewrite H2; exact Hk| |lia].
    destruct (step true (p_sup s) e0) as [u| | |] eqn:E0; try discriminate. intros H0; inv H0.
    destruct (step_killed _ _ _ E0 Hk) as [H1| ->]; [left; exact H1|right; left; reflexivity].
  - intros Hc. destruct (F3 Hc) as [H0|(x & Hx & Hh)]; [destruct (K2 H0) as (x & Hx & Hh)|]; exists x; auto.
Qed.

Theorem node_kill_needs_root_cancel T c h s : prun1 T c h pinit = PRun s -> KillInv T s.
Proof.
  assert (G : forall h s0 s1, KillInv T s0 -> prun1 T c h s0 = PRun s1 -> KillInv T s1).
  { clear. induction h as [|e r IH]; intros s0 s1 Hk H; cbn [prun] in H; [inv H; exact Hk|].
    destruct (pstep1 T c s0 e) as [s2| | |] eqn:E; try discriminate. eapply IH; [eapply pstep_killinv; eassumption|exact H]. }
  apply G. split; cbn; discriminate.
Qed.

(* ------------------------------------------------------------------ one live instance per service FUNCTION *)
Lemma nodupz_in x l : existsb (Z.eqb x) l = true <-> In x l.
Proof. rewrite existsb_exists. split; [intros (y & Hy & E); apply Z.eqb_eq in E; subst; exact Hy|intros H; exists x; split; [exact H|apply Z.eqb_refl]]. Qed.

Lemma filter_unique {A} (f : A -> Z) l r : nodupz (map f l) = true -> (List.length (filter (fun x => (f x =? r)%Z) l) <= 1)%nat.
Proof.
  induction l as [|a l IH]; intros H; cbn [map nodupz filter] in *; [cbn; lia|]. apply andb_true_iff in H as [H1 H2]. apply negb_true_iff in H1.
  destruct (f a =? r) eqn:E; [|apply IH; exact H2]. apply Z.eqb_eq in E. cbn [List.length].
  assert (filter (fun x => f x =? r) l = []) as ->; [|cbn; lia].
  destruct (filter (fun x => f x =? r) l) as [|b q] eqn:F; [reflexivity|]. exfalso.
  assert (In b (filter (fun x => f x =? r) l)) by (rewrite F; left; reflexivity). apply filter_In in H as [Hb Eb]. apply Z.eqb_eq in Eb.
  assert (existsb (Z.eqb (f a)) (map f l) = true); [|congruence]. apply nodupz_in. rewrite E, <- Eb. apply in_map. exact Hb.
Qed.

Theorem node_one_instance_per_runnable T c h s r :
  distinct_runnables T = true -> prun1 T c h pinit = PRun s -> (instances_of_runnable T r (p_sup s) <= 1)%nat.
Proof.
  intros Hd H. unfold instances_of_runnable. pose proof (filter_unique sv_runnable (all_services T) r Hd) as L.
  destruct (filter (fun sv => sv_runnable sv =? r) (all_services T)) as [|a [|b q]]; cbn [fold_right List.length] in *; [lia| |lia].
  pose proof (node_at_most_one_instance T c h s [sv_id a] H). lia.
Qed.

(* ------------------------------------------------------------------ the supervision groups of the services are the statements of the root runnable *)
Lemma find_update_group x d f t : (forall i, n_group (f i) = n_group i) -> option_map n_group (find x (update d f t)) = option_map n_group (find x t).
Proof.
  intros Hf. rewrite find_update. destruct (dn_eqb x d) eqn:E; [|reflexivity]. apply dn_eqb_eq in E. subst x. destruct (find d t); cbn [option_map]; [rewrite Hf|]; reflexivity.
Qed.

Lemma cancel_siblings_group d g x t : option_map n_group (find x (cancel_siblings d g t)) = option_map n_group (find x t).
Proof.
  rewrite cancel_siblings_find. destruct (find x t) as [i|]; cbn [option_map]; [|reflexivity]. destruct d; [reflexivity|].
  destruct (sibling_of (z :: d) g x i); reflexivity.
Qed.

Lemma proc_died_group d k t t' x : proc_died d k t = Some t' -> option_map n_group (find x t') = option_map n_group (find x t).
Proof.
  unfold proc_died. destruct (find d t) as [i|]; [|discriminate].
  assert (E1 : option_map n_group (find x (update d set_exited t)) = option_map n_group (find x t)) by (apply find_update_group; reflexivity).
  assert (Other : (if cancelled d (update d set_exited t) && match k with RCtx => true | _ => false end
                   then Some (update d (set_state SCanceled) (update d set_exited t))
                   else Some (cancel_siblings d (n_group i) (update d (fun x => set_flag (set_state SDead x)) (update d set_exited t)))) = Some t' ->
                  option_map n_group (find x t') = option_map n_group (find x t)).
  { destruct (cancelled d (update d set_exited t) && _); intros H; inv H.
    - rewrite find_update_group by reflexivity. exact E1.
    - rewrite cancel_siblings_group, find_update_group by reflexivity. exact E1. }
  destruct (n_state i), k; try exact Other; intros H; inv H; exact E1.
Qed.

Lemma fold_max_ge {A} (f : A -> nat) l : forall m a, In a l -> (f a <= fold_left (fun m p => Nat.max m (f p)) l m)%nat.
Proof.
  assert (M : forall l m, (m <= fold_left (fun m p => Nat.max m (f p)) l m)%nat).
  { clear. induction l as [|b l IH]; intros m; cbn [fold_left]; [lia|]. specialize (IH (Nat.max m (f b))). lia. }
  induction l as [|b l IH]; intros m a Hin; [destruct Hin|]. cbn [fold_left]. destruct Hin as [->|Hin]; [|apply IH; exact Hin].
  specialize (M l (Nat.max m (f a))). lia.
Qed.

Lemma parent_child (p : dn) x : parent (p ++ [x]) = p.
Proof. unfold parent. apply removelast_last. Qed.

Lemma ngroups_gt p x t i : find (p ++ [x]) t = Some i -> (n_group i < ngroups p t)%nat.
Proof.
  intros H. unfold ngroups. pose proof (fold_max_ge (fun q : dn * ninfo => S (n_group (snd q))) (children_of p t) 0%nat (p ++ [x], i)) as G. cbn [snd] in G.
  assert (In (p ++ [x], i) (children_of p t)); [|specialize (G H0); lia].
  unfold children_of. apply filter_In. split; [apply find_in; exact H|]. cbn [fst]. rewrite parent_child, dn_eqb_refl, app_length. cbn [List.length andb].
  apply Nat.eqb_eq. lia.
Qed.

(* where the nodes of the tree after a step come from: the old tree, with their group, or a RunGroup call *)
Lemma step_origin u e u' z j : step true u e = Ok u' -> find z (s_tree u') = Some j ->
  (exists i, find z (s_tree u) = Some i /\ n_group i = n_group j) \/
  (exists p names x, e = ERunGroup p names /\ z = p ++ [x] /\ In x names /\ find z (s_tree u) = None /\ n_group j = ngroups p (s_tree u)).
Proof.
  assert (Same : s_tree u' = s_tree u -> find z (s_tree u') = Some j -> exists i, find z (s_tree u) = Some i /\ n_group i = n_group j).
  { intros -> H. exists j. auto. }
  assert (G : forall t', option_map n_group (find z t') = option_map n_group (find z (s_tree u)) -> find z t' = Some j -> exists i, find z (s_tree u) = Some i /\ n_group i = n_group j).
  { intros t' E H. rewrite H in E. destruct (find z (s_tree u)) as [i|]; [|discriminate]. cbn in E. inv E. exists i. auto. }
  destruct e as [d|d k| | |d|d|d|d names|d k]; cbn [step].
  - destruct (s_killed u || _); [discriminate|]. destruct (find d (s_tree u)); [|discriminate]. intros H; inv H. intros H. left. apply Same; [reflexivity|exact H].
  - destruct (s_killed u || _); [discriminate|]. destruct (proc_died d k (s_tree u)) as [t'|] eqn:Ep; [|discriminate]. intros H; inv H. cbn [s_tree]. intros H. left.
    apply (G t'); [eapply proc_died_group; exact Ep|exact H].
  - destruct (s_killed u); [discriminate|]. destruct (gc true (s_tree u)) as [t' new] eqn:Eg. intros H; inv H. cbn [s_tree]. intros H. left.
    assert (Et : t' = fst (gc true (s_tree u))) by (rewrite Eg; reflexivity). subst t'. apply (G (fst (gc true (s_tree u)))); [|exact H].
    rewrite find_gc in *. destruct (below_target (gct (s_tree u)) z); [discriminate|]. destruct (find z (s_tree u)) as [i|]; cbn [option_map]; [|reflexivity].
    destruct (is_target (gct (s_tree u)) z); reflexivity.
  - destruct (s_killed u); [discriminate|]. intros H; inv H. cbn [s_tree]. intros H. left. apply (G (map (fun p : dn * ninfo => (fst p, set_flag (snd p))) (s_tree u))); [|exact H].
    rewrite (find_mapv (fun _ x => set_flag x)). destruct (find z (s_tree u)); reflexivity.
  - destruct (has (d, TSleep true) (s_toks u)); [intros H; inv H; intros H; left; apply Same; [reflexivity|exact H]|].
    destruct (has (d, TSleep false) (s_toks u)); [intros H; inv H; intros H; left; apply Same; [reflexivity|exact H]|discriminate].
  - destruct (negb _); [discriminate|]. destruct (find d (s_tree u)) as [i|]; [|discriminate].
    destruct (n_state i); intros H; inv H; cbn [s_tree with_toks]; intros H; left; try (apply Same; [reflexivity|exact H]).
    apply (G (update d (set_state SHealthy) (s_tree u))); [apply find_update_group; reflexivity|exact H].
  - destruct (negb _); [discriminate|]. destruct (find d (s_tree u)) as [i|]; [|discriminate].
    destruct (n_state i); intros H; inv H; cbn [s_tree with_toks]; intros H; left; try (apply Same; [reflexivity|exact H]).
    apply (G (update d (set_state SDone) (s_tree u))); [apply find_update_group; reflexivity|exact H].
  - destruct (negb _); [discriminate|]. destruct (run_group d names (s_tree u)) as [t' new| |] eqn:Er; try discriminate; intros H; inv H; cbn [s_tree];
      [|intros H; left; apply Same; [reflexivity|exact H]].
    unfold run_group in Er. destruct (find d (s_tree u)) as [i|]; [|discriminate]. destruct (n_state i); try discriminate.
    destruct (existsb _ names); [discriminate|]. destruct (negb (nodupz names)); [discriminate|]. inv Er. rewrite find_app.
    destruct (find z (s_tree u)) as [i0|] eqn:Ez; [intros H; inv H; left; exists j; auto|]. intros H. right.
    change (map (fun x => (d ++ [x], {| n_state := SNew; n_flag := false; n_group := ngroups d (s_tree u); n_exited := false |})) names)
      with (map (mkchild (ngroups d (s_tree u)) d) names) in H. rewrite find_children in H.
    destruct (existsb (fun x => dn_eqb z (d ++ [x])) names) eqn:Ex; [|discriminate]. inv H. apply existsb_exists in Ex as (x & Hx & E). apply dn_eqb_eq in E.
    exists d, names, x. cbn [n_group]. auto.
  - destruct (negb _); [discriminate|]. intros H; inv H. intros H. left. apply Same; [reflexivity|exact H].
Qed.

Definition GInv T (u : sst) : Prop :=
  forall y z i j, find [y] (s_tree u) = Some i -> find [z] (s_tree u) = Some j -> (n_group i = n_group j <-> same_stmt T y z = true).

Lemma same_stmt_sym T x y : same_stmt T x y = same_stmt T y x.
Proof. unfold same_stmt. induction (nt_prog T) as [|p r IH]; [reflexivity|]. cbn [existsb]. rewrite IH, andb_comm. reflexivity. Qed.

Lemma same_stmt_spec T y z : same_stmt T y z = true <-> exists p, In p (nt_prog T) /\ In y (ids (stmt_services (snd p))) /\ In z (ids (stmt_services (snd p))).
Proof.
  unfold same_stmt. rewrite existsb_exists. split.
  - intros (p & Hp & H). apply andb_true_iff in H as [H1 H2]. apply nodupz_in in H1, H2. exists p. auto.
  - intros (p & Hp & H1 & H2). exists p. split; [exact Hp|]. apply andb_true_iff. split; apply nodupz_in; assumption.
Qed.

Lemma map_flat_map {A B C} (f : B -> C) (g : A -> list B) l : map f (flat_map g l) = flat_map (fun x => map f (g x)) l.
Proof. induction l as [|a l IH]; [reflexivity|]. cbn [flat_map]. rewrite map_app, IH. reflexivity. Qed.

Lemma nodup_app_inv {A} (a b : list A) : NoDup (a ++ b) -> NoDup b /\ (forall y, In y a -> In y b -> False).
Proof.
  induction a as [|w r IH]; cbn [app]; intros H; [split; [exact H|intros y []]|]. inv H. destruct (IH H3) as [H0 H1]. split; [exact H0|].
  intros y [->|Hy] Hb; [apply H2; apply in_or_app; right; exact Hb|exact (H1 y Hy Hb)].
Qed.

Lemma nodup_flat_map_unique {A} (f : A -> list Z) l a b y : NoDup (flat_map f l) -> In a l -> In b l -> In y (f a) -> In y (f b) -> f a = f b.
Proof.
  induction l as [|h t IH]; intros Hnd Ha Hb Hya Hyb; [destruct Ha|]. cbn [flat_map] in Hnd. destruct (nodup_app_inv _ _ Hnd) as [Hnd2 Hdis0].
  assert (Hdis : forall q, In q t -> In y (f h) -> In y (f q) -> False).
  { intros q Hq H1 H2. apply (Hdis0 y H1). apply in_flat_map. exists q. auto. }
  destruct Ha as [->|Ha], Hb as [->|Hb]; [reflexivity|exfalso; eapply Hdis; eassumption|exfalso; eapply Hdis; eassumption|].
  apply IH; assumption.
Qed.

Lemma same_stmt_unique T p y z : distinct_ids T = true -> In p (nt_prog T) -> In y (ids (stmt_services (snd p))) -> same_stmt T y z = true -> In z (ids (stmt_services (snd p))).
Proof.
  intros Hd Hp Hy Hs. apply same_stmt_spec in Hs as (q & Hq & Hyq & Hzq). unfold distinct_ids, all_services in Hd. unfold ids in *. apply nodupz_spec in Hd. rewrite map_flat_map in Hd.
  rewrite (nodup_flat_map_unique (fun p => map sv_id (stmt_services (snd p))) (nt_prog T) p q y Hd Hp Hq Hy Hyq). exact Hzq.
Qed.

Lemma prog_stmt T c n st : nth_error (prog_of T c) n = Some st -> exists g, In (g, st) (nt_prog T).
Proof.
  intros H. apply nth_error_In in H. unfold prog_of in H. apply in_map_iff in H as ([g st'] & E & Hin). cbn [snd] in E. subst st'. apply filter_In in Hin as [Hin _]. exists g. exact Hin.
Qed.

Lemma ginv_step T u e u' : GInv T u -> step true u e = Ok u' -> (forall names, e <> ERunGroup [] names) -> GInv T u'.
Proof.
  intros Hg Hs Hne y z i j Hy Hz.
  destruct (step_origin _ _ _ _ _ Hs Hy) as [(i0 & Ei & Gi)|(p & names & x & -> & E & _)];
    [|exfalso; destruct p as [|a p]; [exact (Hne names eq_refl)|destruct p; discriminate]].
  destruct (step_origin _ _ _ _ _ Hs Hz) as [(j0 & Ej & Gj)|(p & names & x & -> & E & _)];
    [|exfalso; destruct p as [|a p]; [exact (Hne names eq_refl)|destruct p; discriminate]].
  rewrite <- Gi, <- Gj. apply Hg; assumption.
Qed.

Lemma ginv_rungroup T u u' p : distinct_ids T = true -> GInv T u -> In p (nt_prog T) ->
  step true u (ERunGroup [] (ids (stmt_services (snd p)))) = Ok u' -> GInv T u'.
Proof.
  intros Hd Hg Hp Hs. set (names := ids (stmt_services (snd p))) in *.
  assert (New : forall w k, find [w] (s_tree u') = Some k ->
            (exists k0, find [w] (s_tree u) = Some k0 /\ n_group k0 = n_group k) \/
            (In w names /\ find [w] (s_tree u) = None /\ n_group k = ngroups [] (s_tree u))).
  { intros w k Hw. destruct (step_origin _ _ _ _ _ Hs Hw) as [H|(q & nm & x & E & Ew & Hx & Hn & Gk)]; [left; exact H|right].
    inv E. cbn [app] in Ew. inv Ew. auto. }
  pose proof Hs as Hs'. cbn [step] in Hs'. destruct (negb _); [discriminate|].
  destruct (run_group [] names (s_tree u)) as [t' new| |] eqn:Er; try discriminate; [|inv Hs'; exact Hg]. clear Hs'.
  assert (Old_in : forall w k0, find [w] (s_tree u) = Some k0 -> ~ In w names).
  { intros w k0 Hw Hin. unfold run_group in Er. destruct (find [] (s_tree u)) as [i0|]; [|discriminate]. destruct (n_state i0); try discriminate.
    destruct (existsb (fun x => match find ([] ++ [x]) (s_tree u) with Some _ => true | None => false end) names) eqn:Ex; [discriminate|].
    assert (existsb (fun x => match find ([] ++ [x]) (s_tree u) with Some _ => true | None => false end) names = true); [|congruence].
    apply existsb_exists. exists w. split; [exact Hin|]. cbn [app]. rewrite Hw. reflexivity. }
  intros y z i j Hy Hz.
  destruct (New y i Hy) as [(i0 & Ei & Gi)|(Iy & Ny & Gi)]; destruct (New z j Hz) as [(j0 & Ej & Gj)|(Iz & Nz & Gj)].
  - rewrite <- Gi, <- Gj. apply Hg; assumption.
  - pose proof (ngroups_gt [] y (s_tree u) i0 Ei) as Hlt. split; [intros E; lia|]. intros Hss. exfalso. rewrite same_stmt_sym in Hss.
    exact (Old_in y i0 Ei (same_stmt_unique T p z y Hd Hp Iz Hss)).
  - pose proof (ngroups_gt [] z (s_tree u) j0 Ej) as Hlt. split; [intros E; lia|]. intros Hss. exfalso.
    exact (Old_in z j0 Ej (same_stmt_unique T p y z Hd Hp Iy Hss)).
  - split; [intros _|intros _; congruence]. apply same_stmt_spec. exists p. auto.
Qed.

Definition ev_kind T (e0 : ev) : Prop :=
  (forall names, e0 <> ERunGroup [] names) \/ (exists p, In p (nt_prog T) /\ e0 = ERunGroup [] (ids (stmt_services (snd p)))).

Lemma sup_events_kind T c s e s' e0 : pstep1 T c s e = PRun s' -> In e0 (sup_events_of T c s e) -> ev_kind T e0.
Proof.
  assert (R : forall d k, In e0 [EReturn d k] -> ev_kind T e0) by (intros d k [<-|[]]; left; discriminate).
  destruct e as [e|f|d|x|n|x|]; cbn [pstep sup_events_of]; try (intros _ H0; exact (False_ind _ H0)).
  - unfold sup_event. destruct (root_own e) eqn:Er; [discriminate|]. intros _.
    destruct e as [d|d k| | |d|d|d|d names|d k]; try (destruct (signal_misuse (p_sup s) _); [apply R|]);
      intros [<-|[]]; left; intros nm E; inv E; cbn in Er; discriminate.
  - intros _. destruct (nth_error (prog_of T c) (p_pc s)) as [[svs roe|w| | | |isnil]|] eqn:En; try (intros H0; exact (False_ind _ H0)).
    + destruct (run_group [] (ids svs) (s_tree (p_sup s))); [|destruct roe; [apply R|intros []]|intros []]. intros [<-|[]]. right.
      destruct (prog_stmt _ _ _ _ En) as [g Hg]. exists (g, RRun svs roe). split; [exact Hg|reflexivity].
    + destruct f; [apply R|intros []].
    + destruct (signal_misuse (p_sup s) (ESignalHealthy [])); [apply R|]. intros [<-|[]]. left. discriminate.
    + destruct (signal_misuse (p_sup s) (ESignalDone [])); [apply R|]. intros [<-|[]]. left. discriminate.
    + apply R.
  - intros _. apply R.
Qed.

Definition PInv T (s : pst) : Prop := Inv (p_sup s) /\ GInv T (p_sup s).

Lemma run_ginv T evs : distinct_ids T = true -> forall u u', (forall e0, In e0 evs -> ev_kind T e0) -> Inv u -> GInv T u -> run true evs u = Ok u' -> GInv T u'.
Proof.
  intros Hd. induction evs as [|e r IH]; intros u u' Hk Hinv Hg H; cbn [run] in H; [inv H; exact Hg|].
  destruct (step true u e) as [u1| | |] eqn:E; try discriminate.
  apply (IH u1 u'); [intros e0 H0; apply Hk; right; exact H0|eapply step_inv; eassumption| |exact H].
  destruct (Hk e (or_introl eq_refl)) as [Hne|(p & Hp & ->)]; [eapply ginv_step; eassumption|eapply ginv_rungroup; eassumption].
Qed.

Lemma pstep_pinv T c s e s' : distinct_ids T = true -> PInv T s -> pstep1 T c s e = PRun s' -> PInv T s'.
Proof.
  intros Hd [Hinv Hg] H. split; [eapply pstep_inv; eassumption|].
  eapply run_ginv; [exact Hd| |exact Hinv|exact Hg|apply (pstep_sup _ _ _ _ _ H)]. intros e0 H0. eapply sup_events_kind; eassumption.
Qed.

Lemma prun_pinv T c h : distinct_ids T = true -> forall s s', PInv T s -> prun1 T c h s = PRun s' -> PInv T s'.
Proof.
  intros Hd. induction h as [|e r IH]; intros s s' Hp H; cbn [prun] in H; [inv H; exact Hp|].
  destruct (pstep1 T c s e) as [s1| | |] eqn:E; try discriminate. eapply IH; [eapply pstep_pinv; eassumption|exact H].
Qed.

Lemma pinv_init T : PInv T pinit.
Proof. split; [exact inv_init|]. intros y z i j H. discriminate. Qed.

Theorem node_pinv T c h s : distinct_ids T = true -> prun1 T c h pinit = PRun s -> PInv T s.
Proof. intros Hd H. eapply prun_pinv; [exact Hd|apply pinv_init|exact H]. Qed.

(* (a, converse) a service of the root runnable exits unexpectedly (returns nil, an error, a captured panic; or its context's error
   while not cancelled): it is DEAD and cancelled; the contexts of exactly the services started by the same supervisor.Run / RunGroup
   statement are cancelled; no other node of the tree is touched (state and cancel flag) *)
Theorem service_exit_cancels_exactly_its_group T u x k t' i :
  Inv u -> GInv T u -> proc_died [x] k (s_tree u) = Some t' -> find [x] (s_tree u) = Some i ->
  ~ (n_state i = SDone /\ k = RNil) -> ~ (cancelled [x] (s_tree u) = true /\ k = RCtx) ->
  (exists j, find [x] t' = Some j /\ n_state j = SDead /\ n_flag j = true /\ n_exited j = true) /\
  (forall z a, find z (s_tree u) = Some a -> z <> [x] ->
     exists a', find z t' = Some a' /\ n_state a' = n_state a /\
       n_flag a' = (n_flag a || match z with [y] => same_stmt T x y | _ => false end)).
Proof.
  intros Hinv Hg Hpd Hx Hn1 Hn2. pose proof Hinv as (Hnd & _).
  destruct (died_unexpected [x] k (s_tree u) t' i Hnd Hpd Hx Hn1 Hn2) as [H1 H2]. split; [exact H1|].
  intros z a Hz Hne. destruct (H2 z a Hz Hne) as (a' & E1 & E2 & E3). exists a'. split; [exact E1|]. split; [exact E2|]. rewrite E3. f_equal.
  unfold sibling_of. cbn [parent removelast List.length].
  destruct z as [|y [|y' z']].
  - reflexivity.
  - assert (dn_eqb [x] [y] = false) as -> by (apply dn_eqb_neq; intros E; apply Hne; congruence). cbn [negb parent removelast dn_eqb List.length Nat.eqb andb].
    destruct (same_stmt T x y) eqn:Es.
    + apply Nat.eqb_eq. symmetry. apply (Hg x y i a Hx Hz). exact Es.
    + apply Nat.eqb_neq. intros E. symmetry in E. apply (Hg x y i a Hx Hz) in E. congruence.
  - cbn [List.length Nat.eqb]. rewrite andb_false_r. reflexivity.
Qed.

(* with one service per statement (supervisor.Run, no RunGroup) nobody else is cancelled *)
Lemma singleton_same_stmt T x y : singleton_groups T = true -> same_stmt T x y = true -> x = y.
Proof.
  intros Hs H. apply same_stmt_spec in H as (p & Hp & Hx & Hy). unfold singleton_groups in Hs. rewrite forallb_forall in Hs. specialize (Hs p Hp).
  apply Nat.leb_le in Hs. unfold ids in *. destruct (stmt_services (snd p)) as [|a [|b r]]; cbn [List.length map] in *; [destruct Hx| |lia].
  destruct Hx as [<-|[]], Hy as [<-|[]]. reflexivity.
Qed.

Theorem service_exit_cancels_nobody_else T u x k t' i :
  singleton_groups T = true -> Inv u -> GInv T u -> proc_died [x] k (s_tree u) = Some t' -> find [x] (s_tree u) = Some i ->
  ~ (n_state i = SDone /\ k = RNil) -> ~ (cancelled [x] (s_tree u) = true /\ k = RCtx) ->
  forall z a, find z (s_tree u) = Some a -> z <> [x] -> exists a', find z t' = Some a' /\ n_state a' = n_state a /\ n_flag a' = n_flag a.
Proof.
  intros Hs Hinv Hg Hpd Hx Hn1 Hn2 z a Hz Hne.
  destruct (service_exit_cancels_exactly_its_group T u x k t' i Hinv Hg Hpd Hx Hn1 Hn2) as [_ H]. destruct (H z a Hz Hne) as (a' & E1 & E2 & E3).
  exists a'. split; [exact E1|]. split; [exact E2|]. rewrite E3. destruct z as [|y [|? ?]]; try apply orb_false_r.
  destruct (same_stmt T x y) eqn:Es; [|apply orb_false_r]. exfalso. apply Hne. f_equal. symmetry. eapply singleton_same_stmt; eassumption.
Qed.

(* ------------------------------------------------------------------ (c) isolation: what a supervisor step leaves alone *)
Lemma in_remove1_other (y x : token) l : y <> x -> In y l -> In y (remove1 x l).
Proof.
  intros Hne. induction l as [|w r IH]; intros H; [destruct H|]. cbn [remove1]. destruct (token_eqb x w) eqn:E.
  - apply token_eqb_eq in E. subst w. destruct H as [H|H]; [congruence|exact H].
  - destruct H as [H|H]; [left; exact H|right; apply IH; exact H].
Qed.

Lemma in_relabel_other z k d k0 k' l : z <> d -> (In (z, k) ((d, k') :: remove1 (d, k0) l) <-> In (z, k) l).
Proof.
  intros Hne. split.
  - intros [E|H]; [inv E; contradiction|eapply in_remove1; exact H].
  - intros H. right. apply in_remove1_other; [intros E; inv E; contradiction|exact H].
Qed.

Definition untouched (u : sst) (e : ev) (z : dn) : Prop :=
  match e with
  | EProcSchedule d | EBackoff d | EReturn d _ | ESignalHealthy d | ESignalDone d => z <> d
  | ERunGroup d names => forall x, In x names -> z <> d ++ [x]
  | EProcDied d k => z <> d /\ (forall i a, find d (s_tree u) = Some i -> find z (s_tree u) = Some a -> sibling_of d (n_group i) z a = false)
  | EGC => is_target (gct (s_tree u)) z = false /\ below_target (gct (s_tree u)) z = false
  | EKill => False
  end.

Lemma step_other u e u' z : step true u e = Ok u' -> untouched u e z ->
  find z (s_tree u') = find z (s_tree u) /\ (forall k, In (z, k) (s_toks u') <-> In (z, k) (s_toks u)).
Proof.
  destruct e as [d|d k| | |d|d|d|d names|d k]; cbn [step untouched].
  - destruct (s_killed u || _); [discriminate|]. destruct (find d (s_tree u)); [|discriminate]. intros H Hz; inv H. cbn [s_tree s_toks with_toks].
    split; [reflexivity|]. intros k. apply in_relabel_other. exact Hz.
  - destruct (s_killed u || _); [discriminate|]. destruct (proc_died d k (s_tree u)) as [t'|] eqn:Ep; [|discriminate]. intros H [Hz Hsib]; inv H. cbn [s_tree s_toks]. split.
    + unfold proc_died in Ep. destruct (find d (s_tree u)) as [i|] eqn:Ed; [|discriminate]. apply dn_eqb_neq in Hz.
      assert (E1 : find z (update d set_exited (s_tree u)) = find z (s_tree u)) by (rewrite find_update, Hz; reflexivity).
      assert (Other : (if cancelled d (update d set_exited (s_tree u)) && match k with RCtx => true | _ => false end
                       then Some (update d (set_state SCanceled) (update d set_exited (s_tree u)))
                       else Some (cancel_siblings d (n_group i) (update d (fun x => set_flag (set_state SDead x)) (update d set_exited (s_tree u))))) = Some t' ->
                      find z t' = find z (s_tree u)).
      { destruct (cancelled d (update d set_exited (s_tree u)) && _); intros H; inv H.
        - rewrite find_update, Hz. exact E1.
        - rewrite cancel_siblings_find, find_update, Hz, E1. destruct (find z (s_tree u)) as [a|] eqn:Ez; [|reflexivity]. cbn [option_map]. destruct d; [reflexivity|].
          rewrite (Hsib i a eq_refl eq_refl). reflexivity. }
      destruct (n_state i), k; try exact (Other Ep); inv Ep; exact E1.
    + intros k0. split; [apply in_remove1|]. apply in_remove1_other. intros E; inv E. contradiction.
  - destruct (s_killed u); [discriminate|]. destruct (gc true (s_tree u)) as [t' new] eqn:Eg. intros H [H1 H2]; inv H. cbn [s_tree s_toks].
    assert (Et : t' = fst (gc true (s_tree u))) by (rewrite Eg; reflexivity). assert (En : new = snd (gc true (s_tree u))) by (rewrite Eg; reflexivity). subst t' new.
    split; [apply gc_leaves_others; assumption|]. intros k. rewrite in_app_iff. split; [|auto]. intros [H|H]; [exact H|]. exfalso.
    unfold gc in H. cbn [snd] in H. apply in_map_iff in H as ([r b] & E & Hin). cbn [fst snd] in E. inv E.
    assert (is_target (gct (s_tree u)) z = true); [|congruence]. apply is_target_spec. exists b. exact Hin.
  - intros _ [].
  - destruct (has (d, TSleep true) (s_toks u)); [intros H Hz; inv H; cbn [s_tree s_toks with_toks]; split; [reflexivity|intros k; apply in_relabel_other; exact Hz]|].
    destruct (has (d, TSleep false) (s_toks u)); [|discriminate]. intros H Hz; inv H; cbn [s_tree s_toks with_toks]; split; [reflexivity|intros k; apply in_relabel_other; exact Hz].
  - destruct (negb _); [discriminate|]. destruct (find d (s_tree u)) as [i|]; [|discriminate].
    destruct (n_state i); intros H Hz; inv H; cbn [s_tree s_toks with_toks];
      try (split; [reflexivity|intros k; apply in_relabel_other; exact Hz]).
    split; [|reflexivity]. rewrite find_update. apply dn_eqb_neq in Hz. rewrite Hz. reflexivity.
  - destruct (negb _); [discriminate|]. destruct (find d (s_tree u)) as [i|]; [|discriminate].
    destruct (n_state i); intros H Hz; inv H; cbn [s_tree s_toks with_toks];
      try (split; [reflexivity|intros k; apply in_relabel_other; exact Hz]).
    split; [|reflexivity]. rewrite find_update. apply dn_eqb_neq in Hz. rewrite Hz. reflexivity.
  - destruct (negb _); [discriminate|]. destruct (run_group d names (s_tree u)) as [t' new| |] eqn:Er; try discriminate; intros H Hz; inv H; cbn [s_tree s_toks];
      [|split; reflexivity].
    unfold run_group in Er. destruct (find d (s_tree u)) as [i|]; [|discriminate]. destruct (n_state i); try discriminate.
    destruct (existsb _ names); [discriminate|]. destruct (negb (nodupz names)); [discriminate|]. inv Er.
    assert (Hex : existsb (fun x => dn_eqb z (d ++ [x])) names = false).
    { destruct (existsb (fun x => dn_eqb z (d ++ [x])) names) eqn:Ex; [|reflexivity]. apply existsb_exists in Ex as (x & Hx & E). apply dn_eqb_eq in E. exfalso. exact (Hz x Hx E). }
    split.
    + rewrite find_app. destruct (find z (s_tree u)); [reflexivity|].
      change (map (fun x => (d ++ [x], {| n_state := SNew; n_flag := false; n_group := ngroups d (s_tree u); n_exited := false |})) names)
        with (map (mkchild (ngroups d (s_tree u)) d) names). rewrite find_children, Hex. reflexivity.
    + intros k. rewrite in_app_iff. split; [|auto]. intros [H|H]; [exact H|]. exfalso. apply in_map_iff in H as (x & E & Hx). inv E. exact (Hz x Hx eq_refl).
  - destruct (negb _); [discriminate|]. intros H Hz; inv H. cbn [s_tree s_toks with_toks]. split; [reflexivity|]. intros k0. apply in_relabel_other. exact Hz.
Qed.

(* the root's own cancel function is called only by processKill and when the root runnable's own exit is processed; the GC gives it
   a fresh context only when it restarts the root *)
Lemma find_update_flag x d f t : (forall i, n_flag (f i) = n_flag i) -> option_map n_flag (find x (update d f t)) = option_map n_flag (find x t).
Proof.
  intros Hf. rewrite find_update. destruct (dn_eqb x d) eqn:E; [|reflexivity]. apply dn_eqb_eq in E. subst x. destruct (find d t); cbn [option_map]; [rewrite Hf|]; reflexivity.
Qed.

Lemma step_root_flag u e u' : step true u e = Ok u' -> e <> EKill -> (forall k, e <> EProcDied [] k) -> (e = EGC -> is_target (gct (s_tree u)) [] = false) ->
  option_map n_flag (find [] (s_tree u')) = option_map n_flag (find [] (s_tree u)).
Proof.
  destruct e as [d|d k| | |d|d|d|d names|d k]; cbn [step]; intros H Hk Hd Hg.
  - destruct (s_killed u || _); [discriminate|]. destruct (find d (s_tree u)); [|discriminate]. inv H. reflexivity.
  - destruct (s_killed u || _); [discriminate|]. destruct (proc_died d k (s_tree u)) as [t'|] eqn:Ep; [|discriminate]. inv H. cbn [s_tree].
    assert (Hd0 : d <> []) by (intros ->; exact (Hd k eq_refl)). unfold proc_died in Ep. destruct (find d (s_tree u)) as [i|]; [|discriminate].
    assert (Hnr : dn_eqb [] d = false) by (destruct d; [contradiction|reflexivity]).
    assert (E1 : option_map n_flag (find [] (update d set_exited (s_tree u))) = option_map n_flag (find [] (s_tree u))) by (apply find_update_flag; reflexivity).
    assert (Other : (if cancelled d (update d set_exited (s_tree u)) && match k with RCtx => true | _ => false end
                     then Some (update d (set_state SCanceled) (update d set_exited (s_tree u)))
                     else Some (cancel_siblings d (n_group i) (update d (fun x => set_flag (set_state SDead x)) (update d set_exited (s_tree u))))) = Some t' ->
                    option_map n_flag (find [] t') = option_map n_flag (find [] (s_tree u))).
    { destruct (cancelled d (update d set_exited (s_tree u)) && _); intros H; inv H.
      - rewrite find_update_flag by reflexivity. exact E1.
      - rewrite cancel_siblings_find. rewrite find_update, Hnr. rewrite <- E1.
        destruct (find [] (update d set_exited (s_tree u))) as [r|]; [|reflexivity]. cbn [option_map]. destruct d as [|a d']; [contradiction|].
        unfold sibling_of. cbn [List.length Nat.eqb]. rewrite andb_false_r. reflexivity. }
    destruct (n_state i), k; try exact (Other Ep); inv Ep; exact E1.
  - destruct (s_killed u); [discriminate|]. destruct (gc true (s_tree u)) as [t' new] eqn:Eg. inv H. cbn [s_tree].
    assert (Et : t' = fst (gc true (s_tree u))) by (rewrite Eg; reflexivity). subst t'. rewrite gc_leaves_others; [reflexivity| |apply Hg; reflexivity].
    destruct (below_target (gct (s_tree u)) []) eqn:B; [|reflexivity]. apply below_target_spec in B as (r & b & _ & Hp). apply strict_prefix_spec in Hp as [Hp Hne].
    destruct r; [contradiction|discriminate].
  - contradiction.
  - destruct (has (d, TSleep true) (s_toks u)); [inv H; reflexivity|]. destruct (has (d, TSleep false) (s_toks u)); [inv H; reflexivity|discriminate].
  - destruct (negb _); [discriminate|]. destruct (find d (s_tree u)) as [i|]; [|discriminate]. destruct (n_state i); inv H; cbn [s_tree with_toks]; try reflexivity.
    apply find_update_flag. reflexivity.
  - destruct (negb _); [discriminate|]. destruct (find d (s_tree u)) as [i|]; [|discriminate]. destruct (n_state i); inv H; cbn [s_tree with_toks]; try reflexivity.
    apply find_update_flag. reflexivity.
  - destruct (negb _); [discriminate|]. destruct (run_group d names (s_tree u)) as [t' new| |] eqn:Er; try discriminate; inv H; cbn [s_tree]; [|reflexivity].
    unfold run_group in Er. destruct (find d (s_tree u)) as [i|]; [|discriminate]. destruct (n_state i); try discriminate.
    destruct (existsb _ names); [discriminate|]. destruct (negb (nodupz names)); [discriminate|]. inv Er. rewrite find_app. destruct (find [] (s_tree u)); [reflexivity|].
    change (map (fun x => (d ++ [x], {| n_state := SNew; n_flag := false; n_group := ngroups d (s_tree u); n_exited := false |})) names)
      with (map (mkchild (ngroups d (s_tree u)) d) names). rewrite find_children.
    assert (existsb (fun x => dn_eqb [] (d ++ [x])) names = false) as ->; [|reflexivity].
    destruct (existsb (fun x => dn_eqb [] (d ++ [x])) names) eqn:Ex; [|reflexivity]. apply existsb_exists in Ex as (x & _ & E). apply dn_eqb_eq in E. destruct d; discriminate.
  - destruct (negb _); [discriminate|]. inv H. reflexivity.
Qed.

Lemma cancelled_ext z t t' : NoDup (map fst t) -> NoDup (map fst t') ->
  (forall p, is_prefix p z = true -> option_map n_flag (find p t') = option_map n_flag (find p t)) -> cancelled z t' = cancelled z t.
Proof.
  assert (G : forall a b, NoDup (map fst a) -> (forall p, is_prefix p z = true -> option_map n_flag (find p b) = option_map n_flag (find p a)) -> cancelled z a = true -> cancelled z b = true).
  { intros a b Hnd Hf H. apply cancelled_spec in H as (p & i & Hin & Hp & Hfl). apply (in_find _ _ _ Hnd) in Hin. specialize (Hf p Hp). rewrite Hin in Hf. cbn in Hf.
    destruct (find p b) as [j|] eqn:Ej; [|discriminate]. cbn in Hf. inv Hf. apply cancelled_spec. exists p, j. split; [apply find_in; exact Ej|]. split; [exact Hp|congruence]. }
  intros H1 H2 Hf. destruct (cancelled z t) eqn:E.
  - apply (G t t' H1 Hf E).
  - destruct (cancelled z t') eqn:E'; [|reflexivity]. rewrite <- E. symmetry. apply (G t' t H2); [|exact E']. intros p Hp. symmetry. apply Hf. exact Hp.
Qed.

Lemma sup_events_le1 T c s e : (List.length (sup_events_of T c s e) <= 1)%nat.
Proof.
  destruct e as [e|f|d|x|n|x|]; cbn [sup_events_of List.length]; try lia.
  - destruct e; try (destruct (signal_misuse (p_sup s) _)); cbn; lia.
  - destruct (nth_error (prog_of T c) (p_pc s)) as [[svs roe|w| | | |isnil]|]; cbn [List.length]; try lia.
    + destruct (run_group [] (ids svs) (s_tree (p_sup s))); [cbn; lia|destruct roe; cbn; lia|cbn; lia].
    + destruct f; cbn; lia.
    + destruct (signal_misuse (p_sup s) (ESignalHealthy [])); cbn; lia.
    + destruct (signal_misuse (p_sup s) (ESignalDone [])); cbn; lia.
Qed.

(* nothing of y's subtree, nor the root, is DEAD or CANCELED: the GC has nothing to restart there *)
Definition quiet (y : Z) (t : tree) : Prop := forall p i, find p t = Some i -> (p = [] \/ is_prefix [y] p = true) -> wanted (n_state i) = false.

(* events that are not service y's own, not the root's failure, not the shutdown *)
Definition foreign T (s : pst) (y : Z) (e : pev) : Prop :=
  match e with
  | PSup EKill => False
  | PSup EGC => quiet y (s_tree (p_sup s))
  | PSup (EProcDied d k) => match d with [] => False | [x] => x <> y /\ same_stmt T x y = false | x :: _ => x <> y end
  | PSup (EProcSchedule d) | PSup (EBackoff d) | PSup (EReturn d _) | PSup (ESignalHealthy d) | PSup (ESignalDone d) | PSup (ERunGroup d _) | PPanic d =>
    is_prefix [y] d = false
  | PRoot _ => find [y] (s_tree (p_sup s)) <> None
  | _ => True
  end.

Lemma signal_misuse_dn u e d0 : signal_misuse u e = Some d0 -> e = ESignalHealthy d0 \/ e = ESignalDone d0.
Proof.
  destruct e; cbn [signal_misuse]; try discriminate.
  - destruct (has (d, TInst) (s_toks u)); [|discriminate]. destruct (find d (s_tree u)) as [i|]; [|discriminate]. destruct (n_state i); intros H; inv H; auto.
  - destruct (has (d, TInst) (s_toks u)); [|discriminate]. destruct (find d (s_tree u)) as [i|]; [|discriminate]. destruct (n_state i); intros H; inv H; auto.
Qed.

Lemma prefix_under y z p : is_prefix [y] z = true -> is_prefix p z = true -> p = [] \/ is_prefix [y] p = true.
Proof.
  destruct p as [|a p']; [auto|]. destruct z as [|b z']; [discriminate|]. cbn [is_prefix]. intros H1 H2. right.
  apply andb_true_iff in H1 as [H1 _]. apply andb_true_iff in H2 as [H2 _]. apply Z.eqb_eq in H1, H2. subst. rewrite Z.eqb_refl. reflexivity.
Qed.

Lemma quiet_no_target y u z : Inv u -> quiet y (s_tree u) -> (z = [] \/ is_prefix [y] z = true) ->
  is_target (gct (s_tree u)) z = false /\ below_target (gct (s_tree u)) z = false.
Proof.
  intros (Hnd & _) Hq Hz.
  assert (W : forall r b, In (r, b) (gct (s_tree u)) -> (r = [] \/ is_prefix [y] r = true) -> False).
  { intros r b Hin Hr. destruct (targets_spec _ _ _ Hnd Hin) as (i & Ei & _ & Hc & _). unfold can, can0 in Hc. rewrite !andb_true_iff in Hc. destruct Hc as [[[Hw _] _] _].
    rewrite (Hq r i Ei Hr) in Hw. discriminate. }
  split.
  - destruct (is_target (gct (s_tree u)) z) eqn:E; [|reflexivity]. exfalso. apply is_target_spec in E as [b Hb]. exact (W z b Hb Hz).
  - destruct (below_target (gct (s_tree u)) z) eqn:E; [|reflexivity]. exfalso. apply below_target_spec in E as (r & b & Hb & Hp). apply (W r b Hb).
    apply strict_prefix_spec in Hp as [Hp Hne]. destruct Hz as [->|Hz]; [destruct r; [contradiction|discriminate]|]. eapply prefix_under; eassumption.
Qed.

Lemma foreign_untouched T c s e s' y z e0 : PInv T s -> pstep1 T c s e = PRun s' -> foreign T s y e -> is_prefix [y] z = true ->
  In e0 (sup_events_of T c s e) -> untouched (p_sup s) e0 z.
Proof.
  intros [Hinv Hg] Hstep Hf Hz Hin.
  assert (Zne : z <> []) by (intros ->; discriminate).
  assert (Other : forall d, is_prefix [y] d = false -> z <> d) by (intros d Hd ->; congruence).
  assert (R : forall d k, is_prefix [y] d = false -> In e0 [EReturn d k] -> untouched (p_sup s) e0 z) by (intros d k Hd [<-|[]]; cbn [untouched]; apply Other; exact Hd).
  destruct e as [e|f|d|x|n|x|]; cbn [pstep sup_events_of foreign] in *; try (exfalso; exact Hin).
  - unfold sup_event in Hstep. destruct (root_own e) eqn:Er; [discriminate|].
    destruct e as [d|d k| | |d|d|d|d names|d k].
    + destruct Hin as [<-|[]]. cbn [untouched]. apply Other. exact Hf.
    + assert (Hin' : e0 = EProcDied d k).
      { cbn [signal_misuse] in Hin. destruct Hin as [<-|[]]. reflexivity. }
      subst e0. cbn [untouched]. destruct z as [|b z']; [discriminate|]. cbn [is_prefix] in Hz. apply andb_true_iff in Hz as [Hb _]. apply Z.eqb_eq in Hb. subst b.
      destruct d as [|x d']; [contradiction|]. destruct d' as [|x' d''].
      * destruct Hf as [Hxy Hss]. split; [intros E; inv E; contradiction|]. intros i a Hi Ha. unfold sibling_of. destruct z' as [|w z''].
        -- assert ((n_group a =? n_group i)%nat = false) as ->; [|apply andb_false_r]. apply Nat.eqb_neq. intros E. symmetry in E. apply (Hg x y i a Hi Ha) in E. congruence.
        -- cbn [List.length Nat.eqb]. rewrite andb_false_r. reflexivity.
      * split; [intros E; inv E; contradiction|]. intros i a Hi Ha. unfold sibling_of.
        assert (dn_eqb (parent (x :: x' :: d'')) (parent (y :: z')) = false) as ->; [|rewrite andb_false_r; reflexivity].
        apply dn_eqb_neq. unfold parent. cbn [removelast]. destruct z' as [|w z'']; [discriminate|]. intros E. inv E. contradiction.
    + cbn [signal_misuse] in Hin. destruct Hin as [<-|[]]. cbn [untouched]. destruct (quiet_no_target y (p_sup s) z Hinv Hf (or_intror Hz)). auto.
    + contradiction.
    + cbn [signal_misuse] in Hin. destruct Hin as [<-|[]]. cbn [untouched]. apply Other. exact Hf.
    + destruct (signal_misuse (p_sup s) (ESignalHealthy d)) as [d0|] eqn:Em.
      * apply signal_misuse_dn in Em as [Em|Em]; inv Em. apply (R d0 RErr Hf Hin).
      * destruct Hin as [<-|[]]. cbn [untouched]. apply Other. exact Hf.
    + destruct (signal_misuse (p_sup s) (ESignalDone d)) as [d0|] eqn:Em.
      * apply signal_misuse_dn in Em as [Em|Em]; inv Em. apply (R d0 RErr Hf Hin).
      * destruct Hin as [<-|[]]. cbn [untouched]. apply Other. exact Hf.
    + cbn [signal_misuse] in Hin. destruct Hin as [<-|[]]. cbn [untouched]. intros x Hx E. subst z.
      destruct (prefix_of_child _ _ _ Hz) as [E|E]; [|congruence]. destruct d as [|a d']; [discriminate|]. destruct d'; discriminate.
    + cbn [signal_misuse] in Hin. destruct Hin as [<-|[]]. cbn [untouched]. apply Other. exact Hf.
  - assert (Rn : is_prefix [y] [] = false) by reflexivity.
    destruct (nth_error (prog_of T c) (p_pc s)) as [[svs roe|w| | | |isnil]|]; try (exfalso; exact Hin).
    + destruct (run_group [] (ids svs) (s_tree (p_sup s))) as [t' new| |] eqn:Er; [|destruct roe; [apply (R [] RErr Rn Hin)|destruct Hin]|destruct Hin].
      destruct Hin as [<-|[]]. cbn [untouched app]. intros x Hx E. subst z. cbn [is_prefix] in Hz. rewrite andb_true_r in Hz. apply Z.eqb_eq in Hz. subst x.
      unfold run_group in Er. destruct (find [] (s_tree (p_sup s))) as [i|]; [|discriminate]. destruct (n_state i); try discriminate.
      destruct (existsb (fun x => match find ([] ++ [x]) (s_tree (p_sup s)) with Some _ => true | None => false end) (ids svs)) eqn:Ex; [discriminate|].
      assert (existsb (fun x => match find ([] ++ [x]) (s_tree (p_sup s)) with Some _ => true | None => false end) (ids svs) = true); [|congruence].
      apply existsb_exists. exists y. split; [exact Hx|]. cbn [app]. destruct (find [y] (s_tree (p_sup s))); [reflexivity|contradiction].
    + destruct f; [apply (R [] RErr Rn Hin)|destruct Hin].
    + destruct (signal_misuse (p_sup s) (ESignalHealthy [])) as [d0|] eqn:Em.
      * apply signal_misuse_dn in Em as [Em|Em]; inv Em. apply (R [] RErr Rn Hin).
      * destruct Hin as [<-|[]]. cbn [untouched]. exact Zne.
    + destruct (signal_misuse (p_sup s) (ESignalDone [])) as [d0|] eqn:Em.
      * apply signal_misuse_dn in Em as [Em|Em]; inv Em. apply (R [] RErr Rn Hin).
      * destruct Hin as [<-|[]]. cbn [untouched]. exact Zne.
    + apply (R [] _ Rn Hin).
  - apply (R d RErr Hf Hin).
Qed.

(* THE ISOLATION THEOREM: a step that is foreign to service y — another service's (or its children's) start, calls, exit, panic, the
   processing of its exit when it is not in y's supervision group, its restart, the root runnable going on, a GC while nothing of y has
   died — leaves y and everything below it exactly as it was: the nodes (state, own cancel flag, group, exit mark), everything in flight
   for them (pending schedule, sleeper, running instance, pending exit), and whether their contexts are cancelled *)
Theorem isolation_step T c s e s' y : PInv T s -> pstep1 T c s e = PRun s' -> foreign T s y e ->
  forall z, is_prefix [y] z = true ->
    find z (s_tree (p_sup s')) = find z (s_tree (p_sup s)) /\
    (forall k, In (z, k) (s_toks (p_sup s')) <-> In (z, k) (s_toks (p_sup s))) /\
    cancelled z (s_tree (p_sup s')) = cancelled z (s_tree (p_sup s)).
Proof.
  intros Hp Hstep Hf.
  pose proof (pstep_sup _ _ _ _ _ Hstep) as Hrun. pose proof (sup_events_le1 T c s e) as Hle.
  pose proof (fun z e0 Hz => foreign_untouched T c s e s' y z e0 Hp Hstep Hf Hz) as Hun.
  pose proof Hp as [Hinv _]. pose proof (pstep_inv _ _ _ _ _ Hinv Hstep) as Hinv'.
  assert (Hroot : option_map n_flag (find [] (s_tree (p_sup s'))) = option_map n_flag (find [] (s_tree (p_sup s)))).
  { destruct (sup_events_of T c s e) as [|e0 [|e1 r]] eqn:Ee; cbn [run List.length] in *; [inv Hrun; rewrite H0; reflexivity| |lia].
    destruct (step true (p_sup s) e0) as [u1| | |] eqn:E0; try discriminate. inv Hrun. apply (step_root_flag _ _ _ E0).
    - intros ->. exact (Hun [y] EKill (is_prefix_refl [y]) (or_introl eq_refl)).
    - intros k ->. destruct (Hun [y] _ (is_prefix_refl [y]) (or_introl eq_refl)) as [_ _].
      (* the root runnable's exit is processed only by PSup (EProcDied [] k), which is not foreign *)
      destruct e as [e|f|d|x|n|x|]; cbn [sup_events_of] in Ee; try discriminate.
      + destruct e; try (destruct (signal_misuse (p_sup s) _)); inv Ee. exact Hf.
      + destruct (nth_error (prog_of T c) (p_pc s)) as [[svs roe|w| | | |isnil]|]; try discriminate.
        * destruct (run_group [] (ids svs) (s_tree (p_sup s))); [discriminate|destruct roe; discriminate|discriminate].
        * destruct f; discriminate.
        * destruct (signal_misuse (p_sup s) (ESignalHealthy [])); discriminate.
        * destruct (signal_misuse (p_sup s) (ESignalDone [])); discriminate.
    - intros ->. destruct e as [e|f|d|x|n|x|]; cbn [sup_events_of] in Ee; try discriminate.
      + destruct e; try (destruct (signal_misuse (p_sup s) _)); inv Ee. cbn [foreign] in Hf. destruct (quiet_no_target y (p_sup s) [] Hinv Hf (or_introl eq_refl)) as [H _]. exact H.
      + destruct (nth_error (prog_of T c) (p_pc s)) as [[svs roe|w| | | |isnil]|]; try discriminate.
        * destruct (run_group [] (ids svs) (s_tree (p_sup s))); [discriminate|destruct roe; discriminate|discriminate].
        * destruct f; discriminate.
        * destruct (signal_misuse (p_sup s) (ESignalHealthy [])); discriminate.
        * destruct (signal_misuse (p_sup s) (ESignalDone [])); discriminate. }
  assert (Hfind : forall z, is_prefix [y] z = true ->
            find z (s_tree (p_sup s')) = find z (s_tree (p_sup s)) /\ (forall k, In (z, k) (s_toks (p_sup s')) <-> In (z, k) (s_toks (p_sup s)))).
  { intros z Hz. specialize (Hun z). destruct (sup_events_of T c s e) as [|e0 [|e1 r]]; cbn [run List.length] in *; [inv Hrun; rewrite H0; split; reflexivity| |lia].
    destruct (step true (p_sup s) e0) as [u1| | |] eqn:E0; try discriminate. inv Hrun. apply (step_other _ _ _ _ E0). apply Hun; [exact Hz|left; reflexivity]. }
  intros z Hz. destruct (Hfind z Hz) as [F1 F2]. split; [exact F1|]. split; [exact F2|].
  destruct Hinv as (Hnd & _). destruct Hinv' as (Hnd' & _). apply cancelled_ext; [exact Hnd|exact Hnd'|].
  intros p Hpz. destruct (prefix_under y z p Hz Hpz) as [->|Hpy]; [exact Hroot|]. destruct (Hfind p Hpy) as [-> _]. reflexivity.
Qed.

(* ------------------------------------------------------------------ supervisor events as process steps *)
Lemma psup_plain T c s e u : root_own e = false -> signal_misuse (p_sup s) e = None -> e <> EKill -> (forall d, e <> EProcSchedule d) ->
  step true (p_sup s) e = Ok u -> pstep1 T c s (PSup e) = PRun (with_sup s u).
Proof.
  intros Hr Hm Hk Hs H. cbn [pstep]. unfold sup_event. rewrite Hr.
  destruct e as [d|d k| | |d|d|d|d names|d k]; try rewrite Hm; try rewrite H; try reflexivity; [exfalso; exact (Hs d eq_refl)|contradiction].
Qed.

Lemma psup_schedule T c s d u : step true (p_sup s) (EProcSchedule d) = Ok u ->
  pstep1 T c s (PSup (EProcSchedule d)) =
  PRun {| p_sup := u; p_pc := match d with [] => 0%nat | _ => p_pc s end; p_rootctx := p_rootctx s; p_started := match d with [x] => x :: p_started s | _ => p_started s end |}.
Proof. intros H. cbn [pstep]. unfold sup_event. cbn [root_own]. rewrite H. reflexivity. Qed.

(* (a, converse, continued) the restart: a DEAD / CANCELED service whose subtree has exited is reset by the next GC, its sleeper offers
   the schedule request after the back-off, the runnable is started: exactly one instance, fresh context *)
Theorem service_restarts T c h s x i :
  prun1 T c h pinit = PRun s -> s_killed (p_sup s) = false -> find [x] (s_tree (p_sup s)) = Some i -> can true [x] i (s_tree (p_sup s)) = true ->
  exists s', prun1 T c [PSup EGC; PSup (EBackoff [x]); PSup (EProcSchedule [x])] s = PRun s' /\ running [x] (p_sup s') = 1%nat /\ In x (p_started s') /\
             (exists j, find [x] (s_tree (p_sup s')) = Some j /\ n_state j = SNew /\ n_flag j = false).
Proof.
  intros Hrun Hk Hx Hc. destruct (restart_goes_through _ _ [x] i (prun_sup _ _ _ _ _ Hrun) Hk Hx Hc) as (u3 & Hr & Hone & Hj).
  cbn [run] in Hr. destruct (step true (p_sup s) EGC) as [u1| | |] eqn:E1; try discriminate.
  destruct (step true u1 (EBackoff [x])) as [u2| | |] eqn:E2; try discriminate. destruct (step true u2 (EProcSchedule [x])) as [u3'| | |] eqn:E3; try discriminate. inv Hr.
  cbn [prun]. rewrite (psup_plain T c s EGC u1 eq_refl eq_refl) by (try discriminate; try exact E1; intros d; discriminate).
  rewrite (psup_plain T c (with_sup s u1) (EBackoff [x]) u2 eq_refl eq_refl) by (try discriminate; try exact E2; intros d; discriminate).
  rewrite (psup_schedule T c (with_sup (with_sup s u1) u2) [x] u3 E3). eexists. split; [reflexivity|]. cbn [p_sup p_started]. split; [exact Hone|]. split; [left; reflexivity|exact Hj].
Qed.

(* when the GC may restart a service: it is DEAD / CANCELED, everything below it has exited, the root runnable is alive *)
Lemma can_service u x i : Inv u -> find [x] (s_tree u) = Some i -> wanted (n_state i) = true ->
  (forall z j, find z (s_tree u) = Some j -> is_prefix [x] z = true -> restartable true j = true) ->
  (forall r, find [] (s_tree u) = Some r -> n_flag r = false /\ wanted (n_state r) = false) ->
  can true [x] i (s_tree u) = true.
Proof.
  intros (Hnd & Hcl & _) Hx Hw Hsub Hroot. unfold can, can0. cbn [parent removelast]. rewrite Hw. cbn [andb].
  assert (Hr : find [] (s_tree u) <> None) by (apply (Hcl [x] i []); [exact Hx|reflexivity]).
  destruct (find [] (s_tree u)) as [r|] eqn:Er; [|contradiction]. destruct (Hroot r eq_refl) as [Hfl Hwr].
  assert (ready true [x] (s_tree u) = true) as ->.
  { unfold ready. apply forallb_forall. intros [z j] Hin. cbn [fst snd]. destruct (is_prefix [x] z) eqn:Ep; [|reflexivity]. apply (Hsub z j); [apply in_find; assumption|exact Ep]. }
  assert (cancelled [] (s_tree u) = false) as ->.
  { destruct (cancelled [] (s_tree u)) eqn:Ec; [|reflexivity]. apply cancelled_spec in Ec as (p & j & Hin & Hp & Hf). destruct p; [|discriminate].
    apply (in_find _ _ _ Hnd) in Hin. rewrite Er in Hin. inv Hin. congruence. }
  cbn [andb negb]. apply negb_true_iff. destruct (existsb _ (s_tree u)) eqn:Ex; [|reflexivity]. exfalso.
  apply existsb_exists in Ex as ([p j] & Hin & H). cbn [fst snd] in H. apply andb_true_iff in H as [Hp Hc0]. apply strict_prefix_spec in Hp as [Hp Hne].
  destruct p as [|a p']; [|destruct p'; [cbn in Hp; rewrite andb_true_r in Hp; apply Z.eqb_eq in Hp; subst; contradiction|cbn in Hp; rewrite andb_false_r in Hp; discriminate]].
  apply (in_find _ _ _ Hnd) in Hin. rewrite Er in Hin. inv Hin. rewrite Hwr in Hc0. discriminate.
Qed.

(* ------------------------------------------------------------------ (d) the root runnable's own return *)
(* the root's own cancel function has been called only if the supervisor was shut down or the root runnable's exit has been processed *)
Lemma find_update_exited x d f t : (forall i, n_exited (f i) = n_exited i) -> option_map n_exited (find x (update d f t)) = option_map n_exited (find x t).
Proof.
  intros Hf. rewrite find_update. destruct (dn_eqb x d) eqn:E; [|reflexivity]. apply dn_eqb_eq in E. subst x. destruct (find d t); cbn [option_map]; [rewrite Hf|]; reflexivity.
Qed.

Definition RootInv (u : sst) : Prop := forall r, find [] (s_tree u) = Some r -> n_flag r = true -> s_killed u = true \/ n_exited r = true.

Lemma step_rootinv u e u' : Inv u -> RootInv u -> step true u e = Ok u' -> RootInv u'.
Proof.
  intros Hinv Hr Hs. unfold RootInv in *.
  destruct (match e with EKill => true | _ => false end) eqn:Ek.
  { destruct e; try discriminate. cbn [step] in Hs. destruct (s_killed u); [discriminate|]. inv Hs. intros r _ _. left. reflexivity. }
  assert (Hk : e <> EKill) by (intros ->; discriminate).
  destruct (match e with EProcDied [] _ => true | _ => false end) eqn:Ed.
  { destruct e as [|d k| | | | | | |]; try discriminate. destruct d; [|discriminate]. cbn [step] in Hs. destruct (s_killed u || _); [discriminate|].
    destruct (proc_died [] k (s_tree u)) as [t'|] eqn:Ep; [|discriminate]. inv Hs. cbn [s_tree s_killed]. intros r Hf _. right.
    destruct (proc_died_spec _ _ _ _ Ep) as (_ & _ & i & j & _ & Ej & Xj & _). rewrite Ej in Hf. inv Hf. exact Xj. }
  assert (Hd : forall k, e <> EProcDied [] k) by (intros k ->; discriminate).
  destruct (match e with EGC => is_target (gct (s_tree u)) [] | _ => false end) eqn:Eg.
  { destruct e; try discriminate. cbn [step] in Hs. destruct (s_killed u); [discriminate|]. destruct (gc true (s_tree u)) as [t' new] eqn:EG. inv Hs. cbn [s_tree s_killed].
    intros r Hf Hfl. exfalso. assert (Et : t' = fst (gc true (s_tree u))) by (rewrite EG; reflexivity). subst t'. rewrite find_gc, Eg in Hf.
    destruct (below_target (gct (s_tree u)) []); [discriminate|]. destruct (find [] (s_tree u)); [|discriminate]. cbn in Hf. inv Hf. discriminate. }
  assert (Hg : e = EGC -> is_target (gct (s_tree u)) [] = false) by (intros ->; exact Eg).
  pose proof (step_root_flag _ _ _ Hs Hk Hd Hg) as Hflag.
  (* the exit mark of the root is touched only by the two cases above *)
  assert (Hex : option_map n_exited (find [] (s_tree u')) = option_map n_exited (find [] (s_tree u))).
  { clear Hflag. destruct e as [d|d k| | |d|d|d|d names|d k]; cbn [step] in Hs.
    - destruct (s_killed u || _); [discriminate|]. destruct (find d (s_tree u)); [|discriminate]. inv Hs. reflexivity.
    - destruct (s_killed u || _); [discriminate|]. destruct (proc_died d k (s_tree u)) as [t'|] eqn:Ep; [|discriminate]. inv Hs. cbn [s_tree].
      destruct (proc_died_spec _ _ _ _ Ep) as (_ & Hsame & _). assert (Hne : [] <> d) by (intros <-; exact (Hd k eq_refl)). specialize (Hsame [] Hne).
      destruct (find [] (s_tree u)), (find [] t'); try contradiction; [|reflexivity]. cbn [option_map]. destruct Hsame as [_ ->]. reflexivity.
    - destruct (s_killed u); [discriminate|]. destruct (gc true (s_tree u)) as [t' new] eqn:EG. inv Hs. cbn [s_tree].
      assert (Et : t' = fst (gc true (s_tree u))) by (rewrite EG; reflexivity). subst t'. rewrite gc_leaves_others; [reflexivity| |exact Eg].
      destruct (below_target (gct (s_tree u)) []) eqn:B; [|reflexivity]. apply below_target_spec in B as (r & b & _ & Hp). apply strict_prefix_spec in Hp as [Hp Hne].
      destruct r; [contradiction|discriminate].
    - contradiction.
    - destruct (has (d, TSleep true) (s_toks u)); [inv Hs; reflexivity|]. destruct (has (d, TSleep false) (s_toks u)); [inv Hs; reflexivity|discriminate].
    - destruct (negb _); [discriminate|]. destruct (find d (s_tree u)) as [i|]; [|discriminate]. destruct (n_state i); inv Hs; cbn [s_tree with_toks]; try reflexivity.
      apply find_update_exited. reflexivity.
    - destruct (negb _); [discriminate|]. destruct (find d (s_tree u)) as [i|]; [|discriminate]. destruct (n_state i); inv Hs; cbn [s_tree with_toks]; try reflexivity.
      apply find_update_exited. reflexivity.
    - destruct (negb _); [discriminate|]. destruct (run_group d names (s_tree u)) as [t' new| |] eqn:Er; try discriminate; inv Hs; cbn [s_tree]; [|reflexivity].
      unfold run_group in Er. destruct (find d (s_tree u)) as [i|]; [|discriminate]. destruct (n_state i); try discriminate.
      destruct (existsb _ names); [discriminate|]. destruct (negb (nodupz names)); [discriminate|]. inv Er. rewrite find_app. destruct (find [] (s_tree u)); [reflexivity|].
      change (map (fun x => (d ++ [x], {| n_state := SNew; n_flag := false; n_group := ngroups d (s_tree u); n_exited := false |})) names)
        with (map (mkchild (ngroups d (s_tree u)) d) names). rewrite find_children.
      assert (existsb (fun x => dn_eqb [] (d ++ [x])) names = false) as ->; [|reflexivity].
      destruct (existsb (fun x => dn_eqb [] (d ++ [x])) names) eqn:Ex; [|reflexivity]. apply existsb_exists in Ex as (x & _ & E). apply dn_eqb_eq in E. destruct d; discriminate.
    - destruct (negb _); [discriminate|]. inv Hs. reflexivity. }
  intros r Hf Hfl. destruct (find [] (s_tree u)) as [r0|] eqn:E0; [|rewrite Hf in Hflag; discriminate]. rewrite Hf in Hflag, Hex. cbn in Hflag, Hex. inv Hflag. inv Hex.
  destruct (Hr r0 eq_refl (eq_trans (eq_sym H0) Hfl)) as [Hkk|Hxx]; [|right; congruence]. left.
  destruct (no_starts_after_kill true [e] u u' [] Hkk) as [H _]; [cbn [run]; rewrite Hs; reflexivity|exact H].
Qed.

Lemma run_rootinv evs : forall u u', Inv u -> RootInv u -> run true evs u = Ok u' -> RootInv u'.
Proof.
  induction evs as [|e r IH]; intros u u' Hinv Hr H; cbn [run] in H; [inv H; exact Hr|].
  destruct (step true u e) as [u1| | |] eqn:E; try discriminate. apply (IH u1 u'); [eapply step_inv; eassumption|eapply step_rootinv; eassumption|exact H].
Qed.

Theorem node_rootinv T c h s : prun1 T c h pinit = PRun s -> RootInv (p_sup s).
Proof.
  intros H. eapply run_rootinv; [exact inv_init| |exact (prun_sup _ _ _ _ _ H)]. intros r Hf Hfl. cbn in Hf. inv Hf. discriminate.
Qed.

(* (d1) `<-ctx.Done()` in the root runnable returns only after processKill: the root's context is cancelled by nothing else while the
   root runnable runs *)
Theorem root_wait_returns_only_after_kill T c h s f s' :
  prun1 T c h pinit = PRun s -> nth_error (prog_of T c) (p_pc s) = Some RWaitCtx -> pstep1 T c s (PRoot f) = PRun s' -> s_killed (p_sup s) = true.
Proof.
  intros Hrun Hpc Hstep. pose proof (node_inv _ _ _ _ Hrun) as Hinv. pose proof (node_rootinv _ _ _ _ Hrun) as Hr.
  cbn [pstep] in Hstep. unfold root_step in Hstep. destruct (negb (has ([], TInst) (s_toks (p_sup s)))) eqn:Eh; [discriminate|]. apply negb_false_iff, has_in in Eh.
  rewrite Hpc in Hstep. destruct (cancelled [] (s_tree (p_sup s))) eqn:Ec; [|discriminate].
  apply cancelled_spec in Ec as (p & i & Hin & Hp & Hfl). destruct p; [|discriminate]. pose proof Hinv as (Hnd & _). apply (in_find _ _ _ Hnd) in Hin.
  destruct (Hr i Hin Hfl) as [Hk|Hx]; [exact Hk|]. exfalso. destruct (token_node _ _ _ Hinv Eh) as (i' & Ei & Hne & _). rewrite Hin in Ei. inv Ei. congruence.
Qed.

(* (d2) the root runnable returns an error (a supervisor.Run was rejected, a constructor failed) or panics with capture on, and the exit
   is processed: the root is DEAD, every service's context is cancelled (they are nested in the root's) *)
Theorem root_failure_cancels_every_service u k t' i :
  Inv u -> proc_died [] k (s_tree u) = Some t' -> find [] (s_tree u) = Some i -> ~ (n_state i = SDone /\ k = RNil) -> ~ (cancelled [] (s_tree u) = true /\ k = RCtx) ->
  (exists j, find [] t' = Some j /\ n_state j = SDead /\ n_flag j = true) /\
  (forall z a, find z (s_tree u) = Some a -> exists a', find z t' = Some a' /\ cancelled z t' = true /\ (z <> [] -> n_state a' = n_state a)).
Proof.
  intros Hinv Hpd Hi Hn1 Hn2. pose proof Hinv as (Hnd & _). destruct (died_unexpected [] k (s_tree u) t' i Hnd Hpd Hi Hn1 Hn2) as [(j & Ej & Sj & Fj & _) H2].
  split; [exists j; auto|]. intros z a Hz.
  assert (Hc : forall a', find z t' = Some a' -> cancelled z t' = true).
  { intros a' _. apply cancelled_spec. exists [], j. split; [apply find_in; exact Ej|]. split; [reflexivity|exact Fj]. }
  destruct z as [|b z'].
  - exists j. split; [exact Ej|]. split; [apply (Hc j Ej)|]. intros H. contradiction.
  - destruct (H2 (b :: z') a Hz) as (a' & E1 & E2 & _); [discriminate|]. exists a'. split; [exact E1|]. split; [apply (Hc a' E1)|]. intros _. exact E2.
Qed.

(* ... and once everything below has exited, the GC restarts the root: the whole tree is dropped, the root is NEW with a fresh context,
   its sleeper offers the schedule request after the back-off; the root runnable then starts every service again *)
Theorem root_restart_drops_the_tree u i : Inv u -> find [] (s_tree u) = Some i -> can true [] i (s_tree u) = true ->
  find [] (fst (gc true (s_tree u))) = Some (reset_info i) /\
  In ([], TSleep (match n_state i with SDead => true | _ => false end)) (snd (gc true (s_tree u))) /\
  (forall z, z <> [] -> find z (fst (gc true (s_tree u))) = None).
Proof.
  intros (Hnd & _) Hi Hc. destruct (gc_restarts _ _ _ Hnd Hi Hc) as (H1 & H2 & H3). split; [exact H1|]. split; [exact H2|].
  intros z Hz. apply H3. apply strict_prefix_spec. split; [reflexivity|congruence].
Qed.

(* ------------------------------------------------------------------ (c) isolation over whole histories *)
(* the root's state becomes DEAD / CANCELED only when the root runnable's own exit is processed *)
Lemma step_root_wanted u e u' r' : step true u e = Ok u' -> (forall k, e <> EProcDied [] k) -> find [] (s_tree u') = Some r' -> wanted (n_state r') = true ->
  exists r, find [] (s_tree u) = Some r /\ wanted (n_state r) = true.
Proof.
  intros Hs Hd Hf Hw.
  assert (Same : s_tree u' = s_tree u -> exists r, find [] (s_tree u) = Some r /\ wanted (n_state r) = true) by (intros E; rewrite E in Hf; exists r'; auto).
  destruct e as [d|d k| | |d|d|d|d names|d k]; cbn [step] in Hs.
  - destruct (s_killed u || _); [discriminate|]. destruct (find d (s_tree u)); [|discriminate]. inv Hs. apply Same. reflexivity.
  - destruct (s_killed u || _); [discriminate|]. destruct (proc_died d k (s_tree u)) as [t'|] eqn:Ep; [|discriminate]. inv Hs. cbn [s_tree] in Hf.
    destruct (proc_died_spec _ _ _ _ Ep) as (_ & Hsame & _). assert (Hne : [] <> d) by (intros <-; exact (Hd k eq_refl)). specialize (Hsame [] Hne). rewrite Hf in Hsame.
    destruct (find [] (s_tree u)) as [r|]; [|contradiction]. destruct Hsame as [Es _]. exists r. split; [reflexivity|]. rewrite Es. exact Hw.
  - destruct (s_killed u); [discriminate|]. destruct (gc true (s_tree u)) as [t' new] eqn:EG. inv Hs. cbn [s_tree] in Hf.
    assert (Et : t' = fst (gc true (s_tree u))) by (rewrite EG; reflexivity). subst t'. rewrite find_gc in Hf. destruct (below_target (gct (s_tree u)) []); [discriminate|].
    destruct (find [] (s_tree u)) as [r|]; [|discriminate]. cbn [option_map] in Hf. destruct (is_target (gct (s_tree u)) []); inv Hf; [discriminate|]. exists r'. auto.
  - destruct (s_killed u); [discriminate|]. inv Hs. cbn [s_tree] in Hf. rewrite (find_mapv (fun _ x => set_flag x)) in Hf. destruct (find [] (s_tree u)) as [r|]; [|discriminate].
    cbn in Hf. inv Hf. exists r. auto.
  - destruct (has (d, TSleep true) (s_toks u)); [inv Hs; apply Same; reflexivity|]. destruct (has (d, TSleep false) (s_toks u)); [inv Hs; apply Same; reflexivity|discriminate].
  - destruct (negb _); [discriminate|]. destruct (find d (s_tree u)) as [i|] eqn:Ed; [|discriminate]. destruct (n_state i) eqn:Es; inv Hs; cbn [s_tree with_toks] in *; try (apply Same; reflexivity).
    rewrite find_update in Hf. destruct (dn_eqb [] d) eqn:E; [|exists r'; auto]. apply dn_eqb_eq in E. subst d. rewrite Ed in Hf. cbn in Hf. inv Hf. discriminate.
  - destruct (negb _); [discriminate|]. destruct (find d (s_tree u)) as [i|] eqn:Ed; [|discriminate]. destruct (n_state i) eqn:Es; inv Hs; cbn [s_tree with_toks] in *; try (apply Same; reflexivity).
    rewrite find_update in Hf. destruct (dn_eqb [] d) eqn:E; [|exists r'; auto]. apply dn_eqb_eq in E. subst d. rewrite Ed in Hf. cbn in Hf. inv Hf. discriminate.
  - destruct (negb _); [discriminate|]. destruct (run_group d names (s_tree u)) as [t' new| |] eqn:Er; try discriminate; inv Hs; cbn [s_tree] in *; [|apply Same; reflexivity].
    unfold run_group in Er. destruct (find d (s_tree u)) as [i|]; [|discriminate]. destruct (n_state i); try discriminate.
    destruct (existsb _ names); [discriminate|]. destruct (negb (nodupz names)); [discriminate|]. inv Er. rewrite find_app in Hf. destruct (find [] (s_tree u)) as [r|]; [inv Hf; exists r'; auto|].
    change (map (fun x => (d ++ [x], {| n_state := SNew; n_flag := false; n_group := ngroups d (s_tree u); n_exited := false |})) names)
      with (map (mkchild (ngroups d (s_tree u)) d) names) in Hf. rewrite find_children in Hf. destruct (existsb _ names); [inv Hf; discriminate|discriminate].
  - destruct (negb _); [discriminate|]. inv Hs. apply Same. reflexivity.
Qed.

Lemma foreign_not_root_died T c s e s' y e0 : pstep1 T c s e = PRun s' -> foreign T s y e -> In e0 (sup_events_of T c s e) -> forall k, e0 <> EProcDied [] k.
Proof.
  intros Hstep Hf Hin k ->. destruct e as [e|f|d|x|n|x|]; cbn [sup_events_of] in Hin; try (exact Hin).
  - destruct e; try (destruct (signal_misuse (p_sup s) _)); destruct Hin as [E|[]]; inv E. exact Hf.
  - destruct (nth_error (prog_of T c) (p_pc s)) as [[svs roe|w| | | |isnil]|]; try (exact Hin).
    + destruct (run_group [] (ids svs) (s_tree (p_sup s))); [|destruct roe|]; try (exact Hin); destruct Hin as [E|[]]; discriminate.
    + destruct f; [|exact Hin]. destruct Hin as [E|[]]; discriminate.
    + destruct (signal_misuse (p_sup s) (ESignalHealthy [])); destruct Hin as [E|[]]; discriminate.
    + destruct (signal_misuse (p_sup s) (ESignalDone [])); destruct Hin as [E|[]]; discriminate.
    + destruct Hin as [E|[]]; discriminate.
  - destruct Hin as [E|[]]; discriminate.
Qed.

(* foreign-ness that does not depend on the state: the GC and the root runnable's steps are always allowed *)
Definition foreign_static T (y : Z) (e : pev) : Prop :=
  match e with
  | PSup EKill => False
  | PSup (EProcDied d k) => match d with [] => False | [x] => x <> y /\ same_stmt T x y = false | x :: _ => x <> y end
  | PSup (EProcSchedule d) | PSup (EBackoff d) | PSup (EReturn d _) | PSup (ESignalHealthy d) | PSup (ESignalDone d) | PSup (ERunGroup d _) | PPanic d =>
    is_prefix [y] d = false
  | _ => True
  end.

(* THE ISOLATION THEOREM OVER HISTORIES: service y is present, nothing of it (nor the root) has died; then whatever the other services do,
   in whatever order — start, call the supervisor, return errors, panic (captured), have their exits processed, get restarted by the GC after
   their back-off, start children, any number of times — and however the root runnable proceeds, y and everything below it stay exactly as
   they were: same nodes, same things in flight (in particular the same single running instance: never cancelled, never restarted) *)
Theorem isolation_history T c y h : distinct_ids T = true -> forall s s',
  PInv T s -> quiet y (s_tree (p_sup s)) -> find [y] (s_tree (p_sup s)) <> None -> Forall (foreign_static T y) h -> prun1 T c h s = PRun s' ->
  forall z, is_prefix [y] z = true ->
    find z (s_tree (p_sup s')) = find z (s_tree (p_sup s)) /\
    (forall k, In (z, k) (s_toks (p_sup s')) <-> In (z, k) (s_toks (p_sup s))) /\
    cancelled z (s_tree (p_sup s')) = cancelled z (s_tree (p_sup s)).
Proof.
  intros Hd. induction h as [|e r IH]; intros s s' Hp Hq Hy Hall Hrun z Hz; cbn [prun] in Hrun.
  - inv Hrun. split; [reflexivity|]. split; [intros k; reflexivity|reflexivity].
  - destruct (pstep1 T c s e) as [s1| | |] eqn:E; try discriminate. inv Hall.
    assert (Hf : foreign T s y e).
    { destruct e as [e0|f|d|x|n|x|]; cbn [foreign foreign_static] in *; try exact I; try assumption. destruct e0; try assumption; try contradiction. }
    pose proof (isolation_step T c s e s1 y Hp E Hf) as Hiso.
    assert (Hp1 : PInv T s1) by (eapply pstep_pinv; eassumption).
    assert (Hy1 : find [y] (s_tree (p_sup s1)) <> None) by (destruct (Hiso [y] (is_prefix_refl [y])) as [-> _]; exact Hy).
    assert (Hq1 : quiet y (s_tree (p_sup s1))).
    { intros p i Hpi [->|Hpy].
      - destruct (wanted (n_state i)) eqn:Ew; [|reflexivity]. exfalso.
        pose proof (pstep_sup _ _ _ _ _ E) as Hr. pose proof (sup_events_le1 T c s e) as Hle. pose proof (foreign_not_root_died T c s e s1 y) as Hnd.
        destruct (sup_events_of T c s e) as [|e0 [|e1 r0]]; cbn [run List.length] in *; [inv Hr; rewrite <- H0 in Hpi; rewrite (Hq [] i Hpi (or_introl eq_refl)) in Ew; discriminate| |lia].
        destruct (step true (p_sup s) e0) as [u1| | |] eqn:E0; try discriminate. inv Hr.
        destruct (step_root_wanted _ _ _ _ E0 (Hnd e0 E Hf (or_introl eq_refl)) Hpi Ew) as (r1 & Er1 & Ew1). rewrite (Hq [] r1 Er1 (or_introl eq_refl)) in Ew1. discriminate.
      - destruct (Hiso p Hpy) as [Efind _]. rewrite Efind in Hpi. exact (Hq p i Hpi (or_intror Hpy)). }
    destruct (IH s1 s' Hp1 Hq1 Hy1 H2 Hrun z Hz) as (A1 & A2 & A3). destruct (Hiso z Hz) as (B1 & B2 & B3).
    split; [congruence|]. split; [|congruence]. intros k. rewrite A2. apply B2.
Qed.

(* ------------------------------------------------------------------ small facts used by props/ *)
Lemma no_recover T d : no_service_recovers T = true -> recovers T d = false.
Proof.
  intros H. unfold recovers. destruct d as [|x [|? ?]]; try reflexivity. unfold svc. destruct (List.find (fun s => sv_id s =? x) (all_services T)) as [sv|] eqn:E; [|reflexivity].
  apply find_some in E as [Hin _]. unfold no_service_recovers in H. rewrite forallb_forall in H. specialize (H sv Hin). apply negb_true_iff in H. exact H.
Qed.

Definition sid (T : ntree) (nm : string) : Z := match svc_named T nm with Some s => sv_id s | None => 0 end.
