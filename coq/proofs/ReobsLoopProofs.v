(* Proofs about the composed re-observation loop that need the processor proofs (C14 / C02): the retry stream of a pending message,
   the cadence theorem, budget, recovery.  The dispatcher / structure half is proofs/ReobsLoopBase.v. *)
From Coq Require Import List ZArith Lia Bool Arith.
From Coq Require Import Strings.Byte.
From WH Require Import lib.Bytes gen.Extracted gen.ExtractedWiring gen.ExtractedP2P model.Vaa model.Processor model.ReobsLoop.
From WH Require Import proofs.ProcessorProofs proofs.ProcCleanupProofs proofs.ReobsLoopBase.
From WH Require proofs.ReobserveProofs proofs.P2PVerifyProofs.
Import ListNotations.
Open Scope Z_scope.

Module RP := ReobserveProofs.
Module GP := P2PVerifyProofs.

Lemma loop_bound_value : loop_bound = 1410 * 10 ^ 9.      (* 23 min 30 s *)
Proof. reflexivity. Qed.

(* ================================================================== Part 4a: what a processor step does to the timing fields *)
From WH Require Import proofs.ProcC02Proofs.

(* the fields of an aggregation entry that only the cleanup tick (and the creation of the entry) writes *)
Definition tf (e : entry) : Z * Z * option Z * bool := (first_seen e, retries e, last_retry e, settled e).

Section ProcTiming.
Variable recover : bytes -> bytes -> option bytes.
Variable keccak : bytes -> bytes.
Variable sign : bytes -> bytes.
Variable own : addr.
Variable gov_chain : Z.
Variable gov_addr : bytes.
Notation step := (Processor.step recover keccak sign own gov_chain gov_addr).
Notation prun := (Processor.run recover keccak sign own gov_chain gov_addr).

(* a handler other than the cleanup tick leaves the map alone or rewrites ONE entry, keeping its timing fields (a new entry
   starts at the processor's clock, never retried, not settled) *)
Definition one_entry (st st' : pstate) : Prop :=
  agg st' = agg st \/
  exists h1 e1, agg st' = aset h1 e1 (agg st) /\
    tf e1 = tf (match alookup h1 (agg st) with Some e => e | None => new_entry (clock st) end).

Lemma handle_obs_shape st ob : let st' := fst (Processor.handle_obs recover st ob) in
  clock st' = clock st /\ cur st' = cur st /\ one_entry st st'.
Proof.
  cbv zeta. unfold Processor.handle_obs.
  destruct (Processor.rec recover (o_hash ob) (o_sig ob)) as [pk|]; [|cbn; repeat split; left; reflexivity].
  destruct (negb (bytes_eqb _ pk)); [cbn; repeat split; left; reflexivity|].
  set (e := alookup (o_hash ob) (agg st)).
  destruct (match e with Some e' => match gs_snap e' with Some g => Some g | None => cur st end | None => cur st end) as [g|]; [|cbn; repeat split; left; reflexivity].
  destruct (negb (Processor.memb _ (keys g))); [cbn; repeat split; left; reflexivity|].
  set (e0 := match e with Some e' => e' | None => new_entry (clock st) end).
  set (e1 := set_esigs e0 _).
  assert (K : forall e2, tf e2 = tf e0 -> one_entry st (with_agg st (aset (o_hash ob) e2 (agg st)))).
  { intros e2 H2. right. exists (o_hash ob), e2. split; [reflexivity|exact H2]. }
  assert (T1 : tf e1 = tf e0) by reflexivity.
  destruct (assemble _ _ _) as [sg|]; [|cbn [fst]; repeat split; apply K; exact T1].
  destruct (our_vaa e1); [|cbn [fst]; repeat split; apply K; exact T1].
  destruct (_ && _); [|cbn [fst]; repeat split; apply K; exact T1].
  destruct sg; [cbn [fst]; repeat split; apply K; exact T1|].
  cbn [fst clock cur]. repeat split. right. exists (o_hash ob), (set_submitted e1). split; [reflexivity|reflexivity].
Qed.

Lemma bsig_shape st v s tx c : let st' := fst (Processor.broadcast_signature keccak own st v s tx c) in
  clock st' = clock st /\ cur st' = cur st /\ one_entry st st'.
Proof.
  cbv zeta. cbn [Processor.broadcast_signature fst clock cur]. repeat split. right.
  eexists _, _. split; [reflexivity|]. destruct (alookup _ (agg st)); reflexivity.
Qed.

Lemma one_entry_refl st : one_entry st st.
Proof. left. reflexivity. Qed.

Lemma step_shape st o : o <> Cleanup -> let st' := fst (step st o) in
  clock st' = (match o with SetClock t => t | _ => clock st end) /\ one_entry st st' /\
  cur st' = (match o with SetGS g => Some g | _ => cur st end).
Proof.
  intros Hn. cbv zeta. destruct o as [g|t|m|v|ob|k|b|]; cbn [Processor.step]; try contradiction.
  - cbn. repeat split. left. reflexivity.
  - cbn. repeat split. left. reflexivity.
  - unfold Processor.handle_message. destruct (cur st) eqn:Ec; [|cbn; rewrite ?Ec; repeat split; left; reflexivity].
    assert (Kst : clock (fst (st, @nil out)) = clock st /\ one_entry st (fst (st, @nil out)) /\ cur (fst (st, @nil out)) = Some g) by (cbn; repeat split; [left; reflexivity|exact Ec]).
    assert (Kst2 : forall w, clock (fst (st, [Panic w])) = clock st /\ one_entry st (fst (st, [Panic w])) /\ cur (fst (st, [Panic w])) = Some g) by (intros; cbn; repeat split; [left; reflexivity|exact Ec]).
    assert (Kgo : forall v s tx c, let st' := fst (Processor.broadcast_signature keccak own st v s tx c) in clock st' = clock st /\ one_entry st st' /\ cur st' = Some g).
    { intros v s tx c. destruct (bsig_shape st v s tx c) as (A & B & C). cbv zeta. rewrite B. auto. }
    destruct (_ && _); [exact Kst|]. destruct (dlookup _ _); [|apply Kgo].
    destruct (unmarshal _); [destruct (_ <? _); [exact Kst|apply Kgo]|]. destruct proc_stored_unmarshal_failure_panics; [apply Kst2|apply Kgo].
  - destruct (bsig_shape st v (sign (Processor.dg keccak v)) [] false) as (A & B & C). unfold Processor.handle_injection. auto.
  - destruct (handle_obs_shape st ob) as (A & B & C). auto.
  - destruct (nth_error (loopq st) k) as [ob|]; [|cbn; repeat split; left; reflexivity].
    match goal with |- context [Processor.handle_obs recover ?s ob] => destruct (handle_obs_shape s ob) as (A & B & C) end.
    cbn [clock cur agg] in *. split; [exact A|]. split; [|exact B]. exact C.
  - unfold Processor.handle_inbound. destruct (unmarshal b); [|cbn; repeat split; left; reflexivity]. destruct (cur st) eqn:Ec; [|cbn; rewrite ?Ec; repeat split; left; reflexivity].
    destruct (_ =? _)%nat; [cbn; rewrite ?Ec; repeat split; left; reflexivity|]. destruct (_ =? _)%nat; [cbn; rewrite ?Ec; repeat split; left; reflexivity|].
    destruct (proc_inbound_below_quorum _ _); [cbn; rewrite ?Ec; repeat split; left; reflexivity|].
    destruct (negb _); [cbn; rewrite ?Ec; repeat split; left; reflexivity|]. destruct (dlookup _ _); cbn; rewrite ?Ec; repeat split; left; reflexivity.
Qed.

(* consequences for one digest *)
Lemma one_entry_lookup st st' h e : one_entry st st' -> alookup h (agg st) = Some e -> exists e', alookup h (agg st') = Some e' /\ tf e' = tf e.
Proof.
  intros [E|(h1 & e1 & E & T)] Hl; rewrite E; [exists e; auto|]. rewrite alookup_aset.
  destruct (bytes_eqb_spec h h1) as [->|_]; [|exists e; auto]. rewrite Hl in T. exists e1. auto.
Qed.
Lemma one_entry_fresh st st' h e' : one_entry st st' -> alookup h (agg st) = None -> alookup h (agg st') = Some e' -> tf e' = tf (new_entry (clock st)).
Proof.
  intros [E|(h1 & e1 & E & T)] Hl; rewrite E; [congruence|]. rewrite alookup_aset.
  destruct (bytes_eqb_spec h h1) as [->|_]; [|congruence]. rewrite Hl in T. intros X. inversion X; subst. exact T.
Qed.
Lemma one_entry_keys st st' : one_entry st st' -> KeysND st -> KeysND st'.
Proof. unfold KeysND. intros [E|(h1 & e1 & E & _)] ND; rewrite E; [exact ND|apply NoDup_keys_aset; exact ND]. Qed.

(* ---- the cleanup tick, entry by entry *)
Lemma cleanup_all_nodup st now : forall l, NoDup (map fst l) -> NoDup (map fst (fst (cleanup_all st now l))).
Proof.
  induction l as [|[k e] l IH]; intros ND; cbn [cleanup_all]; [constructor|]. cbn [map fst] in ND. inversion ND as [|? ? Hn ND']; subst.
  pose proof (cleanup_all_keys st now l) as Hk. specialize (IH ND'). destruct (cleanup_all st now l) as [t' o']. cbn [fst] in *.
  destruct (cleanup_entry now _ _ e); cbn [fst map]; [constructor; [intros X; apply Hn; apply Hk; exact X|exact IH]|exact IH|constructor; [intros X; apply Hn; apply Hk; exact X|exact IH]].
Qed.

Lemma cleanup_all_lookup st now h : forall l, NoDup (map fst l) ->
  alookup h (fst (cleanup_all st now l)) =
  match alookup h l with
  | None => None
  | Some e => match cleanup_entry now (in_db_of st e) (match cur st with Some _ => true | None => false end) e with
              | CKeep e' _ => Some e' | CDelete => None | CPanic => Some e end
  end.
Proof.
  induction l as [|[k e] l IH]; intros ND; cbn [cleanup_all]; [reflexivity|]. cbn [map fst] in ND. inversion ND as [|? ? Hn ND']; subst.
  pose proof (cleanup_all_keys st now l) as Hk. specialize (IH ND'). destruct (cleanup_all st now l) as [t' o'] eqn:Ect. cbn [fst] in *.
  assert (Hnt : ~ In k (map fst t')) by (intros X; apply Hn; apply Hk; exact X).
  cbn [alookup]. destruct (bytes_eqb_spec h k) as [->|Hne].
  - destruct (cleanup_entry now _ _ e); cbn [fst alookup]; rewrite ?bytes_eqb_refl; [reflexivity|apply alookup_notin; exact Hnt|reflexivity].
  - destruct (cleanup_entry now _ _ e); cbn [fst alookup]; [|exact IH|]; (destruct (bytes_eqb_spec h k); [contradiction|exact IH]).
Qed.

Lemma cleanup_step_shape st : let st' := fst (step st Cleanup) in
  clock st' = clock st /\ cur st' = cur st /\ db st' = db st /\ agg st' = fst (cleanup_all st (clock st + 1) (agg st)) /\
  snd (step st Cleanup) = snd (cleanup_all st (clock st + 1) (agg st)).
Proof. cbv zeta. cbn [Processor.step]. unfold Processor.handle_cleanup. destruct (cleanup_all st (clock st + 1) (agg st)). cbn. repeat split. Qed.

Lemma step_keysnd st o : KeysND st -> KeysND (fst (step st o)).
Proof.
  intros ND. destruct (op_eq_cleanup o) as [->|Hn].
  - destruct (cleanup_step_shape st) as (_ & _ & _ & E & _). unfold KeysND. rewrite E. apply cleanup_all_nodup. exact ND.
  - destruct (step_shape st o Hn) as (_ & C & _). eapply one_entry_keys; eassumption.
Qed.
End ProcTiming.

Section Loop3.
Variable recover : bytes -> bytes -> option bytes.
Variable keccak : bytes -> bytes.
Variable sign : bytes -> bytes.
Variable own : addr.
Variable gov_chain : Z.
Variable gov_addr : bytes.
Variable decode_hb : bytes -> option Z.
Variable decodeq : bytes -> option R.req.
Variable encq : R.req -> bytes.
Variable self : G.peerid.
Variable disable : bool.
Variable watch : Z -> R.req -> Z -> list msgpub.

Notation step := (Processor.step recover keccak sign own gov_chain gov_addr).
Notation prun := (Processor.run recover keccak sign own gov_chain gov_addr).
Notation gstep := (ReobsLoop.gstep recover keccak decode_hb decodeq self disable).
Notation feed := (ReobsLoop.feed recover keccak sign own gov_chain gov_addr).
Notation lstep := (ReobsLoop.lstep recover keccak sign own gov_chain gov_addr decode_hb decodeq encq self disable watch).
Notation lrun := (ReobsLoop.lrun recover keccak sign own gov_chain gov_addr decode_hb decodeq encq self disable watch).
Notation lstates := (ReobsLoop.lstates recover keccak sign own gov_chain gov_addr decode_hb decodeq encq self disable watch).
Notation feed_spec := (feed_spec recover keccak sign own gov_chain gov_addr).
Notation lstep_wf := (lstep_wf recover keccak sign own gov_chain gov_addr decode_hb decodeq encq self disable watch).
Notation lrun_wf := (lrun_wf recover keccak sign own gov_chain gov_addr decode_hb decodeq encq self disable watch).

Notation prun_app := (ReobsLoopBase.prun_app recover keccak sign own gov_chain gov_addr).
Notation pwf_app := (ReobsLoopBase.pwf_app recover keccak sign own gov_chain gov_addr).
Notation pwf_none := (ReobsLoopBase.pwf_none recover keccak sign own gov_chain gov_addr).
Notation lrun_app := (ReobsLoopBase.lrun_app recover keccak sign own gov_chain gov_addr decode_hb decodeq encq self disable watch).
Notation lrun_cons := (ReobsLoopBase.lrun_cons recover keccak sign own gov_chain gov_addr decode_hb decodeq encq self disable watch).
Notation lrun_app_fst := (ReobsLoopBase.lrun_app_fst recover keccak sign own gov_chain gov_addr decode_hb decodeq encq self disable watch).
Notation lrun_app_snd := (ReobsLoopBase.lrun_app_snd recover keccak sign own gov_chain gov_addr decode_hb decodeq encq self disable watch).
Notation lstates_app := (ReobsLoopBase.lstates_app recover keccak sign own gov_chain gov_addr decode_hb decodeq encq self disable watch).
Notation lstates_split := (ReobsLoopBase.lstates_split recover keccak sign own gov_chain gov_addr decode_hb decodeq encq self disable watch).
Notation lstep_now := (ReobsLoopBase.lstep_now recover keccak sign own gov_chain gov_addr decode_hb decodeq encq self disable watch).
Notation lstep_tags := (ReobsLoopBase.lstep_tags recover keccak sign own gov_chain gov_addr decode_hb decodeq encq self disable watch).
Notation lstep_pops := (ReobsLoopBase.lstep_pops recover keccak sign own gov_chain gov_addr decode_hb decodeq encq self disable watch).
Notation lstep_no_cleanup := (ReobsLoopBase.lstep_no_cleanup recover keccak sign own gov_chain gov_addr decode_hb decodeq encq self disable watch).
Notation lstep_dops := (ReobsLoopBase.lstep_dops recover keccak sign own gov_chain gov_addr decode_hb decodeq encq self disable watch).
Notation lmono_step := (ReobsLoopBase.lmono_step recover keccak sign own gov_chain gov_addr decode_hb decodeq encq self disable watch).
Notation lrun_mono := (ReobsLoopBase.lrun_mono recover keccak sign own gov_chain gov_addr decode_hb decodeq encq self disable watch).
Notation lrun_now_le := (ReobsLoopBase.lrun_now_le recover keccak sign own gov_chain gov_addr decode_hb decodeq encq self disable watch).
Notation lmono_app := (ReobsLoopBase.lmono_app recover keccak sign own gov_chain gov_addr decode_hb decodeq encq self disable watch).
Notation lrun_tags := (ReobsLoopBase.lrun_tags recover keccak sign own gov_chain gov_addr decode_hb decodeq encq self disable watch).
Notation loop_forwards_window_apart := (ReobsLoopBase.loop_forwards_window_apart recover keccak sign own gov_chain gov_addr decode_hb decodeq encq self disable watch).
Notation lstep_localmsg_source := (ReobsLoopBase.lstep_localmsg_source recover keccak sign own gov_chain gov_addr decode_hb decodeq encq self disable watch).
Notation loop_signs_only_watched := (ReobsLoopBase.loop_signs_only_watched recover keccak sign own gov_chain gov_addr decode_hb decodeq encq self disable watch).
Notation loop_signs_only_final := (ReobsLoopBase.loop_signs_only_final recover keccak sign own gov_chain gov_addr decode_hb decodeq encq self disable watch).
Notation sendobs_source := (ReobsLoopBase.sendobs_source recover keccak sign own gov_chain gov_addr).
Notation handle_message_never_publishes := (ReobsLoopBase.handle_message_never_publishes recover keccak sign own gov_chain gov_addr).
Notation lstep_watch_feeds := (ReobsLoopBase.lstep_watch_feeds recover keccak sign own gov_chain gov_addr decode_hb decodeq encq self disable watch).

Ltac open_feed F := match goal with |- context [feed ?s ?os] => pose proof (feed_spec os s) as F; destruct (feed s os) as [? ?] end.
Ltac open_dall D := match goal with |- context [dispatch_all ?s ?rs] => pose proof (dispatch_all_spec rs s) as D; destruct (dispatch_all s rs) as [? ?] end.
Ltac open_post Q := match goal with |- context [post_all ?s ?rs] => pose proof (post_all_spec rs s) as Q; destruct (post_all s rs) as [? ?] end.

(* ---- the processor inside: runs of handlers other than the tick *)
Lemma prun_cons st o ops : prun st (o :: ops) = (fst (prun (fst (step st o)) ops), snd (step st o) :: snd (prun (fst (step st o)) ops)).
Proof. cbn [Processor.run]. destruct (step st o) as [s1 o1]. cbn [fst snd]. destruct (prun s1 ops). reflexivity. Qed.

Lemma prun_keysnd : forall ops st, KeysND st -> KeysND (fst (prun st ops)).
Proof. induction ops as [|o ops IH]; intros st ND; [exact ND|]. rewrite prun_cons. cbn [fst]. apply IH. apply step_keysnd. exact ND. Qed.

Lemma prun_clock : forall ops st, clock (fst (prun st ops)) = last_clock (clock st) ops.
Proof.
  induction ops as [|o ops IH]; intros st; [reflexivity|]. rewrite prun_cons. cbn [fst]. rewrite IH. unfold last_clock. cbn [fold_left]. f_equal.
  destruct (op_eq_cleanup o) as [->|Hn]; [destruct (cleanup_step_shape recover keccak sign own gov_chain gov_addr st) as (A & _); exact A|].
  destruct (step_shape recover keccak sign own gov_chain gov_addr st o Hn) as (A & _). exact A.
Qed.

Lemma prun_tf : forall ops st h e, Forall (fun x => x <> Cleanup) ops -> alookup h (agg st) = Some e ->
  exists e', alookup h (agg (fst (prun st ops))) = Some e' /\ tf e' = tf e.
Proof.
  induction ops as [|o ops IH]; intros st h e Hn Hl; [exists e; auto|]. inversion Hn as [|? ? Ho Hn']; subst. rewrite prun_cons. cbn [fst].
  destruct (step_shape recover keccak sign own gov_chain gov_addr st o Ho) as (_ & C & _). destruct (one_entry_lookup _ _ _ _ C Hl) as (e1 & H1 & T1).
  destruct (IH _ _ _ Hn' H1) as (e2 & H2 & T2). exists e2. split; [exact H2|congruence].
Qed.

(* an entry found after such a run was there before with the same timing fields, or was created during the run: never retried *)
Lemma prun_tf_back : forall ops st h e', Forall (fun x => x <> Cleanup) ops -> alookup h (agg (fst (prun st ops))) = Some e' ->
  (exists e, alookup h (agg st) = Some e /\ tf e' = tf e) \/ (alookup h (agg st) = None /\ last_retry e' = None /\ retries e' = 0).
Proof.
  induction ops as [|o ops IH]; intros st h e' Hn Hl; [left; exists e'; auto|]. inversion Hn as [|? ? Ho Hn']; subst. rewrite prun_cons in Hl. cbn [fst] in Hl.
  destruct (step_shape recover keccak sign own gov_chain gov_addr st o Ho) as (_ & C & _).
  destruct (IH _ _ _ Hn' Hl) as [(e1 & H1 & T1)|(H1 & L1 & R1)].
  - destruct (alookup h (agg st)) as [e|] eqn:E0.
    + left. exists e. split; [reflexivity|]. destruct (one_entry_lookup _ _ _ _ C E0) as (e1' & H1' & T1'). congruence.
    + right. split; [reflexivity|]. pose proof (one_entry_fresh _ _ _ _ C E0 H1) as T. unfold tf in *. cbn [new_entry first_seen retries last_retry settled] in T. inversion T1. inversion T. split; congruence.
  - right. destruct (alookup h (agg st)) as [e|] eqn:E0; [|auto]. destruct (one_entry_lookup _ _ _ _ C E0) as (e1' & H1' & _). congruence.
Qed.

Lemma prun_cur_db_nochange : forall ops st, Forall (fun x => match x with LocalMsg _ | SetClock _ => True | _ => False end) ops ->
  cur (fst (prun st ops)) = cur st.
Proof.
  induction ops as [|o ops IH]; intros st Hn; [reflexivity|]. inversion Hn as [|? ? Ho Hn']; subst. rewrite prun_cons. cbn [fst]. rewrite IH by exact Hn'.
  assert (Hc : o <> Cleanup) by (destruct o; try contradiction; discriminate).
  destruct (step_shape recover keccak sign own gov_chain gov_addr st o Hc) as (_ & _ & C). rewrite C. destruct o; try contradiction; reflexivity.
Qed.

(* ---- the cleanup step of the composition, computed *)
Lemma cleanup_all_ext : forall l p1 p2 now, db p1 = db p2 -> cur p1 = cur p2 -> cleanup_all p1 now l = cleanup_all p2 now l.
Proof.
  induction l as [|[h e] l IH]; intros p1 p2 now Hd Hc; [reflexivity|]. cbn [cleanup_all]. rewrite (IH p1 p2 now Hd Hc).
  unfold in_db_of. rewrite Hd, Hc. reflexivity.
Qed.

Definition tick_of (p : pstate) (now : Z) : list (bytes * entry) * list out := cleanup_all p now (agg p).
Definition after_tick (p : pstate) (now : Z) : pstate :=
  {| cur := cur p; agg := fst (tick_of p now); db := db p; loopq := loopq p; clock := now |}.

Lemma lcleanup_unfold st : let p := l_proc st in let now := l_now st in
  lstep st LCleanup =
  (fst (post_all (with_proc st (after_tick p now)) (flat_map req_of_out (snd (tick_of p now)) ++ [])),
   [(now, EProc (SetClock (now - 1)) []); (now, EProc Cleanup (snd (tick_of p now))); (now, EProc (SetClock now) [])]
   ++ snd (post_all (with_proc st (after_tick p now)) (flat_map req_of_out (snd (tick_of p now)) ++ []))).
Proof.
  cbv zeta. cbn [ReobsLoop.lstep cleanup_ops ReobsLoop.feed]. unfold ReobsLoop.pstep. cbn [Processor.step with_proc l_proc l_now].
  unfold Processor.handle_cleanup. cbn [clock agg]. replace (l_now st - 1 + 1) with (l_now st) by lia.
  match goal with |- context [cleanup_all ?p1 (l_now st) (agg (l_proc st))] => rewrite (cleanup_all_ext (agg (l_proc st)) p1 (l_proc st) (l_now st) eq_refl eq_refl) end.
  fold (tick_of (l_proc st) (l_now st)). destruct (tick_of (l_proc st) (l_now st)) as [a o] eqn:Et. cbn [with_agg cur agg db loopq clock fst snd].
  unfold reqs_of_evs. cbn [flat_map snd app]. unfold after_tick. rewrite Et. cbn [fst snd].
  cbn [with_proc l_proc l_p2p l_disp l_sendq l_now]. destruct (post_all _ _) as [st2 e2]. reflexivity.
Qed.

Definition ckb (p : pstate) : bool := match cur p with Some _ => true | None => false end.

(* what the cleanup step does to the entry of one digest, to the send queue, and what it emits *)
Lemma lcleanup_effect st : KeysND (l_proc st) -> let st' := fst (lstep st LCleanup) in let p := l_proc st in let now := l_now st in
  (forall h, alookup h (agg (l_proc st')) =
     match alookup h (agg p) with
     | None => None
     | Some e => match cleanup_entry now (in_db_of p e) (ckb p) e with CKeep e' _ => Some e' | CDelete => None | CPanic => Some e end
     end) /\
  cur (l_proc st') = cur p /\ db (l_proc st') = db p /\ l_now st' = now /\ l_disp st' = l_disp st /\
  In (now, EProc Cleanup (snd (tick_of p now))) (snd (lstep st LCleanup)) /\
  (forall r, In r (flat_map req_of_out (snd (tick_of p now))) -> In r (l_sendq st') \/ In (now, EPost r R.PostErrChanFull) (snd (lstep st LCleanup))) /\
  incl (l_sendq st) (l_sendq st').
Proof.
  intros ND. cbv zeta. rewrite lcleanup_unfold. cbn [fst snd].
  set (rs := flat_map req_of_out (snd (tick_of (l_proc st) (l_now st))) ++ []).
  pose proof (post_all_spec rs (with_proc st (after_tick (l_proc st) (l_now st)))) as Q. cbv zeta in Q.
  pose proof (post_all_in rs (with_proc st (after_tick (l_proc st) (l_now st)))) as Qi.
  pose proof (post_all_incl rs (with_proc st (after_tick (l_proc st) (l_now st)))) as Qk.
  destruct (post_all (with_proc st (after_tick (l_proc st) (l_now st))) rs) as [st2 e2]. cbn [fst snd with_proc l_proc l_now l_sendq l_disp] in *.
  destruct Q as ((_ & Q2 & Q3 & Q4) & _). rewrite <- Q2, <- Q3, <- Q4. cbn [after_tick cur db agg]. repeat apply conj; try reflexivity.
  - intros h. cbn [with_proc l_proc after_tick agg]. unfold tick_of. rewrite (cleanup_all_lookup (l_proc st) (l_now st) h (agg (l_proc st)) ND). reflexivity.
  - right. left. reflexivity.
  - intros r Hr. destruct (Qi r) as [A|A]; [unfold rs; apply in_or_app; left; exact Hr|left; exact A|right; right; right; right; exact A].
  - exact Qk.
Qed.

(* ---- the invariant of composed histories *)
Definition LInv (st : lnode) : Prop :=
  KeysND (l_proc st) /\ (forall h e L, alookup h (agg (l_proc st)) = Some e -> last_retry e = Some L -> L <= l_now st).

Lemma cleanup_entry_lr now indb ck e e' o : cleanup_entry now indb ck e = CKeep e' o -> last_retry e' = last_retry e \/ last_retry e' = Some now.
Proof.
  unfold cleanup_entry. destruct (negb (submitted e) && _ && _ && _); [discriminate|].
  destruct (negb (settled e) && _); [destruct (_ || _ || _); [intros X; inversion X; left; reflexivity|discriminate]|].
  destruct (submitted e && _); [discriminate|]. destruct (negb (submitted e) && _); [discriminate|].
  destruct (negb (submitted e) && _ && _).
  - destruct (our_msg e); [intros X; inversion X; right; reflexivity|destruct (_ && _); discriminate].
  - intros X; inversion X; left; reflexivity.
Qed.

Lemma lstep_proc st o : l_proc (fst (lstep st o)) = fst (prun (l_proc st) (pops (snd (lstep st o)))).
Proof. destruct (lstep_wf st o) as [_ P]. unfold pwf in P. rewrite P. reflexivity. Qed.

Lemma lstep_inv st o : LInv st -> l_now st <= l_now (fst (lstep st o)) -> LInv (fst (lstep st o)).
Proof.
  intros [ND LR] Hle. split; [rewrite lstep_proc; apply prun_keysnd; exact ND|]. intros h e' L Hl Hlr.
  destruct (lop_eq_cleanup o) as [->|Hn].
  - destruct (lcleanup_effect st ND) as (A & _ & _ & B & _). rewrite A in Hl. rewrite B. destruct (alookup h (agg (l_proc st))) as [e|] eqn:E0; [|discriminate].
    destruct (cleanup_entry _ _ _ e) as [e2 o2| |] eqn:Ec; [|discriminate|]; inversion Hl; subst.
    + destruct (cleanup_entry_lr _ _ _ _ _ _ Ec) as [X|X]; rewrite X in Hlr; [eapply LR; eassumption|inversion Hlr; lia].
    + eapply LR; eassumption.
  - rewrite lstep_proc in Hl. destruct (prun_tf_back _ _ _ _ (lstep_no_cleanup st o Hn) Hl) as [(e & H0 & T)|(_ & X & _)]; [|congruence].
    inversion T as [[T1 T2 T3 T4]]. rewrite T3 in Hlr. specialize (LR _ _ _ H0 Hlr). lia.
Qed.

Lemma lrun_inv : forall H st, LInv st -> lmono (l_now st) H -> LInv (fst (lrun st H)).
Proof.
  induction H as [|o H IH]; intros st HI Hm; [exact HI|]. rewrite lrun_cons. cbn [fst]. apply lmono_step in Hm as [Hle Hm]. apply IH; [apply lstep_inv; assumption|exact Hm].
Qed.

Lemma linit_inv : LInv linit.
Proof. split; [constructor|intros h e L X; discriminate X]. Qed.

(* ================================================================== Part 4b: the retry stream of one pending message *)
(* "a message the node signed lacks quorum and its retry budget is not spent": entry of digest h, own observation and VAA present,
   not submitted, settled, retried fewer times than the budget, no quorum VAA in the store, at least five minutes old;
   c / tx = emitter chain (as the request carries it) and transaction of the observation *)
Definition pending_at (st : lnode) (h : bytes) (c : Z) (tx : bytes) : Prop :=
  exists e o v, alookup h (agg (l_proc st)) = Some e /\ pending_own e o v /\ settled e = true /\ retries e < proc_own_retry_budget /\
    in_db_of (l_proc st) e = false /\ txh e = tx /\ echain v mod 2 ^ 32 = c /\ first_seen e + proc_retry_after_ns <= l_now st.
(* the cleanup step taken in st retries the entry of h *)
Definition lretried (st : lnode) (h : bytes) : bool := retried_by (l_proc st) (l_now st) h.

Lemma pending_tick st h c tx : pending_at st h c tx -> exists e o,
  alookup h (agg (l_proc st)) = Some e /\ in_db_of (l_proc st) e = false /\
  cleanup_entry (l_now st) false (ckb (l_proc st)) e =
    (if retry_due (l_now st) e then CKeep (set_retried e (l_now st)) [ObsReq c (txh e); SendObs o] else CKeep e []) /\
  txh e = tx /\
  (retry_due (l_now st) e = match last_retry e with None => true | Some L => proc_retry_ns <=? l_now st - L end).
Proof.
  intros (e & o & v & Hl & Hp & Hs & Hr & Hd & Ht & Hc & Ha). exists e, o. split; [exact Hl|]. split; [exact Hd|]. split; [|split; [exact Ht|]].
  - rewrite (own_pending_retry_iff (l_now st) (ckb (l_proc st)) e o v Hp Hs Hr). rewrite Hc. reflexivity.
  - unfold retry_due, age, sec, proc_retry_after_ns, proc_retry_ns in *. destruct (Z.leb_spec (300 * 1000000000) (l_now st - first_seen e)); [reflexivity|lia].
Qed.

Lemma lretried_spec st h c tx : pending_at st h c tx -> exists e o, alookup h (agg (l_proc st)) = Some e /\ txh e = tx /\
  lretried st h = retry_due (l_now st) e /\
  (retry_due (l_now st) e = true -> In (ObsReq c tx) (snd (tick_of (l_proc st) (l_now st))) /\
     cleanup_entry (l_now st) (in_db_of (l_proc st) e) (ckb (l_proc st)) e = CKeep (set_retried e (l_now st)) [ObsReq c tx; SendObs o]) /\
  (retry_due (l_now st) e = false -> cleanup_entry (l_now st) (in_db_of (l_proc st) e) (ckb (l_proc st)) e = CKeep e []).
Proof.
  intros Hp. destruct (pending_tick _ _ _ _ Hp) as (e & o & Hl & Hd & Hc & Ht & _). exists e, o. split; [exact Hl|]. split; [exact Ht|].
  rewrite Hd. fold (ckb (l_proc st)). split; [|split].
  - unfold lretried, retried_by. rewrite Hl, Hd. fold (ckb (l_proc st)). rewrite Hc. destruct (retry_due (l_now st) e); cbn [set_retried retries]; [apply Z.ltb_lt; lia|apply Z.ltb_irrefl].
  - intros Hdue. rewrite Hc, Hdue, Ht. split; [|reflexivity]. apply alookup_In in Hl.
    pose proof (cleanup_all_entry (l_proc st) (l_now st) (agg (l_proc st)) h e Hl) as X. rewrite Hd in X. fold (ckb (l_proc st)) in X. rewrite Hc, Hdue, Ht in X.
    destruct X as [_ X]. apply X. left. reflexivity.
  - intros Hdue. rewrite Hc, Hdue. reflexivity.
Qed.

(* LEMMA A: a cleanup tick at which the retry is due finds it done: that tick retries, unless an earlier one already did *)
Lemma retry_by_due_tick h c tx : forall H1 st0, LInv st0 -> lmono (l_now st0) (H1 ++ [LCleanup]) ->
  (forall s, In (s, LCleanup) (lstates st0 (H1 ++ [LCleanup])) -> pending_at s h c tx) ->
  (forall e L, alookup h (agg (l_proc st0)) = Some e -> last_retry e = Some L -> L + proc_retry_ns <= l_now (fst (lrun st0 H1))) ->
  exists s, In (s, LCleanup) (lstates st0 (H1 ++ [LCleanup])) /\ lretried s h = true.
Proof.
  induction H1 as [|o H1 IH]; intros st0 HI Hm Hp HQ.
  - exists st0. split; [left; reflexivity|]. assert (P0 : pending_at st0 h c tx) by (apply Hp; left; reflexivity).
    destruct (lretried_spec _ _ _ _ P0) as (e & o & Hl & _ & Hr & _). rewrite Hr. destruct (pending_tick _ _ _ _ P0) as (e' & _ & Hl' & _ & _ & _ & Hdue).
    assert (e' = e) by congruence. subst e'. rewrite Hdue. destruct (last_retry e) as [L|] eqn:El; [|reflexivity].
    specialize (HQ _ _ Hl El). cbn [ReobsLoop.lrun fst] in HQ. apply Z.leb_le. lia.
  - cbn [app] in Hm, Hp. pose proof (lmono_step _ _ _ Hm) as [Hle Hm1]. set (st1 := fst (lstep st0 o)) in *.
    assert (HI1 : LInv st1) by (apply lstep_inv; assumption).
    assert (Hp1 : forall s, In (s, LCleanup) (lstates st1 (H1 ++ [LCleanup])) -> pending_at s h c tx) by (intros s Hs; apply Hp; right; exact Hs).
    assert (Hfin : l_now (fst (lrun st0 (o :: H1))) = l_now (fst (lrun st1 H1))) by (rewrite lrun_cons; reflexivity).
    assert (Hgo : (forall e L, alookup h (agg (l_proc st1)) = Some e -> last_retry e = Some L -> L + proc_retry_ns <= l_now (fst (lrun st1 H1))) ->
                  exists s, In (s, LCleanup) (lstates st0 ((o :: H1) ++ [LCleanup])) /\ lretried s h = true).
    { intros HQ1. destruct (IH st1 HI1 Hm1 Hp1 HQ1) as (s & Hs & Hr). exists s. split; [right; exact Hs|exact Hr]. }
    destruct (lop_eq_cleanup o) as [->|Hn].
    + assert (P0 : pending_at st0 h c tx) by (apply Hp; left; reflexivity).
      destruct (lretried st0 h) eqn:Er; [exists st0; split; [left; reflexivity|exact Er]|].
      destruct (lretried_spec _ _ _ _ P0) as (e & o & Hl & _ & Hr & _ & Hnd). rewrite Er in Hr. symmetry in Hr. specialize (Hnd Hr).
      apply Hgo. intros e1 L Hl1 El1. destruct HI as [ND _]. destruct (lcleanup_effect st0 ND) as (A & _). unfold st1 in Hl1. rewrite A, Hl, Hnd in Hl1. inversion Hl1; subst e1.
      rewrite <- Hfin. eapply HQ; eassumption.
    + apply Hgo. intros e1 L Hl1 El1. unfold st1 in Hl1. rewrite lstep_proc in Hl1.
      destruct (prun_tf_back _ _ _ _ (lstep_no_cleanup st0 o Hn) Hl1) as [(e & H0 & T)|(_ & X & _)]; [|congruence].
      inversion T as [[T1 T2 T3 T4]]. rewrite T3 in El1. rewrite <- Hfin. eapply HQ; eassumption.
Qed.

(* ---- the send queue, step by step *)
Lemma lstep_sendq st o :
  match o with
  | LCleanup | LAdmin _ => incl (l_sendq st) (l_sendq (fst (lstep st o)))
  | LPump => match l_sendq st with
             | [] => l_sendq (fst (lstep st o)) = []
             | q :: qs => l_sendq (fst (lstep st o)) = qs /\ exists s x, In (l_now st, EDisp s (R.Req q (l_now st)) x) (snd (lstep st o))
             end
  | _ => l_sendq (fst (lstep st o)) = l_sendq st
  end.
Proof.
  destruct o as [t| |q| |from m| |c|e]; cbn [ReobsLoop.lstep].
  - open_feed F. destruct F as ((_ & _ & F & _) & _). cbn [fst l_sendq] in *. congruence.
  - open_feed F. destruct F as ((_ & _ & F & _) & _). match goal with |- context [post_all ?s ?rs] => pose proof (post_all_incl rs s) as Q; destruct (post_all s rs) end. cbn [fst] in *. rewrite F. exact Q.
  - match goal with |- context [post_all ?s ?rs] => pose proof (post_all_incl rs s) as Q; destruct (post_all s rs) end. exact Q.
  - destruct (l_sendq st) as [|q qs] eqn:Eq; [cbn; exact Eq|]. cbn [ReobsLoop.gstep G.loop_step local_reqs_of flat_map app].
    cbn [ReobsLoop.dispatch_all]. unfold dispatch. cbn [with_p2p with_sendq l_disp l_now]. destruct (R.step (l_disp st) (R.Req q (l_now st))) as [d' x]. cbn [fst snd with_disp l_sendq].
    split; [reflexivity|]. exists (l_disp st), x. left. reflexivity.
  - destruct (gstep (l_p2p st) (G.LRecv from m)) as [g' outs]. open_feed F. destruct F as ((_ & _ & F & _) & _). open_dall D. destruct D as ((_ & _ & D & _) & _).
    cbn [fst with_p2p l_sendq] in *. congruence.
  - unfold dispatch. destruct (R.step _ _). reflexivity.
  - destruct (R.step (l_disp st) (R.Drain c)) as [d' x]. destruct x as [c0| | | | | |[r|]]; try reflexivity.
    open_feed F. destruct F as ((_ & _ & F & _) & _). cbn [fst with_disp l_sendq] in *. congruence.
  - open_feed F. destruct F as ((_ & _ & F & _) & _). cbn [fst] in *. rewrite <- F. destruct e; reflexivity.
Qed.

(* p2p's request goroutine keeps up: whenever the clock is read anew, and at the end of the history, obsvReqSendC is empty *)
Definition drained (st : lnode) (H : list lop) : Prop :=
  (forall s t, In (s, LClock t) (lstates st H) -> l_sendq s = []) /\ l_sendq (fst (lrun st H)) = [].

(* LEMMA B: then a request waiting in obsvReqSendC reaches the local dispatcher at the clock reading at which it waits *)
Lemma pumped : forall H st r, In r (l_sendq st) -> drained st H ->
  exists s x, In (l_now st, EDisp s (R.Req r (l_now st)) x) (snd (lrun st H)).
Proof.
  induction H as [|o H IH]; intros st r Hin [D1 D2]; [cbn in D2; rewrite D2 in Hin; destruct Hin|].
  assert (Dr : drained (fst (lstep st o)) H).
  { split; [intros s t Hs; apply (D1 s t); right; exact Hs|rewrite lrun_cons in D2; exact D2]. }
  rewrite lrun_cons. cbn [snd]. pose proof (lstep_sendq st o) as Q. pose proof (lstep_now st o) as N.
  assert (Hgo : In r (l_sendq (fst (lstep st o))) -> l_now (fst (lstep st o)) = l_now st ->
                exists s x, In (l_now st, EDisp s (R.Req r (l_now st)) x) (snd (lstep st o) ++ snd (lrun (fst (lstep st o)) H))).
  { intros Hr Hn. destruct (IH _ _ Hr Dr) as (s & x & Hx). rewrite Hn in Hx. exists s, x. apply in_or_app. right. exact Hx. }
  destruct o as [t| |q| |from m| |c|e]; try (apply Hgo; [rewrite Q; exact Hin|exact N]); try (apply Hgo; [apply Q; exact Hin|exact N]).
  - rewrite (D1 st t) in Hin by (left; reflexivity). destruct Hin.
  - destruct (l_sendq st) as [|q qs]; [destruct Hin|]. destruct Q as [Q (s & x & Hx)]. destruct Hin as [->|Hin].
    + exists s, x. apply in_or_app. left. exact Hx.
    + apply Hgo; [rewrite Q; exact Hin|exact N].
Qed.

Lemma drained_suffix st H1 H2 : drained st (H1 ++ H2) -> drained (fst (lrun st H1)) H2.
Proof.
  intros [D1 D2]. split; [intros s t Hs; apply (D1 s t); rewrite lstates_app; apply in_or_app; right; exact Hs|rewrite lrun_app_fst in D2; exact D2].
Qed.

(* ================================================================== Part 5: the loop theorems *)
Lemma lstates_now : forall H st s o, lmono (l_now st) H -> In (s, o) (lstates st H) -> l_now st <= l_now s <= l_now (fst (lrun st H)).
Proof.
  intros H st s o Hm Hin. destruct (lstates_split _ _ _ _ Hin) as (H1 & H2 & -> & ->). destruct (lmono_app _ _ _ Hm) as [M1 M2].
  rewrite lrun_app_fst. pose proof (lrun_now_le _ _ M1). pose proof (lrun_now_le _ _ M2). lia.
Qed.

(* a step taken at a later clock reading comes later in the history *)
Lemma lstates_later H st s1 o1 s2 o2 : lmono (l_now st) H -> In (s1, o1) (lstates st H) -> In (s2, o2) (lstates st H) -> l_now s1 < l_now s2 ->
  exists H1 H2 H3, H = H1 ++ o1 :: H2 ++ o2 :: H3 /\ s1 = fst (lrun st H1) /\ s2 = fst (lrun (fst (lrun st (H1 ++ [o1]))) H2).
Proof.
  intros Hm Hin1 Hin2 Hlt. destruct (lstates_split _ _ _ _ Hin1) as (H1 & Hr & -> & E1). destruct (lmono_app _ _ _ Hm) as [M1 M2].
  rewrite lstates_app in Hin2. apply in_app_or in Hin2 as [Hin2|Hin2].
  - pose proof (lstates_now _ _ _ _ M1 Hin2) as X. rewrite <- E1 in X. lia.
  - cbn [ReobsLoop.lstates] in Hin2. rewrite <- E1 in Hin2. destruct Hin2 as [X|Hin2]; [inversion X; subst; lia|].
    destruct (lstates_split _ _ _ _ Hin2) as (H2 & H3 & -> & E2). exists H1, H2, H3. split; [reflexivity|]. split; [exact E1|].
    rewrite E2. rewrite lrun_app_fst. rewrite E1. cbn [ReobsLoop.lrun]. destruct (lstep (fst (lrun st H1)) o1); reflexivity.
Qed.

Definition req_of (c : Z) (tx : bytes) : R.req := {| R.r_chain := c; R.r_tx := tx |}.
Definition key_of_msg (c : Z) (tx : bytes) : R.rkey := (c mod 65536, tx).

(* (a) CADENCE, upper bound.  From any state of the composition reached with its invariant (the initial state is one), over any
   continuation H with monotone clock readings, for any instant t not before the start: if
     - the message of digest h (emitter chain c, transaction tx) is pending at every cleanup tick in (t, t + B],
     - a purge tick falls in (t + 11 min, t + 18 min] and cleanup ticks come at most 30 s apart in the stretch that matters,
     - p2p's request goroutine keeps up (drained) and neither obsvReqSendC nor the watcher queue of chain c overflows,
   then the watcher of chain c receives a re-observation request for tx at some instant in (t, t + B], B = 23 min 30 s. *)
Theorem loop_forward_within H st0 h c tx t :
  LInv st0 -> RP.cache_wf (l_disp st0) -> RP.known (l_disp st0) (c mod 65536) ->
  (forall t', In (key_of_msg c tx, t') (R.cache (l_disp st0)) -> t' <= t) ->
  lmono (l_now st0) H -> l_now st0 <= t ->
  (forall s, In (s, LCleanup) (lstates st0 H) -> t < l_now s <= t + loop_bound -> pending_at s h c tx) ->
  (exists s, In (s, LPurge) (lstates st0 H) /\ t + reobs_window < l_now s <= t + reobs_window + reobs_period) ->
  (forall a, t + reobs_window < a <= t + reobs_window + reobs_period + proc_retry_ns ->
     exists s, In (s, LCleanup) (lstates st0 H) /\ a < l_now s <= a + proc_tick_ns) ->
  drained st0 H ->
  (forall u r, ~ In (u, EPost r R.PostErrChanFull) (snd (lrun st0 H))) ->
  (forall u s r f, R.key_of r = key_of_msg c tx -> ~ In (u, EDisp s (R.Req r f) R.DropFull) (snd (lrun st0 H))) ->
  exists u s r f x, In (u, EDisp s (R.Req r f) (R.Forward x)) (snd (lrun st0 H)) /\ R.key_of r = key_of_msg c tx /\ t < f <= t + loop_bound.
Proof.
  intros HI W K Hold Hm Hstart Hpend (sp & Hsp & Htau) Hticks Hdr Hroom Hqroom.
  pose proof RP.window_pos as Wpos. assert (Ppos : 0 < reobs_period) by reflexivity. assert (Rpos : 0 < proc_retry_ns) by reflexivity. assert (Tpos : 0 < proc_tick_ns) by reflexivity.
  (* the purge step *)
  destruct (lstates_split _ _ _ _ Hsp) as (H1 & Hrest & EH & Esp). subst H.
  set (st1 := fst (lrun st0 (H1 ++ [LPurge]))).
  assert (N1 : l_now st1 = l_now sp).
  { unfold st1. rewrite lrun_app_fst, <- Esp. cbn [ReobsLoop.lrun]. destruct (lstep sp LPurge) eqn:E. cbn [fst]. replace l with (fst (lstep sp LPurge)) by (rewrite E; reflexivity). apply lstep_now. }
  assert (EH2 : H1 ++ LPurge :: Hrest = (H1 ++ [LPurge]) ++ Hrest) by (rewrite <- app_assoc; reflexivity).
  rewrite EH2 in *. destruct (lmono_app _ _ _ Hm) as [M1 M2]. fold st1 in M2.
  assert (HI1 : LInv st1) by (apply lrun_inv; assumption).
  (* the cleanup tick at which the retry is certainly due *)
  set (a := match alookup h (agg (l_proc st1)) with
            | Some e => match last_retry e with Some L => Z.max (l_now sp) (L + proc_retry_ns) | None => l_now sp end
            | None => l_now sp end).
  assert (Ha : l_now sp <= a <= l_now sp + proc_retry_ns).
  { unfold a. destruct (alookup h (agg (l_proc st1))) as [e|] eqn:El; [|lia]. destruct (last_retry e) as [L|] eqn:ElL; [|lia].
    destruct HI1 as [_ LR]. specialize (LR _ _ _ El ElL). rewrite N1 in LR. lia. }
  destruct (Hticks a) as (sT & HsT & HT); [lia|].
  assert (HsTr : In (sT, LCleanup) (lstates st1 Hrest)).
  { rewrite lstates_app in HsT. apply in_app_or in HsT as [X|X]; [|exact X]. pose proof (lstates_now _ _ _ _ M1 X) as Y. fold st1 in Y. lia. }
  destruct (lstates_split _ _ _ _ HsTr) as (H2 & H3 & -> & EsT).
  assert (M2' : lmono (l_now st1) (H2 ++ [LCleanup])).
  { replace (H2 ++ LCleanup :: H3) with ((H2 ++ [LCleanup]) ++ H3) in M2 by (rewrite <- app_assoc; reflexivity). apply lmono_app in M2 as [X _]. exact X. }
  (* lemma A *)
  destruct (retry_by_due_tick h c tx H2 st1 HI1 M2') as (s' & Hs' & Hret).
  { intros s Hs. apply Hpend.
    - rewrite lstates_app. apply in_or_app. right. fold st1. replace (H2 ++ LCleanup :: H3) with ((H2 ++ [LCleanup]) ++ H3) by (rewrite <- app_assoc; reflexivity).
      rewrite lstates_app. apply in_or_app. left. exact Hs.
    - pose proof (lstates_now _ _ _ _ M2' Hs) as X. rewrite lrun_app_fst, <- EsT in X. cbn [ReobsLoop.lrun] in X.
      assert (Y : l_now (fst (let '(st1, e1) := lstep sT LCleanup in (st1, e1 ++ []))) = l_now sT) by (pose proof (lstep_now sT LCleanup) as Z; destruct (lstep sT LCleanup); exact Z).
      rewrite Y in X. unfold loop_bound. lia. }
  { intros e L El ElL. rewrite <- EsT. unfold a in HT. rewrite El, ElL in HT. lia. }
  destruct (lstates_split _ _ _ _ Hs') as (Ha' & Hb' & Eab & Es').
  assert (Hu : l_now sp <= l_now s' <= l_now sT).
  { pose proof (lstates_now _ _ _ _ M2' Hs') as X. rewrite lrun_app_fst, <- EsT in X. cbn [ReobsLoop.lrun] in X.
    assert (Y : l_now (fst (let '(st1, e1) := lstep sT LCleanup in (st1, e1 ++ []))) = l_now sT) by (pose proof (lstep_now sT LCleanup) as Z; destruct (lstep sT LCleanup); exact Z).
    rewrite Y in X. lia. }
  assert (Ps' : pending_at s' h c tx).
  { apply Hpend; [|unfold loop_bound; lia]. rewrite lstates_app. apply in_or_app. right. fold st1.
    replace (H2 ++ LCleanup :: H3) with ((H2 ++ [LCleanup]) ++ H3) by (rewrite <- app_assoc; reflexivity). rewrite lstates_app. apply in_or_app. left. exact Hs'. }
  (* the request is posted ... *)
  destruct (lretried_spec _ _ _ _ Ps') as (e & o & _ & _ & Er & Hdue & _). rewrite Hret in Er. symmetry in Er. destruct (Hdue Er) as [Hobs _].
  (* the whole history, cut at s' *)
  assert (EHall : (H1 ++ [LPurge]) ++ H2 ++ LCleanup :: H3 = ((H1 ++ [LPurge]) ++ Ha') ++ LCleanup :: (Hb' ++ H3)).
  { replace (H2 ++ LCleanup :: H3) with ((H2 ++ [LCleanup]) ++ H3) by (rewrite <- app_assoc; reflexivity). rewrite Eab. rewrite <- !app_assoc. reflexivity. }
  assert (Es'0 : s' = fst (lrun st0 ((H1 ++ [LPurge]) ++ Ha'))) by (rewrite lrun_app_fst; exact Es').
  set (s'' := fst (lstep s' LCleanup)).
  assert (ND' : KeysND (l_proc s')).
  { rewrite Es'0. apply lrun_inv; [exact HI|]. rewrite EHall in Hm. apply lmono_app in Hm as [X _]. exact X. }
  destruct (lcleanup_effect s' ND') as (_ & _ & _ & Nn & _ & _ & Hq & _). fold s'' in Nn, Hq.
  assert (Etr : snd (lrun st0 (((H1 ++ [LPurge]) ++ Ha') ++ LCleanup :: (Hb' ++ H3))) =
                snd (lrun st0 ((H1 ++ [LPurge]) ++ Ha')) ++ snd (lstep s' LCleanup) ++ snd (lrun s'' (Hb' ++ H3))).
  { rewrite lrun_app_snd, <- Es'0, lrun_cons. reflexivity. }
  destruct (Hq (req_of c tx)) as [Hin|Hfull].
  { apply in_flat_map. exists (ObsReq c tx). split; [exact Hobs|left; reflexivity]. }
  2:{ exfalso. apply (Hroom (l_now s') (req_of c tx)). rewrite EHall, Etr. apply in_or_app. right. apply in_or_app. left. exact Hfull. }
  (* ... and pumped *)
  assert (Dr'' : drained s'' (Hb' ++ H3)).
  { rewrite EHall in Hdr. apply drained_suffix in Hdr. rewrite <- Es'0 in Hdr. destruct Hdr as [D1 D2]. split.
    - intros s t0 Hs. apply (D1 s t0). right. exact Hs.
    - rewrite lrun_cons in D2. exact D2. }
  destruct (pumped _ _ _ Hin Dr'') as (sd & x & Hx). rewrite Nn in Hx.
  (* the dispatcher's history *)
  set (tr := snd (lrun st0 ((H1 ++ [LPurge]) ++ H2 ++ LCleanup :: H3))) in *.
  destruct (lrun_wf (((H1 ++ [LPurge]) ++ H2 ++ LCleanup :: H3)) st0) as [[Dw _] _]. fold tr in Dw.
  assert (Etr2 : tr = snd (lrun st0 H1) ++ snd (lstep sp LPurge) ++ snd (lrun st1 (H2 ++ LCleanup :: H3))).
  { unfold tr. rewrite lrun_app_snd. fold st1. rewrite lrun_app_snd, <- Esp. rewrite <- app_assoc.
    assert (X : snd (lrun sp [LPurge]) = snd (lstep sp LPurge)) by (cbn [ReobsLoop.lrun]; destruct (lstep sp LPurge); cbn [snd]; apply app_nil_r). rewrite X. reflexivity. }
  assert (Epurge : snd (lstep sp LPurge) = [(l_now sp, EDisp (l_disp sp) (R.Tick (l_now sp)) R.Purged)]) by (cbn [ReobsLoop.lstep]; unfold dispatch; reflexivity).
  assert (Hxin : In (l_now s', EDisp sd (R.Req (req_of c tx) (l_now s')) x) (snd (lrun st1 (H2 ++ LCleanup :: H3)))).
  { replace (H2 ++ LCleanup :: H3) with (Ha' ++ LCleanup :: (Hb' ++ H3)) by (replace (H2 ++ LCleanup :: H3) with ((H2 ++ [LCleanup]) ++ H3) by (rewrite <- app_assoc; reflexivity); rewrite Eab, <- app_assoc; reflexivity).
    rewrite lrun_app_snd, <- Es', lrun_cons. apply in_or_app. right. cbn [snd]. apply in_or_app. right. exact Hx. }
  assert (Hxd : In (sd, R.Req (req_of c tx) (l_now s'), x) (disp_of (snd (lrun st1 (H2 ++ LCleanup :: H3))))) by (apply disp_of_in; eexists; exact Hxin).
  destruct (in_split _ _ Hxd) as (m1 & m2 & Em).
  assert (Erun : R.run (l_disp st0) (dops tr) = disp_of (snd (lrun st0 H1)) ++ (l_disp sp, R.Tick (l_now sp), R.Purged) :: m1 ++ (sd, R.Req (req_of c tx) (l_now s'), x) :: m2).
  { rewrite <- Dw, Etr2, !disp_of_app, Epurge, Em. reflexivity. }
  assert (Hmono : RP.mono (l_now st0) (dops tr)) by (apply lrun_mono; exact Hm).
  assert (Hxnf : x <> R.DropFull).
  { intros ->. apply (Hqroom (l_now s') sd (req_of c tx) (l_now s')); [reflexivity|]. fold tr. rewrite Etr2. apply in_or_app. right. apply in_or_app. right. exact Hxin. }
  destruct (forward_between_pos (l_disp st0) (l_now st0) (dops tr) (key_of_msg c tx) t _ _ _ _ _ _ _ _ _ Hmono W K Hold Erun) as (s & r & f & cx & Hf & Hk & Hft); [lia|reflexivity|exact Hxnf|].
  rewrite <- Dw in Hf. apply disp_of_in in Hf as (u & Hf). exists u, s, r, f, cx. split; [exact Hf|]. split; [exact Hk|]. unfold loop_bound. lia.
Qed.

(* (a) CADENCE, lower bound and (b) NO AMPLIFICATION at the dispatcher: whatever arrives - local retries, requests of any number of
   peers for the same (chain, transaction), at any rate - two forwards of one key to its watcher are more than the window apart *)
Lemma cleanup_keep_cases now indb ck e e' o : cleanup_entry now indb ck e = CKeep e' o ->
  (e' = e /\ o = []) \/ (e' = set_settled e /\ o = []) \/
  (exists ob, our_msg e = Some ob /\ e' = set_retried e now /\ retries e < proc_own_retry_budget /\
     match last_retry e with None => True | Some t => proc_retry_ns <= now - t end).
Proof.
  unfold cleanup_entry. destruct (negb (submitted e) && _ && _ && _); [discriminate|].
  destruct (negb (settled e) && _); [destruct (_ || _ || _); [intros X; inversion X; subst; right; left; auto|discriminate]|].
  destruct (submitted e && _); [discriminate|].
  destruct (negb (submitted e) && ((_ && (proc_own_retry_budget <=? retries e)) || _)) eqn:Eb; [discriminate|].
  destruct (negb (submitted e) && _ && _) eqn:Ed.
  - destruct (our_msg e) as [ob|] eqn:Em; [|intros X; destruct (negb ck && proc_cleanup_nil_branch_uses_cur); discriminate X]. intros X; inversion X; subst. right. right. exists ob. split; [reflexivity|]. split; [reflexivity|].
    apply andb_prop in Ed as [Ed1 Ed2]. apply andb_prop in Ed1 as [Es _]. rewrite Es in Eb. cbn [andb orb negb] in Eb. split.
    + destruct (Z.leb_spec proc_own_retry_budget (retries e)); [discriminate Eb|assumption].
    + destruct (last_retry e); [apply Z.leb_le; exact Ed2|exact I].
  - intros X; inversion X; subst. left. auto.
Qed.

Lemma cleanup_retry_cond now indb ck e e' o : cleanup_entry now indb ck e = CKeep e' o -> retries e < retries e' ->
  last_retry e' = Some now /\ retries e' = retries e + 1 /\ retries e < proc_own_retry_budget /\
  match last_retry e with None => True | Some t => proc_retry_ns <= now - t end.
Proof.
  intros Ec Hlt. destruct (cleanup_keep_cases _ _ _ _ _ _ Ec) as [[-> _]|[[-> _]|(ob & _ & -> & A & B)]]; [lia|cbn [set_settled retries] in Hlt; lia|].
  cbn [set_retried last_retry retries]. auto.
Qed.

Definition alive (st : lnode) (H : list lop) (h : bytes) : Prop :=
  forall s o, In (s, o) (lstates st H) -> alookup h (agg (l_proc s)) <> None.

Lemma lretried_effect st h : KeysND (l_proc st) -> lretried st h = true ->
  exists e e', alookup h (agg (l_proc st)) = Some e /\ alookup h (agg (l_proc (fst (lstep st LCleanup)))) = Some e' /\
    last_retry e' = Some (l_now st) /\ retries e' = retries e + 1 /\ retries e < proc_own_retry_budget /\
    match last_retry e with None => True | Some t => proc_retry_ns <= l_now st - t end.
Proof.
  intros ND Hr. unfold lretried, retried_by in Hr. destruct (alookup h (agg (l_proc st))) as [e|] eqn:El; [|discriminate]. fold (ckb (l_proc st)) in Hr.
  destruct (cleanup_entry _ _ _ e) as [e' o| |] eqn:Ec; try discriminate. apply Z.ltb_lt in Hr.
  destruct (lcleanup_effect st ND) as (A & _). exists e, e'. split; [reflexivity|]. split; [rewrite A, El, Ec; reflexivity|]. eapply cleanup_retry_cond; eassumption.
Qed.

(* what one step does to the retry bookkeeping of an entry that exists before it *)
Lemma lstep_entry_lr st o h e : LInv st -> alookup h (agg (l_proc st)) = Some e ->
  alookup h (agg (l_proc (fst (lstep st o)))) = None \/
  exists e', alookup h (agg (l_proc (fst (lstep st o)))) = Some e' /\
    ((last_retry e' = last_retry e /\ retries e' = retries e /\ (o = LCleanup -> lretried st h = false)) \/
     (last_retry e' = Some (l_now st) /\ o = LCleanup /\ lretried st h = true /\ retries e' = retries e + 1)).
Proof.
  intros [ND _] Hl. destruct (lop_eq_cleanup o) as [->|Hn].
  - destruct (lcleanup_effect st ND) as (A & _). rewrite A, Hl. unfold lretried, retried_by. rewrite Hl. fold (ckb (l_proc st)).
    destruct (cleanup_entry _ _ _ e) as [e' o'| |] eqn:Ec; [|left; reflexivity|right; exists e; split; [reflexivity|left; auto]].
    right. exists e'. split; [reflexivity|].
    destruct (cleanup_keep_cases _ _ _ _ _ _ Ec) as [[-> _]|[[-> _]|(ob & _ & -> & _)]].
    + left. split; [reflexivity|]. split; [reflexivity|]. intros _. apply Z.ltb_irrefl.
    + left. split; [reflexivity|]. split; [reflexivity|]. intros _. apply Z.ltb_irrefl.
    + right. cbn [set_retried last_retry retries]. split; [reflexivity|]. split; [reflexivity|]. split; [apply Z.ltb_lt; lia|reflexivity].
  - right. rewrite lstep_proc. destruct (prun_tf _ _ _ _ (lstep_no_cleanup st o Hn) Hl) as (e' & H1 & T). exists e'. split; [exact H1|]. inversion T as [[T1 T2 T3 T4]]. left. split; [reflexivity|]. split; [reflexivity|]. intros X. contradiction.
Qed.

Theorem loop_retries_period_apart h : forall H2 st1 e1, LInv st1 -> lmono (l_now st1) (H2 ++ [LCleanup]) ->
  alive st1 (H2 ++ [LCleanup]) h -> alookup h (agg (l_proc st1)) = Some e1 ->
  forall L, last_retry e1 = Some L -> lretried (fst (lrun st1 H2)) h = true -> proc_retry_ns <= l_now (fst (lrun st1 H2)) - L.
Proof.
  induction H2 as [|o H2 IH]; intros st1 e1 HI Hm Hal Hl L HL Hr.
  - cbn [ReobsLoop.lrun fst] in *. destruct HI as [ND _]. destruct (lretried_effect _ _ ND Hr) as (e & e' & He & _ & _ & _ & _ & C).
    assert (e = e1) by congruence. subst e. rewrite HL in C. exact C.
  - cbn [app] in Hm, Hal. pose proof (lmono_step _ _ _ Hm) as [Hle Hm1]. rewrite lrun_cons in Hr |- *. cbn [fst] in *.
    assert (HI1 : LInv (fst (lstep st1 o))) by (apply lstep_inv; assumption).
    assert (Hal1 : alive (fst (lstep st1 o)) (H2 ++ [LCleanup]) h) by (intros s o' Hs; apply (Hal s o'); right; exact Hs).
    destruct (lstep_entry_lr st1 o h e1 HI Hl) as [Hnone|(e' & Hl' & [(A & _)|(A & _)])].
    + exfalso. destruct (H2 ++ [LCleanup]) as [|o2 r2] eqn:E2; [destruct H2; discriminate|]. apply (Hal1 (fst (lstep st1 o)) o2); [left; reflexivity|exact Hnone].
    + eapply IH; try eassumption. congruence.
    + assert (X : proc_retry_ns <= l_now (fst (lrun (fst (lstep st1 o)) H2)) - l_now st1) by (eapply IH; eassumption).
      destruct HI as [_ LR]. specialize (LR _ _ _ Hl HL). lia.
Qed.

(* (e) BUDGET: the retry counter of an entry never exceeds the extracted budget, a retry happens only below it and counts one *)
Definition budget_ok (p : pstate) : Prop := forall h e, alookup h (agg p) = Some e -> 0 <= retries e <= proc_own_retry_budget.

Lemma lstep_budget st o : LInv st -> budget_ok (l_proc st) -> budget_ok (l_proc (fst (lstep st o))).
Proof.
  intros HI HB h e' Hl'. destruct (lop_eq_cleanup o) as [->|Hn].
  - destruct HI as [ND _]. destruct (lcleanup_effect st ND) as (A & _). rewrite A in Hl'. destruct (alookup h (agg (l_proc st))) as [e|] eqn:El; [|discriminate].
    specialize (HB _ _ El). destruct (cleanup_entry _ _ _ e) as [e2 o2| |] eqn:Ec; [|discriminate|inversion Hl'; subst; exact HB]. inversion Hl'; subst e2.
    destruct (cleanup_keep_cases _ _ _ _ _ _ Ec) as [[-> _]|[[-> _]|(ob & _ & -> & X & _)]]; [exact HB|exact HB|cbn [set_retried retries]; lia].
  - rewrite lstep_proc in Hl'. destruct (prun_tf_back _ _ _ _ (lstep_no_cleanup st o Hn) Hl') as [(e & H0 & T)|(_ & _ & X)].
    + inversion T as [[T1 T2 T3 T4]]. rewrite T2. eapply HB; eassumption.
    + rewrite X. unfold proc_own_retry_budget. lia.
Qed.

Theorem loop_budget : forall H st, LInv st -> lmono (l_now st) H -> budget_ok (l_proc st) -> budget_ok (l_proc (fst (lrun st H))).
Proof.
  induction H as [|o H IH]; intros st HI Hm HB; [exact HB|]. rewrite lrun_cons. cbn [fst]. apply lmono_step in Hm as [Hle Hm].
  apply IH; [apply lstep_inv; assumption|exact Hm|apply lstep_budget; assumption].
Qed.

(* the number of retries of one message within one lifetime of its entry is the growth of its counter: at most the budget *)
Fixpoint nretries (h : bytes) (l : list (lnode * lop)) : Z :=
  match l with
  | [] => 0
  | (s, LCleanup) :: r => (if lretried s h then 1 else 0) + nretries h r
  | _ :: r => nretries h r
  end.

Theorem loop_retry_count h : forall H st e e', LInv st -> lmono (l_now st) H -> alive st H h ->
  alookup h (agg (l_proc st)) = Some e -> alookup h (agg (l_proc (fst (lrun st H)))) = Some e' ->
  nretries h (lstates st H) = retries e' - retries e.
Proof.
  induction H as [|o H IH]; intros st e e' HI Hm Hal Hl Hl'.
  - cbn in *. assert (e' = e) by congruence. subst. lia.
  - rewrite lrun_cons in Hl'. cbn [fst] in Hl'. pose proof (lmono_step _ _ _ Hm) as [Hle Hm1]. cbn [ReobsLoop.lstates nretries].
    assert (HI1 : LInv (fst (lstep st o))) by (apply lstep_inv; assumption).
    assert (Hal1 : alive (fst (lstep st o)) H h) by (intros s o' Hs; apply (Hal s o'); right; exact Hs).
    destruct (lstep_entry_lr st o h e HI Hl) as [Hnone|(e1 & Hl1 & C)].
    + exfalso. destruct H as [|o2 H]; [cbn in Hl'; congruence|]. apply (Hal1 (fst (lstep st o)) o2); [left; reflexivity|exact Hnone].
    + specialize (IH _ _ _ HI1 Hm1 Hal1 Hl1 Hl'). destruct C as [(_ & R & Nr)|(_ & -> & Yr & R)].
      * destruct o; try (rewrite IH; lia); try (rewrite (Nr eq_refl), IH; lia).
      * rewrite Yr, IH. lia.
Qed.

(* (c) SAFETY THROUGH THE LOOP *)
End Loop3.

(* ---- "somewhere along the run": concatenation *)
From WH Require Import model.ProcSpec proofs.SystemLiveProofs.

Lemma happens_app {S X} (stp : S -> X -> S) (P : S -> X -> Prop) : forall a st b,
  happens stp P st (a ++ b) <-> happens stp P st a \/ happens stp P (fold_left stp a st) b.
Proof.
  induction a as [|x a IH]; intros st b; cbn [app happens fold_left]; [tauto|]. rewrite IH. tauto.
Qed.

Section Recovery.
Variable recover : bytes -> bytes -> option bytes.
Variable keccak : bytes -> bytes.
Variable sign : bytes -> bytes.
Variable own : addr.
Variable gov_chain : Z.
Variable gov_addr : bytes.
Variable decode_hb : bytes -> option Z.
Variable decodeq : bytes -> option R.req.
Variable encq : R.req -> bytes.
Variable self : G.peerid.
Variable disable : bool.
Variable watch : Z -> R.req -> Z -> list msgpub.
Hypothesis keccak_len : forall b, length (keccak b) = 32%nat.
Hypothesis own_len : length own = 20%nat.
Hypothesis sign_correct : forall d, length d = 32%nat -> Processor.rec recover d (sign d) = Some own.

Notation step := (Processor.step recover keccak sign own gov_chain gov_addr).
Notation prun := (Processor.run recover keccak sign own gov_chain gov_addr).
Notation lstep := (ReobsLoop.lstep recover keccak sign own gov_chain gov_addr decode_hb decodeq encq self disable watch).
Notation lrun := (ReobsLoop.lrun recover keccak sign own gov_chain gov_addr decode_hb decodeq encq self disable watch).
Notation stepf := (fun st o => fst (step st o)).

Lemma prun_fold : forall ops p, fst (prun p ops) = fold_left stepf ops p.
Proof. induction ops as [|o ops IH]; intros p; [reflexivity|]. rewrite (prun_cons recover keccak sign own gov_chain gov_addr). cbn [fst fold_left]. apply IH. Qed.

(* composition with C02's liveness: after ANY history H0 of the composed node, over ANY continuation H during which the node gets
   no set change and no cleanup tick: if G is in force and nothing is known about m yet (the node missed m), the processor handles
   m and signs it somewhere in H - e.g. because its watcher re-observed m in answer to a request (loop_watch_observes) -, the
   observations of the other members of a quorum arrive by gossip, and the own signature has looped back, then m is published *)
Theorem loop_recovery G h (own_in : In own (keys G)) H0 H (signers : list addr) m :
  let st0 := fst (lrun linit H0) in let st := fst (lrun st0 H) in
  let ops0 := pops (snd (lrun linit H0)) in let ops := pops (snd (lrun st0 H)) in
  Forall op_wf ops0 -> Forall op_wf ops -> forallb calm ops = true ->
  cur (l_proc st0) = Some G -> alookup h (agg (l_proc st0)) = None -> gs_wf G ->
  Processor.dg keccak (vaa_of_message 0 m) = h ->
  happens stepf (ev_msg recover keccak sign own gov_chain gov_addr m) (l_proc st0) ops ->
  NoDup signers -> incl signers (keys G) -> go_quorum (Z.of_nat (length (keys G))) <= Z.of_nat (length signers) ->
  (forall a, In a signers -> a <> own -> happens stepf (ev_obs recover h a) (l_proc st0) ops) ->
  (forall o, In o (loopq (l_proc st)) -> o_hash o <> h) ->
  exists e, alookup h (agg (l_proc st)) = Some e /\ our_vaa e <> None /\ gs_snap e = Some G /\ submitted e = true.
Proof.
  cbv zeta. intros Hw0 Hw Hc Hcur Hno Hg Hh Hmsg ND Hincl Hq Hdel Hlq.
  destruct (lrun_wf recover keccak sign own gov_chain gov_addr decode_hb decodeq encq self disable watch H0 linit) as [_ P0]. unfold pwf in P0. cbn [l_proc linit] in P0.
  destruct (lrun_wf recover keccak sign own gov_chain gov_addr decode_hb decodeq encq self disable watch H (fst (lrun linit H0))) as [_ P1]. unfold pwf in P1.
  assert (E0 : l_proc (fst (lrun linit H0)) = fst (prun init (pops (snd (lrun linit H0))))) by (rewrite P0; reflexivity).
  assert (E1 : l_proc (fst (lrun (fst (lrun linit H0)) H)) = fst (prun (fst (prun init (pops (snd (lrun linit H0))))) (pops (snd (lrun (fst (lrun linit H0)) H))))) by (rewrite <- E0, P1; reflexivity).
  rewrite E1. rewrite E0 in Hcur, Hno, Hmsg, Hdel. rewrite E1 in Hlq.
  eapply (window_liveness recover keccak sign own gov_chain gov_addr keccak_len own_len sign_correct G h own_in); eassumption.
Qed.

(* the loop-level event behind "the processor handles m and signs it": the watcher of chain c takes request r from its queue, its
   re-observation path answers [m], and the processor signs *)
Lemma loop_watch_observes st0 H1 H2 c q r rest m : let s := fst (lrun st0 H1) in
  R.find_queue (R.queues (l_disp s)) c = Some q -> R.q_items q = r :: rest -> watch c r (l_now s) = [m] ->
  existsb is_sendobs (snd (step (l_proc s) (LocalMsg m))) = true ->
  happens stepf (ev_msg recover keccak sign own gov_chain gov_addr m) (l_proc st0) (pops (snd (lrun st0 (H1 ++ LWatch c :: H2)))).
Proof.
  cbv zeta. intros Hq Hi Hw Hs.
  rewrite (lrun_app_snd recover keccak sign own gov_chain gov_addr decode_hb decodeq encq self disable watch), pops_app. apply happens_app. right.
  destruct (lrun_wf recover keccak sign own gov_chain gov_addr decode_hb decodeq encq self disable watch H1 st0) as [_ P1]. unfold pwf in P1.
  rewrite <- prun_fold, P1. cbn [fst].
  rewrite (lrun_cons recover keccak sign own gov_chain gov_addr decode_hb decodeq encq self disable watch). cbn [snd]. rewrite pops_app. apply happens_app. left.
  destruct (lstep_watch_feeds recover keccak sign own gov_chain gov_addr decode_hb decodeq encq self disable watch _ _ _ _ _ Hq Hi) as [Ep _].
  rewrite Ep, Hw. cbn [map happens]. left. split; [reflexivity|exact Hs].
Qed.
End Recovery.

Definition pending_atb (st : lnode) (h : bytes) (c : Z) (tx : bytes) : bool :=
  match alookup h (agg (l_proc st)) with
  | Some e =>
    match our_msg e, our_vaa e with
    | Some _, Some v =>
      negb (submitted e) && settled e && (retries e <? proc_own_retry_budget) && negb (in_db_of (l_proc st) e) && bytes_eqb (txh e) tx
      && (echain v mod 2 ^ 32 =? c) && (first_seen e + proc_retry_after_ns <=? l_now st)
    | _, _ => false
    end
  | None => false
  end.
Lemma pending_atb_sound st h c tx : pending_atb st h c tx = true -> pending_at st h c tx.
Proof.
  unfold pending_atb, pending_at. destruct (alookup h (agg (l_proc st))) as [e|]; [|discriminate]. destruct (our_msg e) as [o|] eqn:Em; [|discriminate].
  destruct (our_vaa e) as [v|] eqn:Ev; [|discriminate]. intros Hb. repeat (apply andb_prop in Hb as [Hb ?]). exists e, o, v.
  split; [reflexivity|]. split; [split; [exact Em|split; [exact Ev|apply negb_true_iff; assumption]]|]. split; [assumption|]. split; [apply Z.ltb_lt; assumption|].
  split; [apply negb_true_iff; assumption|]. split; [apply bytes_eqb_eq; assumption|]. split; [apply Z.eqb_eq; assumption|apply Z.leb_le; assumption].
Qed.

(* ================================================================== the network: a request published by one node reaches its peers *)
Section NetHop.
Variable recover : bytes -> bytes -> option bytes.
Variable keccak : bytes -> bytes.
Variable gov_chain : Z.
Variable gov_addr : bytes.
Variable decode_hb : bytes -> option Z.
Variable decodeq : bytes -> option R.req.
Variable encq : R.req -> bytes.
Variable disable : bool.
Variable owns : nat -> addr.
Variable signs : nat -> bytes -> bytes.
Variable selfs : nat -> G.peerid.
Variable watches : nat -> Z -> R.req -> Z -> list msgpub.

Notation lnstep := (ReobsLoop.lnstep recover keccak gov_chain gov_addr decode_hb decodeq encq disable owns signs selfs watches).
Notation nd_step := (ReobsLoop.nd_step recover keccak gov_chain gov_addr decode_hb decodeq encq disable owns signs selfs watches).
Definition dreq (b : bytes) : bool := match decodeq b with Some _ => true | None => false end.

(* what node i publishes when its request goroutine takes r from obsvReqSendC is on the wire *)
Lemma published_on_wire i u r evs : In (u, EPub r) evs ->
  In (WReq (owns i) (encq r) (signs i (keccak (p2p_req_preimage (encq r))))) (flat_map (wire_of keccak encq owns signs i) evs).
Proof. intros Hin. apply in_flat_map. exists (u, EPub r). split; [exact Hin|left; reflexivity]. Qed.

(* ... and when the network delivers it to node j (relayed by any peer other than j itself), j's p2p loop verifies it against j's
   current guardian set and hands it to j's dispatcher at j's clock reading: i a member of that set, i's signer consistent with
   recovery, the request at least the verifier's length floor and decodable *)
Theorem lnet_request_reaches_peer n i j from k r stj Gk :
  nth_error (x_nodes n) j = Some stj ->
  nth_error (x_pool n) k = Some (WReq (owns i) (encq r) (signs i (keccak (p2p_req_preimage (encq r))))) ->
  G.n_gs (l_p2p stj) = Some Gk -> In (owns i) Gk -> bytes_to_address (owns i) = owns i -> from <> selfs j ->
  decodeq (encq r) = Some r -> p2p_req_too_short (Z.of_nat (length (encq r))) = false ->
  G.prec recover (keccak (p2p_req_preimage (encq r))) (signs i (keccak (p2p_req_preimage (encq r)))) = Some (owns i) ->
  In (l_now stj, EDisp (l_disp stj) (R.Req r (l_now stj)) (snd (R.step (l_disp stj) (R.Req r (l_now stj))))) (snd (lnstep n (XDeliver j from k))).
Proof.
  intros Hj Hk Hgs Hin Haddr Hfrom Hdec Hlen Hrec. unfold ReobsLoop.lnstep. cbn [ReobsLoop.resolve]. rewrite Hk, Hj. cbn [gmsg_of].
  unfold ReobsLoop.nd_step. cbn [ReobsLoop.lstep]. unfold ReobsLoop.gstep. cbn [G.loop_step G.p2p_dispatch].
  rewrite GP.loopback_guard_on. cbn [andb]. destruct (bytes_eqb_spec from (selfs j)) as [E|_]; [contradiction|]. rewrite Hgs.
  assert (Hok : G.process_obsreq recover keccak (fun b => match decodeq b with Some _ => true | None => false end) Gk (owns i) (encq r) (signs i (keccak (p2p_req_preimage (encq r)))) = G.ROk (encq r)).
  { apply GP.obsreq_iff. split; [reflexivity|]. split; [rewrite Hdec; reflexivity|]. exists (owns i). split; [symmetry; exact Haddr|]. split; [exact Hin|].
    split; [apply GP.req_floor_above_32; exact Hlen|]. split; [exact Hlen|exact Hrec]. }
  rewrite Hok. cbn [G.with_tbl proc_ops_of flat_map app ReobsLoop.feed reqs_of]. rewrite Hdec. cbn [app ReobsLoop.dispatch_all].
  unfold dispatch. cbn [with_p2p l_disp l_now]. destruct (R.step (l_disp stj) (R.Req r (l_now stj))) as [d' x]. cbn [fst snd app]. left. reflexivity.
Qed.
End NetHop.

(* ================================================================== the Alephium watcher as the oracle of chain 255 (C08 contract) *)
From WH Require Import gen.ExtractedAlphPipe model.AlphPipeline proofs.AlphPipelineRead proofs.AlphPipelineBase proofs.AlphPipelineSafety.
From WH Require proofs.AlphWatcherSafety.

Section AlphInstance.
Variable cfg : xcfg.
Variable EP : xevent -> Prop.
Variable HP : Z -> AlphWatcher.header -> Prop.
Variable AP : xmc_ans -> Prop.
(* what the Alephium node answers when the watcher handles request r at clock reading t: every API answer of handleObsvRequest *)
Variable node : R.req -> Z -> xreobs_in.
Variable other : Z -> R.req -> Z -> list msgpub.      (* the watchers of the other chains *)

(* the re-observation path of model/AlphPipeline.v (reobserve.go statement by statement, conversions included) as the loop's oracle *)
Definition alph_watch : Z -> R.req -> Z -> list msgpub :=
  fun c r t => if c =? alph_chain_id then map xf_pub (fst (xreobserve cfg (node r t))) else other c r t.

(* C08's end-to-end theorem is the contract of that oracle: whatever request arrives, every message the Alephium watcher hands to
   the processor in answer is the faithful conversion of ONE event the node served for the requested transaction with the governance
   address, in a block the node reports as main chain, and is `justified` (depth, hold time, attestation metadata) at that moment *)
Theorem alph_watch_contract :
  (forall r t, xop_ok cfg EP HP AP (XReobs (node r t))) ->
  forall r t m, In m (alph_watch alph_chain_id r t) ->
  exists f, m = xf_pub f /\ faithful cfg EP HP AP f /\ reobs_from cfg (node r t) f /\
    AlphWatcherSafety.justified (abs_cfg cfg) (EPa EP) HP (APa AP) (abs_op (XReobs (node r t))) (abs_fwd f).
Proof.
  intros Hok r t m Hin. unfold alph_watch in Hin. rewrite Z.eqb_refl in Hin. apply in_map_iff in Hin as (f & <- & Hf). exists f. split; [reflexivity|].
  pose proof (pipeline_end_to_end cfg EP HP AP [XReobs (node r t)] (xinit 0) (XInv_init EP HP AP 0) (Forall_cons _ (Hok r t) (Forall_nil _))) as J.
  cbn [xall_fwds] in J. rewrite app_nil_r in J. rewrite Forall_forall in J.
  assert (Hx : In (XReobs (node r t), f) (map (fun f0 => (XReobs (node r t), f0)) (xo_fwd (snd (xstep cfg (xinit 0) (XReobs (node r t))))))).
  { apply in_map. cbn [xstep xinit x_dead]. destruct (xreobserve cfg (node r t)) as [fw fl]. cbn [snd xo_fwd fst] in *. exact Hf. }
  destruct (J _ Hx) as [[Ff Rf] Jf]. cbn [fst snd] in *. auto.
Qed.
End AlphInstance.
