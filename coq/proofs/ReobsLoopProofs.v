(* Proofs about the composed re-observation loop (model/ReobsLoop.v), extension X7.
   Part 0: the hops are the wiring of node.go.   Part 1: every history of the composition projects onto a history of each
   component (so every theorem of C02 / C03 / C14 / C17 holds of the component inside the loop).   Part 2: time.
   Part 3: the dispatcher under an arbitrary request stream (forward again after a purge, timed).   Part 4: the retry stream
   of one pending entry.   Part 5: the loop theorems (cadence, no amplification, safety, budget, recovery). *)
From Coq Require Import List ZArith Lia Bool Arith.
From Coq Require Import Strings.Byte.
From WH Require Import lib.Bytes gen.Extracted gen.ExtractedWiring gen.ExtractedP2P model.Vaa model.Processor model.ReobsLoop.
From WH Require Import proofs.ProcessorProofs proofs.ProcCleanupProofs.
From WH Require proofs.ReobserveProofs proofs.P2PVerifyProofs.
Import ListNotations.
Open Scope Z_scope.

Module RP := ReobserveProofs.
Module GP := P2PVerifyProofs.

(* ================================================================== Part 0: hops and numbers *)
Lemma hops_match : loop_hops = extracted_hops.
Proof. reflexivity. Qed.
Lemma watched_chains_are : watched_chains = [2; 4; 255].
Proof. reflexivity. Qed.
Lemma node_queues_known c : In c watched_chains -> R.find_queue node_queues c <> None.
Proof. intros [<-|[<-|[<-|[]]]]; discriminate. Qed.
Lemma loop_bound_value : loop_bound = 1410 * 10 ^ 9.      (* 23 min 30 s *)
Proof. reflexivity. Qed.

(* ================================================================== Part 1: projections *)
Lemma R_run_app : forall a st b, R.run st (a ++ b) = R.run st a ++ R.run (R.final st a) b.
Proof. induction a as [|o a IH]; intros st b; [reflexivity|]. cbn [app]. rewrite !RP.run_cons, IH. reflexivity. Qed.
Lemma R_final_app : forall a st b, R.final st (a ++ b) = R.final (R.final st a) b.
Proof. induction a as [|o a IH]; intros st b; [reflexivity|]. cbn [app R.final]. apply IH. Qed.

Definition dops (tr : list tev) : list R.op := map (fun x => snd (fst x)) (disp_of tr).
Definition pops (tr : list tev) : list op := map fst (proc_of tr).

Lemma disp_of_app a b : disp_of (a ++ b) = disp_of a ++ disp_of b.
Proof. unfold disp_of. apply flat_map_app. Qed.
Lemma proc_of_app a b : proc_of (a ++ b) = proc_of a ++ proc_of b.
Proof. unfold proc_of. apply flat_map_app. Qed.
Lemma dops_app a b : dops (a ++ b) = dops a ++ dops b.
Proof. unfold dops. rewrite disp_of_app, map_app. reflexivity. Qed.
Lemma pops_app a b : pops (a ++ b) = pops a ++ pops b.
Proof. unfold pops. rewrite proc_of_app, map_app. reflexivity. Qed.

Section Loop.
Variable recover : bytes -> bytes -> option bytes.
Variable keccak : bytes -> bytes.
Variable sign : bytes -> bytes.
Variable own : addr.
Variable gov_chain : Z.
Variable gov_addr : bytes.
Variable decode_hb : bytes -> option Z.
Variable decodeq : bytes -> option R.req.
Variable encq : R.req -> bytes.
Variable self : G.peerid.
Variable disable : bool.
Variable watch : Z -> R.req -> Z -> list msgpub.

Notation pstep := (ReobsLoop.pstep recover keccak sign own gov_chain gov_addr).
Notation prun := (Processor.run recover keccak sign own gov_chain gov_addr).
Notation gstep := (ReobsLoop.gstep recover keccak decode_hb decodeq self disable).
Notation feed := (ReobsLoop.feed recover keccak sign own gov_chain gov_addr).
Notation lstep := (ReobsLoop.lstep recover keccak sign own gov_chain gov_addr decode_hb decodeq encq self disable watch).
Notation lrun := (ReobsLoop.lrun recover keccak sign own gov_chain gov_addr decode_hb decodeq encq self disable watch).
Notation lstates := (ReobsLoop.lstates recover keccak sign own gov_chain gov_addr decode_hb decodeq encq self disable watch).

Lemma prun_app : forall a st b, prun st (a ++ b) = let '(s1, o1) := prun st a in let '(s2, o2) := prun s1 b in (s2, o1 ++ o2).
Proof.
  induction a as [|o a IH]; intros st b; cbn [app Processor.run]; [destruct (prun st b); reflexivity|].
  destruct (Processor.step _ _ _ _ _ _ st o) as [st1 out1]. rewrite IH. destruct (prun st1 a) as [s1 o1]. destruct (prun s1 b) as [s2 o2]. reflexivity.
Qed.

(* the dispatcher events of a trace are a run of the dispatcher model, the processor events a run of the processor model *)
Definition dwf (s : R.state) (tr : list tev) (s' : R.state) : Prop := disp_of tr = R.run s (dops tr) /\ s' = R.final s (dops tr).
Definition pwf (p : pstate) (tr : list tev) (p' : pstate) : Prop := prun p (pops tr) = (p', map snd (proc_of tr)).
(* the parts of the node a step leaves alone *)
Definition same_but_proc (a b : lnode) : Prop := l_p2p a = l_p2p b /\ l_disp a = l_disp b /\ l_sendq a = l_sendq b /\ l_now a = l_now b.

Lemma dwf_app s tr1 s1 tr2 s2 : dwf s tr1 s1 -> dwf s1 tr2 s2 -> dwf s (tr1 ++ tr2) s2.
Proof.
  intros [A1 A2] [B1 B2]. unfold dwf. rewrite disp_of_app, dops_app, R_run_app, R_final_app, <- A2, <- A1, <- B1. auto.
Qed.
Lemma pwf_app p tr1 p1 tr2 p2 : pwf p tr1 p1 -> pwf p1 tr2 p2 -> pwf p (tr1 ++ tr2) p2.
Proof.
  unfold pwf. intros A B. rewrite pops_app, prun_app, A, B, proc_of_app, map_app. reflexivity.
Qed.
Lemma dwf_none s tr : disp_of tr = [] -> dwf s tr s.
Proof. intros E. unfold dwf, dops. rewrite E. split; reflexivity. Qed.
Lemma pwf_none p tr : proc_of tr = [] -> pwf p tr p.
Proof. intros E. unfold pwf, pops. rewrite E. reflexivity. Qed.

(* ---- feed *)
Lemma feed_spec : forall os st, let r := feed st os in
  same_but_proc st (fst r) /\ pwf (l_proc st) (snd r) (l_proc (fst r)) /\ disp_of (snd r) = [] /\
  Forall (fun e => fst e = l_now st /\ exists o outs, snd e = EProc o outs) (snd r) /\ pops (snd r) = os.
Proof.
  induction os as [|o os IH]; intros st; cbv zeta; cbn [ReobsLoop.feed].
  - cbn. repeat split; constructor.
  - unfold ReobsLoop.pstep. destruct (Processor.step _ _ _ _ _ _ (l_proc st) o) as [p' outs] eqn:Es.
    specialize (IH (with_proc st p')). destruct (feed (with_proc st p') os) as [st' evs]. cbn [fst snd] in *.
    destruct IH as ((I1 & I2 & I3 & I4) & Ip & Id & If & Io). cbn [with_proc l_p2p l_disp l_sendq l_now l_proc] in *.
    split; [repeat split; assumption|]. split; [|split; [exact Id|split]].
    + unfold pwf in *. cbn [pops proc_of flat_map snd app map fst Processor.run]. fold (proc_of evs). fold (pops evs).
      rewrite Es, Ip. reflexivity.
    + constructor; [split; [reflexivity|do 2 eexists; reflexivity]|exact If].
    + cbn [pops proc_of flat_map snd app map fst]. fold (proc_of evs). fold (pops evs). rewrite Io. reflexivity.
Qed.

(* ---- dispatch, dispatch_all *)
Definition same_but_disp (a b : lnode) : Prop := l_p2p a = l_p2p b /\ l_proc a = l_proc b /\ l_sendq a = l_sendq b /\ l_now a = l_now b.

Lemma dispatch_spec st o : let r := dispatch st o in
  same_but_disp st (fst r) /\ snd r = [(l_now st, EDisp (l_disp st) o (snd (R.step (l_disp st) o)))] /\
  l_disp (fst r) = fst (R.step (l_disp st) o).
Proof.
  cbv zeta. unfold dispatch. destruct (R.step (l_disp st) o) as [d' x]. cbn. repeat split.
Qed.

Lemma dwf_one s o t : dwf s [(t, EDisp s o (snd (R.step s o)))] (fst (R.step s o)).
Proof. unfold dwf, dops. cbn. destruct (R.step s o); split; reflexivity. Qed.

Lemma dispatch_all_spec : forall rs st, let r := dispatch_all st rs in
  same_but_disp st (fst r) /\ dwf (l_disp st) (snd r) (l_disp (fst r)) /\ proc_of (snd r) = [] /\
  Forall (fun e => fst e = l_now st /\ exists s q x, snd e = EDisp s (R.Req q (l_now st)) x /\ In q rs) (snd r) /\
  dops (snd r) = map (fun q => R.Req q (l_now st)) rs.
Proof.
  induction rs as [|q rs IH]; intros st; cbv zeta; cbn [ReobsLoop.dispatch_all].
  - cbn. split; [repeat split|]. split; [apply dwf_none; reflexivity|]. repeat split; constructor.
  - pose proof (dispatch_spec st (R.Req q (l_now st))) as D. destruct (dispatch st (R.Req q (l_now st))) as [st1 e1]. cbn [fst snd] in D.
    destruct D as ((D1 & D2 & D3 & D4) & De & Dd). specialize (IH st1). destruct (dispatch_all st1 rs) as [st2 e2]. cbn [fst snd] in *.
    destruct IH as ((I1 & I2 & I3 & I4) & Iw & Ip & If & Io). rewrite <- D4 in *.
    split; [repeat split; congruence|]. split; [|split; [|split]].
    + eapply dwf_app; [|exact Iw]. rewrite De, Dd. apply dwf_one.
    + rewrite proc_of_app, Ip, De. reflexivity.
    + apply Forall_app. split.
      * rewrite De. constructor; [|constructor]. split; [reflexivity|]. do 3 eexists. split; [reflexivity|left; reflexivity].
      * eapply Forall_impl; [|exact If]. intros e (A & s & q' & x & B & C). split; [exact A|]. exists s, q', x. split; [exact B|right; exact C].
    + rewrite dops_app, Io, De. reflexivity.
Qed.

(* ---- post_all *)
Definition same_but_sendq (a b : lnode) : Prop := l_p2p a = l_p2p b /\ l_proc a = l_proc b /\ l_disp a = l_disp b /\ l_now a = l_now b.

Lemma post_all_spec : forall rs st, let r := post_all st rs in
  same_but_sendq st (fst r) /\ disp_of (snd r) = [] /\ proc_of (snd r) = [] /\
  Forall (fun e => fst e = l_now st /\ exists q res, snd e = EPost q res) (snd r).
Proof.
  induction rs as [|q rs IH]; intros st; cbv zeta; cbn [ReobsLoop.post_all].
  - cbn. repeat split; constructor.
  - destruct (R.post sendq_cap (l_sendq st) q) as [q' res]. specialize (IH (with_sendq st q')).
    destruct (post_all (with_sendq st q') rs) as [st2 e2]. cbn [fst snd with_sendq l_p2p l_proc l_disp l_now] in *.
    destruct IH as ((I1 & I2 & I3 & I4) & Id & Ip & If).
    split; [repeat split; assumption|]. split; [exact Id|]. split; [exact Ip|]. constructor; [split; [reflexivity|do 2 eexists; reflexivity]|exact If].
Qed.

Ltac simp_fields := cbn [with_p2p with_sendq with_disp with_proc l_disp l_proc l_p2p l_sendq l_now fst snd] in *.

(* ---- one step, a whole history *)
Lemma lstep_wf st o : let r := lstep st o in
  dwf (l_disp st) (snd r) (l_disp (fst r)) /\ pwf (l_proc st) (snd r) (l_proc (fst r)).
Proof.
  cbv zeta. destruct o as [t| |q| |from m| |c|e]; cbn [ReobsLoop.lstep].
  - match goal with |- context [feed ?s ?os] => pose proof (feed_spec os s) as F; destruct (feed s os) as [st' evs] end.
    cbn [fst snd l_disp l_proc] in *. destruct F as ((_ & F2 & _) & Fp & Fd & _). split; [rewrite <- F2; apply dwf_none; exact Fd|exact Fp].
  - pose proof (feed_spec (cleanup_ops (l_now st)) st) as F. destruct (feed st (cleanup_ops (l_now st))) as [st1 e1]. cbn [fst snd] in F.
    destruct F as ((_ & F2 & _) & Fp & Fd & _).
    pose proof (post_all_spec (reqs_of_evs e1) st1) as Q. destruct (post_all st1 (reqs_of_evs e1)) as [st2 e2]. cbn [fst snd] in *.
    destruct Q as ((_ & Q2 & Q3 & _) & Qd & Qp & _). split.
    + eapply dwf_app; [rewrite F2; apply dwf_none; exact Fd|rewrite <- Q3; apply dwf_none; exact Qd].
    + eapply pwf_app; [exact Fp|rewrite <- Q2; apply pwf_none; exact Qp].
  - pose proof (post_all_spec [q] st) as Q. destruct (post_all st [q]) as [st2 e2]. cbn [fst snd] in *.
    destruct Q as ((_ & Q2 & Q3 & _) & Qd & Qp & _). split; [rewrite <- Q3; apply dwf_none; exact Qd|rewrite <- Q2; apply pwf_none; exact Qp].
  - destruct (l_sendq st) as [|q qs]; [cbn; split; [apply dwf_none|apply pwf_none]; reflexivity|].
    destruct (gstep (l_p2p st) (G.LLocalReq (encq q))) as [g' outs].
    match goal with |- context [dispatch_all ?s ?rs] => pose proof (dispatch_all_spec rs s) as D; destruct (dispatch_all s rs) as [st1 e1] end.
    cbn [fst snd with_p2p with_sendq l_disp l_proc] in *. destruct D as ((_ & D2 & _) & Dw & Dp & _). split.
    + eapply dwf_app; [exact Dw|apply dwf_none; reflexivity].
    + rewrite <- D2. apply pwf_none. rewrite proc_of_app, Dp. reflexivity.
  - destruct (gstep (l_p2p st) (G.LRecv from m)) as [g' outs].
    match goal with |- context [feed ?s ?os] => pose proof (feed_spec os s) as F; destruct (feed s os) as [st1 e1] end.
    cbn [fst snd with_p2p l_disp l_proc] in F. destruct F as ((_ & F2 & _) & Fp & Fd & _). simp_fields.
    pose proof (dispatch_all_spec (reqs_of decodeq outs) st1) as D. destruct (dispatch_all st1 (reqs_of decodeq outs)) as [st2 e2]. cbn [fst snd] in *.
    destruct D as ((_ & D2 & _) & Dw & Dp & _). split.
    + eapply dwf_app; [rewrite F2; apply dwf_none; exact Fd|exact Dw].
    + eapply pwf_app; [exact Fp|rewrite <- D2; apply pwf_none; exact Dp].
  - pose proof (dispatch_spec st (R.Tick (l_now st))) as D. destruct (dispatch st (R.Tick (l_now st))) as [st1 e1]. cbn [fst snd] in *.
    destruct D as ((_ & D2 & _) & De & Dd). split; [rewrite De, Dd; apply dwf_one|rewrite <- D2; apply pwf_none; rewrite De; reflexivity].
  - destruct (R.step (l_disp st) (R.Drain c)) as [d' x] eqn:Es.
    assert (W1 : dwf (l_disp st) [(l_now st, EDisp (l_disp st) (R.Drain c) x)] d').
    { pose proof (dwf_one (l_disp st) (R.Drain c) (l_now st)) as W. rewrite Es in W. exact W. }
    destruct x as [c0| | | | | |[r|]]; try (cbn [fst snd with_disp l_disp l_proc]; split; [exact W1|apply pwf_none; reflexivity]).
    match goal with |- context [feed ?s ?os] => pose proof (feed_spec os s) as F; destruct (feed s os) as [st2 e2] end.
    cbn [fst snd with_disp l_disp l_proc] in *. destruct F as ((_ & F2 & _) & Fp & Fd & _). split.
    + change (?a :: ?b :: e2) with ([a] ++ (b :: e2)). eapply dwf_app; [exact W1|]. rewrite <- F2. apply dwf_none. cbn. exact Fd.
    + change (?a :: ?b :: e2) with ([a; b] ++ e2). eapply pwf_app; [apply pwf_none; reflexivity|exact Fp].
  - match goal with |- context [feed ?s ?os] => pose proof (feed_spec os s) as F; destruct (feed s os) as [st' evs] end.
    cbn [fst snd] in *. destruct F as ((_ & F2 & _) & Fp & Fd & _).
    assert (E1 : l_disp st = l_disp st') by (rewrite <- F2; destruct e; reflexivity).
    assert (E2 : forall p, pwf (l_proc match e with VSetGS g => with_p2p st (fst (gstep (l_p2p st) (G.LSetGS (keys g)))) | _ => st end) evs p -> pwf (l_proc st) evs p)
      by (destruct e; intros p Hp; exact Hp).
    split; [rewrite <- E1; apply dwf_none; exact Fd|apply E2; exact Fp].
Qed.

Theorem lrun_wf : forall H st, let r := lrun st H in
  dwf (l_disp st) (snd r) (l_disp (fst r)) /\ pwf (l_proc st) (snd r) (l_proc (fst r)).
Proof.
  induction H as [|o H IH]; intros st; cbv zeta; cbn [ReobsLoop.lrun].
  - cbn. split; [apply dwf_none|apply pwf_none]; reflexivity.
  - pose proof (lstep_wf st o) as S1. destruct (lstep st o) as [st1 e1]. specialize (IH st1). destruct (lrun st1 H) as [st2 e2]. cbn [fst snd] in *.
    destruct S1 as [A1 A2], IH as [B1 B2]. split; [eapply dwf_app; eassumption|eapply pwf_app; eassumption].
Qed.
End Loop.
