(* Extension X10, part 8: recovery at the level of the loop network over windows that DO contain cleanup ticks at the recovering node
   (its cleanup ticker fires every 30 s; the peers re-send their observations on their own retries, minutes apart): composition of the
   refinement (proofs/ClosureProofs1.v) with C02's network liveness over windows with ticks (proofs/ClosureProofs3.v). *)
From Coq Require Import List ZArith Lia Bool Arith.
From Coq Require Import Strings.Byte.
From WH Require Import lib.Bytes gen.Extracted gen.ExtractedWiring gen.ExtractedP2P model.Vaa model.Processor model.ProcSpec model.System
     model.ReobsLoop model.Closure.
From WH Require Import proofs.ProcessorProofs proofs.ProcC01Proofs proofs.ProcC02Proofs proofs.SystemProofs proofs.SystemLiveProofs
     proofs.ReobsLoopBase proofs.ClosureProofs1 proofs.ClosureProofs3.
Import ListNotations.
Open Scope Z_scope.

Lemma always_app {S X} (stp : S -> X -> S) (P : S -> X -> Prop) : forall a st b,
  always stp P st (a ++ b) <-> always stp P st a /\ always stp P (fold_left stp a st) b.
Proof. induction a as [|x a IH]; intros st b; cbn [app always fold_left]; [tauto|]. rewrite IH. tauto. Qed.

Lemma always_all {S X} (stp : S -> X -> S) (P : S -> X -> Prop) : forall xs st, (forall x, In x xs -> forall s, P s x) -> always stp P st xs.
Proof. induction xs as [|x xs IH]; intros st H; cbn [always]; [exact I|]. split; [apply H; left; reflexivity|apply IH; intros y Hy; apply H; right; exact Hy]. Qed.

(* the processor state in which the tick of the composition is evaluated: the clock one nanosecond before the node's reading *)
Definition at_clock (p : pstate) (t : Z) : pstate := {| cur := cur p; agg := agg p; db := db p; loopq := loopq p; clock := t |}.

Section Refine2.
Variable recover : bytes -> bytes -> option bytes.
Variable keccak : bytes -> bytes.
Variable gov_chain : Z.
Variable gov_addr : bytes.
Variable decode_hb : bytes -> option Z.
Variable decodeq : bytes -> option R.req.
Variable encq : R.req -> bytes.
Variable disable : bool.
Variable owns : nat -> addr.
Variable signs : nat -> bytes -> bytes.
Variable selfs : nat -> G.peerid.
Variable watches : nat -> Z -> R.req -> Z -> list msgpub.

Notation nstep := (System.nstep recover keccak gov_chain gov_addr owns signs).
Notation nrun := (System.nrun recover keccak gov_chain gov_addr owns signs).
Notation lnstep := (ReobsLoop.lnstep recover keccak gov_chain gov_addr decode_hb decodeq encq disable owns signs selfs watches).
Notation lnrun := (ReobsLoop.lnrun recover keccak gov_chain gov_addr decode_hb decodeq encq disable owns signs selfs watches).
Notation nd_step := (ReobsLoop.nd_step recover keccak gov_chain gov_addr decode_hb decodeq encq disable owns signs selfs watches).
Notation lstep i := (ReobsLoop.lstep recover keccak (signs i) (owns i) gov_chain gov_addr decode_hb decodeq encq (selfs i) disable (watches i)).
Notation sim1 := (Closure.sim1 recover keccak gov_chain gov_addr decode_hb decodeq encq disable owns signs selfs watches).
Notation sim := (Closure.sim recover keccak gov_chain gov_addr decode_hb decodeq encq disable owns signs selfs watches).
Notation nstepf := (fun n x => fst (nstep n x)).
Notation lnstepf := (fun n x => fst (lnstep n x)).
Notation sim_step := (ClosureProofs1.sim_step recover keccak gov_chain gov_addr decode_hb decodeq encq disable owns signs selfs watches).
Notation nrun_fold := (ClosureProofs1.nrun_fold recover keccak gov_chain gov_addr owns signs).
Notation sim1_props := (ClosureProofs1.sim1_props recover keccak gov_chain gov_addr decode_hb decodeq encq disable owns signs selfs watches).
Notation in_sim := (ClosureProofs1.in_sim recover keccak gov_chain gov_addr decode_hb decodeq encq disable owns signs selfs watches).

Lemma always_sim_lift (Pl : lnet -> lnop -> Prop) (Pn : net -> nop -> Prop) :
  (forall n x, Pl n x -> always nstepf Pn (proj n) (sim1 n x)) ->
  forall xs n, always lnstepf Pl n xs -> always nstepf Pn (proj n) (sim n xs).
Proof.
  intros Hl. induction xs as [|x xs IH]; intros n Hal; cbn [Closure.sim]; [exact I|]. cbn [always] in Hal. destruct Hal as [Hp Hal]. apply always_app.
  split; [apply Hl; exact Hp|]. rewrite <- nrun_fold, sim_step. cbn [fst]. apply IH. exact Hal.
Qed.

(* a cleanup tick of System.net at node j stems from a cleanup step of loop node j *)
Lemma sim1_cleanup n x j : In (NEnv j ECleanup) (sim1 n x) -> x = XLocal j LCleanup.
Proof.
  unfold Closure.sim1. destruct (lres n x) as [[i o]|] eqn:Hr; [|intros []]. destruct (nth_error (x_nodes n) i) as [st|] eqn:Hn; [|intros []].
  assert (Hgen : forall lo, In (NEnv j ECleanup) (map (nop_of_op i) (map fst (proc_of (snd (nd_step i st lo))))) -> i = j /\ lo = LCleanup).
  { intros lo Hin. apply in_map_iff in Hin as (o' & E & Ho'). fold (pops (snd (nd_step i st lo))) in Ho'.
    destruct (ClosureProofs1.pops_kinds recover keccak gov_chain gov_addr decode_hb decodeq encq disable owns signs selfs watches i st lo o' Ho') as [_ K2].
    destruct o'; try discriminate E. inversion E; subst. split; [reflexivity|apply K2; reflexivity]. }
  destruct x as [k lo|k from kk|k from w]; unfold lres in Hr; cbn [ReobsLoop.resolve] in Hr.
  - injection Hr as E1 E2. subst k o. intros Hin. destruct (Hgen lo Hin) as [-> ->]. reflexivity.
  - intros Hin. apply in_map_iff in Hin as (o' & E & _). discriminate E.
  - injection Hr as E1 E2. subst k o. intros Hin. destruct (Hgen _ Hin) as [_ X]. discriminate X.
Qed.

(* the cleanup step of loop node i, on System.net: clock one nanosecond back, the tick, clock forward *)
Lemma sim1_of_cleanup n i st : nth_error (x_nodes n) i = Some st ->
  sim1 n (XLocal i LCleanup) = [NEnv i (EClock (l_now st - 1)); NEnv i ECleanup; NEnv i (EClock (l_now st))].
Proof.
  intros Hn. unfold Closure.sim1, lres. cbn [ReobsLoop.resolve]. rewrite Hn. fold (pops (snd (nd_step i st LCleanup))). unfold ReobsLoop.nd_step.
  rewrite (ReobsLoopBase.lstep_pops recover keccak (signs i) (owns i) gov_chain gov_addr decode_hb decodeq encq (selfs i) disable (watches i)). reflexivity.
Qed.

Hypothesis keccak_len : forall b, length (keccak b) = 32%nat.

(* every cleanup step of loop node i in the window keeps node i's entry of h: the per-entry function, evaluated at the node's clock
   reading, does not delete it *)
Definition lnet_ticks_keep (i : nat) (h : bytes) (n : lnet) (xs : list lnop) : Prop :=
  always lnstepf (fun n x => x = XLocal i LCleanup -> forall st, nth_error (x_nodes n) i = Some st -> tick_keeps h (at_clock (l_proc st) (l_now st - 1))) n xs.

Lemma ticks_keep_sim i h : forall xs n, lnet_ticks_keep i h n xs ->
  net_ticks_keep recover keccak gov_chain gov_addr owns signs i h (proj n) (sim n xs).
Proof.
  intros xs n Hk. unfold net_ticks_keep. apply (always_sim_lift (fun n x => x = XLocal i LCleanup -> forall st, nth_error (x_nodes n) i = Some st -> tick_keeps h (at_clock (l_proc st) (l_now st - 1)))); [|exact Hk].
  clear. intros n x Hp.
  assert (D : x = XLocal i LCleanup \/ x <> XLocal i LCleanup).
  { destruct x as [k lo|k f kk|k f w]; try (right; discriminate). destruct (Nat.eq_dec k i) as [->|Hne]; [|right; intros X; inversion X; contradiction].
    destruct lo; try (right; discriminate). left. reflexivity. }
  destruct D as [->|Hne].
  - destruct (nth_error (x_nodes n) i) as [st|] eqn:Hn.
    2:{ unfold Closure.sim1, lres. cbn [ReobsLoop.resolve]. rewrite Hn. exact I. }
    rewrite (sim1_of_cleanup n i st Hn). cbn [always]. split; [intros X; discriminate X|]. split; [|split; [intros X; discriminate X|exact I]].
    intros _ st' Hst'.
    assert (Hp0 : nth_error (nodes (proj n)) i = Some (l_proc st)) by (cbn [proj nodes]; apply map_nth_error; exact Hn).
    rewrite (nstep_unfold recover keccak gov_chain gov_addr owns signs (proj n) (NEnv i (EClock (l_now st - 1))) i (SetClock (l_now st - 1)) (l_proc st) eq_refl Hp0) in Hst'.
    cbn [fst nodes] in Hst'. rewrite (nth_error_set_nth_same _ _ _ _ Hp0) in Hst'. inversion Hst'; subst st'. exact (Hp eq_refl st eq_refl).
  - apply always_all. intros x' Hin s X. subst x'. exfalso. apply Hne. apply (sim1_cleanup n x i Hin).
Qed.

Lemma sim_steady n xs i : (forall x, In x xs -> ltarget x = i -> lsetgs_free x = true) -> forall x', In x' (sim n xs) -> target x' = i -> steady_nop x' = true.
Proof.
  intros Hc x' Hin Ht. destruct (in_sim _ _ _ Hin) as (n' & x & Hx & Hin'). destruct (sim1_props _ _ _ Hin') as (T & _ & _ & F).
  assert (Hf : lsetgs_free x = true) by (apply Hc; [exact Hx|congruence]).
  destruct x' as [j e| | |]; try reflexivity. destruct e; try reflexivity. exfalso. exact (F Hf j g eq_refl).
Qed.

(* RECOVERY AT THE NETWORK LEVEL, windows with cleanup ticks at the recovering node: as [lnet_recovery], but node i may take cleanup
   steps (and anything but a guardian-set change) in the window, as long as none of them deletes its entry of m *)
Theorem lnet_recovery_ticks N xs0 xs i G m (S : list nat) :
  (i < N)%nat -> Forall lnop_wf xs0 -> Forall lnop_wf xs ->
  let n0 := fst (lnrun (lninit N) xs0) in
  let n1 := fst (lnrun n0 xs) in
  let h := Processor.dg keccak (vaa_of_message 0 m) in
  (forall st0, nth_error (x_nodes n0) i = Some st0 -> cur (l_proc st0) = Some G /\ alookup h (agg (l_proc st0)) = None) -> ProcSpec.gs_wf G ->
  (forall x, In x xs -> ltarget x = i -> lsetgs_free x = true) ->
  lnet_ticks_keep i h n0 xs ->
  NoDup (map owns S) -> (forall j, In j S -> honest_member recover owns signs G j) ->
  go_quorum (Z.of_nat (length (keys G))) <= Z.of_nat (length S) -> In i S ->
  happens lnstepf (lev_reobserved recover keccak gov_chain gov_addr owns signs watches i m) n0 xs ->
  (forall j, In j S -> j <> i -> happens lnstepf (lev_delivered owns signs selfs i j h) n0 xs) ->
  (forall st, nth_error (x_nodes n1) i = Some st -> forall o, In o (loopq (l_proc st)) -> o_hash o <> h) ->
  (exists st e, nth_error (x_nodes n1) i = Some st /\ alookup h (agg (l_proc st)) = Some e /\
                our_vaa e <> None /\ gs_snap e = Some G /\ submitted e = true) /\
  happens lnstepf (lev_publishes recover keccak gov_chain gov_addr decode_hb decodeq encq disable owns signs selfs watches i) n0 xs.
Proof.
  intros Hi Hw0 Hw. cbv zeta. intros Hst0 Hg Hsteady Hkeep ND Hhon Hq HiS Hobs Hdel Hlq.
  set (n0 := fst (lnrun (lninit N) xs0)) in *. set (n1 := fst (lnrun n0 xs)) in *. set (h := Processor.dg keccak (vaa_of_message 0 m)) in *.
  assert (E0 : fst (nrun (ninit N) (sim (lninit N) xs0)) = proj n0)
    by (rewrite <- proj_init; apply (proj1 (refinement recover keccak gov_chain gov_addr decode_hb decodeq encq disable owns signs selfs watches xs0 (lninit N)))).
  assert (E1 : fst (nrun (proj n0) (sim n0 xs)) = proj n1) by apply (proj1 (refinement recover keccak gov_chain gov_addr decode_hb decodeq encq disable owns signs selfs watches xs n0)).
  assert (Hst0' : forall st0, nth_error (nodes (proj n0)) i = Some st0 -> cur st0 = Some G /\ alookup h (agg st0) = None).
  { intros st0 H. cbn [proj nodes] in H. rewrite nth_error_map in H. destruct (nth_error (x_nodes n0) i) as [lst|] eqn:E; [|discriminate]. inversion H; subst. apply Hst0. reflexivity. }
  assert (Hlq' : forall st, nth_error (nodes (proj n1)) i = Some st -> forall o, In o (loopq st) -> o_hash o <> h).
  { intros st H. cbn [proj nodes] in H. rewrite nth_error_map in H. destruct (nth_error (x_nodes n1) i) as [lst|] eqn:E; [|discriminate]. inversion H; subst. apply Hlq. reflexivity. }
  assert (Hobs' : happens nstepf (ev_observes recover keccak gov_chain gov_addr owns signs i m) (proj n0) (sim n0 xs))
    by (apply (happens_sim_lift recover keccak gov_chain gov_addr decode_hb decodeq encq disable owns signs selfs watches (lev_reobserved recover keccak gov_chain gov_addr owns signs watches i m)); [apply reobserved_sim|exact Hobs]).
  assert (Hdel' : forall j, In j S -> j <> i -> happens nstepf (ev_delivered owns signs i j h) (proj n0) (sim n0 xs))
    by (intros j Hj Hne; apply (happens_sim_lift recover keccak gov_chain gov_addr decode_hb decodeq encq disable owns signs selfs watches (lev_delivered owns signs selfs i j h)); [apply delivered_sim|exact (Hdel j Hj Hne)]).
  pose proof (sim_wf recover keccak gov_chain gov_addr decode_hb decodeq encq disable owns signs selfs watches (lninit N) xs0 Hw0) as W0.
  pose proof (sim_wf recover keccak gov_chain gov_addr decode_hb decodeq encq disable owns signs selfs watches n0 xs Hw) as W1.
  pose proof (sim_steady n0 xs i Hsteady) as C1. pose proof (ticks_keep_sim i h xs n0 Hkeep) as T1.
  pose proof (net_liveness_ticks recover keccak gov_chain gov_addr owns signs keccak_len N (sim (lninit N) xs0) (sim n0 xs) i G m S Hi W0 W1) as L. cbv zeta in L.
  rewrite E0, E1 in L. destruct (L Hst0' Hg C1 T1 ND Hhon Hq HiS Hobs' Hdel' Hlq') as [(st & e & Hn & He & Hv & Hs & Hsub) Hpub].
  split.
  - cbn [proj nodes] in Hn. rewrite nth_error_map in Hn. destruct (nth_error (x_nodes n1) i) as [lst|] eqn:E; [|discriminate]. inversion Hn; subst st.
    exists lst, e. repeat split; assumption.
  - apply (happens_sim_lower recover keccak gov_chain gov_addr decode_hb decodeq encq disable owns signs selfs watches
             (ev_publishes recover keccak gov_chain gov_addr owns signs i h) (lev_publishes recover keccak gov_chain gov_addr decode_hb decodeq encq disable owns signs selfs watches i));
      [apply publishes_lower|exact Hpub].
Qed.
End Refine2.
