(* C02: a VAA is published exactly when the node saw the message and a quorum (its own signature included) signed.
   State invariants proved by induction over every history. *)
From Coq Require Import List ZArith Lia Bool Arith.
From Coq Require Import Strings.Byte.
From WH Require Import lib.Bytes gen.Extracted model.Vaa model.Processor model.ProcSpec
     proofs.VaaProofs proofs.QuorumProofs proofs.ProcessorProofs proofs.ProcC01Proofs proofs.ProcCleanupProofs.
Import ListNotations.
Open Scope Z_scope.

(* ------------------------------------------------------------------ association lists with unique keys *)
Lemma in_aremove {V} k k' (v' : V) m : In (k', v') (aremove k m) -> k' <> k /\ In (k', v') m.
Proof.
  unfold aremove. intros H. apply filter_In in H as [H1 H2]. cbn [fst] in H2. split; [|exact H1].
  intros ->. rewrite bytes_eqb_refl in H2. discriminate.
Qed.

Lemma in_aset_inv {V} k (v : V) k' v' m : In (k', v') (aset k v m) -> (k' = k /\ v' = v) \/ (k' <> k /\ In (k', v') m).
Proof. unfold aset. intros [H|H]; [inversion H; left; split; reflexivity|right; apply in_aremove; exact H]. Qed.

Lemma keys_aremove_incl {V} k (m : list (bytes * V)) : incl (map fst (aremove k m)) (map fst m).
Proof. intros x Hx. apply in_map_iff in Hx as ([k' v'] & <- & Hin). apply in_aremove in Hin as [_ Hin]. apply in_map_iff. exists (k', v'). split; [reflexivity|exact Hin]. Qed.

Lemma NoDup_keys_aremove {V} k (m : list (bytes * V)) : NoDup (map fst m) -> NoDup (map fst (aremove k m)).
Proof.
  induction m as [|[k0 v0] m IH]; intros ND; cbn [aremove filter map]; [constructor|].
  inversion ND as [|? ? Hn ND']; subst. fold (aremove k m). cbn [fst]. destruct (negb (bytes_eqb k k0)); [|apply IH; exact ND'].
  cbn [map fst]. constructor; [|apply IH; exact ND']. intros Hin. apply Hn. apply (keys_aremove_incl k m). exact Hin.
Qed.

Lemma NoDup_keys_aset {V} k (v : V) m : NoDup (map fst m) -> NoDup (map fst (aset k v m)).
Proof.
  intros ND. unfold aset. cbn [map fst]. constructor; [|apply NoDup_keys_aremove; exact ND].
  intros Hin. apply in_map_iff in Hin as ([k' v'] & E & Hin). cbn [fst] in E. subst k'. apply in_aremove in Hin as [Hn _]. apply Hn. reflexivity.
Qed.

Lemma alookup_of_In {V} k (v : V) m : NoDup (map fst m) -> In (k, v) m -> alookup k m = Some v.
Proof.
  induction m as [|[k0 v0] m IH]; intros ND Hin; [destruct Hin|]. cbn [map fst] in ND. inversion ND as [|? ? Hn ND']; subst.
  cbn [alookup]. destruct Hin as [E|Hin].
  - inversion E; subst. rewrite bytes_eqb_refl. reflexivity.
  - destruct (bytes_eqb_spec k k0) as [->|_]; [|apply IH; assumption].
    exfalso. apply Hn. apply in_map_iff. exists (k0, v). split; [reflexivity|exact Hin].
Qed.

Definition has (es : list (addr * bytes)) (a : addr) : bool := match alookup a es with Some _ => true | None => false end.
(* number of keys of the set for which a (verified) signature is recorded *)
Definition nsigned (g : gset) (es : list (addr * bytes)) : Z := Z.of_nat (length (filter (has es) (keys g))).

Section C02.
Variable recover : bytes -> bytes -> option bytes.
Variable keccak : bytes -> bytes.
Variable sign : bytes -> bytes.
Variable own : addr.
Variable gov_chain : Z.
Variable gov_addr : bytes.

Notation rec := (Processor.rec recover).
Notation dg := (Processor.dg keccak).
Notation step := (Processor.step recover keccak sign own gov_chain gov_addr).
Notation run := (Processor.run recover keccak sign own gov_chain gov_addr).
Notation handle_obs := (Processor.handle_obs recover).
Notation handle_message := (Processor.handle_message keccak sign own gov_chain gov_addr).
Notation broadcast_signature := (Processor.broadcast_signature keccak own).
Notation Inv1 := (ProcC01Proofs.Inv1 recover keccak).

(* the head of handleObservation: which observations are accepted, and against which set *)
Definition applicable (st : pstate) (h : bytes) : option gset :=
  match alookup h (agg st) with
  | Some e' => match gs_snap e' with Some g => Some g | None => cur st end
  | None => cur st
  end.

Definition accepted (st : pstate) (o : obs) : option (addr * gset) :=
  match rec (o_hash o) (o_sig o) with
  | None => None
  | Some pk =>
    if negb (bytes_eqb (bytes_to_address (o_addr o)) pk) then None else
    match applicable st (o_hash o) with
    | None => None
    | Some g => if Processor.memb (bytes_to_address (o_addr o)) (keys g) then Some (bytes_to_address (o_addr o), g) else None
    end
  end.

Lemma handle_obs_rejected st o : accepted st o = None -> handle_obs st o = (st, []).
Proof.
  unfold accepted, applicable, Processor.handle_obs.
  destruct (rec (o_hash o) (o_sig o)) as [pk|]; [|reflexivity].
  destruct (negb (bytes_eqb _ pk)); [reflexivity|].
  destruct (match alookup (o_hash o) (agg st) with Some e' => _ | None => cur st end) as [g|]; [|reflexivity].
  destruct (Processor.memb _ (keys g)); [discriminate|reflexivity].
Qed.

Definition is_pub (x : out) : bool := match x with Store _ _ | SendVAA _ => true | _ => false end.

(* what an accepted observation does: exactly one entry (the one of its digest) is rewritten; the signature is recorded; recorded
   signatures, own VAA and set snapshot are kept; the quorum test is evaluated against the applicable set; a publish happens only
   from "not submitted" and sets "submitted" *)
Lemma handle_obs_accepted O L st o a g : Inv1 O L st -> accepted st o = Some (a, g) ->
  exists e',
    fst (handle_obs st o) = {| cur := cur st; agg := aset (o_hash o) e' (agg st); db := db (fst (handle_obs st o));
                               loopq := loopq st; clock := clock st |} /\
    alookup a (esigs e') = Some (o_sig o) /\
    (forall e0, alookup (o_hash o) (agg st) = Some e0 ->
       our_vaa e' = our_vaa e0 /\ gs_snap e' = gs_snap e0 /\ (submitted e0 = true -> submitted e' = true) /\
       (forall a', alookup a' (esigs e0) <> None -> alookup a' (esigs e') <> None)) /\
    (alookup (o_hash o) (agg st) = None -> our_vaa e' = None) /\
    (forall G, gs_snap e' = Some G -> G = g) /\
    (our_vaa e' <> None -> go_quorum (Z.of_nat (length (keys g))) <= nsigned g (esigs e') -> submitted e' = true) /\
    (existsb is_pub (snd (handle_obs st o)) = true ->
       exists e0, alookup (o_hash o) (agg st) = Some e0 /\ our_vaa e0 <> None /\ submitted e0 = false /\ submitted e' = true) /\
    (forall x, In x (snd (handle_obs st o)) -> is_pub x = true).
Proof.
  intros HI Hacc. pose proof HI as [Ia Id Ic Iw]. unfold accepted, applicable in Hacc. unfold Processor.handle_obs.
  destruct (rec (o_hash o) (o_sig o)) as [pk|] eqn:Er; [|discriminate].
  destruct (bytes_eqb_spec (bytes_to_address (o_addr o)) pk) as [Hpk|]; cbn [negb] in *; [|discriminate].
  set (their := bytes_to_address (o_addr o)) in *.
  remember (alookup (o_hash o) (agg st)) as e eqn:Ee in *.
  destruct (match e with Some e' => match gs_snap e' with Some g0 => Some g0 | None => cur st end | None => cur st end) as [g0|] eqn:Eg; [|discriminate].
  destruct (Processor.memb their (keys g0)) eqn:Em; [|discriminate]. inversion Hacc; subst a g0. clear Hacc. cbn [negb].
  set (e0 := match e with Some e' => e' | None => new_entry (clock st) end).
  assert (He0 : ProcC01Proofs.eok recover keccak O L (o_hash o) e0).
  { subst e0. destruct e as [e'|].
    - symmetry in Ee. apply alookup_In in Ee. rewrite Forall_forall in Ia. apply (Ia _ Ee).
    - apply new_entry_eok. }
  assert (Hsnap : forall G, gs_snap e0 = Some G -> G = g).
  { intros G HG. subst e0. destruct e as [e'|]; [change (gs_snap e' = Some G) in HG; rewrite HG in Eg; inversion Eg; reflexivity|cbn [new_entry gs_snap] in HG; discriminate]. }
  assert (HgL : In g L).
  { subst e0. destruct e as [e'|].
    - destruct (gs_snap e') as [g'|] eqn:Es; [inversion Eg; subst g'; apply (E_snap _ _ _ _ _ _ He0); exact Es|apply Ic; exact Eg].
    - apply Ic; exact Eg. }
  assert (Hwf : ProcSpec.gs_wf g) by (rewrite Forall_forall in Iw; auto).
  destruct Hwf as [Hnd Hlen].
  set (e1 := set_esigs e0 (aset their (o_sig o) (esigs e0))).
  assert (Hs1 : Forall (ProcessorProofs.sig_ok recover (o_hash o)) (esigs e1)).
  { subst e1. cbn [set_esigs esigs]. apply Forall_aset; [|apply (E_sigs _ _ _ _ _ _ He0)].
    unfold ProcessorProofs.sig_ok. cbn [fst snd]. rewrite Hpk. exact Er. }
  destruct (assemble_ok recover (o_hash o) (esigs e1) Hs1 (keys g) [] Hnd ltac:(cbn [length]; lia))
    as (sg & Ha & _ & _ & _ & _ & Hcnt).
  cbn [length] in Ha. change (Z.of_nat 0) with 0 in Ha. rewrite Ha.
  assert (Hrec : alookup their (esigs e1) = Some (o_sig o)).
  { subst e1. cbn [set_esigs esigs]. rewrite alookup_aset, bytes_eqb_refl. reflexivity. }
  assert (Hold : forall ex, e = Some ex -> our_vaa e1 = our_vaa ex /\ gs_snap e1 = gs_snap ex /\ submitted e1 = submitted ex /\
                                     (forall a', alookup a' (esigs ex) <> None -> alookup a' (esigs e1) <> None)).
  { intros ex Hex. subst e0 e1. rewrite Hex. cbn [set_esigs our_vaa gs_snap submitted esigs]. repeat split.
    intros a' Ha'. rewrite alookup_aset. destruct (bytes_eqb a' their); [discriminate|exact Ha']. }
  assert (Hnew : e = None -> our_vaa e1 = None).
  { intros Hex. subst e0 e1. rewrite Hex. reflexivity. }
  assert (Hcnt' : Z.of_nat (length sg) = nsigned g (esigs e1)) by exact Hcnt.
  (* the branches without a publish: the entry is e1 *)
  assert (Hquiet : (our_vaa e1 <> None -> go_quorum (Z.of_nat (length (keys g))) <= nsigned g (esigs e1) -> submitted e1 = true) ->
     alookup their (esigs e1) = Some (o_sig o) /\
     (forall ex, e = Some ex -> our_vaa e1 = our_vaa ex /\ gs_snap e1 = gs_snap ex /\ (submitted ex = true -> submitted e1 = true) /\
        (forall a', alookup a' (esigs ex) <> None -> alookup a' (esigs e1) <> None)) /\
     (e = None -> our_vaa e1 = None) /\ (forall G, gs_snap e1 = Some G -> G = g) /\
     (our_vaa e1 <> None -> go_quorum (Z.of_nat (length (keys g))) <= nsigned g (esigs e1) -> submitted e1 = true) /\
     (existsb is_pub (@nil out) = true ->
        exists ex, e = Some ex /\ our_vaa ex <> None /\ submitted ex = false /\ submitted e1 = true) /\
     (forall x, In x (@nil out) -> is_pub x = true)).
  { intros Hq. split; [exact Hrec|]. split.
    { intros ex Hex. destruct (Hold ex Hex) as (A & B & C & D). repeat split; try assumption. intros X. rewrite C. exact X. }
    split; [exact Hnew|]. split; [exact Hsnap|]. split; [exact Hq|]. split; [intros X; discriminate|intros x []]. }
  destruct (our_vaa e1) as [v|] eqn:Ev.
  2:{ exists e1. cbn [fst snd with_agg db]. split; [reflexivity|]. rewrite Ev. apply Hquiet. intros X; contradiction. }
  destruct (local_quorum_reached_spec (go_quorum (Z.of_nat (length (keys g)))) (Z.of_nat (length sg))) as [Hq|Hq]; cbn [andb].
  2:{ exists e1. cbn [fst snd with_agg db]. split; [reflexivity|]. rewrite Ev. apply Hquiet. intros _ X. rewrite <- Hcnt' in X. lia. }
  destruct (submitted e1) eqn:Esub; cbn [negb].
  { exists e1. cbn [fst snd with_agg db]. split; [reflexivity|]. rewrite Ev, Esub. apply Hquiet. intros _ _. reflexivity. }
  destruct sg as [|s0 sg'].
  { exfalso. pose proof (go_quorum_pos (Z.of_nat (length (keys g))) ltac:(lia)). cbn [length] in Hq. lia. }
  exists (set_submitted e1). cbn [fst snd db]. split; [reflexivity|]. split; [exact Hrec|]. split.
  { intros ex Hex. destruct (Hold ex Hex) as (A & B & C & D). cbn [set_submitted our_vaa gs_snap submitted esigs]. rewrite Ev. repeat split; assumption. }
  split; [intros Hex; pose proof (Hnew Hex) as X; discriminate|].
  split; [intros G HG; apply Hsnap; exact HG|]. split; [intros; reflexivity|]. split.
  - intros _. destruct e as [ex|]; [|pose proof (Hnew eq_refl) as X; discriminate].
    destruct (Hold ex eq_refl) as (A & B & C & D). exists ex. split; [reflexivity|]. split; [rewrite <- A; discriminate|].
    split; [rewrite <- C; reflexivity|reflexivity].
  - intros x [<-|[<-|[]]]; reflexivity.
Qed.

(* ------------------------------------------------------------------ the C02 invariant *)
Hypothesis keccak_len : forall b, length (keccak b) = 32%nat.
Hypothesis own_len : length own = 20%nat.
Hypothesis sign_correct : forall d, length d = 32%nat -> rec d (sign d) = Some own.

Definition own_obs (o : obs) : Prop := o_addr o = own /\ o_sig o = sign (o_hash o) /\ length (o_hash o) = 32%nat.

(* per entry: if the node observed the message under set G of which it is a member, then either its own signature is still on
   its way (undelivered loopback for this digest) or "quorum of G recorded" implies "submitted" *)
Definition c02_entry (lq : list obs) (p : bytes * entry) : Prop :=
  forall G, our_vaa (snd p) <> None -> gs_snap (snd p) = Some G -> In own (keys G) ->
  (exists o, In o lq /\ o_hash o = fst p) \/
  (go_quorum (Z.of_nat (length (keys G))) <= nsigned G (esigs (snd p)) -> submitted (snd p) = true).

Record Inv2 (st : pstate) : Prop := {
  V_keys : NoDup (map fst (agg st));
  V_loop : Forall own_obs (loopq st);
  V_ent : Forall (c02_entry (loopq st)) (agg st) }.

Lemma bytes_to_address_own : bytes_to_address own = own.
Proof. unfold bytes_to_address. rewrite own_len. reflexivity. Qed.

Lemma memb_In a l : Processor.memb a l = true <-> In a l.
Proof. unfold Processor.memb. apply existsb_bytes. Qed.

(* an own observation whose entry carries the node's VAA under a set containing the node is always accepted *)
Lemma own_obs_accepted st o e G : own_obs o -> alookup (o_hash o) (agg st) = Some e -> gs_snap e = Some G -> In own (keys G) ->
  accepted st o = Some (own, G).
Proof.
  intros (H1 & H2 & H3) He HG Hin. unfold accepted, applicable. rewrite H2, (sign_correct _ H3), H1, bytes_to_address_own, bytes_eqb_refl.
  cbn [negb]. rewrite He, HG. apply memb_In in Hin. rewrite Hin. reflexivity.
Qed.

Lemma c02_entry_weaken lq lq' p : (forall o, In o lq -> o_hash o = fst p -> In o lq') -> c02_entry lq p -> c02_entry lq' p.
Proof.
  intros H Hc G H1 H2 H3. destruct (Hc G H1 H2 H3) as [(o & Ho & Hh)|Hr]; [left; exists o; split; [apply H; assumption|exact Hh]|right; exact Hr].
Qed.

(* handleObservation (delivery of a gossiped observation, or of a loopback already removed from the queue [lq]) *)
Lemma handle_obs_inv2 O L st o lq :
  Inv1 O L st -> NoDup (map fst (agg st)) ->
  Forall (fun p => fst p <> o_hash o -> c02_entry lq p) (agg st) ->
  (accepted st o = None -> Forall (c02_entry lq) (agg st)) ->
  NoDup (map fst (agg (fst (handle_obs st o)))) /\ Forall (c02_entry lq) (agg (fst (handle_obs st o))) /\ loopq (fst (handle_obs st o)) = loopq st.
Proof.
  intros HI ND Hoth Hrej. destruct (accepted st o) as [[a g]|] eqn:Eacc.
  - destruct (handle_obs_accepted O L st o a g HI Eacc) as (e' & Hst & _ & _ & _ & Hg & Hq & _ & _).
    rewrite Hst. cbn [agg loopq]. split; [apply NoDup_keys_aset; exact ND|]. split; [|reflexivity].
    apply Forall_forall. intros [h e2] Hin. apply in_aset_inv in Hin as [[-> ->]|[Hn Hin]].
    + intros G H1 H2 H3. right. cbn [snd] in *. rewrite (Hg G H2) in *. apply Hq. exact H1.
    + rewrite Forall_forall in Hoth. apply (Hoth _ Hin). exact Hn.
  - rewrite (handle_obs_rejected st o Eacc). cbn [fst]. split; [exact ND|]. split; [apply Hrej; reflexivity|reflexivity].
Qed.

Lemma broadcast_inv2 st v s tx chain : Inv2 st -> s = sign (dg v) ->
  Inv2 (fst (broadcast_signature st v s tx chain)).
Proof.
  intros [K1 K2 K3] Hs. unfold Processor.broadcast_signature. cbn [fst]. constructor; cbn [agg loopq].
  - apply NoDup_keys_aset. exact K1.
  - apply Forall_app. split; [exact K2|]. constructor; [|constructor]. repeat split; cbn [o_addr o_sig o_hash]; [exact Hs|].
    unfold Processor.dg, digest. apply keccak_len.
  - apply Forall_forall. intros [h e2] Hin. apply in_aset_inv in Hin as [[-> ->]|[Hn Hin]].
    + intros G _ _ _. left. eexists. split; [apply in_or_app; right; left; reflexivity|reflexivity].
    + rewrite Forall_forall in K3. eapply c02_entry_weaken; [|apply (K3 _ Hin)]. intros o Ho _. apply in_or_app. left. exact Ho.
Qed.

Lemma cleanup_all_inv2 st0 now lq : forall l, NoDup (map fst l) -> Forall (c02_entry lq) l ->
  NoDup (map fst (fst (cleanup_all st0 now l))) /\ Forall (c02_entry lq) (fst (cleanup_all st0 now l)).
Proof.
  induction l as [|[h e] l IH]; intros ND F; cbn [cleanup_all]; [split; constructor|].
  cbn [map fst] in ND. inversion ND as [|? ? Hn ND']; subst. inversion F as [|? ? He F']; subst.
  destruct (IH ND' F') as [I1 I2]. pose proof (cleanup_all_keys st0 now l) as Hk.
  destruct (cleanup_all st0 now l) as [t' o']. cbn [fst] in *.
  assert (Hn' : ~ In h (map fst t')) by (intros X; apply Hn; apply Hk; exact X).
  destruct (cleanup_entry now _ _ e) as [e' o| |] eqn:Ec; cbn [fst].
  - split; [cbn [map fst]; constructor; assumption|]. constructor; [|exact I2].
    (* the kept entry has the same VAA, snapshot, signatures and submitted flag *)
    assert (Hsame : our_vaa e' = our_vaa e /\ gs_snap e' = gs_snap e /\ esigs e' = esigs e /\ submitted e' = submitted e).
    { unfold cleanup_entry in Ec.
      destruct (negb (submitted e) && _ && _ && _); [discriminate|].
      destruct (negb (settled e) && _); [destruct (_ || _ || _); [inversion Ec; subst; repeat split|discriminate]|].
      destruct (submitted e && _); [discriminate|]. destruct (negb (submitted e) && _); [discriminate|].
      destruct (negb (submitted e) && _ && _).
      - destruct (our_msg e); [inversion Ec; subst; repeat split|destruct (_ && _); discriminate].
      - inversion Ec; subst. repeat split. }
    destruct Hsame as (S1 & S2 & S3 & S4). intros G H1 H2 H3. cbn [fst snd] in *. rewrite S1 in H1. rewrite S2 in H2. rewrite S3, S4.
    apply (He G H1 H2 H3).
  - split; assumption.
  - split; [cbn [map fst]; constructor; assumption|constructor; assumption].
Qed.

Lemma remove_nth_other {A} (l : list A) k x y : nth_error l k = Some x -> In y l -> y <> x -> In y (firstn k l ++ skipn (S k) l).
Proof.
  revert k. induction l as [|a l IH]; intros k Hk Hy Hne; [destruct Hy|].
  destruct k as [|k]; cbn [nth_error firstn skipn app] in *.
  - inversion Hk; subst. destruct Hy as [->|Hy]; [contradiction|exact Hy].
  - destruct Hy as [->|Hy]; [left; reflexivity|right; apply IH; assumption].
Qed.

Lemma remove_nth_incl {A} (l : list A) k : incl (firstn k l ++ skipn (S k) l) l.
Proof.
  intros y Hy. apply in_app_or in Hy as [Hy|Hy].
  - rewrite <- (firstn_skipn k l). apply in_or_app. left. exact Hy.
  - rewrite <- (firstn_skipn (S k) l). apply in_or_app. right. exact Hy.
Qed.

Lemma step_inv2 O L st o : Inv1 O L st -> Inv2 st -> Inv2 (fst (step st o)).
Proof.
  intros HI [K1 K2 K3]. destruct o as [g|t|m|v|ob|k|b|]; cbn [Processor.step].
  - constructor; cbn [fst agg loopq]; assumption.
  - constructor; cbn [fst agg loopq]; assumption.
  - unfold Processor.handle_message. destruct (cur st) as [g|]; [|constructor; assumption].
    destruct (_ && _); [constructor; assumption|].
    assert (Hgo : Inv2 (fst (broadcast_signature st (vaa_of_message (gidx g) m) (sign (dg (vaa_of_message (gidx g) m))) (m_tx m) true)))
      by (apply broadcast_inv2; [constructor; assumption|reflexivity]).
    destruct (dlookup _ _); [|exact Hgo].
    destruct (unmarshal _); [destruct (_ <? _); [constructor; assumption|exact Hgo]|].
    destruct proc_stored_unmarshal_failure_panics; [constructor; assumption|exact Hgo].
  - unfold Processor.handle_injection. apply broadcast_inv2; [constructor; assumption|reflexivity].
  - destruct (handle_obs_inv2 O L st ob (loopq st) HI K1) as (A & B & C).
    + eapply Forall_impl; [|exact K3]. intros p Hp _. exact Hp.
    + intros _. exact K3.
    + constructor; [exact A|rewrite C; exact K2|rewrite C; exact B].
  - destruct (nth_error (loopq st) k) as [ob|] eqn:Ek; [|constructor; assumption].
    set (lq := firstn k (loopq st) ++ skipn (S k) (loopq st)).
    set (st1 := {| cur := cur st; agg := agg st; db := db st; loopq := lq; clock := clock st |}).
    assert (HI1 : Inv1 O L st1) by (destruct HI; constructor; assumption).
    assert (Hob : own_obs ob) by (rewrite Forall_forall in K2; apply K2; eapply nth_error_In; exact Ek).
    destruct (handle_obs_inv2 O L st1 ob lq HI1 K1) as (A & B & C).
    + apply Forall_forall. intros p Hp Hne. rewrite Forall_forall in K3. eapply c02_entry_weaken; [|apply (K3 _ Hp)].
      intros o Ho Hh. apply (remove_nth_other _ _ ob); [exact Ek|exact Ho|]. intros ->. apply Hne. symmetry. exact Hh.
    + intros Hrej. apply Forall_forall. intros [h e] Hp. rewrite Forall_forall in K3.
      destruct (bytes_eqb_spec h (o_hash ob)) as [->|Hne].
      * (* the delivered own observation was rejected: then the entry's premises cannot hold *)
        intros G H1 H2 H3. exfalso. cbn [fst snd] in *.
        pose proof (alookup_of_In _ _ _ K1 Hp) as Hal.
        assert (accepted st1 ob = Some (own, G)) by (apply (own_obs_accepted st1 ob e G Hob); assumption). congruence.
      * eapply c02_entry_weaken; [|apply (K3 _ Hp)].
        intros o Ho Hh. apply (remove_nth_other _ _ ob); [exact Ek|exact Ho|]. intros ->. apply Hne. symmetry. exact Hh.
    + constructor; [exact A| |rewrite C; exact B]. rewrite C. cbn [st1 loopq].
      apply Forall_forall. intros y Hy. rewrite Forall_forall in K2. apply K2. apply (remove_nth_incl _ k). exact Hy.
  - unfold Processor.handle_inbound. destruct (unmarshal b); [|constructor; assumption]. destruct (cur st); [|constructor; assumption].
    destruct (_ =? _)%nat; [constructor; assumption|]. destruct (_ =? _)%nat; [constructor; assumption|].
    destruct (proc_inbound_below_quorum _ _); [constructor; assumption|]. destruct (verify_sigs _ _ _ _); cbn [negb]; [|constructor; assumption].
    destruct (dlookup _ _); constructor; cbn [fst agg loopq]; assumption.
  - unfold Processor.handle_cleanup. destruct (cleanup_all_inv2 st (clock st + 1) (loopq st) (agg st) K1 K3) as [A B].
    destruct (cleanup_all _ _ _) as [a o]. cbn [fst] in *. constructor; cbn [with_agg agg loopq]; assumption.
Qed.

Lemma init_inv2 : Inv2 init.
Proof. constructor; cbn; constructor. Qed.

Lemma run_inv2 : forall ops O L st, Inv1 O L st -> Inv2 st -> Forall ProcSpec.op_wf ops -> Inv2 (fst (run st ops)).
Proof.
  induction ops as [|o ops IH]; intros O L st HI H2 Hw; cbn [Processor.run]; [exact H2|].
  inversion Hw as [|? ? Hw1 Hw2]; subst.
  destruct (step_c01 recover keccak sign own gov_chain gov_addr O L st o HI Hw1) as [H1 _].
  pose proof (step_inv2 O L st o HI H2) as H3.
  destruct (step st o) as [st1 out1]. cbn [fst] in *.
  specialize (IH _ _ st1 H1 H3 Hw2). destruct (run st1 ops) as [st2 outs]. exact IH.
Qed.

(* C02 (i): in every reachable state — whatever the order, duplication and interleaving with invalid traffic of the events that
   led there — an entry for a message the node observed under a set G it belongs to, whose own signature has been delivered
   (no loopback for that digest is outstanding), and for which signatures of a quorum of G's members are recorded, is submitted *)
Theorem quorum_implies_published ops h e G : Forall ProcSpec.op_wf ops ->
  let st := fst (run init ops) in
  In (h, e) (agg st) -> our_vaa e <> None -> gs_snap e = Some G -> In own (keys G) ->
  (forall o, In o (loopq st) -> o_hash o <> h) ->
  go_quorum (Z.of_nat (length (keys G))) <= nsigned G (esigs e) -> submitted e = true.
Proof.
  intros Hw st Hin H1 H2 H3 Hlq Hq.
  pose proof (run_inv2 ops [] [] init (init_inv1 recover keccak) init_inv2 Hw) as [_ _ K3]. fold st in K3.
  rewrite Forall_forall in K3. destruct (K3 _ Hin G H1 H2 H3) as [(o & Ho & Hh)|Hr]; [exfalso; apply (Hlq o Ho Hh)|apply Hr; exact Hq].
Qed.
End C02.

(* ------------------------------------------------------------------ at most one publication per aggregation lifetime; what persists *)
Lemma cleanup_keep_same now indb ck e e' o : cleanup_entry now indb ck e = CKeep e' o ->
  our_vaa e' = our_vaa e /\ gs_snap e' = gs_snap e /\ esigs e' = esigs e /\ submitted e' = submitted e.
Proof.
  unfold cleanup_entry. intros Ec.
  destruct (negb (submitted e) && _ && _ && _); [discriminate|].
  destruct (negb (settled e) && _); [destruct (_ || _ || _); [inversion Ec; subst; repeat split|discriminate]|].
  destruct (submitted e && _); [discriminate|]. destruct (negb (submitted e) && _); [discriminate|].
  destruct (negb (submitted e) && _ && _).
  - destruct (our_msg e); [inversion Ec; subst; repeat split|destruct (_ && _); discriminate].
  - inversion Ec; subst. repeat split.
Qed.

Lemma alookup_notin {V} k (m : list (bytes * V)) : ~ In k (map fst m) -> alookup k m = None.
Proof.
  induction m as [|[k0 v0] m IH]; intros Hn; [reflexivity|]. cbn [alookup]. destruct (bytes_eqb_spec k k0) as [->|_].
  - exfalso. apply Hn. left. reflexivity.
  - apply IH. intros X. apply Hn. right. exact X.
Qed.

Lemma cleanup_all_alookup st now h e' : forall l, NoDup (map fst l) -> alookup h (fst (cleanup_all st now l)) = Some e' ->
  exists e, alookup h l = Some e /\ our_vaa e' = our_vaa e /\ gs_snap e' = gs_snap e /\ esigs e' = esigs e /\ submitted e' = submitted e.
Proof.
  induction l as [|[k e] l IH]; intros ND Hl; cbn [cleanup_all] in Hl; [discriminate|].
  cbn [map fst] in ND. inversion ND as [|? ? Hn ND']; subst. pose proof (cleanup_all_keys st now l) as Hk.
  destruct (cleanup_all st now l) as [t' o'] eqn:Ect. cbn [fst] in *.
  assert (Hnt : ~ In k (map fst t')) by (intros X; apply Hn; apply Hk; exact X).
  cbn [alookup]. destruct (bytes_eqb_spec h k) as [->|Hne].
  - destruct (cleanup_entry now _ _ e) as [e2 o| |] eqn:Ec; cbn [fst alookup] in Hl.
    + rewrite bytes_eqb_refl in Hl. inversion Hl; subst e2. exists e. split; [reflexivity|]. eapply cleanup_keep_same; exact Ec.
    + rewrite (alookup_notin _ _ Hnt) in Hl. discriminate.
    + rewrite bytes_eqb_refl in Hl. inversion Hl; subst. exists e'. repeat split.
  - apply IH; [exact ND'|]. destruct (cleanup_entry now _ _ e) as [e2 o| |]; cbn [fst alookup] in Hl;
      [destruct (bytes_eqb_spec h k); [contradiction|exact Hl]|exact Hl|destruct (bytes_eqb_spec h k); [contradiction|exact Hl]].
Qed.

Definition is_bcast (x : out) : bool := match x with SendVAA _ => true | _ => false end.

Section C02b.
Variable recover : bytes -> bytes -> option bytes.
Variable keccak : bytes -> bytes.
Variable sign : bytes -> bytes.
Variable own : addr.
Variable gov_chain : Z.
Variable gov_addr : bytes.

Notation rec := (Processor.rec recover).
Notation dg := (Processor.dg keccak).
Notation step := (Processor.step recover keccak sign own gov_chain gov_addr).
Notation run := (Processor.run recover keccak sign own gov_chain gov_addr).
Notation handle_obs := (Processor.handle_obs recover).
Notation Inv1 := (ProcC01Proofs.Inv1 recover keccak).
Notation accepted := (accepted recover).

Definition KeysND (st : pstate) : Prop := NoDup (map fst (agg st)).

Lemma handle_obs_keys O L st o : Inv1 O L st -> KeysND st -> KeysND (fst (handle_obs st o)).
Proof.
  intros HI ND. destruct (accepted st o) as [[a g]|] eqn:Ea.
  - destruct (handle_obs_accepted recover keccak O L st o a g HI Ea) as (e' & Hst & _). rewrite Hst. unfold KeysND. cbn [agg]. apply NoDup_keys_aset. exact ND.
  - rewrite (handle_obs_rejected recover st o Ea). exact ND.
Qed.

Lemma step_keys O L st o : Inv1 O L st -> KeysND st -> KeysND (fst (step st o)).
Proof.
  intros HI ND. destruct o as [g|t|m|v|ob|k|b|]; cbn [Processor.step]; try exact ND.
  - unfold Processor.handle_message. destruct (cur st); [|exact ND]. destruct (_ && _); [exact ND|].
    assert (Hgo : forall v s tx c, KeysND (fst (broadcast_signature keccak own st v s tx c))) by (intros; unfold KeysND; cbn [broadcast_signature fst agg]; apply NoDup_keys_aset; exact ND).
    destruct (dlookup _ _); [|apply Hgo]. destruct (unmarshal _); [destruct (_ <? _); [exact ND|apply Hgo]|].
    destruct proc_stored_unmarshal_failure_panics; [exact ND|apply Hgo].
  - unfold KeysND. cbn [handle_injection broadcast_signature fst agg]. apply NoDup_keys_aset. exact ND.
  - eapply handle_obs_keys; eassumption.
  - destruct (nth_error _ _); [|exact ND]. eapply (handle_obs_keys O L); [destruct HI; constructor; assumption|exact ND].
  - unfold Processor.handle_inbound. destruct (unmarshal b); [|exact ND]. destruct (cur st); [|exact ND].
    destruct (_ =? _)%nat; [exact ND|]. destruct (_ =? _)%nat; [exact ND|]. destruct (proc_inbound_below_quorum _ _); [exact ND|].
    destruct (verify_sigs _ _ _ _); cbn [negb]; [|exact ND]. destruct (dlookup _ _); exact ND.
  - unfold Processor.handle_cleanup. pose proof (cleanup_all_keys st (clock st + 1) (agg st)) as Hk.
    assert (NoDup (map fst (fst (cleanup_all st (clock st + 1) (agg st))))).
    { clear Hk. unfold KeysND in ND. revert ND. generalize (agg st) as l. induction l as [|[k e] l IH]; intros ND; cbn [cleanup_all]; [constructor|].
      cbn [map fst] in ND. inversion ND as [|? ? Hn ND']; subst. specialize (IH ND'). pose proof (cleanup_all_keys st (clock st + 1) l) as Hk.
      destruct (cleanup_all st (clock st + 1) l) as [t' o']. cbn [fst] in *.
      assert (Hnt : ~ In k (map fst t')) by (intros X; apply Hn; apply Hk; exact X).
      destruct (cleanup_entry _ _ _ e); cbn [fst map]; [constructor; assumption|exact IH|constructor; assumption]. }
    destruct (cleanup_all _ _ _) as [a o]. exact H.
Qed.

(* the observation a step delivers, if any *)
Definition obs_of_op (st : pstate) (o : op) : option obs :=
  match o with Obs ob => Some ob | Loopback k => nth_error (loopq st) k | _ => None end.

(* "this step broadcast a signed VAA for digest h" *)
Definition bcast_for (h : bytes) (st : pstate) (o : op) : bool :=
  match obs_of_op st o with
  | Some ob => bytes_eqb (o_hash ob) h && existsb is_bcast (snd (step st o))
  | None => false
  end.

(* a broadcast happens only when handling an observation, only from "observed, not yet submitted", and sets "submitted" *)
Lemma bcast_only_from_pending O L st o h : Inv1 O L st -> bcast_for h st o = true ->
  (exists e0, alookup h (agg st) = Some e0 /\ our_vaa e0 <> None /\ submitted e0 = false) /\
  (exists e', alookup h (agg (fst (step st o))) = Some e' /\ submitted e' = true).
Proof.
  intros HI. unfold bcast_for, obs_of_op.
  assert (Hcore : forall st1 ob, Inv1 O L st1 -> agg st1 = agg st -> existsb is_bcast (snd (handle_obs st1 ob)) = true ->
            (exists e0, alookup (o_hash ob) (agg st) = Some e0 /\ our_vaa e0 <> None /\ submitted e0 = false) /\
            (exists e', alookup (o_hash ob) (agg (fst (handle_obs st1 ob))) = Some e' /\ submitted e' = true)).
  { intros st1 ob HI1 Hag Hb. destruct (accepted st1 ob) as [[a g]|] eqn:Ea.
    - destruct (handle_obs_accepted recover keccak O L st1 ob a g HI1 Ea) as (e' & Hst & _ & _ & _ & _ & _ & Hp & _).
      assert (Hpub : existsb is_pub (snd (handle_obs st1 ob)) = true).
      { apply existsb_exists in Hb as (x & Hx & Hxb). apply existsb_exists. exists x. split; [exact Hx|]. destruct x; try discriminate. reflexivity. }
      destruct (Hp Hpub) as (e0 & H1 & H2 & H3 & H4). rewrite Hag in H1. split; [exists e0; auto|].
      exists e'. rewrite Hst. cbn [agg]. rewrite alookup_aset, bytes_eqb_refl. split; [reflexivity|exact H4].
    - rewrite (handle_obs_rejected recover st1 ob Ea) in Hb. discriminate. }
  destruct o as [g|t|m|v|ob|k|b|]; try discriminate.
  - intros Hb. apply andb_prop in Hb as [Hh Hb]. apply bytes_eqb_eq in Hh. subst h. cbn [Processor.step] in *. apply (Hcore st ob HI eq_refl Hb).
  - cbn [Processor.step]. destruct (nth_error (loopq st) k) as [ob|]; [|discriminate].
    intros Hb. apply andb_prop in Hb as [Hh Hb]. apply bytes_eqb_eq in Hh. subst h.
    match type of Hb with context [handle_obs ?s ob] => apply (Hcore s ob) end; [destruct HI; constructor; assumption|reflexivity|exact Hb].
Qed.

(* "submitted" and the recorded signatures of an entry persist as long as the entry lives *)
Lemma step_entry_persists O L st o h e e' : Inv1 O L st -> KeysND st ->
  alookup h (agg st) = Some e -> alookup h (agg (fst (step st o))) = Some e' ->
  (submitted e = true -> submitted e' = true) /\ (forall a, alookup a (esigs e) <> None -> alookup a (esigs e') <> None).
Proof.
  intros HI ND He He'.
  assert (Hsame : e' = e -> (submitted e = true -> submitted e' = true) /\ (forall a, alookup a (esigs e) <> None -> alookup a (esigs e') <> None))
    by (intros ->; split; auto).
  assert (Hobs : forall st1 ob, Inv1 O L st1 -> agg st1 = agg st -> alookup h (agg (fst (handle_obs st1 ob))) = Some e' ->
            (submitted e = true -> submitted e' = true) /\ (forall a, alookup a (esigs e) <> None -> alookup a (esigs e') <> None)).
  { intros st1 ob HI1 Hag Hl. destruct (accepted st1 ob) as [[a g]|] eqn:Ea.
    - destruct (handle_obs_accepted recover keccak O L st1 ob a g HI1 Ea) as (e2 & Hst & _ & Hold & _).
      rewrite Hst in Hl. cbn [agg] in Hl. rewrite alookup_aset in Hl. destruct (bytes_eqb_spec h (o_hash ob)) as [->|Hne].
      + inversion Hl; subst e2. rewrite Hag in Hold. destruct (Hold e He) as (_ & _ & A & B). split; assumption.
      + rewrite Hag in Hl. apply Hsame. congruence.
    - rewrite (handle_obs_rejected recover st1 ob Ea) in Hl. cbn [fst] in Hl. rewrite Hag in Hl. apply Hsame. congruence. }
  assert (Hbc : forall v s tx c, alookup h (agg (fst (broadcast_signature keccak own st v s tx c))) = Some e' ->
            (submitted e = true -> submitted e' = true) /\ (forall a, alookup a (esigs e) <> None -> alookup a (esigs e') <> None)).
  { intros v s tx c Hl. cbn [broadcast_signature fst agg] in Hl. rewrite alookup_aset in Hl.
    destruct (bytes_eqb_spec h (Processor.dg keccak v)) as [->|Hne]; [|apply Hsame; congruence].
    rewrite He in Hl. inversion Hl; subst e'. cbn [set_own submitted esigs]. split; auto. }
  destruct o as [g|t|m|v|ob|k|b|]; cbn [Processor.step] in He'.
  - apply Hsame. cbn [fst agg] in He'. congruence.
  - apply Hsame. cbn [fst agg] in He'. congruence.
  - unfold Processor.handle_message in He'. destruct (cur st); [|apply Hsame; cbn [fst] in He'; congruence].
    destruct (_ && _); [apply Hsame; cbn [fst] in He'; congruence|].
    destruct (dlookup _ _); [|eapply Hbc; exact He'].
    destruct (unmarshal _); [destruct (_ <? _); [apply Hsame; cbn [fst] in He'; congruence|eapply Hbc; exact He']|].
    destruct proc_stored_unmarshal_failure_panics; [apply Hsame; cbn [fst] in He'; congruence|eapply Hbc; exact He'].
  - eapply Hbc. exact He'.
  - apply (Hobs st ob HI eq_refl He').
  - destruct (nth_error _ _) as [ob|]; [|apply Hsame; cbn [fst] in He'; congruence].
    match type of He' with context [handle_obs ?s ob] => apply (Hobs s ob) end; [destruct HI; constructor; assumption|reflexivity|exact He'].
  - unfold Processor.handle_inbound in He'. apply Hsame.
    destruct (unmarshal b); [|cbn [fst] in He'; congruence]. destruct (cur st); [|cbn [fst] in He'; congruence].
    destruct (_ =? _)%nat; [cbn [fst] in He'; congruence|]. destruct (_ =? _)%nat; [cbn [fst] in He'; congruence|].
    destruct (proc_inbound_below_quorum _ _); [cbn [fst] in He'; congruence|]. destruct (verify_sigs _ _ _ _); cbn [negb] in He'; [|cbn [fst] in He'; congruence].
    destruct (dlookup _ _); cbn [fst agg] in He'; congruence.
  - unfold Processor.handle_cleanup in He'. destruct (cleanup_all st (clock st + 1) (agg st)) as [a o] eqn:Ec. cbn [fst with_agg agg] in He'.
    assert (Ha : a = fst (cleanup_all st (clock st + 1) (agg st))) by (rewrite Ec; reflexivity). rewrite Ha in He'.
    destruct (cleanup_all_alookup st (clock st + 1) h e' (agg st) ND He') as (e0 & H0 & _ & _ & H3 & H4).
    assert (e0 = e) by congruence. subst e0. rewrite H3, H4. split; auto.
Qed.

(* along any continuation: while the entry of h lives, a submitted entry stays submitted and nothing is broadcast for h again *)
Fixpoint quiet_while_alive (h : bytes) (st : pstate) (ops : list op) : Prop :=
  match ops with
  | [] => True
  | o :: t => bcast_for h st o = false /\ (alookup h (agg (fst (step st o))) <> None -> quiet_while_alive h (fst (step st o)) t)
  end.

Theorem no_second_broadcast h : forall ops O L st e, Inv1 O L st -> KeysND st -> Forall ProcSpec.op_wf ops ->
  alookup h (agg st) = Some e -> submitted e = true -> quiet_while_alive h st ops.
Proof.
  induction ops as [|o ops IH]; intros O L st e HI ND Hw He Hs; cbn [quiet_while_alive]; [exact I|].
  inversion Hw as [|? ? Hw1 Hw2]; subst. split.
  - destruct (bcast_for h st o) eqn:Eb; [|reflexivity]. exfalso.
    destruct (bcast_only_from_pending O L st o h HI Eb) as [(e0 & H1 & _ & H3) _]. congruence.
  - intros Hal. destruct (alookup h (agg (fst (step st o)))) as [e'|] eqn:He'; [|contradiction].
    destruct (step_c01 recover keccak sign own gov_chain gov_addr O L st o HI Hw1) as [HI' _].
    destruct (step_entry_persists O L st o h e e' HI ND He He') as [Hs' _].
    eapply IH; [exact HI'|eapply step_keys; eassumption|exact Hw2|exact He'|apply Hs'; exact Hs].
Qed.

Lemma run_keys : forall ops O L st, Inv1 O L st -> KeysND st -> Forall ProcSpec.op_wf ops -> KeysND (fst (run st ops)).
Proof.
  induction ops as [|o ops IH]; intros O L st HI ND Hw; cbn [Processor.run]; [exact ND|].
  inversion Hw as [|? ? Hw1 Hw2]; subst.
  destruct (step_c01 recover keccak sign own gov_chain gov_addr O L st o HI Hw1) as [H1 _].
  pose proof (step_keys O L st o HI ND) as H3.
  destruct (step st o) as [st1 out1]. cbn [fst] in *.
  specialize (IH _ _ st1 H1 H3 Hw2). destruct (run st1 ops) as [st2 outs]. exact IH.
Qed.

Lemma reachable_invariants ops : Forall ProcSpec.op_wf ops ->
  (exists O, Inv1 O (ProcSpec.learned [] ops) (fst (run init ops))) /\ KeysND (fst (run init ops)).
Proof.
  intros Hw. split.
  - exact (run_inv1 recover keccak sign own gov_chain gov_addr ops [] [] init (init_inv1 recover keccak) Hw).
  - apply (run_keys ops [] [] init (init_inv1 recover keccak)); [constructor|exact Hw].
Qed.

(* an accepted observation is recorded in the entry of its digest *)
Lemma accepted_is_recorded O L st o a g : Inv1 O L st -> accepted st o = Some (a, g) ->
  exists e', alookup (o_hash o) (agg (fst (handle_obs st o))) = Some e' /\ alookup a (esigs e') = Some (o_sig o).
Proof.
  intros HI Ea. destruct (handle_obs_accepted recover keccak O L st o a g HI Ea) as (e' & Hst & Hr & _).
  exists e'. rewrite Hst. cbn [agg]. rewrite alookup_aset, bytes_eqb_refl. split; [reflexivity|exact Hr].
Qed.

(* observing the same message again (under any set index) yields the same digest, hence the same aggregation entry *)
Lemma reobserve_same_digest i j m : dg (vaa_of_message i m) = dg (vaa_of_message j m).
Proof. reflexivity. Qed.

(* a chain observation naming the governance emitter is never signed: no output, no state change *)
Lemma governance_emitter_dropped st m : m_eaddr m = gov_addr -> m_echain m = gov_chain ->
  Processor.handle_message keccak sign own gov_chain gov_addr st m = (st, []).
Proof.
  intros Ha Hc. unfold Processor.handle_message. destruct (cur st); [|reflexivity].
  cbn [vaa_of_message eaddr echain]. rewrite Ha, Hc, bytes_eqb_refl, Z.eqb_refl. reflexivity.
Qed.

(* the published body is the body of the node's own observation *)
Lemma published_body_is_own v sg : body (set_sigs v sg) = body v.
Proof. reflexivity. Qed.
End C02b.

(* ------------------------------------------------------------------ order independence, over whole histories *)
Lemma filter_length_ge {A} (f : A -> bool) (eq_dec : forall x y : A, {x = y} + {x <> y}) (sub l : list A) :
  NoDup sub -> incl sub l -> (forall a, In a sub -> f a = true) -> (length sub <= length (filter f l))%nat.
Proof.
  intros ND Hin Hf. apply NoDup_incl_length; [exact ND|]. intros a Ha. apply filter_In. split; [apply Hin; exact Ha|apply Hf; exact Ha].
Qed.

Section C02c.
Variable recover : bytes -> bytes -> option bytes.
Variable keccak : bytes -> bytes.
Variable sign : bytes -> bytes.
Variable own : addr.
Variable gov_chain : Z.
Variable gov_addr : bytes.

Notation rec := (Processor.rec recover).
Notation step := (Processor.step recover keccak sign own gov_chain gov_addr).
Notation run := (Processor.run recover keccak sign own gov_chain gov_addr).
Notation handle_obs := (Processor.handle_obs recover).
Notation Inv1 := (ProcC01Proofs.Inv1 recover keccak).
Notation accepted := (accepted recover).

(* the entry of digest h exists in the current state and in every later state of the run *)
Fixpoint alive_along (h : bytes) (st : pstate) (ops : list op) : Prop :=
  match ops with
  | [] => alookup h (agg st) <> None
  | o :: t => alookup h (agg st) <> None /\ alive_along h (fst (step st o)) t
  end.

(* somewhere in the run an observation of digest h by address a was delivered (gossip or loopback) and accepted — i.e. it carried a
   valid signature of a member of the set applicable at that moment — and the entry of h has existed ever since *)
Fixpoint accepted_and_alive (h : bytes) (a : addr) (st : pstate) (ops : list op) : Prop :=
  match ops with
  | [] => False
  | o :: t =>
    ((exists ob g, obs_of_op st o = Some ob /\ o_hash ob = h /\ accepted st ob = Some (a, g)) /\ alive_along h (fst (step st o)) t)
    \/ accepted_and_alive h a (fst (step st o)) t
  end.

Lemma recorded_stays h a : forall ops O L st e, Inv1 O L st -> KeysND st -> Forall ProcSpec.op_wf ops ->
  alookup h (agg st) = Some e -> alookup a (esigs e) <> None -> alive_along h st ops ->
  exists e', alookup h (agg (fst (run st ops))) = Some e' /\ alookup a (esigs e') <> None.
Proof.
  induction ops as [|o ops IH]; intros O L st e HI ND Hw He Ha Hal; cbn [Processor.run].
  - exists e. split; assumption.
  - inversion Hw as [|? ? Hw1 Hw2]; subst. cbn [alive_along] in Hal. destruct Hal as [_ Hal].
    destruct (step_c01 recover keccak sign own gov_chain gov_addr O L st o HI Hw1) as [HI' _].
    pose proof (step_keys recover keccak sign own gov_chain gov_addr O L st o HI ND) as ND'.
    assert (Hsome : alookup h (agg (fst (step st o))) <> None) by (destruct ops; cbn [alive_along] in Hal; tauto).
    destruct (alookup h (agg (fst (step st o)))) as [e1|] eqn:He1; [|contradiction].
    destruct (step_entry_persists recover keccak sign own gov_chain gov_addr O L st o h e e1 HI ND He He1) as [_ Hp].
    destruct (step st o) as [st1 out1] eqn:Es. cbn [fst] in *.
    destruct (IH _ _ st1 e1 HI' ND' Hw2 He1 (Hp a Ha) Hal) as (e' & H1 & H2).
    destruct (run st1 ops) as [st2 outs]. cbn [fst] in *. exists e'. split; assumption.
Qed.

Lemma accepted_and_alive_recorded h a : forall ops O L st, Inv1 O L st -> KeysND st -> Forall ProcSpec.op_wf ops ->
  accepted_and_alive h a st ops ->
  exists e', alookup h (agg (fst (run st ops))) = Some e' /\ alookup a (esigs e') <> None.
Proof.
  induction ops as [|o ops IH]; intros O L st HI ND Hw Hacc; cbn [accepted_and_alive] in Hacc; [contradiction|].
  inversion Hw as [|? ? Hw1 Hw2]; subst.
  destruct (step_c01 recover keccak sign own gov_chain gov_addr O L st o HI Hw1) as [HI' _].
  pose proof (step_keys recover keccak sign own gov_chain gov_addr O L st o HI ND) as ND'.
  cbn [Processor.run]. destruct Hacc as [[(ob & g & Hob & Hh & Ha) Hal]|Hlater].
  - (* accepted at this step: recorded in the state after it *)
    assert (Hrec : exists e1, alookup h (agg (fst (step st o))) = Some e1 /\ alookup a (esigs e1) <> None).
    { destruct o as [g0|t|m|v|ob0|k|b|]; cbn [obs_of_op] in Hob; try discriminate.
      - inversion Hob; subst ob0. cbn [Processor.step]. subst h.
        destruct (accepted_is_recorded recover keccak O L st ob a g HI Ha) as (e1 & H1 & H2). exists e1. split; [exact H1|rewrite H2; discriminate].
      - cbn [Processor.step]. rewrite Hob. subst h.
        match goal with |- context [handle_obs ?s ob] =>
          assert (HIs : Inv1 O L s) by (destruct HI; constructor; assumption);
          assert (Has : accepted s ob = Some (a, g)) by exact Ha;
          destruct (accepted_is_recorded recover keccak O L s ob a g HIs Has) as (e1 & H1 & H2) end.
        exists e1. split; [exact H1|rewrite H2; discriminate]. }
    destruct Hrec as (e1 & H1 & H2).
    destruct (step st o) as [st1 out1] eqn:Es. cbn [fst] in *.
    destruct (recorded_stays h a ops _ _ st1 e1 HI' ND' Hw2 H1 H2 Hal) as (e' & H3 & H4).
    destruct (run st1 ops) as [st2 outs]. cbn [fst] in *. exists e'. split; assumption.
  - destruct (step st o) as [st1 out1] eqn:Es. cbn [fst] in *.
    destruct (IH _ _ st1 HI' ND' Hw2 Hlater) as (e' & H3 & H4).
    destruct (run st1 ops) as [st2 outs]. cbn [fst] in *. exists e'. split; assumption.
Qed.

Hypothesis keccak_len : forall b, length (keccak b) = 32%nat.
Hypothesis own_len : length own = 20%nat.
Hypothesis sign_correct : forall d, length d = 32%nat -> rec d (sign d) = Some own.

(* C02 (iv): whatever the order, duplication and interleaving with other traffic: if the history contains accepted observations
   of the digest by at least quorum pairwise distinct members of the set G under which the node observed the message (each followed by
   an uninterrupted life of the entry), the node is a member of G and its own signature is no longer on its way, then the VAA has
   been published *)
Theorem order_independent_publication ops h e G (signers : list addr) : Forall ProcSpec.op_wf ops ->
  let st := fst (run init ops) in
  In (h, e) (agg st) -> our_vaa e <> None -> gs_snap e = Some G -> In own (keys G) ->
  (forall o, In o (loopq st) -> o_hash o <> h) ->
  NoDup signers -> incl signers (keys G) -> go_quorum (Z.of_nat (length (keys G))) <= Z.of_nat (length signers) ->
  (forall a, In a signers -> accepted_and_alive h a init ops) ->
  submitted e = true.
Proof.
  intros Hw st Hin H1 H2 H3 Hlq ND Hincl Hq Hacc.
  eapply (quorum_implies_published recover keccak sign own gov_chain gov_addr keccak_len own_len sign_correct ops h e G Hw Hin H1 H2 H3 Hlq).
  destruct (reachable_invariants recover keccak sign own gov_chain gov_addr ops Hw) as [_ HK]. fold st in HK.
  pose proof (alookup_of_In _ _ _ HK Hin) as Hal.
  assert (Hhas : forall a, In a signers -> has (esigs e) a = true).
  { intros a Ha. destruct (accepted_and_alive_recorded h a ops [] [] init (init_inv1 recover keccak) ltac:(constructor) Hw (Hacc a Ha)) as (e' & E1 & E2).
    fold st in E1. assert (e' = e) by congruence. subst e'. unfold has. destruct (alookup a (esigs e)); [reflexivity|contradiction]. }
  unfold nsigned.
  pose proof (filter_length_ge (has (esigs e)) (list_eq_dec Byte.byte_eq_dec) signers (keys G) ND Hincl Hhas). lia.
Qed.
End C02c.
