(* Proofs about lib/Keccak.v, for ALL inputs: 64-bit lane discipline through every step of Keccak-f and of the sponge, padding
   (positive multiple of the rate, injective), block structure, output length; plus known-answer vectors by vm_compute
   (expected values produced by x/crypto/sha3.NewLegacyKeccak256; the same vectors are re-produced by the Go harness on every run). *)
From Coq Require Import List NArith ZArith Arith Bool Lia.
From Coq Require Import Strings.Byte.
From WH Require Import lib.Bytes lib.Keccak.
Import ListNotations.

(* ------------------------------------------------------------------------------------------------ 64-bit words *)
Definition w64 (x : N) : Prop := (x < 2 ^ 64)%N.

Lemma w64_bits x : w64 x <-> (forall m, (64 <= m)%N -> N.testbit x m = false).
Proof.
  unfold w64. split.
  - intros Hx m Hm. destruct (N.eq_dec x 0) as [->|Hnz]; [apply N.bits_0|].
    apply N.bits_above_log2. apply N.log2_lt_pow2 in Hx; lia.
  - intros Hb. assert (E : x = (x mod 2 ^ 64)%N).
    { apply N.bits_inj. intros m. destruct (N.lt_ge_cases m 64) as [Hlt|Hge].
      - rewrite N.mod_pow2_bits_low by exact Hlt. reflexivity.
      - rewrite N.mod_pow2_bits_high by exact Hge. apply Hb. exact Hge. }
    rewrite E. apply N.mod_lt. discriminate.
Qed.

Lemma w64_0 : w64 0.
Proof. reflexivity. Qed.

Lemma w64_lxor a b : w64 a -> w64 b -> w64 (N.lxor a b).
Proof.
  rewrite !w64_bits. intros Ha Hb m Hm. rewrite N.lxor_spec, Ha, Hb by exact Hm. reflexivity.
Qed.

Lemma w64_lor a b : w64 a -> w64 b -> w64 (N.lor a b).
Proof.
  rewrite !w64_bits. intros Ha Hb m Hm. rewrite N.lor_spec, Ha, Hb by exact Hm. reflexivity.
Qed.

Lemma w64_ldiff a b : w64 a -> w64 (N.ldiff a b).
Proof.
  rewrite !w64_bits. intros Ha m Hm. rewrite N.ldiff_spec, Ha by exact Hm. reflexivity.
Qed.

Lemma w64_land_r a b : w64 b -> w64 (N.land a b).
Proof.
  rewrite !w64_bits. intros Hb m Hm. rewrite N.land_spec, Hb by exact Hm. apply andb_false_r.
Qed.

Lemma w64_shiftr a k : w64 a -> w64 (N.shiftr a k).
Proof.
  rewrite !w64_bits. intros Ha m Hm. rewrite N.shiftr_spec'. apply Ha. lia.
Qed.

Lemma mask64_ones : mask64 = N.ones 64.
Proof. reflexivity. Qed.

Lemma w64_mask64 : w64 mask64.
Proof. reflexivity. Qed.

(* masking is reduction modulo 2^64, i.e. what a 64-bit register does *)
Lemma land_mask64 x : N.land x mask64 = (x mod 2 ^ 64)%N.
Proof. rewrite mask64_ones. apply N.land_ones. Qed.

Lemma land_mask64_small x : w64 x -> N.land x mask64 = x.
Proof. intros Hx. rewrite land_mask64. apply N.mod_small. exact Hx. Qed.

(* the rotation is Go's bits.RotateLeft64: x<<r | x>>(64-r) on uint64 *)
Lemma rotl_machine x r : rotl x r = N.lor ((x * 2 ^ r) mod 2 ^ 64)%N (x / 2 ^ (64 - r))%N.
Proof. unfold rotl. rewrite land_mask64, N.shiftl_mul_pow2, N.shiftr_div_pow2. reflexivity. Qed.

Lemma rotl_w64 x r : w64 x -> w64 (rotl x r).
Proof.
  intros Hx. unfold rotl. apply w64_lor; [apply w64_land_r, w64_mask64|apply w64_shiftr, Hx].
Qed.

(* the two halves of a rotation never overlap, so the `or` is also a sum (no bit is produced twice or lost) *)
Lemma rotl_disjoint x r : w64 x -> (r <= 64)%N ->
  N.land (N.land (N.shiftl x r) mask64) (N.shiftr x (64 - r)) = 0%N.
Proof.
  intros Hx Hr. apply N.bits_inj. intros m. rewrite N.bits_0, !N.land_spec, N.shiftr_spec'.
  destruct (N.lt_ge_cases m r) as [Hlt|Hge].
  - rewrite N.shiftl_spec_low by exact Hlt. reflexivity.
  - rewrite w64_bits in Hx. rewrite (Hx (m + (64 - r))%N) by lia. apply andb_false_r.
Qed.

Lemma rotl_sum x r : w64 x -> (r <= 64)%N ->
  rotl x r = ((x * 2 ^ r) mod 2 ^ 64 + x / 2 ^ (64 - r))%N.
Proof.
  intros Hx Hr. rewrite rotl_machine.
  pose proof (rotl_disjoint x r Hx Hr) as D. rewrite land_mask64, N.shiftl_mul_pow2, N.shiftr_div_pow2 in D.
  rewrite <- N.lxor_lor by exact D. symmetry. apply N.add_nocarry_lxor. exact D.
Qed.

(* bit view: bit m of the result is bit (m - r) mod 64 of the argument *)
Lemma rotl_bits x r m : w64 x -> (r < 64)%N -> (m < 64)%N ->
  N.testbit (rotl x r) m = N.testbit x (if (m <? r)%N then m + 64 - r else m - r)%N.
Proof.
  intros Hx Hr Hm. unfold rotl. rewrite N.lor_spec, N.land_spec, N.shiftr_spec'.
  rewrite mask64_ones, N.ones_spec_low by exact Hm. rewrite andb_true_r.
  destruct (N.ltb_spec m r) as [Hlt|Hge].
  - rewrite N.shiftl_spec_low by exact Hlt. cbn [orb]. f_equal. lia.
  - rewrite N.shiftl_spec_high' by exact Hge. rewrite w64_bits in Hx. rewrite (Hx (m + (64 - r))%N) by lia.
    apply orb_false_r.
Qed.

(* ------------------------------------------------------------------------------------------------ lists of lanes *)
Lemma nthN_w64 l i : Forall w64 l -> w64 (nthN l i).
Proof.
  intros Hl. unfold nthN. destruct (Nat.lt_ge_cases i (length l)) as [Hlt|Hge].
  - apply Forall_nth; assumption.
  - rewrite nth_overflow by exact Hge. exact w64_0.
Qed.

Lemma Forall_map_all {A} (f : A -> N) (l : list A) : (forall a, w64 (f a)) -> Forall w64 (map f l).
Proof. intros Hf. apply Forall_map. apply Forall_forall. intros a _. apply Hf. Qed.

(* ---- theta *)
Lemma theta_length a : length a = 25%nat -> length (theta a) = 25%nat.
Proof.
  intros Ha. unfold theta. rewrite map_length, combine_length, Ha. reflexivity.
Qed.

Lemma theta_w64 a : Forall w64 a -> Forall w64 (theta a).
Proof.
  intros Ha. unfold theta.
  set (c := map _ theta_cols).
  assert (Hc : Forall w64 c).
  { apply Forall_map_all. intros x. repeat apply w64_lxor; apply nthN_w64, Ha. }
  set (d := map _ theta_d_src).
  assert (Hd : Forall w64 d).
  { apply Forall_map_all. intros p. apply w64_lxor; [|apply rotl_w64]; apply nthN_w64, Hc. }
  apply Forall_map. apply Forall_forall. intros [x k] Hin. cbn [fst snd].
  apply w64_lxor; [|apply nthN_w64, Hd].
  apply in_combine_l in Hin. rewrite Forall_forall in Ha. apply Ha, Hin.
Qed.

(* ---- rho + pi *)
Lemma rho_pi_length a : length (rho_pi a) = 25%nat.
Proof. unfold rho_pi. rewrite map_length. reflexivity. Qed.

Lemma rho_pi_w64 a : Forall w64 a -> Forall w64 (rho_pi a).
Proof. intros Ha. unfold rho_pi. apply Forall_map_all. intros p. apply rotl_w64, nthN_w64, Ha. Qed.

(* ---- chi *)
Lemma chi_length b : length (chi b) = 25%nat.
Proof. unfold chi. rewrite map_length. reflexivity. Qed.

Lemma chi_w64 b : Forall w64 b -> Forall w64 (chi b).
Proof.
  intros Hb. unfold chi. apply Forall_map_all. intros t.
  apply w64_lxor; [|apply w64_ldiff]; apply nthN_w64, Hb.
Qed.

(* ---- iota *)
Lemma iota_length rc a : length (iota rc a) = length a.
Proof. destruct a; reflexivity. Qed.

Lemma iota_w64 rc a : w64 rc -> Forall w64 a -> Forall w64 (iota rc a).
Proof.
  intros Hrc Ha. destruct a as [|a0 t]; [constructor|]. cbn [iota].
  inversion Ha as [|? ? H0 Ht]; subst. constructor; [apply w64_lxor; assumption|exact Ht].
Qed.

(* ---- one round, 24 rounds *)
Definition state_ok (a : list N) : Prop := length a = 25%nat /\ Forall w64 a.

Lemma round_ok a rc : w64 rc -> state_ok a -> state_ok (keccak_round a rc).
Proof.
  intros Hrc [Hl Hw]. unfold keccak_round. split.
  - rewrite iota_length. apply chi_length.
  - apply iota_w64; [exact Hrc|]. apply chi_w64, rho_pi_w64, theta_w64, Hw.
Qed.

Lemma round_constants_w64 : Forall w64 round_constants.
Proof. unfold round_constants. repeat constructor. Qed.

Lemma round_constants_count : length round_constants = 24%nat.
Proof. reflexivity. Qed.

Lemma fold_rounds_ok rcs : Forall w64 rcs -> forall a, state_ok a -> state_ok (fold_left keccak_round rcs a).
Proof.
  induction rcs as [|rc rcs IH]; intros Hrcs a Ha; [exact Ha|].
  inversion Hrcs as [|? ? H1 H2]; subst. cbn [fold_left]. apply IH; [exact H2|]. apply round_ok; assumption.
Qed.

Lemma keccak_f_ok a : state_ok a -> state_ok (keccak_f a).
Proof. apply fold_rounds_ok, round_constants_w64. Qed.

(* ------------------------------------------------------------------------------------------------ bytes <-> lanes *)
Lemma bN_lt b : (bN b < 256)%N.
Proof. unfold bN. pose proof (Byte.to_N_bounded b). lia. Qed.

Lemma lane8_w64 b0 b1 b2 b3 b4 b5 b6 b7 : w64 (lane8 b0 b1 b2 b3 b4 b5 b6 b7).
Proof.
  unfold w64, lane8. change (2 ^ 64)%N with 18446744073709551616%N.
  pose proof (bN_lt b0); pose proof (bN_lt b1); pose proof (bN_lt b2); pose proof (bN_lt b3).
  pose proof (bN_lt b4); pose proof (bN_lt b5); pose proof (bN_lt b6); pose proof (bN_lt b7). lia.
Qed.

Lemma lanes_unfold b0 b1 b2 b3 b4 b5 b6 b7 t :
  lanes (b0 :: b1 :: b2 :: b3 :: b4 :: b5 :: b6 :: b7 :: t) = lane8 b0 b1 b2 b3 b4 b5 b6 b7 :: lanes t.
Proof. reflexivity. Qed.

Lemma lanes_w64_n : forall n l, (length l <= n)%nat -> Forall w64 (lanes l).
Proof.
  induction n as [n IH] using lt_wf_ind. intros l Hl.
  destruct l as [|b0 [|b1 [|b2 [|b3 [|b4 [|b5 [|b6 [|b7 t]]]]]]]]; try (cbn [lanes]; constructor).
  - apply lane8_w64.
  - apply (IH (length t)); [cbn [length] in Hl; lia|lia].
Qed.

Lemma lanes_w64 l : Forall w64 (lanes l).
Proof. apply (lanes_w64_n (length l)). lia. Qed.

Lemma lanes_length : forall n l, length l = (8 * n)%nat -> length (lanes l) = n.
Proof.
  induction n as [|n IH]; intros l Hl.
  - destruct l; [reflexivity|discriminate].
  - destruct l as [|b0 [|b1 [|b2 [|b3 [|b4 [|b5 [|b6 [|b7 t]]]]]]]]; cbn [length] in Hl; try lia.
    rewrite lanes_unfold. cbn [length]. f_equal. apply IH. lia.
Qed.

Lemma lane_bytes_length x : length (lane_bytes x) = 8%nat.
Proof. reflexivity. Qed.

Lemma flat_lane_bytes_length l : length (flat_map lane_bytes l) = (8 * length l)%nat.
Proof.
  induction l as [|x l IH]; [reflexivity|].
  cbn [flat_map]. rewrite app_length, lane_bytes_length, IH. cbn [length]. lia.
Qed.

(* ------------------------------------------------------------------------------------------------ absorbing *)
Lemma xor_lanes_length : forall st ls, length (xor_lanes st ls) = length st.
Proof.
  induction st as [|s st IH]; intros [|l ls]; cbn [xor_lanes length]; try reflexivity.
  f_equal. apply IH.
Qed.

Lemma xor_lanes_w64 : forall st ls, Forall w64 st -> Forall w64 ls -> Forall w64 (xor_lanes st ls).
Proof.
  induction st as [|s st IH]; intros [|l ls] Hs Hl; cbn [xor_lanes]; try assumption.
  inversion Hs as [|? ? Hs1 Hs2]; inversion Hl as [|? ? Hl1 Hl2]; subst.
  constructor; [apply w64_lxor; assumption|apply IH; assumption].
Qed.

(* the capacity part of the state (everything beyond the lanes of the block) is not touched by the xor *)
Lemma xor_lanes_capacity : forall st ls, (length ls <= length st)%nat ->
  skipn (length ls) (xor_lanes st ls) = skipn (length ls) st.
Proof.
  induction st as [|s st IH]; intros [|l ls] Hl; cbn [xor_lanes length skipn]; try reflexivity.
  apply IH. cbn [length] in Hl. lia.
Qed.

Lemma absorb_ok st blk : state_ok st -> state_ok (absorb st blk).
Proof.
  intros [Hl Hw]. unfold absorb. apply keccak_f_ok. split.
  - rewrite xor_lanes_length. exact Hl.
  - apply xor_lanes_w64; [exact Hw|apply lanes_w64].
Qed.

Lemma zero_state_ok : state_ok zero_state.
Proof. split; [reflexivity|]. unfold zero_state. apply Forall_forall. intros x Hx. apply repeat_spec in Hx. subst. exact w64_0. Qed.

Lemma fold_absorb_ok bs : forall st, state_ok st -> state_ok (fold_left absorb bs st).
Proof.
  induction bs as [|b bs IH]; intros st Hst; [exact Hst|]. cbn [fold_left]. apply IH, absorb_ok, Hst.
Qed.

(* every intermediate state of the sponge, for every message, is 25 lanes each below 2^64 *)
Lemma sponge_ok m : state_ok (sponge m).
Proof. unfold sponge. apply fold_absorb_ok, zero_state_ok. Qed.

Lemma sponge_prefix_ok m k : state_ok (fold_left absorb (firstn k (blocks (pad m))) zero_state).
Proof. apply fold_absorb_ok, zero_state_ok. Qed.

(* ------------------------------------------------------------------------------------------------ output length *)
Lemma squeeze_length st : length st = 25%nat -> length (squeeze st) = 32%nat.
Proof.
  intros Hl. unfold squeeze. rewrite flat_lane_bytes_length, firstn_length_le by lia. reflexivity.
Qed.

Theorem keccak256_length m : length (keccak256 m) = 32%nat.
Proof. unfold keccak256. apply squeeze_length. apply sponge_ok. Qed.

(* ------------------------------------------------------------------------------------------------ padding *)
Lemma rate_val : rate = 136%nat.
Proof. reflexivity. Qed.

Lemma rate_pos : (0 < rate)%nat.
Proof. rewrite rate_val. lia. Qed.

Definition pad_q (m : list byte) : nat := (rate - length m mod rate)%nat.

Lemma pad_q_range m : (1 <= pad_q m <= rate)%nat.
Proof.
  unfold pad_q. pose proof (Nat.mod_upper_bound (length m) rate) as H. pose proof rate_pos. lia.
Qed.

Lemma pad_cases m :
  (pad_q m = 1%nat /\ pad m = m ++ [x81]) \/
  (2 <= pad_q m /\ pad m = m ++ x01 :: repeat x00 (pad_q m - 2) ++ [x80])%nat.
Proof.
  pose proof (pad_q_range m) as Hq. unfold pad. fold (pad_q m).
  destruct (pad_q m) as [|[|q]] eqn:E; [lia|left; split; reflexivity|right; split; [lia|reflexivity]].
Qed.

Lemma pad_length m : length (pad m) = (length m + pad_q m)%nat.
Proof.
  destruct (pad_cases m) as [[Hq E]|[Hq E]]; rewrite E, app_length; cbn [length].
  - lia.
  - rewrite app_length, repeat_length. cbn [length]. lia.
Qed.

Theorem pad_length_rate m : length (pad m) = ((length m / rate + 1) * rate)%nat.
Proof.
  rewrite pad_length. unfold pad_q.
  pose proof (Nat.div_mod (length m) rate) as D. pose proof (Nat.mod_upper_bound (length m) rate) as U.
  pose proof rate_pos as P. specialize (D ltac:(lia)). specialize (U ltac:(lia)).
  rewrite Nat.mul_add_distr_r, Nat.mul_1_l, (Nat.mul_comm (length m / rate) rate). lia.
Qed.

Theorem pad_positive_multiple m : exists k, (1 <= k)%nat /\ length (pad m) = (k * rate)%nat.
Proof. exists (length m / rate + 1)%nat. split; [lia|apply pad_length_rate]. Qed.

Theorem pad_prefix m : firstn (length m) (pad m) = m.
Proof.
  destruct (pad_cases m) as [[_ E]|[_ E]]; rewrite E, firstn_app, Nat.sub_diag, firstn_all, firstn_O, app_nil_r; reflexivity.
Qed.

(* the padding appended to m: the domain byte 0x01 ... the final bit 0x80 (one byte 0x81 when they fall together) *)
Theorem pad_shape m : exists s, pad m = m ++ s /\
  (s = [x81] \/ exists k, s = x01 :: repeat x00 k ++ [x80]) /\ (1 <= length s <= rate)%nat.
Proof.
  pose proof (pad_q_range m) as Hq.
  destruct (pad_cases m) as [[Hq1 E]|[Hq2 E]].
  - exists [x81]. split; [exact E|]. split; [left; reflexivity|cbn [length]; lia].
  - exists (x01 :: repeat x00 (pad_q m - 2) ++ [x80]). split; [exact E|]. split; [right; eexists; reflexivity|].
    cbn [length]. rewrite app_length, repeat_length. cbn [length]. lia.
Qed.

Lemma rev_repeat_byte (b : byte) n : rev (repeat b n) = repeat b n.
Proof.
  induction n as [|n IH]; [reflexivity|]. cbn [repeat rev]. rewrite IH. symmetry. apply repeat_cons.
Qed.

Lemma drop_zeros_repeat n t : drop_zeros (repeat x00 n ++ x01 :: t) = x01 :: t.
Proof. induction n as [|n IH]; [reflexivity|]. cbn [repeat app drop_zeros]. exact IH. Qed.

Theorem unpad_pad m : unpad (pad m) = m.
Proof.
  destruct (pad_cases m) as [[_ E]|[_ E]]; rewrite E; unfold unpad.
  - rewrite rev_app_distr. cbn [rev app]. apply rev_involutive.
  - rewrite rev_app_distr. cbn [rev]. rewrite rev_app_distr. cbn [rev app]. rewrite rev_repeat_byte.
    rewrite <- app_assoc. cbn [app]. rewrite drop_zeros_repeat. cbn [tl]. apply rev_involutive.
Qed.

Theorem pad_inj m1 m2 : pad m1 = pad m2 -> m1 = m2.
Proof. intros E. rewrite <- (unpad_pad m1), <- (unpad_pad m2), E. reflexivity. Qed.

(* ------------------------------------------------------------------------------------------------ blocks *)
Lemma blocks_fuel_nil fuel : blocks_fuel fuel [] = [].
Proof. destruct fuel; reflexivity. Qed.

Lemma blocks_fuel_concat : forall fuel l, (length l <= fuel)%nat -> concat (blocks_fuel fuel l) = l.
Proof.
  induction fuel as [|f IH]; intros l Hl.
  - destruct l; [reflexivity|cbn [length] in Hl; lia].
  - destruct l as [|b t]; [reflexivity|]. cbn [blocks_fuel concat].
    rewrite IH; [apply firstn_skipn|]. rewrite skipn_length. pose proof rate_pos. cbn [length] in *. lia.
Qed.

Theorem blocks_concat l : concat (blocks l) = l.
Proof. apply blocks_fuel_concat. unfold blocks. lia. Qed.

Lemma blocks_fuel_exact : forall k fuel l, length l = (k * rate)%nat -> (length l <= fuel)%nat ->
  Forall (fun b => length b = rate) (blocks_fuel fuel l) /\ length (blocks_fuel fuel l) = k.
Proof.
  induction k as [|k IH]; intros fuel l Hl Hf.
  - destruct l; [|discriminate]. rewrite blocks_fuel_nil. split; [constructor|reflexivity].
  - pose proof rate_pos as P. cbn [Nat.mul] in Hl.
    destruct l as [|b t] eqn:El; [cbn [length] in Hl; lia|]. rewrite <- El in *.
    destruct fuel as [|f]; [lia|].
    assert (Eb : blocks_fuel (S f) l = firstn rate l :: blocks_fuel f (skipn rate l)) by (rewrite El; reflexivity).
    rewrite Eb. destruct (IH f (skipn rate l)) as [H1 H2].
    + rewrite skipn_length. lia.
    + rewrite skipn_length. lia.
    + split; [constructor; [apply firstn_length_le; lia|exact H1]|cbn [length]; rewrite H2; reflexivity].
Qed.

Theorem blocks_pad m :
  concat (blocks (pad m)) = pad m /\
  Forall (fun b => length b = rate) (blocks (pad m)) /\
  length (blocks (pad m)) = (length m / rate + 1)%nat.
Proof.
  split; [apply blocks_concat|]. apply blocks_fuel_exact; [apply pad_length_rate|lia].
Qed.

(* every block that is absorbed fills exactly the 17 rate lanes *)
Theorem blocks_pad_lanes m : Forall (fun b => length (lanes b) = 17%nat) (blocks (pad m)).
Proof.
  destruct (blocks_pad m) as [_ [H _]]. eapply Forall_impl; [|exact H].
  intros b Hb. apply lanes_length. rewrite Hb. reflexivity.
Qed.

(* ------------------------------------------------------------------------------------------------ structure *)
Theorem keccak256_structure m : keccak256 m = squeeze (fold_left absorb (blocks (pad m)) zero_state).
Proof. reflexivity. Qed.

(* one more block absorbed = one more application of the permutation to (state xor block) *)
Theorem sponge_step bs b st : fold_left absorb (bs ++ [b]) st = keccak_f (xor_lanes (fold_left absorb bs st) (lanes b)).
Proof. rewrite fold_left_app. reflexivity. Qed.

(* short messages (below the rate) are one permutation of the padded block *)
Theorem keccak256_one_block m : (length m < rate)%nat -> keccak256 m = squeeze (keccak_f (lanes (pad m) ++ repeat 0%N 8)).
Proof.
  intros Hm. unfold keccak256, sponge.
  destruct (blocks_pad m) as [Hc [Hf Hn]]. rewrite Nat.div_small, Nat.add_0_l in Hn by exact Hm.
  destruct (blocks (pad m)) as [|b [|b2 t]]; cbn [length] in Hn; try lia.
  cbn [concat] in Hc. rewrite app_nil_r in Hc. subst b. cbn [fold_left]. unfold absorb. f_equal. f_equal.
  inversion Hf as [|? ? Hb _]; subst.
  assert (Hl : length (lanes (pad m)) = 17%nat) by (apply lanes_length; rewrite Hb; reflexivity).
  remember (lanes (pad m)) as ls. clear -Hl. unfold zero_state.
  do 18 (destruct ls as [|? ls]; [cbn [length] in Hl; try lia|]); [|cbn [length] in Hl; lia].
  cbn [repeat xor_lanes]. rewrite !N.lxor_0_l. reflexivity.
Qed.

(* the validator is sound and complete for its table *)
Theorem keccak_table_ok_spec t : keccak_table_ok t = true <-> (forall x y, In (x, y) t -> keccak256 x = y).
Proof.
  unfold keccak_table_ok. rewrite forallb_forall. split.
  - intros H x y Hin. apply bytes_eqb_eq. exact (H (x, y) Hin).
  - intros H [x y] Hin. apply bytes_eqb_eq. cbn [fst snd]. apply H, Hin.
Qed.

(* ------------------------------------------------------------------------------------------------ the written-out tables
   are the ones FIPS 202 generates: rho offsets (t+1)(t+2)/2 along the orbit (x,y) -> (y, 2x+3y) from (1,0); pi as a gather;
   chi / theta neighbours mod 5 in a row; the round constants from the LFSR x^8+x^6+x^5+x^4+1 (Algorithm 5).
   Finite table equalities, decided by computation. *)
Fixpoint set_nth (l : list N) (i : nat) (v : N) : list N :=
  match l, i with
  | [], _ => []
  | _ :: t, O => v :: t
  | a :: t, S k => a :: set_nth t k v
  end.

Fixpoint rho_offsets_gen (steps : nat) (t : nat) (x y : nat) (acc : list N) : list N :=
  match steps with
  | O => acc
  | S k => rho_offsets_gen k (S t) y ((2 * x + 3 * y) mod 5)
             (set_nth acc (x + 5 * y) (N.of_nat (((t + 1) * (t + 2) / 2) mod 64)))
  end.
Definition fips_rho_offsets : list N := rho_offsets_gen 24 0 1 0 (repeat 0%N 25).

Definition fips_rho_pi_table : list (nat * N) :=
  map (fun j => let X := (j mod 5)%nat in let Y := (j / 5)%nat in
                let src := ((X + 3 * Y) mod 5 + 5 * X)%nat in (src, nthN fips_rho_offsets src)) (seq 0 25).

Definition fips_chi_table : list (nat * nat * nat) :=
  map (fun i => let x := (i mod 5)%nat in let y := (i / 5)%nat in (i, ((x + 1) mod 5 + 5 * y)%nat, ((x + 2) mod 5 + 5 * y)%nat)) (seq 0 25).

Definition lfsr_step (r : list bool) : list bool :=
  match r with
  | [r0; r1; r2; r3; r4; r5; r6; r7] => [r7; r0; r1; r2; xorb r3 r7; xorb r4 r7; xorb r5 r7; r6]
  | _ => r
  end.
Definition fips_rc_bit (t : nat) : bool := hd false (Nat.iter (t mod 255) lfsr_step [true; false; false; false; false; false; false; false]).
Definition fips_round_constant (ir : nat) : N :=
  fold_left (fun acc j => if fips_rc_bit (j + 7 * ir) then N.lor acc (N.shiftl 1 (N.of_nat (2 ^ j - 1))) else acc) (seq 0 7) 0%N.

Theorem keccak_tables_are_fips202 :
  rho_pi_table = fips_rho_pi_table /\
  (forall x y, (x < 5)%nat -> (y < 5)%nat -> fst (nth (y + 5 * ((2 * x + 3 * y) mod 5)) rho_pi_table (0%nat, 0%N)) = (x + 5 * y)%nat) /\
  chi_table = fips_chi_table /\
  lane_col = map (fun i => (i mod 5)%nat) (seq 0 25) /\
  theta_d_src = map (fun x => (((x + 4) mod 5)%nat, ((x + 1) mod 5)%nat)) (seq 0 5) /\
  round_constants = map fips_round_constant (seq 0 24).
Proof.
  repeat apply conj; try (vm_compute; reflexivity).
  intros x y Hx Hy.
  do 5 (destruct x as [|x]; [do 5 (destruct y as [|y]; [vm_compute; reflexivity|]); lia|]). lia.
Qed.

(* ------------------------------------------------------------------------------------------------ summary used by props/C04.v *)
(* after each of the four steps of a round, and after the xor of a block, the state is still 25 words below 2^64 *)
Theorem keccak_steps_ok a : state_ok a ->
  state_ok (theta a) /\ state_ok (rho_pi (theta a)) /\ state_ok (chi (rho_pi (theta a))) /\
  (forall rc, In rc round_constants -> state_ok (keccak_round a rc)) /\
  (forall blk, state_ok (xor_lanes a (lanes blk))) /\ state_ok (keccak_f a).
Proof.
  intros [Hl Hw]. repeat apply conj.
  - apply theta_length, Hl.
  - apply theta_w64, Hw.
  - apply rho_pi_length.
  - apply rho_pi_w64, theta_w64, Hw.
  - apply chi_length.
  - apply chi_w64, rho_pi_w64, theta_w64, Hw.
  - intros rc Hin. apply round_ok; [|split; assumption].
    pose proof round_constants_w64 as H. rewrite Forall_forall in H. apply H, Hin.
  - intros blk. split; [rewrite xor_lanes_length; exact Hl|apply xor_lanes_w64; [exact Hw|apply lanes_w64]].
  - apply (proj1 (keccak_f_ok a (conj Hl Hw))).
  - apply (proj2 (keccak_f_ok a (conj Hl Hw))).
Qed.

(* ------------------------------------------------------------------------------------------------ lane <-> bytes round trip *)
Lemma byte_of_N_bN b : byte_of_N (bN b) = b.
Proof.
  unfold byte_of_N, bN. change 255%N with (N.ones 8). rewrite N.land_ones.
  rewrite N.mod_small by (pose proof (Byte.to_N_bounded b); change (2 ^ 8)%N with 256%N; lia).
  rewrite Byte.of_to_N. reflexivity.
Qed.

Lemma byte_of_N_low b r : (b < 256)%N -> N.land (b + 256 * r) 255 = b.
Proof.
  intros Hb. change 255%N with (N.ones 8). rewrite N.land_ones. change (2 ^ 8)%N with 256%N.
  rewrite (N.mul_comm 256 r), N.mod_add by discriminate. apply N.mod_small, Hb.
Qed.

Lemma shiftr8_step b r : (b < 256)%N -> N.shiftr (b + 256 * r) 8 = r.
Proof.
  intros Hb. rewrite N.shiftr_div_pow2. change (2 ^ 8)%N with 256%N.
  rewrite (N.add_comm b), (N.mul_comm 256 r), N.div_add_l by discriminate. rewrite N.div_small by exact Hb. apply N.add_0_r.
Qed.

Lemma byte_of_N_step b r : byte_of_N (bN b + 256 * r) = b.
Proof.
  unfold byte_of_N. rewrite byte_of_N_low by apply bN_lt. unfold bN. rewrite Byte.of_to_N. reflexivity.
Qed.

(* what the squeeze writes for a lane is the little-endian byte string the absorb would read that lane from *)
Theorem lane_bytes_lane8 b0 b1 b2 b3 b4 b5 b6 b7 :
  lane_bytes (lane8 b0 b1 b2 b3 b4 b5 b6 b7) = [b0; b1; b2; b3; b4; b5; b6; b7].
Proof.
  unfold lane_bytes, lane8.
  change 16%N with (8 + 8)%N. change 24%N with (8 + 8 + 8)%N. change 32%N with (8 + 8 + 8 + 8)%N.
  change 40%N with (8 + 8 + 8 + 8 + 8)%N. change 48%N with (8 + 8 + 8 + 8 + 8 + 8)%N. change 56%N with (8 + 8 + 8 + 8 + 8 + 8 + 8)%N.
  rewrite <- !N.shiftr_shiftr.
  rewrite !shiftr8_step by apply bN_lt.
  rewrite !byte_of_N_step. rewrite byte_of_N_bN. reflexivity.
Qed.

(* and-not on 64-bit words: Go's `a &^ b` *)
Lemma ldiff_machine a b : w64 a -> N.ldiff a b = N.land a (N.lxor b mask64).
Proof.
  intros Ha. apply N.bits_inj. intros m. rewrite N.ldiff_spec, N.land_spec, N.lxor_spec, mask64_ones.
  destruct (N.lt_ge_cases m 64) as [Hlt|Hge].
  - rewrite N.ones_spec_low by exact Hlt. rewrite xorb_true_r. reflexivity.
  - rewrite w64_bits in Ha. rewrite (Ha m Hge). reflexivity.
Qed.

(* ------------------------------------------------------------------------------------------------ known answers
   expected values: golang.org/x/crypto/sha3.NewLegacyKeccak256 (the function behind go-ethereum crypto.Keccak256);
   kat_pat n = the n bytes i mod 251.  The Go harness (TestVerifC04, rows "kk") recomputes them on every run. *)
Definition kat_pat (n : nat) : list byte := map (fun i => byte_of_N (N.of_nat (i mod 251))) (seq 0 n).

Example keccak256_kat_empty : keccak256 [] =
  [xc5; xd2; x46; x01; x86; xf7; x23; x3c; x92; x7e; x7d; xb2; xdc; xc7; x03; xc0; xe5; x00; xb6; x53; xca; x82; x27; x3b; x7b; xfa; xd8; x04; x5d; x85; xa4; x70].
Proof. vm_compute. reflexivity. Qed.

Example keccak256_kat_abc : keccak256 [x61; x62; x63] =
  [x4e; x03; x65; x7a; xea; x45; xa9; x4f; xc7; xd4; x7b; xa8; x26; xc8; xd6; x67; xc0; xd1; xe6; xe3; x3a; x64; xa0; x36; xec; x44; xf5; x8f; xa1; x2d; x6c; x45].
Proof. vm_compute. reflexivity. Qed.

Example keccak256_kat_135 : keccak256 (kat_pat 135) =
  [xcb; xdf; xd9; xde; xe5; xfa; xad; x38; x18; xd6; xb0; x6f; x95; xa2; x19; xfd; x29; x0b; x0e; x17; x06; xf6; xa8; x2e; x5a; x59; x5b; x9c; xe9; xfa; xca; x62].
Proof. vm_compute. reflexivity. Qed.

Example keccak256_kat_136 : keccak256 (kat_pat 136) =
  [x7c; xe7; x59; xf1; xab; x7f; x9c; xe4; x37; x71; x99; x70; xc2; x6b; x0a; x66; xff; x11; xfe; x3e; x38; xe1; x7d; xf8; x9c; xf5; xd2; x9c; x7d; x7f; x80; x7e].
Proof. vm_compute. reflexivity. Qed.

Example keccak256_kat_137 : keccak256 (kat_pat 137) =
  [xac; x73; xd4; xfa; xe6; x8b; x84; x53; xf7; x64; x00; x7c; x1a; x20; xce; x95; x99; x41; x87; x86; x1f; x0c; x32; x27; xa3; xa8; xe9; x9a; x73; xa3; xb1; xdb].
Proof. vm_compute. reflexivity. Qed.

Example keccak256_kat_1024 : keccak256 (kat_pat 1024) =
  [x80; x67; xfe; x24; xda; xd9; x27; x63; x2e; x32; xdc; xaf; x9b; x79; x58; xa5; xf3; x01; xcf; xc4; xe3; x7f; x41; x9a; x08; xe0; x59; x29; x0b; xe2; x33; x70].
Proof. vm_compute. reflexivity. Qed.

(* SHA3-256 would give a7ffc6f8... for the empty string: the domain byte really is 0x01 *)
Example keccak256_is_not_sha3 : nth 0 (keccak256 []) x00 <> xa7.
Proof. vm_compute. discriminate. Qed.
