(* Network-level C02 liveness: in a fair network history — the observations of at least quorum honest members of the set in force
   reach node i, node i observed the message itself, its own signature has looped back — node i publishes.
   Part 1: one node, over a window of its history without set change and cleanup tick.  Part 2: the network (projection). *)
From Coq Require Import List ZArith Lia Bool Arith.
From Coq Require Import Strings.Byte.
From WH Require Import lib.Bytes gen.Extracted model.Vaa model.Processor model.ProcSpec model.System
     proofs.VaaProofs proofs.QuorumProofs proofs.ProcessorProofs proofs.ProcC01Proofs proofs.ProcC02Proofs proofs.ProcCleanupProofs proofs.SystemProofs.
Import ListNotations.
Open Scope Z_scope.

(* an op that neither changes the guardian set nor runs the cleanup tick *)
Definition calm (o : op) : bool := match o with SetGS _ | Cleanup => false | _ => true end.

(* "somewhere along the run from st over ops, P holds of the state and the op handled in it" *)
Fixpoint happens {S X} (stp : S -> X -> S) (P : S -> X -> Prop) (st : S) (ops : list X) : Prop :=
  match ops with
  | [] => False
  | o :: t => P st o \/ happens stp P (stp st o) t
  end.

Lemma in_remove_nth_or {A} (l : list A) : forall k x y, nth_error l k = Some x -> In y l ->
  y = x \/ In y (firstn k l ++ skipn (S k) l).
Proof.
  induction l as [|a l IH]; intros k x y Hk Hy; [destruct Hy|].
  destruct k as [|k]; cbn [nth_error firstn skipn app] in *.
  - inversion Hk; subst. destruct Hy as [->|Hy]; [left; reflexivity|right; exact Hy].
  - destruct Hy as [->|Hy]; [right; left; reflexivity|]. destruct (IH k x y Hk Hy) as [->|H]; [left; reflexivity|right; right; exact H].
Qed.

Section Live1.
Variable recover : bytes -> bytes -> option bytes.
Variable keccak : bytes -> bytes.
Variable sign : bytes -> bytes.
Variable own : addr.
Variable gov_chain : Z.
Variable gov_addr : bytes.

Notation rec := (Processor.rec recover).
Notation dg := (Processor.dg keccak).
Notation step := (Processor.step recover keccak sign own gov_chain gov_addr).
Notation run := (Processor.run recover keccak sign own gov_chain gov_addr).
Notation handle_obs := (Processor.handle_obs recover).
Notation broadcast_signature := (Processor.broadcast_signature keccak own).
Notation Inv1 := (ProcC01Proofs.Inv1 recover keccak).
Notation Inv2 := (ProcC02Proofs.Inv2 sign own).
Notation accepted := (ProcC02Proofs.accepted recover).
Notation own_obs := (ProcC02Proofs.own_obs sign own).

Hypothesis keccak_len : forall b, length (keccak b) = 32%nat.
Hypothesis own_len : length own = 20%nat.
Hypothesis sign_correct : forall d, length d = 32%nat -> rec d (sign d) = Some own.

Variable G : gset.
Variable h : bytes.
Hypothesis own_in : In own (keys G).

Definition recorded (a : addr) (st : pstate) : Prop := exists e, alookup h (agg st) = Some e /\ alookup a (esigs e) <> None.
Definition observed (st : pstate) : Prop := exists e, alookup h (agg st) = Some e /\ our_vaa e <> None.

(* the window invariant: G is in force; the entry of h, if any, aggregates under G; once the node's own VAA is in it, the own
   signature is recorded or still on its way *)
Record K (st : pstate) : Prop := {
  K_cur : cur st = Some G;
  K_snap : forall e, alookup h (agg st) = Some e -> gs_snap e = None \/ gs_snap e = Some G;
  K_own : forall e, alookup h (agg st) = Some e -> our_vaa e <> None ->
          gs_snap e = Some G /\ (alookup own (esigs e) <> None \/ exists o, In o (loopq st) /\ o_hash o = h) }.

Lemma K_ext st st' : cur st' = cur st -> agg st' = agg st -> (forall o, In o (loopq st) -> In o (loopq st')) -> K st -> K st'.
Proof.
  intros Hc Ha Hl [K1 K2 K3]. constructor; [rewrite Hc; exact K1|rewrite Ha; exact K2|].
  rewrite Ha. intros e He Hv. destruct (K3 e He Hv) as [A [B|(o & Ho & Hh)]]; split; auto. right. exists o. split; [apply Hl; exact Ho|exact Hh].
Qed.

Lemma applicable_K st : cur st = Some G -> (forall e, alookup h (agg st) = Some e -> gs_snap e = None \/ gs_snap e = Some G) ->
  applicable st h = Some G.
Proof.
  intros K1 K2. unfold applicable. destruct (alookup h (agg st)) as [e|]; [|exact K1].
  destruct (K2 e eq_refl) as [E|E]; rewrite E; [exact K1|reflexivity].
Qed.

Lemma accepted_inv st o a g : accepted st o = Some (a, g) ->
  applicable st (o_hash o) = Some g /\ a = bytes_to_address (o_addr o) /\ rec (o_hash o) (o_sig o) = Some a /\ In a (keys g).
Proof.
  unfold ProcC02Proofs.accepted. destruct (rec (o_hash o) (o_sig o)) as [pk|]; [|discriminate].
  destruct (bytes_eqb_spec (bytes_to_address (o_addr o)) pk) as [E|]; cbn [negb]; [|discriminate].
  destruct (applicable st (o_hash o)) as [g'|]; [|discriminate].
  destruct (Processor.memb _ (keys g')) eqn:Em; [|discriminate]. intros H. inversion H; subst a g'.
  split; [reflexivity|]. split; [reflexivity|]. split; [rewrite E; reflexivity|]. apply existsb_bytes in Em. exact Em.
Qed.

Lemma accepted_intro st o a g : applicable st (o_hash o) = Some g -> bytes_to_address (o_addr o) = a ->
  rec (o_hash o) (o_sig o) = Some a -> In a (keys g) -> accepted st o = Some (a, g).
Proof.
  intros Ha Hb Hr Hin. unfold ProcC02Proofs.accepted. rewrite Hr, Hb, bytes_eqb_refl. cbn [negb]. rewrite Ha.
  assert (Em : Processor.memb a (keys g) = true) by (apply existsb_bytes; exact Hin). rewrite Em. reflexivity.
Qed.

(* ---- handleObservation on a state st1 that agrees with the window invariant; [ob] may be the pending own observation itself *)
Lemma obs_live O L st1 ob : Inv1 O L st1 -> cur st1 = Some G ->
  (forall e, alookup h (agg st1) = Some e -> gs_snap e = None \/ gs_snap e = Some G) ->
  (forall e, alookup h (agg st1) = Some e -> our_vaa e <> None ->
     gs_snap e = Some G /\ (alookup own (esigs e) <> None \/ (exists o, In o (loopq st1) /\ o_hash o = h) \/ (o_hash ob = h /\ own_obs ob))) ->
  let st' := fst (handle_obs st1 ob) in
  K st' /\ (forall a, recorded a st1 -> recorded a st') /\ (observed st1 -> observed st') /\
  (forall a, o_hash ob = h -> bytes_to_address (o_addr ob) = a -> rec h (o_sig ob) = Some a -> In a (keys G) -> recorded a st').
Proof.
  intros HI K1 K2 K3. cbv zeta.
  assert (Happ : applicable st1 h = Some G) by (apply applicable_K; assumption).
  destruct (accepted st1 ob) as [[a g]|] eqn:Ea.
  - destruct (handle_obs_accepted recover keccak O L st1 ob a g HI Ea) as (e' & Hst & Hrec & Hold & Hnew & Hg & _).
    destruct (accepted_inv st1 ob a g Ea) as (Hap & Haddr & Hr & Hin).
    rewrite Hst. destruct (bytes_eqb_spec (o_hash ob) h) as [Eh|Nh].
    + (* the entry of h is rewritten *)
      rewrite Eh in *. assert (g = G) by congruence. subst g.
      assert (Hl : alookup h (aset h e' (agg st1)) = Some e') by (rewrite alookup_aset, bytes_eqb_refl; reflexivity).
      split; [|split; [|split]].
      * constructor; cbn [cur agg loopq]; [exact K1| |].
        -- intros e He. rewrite Hl in He. inversion He; subst e. destruct (gs_snap e') as [G'|] eqn:Es; [right; rewrite (Hg G' eq_refl); reflexivity|left; reflexivity].
        -- intros e He Hv. rewrite Hl in He. inversion He; subst e.
           destruct (alookup h (agg st1)) as [e0|] eqn:E0; [|rewrite (Hnew eq_refl) in Hv; contradiction].
           destruct (Hold e0 eq_refl) as (A & B & _ & D). rewrite A in Hv. destruct (K3 e0 eq_refl Hv) as [S1 S2].
           split; [rewrite B; exact S1|]. destruct S2 as [S2|[S2|[_ S2]]]; [left; apply D; exact S2|right; exact S2|].
           left. assert (Hacc : accepted st1 ob = Some (own, G)).
           { apply (own_obs_accepted recover sign own own_len sign_correct st1 ob e0 G S2); [rewrite Eh; exact E0|exact S1|exact own_in]. }
           rewrite Ea in Hacc. inversion Hacc as [Hao]. rewrite <- Hao, Hrec. discriminate.
      * intros a' (e0 & E0 & Ha'). exists e'. cbn [agg]. split; [exact Hl|]. destruct (Hold e0 E0) as (_ & _ & _ & D). apply D. exact Ha'.
      * intros (e0 & E0 & Hv). exists e'. cbn [agg]. split; [exact Hl|]. destruct (Hold e0 E0) as (A & _). rewrite A. exact Hv.
      * intros a' _ Hb Hr' _. exists e'. cbn [agg]. split; [exact Hl|]. assert (Eaa : a' = a) by congruence. rewrite Eaa, Hrec. discriminate.
    + (* another entry is rewritten *)
      assert (Hl : alookup h (aset (o_hash ob) e' (agg st1)) = alookup h (agg st1)).
      { rewrite alookup_aset. destruct (bytes_eqb_spec h (o_hash ob)) as [E|_]; [exfalso; apply Nh; symmetry; exact E|reflexivity]. }
      split; [|split; [|split]].
      * constructor; cbn [cur agg loopq]; [exact K1|rewrite Hl; exact K2|]. rewrite Hl. intros e He Hv.
        destruct (K3 e He Hv) as [S1 [S2|[S2|[S2 _]]]]; [split; auto|split; auto|contradiction].
      * intros a' (e0 & E0 & Ha'). exists e0. cbn [agg]. rewrite Hl. split; assumption.
      * intros (e0 & E0 & Hv). exists e0. cbn [agg]. rewrite Hl. split; assumption.
      * intros a' Hh. contradiction.
  - rewrite (handle_obs_rejected recover st1 ob Ea). cbn [fst]. split; [|split; [|split]]; auto.
    + constructor; [exact K1|exact K2|]. intros e He Hv. destruct (K3 e He Hv) as [S1 [S2|[S2|[Sh S2]]]]; [split; auto|split; auto|].
      exfalso. assert (Hacc : accepted st1 ob = Some (own, G)).
      { apply (own_obs_accepted recover sign own own_len sign_correct st1 ob e G S2); [rewrite Sh; exact He|exact S1|exact own_in]. }
      congruence.
    + intros a Hh Hb Hr Hin. exfalso. rewrite <- Hh in Happ, Hr. rewrite (accepted_intro st1 ob a G Happ Hb Hr Hin) in Ea. discriminate.
Qed.

(* ---- broadcastSignature *)
Lemma bcast_live st v s tx chain : K st ->
  let st' := fst (broadcast_signature st v s tx chain) in
  K st' /\ (forall a, recorded a st -> recorded a st') /\ (observed st -> observed st') /\ (dg v = h -> observed st').
Proof.
  intros [K1 K2 K3]. cbv zeta. unfold Processor.broadcast_signature. cbn [fst].
  set (o := {| o_addr := own; o_hash := dg v; o_sig := s; o_tx := tx |}).
  set (e0 := match alookup (dg v) (agg st) with Some e => e | None => new_entry (clock st) end).
  destruct (bytes_eqb_spec (dg v) h) as [Eh|Nh].
  - assert (Hl : alookup h (aset (dg v) (set_own e0 v o tx (cur st) chain) (agg st)) = Some (set_own e0 v o tx (cur st) chain))
      by (rewrite alookup_aset, Eh, bytes_eqb_refl; reflexivity).
    split; [|split; [|split]].
    + constructor; cbn [cur agg loopq]; [exact K1| |].
      * intros e He. rewrite Hl in He. inversion He; subst e. cbn [set_own gs_snap]. right. exact K1.
      * intros e He _. rewrite Hl in He. inversion He; subst e. cbn [set_own gs_snap esigs]. split; [exact K1|].
        right. exists o. split; [apply in_or_app; right; left; reflexivity|exact Eh].
    + intros a (e & E & Ha). eexists. cbn [agg]. split; [exact Hl|]. cbn [set_own esigs]. subst e0. rewrite Eh, E. exact Ha.
    + intros _. eexists. cbn [agg]. split; [exact Hl|]. cbn [set_own our_vaa]. discriminate.
    + intros _. eexists. cbn [agg]. split; [exact Hl|]. cbn [set_own our_vaa]. discriminate.
  - assert (Hl : alookup h (aset (dg v) (set_own e0 v o tx (cur st) chain) (agg st)) = alookup h (agg st)).
    { rewrite alookup_aset. destruct (bytes_eqb_spec h (dg v)) as [E|_]; [exfalso; apply Nh; symmetry; exact E|reflexivity]. }
    split; [|split; [|split]].
    + constructor; cbn [cur agg loopq]; [exact K1|rewrite Hl; exact K2|]. rewrite Hl. intros e He Hv.
      destruct (K3 e He Hv) as [S1 [S2|(o' & Ho' & Hh')]]; split; auto. right. exists o'. split; [apply in_or_app; left; exact Ho'|exact Hh'].
    + intros a (e & E & Ha). exists e. cbn [agg]. rewrite Hl. split; assumption.
    + intros (e & E & Hv). exists e. cbn [agg]. rewrite Hl. split; assumption.
    + intros Hh. contradiction.
Qed.

(* what a signed chain observation does: handleMessage either changes nothing (and emits nothing) or is broadcastSignature *)
Lemma handle_message_cases st m :
  let r := Processor.handle_message keccak sign own gov_chain gov_addr st m in
  (fst r = st /\ (snd r = [] \/ exists w, snd r = [Panic w])) \/
  (exists g, cur st = Some g /\ r = broadcast_signature st (vaa_of_message (gidx g) m) (sign (dg (vaa_of_message (gidx g) m))) (m_tx m) true).
Proof.
  cbv zeta. unfold Processor.handle_message. destruct (cur st) as [g|]; [|left; split; [reflexivity|left; reflexivity]].
  destruct (_ && _); [left; split; [reflexivity|left; reflexivity]|].
  destruct (dlookup _ _); [|right; exists g; split; reflexivity].
  destruct (unmarshal _).
  - destruct (_ <? _); [left; split; [reflexivity|left; reflexivity]|right; exists g; split; reflexivity].
  - destruct proc_stored_unmarshal_failure_panics; [left; split; [reflexivity|right; eexists; reflexivity]|right; exists g; split; reflexivity].
Qed.

Definition is_sendobs (x : out) : bool := match x with SendObs _ => true | _ => false end.

(* one calm step *)
Lemma step_live O L st o : calm o = true -> Inv1 O L st -> Inv2 st -> K st ->
  let st' := fst (step st o) in
  K st' /\ (forall a, recorded a st -> recorded a st') /\ (observed st -> observed st') /\
  (forall ob a, o = Obs ob -> o_hash ob = h -> bytes_to_address (o_addr ob) = a -> rec h (o_sig ob) = Some a -> In a (keys G) -> recorded a st') /\
  (forall m, o = LocalMsg m -> dg (vaa_of_message 0 m) = h -> existsb is_sendobs (snd (step st o)) = true -> observed st').
Proof.
  intros Hc HI H2 HK. cbv zeta.
  assert (Hsame : forall st', cur st' = cur st -> agg st' = agg st -> (forall x, In x (loopq st) -> In x (loopq st')) ->
            K st' /\ (forall a, recorded a st -> recorded a st') /\ (observed st -> observed st')).
  { intros st' A B C. split; [eapply K_ext; eassumption|]. unfold recorded, observed. rewrite B. split; auto. }
  destruct o as [g|t|m|v|ob|k|b|]; try discriminate; cbn [Processor.step].
  - (* SetClock *) destruct (Hsame {| cur := cur st; agg := agg st; db := db st; loopq := loopq st; clock := t |} eq_refl eq_refl ltac:(auto)) as (A & B & C).
    cbn [fst]. split; [exact A|]. split; [exact B|]. split; [exact C|]. split; [intros; discriminate|intros; discriminate].
  - (* LocalMsg *)
    destruct (handle_message_cases st m) as [[Hs Ho]|(g & Hg & Hr)]; cbv zeta in *.
    + rewrite Hs. destruct (Hsame st eq_refl eq_refl ltac:(auto)) as (A & B & C). split; [exact A|]. split; [exact B|]. split; [exact C|].
      split; [intros; discriminate|]. intros m' _ _ Hsend. exfalso. destruct Ho as [Ho|[w Ho]]; rewrite Ho in Hsend; discriminate.
    + rewrite Hr. destruct (bcast_live st (vaa_of_message (gidx g) m) (sign (dg (vaa_of_message (gidx g) m))) (m_tx m) true HK) as (A & B & C & D).
      cbv zeta in *. split; [exact A|]. split; [exact B|]. split; [exact C|]. split; [intros; discriminate|].
      intros m' E Hh _. inversion E; subst m'. apply D. exact Hh.
  - (* Inject *) unfold Processor.handle_injection.
    destruct (bcast_live st v (sign (dg v)) [] false HK) as (A & B & C & _). cbv zeta in *.
    split; [exact A|]. split; [exact B|]. split; [exact C|]. split; intros; discriminate.
  - (* Obs *) destruct HK as [K1 K2 K3].
    destruct (obs_live O L st ob HI K1 K2) as (A & B & C & D).
    { intros e He Hv. destruct (K3 e He Hv) as [S1 [S2|S2]]; split; auto. }
    cbv zeta in *. split; [exact A|]. split; [exact B|]. split; [exact C|]. split; [|intros; discriminate].
    intros ob' a E. inversion E; subst ob'. apply D.
  - (* Loopback *) destruct (nth_error (loopq st) k) as [ob|] eqn:Ek.
    2:{ destruct (Hsame st eq_refl eq_refl ltac:(auto)) as (A & B & C). cbn [fst]. split; [exact A|]. split; [exact B|]. split; [exact C|]. split; intros; discriminate. }
    destruct HK as [K1 K2 K3]. destruct H2 as [_ V2 _].
    assert (Hob : own_obs ob) by (rewrite Forall_forall in V2; apply V2; eapply nth_error_In; exact Ek).
    set (st1 := {| cur := cur st; agg := agg st; db := db st; loopq := firstn k (loopq st) ++ skipn (S k) (loopq st); clock := clock st |}).
    assert (HI1 : Inv1 O L st1) by (destruct HI; constructor; assumption).
    destruct (obs_live O L st1 ob HI1 K1 K2) as (A & B & C & _).
    { intros e He Hv. destruct (K3 e He Hv) as [S1 [S2|(o' & Ho' & Hh')]]; split; auto.
      destruct (in_remove_nth_or _ _ _ _ Ek Ho') as [->|Hin]; [right; right; split; assumption|right; left; exists o'; split; assumption]. }
    cbv zeta in *. split; [exact A|]. split; [exact B|]. split; [exact C|]. split; intros; discriminate.
  - (* InboundVAA *)
    assert (Hq : cur (fst (Processor.handle_inbound recover keccak st b)) = cur st /\ agg (fst (Processor.handle_inbound recover keccak st b)) = agg st /\
                 loopq (fst (Processor.handle_inbound recover keccak st b)) = loopq st).
    { unfold Processor.handle_inbound. destruct (unmarshal b) as [vb|]; [|auto]. destruct (cur st) as [gc|] eqn:Ec; [|auto].
      repeat match goal with |- context [if ?c then _ else _] => destruct c end; cbn [fst cur agg loopq]; auto. }
    destruct Hq as (Q1 & Q2 & Q3). destruct (Hsame _ Q1 Q2 ltac:(rewrite Q3; auto)) as (A & B & C).
    split; [exact A|]. split; [exact B|]. split; [exact C|]. split; intros; discriminate.
Qed.

(* the events of the window *)
Definition ev_obs (a : addr) (_ : pstate) (o : op) : Prop :=
  exists ob, o = Obs ob /\ o_hash ob = h /\ bytes_to_address (o_addr ob) = a /\ rec h (o_sig ob) = Some a.
Definition ev_msg (m : msgpub) (st : pstate) (o : op) : Prop :=
  o = LocalMsg m /\ existsb is_sendobs (snd (step st o)) = true.

Notation stepf := (fun st o => fst (step st o)).

Lemma run_live : forall ops O L st, Forall ProcSpec.op_wf ops -> forallb calm ops = true -> Inv1 O L st -> Inv2 st -> K st ->
  let st' := fst (run st ops) in
  K st' /\ (forall a, recorded a st -> recorded a st') /\ (observed st -> observed st') /\
  (forall a, In a (keys G) -> happens stepf (ev_obs a) st ops -> recorded a st') /\
  (forall m, dg (vaa_of_message 0 m) = h -> happens stepf (ev_msg m) st ops -> observed st').
Proof.
  induction ops as [|o ops IH]; intros O L st Hw Hc HI H2 HK; cbn [Processor.run].
  - cbn [fst]. split; [exact HK|]. split; [auto|]. split; [auto|]. split; [intros a _ []|intros m _ []].
  - inversion Hw as [|? ? Hw1 Hw2]; subst. cbn [forallb] in Hc. apply andb_prop in Hc as [Hc1 Hc2].
    destruct (step_c01 recover keccak sign own gov_chain gov_addr O L st o HI Hw1) as [HI' _].
    pose proof (step_inv2 recover keccak sign own gov_chain gov_addr keccak_len own_len sign_correct O L st o HI H2) as H2'.
    destruct (step_live O L st o Hc1 HI H2 HK) as (A & B & C & D & E). cbv zeta in *.
    destruct (step st o) as [st1 out1] eqn:Es. cbn [fst snd] in *.
    destruct (IH _ _ st1 Hw2 Hc2 HI' H2' A) as (A' & B' & C' & D' & E'). cbv zeta in *.
    destruct (run st1 ops) as [st2 outs]. cbn [fst] in *.
    split; [exact A'|]. split; [intros a Ha; apply B'; apply B; exact Ha|]. split; [intros Ho; apply C'; apply C; exact Ho|]. split.
    + intros a Hin Hev. cbn [happens] in Hev. destruct Hev as [(ob & Eo & Hh & Hb & Hr)|Hev].
      * apply B'. apply (D ob a Eo Hh Hb Hr Hin).
      * cbn beta in Hev. rewrite Es in Hev. cbn [fst] in Hev. apply D'; assumption.
    + intros m Hh Hev. cbn [happens] in Hev. destruct Hev as [[Eo Hs]|Hev].
      * apply C'. apply (E m Eo Hh). rewrite Es in Hs. exact Hs.
      * cbn beta in Hev. rewrite Es in Hev. cbn [fst] in Hev. apply E' with (m := m); assumption.
Qed.

(* ---- the single-node liveness statement: over a window without set change and cleanup tick that starts in a reachable state
   in which G is in force and nothing is known about h *)
Theorem window_liveness ops0 ops (signers : list addr) m :
  Forall ProcSpec.op_wf ops0 -> Forall ProcSpec.op_wf ops -> forallb calm ops = true ->
  let st0 := fst (run init ops0) in
  let st := fst (run st0 ops) in
  cur st0 = Some G -> alookup h (agg st0) = None -> ProcSpec.gs_wf G ->
  dg (vaa_of_message 0 m) = h ->
  happens stepf (ev_msg m) st0 ops ->                                            (* the node observed m and signed it *)
  NoDup signers -> incl signers (keys G) -> go_quorum (Z.of_nat (length (keys G))) <= Z.of_nat (length signers) ->
  (forall a, In a signers -> a <> own -> happens stepf (ev_obs a) st0 ops) ->    (* the other signers' observations were delivered *)
  (forall o, In o (loopq st) -> o_hash o <> h) ->                                  (* the own signature has looped back *)
  exists e, alookup h (agg st) = Some e /\ our_vaa e <> None /\ gs_snap e = Some G /\ submitted e = true.
Proof.
  intros Hw0 Hw Hc. cbv zeta. intros Hcur Hno Hgwf Hh Hmsg ND Hincl Hq Hdel Hlq.
  set (st0 := fst (run init ops0)) in *. set (st := fst (run st0 ops)) in *.
  destruct (run_inv1 recover keccak sign own gov_chain gov_addr ops0 [] [] init (init_inv1 recover keccak) Hw0) as [O0 HI0]. fold st0 in HI0.
  pose proof (run_inv2 recover keccak sign own gov_chain gov_addr keccak_len own_len sign_correct ops0 [] [] init (init_inv1 recover keccak)
                (init_inv2 sign own) Hw0) as H20. fold st0 in H20.
  assert (HK0 : K st0).
  { constructor; [exact Hcur| |]; intros e He; rewrite Hno in He; discriminate. }
  destruct (run_live ops O0 _ st0 Hw Hc HI0 H20 HK0) as (HK & _ & _ & Hrec & Hobs). cbv zeta in *. fold st in HK, Hrec, Hobs.
  destruct (Hobs m Hh Hmsg) as (e & He & Hv). destruct HK as [K1 K2 K3]. destruct (K3 e He Hv) as [Hs Hown].
  exists e. split; [exact He|]. split; [exact Hv|]. split; [exact Hs|].
  (* the state is the result of one history from init *)
  assert (Hrun : st = fst (run init (ops0 ++ ops))).
  { subst st st0. clear. revert ops. generalize init. induction ops0 as [|o t IH]; intros s ops; cbn [app Processor.run]; [reflexivity|].
    destruct (step s o) as [s1 o1]. specialize (IH s1 ops). destruct (run s1 t) as [s2 os]. cbn [fst] in *.
    destruct (run s1 (t ++ ops)) as [s3 os3]. cbn [fst] in *. exact IH. }
  assert (Hwall : Forall ProcSpec.op_wf (ops0 ++ ops)) by (apply Forall_app; split; assumption).
  assert (Hin : In (h, e) (agg st)) by (apply alookup_In; exact He).
  rewrite Hrun in Hin, Hlq.
  apply (quorum_implies_published recover keccak sign own gov_chain gov_addr keccak_len own_len sign_correct (ops0 ++ ops) h e G Hwall Hin Hv Hs own_in Hlq).
  (* count: every signer is recorded *)
  assert (Hhas : forall a, In a signers -> has (esigs e) a = true).
  { intros a Ha. unfold has. destruct (bytes_eq_dec a own) as [->|Hne].
    - destruct Hown as [Ho|(o & Ho & Hoh)]; [destruct (alookup own (esigs e)); [reflexivity|contradiction]|].
      exfalso. rewrite <- Hrun in Hlq. exact (Hlq o Ho Hoh).
    - destruct (Hrec a (Hincl a Ha) (Hdel a Ha Hne)) as (e' & He' & Ha'). assert (e' = e) by congruence. subst e'.
      destruct (alookup a (esigs e)); [reflexivity|contradiction]. }
  unfold nsigned.
  pose proof (filter_length_ge (has (esigs e)) (list_eq_dec Byte.byte_eq_dec) signers (keys G) ND Hincl Hhas). lia.
Qed.
End Live1.

(* ================================================================== 1b. "submitted" means: broadcast in an earlier step *)
Section Pub.
Variable recover : bytes -> bytes -> option bytes.
Variable keccak : bytes -> bytes.
Variable sign : bytes -> bytes.
Variable own : addr.
Variable gov_chain : Z.
Variable gov_addr : bytes.
Notation step := (Processor.step recover keccak sign own gov_chain gov_addr).
Notation run := (Processor.run recover keccak sign own gov_chain gov_addr).
Notation handle_obs := (Processor.handle_obs recover).
Notation Inv1 := (ProcC01Proofs.Inv1 recover keccak).

Definition fresh (h : bytes) (st : pstate) : Prop := forall e, alookup h (agg st) = Some e -> submitted e = false.

Lemma handle_obs_submit h st ob e' : fresh h st ->
  alookup h (agg (fst (handle_obs st ob))) = Some e' -> submitted e' = true ->
  o_hash ob = h /\ existsb is_bcast (snd (handle_obs st ob)) = true.
Proof.
  intros Hf.
  assert (Hst : alookup h (agg st) = Some e' -> submitted e' = true -> o_hash ob = h /\ existsb is_bcast (@nil out) = true).
  { intros Hl Hs. rewrite (Hf e' Hl) in Hs. discriminate. }
  unfold Processor.handle_obs.
  destruct (Processor.rec recover (o_hash ob) (o_sig ob)) as [pk|]; [|exact Hst].
  destruct (negb (bytes_eqb (bytes_to_address (o_addr ob)) pk)); [exact Hst|].
  set (e := alookup (o_hash ob) (agg st)).
  destruct (match e with Some e'0 => match gs_snap e'0 with Some g => Some g | None => cur st end | None => cur st end) as [g|]; [|exact Hst].
  destruct (negb (Processor.memb (bytes_to_address (o_addr ob)) (keys g))); [exact Hst|].
  set (e0 := match e with Some e'0 => e'0 | None => new_entry (clock st) end).
  assert (He0 : o_hash ob = h -> submitted e0 = false).
  { intros Eh. subst e0 e. rewrite Eh. destruct (alookup h (agg st)) as [ex|] eqn:El; [apply Hf; exact El|reflexivity]. }
  set (e1 := set_esigs e0 (aset (bytes_to_address (o_addr ob)) (o_sig ob) (esigs e0))).
  assert (Hq : forall outs, alookup h (agg (with_agg st (aset (o_hash ob) e1 (agg st)))) = Some e' -> submitted e' = true ->
                 o_hash ob = h /\ existsb is_bcast outs = true).
  { intros outs Hl Hs. cbn [with_agg agg] in Hl. rewrite alookup_aset in Hl. destruct (bytes_eqb_spec h (o_hash ob)) as [Eh|Nh].
    - inversion Hl; subst e'. cbn [e1 set_esigs submitted] in Hs. rewrite He0 in Hs by (symmetry; exact Eh). discriminate.
    - rewrite (Hf e' Hl) in Hs. discriminate. }
  destruct (assemble (keys g) 0 (esigs e1)) as [sg|]; [|cbn [fst snd]; apply Hq].
  destruct (our_vaa e1) as [v|]; [|cbn [fst snd]; apply Hq].
  destruct (proc_local_quorum_reached _ _ && negb (submitted e1)); [|cbn [fst snd]; apply Hq].
  destruct sg as [|s0 sg']; [cbn [fst snd]; apply Hq|].
  cbn [fst snd agg]. intros Hl Hs. rewrite alookup_aset in Hl. destruct (bytes_eqb_spec h (o_hash ob)) as [Eh|Nh].
  - split; [symmetry; exact Eh|reflexivity].
  - rewrite (Hf e' Hl) in Hs. discriminate.
Qed.

Lemma fresh_ext h st st' : agg st' = agg st -> fresh h st -> fresh h st'.
Proof. intros Ha Hf e He. rewrite Ha in He. apply Hf. exact He. Qed.

Lemma bcast_sig_fresh h st v s tx chain : fresh h st -> fresh h (fst (Processor.broadcast_signature keccak own st v s tx chain)).
Proof.
  intros Hf e He. unfold Processor.broadcast_signature in He. cbn [fst agg] in He. rewrite alookup_aset in He.
  destruct (bytes_eqb_spec h (Processor.dg keccak v)) as [Eh|_]; [|apply Hf; exact He].
  inversion He; subst e. cbn [set_own submitted]. rewrite <- Eh.
  destruct (alookup h (agg st)) as [ex|] eqn:El; [apply Hf; exact El|reflexivity].
Qed.

(* an entry becomes "submitted" only in the step that broadcasts its VAA *)
Lemma step_submit h st o e' : KeysND st -> fresh h st ->
  alookup h (agg (fst (step st o))) = Some e' -> submitted e' = true ->
  bcast_for recover keccak sign own gov_chain gov_addr h st o = true.
Proof.
  intros ND Hf Hl Hs.
  assert (Hcontra : forall st', fresh h st' -> alookup h (agg st') = Some e' -> False).
  { intros st' Hf' Hl'. rewrite (Hf' e' Hl') in Hs. discriminate. }
  unfold bcast_for, obs_of_op. destruct o as [g|t|m|v|ob|k|b|]; cbn [Processor.step] in Hl |- *.
  - exfalso. apply (Hcontra _ Hf). exact Hl.
  - exfalso. apply (Hcontra _ Hf). exact Hl.
  - exfalso. destruct (handle_message_cases keccak sign own gov_chain gov_addr st m) as [[Hst _]|(g & _ & Hr)]; cbv zeta in *.
    + rewrite Hst in Hl. apply (Hcontra _ Hf). exact Hl.
    + rewrite Hr in Hl. eapply Hcontra; [|exact Hl]. apply bcast_sig_fresh. exact Hf.
  - exfalso. unfold Processor.handle_injection in Hl. eapply Hcontra; [|exact Hl]. apply bcast_sig_fresh. exact Hf.
  - destruct (handle_obs_submit h st ob e' Hf Hl Hs) as [Eh Hb]. rewrite Eh, bytes_eqb_refl, Hb. reflexivity.
  - destruct (nth_error (loopq st) k) as [ob|]; [|exfalso; apply (Hcontra _ Hf); exact Hl].
    match type of Hl with context [handle_obs ?s ob] => destruct (handle_obs_submit h s ob e' (fresh_ext h st s eq_refl Hf) Hl Hs) as [Eh Hb] end.
    rewrite Eh, bytes_eqb_refl, Hb. reflexivity.
  - exfalso. eapply Hcontra; [|exact Hl]. apply (fresh_ext h st); [|exact Hf].
    unfold Processor.handle_inbound. destruct (unmarshal b) as [vb|]; [|reflexivity]. destruct (cur st) as [gc|]; [|reflexivity].
    repeat match goal with |- context [if ?c then _ else _] => destruct c end; reflexivity.
  - exfalso. unfold Processor.handle_cleanup in Hl. destruct (cleanup_all st (clock st + 1) (agg st)) as [a o] eqn:Ec. cbn [fst with_agg agg] in Hl.
    assert (Ha : a = fst (cleanup_all st (clock st + 1) (agg st))) by (rewrite Ec; reflexivity). rewrite Ha in Hl.
    destruct (cleanup_all_alookup st (clock st + 1) h e' (agg st) ND Hl) as (e0 & H0 & _ & _ & _ & H4).
    rewrite (Hf e0 H0) in H4. congruence.
Qed.

Notation stepf := (fun st o => fst (step st o)).

Theorem submitted_was_broadcast h e' : forall ops O L st, Inv1 O L st -> KeysND st -> Forall ProcSpec.op_wf ops -> fresh h st ->
  alookup h (agg (fst (run st ops))) = Some e' -> submitted e' = true ->
  happens stepf (fun st o => bcast_for recover keccak sign own gov_chain gov_addr h st o = true) st ops.
Proof.
  induction ops as [|o ops IH]; intros O L st HI ND Hw Hf Hl Hs; cbn [Processor.run] in Hl.
  - cbn [fst] in Hl. rewrite (Hf e' Hl) in Hs. discriminate.
  - inversion Hw as [|? ? Hw1 Hw2]; subst. cbn [happens].
    destruct (step_c01 recover keccak sign own gov_chain gov_addr O L st o HI Hw1) as [HI' _].
    pose proof (step_keys recover keccak sign own gov_chain gov_addr O L st o HI ND) as ND'.
    destruct (alookup h (agg (fst (step st o)))) as [e1|] eqn:E1.
    + destruct (submitted e1) eqn:S1.
      * left. apply (step_submit h st o e1 ND Hf E1 S1).
      * right. destruct (step st o) as [st1 out1] eqn:Es. cbn [fst] in *. destruct (run st1 ops) as [st2 outs] eqn:Er. cbn [fst] in Hl.
        apply (IH _ _ st1 HI' ND' Hw2); [|rewrite Er; exact Hl|exact Hs]. intros e He. congruence.
    + right. destruct (step st o) as [st1 out1] eqn:Es. cbn [fst] in *. destruct (run st1 ops) as [st2 outs] eqn:Er. cbn [fst] in Hl.
      apply (IH _ _ st1 HI' ND' Hw2); [|rewrite Er; exact Hl|exact Hs]. intros e He. congruence.
Qed.
End Pub.

(* ================================================================== 2. the network *)
Definition calm_nop (x : nop) : bool := match x with NEnv _ (ESetGS _) | NEnv _ ECleanup => false | _ => true end.

Section LiveNet.
Variable recover : bytes -> bytes -> option bytes.
Variable keccak : bytes -> bytes.
Variable gov_chain : Z.
Variable gov_addr : bytes.
Variable owns : nat -> addr.
Variable signs : nat -> bytes -> bytes.

Notation rec := (Processor.rec recover).
Notation dg := (Processor.dg keccak).
Notation node_step := (System.node_step recover keccak gov_chain gov_addr owns signs).
Notation node_run := (System.node_run recover keccak gov_chain gov_addr owns signs).
Notation nstep := (System.nstep recover keccak gov_chain gov_addr owns signs).
Notation nrun := (System.nrun recover keccak gov_chain gov_addr owns signs).
Notation trace := (System.trace recover keccak gov_chain gov_addr owns signs).
Notation nstepf := (fun n x => fst (nstep n x)).
Notation stepf i := (fun st o => fst (Processor.step recover keccak (signs i) (owns i) gov_chain gov_addr st o)).

Lemma resolve_target n x j o : resolve n x = Some (j, o) -> target x = j /\ calm o = calm_nop x.
Proof.
  destruct x as [i e|i k|i g|i k]; cbn [resolve target calm_nop]; intros H.
  - inversion H; subst. split; [reflexivity|]. destruct e; reflexivity.
  - destruct (nth_error (pool n) k) as [g|]; [|discriminate]. inversion H; subst. split; [reflexivity|]. destruct g; reflexivity.
  - inversion H; subst. split; [reflexivity|]. destruct g; reflexivity.
  - inversion H; subst. split; reflexivity.
Qed.

Lemma calm_trace i : forall xs n, (forall x, In x xs -> target x = i -> calm_nop x = true) ->
  forallb calm (ops_of i (trace n xs)) = true.
Proof.
  induction xs as [|x xs IH]; intros n Hc; cbn [System.trace]; [reflexivity|].
  assert (Hc' : forall y, In y xs -> target y = i -> calm_nop y = true) by (intros y Hy; apply Hc; right; exact Hy).
  destruct (resolve n x) as [[j o]|] eqn:Hr; [|apply IH; exact Hc'].
  destruct (j <? length (nodes n))%nat; [|apply IH; exact Hc'].
  unfold ops_of. cbn [filter fst]. destruct (Nat.eqb_spec j i) as [->|_]; [|apply IH; exact Hc'].
  cbn [map snd forallb]. destruct (resolve_target n x i o Hr) as [Ht Hcalm]. rewrite Hcalm, (Hc x (or_introl eq_refl) Ht). apply IH. exact Hc'.
Qed.

(* an event of the network that is an event of node i shows up in node i's projected history *)
Lemma happens_lift i (Pn : net -> nop -> Prop) (P : pstate -> op -> Prop) :
  (forall n x st, nth_error (nodes n) i = Some st -> Pn n x -> exists o, resolve n x = Some (i, o) /\ P st o) ->
  forall xs n st, nth_error (nodes n) i = Some st -> happens nstepf Pn n xs -> happens (stepf i) P st (ops_of i (trace n xs)).
Proof.
  intros Hlift. induction xs as [|x xs IH]; intros n st Hn Hev; cbn [happens] in Hev; [contradiction|]. cbn [System.trace].
  assert (Hlt : (i <? length (nodes n))%nat = true) by (apply Nat.ltb_lt; apply nth_error_Some; congruence).
  destruct Hev as [Hp|Hev].
  - destruct (Hlift n x st Hn Hp) as (o & Hr & HP). rewrite Hr, Hlt. unfold ops_of. cbn [filter fst]. rewrite Nat.eqb_refl. cbn [map snd happens].
    left. exact HP.
  - destruct (resolve n x) as [[j o]|] eqn:Hr.
    2:{ rewrite (nstep_idle_resolve recover keccak gov_chain gov_addr owns signs n x Hr) in *. cbn [fst] in *. apply (IH n st Hn Hev). }
    destruct (nth_error (nodes n) j) as [stj|] eqn:Hj.
    2:{ assert (Hlt' : (j <? length (nodes n))%nat = false) by (apply Nat.ltb_ge; apply nth_error_None; exact Hj). rewrite Hlt'.
        rewrite (nstep_idle_node recover keccak gov_chain gov_addr owns signs n x j o Hr Hj) in *. cbn [fst] in *. apply (IH n st Hn Hev). }
    assert (Hlt' : (j <? length (nodes n))%nat = true) by (apply Nat.ltb_lt; apply nth_error_Some; congruence). rewrite Hlt'.
    rewrite (nstep_unfold recover keccak gov_chain gov_addr owns signs n x j o stj Hr Hj) in *. cbn [fst] in *.
    unfold ops_of. cbn [filter fst]. destruct (Nat.eqb_spec j i) as [->|Hne].
    + rewrite Hn in Hj. inversion Hj; subst stj. cbn [map snd happens]. right. refine (IH _ _ _ Hev). cbn [nodes]. apply (nth_error_set_nth_same _ _ _ _ Hn).
    + apply (IH _ st); [cbn [nodes]; rewrite nth_error_set_nth_other by congruence; exact Hn|exact Hev].
Qed.

(* ... and back: an event of node i's projected history is an event of the network *)
Lemma happens_lower i (P : pstate -> op -> Prop) (Pn : net -> nop -> Prop) :
  (forall n x st o, nth_error (nodes n) i = Some st -> resolve n x = Some (i, o) -> P st o -> Pn n x) ->
  forall xs n st, nth_error (nodes n) i = Some st -> happens (stepf i) P st (ops_of i (trace n xs)) -> happens nstepf Pn n xs.
Proof.
  intros Hlow. induction xs as [|x xs IH]; intros n st Hn Hev; cbn [System.trace] in Hev; [destruct Hev|]. cbn [happens].
  destruct (resolve n x) as [[j o]|] eqn:Hr.
  2:{ right. rewrite (nstep_idle_resolve recover keccak gov_chain gov_addr owns signs n x Hr) in *. cbn [fst] in *. apply (IH n st Hn Hev). }
  destruct (nth_error (nodes n) j) as [stj|] eqn:Hj.
  2:{ assert (Hlt' : (j <? length (nodes n))%nat = false) by (apply Nat.ltb_ge; apply nth_error_None; exact Hj). rewrite Hlt' in Hev.
      right. rewrite (nstep_idle_node recover keccak gov_chain gov_addr owns signs n x j o Hr Hj) in *. cbn [fst] in *. apply (IH n st Hn Hev). }
  assert (Hlt' : (j <? length (nodes n))%nat = true) by (apply Nat.ltb_lt; apply nth_error_Some; congruence). rewrite Hlt' in Hev.
  rewrite (nstep_unfold recover keccak gov_chain gov_addr owns signs n x j o stj Hr Hj) in *. cbn [fst] in *.
  unfold ops_of in Hev. cbn [filter fst] in Hev. destruct (Nat.eqb_spec j i) as [->|Hne].
  - rewrite Hn in Hj. inversion Hj; subst stj. cbn [map snd happens] in Hev. destruct Hev as [HP|Hev].
    + left. apply (Hlow n x st o Hn Hr HP).
    + right. refine (IH _ _ _ Hev). cbn [nodes]. apply (nth_error_set_nth_same _ _ _ _ Hn).
  - right. apply (IH _ st); [cbn [nodes]; rewrite nth_error_set_nth_other by congruence; exact Hn|exact Hev].
Qed.

(* "at this network step node i puts a SignedVAAWithQuorum for digest h on the wire" *)
Definition ev_publishes (i : nat) (h : bytes) (n : net) (x : nop) : Prop :=
  exists st o, nth_error (nodes n) i = Some st /\ resolve n x = Some (i, o) /\
               bcast_for recover keccak (signs i) (owns i) gov_chain gov_addr h st o = true.

Lemma ev_publishes_output i h n x : ev_publishes i h n x -> existsb is_bcast (snd (nstep n x)) = true.
Proof.
  intros (st & o & Hn & Hr & Hb). rewrite (nstep_unfold recover keccak gov_chain gov_addr owns signs n x i o st Hr Hn). cbn [snd].
  unfold bcast_for in Hb. destruct (obs_of_op st o); [|discriminate]. apply andb_prop in Hb as [_ Hb]. exact Hb.
Qed.

(* an honest observer's step: if it signed, what it put on the wire is its observation of the message's digest *)
Lemma observer_emits sign own st m :
  existsb is_sendobs (snd (Processor.handle_message keccak sign own gov_chain gov_addr st m)) = true ->
  In (SendObs {| o_addr := own; o_hash := dg (vaa_of_message 0 m); o_sig := sign (dg (vaa_of_message 0 m)); o_tx := m_tx m |})
     (snd (Processor.handle_message keccak sign own gov_chain gov_addr st m)).
Proof.
  intros Hs. destruct (handle_message_cases keccak sign own gov_chain gov_addr st m) as [[_ Ho]|(g & _ & Hr)]; cbv zeta in *.
  - exfalso. destruct Ho as [Ho|[w Ho]]; rewrite Ho in Hs; discriminate.
  - rewrite Hr. unfold Processor.broadcast_signature. cbn [snd]. left. reflexivity.
Qed.

Hypothesis keccak_len : forall b, length (keccak b) = 32%nat.

(* "node j is an honest member of G": its address is a key of G and its signer is consistent with recovery *)
Definition honest_member (G : gset) (j : nat) : Prop :=
  In (owns j) (keys G) /\ length (owns j) = 20%nat /\ forall d, length d = 32%nat -> rec d (signs j d) = Some (owns j).

(* the events of a fair window, on the network *)
Definition ev_observes (i : nat) (m : msgpub) (n : net) (x : nop) : Prop :=
  x = NEnv i (EMsg m) /\ existsb is_sendobs (snd (nstep n x)) = true.
Definition ev_delivered (i j : nat) (h : bytes) (n : net) (x : nop) : Prop :=
  exists k tx, x = NDeliver i k /\ nth_error (pool n) k = Some (GObs {| o_addr := owns j; o_hash := h; o_sig := signs j h; o_tx := tx |}).

Theorem net_liveness N xs0 xs i G m (S : list nat) :
  (i < N)%nat -> Forall nop_wf xs0 -> Forall nop_wf xs ->
  let n0 := fst (nrun (ninit N) xs0) in
  let n1 := fst (nrun n0 xs) in
  let h := dg (vaa_of_message 0 m) in
  (forall st0, nth_error (nodes n0) i = Some st0 -> cur st0 = Some G /\ alookup h (agg st0) = None) -> ProcSpec.gs_wf G ->
  (forall x, In x xs -> target x = i -> calm_nop x = true) ->
  NoDup (map owns S) -> (forall j, In j S -> honest_member G j) ->
  go_quorum (Z.of_nat (length (keys G))) <= Z.of_nat (length S) -> In i S ->
  happens nstepf (ev_observes i m) n0 xs ->
  (forall j, In j S -> j <> i -> happens nstepf (ev_delivered i j h) n0 xs) ->
  (forall st, nth_error (nodes n1) i = Some st -> forall o, In o (loopq st) -> o_hash o <> h) ->
  exists st e, nth_error (nodes n1) i = Some st /\ alookup h (agg st) = Some e /\
               our_vaa e <> None /\ gs_snap e = Some G /\ submitted e = true.
Proof.
  intros Hi Hw0 Hw. cbv zeta. intros Hst0 Hgwf Hcalm ND Hhon Hq HiS Hobs Hdel Hlq.
  set (n0 := fst (nrun (ninit N) xs0)) in *. set (h := dg (vaa_of_message 0 m)) in *.
  pose proof (projection_init recover keccak gov_chain gov_addr owns signs N xs0 i Hi) as Hp0. fold n0 in Hp0.
  set (ops0 := ops_of i (trace (ninit N) xs0)) in *.
  set (st0 := fst (node_run i init ops0)) in *.
  pose proof (projection recover keccak gov_chain gov_addr owns signs xs n0 i st0 Hp0) as Hp1.
  set (ops := ops_of i (trace n0 xs)) in *.
  destruct (Hst0 st0 Hp0) as [Hcur Hno].
  destruct (Hhon i HiS) as (Hin_i & Hlen_i & Hsc_i).
  assert (Hwf0 : Forall ProcSpec.op_wf ops0) by (apply projected_wf; exact Hw0).
  assert (Hwf1 : Forall ProcSpec.op_wf ops) by (apply projected_wf; exact Hw).
  assert (Hc : forallb calm ops = true) by (apply calm_trace; exact Hcalm).
  (* node i observed m *)
  assert (Hmsg : happens (stepf i) (ev_msg recover keccak (signs i) (owns i) gov_chain gov_addr m) st0 ops).
  { apply (happens_lift i (ev_observes i m)); [|exact Hp0|exact Hobs].
    intros n x st Hn [Hx Hs]. subst x. exists (LocalMsg m). split; [reflexivity|]. split; [reflexivity|].
    rewrite (nstep_unfold recover keccak gov_chain gov_addr owns signs n (NEnv i (EMsg m)) i (LocalMsg m) st eq_refl Hn) in Hs. exact Hs. }
  (* the other observers' observations reached node i *)
  assert (Hothers : forall a, In a (map owns S) -> a <> owns i -> happens (stepf i) (ev_obs recover h a) st0 ops).
  { intros a Ha Hne. apply in_map_iff in Ha as (j & <- & Hj).
    assert (Hji : j <> i) by (intros ->; apply Hne; reflexivity).
    destruct (Hhon j Hj) as (_ & Hlen_j & Hsc_j).
    apply (happens_lift i (ev_delivered i j h)); [|exact Hp0|exact (Hdel j Hj Hji)].
    intros n x st Hn (k & tx & Hx & Hk). subst x. eexists. split; [cbn [resolve]; rewrite Hk; reflexivity|].
    eexists. split; [reflexivity|]. cbn [o_hash o_addr o_sig]. split; [reflexivity|]. split.
    - unfold bytes_to_address. rewrite Hlen_j. reflexivity.
    - apply Hsc_j. unfold h, Processor.dg, digest. apply keccak_len. }
  destruct (window_liveness recover keccak (signs i) (owns i) gov_chain gov_addr keccak_len Hlen_i Hsc_i G h Hin_i ops0 ops (map owns S) m
              Hwf0 Hwf1 Hc Hcur Hno Hgwf eq_refl Hmsg ND) as (e & He & Hv & Hs & Hsub).
  - intros a Ha. apply in_map_iff in Ha as (j & <- & Hj). destruct (Hhon j Hj) as (H1 & _). exact H1.
  - rewrite map_length. exact Hq.
  - exact Hothers.
  - apply (Hlq _ Hp1).
  - eexists. exists e. split; [exact Hp1|]. repeat split; assumption.
Qed.
(* ... and "submitted" is not a flag only: within the window there is a network step at which node i broadcasts the VAA *)
Theorem net_liveness_publishes N xs0 xs i G m (S : list nat) :
  (i < N)%nat -> Forall nop_wf xs0 -> Forall nop_wf xs ->
  let n0 := fst (nrun (ninit N) xs0) in
  let n1 := fst (nrun n0 xs) in
  let h := dg (vaa_of_message 0 m) in
  (forall st0, nth_error (nodes n0) i = Some st0 -> cur st0 = Some G /\ alookup h (agg st0) = None) -> ProcSpec.gs_wf G ->
  (forall x, In x xs -> target x = i -> calm_nop x = true) ->
  NoDup (map owns S) -> (forall j, In j S -> honest_member G j) ->
  go_quorum (Z.of_nat (length (keys G))) <= Z.of_nat (length S) -> In i S ->
  happens nstepf (ev_observes i m) n0 xs ->
  (forall j, In j S -> j <> i -> happens nstepf (ev_delivered i j h) n0 xs) ->
  (forall st, nth_error (nodes n1) i = Some st -> forall o, In o (loopq st) -> o_hash o <> h) ->
  happens nstepf (ev_publishes i h) n0 xs.
Proof.
  intros Hi Hw0 Hw. cbv zeta. intros Hst0 Hgwf Hcalm ND Hhon Hq HiS Hobs Hdel Hlq.
  destruct (net_liveness N xs0 xs i G m S Hi Hw0 Hw Hst0 Hgwf Hcalm ND Hhon Hq HiS Hobs Hdel Hlq) as (st & e & Hn1 & He & _ & _ & Hsub).
  set (n0 := fst (nrun (ninit N) xs0)) in *. set (h := dg (vaa_of_message 0 m)) in *.
  pose proof (projection_init recover keccak gov_chain gov_addr owns signs N xs0 i Hi) as Hp0. fold n0 in Hp0.
  set (ops0 := ops_of i (trace (ninit N) xs0)) in *.
  set (st0 := fst (node_run i init ops0)) in *.
  pose proof (projection recover keccak gov_chain gov_addr owns signs xs n0 i st0 Hp0) as Hp1.
  rewrite Hp1 in Hn1. inversion Hn1 as [Est]. clear Hn1.
  assert (Hwf0 : Forall ProcSpec.op_wf ops0) by (apply projected_wf; exact Hw0).
  assert (Hwf1 : Forall ProcSpec.op_wf (ops_of i (trace n0 xs))) by (apply projected_wf; exact Hw).
  destruct (reachable_invariants recover keccak (signs i) (owns i) gov_chain gov_addr ops0 Hwf0) as [[O0 HI0] HK0].
  destruct (Hst0 st0 Hp0) as [_ Hno].
  apply (happens_lower i (fun st o => bcast_for recover keccak (signs i) (owns i) gov_chain gov_addr h st o = true) (ev_publishes i h)) with (st := st0);
    [|exact Hp0|].
  - intros n x st' o Hn Hr Hb. exists st', o. repeat split; assumption.
  - apply (submitted_was_broadcast recover keccak (signs i) (owns i) gov_chain gov_addr h e (ops_of i (trace n0 xs)) O0 _ st0 HI0 HK0 Hwf1).
    + intros e0 He0. fold st0 in Hno. rewrite Hno in He0. discriminate.
    + unfold System.node_run in Est. rewrite Est. exact He.
    + exact Hsub.
Qed.
End LiveNet.
