(* C19: proofs about model/Explorer.v *)
From Coq Require Import List ZArith Lia Bool Arith.
From Coq Require Import Strings.Byte.
From WH Require Import lib.Bytes gen.Extracted model.Vaa model.Explorer proofs.VaaProofs proofs.QuorumProofs.
Import ListNotations.
Open Scope Z_scope.

(* ------------------------------------------------------------------ the guardian-set list *)
(* the list is aligned with the indices: element n is the set with index n, and the current index is the last position *)
Definition aligned (s : store) : Prop :=
  0 <= cur s < 2 ^ 32 /\ cur s + 1 = Z.of_nat (length (lists s)) /\
  forall n g, nth_error (lists s) n = Some g -> g_index g = Z.of_nat n.

(* what getGuardianSetsFromChain produces: consecutive indices starting at [from] *)
Definition contiguous (from : Z) (l : list gset) : Prop :=
  forall n g, nth_error l n = Some g -> g_index g = from + Z.of_nat n.

Lemma contiguous_tail from g t : contiguous from (g :: t) -> g_index g = from /\ contiguous (from + 1) t.
Proof.
  intros H. split.
  - specialize (H 0%nat g eq_refl). lia.
  - intros n g' Hn. specialize (H (S n) g' Hn). lia.
Qed.

Lemma nth_error_skipn' {A} (k : nat) : forall (l : list A) n, nth_error (skipn k l) n = nth_error l (k + n).
Proof.
  induction k as [|k IH]; intros l n; [reflexivity|].
  destruct l as [|a l]; cbn [skipn Nat.add nth_error]; [destruct n; reflexivity|apply IH].
Qed.

Lemma contiguous_skipn from l k : contiguous from l -> contiguous (from + Z.of_nat k) (skipn k l).
Proof.
  intros H n g Hn. rewrite nth_error_skipn' in Hn. specialize (H _ _ Hn). lia.
Qed.

Lemma last_index_contig from l : contiguous from l -> l <> [] -> last_index l = Some (from + Z.of_nat (length l) - 1).
Proof.
  intros H Hne. destruct l as [|a l'] using rev_ind; [contradiction|]. clear IHl'.
  unfold last_index. rewrite rev_app_distr. cbn [rev app].
  assert (E : nth_error (l' ++ [a]) (length l') = Some a).
  { rewrite nth_error_app2 by lia. rewrite Nat.sub_diag. reflexivity. }
  specialize (H _ _ E). rewrite app_length. cbn [length]. f_equal. lia.
Qed.

Lemma find_start_contig l : forall from i want, contiguous from l ->
  from <= want < from + Z.of_nat (length l) -> find_start want i l = (i + Z.to_nat (want - from))%nat.
Proof.
  induction l as [|g t IH]; intros from i want Hc Hw; cbn [length] in Hw; [lia|].
  apply contiguous_tail in Hc as [Hg Hc]. cbn [find_start]. rewrite Hg.
  destruct (Z.eqb_spec from want) as [->|Hne].
  - rewrite Z.sub_diag. cbn. lia.
  - rewrite (IH (from + 1) (S i) want Hc) by lia. lia.
Qed.

Lemma u32_small x : 0 <= x < 2 ^ 32 -> u32 x = x.
Proof. intros H. unfold u32. apply Z.mod_small. exact H. Qed.

(* what update does on a contiguous batch that starts no later than current+1 *)
Lemma update_contig s batch from : aligned s -> contiguous from batch -> 0 <= from <= cur s + 1 ->
  from + Z.of_nat (length batch) <= 2 ^ 32 ->
  aligned (update s batch) /\ cur s <= cur (update s batch) /\ exists suf, lists (update s batch) = lists s ++ suf.
Proof.
  intros (Hc & Hl & Hn) Hct Hfrom Hlen.
  assert (Hal : aligned s) by exact (conj Hc (conj Hl Hn)).
  unfold update, update_plan.
  destruct batch as [|b0 bt] eqn:EB.
  { cbn. split; [exact Hal|]. split; [lia|]. exists []. rewrite app_nil_r. reflexivity. }
  rewrite <- EB in *. assert (Hne : batch <> []) by (rewrite EB; discriminate).
  rewrite (last_index_contig from batch Hct Hne).
  rewrite (u32_small (cur s)) by lia.
  set (maxi := from + Z.of_nat (length batch) - 1).
  destruct (Z.leb_spec maxi (cur s)) as [Hle|Hgt].
  { split; [exact Hal|]. split; [lia|]. exists []. rewrite app_nil_r. reflexivity. }
  rewrite (u32_small (cur s + 1)) by lia.
  rewrite (find_start_contig batch from 0 (cur s + 1) Hct) by lia.
  set (p := (0 + Z.to_nat (cur s + 1 - from))%nat).
  assert (Hp : Z.of_nat p = cur s + 1 - from) by (unfold p; lia).
  pose proof (contiguous_skipn from batch p Hct) as Hsk.
  assert (Hskl : Z.of_nat (length (skipn p batch)) = maxi - cur s) by (rewrite skipn_length; unfold maxi; lia).
  unfold write_append, write_index. cbn [cur lists].
  split; [|split; [lia|eexists; reflexivity]].
  unfold aligned. cbn [cur lists]. split; [unfold maxi; lia|]. split.
  - rewrite app_length. lia.
  - intros n g Hg. destruct (Nat.lt_ge_cases n (length (lists s))) as [Hlt|Hge].
    + rewrite nth_error_app1 in Hg by assumption. apply Hn. exact Hg.
    + rewrite nth_error_app2 in Hg by assumption. specialize (Hsk _ _ Hg). lia.
Qed.

Lemma nth_set_aligned s i : aligned s -> 0 <= i <= cur s -> exists g, nth_set s i = Some g /\ g_index g = i.
Proof.
  intros (Hc & Hl & Hn) Hi. unfold nth_set. destruct (Z.ltb_spec i 0) as [|_]; [lia|].
  destruct (nth_error (lists s) (Z.to_nat i)) as [g|] eqn:E.
  - exists g. split; [reflexivity|]. rewrite (Hn _ _ E). lia.
  - apply nth_error_None in E. lia.
Qed.

Lemma nth_set_index s i g : aligned s -> nth_set s i = Some g -> g_index g = i.
Proof.
  intros (Hc & Hl & Hn). unfold nth_set. destruct (Z.ltb_spec i 0) as [|Hi]; [discriminate|].
  intros E. rewrite (Hn _ _ E). lia.
Qed.

Lemma nth_set_app s s' i g suf : lists s' = lists s ++ suf -> nth_set s i = Some g -> nth_set s' i = Some g.
Proof.
  unfold nth_set. intros E. destruct (i <? 0); [discriminate|]. rewrite E. intros H.
  rewrite nth_error_app1; [exact H|]. apply nth_error_Some. congruence.
Qed.

(* ------------------------------------------------------------------ GetGuardianSet *)
Section GetProofs.
Variable chain : Z -> Z -> option (list gset).

(* the chain fetch answers with consecutive indices starting at the first one asked for *)
Definition chain_ok : Prop :=
  forall from to l, chain from to = Some l -> contiguous from l /\ from + Z.of_nat (length l) <= 2 ^ 32.

Lemma get_ok_nth s i s' g sent : get chain s i = (s', GOk g, sent) -> nth_set s' i = Some g.
Proof.
  unfold get. destruct (i <=? cur s).
  - destruct (nth_set s i) eqn:E; intros H; inversion H; subst. exact E.
  - destruct (chain (u32 (cur s + 1)) (u32 i)) as [b|]; [|discriminate].
    destruct (get_current (update s b)); [|discriminate].
    destruct (cur (update s b) <? i); [discriminate|].
    destruct (nth_set (update s b) i) eqn:E; intros H; inversion H; subst. exact E.
Qed.

(* a successful lookup, repeated, takes the fast path and gives the same set *)
Lemma get_again s i s' g sent : get chain s i = (s', GOk g, sent) -> get chain s' i = (s', GOk g, []).
Proof.
  intros H. pose proof (get_ok_nth _ _ _ _ _ H) as Hn. revert H. unfold get at 1.
  destruct (Z.leb_spec i (cur s)) as [Hle|Hgt].
  - destruct (nth_set s i); intros H; inversion H; subst. unfold get.
    destruct (Z.leb_spec i (cur s')); [|lia]. rewrite Hn. reflexivity.
  - destruct (chain (u32 (cur s + 1)) (u32 i)) as [b|]; [|discriminate].
    destruct (get_current (update s b)); [|discriminate].
    destruct (Z.ltb_spec (cur (update s b)) i) as [|Hge]; [discriminate|].
    destruct (nth_set (update s b) i); intros H; inversion H; subst. unfold get.
    destruct (Z.leb_spec i (cur (update s b))); [|lia]. rewrite Hn. reflexivity.
Qed.

Theorem get_aligned s i s' r sent : aligned s -> chain_ok -> 0 <= i < 2 ^ 32 -> get chain s i = (s', r, sent) ->
  aligned s' /\ r <> GPanic /\ (forall g, r = GOk g -> g_index g = i /\ nth_set s' i = Some g).
Proof.
  intros Hal Hch Hi. unfold get.
  destruct (Z.leb_spec i (cur s)) as [Hle|Hgt].
  - destruct (nth_set_aligned s i Hal ltac:(lia)) as (g & Eg & Ig). rewrite Eg.
    intros H; inversion H; subst. split; [exact Hal|]. split; [discriminate|].
    intros g' Hg'; inversion Hg'; subst. split; [reflexivity|exact Eg].
  - pose proof Hal as (Hc & Hl & Hn).
    rewrite (u32_small (cur s + 1)) by lia.
    destruct (chain (cur s + 1) (u32 i)) as [b|] eqn:EC.
    2:{ intros H; inversion H; subst. split; [exact Hal|]. split; discriminate. }
    destruct (Hch _ _ _ EC) as [Hct Hlen].
    destruct (update_contig s b (cur s + 1) Hal Hct ltac:(lia) Hlen) as (Hal' & Hcur & suf & Hsuf).
    pose proof Hal' as (Hc' & _).
    destruct (nth_set_aligned _ (cur (update s b)) Hal' ltac:(lia)) as (c & Ec & _).
    unfold get_current. rewrite Ec.
    destruct (Z.ltb_spec (cur (update s b)) i) as [Hlt|Hge].
    { intros H; inversion H; subst. split; [exact Hal'|]. split; discriminate. }
    destruct (nth_set_aligned _ i Hal' ltac:(lia)) as (g & Eg & Ig). rewrite Eg.
    intros H; inversion H; subst. split; [exact Hal'|]. split; [discriminate|].
    intros g' Hg'; inversion Hg'; subst. split; [reflexivity|exact Eg].
Qed.
End GetProofs.

(* ------------------------------------------------------------------ verifyVAA / Push *)
Section GateProofs.
Variable recover : bytes -> bytes -> option bytes.
Variable keccak : bytes -> bytes.
Variable chain : Z -> Z -> option (list gset).
Variable qcap : nat.

Lemma verify_vaa_ok v addrs : verify_vaa recover keccak v addrs = None <->
  exists a, addrs = Some a /\ sigs v <> [] /\ go_quorum (Z.of_nat (length a)) <= Z.of_nat (length (sigs v)) /\
            verify_sigs recover keccak v a = true.
Proof.
  unfold verify_vaa. destruct addrs as [a|].
  2:{ split; [discriminate|]. intros (a & H & _). discriminate. }
  destruct (Nat.eqb_spec (length (sigs v)) 0) as [Hz|Hnz].
  { split; [discriminate|]. intros (a' & _ & Hne & _). destruct (sigs v); [contradiction|discriminate]. }
  destruct (Z.ltb_spec (Z.of_nat (length (sigs v))) (go_quorum (Z.of_nat (length a)))) as [Hlt|Hge].
  { split; [discriminate|]. intros (a' & E & _ & Hq & _). inversion E; subst. lia. }
  destruct (verify_sigs recover keccak v a) eqn:EV; cbn [negb].
  - split; [|reflexivity]. intros _. exists a. repeat split; try assumption.
    intros Hs. rewrite Hs in Hnz. contradiction.
  - split; [discriminate|]. intros (a' & E & _ & _ & Hv). inversion E; subst. congruence.
Qed.

Lemma enqueue_some m q q' : enqueue qcap m q = Some q' <-> ((length q < qcap)%nat /\ q' = q ++ [m]).
Proof.
  unfold enqueue. destruct (Nat.ltb_spec (length q) qcap) as [H|H].
  - split; [intros E; inversion E; auto|intros [_ ->]; reflexivity].
  - split; [discriminate|intros [H' _]; lia].
Qed.

(* the gate: a message reaches the queue only through a successful verification against the list element at the
   position the VAA names *)
Theorem push_enqueued st m st' sent : push recover keccak chain qcap st m = (st', PEnqueued, sent) ->
  exists g a,
    nth_set (p_gs st') (gsidx (fst m)) = Some g /\ g_keys g = Some a /\
    sigs (fst m) <> [] /\
    go_quorum (Z.of_nat (length a)) <= Z.of_nat (length (sigs (fst m))) /\
    verify_sigs recover keccak (fst m) a = true /\
    ~ In (key_of (fst m)) (p_seen st) /\ (length (p_queue st) < qcap)%nat /\
    p_queue st' = p_queue st ++ [m] /\ p_seen st' = key_of (fst m) :: p_seen st.
Proof.
  unfold push. destruct (get chain (p_gs st) (gsidx (fst m))) as [[s' r] sn] eqn:EG.
  destruct r as [g| | |]; try (intros H; inversion H; fail).
  destruct (verify_vaa recover keccak (fst m) (g_keys g)) as [e|] eqn:EV; [intros H; inversion H|].
  apply verify_vaa_ok in EV as (a & Ea & Hne & Hq & Hv).
  unfold dedup_apply. destruct (seenb (key_of (fst m)) (p_seen st)) eqn:ES; [intros H; inversion H|].
  destruct (enqueue qcap m (p_queue st)) as [q'|] eqn:EQ; [|intros H; inversion H].
  apply enqueue_some in EQ as [Hlen ->].
  intros H; inversion H; subst; clear H. cbn [p_gs p_queue p_seen].
  exists g, a. repeat apply conj; try assumption; try reflexivity.
  - eapply get_ok_nth; exact EG.
  - intros Hin. unfold seenb in ES.
    assert (existsb (mkey_eqb (key_of (fst m))) (p_seen st) = true); [|congruence].
    apply existsb_exists. exists (key_of (fst m)). split; [assumption|].
    destruct (key_of (fst m)) as [[[c ad] t] sq]. cbn. rewrite !Z.eqb_refl, bytes_eqb_refl. reflexivity.
Qed.

(* Push changes the guardian-set store only through GetGuardianSet *)
Lemma push_gs st m st' r sent : push recover keccak chain qcap st m = (st', r, sent) ->
  exists r0, get chain (p_gs st) (gsidx (fst m)) = (p_gs st', r0, sent).
Proof.
  unfold push. destruct (get chain (p_gs st) (gsidx (fst m))) as [[s' r0] sn].
  destruct r0 as [g| | |]; try (intros H; inversion H; subst; cbn; eexists; reflexivity).
  destruct (verify_vaa recover keccak (fst m) (g_keys g)); [intros H; inversion H; subst; cbn; eexists; reflexivity|].
  destruct (dedup_apply (p_seen st) (key_of (fst m)) (enqueue qcap m) (p_queue st)) as [[sn' q'] d].
  intros H; inversion H; subst; cbn. eexists; reflexivity.
Qed.

(* the gate in the property's own words: on an aligned store with a chain that answers with consecutive indices, an enqueued
   VAA carries, from the set WITH THE INDEX IT NAMES, valid ordered in-set signatures of at least floor(2n/3)+1 distinct members *)
Theorem push_enqueued_named_set st m st' sent :
  aligned (p_gs st) -> chain_ok chain -> 0 <= gsidx (fst m) < 2 ^ 32 ->
  push recover keccak chain qcap st m = (st', PEnqueued, sent) ->
  aligned (p_gs st') /\
  exists g a,
    nth_set (p_gs st') (gsidx (fst m)) = Some g /\ g_index g = gsidx (fst m) /\ g_keys g = Some a /\
    spec_quorum (Z.of_nat (length a)) <= Z.of_nat (length (sigs (fst m))) /\
    accepts recover (digest keccak (fst m)) a (sigs (fst m)) /\
    p_queue st' = p_queue st ++ [m].
Proof.
  intros Hal Hch Hi H. destruct (push_gs _ _ _ _ _ H) as (r0 & EG).
  destruct (get_aligned chain _ _ _ _ _ Hal Hch Hi EG) as (Hal' & _ & _).
  split; [exact Hal'|].
  destruct (push_enqueued _ _ _ _ H) as (g & a & Hn & Hk & Hne & Hq & Hv & _ & _ & Hqueue & _).
  exists g, a. split; [exact Hn|]. split; [eapply nth_set_index; eassumption|]. split; [exact Hk|].
  split; [rewrite <- go_quorum_spec by lia; exact Hq|]. split; [|exact Hqueue].
  apply verify_sigs_iff. exact Hv.
Qed.

(* every other outcome leaves the queue and the seen-set as they were *)
Theorem push_not_enqueued st m st' r sent : push recover keccak chain qcap st m = (st', r, sent) -> r <> PEnqueued ->
  p_queue st' = p_queue st /\ p_seen st' = p_seen st.
Proof.
  unfold push. destruct (get chain (p_gs st) (gsidx (fst m))) as [[s' r0] sn].
  destruct r0 as [g| | |]; try (intros H; inversion H; subst; cbn; auto; fail).
  destruct (verify_vaa recover keccak (fst m) (g_keys g)); [intros H; inversion H; subst; cbn; auto|].
  unfold dedup_apply. destruct (seenb (key_of (fst m)) (p_seen st)); [intros H; inversion H; subst; cbn; auto|].
  destruct (enqueue qcap m (p_queue st)); intros H; inversion H; subst; cbn; auto. intros Hc. contradiction.
Qed.

Lemma mkey_eqb_eq a b : mkey_eqb a b = true <-> a = b.
Proof.
  destruct a as [[[c1 a1] t1] s1], b as [[[c2 a2] t2] s2]. cbn.
  rewrite !andb_true_iff, !Z.eqb_eq, bytes_eqb_eq. split.
  - intros [[[-> ->] ->] ->]. reflexivity.
  - intros H; inversion H; auto.
Qed.

Lemma seenb_false k seen : ~ In k seen -> seenb k seen = false.
Proof.
  intros H. unfold seenb. destruct (existsb (mkey_eqb k) seen) eqn:E; [|reflexivity].
  apply existsb_exists in E as (x & Hx & Ex). apply mkey_eqb_eq in Ex. subst. contradiction.
Qed.

Lemma seenb_true_in k seen : seenb k seen = true -> In k seen.
Proof.
  unfold seenb. intros E. apply existsb_exists in E as (x & Hx & Ex). apply mkey_eqb_eq in Ex. subst. exact Hx.
Qed.

(* a failed hand-off does not mark the key: the next copy, arriving when there is room, is queued *)
Theorem push_full_then_accepted st m st1 sent : push recover keccak chain qcap st m = (st1, PQueueFull, sent) ->
  p_seen st1 = p_seen st /\ p_queue st1 = p_queue st /\ ~ In (key_of (fst m)) (p_seen st1) /\
  forall st2, p_gs st2 = p_gs st1 -> ~ In (key_of (fst m)) (p_seen st2) -> (length (p_queue st2) < qcap)%nat ->
    push recover keccak chain qcap st2 m =
      ({| p_gs := p_gs st1; p_seen := key_of (fst m) :: p_seen st2; p_queue := p_queue st2 ++ [m] |}, PEnqueued, []).
Proof.
  unfold push at 1. destruct (get chain (p_gs st) (gsidx (fst m))) as [[s' r0] sn] eqn:EG.
  destruct r0 as [g| | |]; try (intros H; inversion H; fail).
  destruct (verify_vaa recover keccak (fst m) (g_keys g)) eqn:EV; [intros H; inversion H|].
  unfold dedup_apply. destruct (seenb (key_of (fst m)) (p_seen st)) eqn:ES; [intros H; inversion H|].
  destruct (enqueue qcap m (p_queue st)) eqn:EQ; intros H; inversion H; subst; clear H. cbn [p_gs p_seen p_queue].
  repeat apply conj; try reflexivity.
  - intros Hin. assert (seenb (key_of (fst m)) (p_seen st) = true); [|congruence].
    unfold seenb. apply existsb_exists. exists (key_of (fst m)). split; [assumption|]. apply mkey_eqb_eq. reflexivity.
  - intros st2 Hgs Hns Hlen. unfold push. rewrite Hgs. rewrite (get_again _ _ _ _ _ _ EG). rewrite EV.
    unfold dedup_apply. rewrite (seenb_false _ _ Hns).
    assert (EQ2 : enqueue qcap m (p_queue st2) = Some (p_queue st2 ++ [m])) by (apply enqueue_some; auto).
    rewrite EQ2. reflexivity.
Qed.

(* dedup in isolation: a failing callback changes nothing; a succeeding one marks; a marked key skips the callback *)
Lemma dedup_apply_spec {S} seen k (cb : S -> option S) s :
  dedup_apply seen k cb s =
    if seenb k seen then (seen, s, DSkipped)
    else match cb s with None => (seen, s, DFailed) | Some s' => (k :: seen, s', DApplied) end.
Proof. reflexivity. Qed.
End GateProofs.

(* ------------------------------------------------------------------ interleaving of one lookup with one append *)
Section InterleaveProofs.
Variable index_first : bool.
Variable batch : list gset.
Variable i : Z.
Variable s0 : store.
Variable from : Z.
Hypothesis Hal : aligned s0.
Hypothesis Hct : contiguous from batch.
Hypothesis Hfrom : 0 <= from <= cur s0 + 1.
Hypothesis Hlen : from + Z.of_nat (length batch) <= 2 ^ 32.
Hypothesis Hi : 0 <= i.

Definition s1 : store := update s0 batch.

(* what the reader may return: the set at position i of the list (which carries index i), or "not there yet" *)
Definition good (r : rres) : Prop :=
  match r with
  | RSet g => g_index g = i /\ nth_set s1 i = Some g
  | RMiss => True
  | RPanic => False
  end.

Definition winv (c : cst) : Prop :=
  match c_w c with
  | W0 => c_store c = s0 /\ c_lock c <> Some TW
  | W1 => c_store c = s0 /\ c_lock c = Some TW
  | W2 n suf => c_lock c = Some TW /\ update_plan s0 batch = Some (n, suf) /\
                c_store c = (if index_first then write_index s0 n else write_append s0 suf)
  | W3 => c_store c = s1 /\ c_lock c = Some TW
  | W4 => c_store c = s1 /\ c_lock c <> Some TW
  end.

Definition rinv (c : cst) : Prop :=
  match c_r c with
  | R0 => c_lock c <> Some TR
  | R1 => c_lock c = Some TR
  | R2 => c_lock c = Some TR /\ i <= cur (c_store c)
  | R3 r => c_lock c = Some TR /\ good r
  | R4 r => c_lock c <> Some TR /\ good r
  end.

Definition cinv (c : cst) : Prop := winv c /\ rinv c.

Lemma s1_facts : aligned s1 /\ cur s0 <= cur s1 /\ exists suf, lists s1 = lists s0 ++ suf.
Proof. exact (update_contig s0 batch from Hal Hct Hfrom Hlen). Qed.

Lemma read_good s : (s = s0 \/ s = s1) -> i <= cur s -> good (read_set i s).
Proof.
  intros Hs Hle. destruct s1_facts as (Hal1 & Hcur & suf & Hsuf).
  assert (Hs_al : aligned s) by (destruct Hs; subst; assumption).
  destruct (nth_set_aligned s i Hs_al ltac:(lia)) as (g & Eg & Ig).
  unfold read_set. rewrite Eg. cbn [good]. split; [exact Ig|].
  destruct Hs as [->| ->]; [|exact Eg]. eapply nth_set_app; eassumption.
Qed.

Lemma cinv_init : cinv (cinit s0).
Proof. split; cbn; [split; [reflexivity|discriminate]|discriminate]. Qed.

Lemma store_when_reader_holds c : cinv c -> c_lock c = Some TR -> c_store c = s0 \/ c_store c = s1.
Proof.
  intros [Hw _] Hl. unfold winv in Hw. destruct (c_w c).
  - left; tauto.
  - destruct Hw as [_ Hw]; congruence.
  - destruct Hw as [Hw _]; congruence.
  - destruct Hw as [_ Hw]; congruence.
  - right; tauto.
Qed.

Lemma wstep_inv c c' : cinv c -> wstep index_first batch c = Some c' -> cinv c'.
Proof.
  intros Hc. pose proof Hc as [Hw Hr]. destruct c as [st lk w r]. unfold cinv in *. unfold wstep, winv, rinv in *. cbn [c_w c_r c_lock c_store] in *.
  destruct w as [| |n suf| |].
  - (* W0 *)
    destruct Hw as [-> Hlk]. destruct batch as [|b0 bt] eqn:EB.
    + intros H; inversion H; subst; clear H. unfold set_w, winv, rinv; cbn [c_w c_r c_lock c_store].
      split; [|exact Hr]. split; [|assumption]. unfold s1, update, update_plan. rewrite EB. reflexivity.
    + destruct lk as [t|]; [discriminate|]. intros H; inversion H; subst; clear H.
      unfold set_w; cbn [c_w c_r c_lock c_store]. split; [split; reflexivity|].
      destruct r; try (destruct Hr; discriminate); try discriminate; try congruence.
      destruct Hr as [_ Hg]. split; [discriminate|exact Hg].
  - (* W1 *)
    destruct Hw as [-> ->].
    assert (Hr' : forall s', match r with R0 => Some TW <> Some TR | R1 => Some TW = Some TR | R2 => Some TW = Some TR /\ i <= cur s'
                                        | R3 x => Some TW = Some TR /\ good x | R4 x => Some TW <> Some TR /\ good x end).
    { intros s'. destruct r; first [exact Hr | discriminate | congruence | (destruct Hr; discriminate) | (destruct Hr as [_ Hg]; split; [discriminate|exact Hg])]. }
    destruct (update_plan s0 batch) as [[n suf]|] eqn:EP.
    + destruct index_first; intros H; inversion H; subst; clear H; unfold set_w; cbn [c_w c_r c_lock c_store];
        (split; [repeat split; first [reflexivity|exact EP]|apply Hr']).
    + intros H; inversion H; subst; clear H. unfold set_w; cbn [c_w c_r c_lock c_store].
      split; [|apply Hr']. split; [|reflexivity]. unfold s1, update. rewrite EP. reflexivity.
  - (* W2 *)
    destruct Hw as (-> & EP & ->).
    assert (Hr' : forall s', match r with R0 => Some TW <> Some TR | R1 => Some TW = Some TR | R2 => Some TW = Some TR /\ i <= cur s'
                                        | R3 x => Some TW = Some TR /\ good x | R4 x => Some TW <> Some TR /\ good x end).
    { intros s'. destruct r; first [exact Hr | discriminate | congruence | (destruct Hr; discriminate) | (destruct Hr as [_ Hg]; split; [discriminate|exact Hg])]. }
    destruct index_first; intros H; inversion H; subst; clear H; unfold set_w; cbn [c_w c_r c_lock c_store];
      (split; [|apply Hr']); (split; [|reflexivity]); unfold s1, update; rewrite EP; reflexivity.
  - (* W3 *)
    destruct Hw as [-> ->]. intros H; inversion H; subst; clear H. unfold set_w; cbn [c_w c_r c_lock c_store].
    split; [split; [reflexivity|discriminate]|].
    destruct r; try (destruct Hr; discriminate); try discriminate. destruct Hr as [_ Hg]. split; [discriminate|exact Hg].
  - discriminate.
Qed.

Lemma rstep_inv c c' : cinv c -> rstep true i c = Some c' -> cinv c'.
Proof.
  intros Hc. pose proof Hc as [Hw Hr]. pose proof (store_when_reader_holds c Hc) as Hst.
  destruct c as [st lk w r]. unfold cinv in *. unfold rstep, winv, rinv in *. cbn [c_w c_r c_lock c_store] in *.
  assert (Hw' : forall l', (lk = None \/ lk = Some TR) -> (l' = None \/ l' = Some TR) ->
            match w with W0 => st = s0 /\ l' <> Some TW | W1 => st = s0 /\ l' = Some TW
                       | W2 n suf => l' = Some TW /\ update_plan s0 batch = Some (n, suf) /\ st = (if index_first then write_index s0 n else write_append s0 suf)
                       | W3 => st = s1 /\ l' = Some TW | W4 => st = s1 /\ l' <> Some TW end).
  { intros l' Hlk Hl'. destruct w; try (destruct Hw as [? Hw]; split; [assumption|destruct Hl'; congruence]);
      exfalso; destruct Hlk; intuition congruence. }
  destruct r as [| | |x|x].
  - (* R0 *) destruct lk as [t|]; [discriminate|]. intros H; inversion H; subst; clear H. unfold set_r; cbn [c_w c_r c_lock c_store].
    split; [apply Hw'; auto|reflexivity].
  - (* R1 *) subst lk. destruct (Z.leb_spec i (cur st)) as [Hle|Hgt]; intros H; inversion H; subst; clear H; unfold set_r; cbn [c_w c_r c_lock c_store];
      (split; [apply Hw'; auto|]).
    + split; [reflexivity|exact Hle].
    + split; [reflexivity|exact I].
  - (* R2 *) destruct Hr as [-> Hle]. intros H; inversion H; subst; clear H. unfold set_r; cbn [c_w c_r c_lock c_store].
    split; [apply Hw'; auto|]. split; [reflexivity|]. apply read_good; [apply Hst; reflexivity|exact Hle].
  - (* R3 *) destruct Hr as [-> Hg]. intros H; inversion H; subst; clear H. unfold set_r; cbn [c_w c_r c_lock c_store].
    split; [apply Hw'; auto|]. split; [discriminate|exact Hg].
  - discriminate.
Qed.

Lemma cstep_inv t c : cinv c -> cinv (cstep true index_first batch i t c).
Proof.
  intros Hc. unfold cstep. destruct t.
  - destruct (rstep true i c) eqn:E; [eapply rstep_inv; eassumption|exact Hc].
  - destruct (wstep index_first batch c) eqn:E; [eapply wstep_inv; eassumption|exact Hc].
Qed.

Theorem crun_inv sched : forall c, cinv c -> cinv (crun true index_first batch i sched c).
Proof.
  induction sched as [|t sched IH]; intros c Hc; [exact Hc|]. cbn [crun fold_left]. apply IH. apply cstep_inv. exact Hc.
Qed.

(* no deadlock: unless both have returned, somebody can move *)
Lemma no_deadlock c : cinv c -> (exists r, c_r c = R4 r) /\ c_w c = W4 \/ rstep true i c <> None \/ wstep index_first batch c <> None.
Proof.
  intros [Hw Hr]. destruct c as [st lk w r]. unfold winv, rinv, rstep, wstep in *. cbn [c_w c_r c_lock c_store] in *.
  destruct r as [| | |x|x].
  - destruct lk as [t|]; [|right; left; discriminate]. right; right.
    destruct w; try discriminate.
    + destruct t; [congruence|]. destruct Hw; congruence.
    + destruct (update_plan st batch) as [[? ?]|]; [destruct index_first|]; discriminate.
    + destruct index_first; discriminate.
    + destruct t; [congruence|]. destruct Hw; congruence.
  - right; left. destruct (i <=? cur st); discriminate.
  - right; left. discriminate.
  - right; left. discriminate.
  - destruct w; try (right; right; (destruct index_first; discriminate) || discriminate).
    + right; right. destruct batch; [discriminate|]. destruct lk as [t|]; [|discriminate].
      destruct Hr as [Hr _]. destruct Hw as [_ Hw]. destruct t; congruence.
    + right; right. destruct (update_plan st batch) as [[? ?]|]; [destruct index_first|]; discriminate.
    + left. split; [eexists; reflexivity|reflexivity].
Qed.
End InterleaveProofs.

(* the reader's answer and the final store, for every schedule *)
Theorem interleaving_locked index_first batch i s0 from sched :
  aligned s0 -> contiguous from batch -> 0 <= from <= cur s0 + 1 -> from + Z.of_nat (length batch) <= 2 ^ 32 -> 0 <= i ->
  let c := crun true index_first batch i sched (cinit s0) in
  (forall r, c_r c = R4 r \/ c_r c = R3 r ->
     match r with RSet g => g_index g = i /\ nth_set (update s0 batch) i = Some g | RMiss => True | RPanic => False end) /\
  (c_w c = W4 -> c_store c = update s0 batch) /\
  ((exists r, c_r c = R4 r) /\ c_w c = W4 \/ rstep true i c <> None \/ wstep index_first batch c <> None).
Proof.
  intros Hal Hct Hfrom Hlen Hi c.
  pose proof (crun_inv index_first batch i s0 from Hal Hct Hfrom Hlen Hi sched (cinit s0) (cinv_init _ _ _ _)) as Hc.
  fold c in Hc. split; [|split].
  - intros r Hr. destruct Hc as [_ Hc]. unfold rinv in Hc. destruct Hr as [Hr|Hr]; rewrite Hr in Hc; destruct Hc as [_ Hg]; exact Hg.
  - intros Hw. destruct Hc as [Hc _]. unfold winv in Hc. rewrite Hw in Hc. destruct Hc as [Hc _]. exact Hc.
  - eapply no_deadlock; eassumption.
Qed.

(* ------------------------------------------------------------------ witnesses *)
Definition ex_set (n : Z) : gset := {| g_index := n; g_keys := Some [[byte_of_Z n]] |}.

(* the unlocked reader of the original code: writer stores the index, reader compares and indexes, writer appends *)
Lemma interleaving_unlocked_panics :
  c_r (crun false true [ex_set 1] 1 [TW; TW; TR; TR; TW; TW] (cinit {| cur := 0; lists := [ex_set 0] |})) = R4 RPanic.
Proof. vm_compute. reflexivity. Qed.

(* a batch that does not contain current+1 (cannot come from the fetch code) misaligns the list *)
Lemma update_gap_misaligns :
  let s := update {| cur := 0; lists := [ex_set 0] |} [ex_set 2] in
  cur s = 2 /\ nth_set s 1 = Some (ex_set 2) /\ nth_set s 2 = None.
Proof. vm_compute. repeat split; reflexivity. Qed.

(* ------------------------------------------------------------------ any number of lookups and appends *)
(* When every access to the store happens inside a critical section of gs.lock (extracted: explorer_reader_locked), a concurrent
   execution of any number of GetGuardianSet / GetCurrentGuardianSet / updateGuardianSets calls is a sequence of critical sections:
   lookups (compare with the current index, then index the list) and appends.  An append's batch comes from a chain fetch that
   started at (the current index some earlier critical section saw) + 1, so it is contiguous and starts no later than current+1. *)
Inductive sop := OLookup (i : Z) | OAppend (from : Z) (batch : list gset).

Definition sop_ok (s : store) (o : sop) : Prop :=
  match o with
  | OLookup i => 0 <= i
  | OAppend from b => contiguous from b /\ 0 <= from <= cur s + 1 /\ from + Z.of_nat (length b) <= 2 ^ 32
  end.

Definition lookup_locked (s : store) (i : Z) : rres :=
  if i <=? cur s then match nth_set s i with Some g => RSet g | None => RPanic end else RMiss.

Definition sstep (s : store) (o : sop) : store * option rres :=
  match o with
  | OLookup i => (s, Some (lookup_locked s i))
  | OAppend _ b => (update s b, None)
  end.

Fixpoint all_ok (s : store) (ops : list sop) : Prop :=
  match ops with
  | [] => True
  | o :: t => sop_ok s o /\ all_ok (fst (sstep s o)) t
  end.

Fixpoint srun (s : store) (ops : list sop) : store * list (Z * rres) :=
  match ops with
  | [] => (s, [])
  | o :: t => let '(s1, r) := sstep s o in
              let '(s2, rs) := srun s1 t in
              (s2, match o, r with OLookup i, Some x => (i, x) :: rs | _, _ => rs end)
  end.

Lemma nth_set_grows s s' i g : (exists suf, lists s' = lists s ++ suf) -> nth_set s i = Some g -> nth_set s' i = Some g.
Proof. intros [suf E] H. eapply nth_set_app; eassumption. Qed.

Theorem any_sequence ops : forall s, aligned s -> all_ok s ops ->
  let '(s', rs) := srun s ops in
  aligned s' /\ cur s <= cur s' /\ (exists suf, lists s' = lists s ++ suf) /\
  forall i r, In (i, r) rs -> match r with RSet g => g_index g = i /\ nth_set s' i = Some g | RMiss => True | RPanic => False end.
Proof.
  induction ops as [|o t IH]; intros s Hal Hok.
  - cbn. split; [exact Hal|]. split; [lia|]. split; [exists []; rewrite app_nil_r; reflexivity|]. intros i r [].
  - cbn [all_ok] in Hok. destruct Hok as [Ho Hrest]. cbn [srun]. destruct o as [i|from b]; cbn [sstep fst] in *.
    + specialize (IH s Hal Hrest). destruct (srun s t) as [s2 rs]. destruct IH as (Hal2 & Hcur & Hsuf & Hrs).
      split; [exact Hal2|]. split; [exact Hcur|]. split; [exact Hsuf|]. intros j r [E|Hin]; [|apply Hrs; exact Hin].
      inversion E; subst; clear E. unfold lookup_locked. destruct (Z.leb_spec j (cur s)) as [Hle|Hgt]; [|exact I].
      destruct (nth_set_aligned s j Hal ltac:(cbn in Ho; lia)) as (g & Eg & Ig). rewrite Eg. split; [exact Ig|]. eapply nth_set_grows; eassumption.
    + destruct Ho as (Hct & Hfrom & Hlen). destruct (update_contig s b from Hal Hct Hfrom Hlen) as (Hal1 & Hc1 & suf1 & Hs1).
      specialize (IH (update s b) Hal1 Hrest). destruct (srun (update s b) t) as [s2 rs]. destruct IH as (Hal2 & Hcur & (suf2 & Hsuf) & Hrs).
      split; [exact Hal2|]. split; [lia|]. split; [exists (suf1 ++ suf2); rewrite Hsuf, Hs1, app_assoc; reflexivity|exact Hrs].
Qed.

(* ------------------------------------------------------------------ what the lock around the "nothing new" guard is for *)
(* a variant of updateGuardianSets whose guard `max <= current` is evaluated on a snapshot of the current index taken before the
   critical section (two deliveries of the same new set can then both pass it) *)
Definition update_guard_on_snapshot (snapshot_cur : Z) (s : store) (batch : list gset) : store :=
  match last_index batch with
  | None => s
  | Some maxi =>
    if maxi <=? u32 snapshot_cur then s else
    write_append (write_index s maxi) (skipn (find_start (u32 (u32 (cur s) + 1)) 0 batch) batch)
  end.

(* two appenders see current = 0 and deliver set 1; later set 2 arrives: the lookup of 2 returns set 1 *)
Lemma guard_on_snapshot_misaligns :
  let s0 := {| cur := 0; lists := [ex_set 0] |} in
  let s1 := update_guard_on_snapshot 0 (update_guard_on_snapshot 0 s0 [ex_set 1]) [ex_set 1] in
  let s2 := update s1 [ex_set 2] in
  map g_index (lists s1) = [0; 1; 1] /\ cur s2 = 2 /\ nth_set s2 2 = Some (ex_set 1) /\
  update (update s0 [ex_set 1]) [ex_set 1] = update s0 [ex_set 1].
Proof. vm_compute. repeat split; reflexivity. Qed.
