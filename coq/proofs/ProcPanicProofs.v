(* C13: no history over the processor's inputs yields a Panic outcome.  Independent of the well-formedness of guardian sets
   (duplicate keys, more than 256 keys, the empty set are all allowed here). *)
From Coq Require Import List ZArith Lia Bool Arith.
From Coq Require Import Strings.Byte.
From WH Require Import lib.Bytes gen.Extracted model.Vaa model.Processor proofs.VaaProofs proofs.QuorumProofs proofs.ProcessorProofs.
Import ListNotations.
Open Scope Z_scope.

Definition is_panic (o : out) : bool := match o with Panic _ => true | _ => false end.
Definition quiet (l : list out) : Prop := Forall (fun o => is_panic o = false) l.

Section NP.
Variable recover : bytes -> bytes -> option bytes.
Variable keccak : bytes -> bytes.
Variable sign : bytes -> bytes.
Variable own : addr.
Variable gov_chain : Z.
Variable gov_addr : bytes.

Notation rec := (Processor.rec recover).
Notation step := (Processor.step recover keccak sign own gov_chain gov_addr).
Notation run := (Processor.run recover keccak sign own gov_chain gov_addr).
Notation handle_obs := (Processor.handle_obs recover).

(* the three guard shapes read from the source (Extracted.v); they are discharged by computation in props/C13.v *)
Hypothesis no_stored_panic : proc_stored_unmarshal_failure_panics = false.
Hypothesis nil_gs_guarded : proc_cleanup_nil_gs_guarded = true.

Record e13 (c : option gset) (e : entry) : Prop := {
  P_sigs : Forall (fun q : addr * bytes => length (snd q) = 65%nat) (esigs e);
  P_msg : our_msg e = None -> c <> None }.

Definition Inv13 (st : pstate) : Prop := Forall (fun p => e13 (cur st) (snd p)) (agg st).

Lemma e13_mono c c' e : (c <> None -> c' <> None) -> e13 c e -> e13 c' e.
Proof. intros H [H1 H2]. constructor; auto. Qed.

Lemma assemble_total es : Forall (fun q : addr * bytes => length (snd q) = 65%nat) es ->
  forall ks i, exists sg, assemble ks i es = Some sg.
Proof.
  intros Hes. induction ks as [|a ks IH]; intros i; cbn [assemble]; [eexists; reflexivity|].
  destruct (alookup a es) as [s|] eqn:El.
  - apply alookup_In in El. rewrite Forall_forall in Hes. pose proof (Hes _ El) as L. cbn [snd] in L.
    destruct (Nat.ltb_spec (length s) 65); [lia|]. destruct (IH (i + 1)) as [r ->]. eexists; reflexivity.
  - apply IH.
Qed.

Lemma handle_obs_np st o : Inv13 st -> Inv13 (fst (handle_obs st o)) /\ quiet (snd (handle_obs st o)) /\ cur (fst (handle_obs st o)) = cur st.
Proof.
  intros HI. unfold Processor.handle_obs.
  destruct (rec (o_hash o) (o_sig o)) as [pk|] eqn:Er; [|repeat split; [exact HI|constructor]].
  destruct (bytes_eqb (bytes_to_address (o_addr o)) pk); cbn [negb]; [|repeat split; [exact HI|constructor]].
  set (their := bytes_to_address (o_addr o)).
  set (e := alookup (o_hash o) (agg st)).
  destruct (match e with Some e' => match gs_snap e' with Some g => Some g | None => cur st end | None => cur st end) as [g|] eqn:Eg;
    [|repeat split; [exact HI|constructor]].
  destruct (Processor.memb their (keys g)); cbn [negb]; [|repeat split; [exact HI|constructor]].
  set (e0 := match e with Some e' => e' | None => new_entry (clock st) end).
  assert (He0 : e13 (cur st) e0).
  { subst e0. destruct e as [e'|] eqn:Ee.
    - subst e. apply alookup_In in Ee. unfold Inv13 in HI. rewrite Forall_forall in HI. apply (HI _ Ee).
    - constructor; cbn [new_entry esigs our_msg]; [constructor|]. intros _. rewrite Eg. discriminate. }
  set (e1 := set_esigs e0 (aset their (o_sig o) (esigs e0))).
  assert (He1 : e13 (cur st) e1).
  { destruct He0 as [H1 H2]. subst e1. constructor; cbn [set_esigs esigs our_msg]; [|exact H2].
    apply Forall_aset; [|exact H1]. cbn [snd]. apply (recover_checked_len _ _ _ _ Er). }
  assert (Hkeep : forall e2, e13 (cur st) e2 -> Inv13 (with_agg st (aset (o_hash o) e2 (agg st)))).
  { intros e2 H2. unfold Inv13. cbn [with_agg cur agg]. apply Forall_aset; [exact H2|exact HI]. }
  destruct (assemble_total (esigs e1) (P_sigs _ _ He1) (keys g) 0) as [sg Ha]. rewrite Ha.
  destruct (our_vaa e1) as [v|]; [|repeat split; [apply Hkeep; exact He1|constructor]].
  destruct (proc_local_quorum_reached (go_quorum (Z.of_nat (length (keys g)))) (Z.of_nat (length sg)) && negb (submitted e1)) eqn:Eq;
    [|repeat split; [apply Hkeep; exact He1|constructor]].
  apply andb_prop in Eq as [Eq _]. apply local_quorum_reached_iff in Eq.
  destruct sg as [|s0 sg'].
  { exfalso. pose proof (go_quorum_pos (Z.of_nat (length (keys g))) ltac:(lia)). cbn [length] in Eq. lia. }
  cbn [fst snd cur]. repeat split.
  - unfold Inv13. cbn [cur agg]. apply Forall_aset; [|exact HI]. cbn [snd]. destruct He1 as [H1 H2].
    constructor; cbn [set_submitted esigs our_msg]; assumption.
  - repeat constructor.
Qed.

Lemma broadcast_np st v s tx chain :
  Inv13 st -> Inv13 (fst (broadcast_signature keccak own st v s tx chain)) /\ quiet (snd (broadcast_signature keccak own st v s tx chain)).
Proof.
  intros HI. unfold Processor.broadcast_signature. cbn [fst snd]. split; [|repeat constructor].
  unfold Inv13. cbn [cur agg]. apply Forall_aset; [|exact HI]. cbn [snd].
  constructor; cbn [set_own esigs our_msg]; [|discriminate].
  destruct (alookup (dg keccak v) (agg st)) as [e|] eqn:El.
  - apply alookup_In in El. unfold Inv13 in HI. rewrite Forall_forall in HI. apply (HI _ El).
  - constructor.
Qed.

Lemma cleanup_entry_np c now indb ck e : e13 c e -> (ck = false -> c = None) ->
  match cleanup_entry now indb ck e with
  | CKeep e' o => e13 c e' /\ quiet o
  | CDelete => True
  | CPanic => False
  end.
Proof.
  intros [H1 H2] Hck. unfold cleanup_entry.
  destruct (negb (submitted e) && _ && _ && indb); [exact I|].
  destruct (negb (settled e) && _).
  { rewrite nil_gs_guarded, !orb_true_r. split; [|constructor]. constructor; cbn [set_settled esigs our_msg]; assumption. }
  destruct (submitted e && _); [exact I|].
  destruct (negb (submitted e) && _); [exact I|].
  destruct (negb (submitted e) && _ && _).
  - destruct (our_msg e) as [o|] eqn:Em.
    + split; [|repeat constructor]. constructor; cbn [set_retried esigs our_msg]; [assumption|rewrite Em; discriminate].
    + destruct ck; cbn [negb andb]; [exact I|]. apply (H2 eq_refl). apply Hck. reflexivity.
  - split; [constructor; assumption|constructor].
Qed.

Lemma cleanup_all_np st0 now l :
  Forall (fun p => e13 (cur st0) (snd p)) l ->
  Forall (fun p => e13 (cur st0) (snd p)) (fst (cleanup_all st0 now l)) /\ quiet (snd (cleanup_all st0 now l)).
Proof.
  induction l as [|[h e] l IH]; intros F; cbn [cleanup_all]; [split; constructor|].
  inversion F as [|? ? He F']; subst. cbn [snd] in He.
  destruct (IH F') as [IH1 IH2]. destruct (cleanup_all st0 now l) as [t' o']. cbn [fst snd] in IH1, IH2.
  assert (Hck : (match cur st0 with Some _ => true | None => false end) = false -> cur st0 = None) by (destruct (cur st0); [discriminate|reflexivity]).
  pose proof (cleanup_entry_np (cur st0) now (in_db_of st0 e) _ e He Hck) as Hc.
  destruct (cleanup_entry now _ _ e) as [e' o| |]; cbn [fst snd].
  - destruct Hc as [Hc1 Hc2]. split; [constructor; assumption|apply Forall_app; split; assumption].
  - split; assumption.
  - contradiction.
Qed.

Lemma step_np st o : Inv13 st -> Inv13 (fst (step st o)) /\ quiet (snd (step st o)).
Proof.
  intros HI. destruct o as [g|t|m|v|ob|k|b|]; cbn [Processor.step].
  - cbn [fst snd]. split; [|constructor]. unfold Inv13 in *. cbn [cur agg].
    eapply Forall_impl; [|exact HI]. intros p. apply e13_mono. discriminate.
  - cbn [fst snd]. split; [exact HI|constructor].
  - unfold Processor.handle_message.
    destruct (cur st) as [g|]; [|split; [exact HI|constructor]].
    destruct (bytes_eqb _ gov_addr && _); [split; [exact HI|constructor]|].
    destruct (dlookup _ (db st)) as [vb|]; [|apply broadcast_np; exact HI].
    destruct (unmarshal vb) as [ex|].
    + destruct (_ <? _); [split; [exact HI|constructor]|apply broadcast_np; exact HI].
    + rewrite no_stored_panic. apply broadcast_np; exact HI.
  - apply broadcast_np; exact HI.
  - destruct (handle_obs_np st ob HI) as (H1 & H2 & _). split; assumption.
  - destruct (nth_error (loopq st) k) as [ob|]; [|split; [exact HI|constructor]].
    match goal with |- context [handle_obs ?s ob] => destruct (handle_obs_np s ob HI) as (H1 & H2 & _) end. split; assumption.
  - unfold Processor.handle_inbound.
    destruct (unmarshal b) as [v|]; [|split; [exact HI|constructor]].
    destruct (cur st) as [g|] eqn:Ec; [|split; [exact HI|constructor]].
    destruct (length (keys g) =? 0)%nat; [split; [exact HI|constructor]|].
    destruct (length (sigs v) =? 0)%nat; [split; [exact HI|constructor]|].
    destruct (proc_inbound_below_quorum _ _); [split; [exact HI|constructor]|].
    destruct (verify_sigs _ _ _ _); cbn [negb]; [|split; [exact HI|constructor]].
    destruct (dlookup _ _); [split; [exact HI|constructor]|].
    cbn [fst snd]. split; [|repeat constructor]. unfold Inv13 in *. cbn [cur agg]. rewrite Ec in HI. exact HI.
  - unfold Processor.handle_cleanup.
    destruct (cleanup_all_np st (clock st + 1) (agg st) HI) as [H1 H2].
    destruct (cleanup_all st (clock st + 1) (agg st)) as [a o]. cbn [fst snd] in *. split; [exact H1|exact H2].
Qed.

Theorem run_np : forall ops st, Inv13 st -> Forall quiet (snd (run st ops)).
Proof.
  induction ops as [|o ops IH]; intros st HI; cbn [Processor.run]; [constructor|].
  destruct (step_np st o HI) as [H1 H2].
  destruct (step st o) as [st1 out1]. cbn [fst snd] in H1, H2.
  pose proof (IH st1 H1) as H3. destruct (run st1 ops) as [st2 outs]. cbn [snd] in *.
  constructor; assumption.
Qed.

Theorem no_panic_ever ops : forall outs, In outs (snd (run init ops)) -> forall w, ~ In (Panic w) outs.
Proof.
  intros outs Hin w Hp.
  assert (HI : Inv13 init) by constructor.
  pose proof (run_np ops init HI) as H. rewrite Forall_forall in H. specialize (H _ Hin).
  unfold quiet in H. rewrite Forall_forall in H. specialize (H _ Hp). discriminate.
Qed.

(* malformed or unexpected inputs are dropped: the state is unchanged and nothing is emitted, the next input is processed normally *)
Lemma inbound_undecodable_dropped st b e : unmarshal b = Err e -> Processor.handle_inbound recover keccak st b = (st, []).
Proof. intros H. unfold Processor.handle_inbound. rewrite H. reflexivity. Qed.

Lemma obs_unrecoverable_dropped st o : rec (o_hash o) (o_sig o) = None -> handle_obs st o = (st, []).
Proof. intros H. unfold Processor.handle_obs. rewrite H. reflexivity. Qed.

Lemma message_before_first_set_dropped st m : cur st = None -> Processor.handle_message keccak sign own gov_chain gov_addr st m = (st, []).
Proof. intros H. unfold Processor.handle_message. rewrite H. reflexivity. Qed.
End NP.
