(* C08: every forwarded message is justified - proofs over model.AlphWatcher (the parts that depend on the extracted
   confirmation test, hold time and re-observation filters; the structural invariant is in AlphWatcherBase). *)
From Coq Require Import List ZArith Bool Lia Arith.
From WH Require Import gen.Extracted model.AlphWatcher proofs.AlphWatcherBase.
Import ListNotations.
Open Scope Z_scope.

(* ------------------------------------------------------------------ isEventConfirmed *)
Definition sane_hdr (h : header) (cl : Z) : Prop :=
  0 <= h_height h <= 2147483647 - 255 /\ 0 <= cl <= 255 /\ - 4611686018427387904 <= h_ts h <= 4611686018427387904.

Lemma wrap32_id : forall x, -2147483648 <= x <= 2147483647 -> wrap32 x = x.
Proof. intros x H. unfold wrap32. rewrite Z.mod_small by lia. lia. Qed.
Lemma wrap64_id : forall x, -9223372036854775808 <= x <= 9223372036854775807 -> wrap64 x = x.
Proof. intros x H. unfold wrap64. rewrite Z.mod_small by lia. lia. Qed.

(* the hold time of the property statement: level block intervals, on mainnet max(level, 205) for transfers *)
Definition hold (mainnet : bool) (m : wmsg) : Z :=
  if mainnet && is_transfer m then Z.max (m_cl m) 205 * 16000 else m_cl m * 16000.

Lemma duration_hold : forall mn m, alph_duration mn (is_transfer m) (m_cl m) = hold mn m.
Proof. reflexivity. Qed.

Lemma confirmed_spec : forall mn m h now height,
  sane_hdr h (m_cl m) ->
  confirmed mn m h now height = true <-> (h_height h + m_cl m <= height /\ h_ts h + hold mn m <= now).
Proof.
  intros mn m h now height (Hh & Hc & Ht). unfold confirmed. rewrite duration_hold.
  assert (Hd : 0 <= hold mn m <= 255 * 16000) by (unfold hold; destruct (mn && is_transfer m); lia).
  rewrite wrap32_id by lia. rewrite wrap64_id by lia.
  unfold alph_height_short, alph_time_short.
  destruct (h_height h + m_cl m >? height) eqn:A; destruct (h_ts h + hold mn m >? now) eqn:B; split; intros; try discriminate; try lia; auto.
Qed.

(* the hold is never shorter than `level` intervals, and on mainnet never shorter than 205 intervals for a transfer *)
Lemma hold_ge_level : forall mn m, 0 <= m_cl m -> m_cl m * 16000 <= hold mn m.
Proof. intros mn m H. unfold hold. destruct (mn && is_transfer m); lia. Qed.
Lemma hold_mainnet_transfer : forall m, is_transfer m = true -> hold true m = Z.max (m_cl m) 205 * 16000.
Proof. intros m H. unfold hold. rewrite H. reflexivity. Qed.

(* ================================================================== C08: safety invariant over all histories *)
Section Safety.
Variable c : cfg.
(* provenance predicates, arbitrary: whatever holds for everything the node answered holds for what is forwarded *)
Variable EP : cevent -> Prop.        (* "is an event of the configured governance contract" *)
Variable HP : Z -> header -> Prop.   (* HP b h: "h is the header of block b" *)
Variable AP : mc_ans -> Prop.        (* "is an answer of the node to the token-metadata multicall" *)

Definition jcommon (f : fwd) : Prop :=
  EP (f_ev f) /\ HP (e_block (f_ev f)) (f_hdr f) /\ e_index (f_ev f) = alph_wm_event_index /\ e_conv (f_ev f) = Some (f_msg f) /\
  m_sender (f_msg f) = c_bridge c /\ attest_ok AP (f_msg f) (f_chain f).

Definition justified (o : op) (f : fwd) : Prop :=
  jcommon f /\
  match o with
  | OTick height now mc hd =>
      mc (e_block (f_ev f)) = Some true /\ confirmed (c_mainnet c) (f_msg f) (f_hdr f) now height = true
  | OReobs r =>
      r_chain r = alph_chain_id /\ r_txlen r = alph_txid_len /\
      r_status r = Some (Some (e_block (f_ev f))) /\ r_mc r = Some true /\
      (exists te evs, r_events r = Some evs /\ In te evs /\ t_ev te = f_ev f /\ t_addr te = c_gov c) /\
      (exists height, r_height r = Some height /\ confirmed (c_mainnet c) (f_msg f) (f_hdr f) (r_now r) height = true)
  | _ => False
  end.

(* ---- height tick *)
Lemma handle_confirmed_just : forall height now mc hd conf, Forall (cgood c EP HP AP height now mc) conf ->
  Forall (justified (OTick height now mc hd)) (fst (handle_confirmed (c_bridge c) conf)).
Proof.
  intros height now mc hd conf. induction conf as [|[u h] t IH]; intro H; cbn [handle_confirmed]; [constructor|].
  inversion H as [|x t' Hx Ht]; subst. destruct (e_index (u_ev u) =? alph_wm_event_index) eqn:E; [|constructor].
  specialize (IH Ht). destruct (handle_confirmed (c_bridge c) t) as [f e]. cbn [fst] in *.
  destruct (m_sender (u_msg u) =? c_bridge c) eqn:S; [|exact IH]. cbn [fst]. constructor; [|exact IH].
  destruct Hx as ((G1 & G2 & G3) & Hh & Hm & Hc). cbn [fst snd] in *. apply to_unconfirmed_some in G2 as [G2 G2'].
  apply Z.eqb_eq in S. unfold justified, jcommon, mkfwd. cbn [f_ev f_msg f_hdr f_chain]. repeat apply conj; auto.
Qed.

(* ---- re-observation *)
Lemma reobs_filters : alph_reobs_addr_filter = true /\ alph_reobs_block_filter = true /\ alph_reobs_wallclock = true.
Proof. repeat split. Qed.

Definition rgood (r : reobs_in) (evs : list tevent) (blk : Z) (x : tevent * uevent * header) : Prop :=
  let '(te, u, h) := x in
  In te evs /\ t_ev te = u_ev u /\ t_addr te = c_gov c /\ e_block (u_ev u) = blk /\ r_hd r blk = Some h /\
  to_unconfirmed (u_ev u) = Some (u_msg u) /\ attest_ok AP (u_msg u) (u_chain u).

Lemma gov_events_good : forall r blk all evs pos l, (forall i, AP (r_tok r i)) -> incl evs all ->
  gov_events c blk (r_hd r) (r_tok r) pos evs = GeOk l -> Forall (rgood r all blk) l.
Proof.
  intros r blk all evs. induction evs as [|te t IH]; intros pos l Ha Hi H; cbn [gov_events] in H.
  - injection H as <-. constructor.
  - assert (Hi' : incl t all) by (intros x Hx; apply Hi; right; exact Hx).
    assert (Hte : In te all) by (apply Hi; left; reflexivity).
    destruct reobs_filters as (FA & FB & _). rewrite FA, FB in H. cbn [andb] in H.
    destruct (negb (e_index (t_ev te) =? alph_wm_event_index)) eqn:EI; [eapply IH; eauto|].
    destruct (negb (t_addr te =? c_gov c)) eqn:EA; [eapply IH; eauto|].
    destruct (negb (e_block (t_ev te) =? blk)) eqn:EB; [eapply IH; eauto|].
    apply negb_false_iff in EI, EA, EB. apply Z.eqb_eq in EI, EA, EB.
    destruct (r_hd r (e_block (t_ev te))) as [h|] eqn:Hh; [|discriminate].
    destruct (e_conv (t_ev te)) as [m|] eqn:Cv; [|discriminate].
    assert (TU : to_unconfirmed (t_ev te) = Some m) by (apply to_unconfirmed_some; auto).
    destruct (is_attest m) eqn:A.
    + destruct (validate_attest m (r_tok r pos)) as [ti| |] eqn:V; [|eapply IH; eauto|discriminate].
      destruct (gov_events c blk (r_hd r) (r_tok r) (pos + 1) t) as [| |l'] eqn:R; try discriminate.
      cbn [ge_cons] in H. injection H as <-. constructor; [|eapply IH; eauto].
      unfold rgood. cbn [u_ev u_msg u_chain]. rewrite <- EB. repeat apply conj; auto.
      intros _. apply validate_attest_ok in V as [V1 V2]. exists ti, (r_tok r pos). auto.
    + destruct (gov_events c blk (r_hd r) (r_tok r) (pos + 1) t) as [| |l'] eqn:R; try discriminate.
      cbn [ge_cons] in H. injection H as <-. constructor; [|eapply IH; eauto].
      unfold rgood. cbn [u_ev u_msg u_chain]. rewrite <- EB. repeat apply conj; auto.
      intro A'. rewrite A in A'. discriminate.
Qed.

Lemma reobserve_just : forall r, op_ok c EP HP AP (OReobs r) -> Forall (justified (OReobs r)) (fst (reobserve c r)).
Proof.
  intros r (He & Hh & Ha). unfold reobserve.
  destruct (negb (r_chain r =? alph_chain_id)) eqn:EC; [constructor|].
  destruct (negb (r_txlen r =? alph_txid_len)) eqn:EL; [constructor|].
  apply negb_false_iff in EC, EL. apply Z.eqb_eq in EC, EL.
  destruct (r_status r) as [[blk|]|] eqn:St; try constructor. destruct (r_events r) as [evs|] eqn:Ev; [|constructor].
  destruct (gov_events c blk (r_hd r) (r_tok r) 0 evs) as [| |l] eqn:G; try constructor.
  apply (gov_events_good r blk evs) in G; [|exact Ha|apply incl_refl].
  destruct (r_mc r) as [[|]|] eqn:Mc; try constructor. destruct (r_height r) as [height|] eqn:Ht; [|constructor].
  cbn [fst]. apply Forall_forall. intros f Hf. apply in_map_iff in Hf as ([[te u] h] & <- & Hx).
  apply filter_In in Hx as [Hx Hs]. apply filter_In in Hx as [Hx Hc]. cbn [fst snd] in *.
  rewrite Forall_forall in G. specialize (G _ Hx). destruct G as (G1 & G2 & G3 & G4 & G5 & G6 & G7).
  apply Z.eqb_eq in Hs. unfold reobs_confirmed in Hc. destruct reobs_filters as (_ & _ & FW). rewrite FW in Hc.
  pose proof (proj1 (to_unconfirmed_some _ _) G6) as [I1 I2].
  assert (J1 : EP (u_ev u)).
  { specialize (He _ eq_refl). rewrite Forall_forall in He. rewrite <- G2. apply He; assumption. }
  assert (J2 : HP blk h) by (apply Hh; exact G5).
  assert (J3 : exists te0 evs0, Some evs = Some evs0 /\ In te0 evs0 /\ t_ev te0 = u_ev u /\ t_addr te0 = c_gov c) by (exists te, evs; auto).
  assert (J4 : exists height0, Some height = Some height0 /\ confirmed (c_mainnet c) (u_msg u) h (r_now r) height0 = true) by (exists height; auto).
  unfold justified, jcommon, mkfwd. cbn [f_ev f_msg f_hdr f_chain]. rewrite St, Ev, Mc, Ht. subst blk. repeat apply conj; assumption || reflexivity.
Qed.

(* ---- one step *)
Theorem step_just : forall s o, Inv EP HP AP s -> op_ok c EP HP AP o -> Forall (justified o) (o_fwd (snd (step c s o))).
Proof.
  intros s o HI Hok. pose proof HI as [I1 I2]. unfold step. destruct (w_dead s) eqn:D; [constructor|].
  destruct o as [cnt pg tok| |height now mc hd|r|].
  - destruct (w_inflight s) as [l0|] eqn:F; [constructor|].
    destruct (poll cnt pg tok (w_from s)) as [|from' batch n| | |] eqn:P; cbn [snd o_fwd out0]; constructor.
  - destruct (w_inflight s) as [l|] eqn:F; cbn [snd o_fwd out0]; constructor.
  - destruct (process_blocks (c_mainnet c) height now mc hd (w_pending s)) as [[p' conf]|] eqn:R; [|cbn [snd o_fwd]; constructor].
    destruct (process_blocks_good c EP HP AP _ _ _ _ _ _ _ Hok I2 R) as [G1 G2].
    pose proof (handle_confirmed_just height now mc hd conf G2) as J.
    destruct (handle_confirmed (c_bridge c) conf) as [f err]. cbn [fst snd o_fwd] in *. exact J.
  - pose proof (reobserve_just r Hok) as J. destruct (reobserve c r) as [f fl]. cbn [fst snd o_fwd] in *. exact J.
  - cbn [snd o_fwd]. constructor.
Qed.

Theorem step_safe : forall s o, Inv EP HP AP s -> op_ok c EP HP AP o ->
  Inv EP HP AP (fst (step c s o)) /\ Forall (justified o) (o_fwd (snd (step c s o))).
Proof.
  intros s o HI Hok. split; [apply (step_inv c EP HP AP); [exact HI|apply op_ok_st_of; exact Hok]|apply step_just; assumption].
Qed.

(* ---- every history *)
Fixpoint all_justified (s : wstate) (ops : list op) : Prop :=
  match ops with
  | [] => True
  | o :: t => Forall (justified o) (o_fwd (snd (step c s o))) /\ all_justified (fst (step c s o)) t
  end.

Theorem safety_all_histories : forall ops s, Inv EP HP AP s -> Forall (op_ok c EP HP AP) ops -> all_justified s ops.
Proof.
  induction ops as [|o t IH]; intros s HI Hok; cbn [all_justified]; [exact I|].
  inversion Hok as [|o' t' Ho Ht]; subst. destruct (step_safe s o HI Ho) as [HI' J]. split; [exact J|apply IH; assumption].
Qed.
End Safety.

(* ================================================================== reading the justification *)
Lemma justified_tick_meaning : forall c EP HP AP height now mc hd f,
  justified c EP HP AP (OTick height now mc hd) f -> sane_hdr (f_hdr f) (m_cl (f_msg f)) ->
  EP (f_ev f) /\ HP (e_block (f_ev f)) (f_hdr f) /\ m_sender (f_msg f) = c_bridge c /\
  mc (e_block (f_ev f)) = Some true /\
  h_height (f_hdr f) + m_cl (f_msg f) <= height /\
  h_ts (f_hdr f) + m_cl (f_msg f) * 16000 <= now /\
  (c_mainnet c = true -> is_transfer (f_msg f) = true -> h_ts (f_hdr f) + Z.max (m_cl (f_msg f)) 205 * 16000 <= now) /\
  attest_ok AP (f_msg f) (f_chain f).
Proof.
  intros c EP HP AP height now mc hd f [(J1 & J2 & J3 & J4 & J5 & J6) [J7 J8]] Hs.
  apply confirmed_spec in J8; [|exact Hs]. destruct J8 as [K1 K2]. destruct Hs as (_ & Hcl & _).
  pose proof (hold_ge_level (c_mainnet c) (f_msg f) (proj1 Hcl)) as G.
  repeat apply conj; auto; try lia. intros Hm Ht. rewrite Hm, hold_mainnet_transfer in K2 by exact Ht. exact K2.
Qed.

Lemma justified_reobs_meaning : forall c EP HP AP r f,
  justified c EP HP AP (OReobs r) f -> sane_hdr (f_hdr f) (m_cl (f_msg f)) ->
  EP (f_ev f) /\ HP (e_block (f_ev f)) (f_hdr f) /\ m_sender (f_msg f) = c_bridge c /\
  r_status r = Some (Some (e_block (f_ev f))) /\ r_mc r = Some true /\
  (exists te evs, r_events r = Some evs /\ In te evs /\ t_ev te = f_ev f /\ t_addr te = c_gov c) /\
  (exists height, r_height r = Some height /\
     h_height (f_hdr f) + m_cl (f_msg f) <= height /\
     h_ts (f_hdr f) + m_cl (f_msg f) * 16000 <= r_now r /\
     (c_mainnet c = true -> is_transfer (f_msg f) = true -> h_ts (f_hdr f) + Z.max (m_cl (f_msg f)) 205 * 16000 <= r_now r)) /\
  attest_ok AP (f_msg f) (f_chain f).
Proof.
  intros c EP HP AP r f [(J1 & J2 & J3 & J4 & J5 & J6) (R1 & R2 & R3 & R4 & R5 & (height & R6 & R7))] Hs.
  apply confirmed_spec in R7; [|exact Hs]. destruct R7 as [K1 K2]. destruct Hs as (_ & Hcl & _).
  pose proof (hold_ge_level (c_mainnet c) (f_msg f) (proj1 Hcl)) as G.
  repeat apply conj; auto. exists height. repeat apply conj; auto; try lia.
  intros Hm Ht. rewrite Hm, hold_mainnet_transfer in K2 by exact Ht. exact K2.
Qed.

(* nothing is forwarded by a poll, by the hand-over of a batch, or by a failing height request *)
Lemma justified_only_tick_reobs : forall c EP HP AP o f, justified c EP HP AP o f ->
  (exists height now mc hd, o = OTick height now mc hd) \/ (exists r, o = OReobs r).
Proof.
  intros c EP HP AP o f [_ J]. destruct o; try destruct J; [left; eauto|right; eauto].
Qed.

