(* Composition of the guardian-set poll of the EVM watcher(s) (model/EvmGuardianSet.v) with the processor model
   (model/Processor.v): the guardian sets "learned from chain" that C01's theorems quantify over ARE contract answers.
   The processor's ops `SetGS g` are what arrives on setC; setC's only writers are the EVM watchers' fetchAndUpdateGuardianSet
   (node.go hands the same channel to the Ethereum and to the BSC watcher: several sources). *)
From Coq Require Import List ZArith Bool Lia.
From Coq Require Import Strings.Byte.
From WH Require Import lib.Bytes gen.Extracted model.Vaa model.Processor model.ProcSpec proofs.VaaProofs proofs.ProcC01Proofs.
From WH Require Import model.EvmGuardianSet proofs.EvmGuardianSetProofs.
Import ListNotations.
Open Scope Z_scope.

(* &common.GuardianSet{Keys: gs.Keys, Index: idx} *)
Definition to_gset (p : list addr * Z) : gset := {| keys := fst p; gidx := snd p |}.
Definition setgs_of (pops : list Processor.op) : list gset :=
  flat_map (fun o => match o with SetGS g => [g] | _ => [] end) pops.

Section Compose.
Variable recover : bytes -> bytes -> option bytes.
Variable keccak : bytes -> bytes.
Variable sign : bytes -> bytes.
Variable own : addr.
Variable gov_chain : Z.
Variable gov_addr : bytes.

Notation pstep := (Processor.step recover keccak sign own gov_chain gov_addr).
Notation prun := (Processor.run recover keccak sign own gov_chain gov_addr).

(* `case p.gs = <-p.setC` is the only assignment of p.gs: no other handler changes the current set *)

Lemma handle_obs_cur : forall st ob, cur (fst (Processor.handle_obs recover st ob)) = cur st.
Proof.
  intros st ob. unfold handle_obs. cbv zeta.
  repeat match goal with
         | |- context [match ?x with _ => _ end] => destruct x eqn:?; cbn [fst with_agg cur]; try reflexivity
         end.
Qed.

Lemma proc_step_cur : forall st o, (forall g, o <> SetGS g) -> cur (fst (pstep st o)) = cur st.
Proof.
  intros st o Hn. destruct o as [g|t|m|v|ob|k|b|]; cbn [Processor.step].
  - exfalso. apply (Hn g). reflexivity.
  - reflexivity.
  - unfold handle_message. destruct (cur st) as [g|] eqn:Ec; [|cbn [fst]; exact Ec].
    destruct (bytes_eqb _ gov_addr && _); [cbn [fst]; exact Ec|].
    destruct (dlookup _ (db st)) as [vb|]; [|cbn [broadcast_signature fst cur]; exact Ec].
    destruct (unmarshal vb) as [ex|er].
    + destruct (_ <? _); cbn [broadcast_signature fst cur]; exact Ec.
    + destruct proc_stored_unmarshal_failure_panics; cbn [broadcast_signature fst cur]; exact Ec.
  - reflexivity.
  - apply handle_obs_cur.
  - destruct (nth_error (loopq st) k) as [ob|]; [|reflexivity]. rewrite handle_obs_cur. reflexivity.
  - unfold handle_inbound.
    repeat match goal with
           | |- context [match ?x with _ => _ end] => destruct x eqn:?; cbn [fst cur]; try reflexivity; try assumption
           end.
  - unfold handle_cleanup. destruct (cleanup_all st (clock st + 1) (agg st)) as [a o]. reflexivity.
Qed.

Definition upd_set (acc : option gset) (o : Processor.op) : option gset := match o with SetGS g => Some g | _ => acc end.

(* after any processor history the current set is the argument of the last SetGS *)
Lemma proc_cur_last_setgs : forall pops st, cur (fst (prun st pops)) = fold_left upd_set pops (cur st).
Proof.
  intros pops. induction pops as [|o t IH]; intros st; [reflexivity|].
  cbn [Processor.run fold_left]. destruct (pstep st o) as [st1 out1] eqn:Es. specialize (IH st1).
  destruct (prun st1 t) as [st2 outs]. cbn [fst] in *. rewrite IH. f_equal.
  assert (H1 : st1 = fst (pstep st o)) by (rewrite Es; reflexivity). subst st1. clear Es IH.
  destruct o as [g|t0|m|v|ob|k|b|]; cbn [upd_set]; try (apply proc_step_cur; intros g0 X; discriminate X).
  reflexivity.
Qed.

Lemma fold_upd_setgs : forall pops acc, fold_left upd_set pops acc = fold_left (fun _ g => Some g) (setgs_of pops) acc.
Proof.
  intros pops. induction pops as [|o t IH]; intros acc; [reflexivity|].
  unfold setgs_of in *. cbn [fold_left flat_map]. rewrite fold_left_app, IH. destruct o; reflexivity.
Qed.

Lemma last_set_map : forall (l : list (list addr * Z)) init,
  fold_left (fun _ g => Some g) (map to_gset l) (option_map to_gset init) = option_map to_gset (last_set init l).
Proof.
  intros l. induction l as [|x t IH]; intros init; [reflexivity|].
  unfold last_set in *. cbn [map fold_left]. exact (IH (Some x)).
Qed.

(* the processor, having received in order what the watcher sent (interleaved with any other inputs), holds the last set sent *)
Theorem processor_holds_last_sent : forall pops (outs : list (list (wout addr))),
  setgs_of pops = map to_gset (sent outs) ->
  cur (fst (prun Processor.init pops)) = option_map to_gset (last_set None (sent outs)).
Proof.
  intros pops outs H. rewrite proc_cur_last_setgs, fold_upd_setgs, H. exact (last_set_map (sent outs) None).
Qed.

(* per-tick liveness, watcher and processor together: after a history that ends in a fetch whose two calls succeed (index i,
   keys ks), the processor holds a set with index i, and that set is the (keys, index) answer pair of one fetch of the history *)
Theorem fetch_reaches_processor : forall c ops o a i ks pops,
  g_chan c = true -> fetch_like o a -> ga_idx a = Some i -> ga_set a i = Some ks ->
  setgs_of pops = map to_gset (sent (snd (grun c winit (ops ++ [o])))) ->
  exists g, cur (fst (prun Processor.init pops)) = Some g /\ gidx g = i /\
            exists a', In a' (flat_map (@answers_of addr) (ops ++ [o])) /\ ga_idx a' = Some i /\ ga_set a' i = Some (keys g).
Proof.
  intros c ops o a i ks pops Hc Ho Hi Hs Hd.
  rewrite (processor_holds_last_sent pops _ Hd).
  pose proof (processor_index_is_remembered_index c (ops ++ [o]) winit None Hc eq_refl) as P.
  assert (Hcur : w_cur (fst (grun c winit (ops ++ [o]))) = Some i).
  { clear P Hd. generalize winit as s. induction ops as [|x t IH]; intros s.
    - cbn [app grun fst]. exact (proj1 (fetch_step_updates c s o a i ks Hc Ho Hi Hs)).
    - cbn [app grun fst]. apply IH. }
  rewrite Hcur in P. destruct (last_set None (sent (snd (grun c winit (ops ++ [o]))))) as [[ks' i']|] eqn:El; [|discriminate P].
  cbn [option_map snd] in P. inversion P. subst i'. exists (to_gset (ks', i)). repeat apply conj; try reflexivity.
  destruct (last_set_in _ _ _ El) as [Hin|[Hin _]]; [|discriminate Hin].
  exact (sent_is_answer_pair c (ops ++ [o]) winit ks' i Hin).
Qed.

(* ------------------------------------------------------------------ the `learned` list of C01 *)
Lemma learned_in : forall pops L g, In g (learned L pops) <-> In g L \/ In (SetGS g) pops.
Proof.
  intros pops. induction pops as [|o t IH]; intros L g; cbn [learned].
  - split; [intros H; left; exact H|intros [H|H]; [exact H|contradiction]].
  - rewrite IH. destruct o as [g'|t0|m|v|ob|k|b|]; cbn [learned_after];
      try (split; [intros [H|H]; [left; exact H|right; right; exact H]|intros [H|[H|H]]; [left; exact H|discriminate H|right; exact H]]).
    split.
    + intros [[H|H]|H]; [right; left; rewrite H; reflexivity|left; exact H|right; right; exact H].
    + intros [H|[H|H]]; [left; right; exact H|left; left; inversion H; reflexivity|right; exact H].
Qed.

(* a source = one watcher with a channel, run from a fresh Watcher value over any history of fetches (any answers, errors),
   restarts, logs, heads and polls *)
Definition source := (gcfg * list (gop addr))%type.
Definition source_sent (src : source) : list (list addr * Z) := sent (snd (grun (fst src) winit (snd src))).
Definition delivered_from (sources : list source) (pops : list Processor.op) : Prop :=
  forall g, In (SetGS g) pops -> exists src, In src sources /\ In (keys g, gidx g) (source_sent src).
Definition answer_pair (sources : list source) (g : gset) : Prop :=
  exists src a, In src sources /\ In a (flat_map (@answers_of addr) (snd src)) /\
                ga_idx a = Some (gidx g) /\ ga_set a (gidx g) = Some (keys g).

(* every guardian set the processor ever learns is exactly the (keys, index) answer pair of one fetch of one watcher: the keys
   are the contract's answer to getGuardianSet(index) for the index the same fetch read just before *)
Theorem learned_sets_are_contract_answers : forall sources pops,
  delivered_from sources pops -> forall g, In g (learned [] pops) -> answer_pair sources g.
Proof.
  intros sources pops Hd g Hg. apply learned_in in Hg. destruct Hg as [Hg|Hg]; [contradiction|].
  destruct (Hd g Hg) as [src [Hsrc Hin]]. unfold source_sent in Hin.
  destruct (sent_is_answer_pair (fst src) (snd src) winit (keys g) (gidx g) Hin) as [a [Ha [H1 H2]]].
  exists src, a. repeat apply conj; assumption.
Qed.

(* contract answers are key lists as the governance contract stores them: pairwise distinct, at most 256 *)
Definition answers_wf (sources : list source) : Prop :=
  forall src a i ks, In src sources -> In a (flat_map (@answers_of addr) (snd src)) -> ga_set a i = Some ks ->
                     NoDup ks /\ (length ks <= 256)%nat.

Lemma delivered_ops_wf : forall sources pops, answers_wf sources -> delivered_from sources pops -> Forall op_wf pops.
Proof.
  intros sources pops Hw Hd. apply Forall_forall. intros o Ho. destruct o as [g|t0|m|v|ob|k|b|]; try exact I.
  cbn [op_wf]. destruct (Hd g Ho) as [src [Hsrc Hin]]. unfold source_sent in Hin.
  destruct (sent_is_answer_pair (fst src) (snd src) winit (keys g) (gidx g) Hin) as [a [Ha [_ H2]]].
  exact (Hw src a (gidx g) (keys g) Hsrc Ha H2).
Qed.

(* C01 with the provenance of the sets spelled out: whatever the watchers were answered and however often they were restarted,
   every VAA the node holds in its store is a valid quorum VAA of a key list that the governance contract itself returned for
   the index the set carries *)
Theorem stored_vaas_verify_against_contract_answers : forall sources pops,
  answers_wf sources -> delivered_from sources pops ->
  Forall (fun p => exists v g, snd p = marshal v /\ fst p = id_of v /\ qvalid recover keccak v (keys g) /\ answer_pair sources g)
         (db (fst (prun Processor.init pops))).
Proof.
  intros sources pops Hw Hd.
  pose proof (c01_store recover keccak sign own gov_chain gov_addr pops (delivered_ops_wf sources pops Hw Hd)) as H.
  rewrite Forall_forall in *. intros p Hp. destruct (H p Hp) as [v [g [H1 [H2 [H3 H4]]]]].
  exists v, g. split; [exact H1|]. split; [exact H2|]. split; [exact H4|]. exact (learned_sets_are_contract_answers sources pops Hd g H3).
Qed.

(* against the contract as Solidity makes it (one source): every learned set is set i of the contract under index i *)
Theorem learned_sets_are_contract_sets : forall c evs (ch : chain addr) pops,
  g_chan c = true -> ch <> [] ->
  (forall g, In (SetGS g) pops -> In (keys g, gidx g) (sent (snd (crun c ch winit evs)))) ->
  forall g, In g (learned [] pops) ->
  0 <= gidx g <= chain_idx (fst (fst (crun c ch winit evs))) /\ keys g = chain_set (fst (fst (crun c ch winit evs))) (gidx g).
Proof.
  intros c evs ch pops Hc Hne Hd g Hg. apply learned_in in Hg. destruct Hg as [Hg|Hg]; [contradiction|].
  assert (Hle0 : cur_le winit ch) by (intros c0 H0; discriminate H0).
  destruct (chain_run_spec c evs ch winit Hc Hne Hle0) as [_ [_ [_ HF]]]. rewrite Forall_forall in HF.
  exact (HF _ (Hd g Hg)).
Qed.
End Compose.
