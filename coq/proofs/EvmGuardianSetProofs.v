(* Proofs about the guardian-set poll of the EVM watcher, restarts of Watcher.Run and the processor's set update
   (extension X4: provenance of the sets of C01, C10 across restarts).  Model: model/EvmGuardianSet.v. *)
From Coq Require Import List ZArith Bool Lia Sorted.
From WH Require Import gen.Extracted gen.ExtractedEvmGs model.EvmWatcher model.EvmGuardianSet proofs.EvmWatcherProofs.
Import ListNotations.
Open Scope Z_scope.

(* ================================================================== facts read off the generated definitions *)
(* `*(w.currentGuardianSet) == idx`: a change of the operator changes gen.ExtractedEvmGs and this lemma stops compiling *)
Lemma gs_same_spec : forall a b, evm_gs_same a b = true <-> a = b.
Proof. intros a b. unfold evm_gs_same. apply Z.eqb_eq. Qed.
Lemma gs_store_first : evm_gs_store_before_send = true.
Proof. reflexivity. Qed.
Lemma gs_period_pos : 0 < evm_gs_period_s.
Proof. unfold evm_gs_period_s. lia. Qed.

Lemma gs_unchanged_spec : forall cur i, gs_unchanged cur i = true <-> cur = Some i.
Proof.
  intros cur i. unfold gs_unchanged. destruct cur as [c|].
  - rewrite gs_same_spec. split; [intros H; subst; reflexivity|intros H; inversion H; reflexivity].
  - split; intros H; discriminate H.
Qed.
Lemma gs_changed_spec : forall cur i, gs_unchanged cur i = false <-> cur <> Some i.
Proof.
  intros cur i. destruct (gs_unchanged cur i) eqn:E.
  - apply gs_unchanged_spec in E. split; [intros H; discriminate H|intros H; contradiction].
  - split; [|reflexivity]. intros _ H. apply gs_unchanged_spec in H. rewrite H in E. discriminate E.
Qed.

(* ================================================================== one fetch *)
Section Fetch.
Context {K : Type}.

(* a set is sent only as the (keys, index) pair of THIS fetch's two answers, only when the index differs from the remembered one,
   and the remembered index becomes the one that is sent *)
Lemma fetch_sent : forall has cur (a : gans K) ks i,
  In (GSet ks i) (snd (fetch has cur a)) ->
  has = true /\ ga_idx a = Some i /\ ga_set a i = Some ks /\ cur <> Some i /\ fst (fetch has cur a) = Some i /\
  snd (fetch has cur a) = [GSet ks i].
Proof.
  intros has cur a ks i H. unfold fetch in *.
  destruct (ga_idx a) as [j|]; [|destruct H as [H|H]; [discriminate H|contradiction]].
  destruct (ga_set a j) as [ks'|] eqn:Es; [|destruct H as [H|H]; [discriminate H|contradiction]].
  destruct (gs_unchanged cur j) eqn:Eu; [contradiction|].
  destruct has; [|contradiction].
  destruct H as [H|H]; [|contradiction]. inversion H. subst ks' j.
  apply gs_changed_spec in Eu. repeat apply conj; try reflexivity; assumption.
Qed.

(* an error-free fetch: afterwards the remembered index is the contract's answer; the set is sent now unless that index was
   already remembered *)
Lemma fetch_ok : forall has cur (a : gans K) i ks,
  ga_idx a = Some i -> ga_set a i = Some ks ->
  fst (fetch has cur a) = Some i /\
  ((cur <> Some i /\ snd (fetch has cur a) = if has then [GSet ks i] else []) \/ (cur = Some i /\ snd (fetch has cur a) = [])).
Proof.
  intros has cur a i ks Hi Hs. unfold fetch. rewrite Hi, Hs. destruct (gs_unchanged cur i) eqn:Eu.
  - apply gs_unchanged_spec in Eu. split; [exact Eu|right; split; [exact Eu|reflexivity]].
  - apply gs_changed_spec in Eu. split; [reflexivity|left; split; [exact Eu|reflexivity]].
Qed.

(* a failing call: an error is returned, nothing is sent, nothing is remembered *)
Lemma fetch_err : forall has cur (a : gans K),
  (ga_idx a = None \/ exists i, ga_idx a = Some i /\ ga_set a i = None) ->
  fetch has cur a = (cur, [GErr]).
Proof.
  intros has cur a [H|[i [H1 H2]]]; unfold fetch; [rewrite H; reflexivity|rewrite H1, H2; reflexivity].
Qed.
Lemma fetch_err_inv : forall has cur (a : gans K),
  In GErr (snd (fetch has cur a)) ->
  (ga_idx a = None \/ exists i, ga_idx a = Some i /\ ga_set a i = None) /\ fetch has cur a = (cur, [GErr]).
Proof.
  intros has cur a H.
  assert (Hc : ga_idx a = None \/ exists i, ga_idx a = Some i /\ ga_set a i = None).
  { unfold fetch in H. destruct (ga_idx a) as [j|]; [|left; reflexivity].
    destruct (ga_set a j) as [ks|] eqn:Es; [|right; exists j; split; [reflexivity|exact Es]].
    destruct (gs_unchanged cur j); [contradiction|]. destruct has; [|contradiction].
    destruct H as [H|H]; [discriminate H|contradiction]. }
  split; [exact Hc|apply fetch_err; exact Hc].
Qed.

(* nothing sent: the remembered index is unchanged (when the watcher has a channel) *)
Lemma fetch_silent : forall cur (a : gans K),
  (forall ks i, ~ In (GSet ks i) (snd (fetch true cur a))) -> fst (fetch true cur a) = cur.
Proof.
  intros cur a H. unfold fetch in *. destruct (ga_idx a) as [j|]; [|reflexivity].
  destruct (ga_set a j) as [ks|]; [|reflexivity].
  destruct (gs_unchanged cur j); [reflexivity|]. exfalso. apply (H ks j). left. reflexivity.
Qed.
End Fetch.

(* ================================================================== histories of fetches, restarts, logs, heads, polls *)
Section Histories.
Context {K : Type}.
Implicit Types (s : wstate) (c : gcfg) (o : gop K) (ops : list (gop K)).

Lemma wout_of_out_not_set : forall (l : list out) (ks : list K) i, ~ In (WSet ks i) (map wout_of_out l).
Proof.
  intros l ks i H. apply in_map_iff in H. destruct H as [x [H _]]. destruct x; discriminate H.
Qed.

Lemma evm_step_cur : forall c s x, w_cur (fst (@evm_step K c s x)) = w_cur s.
Proof. intros c s x. reflexivity. Qed.
Lemma evm_step_last : forall c s x, w_last (fst (@evm_step K c s x)) = w_last s.
Proof. intros c s x. reflexivity. Qed.
Lemma evm_step_pending : forall c s x, w_pending (fst (@evm_step K c s x)) = fst (step (g_evm c) (w_pending s) x).
Proof. intros c s x. reflexivity. Qed.
Lemma evm_step_outs : forall c s x, snd (@evm_step K c s x) = map wout_of_out (snd (step (g_evm c) (w_pending s) x)).
Proof. intros c s x. reflexivity. Qed.

Lemma evm_steps_cur : forall c os s, w_cur (fst (@evm_steps K c s os)) = w_cur s.
Proof.
  intros c os. induction os as [|x t IH]; intros s; [reflexivity|].
  cbn [evm_steps fst]. rewrite IH. apply evm_step_cur.
Qed.
Lemma evm_steps_no_set : forall c os s (ks : list K) i, ~ In (WSet ks i) (snd (evm_steps c s os)).
Proof.
  intros c os. induction os as [|x t IH]; intros s ks i H; [contradiction|].
  cbn [evm_steps snd] in H. apply in_app_or in H. destruct H as [H|H].
  - rewrite evm_step_outs in H. exact (wout_of_out_not_set _ ks i H).
  - exact (IH _ ks i H).
Qed.
Lemma evm_steps_pending : forall c os s,
  w_pending (fst (@evm_steps K c s os)) = fst (run (g_evm c) (w_pending s) os).
Proof.
  intros c os. induction os as [|x t IH]; intros s; [reflexivity|].
  cbn [evm_steps run fst]. rewrite IH. rewrite evm_step_pending. reflexivity.
Qed.
Lemma evm_steps_outs : forall c os s,
  snd (@evm_steps K c s os) = map wout_of_out (concat (snd (run (g_evm c) (w_pending s) os))).
Proof.
  intros c os. induction os as [|x t IH]; intros s; [reflexivity|].
  cbn [evm_steps run fst snd concat]. rewrite IH. rewrite map_app, evm_step_outs, evm_step_pending. reflexivity.
Qed.

(* what one operation can send, and what it does to the remembered index *)
Lemma gstep_sent : forall c s o ks i,
  In (WSet ks i) (snd (gstep c s o)) ->
  g_chan c = true /\ w_cur s <> Some i /\ w_cur (fst (gstep c s o)) = Some i /\
  sent1 (snd (gstep c s o)) = [(ks, i)] /\
  exists a, In a (answers_of o) /\ ga_idx a = Some i /\ ga_set a i = Some ks.
Proof.
  intros c s o ks i H. destruct o as [a|a h0|x|answers orc]; cbn [gstep fst snd] in *.
  - apply in_map_iff in H. destruct H as [y [Hy Hin]]. destruct y as [ks' i'|]; [|discriminate Hy].
    inversion Hy. subst ks' i'. apply fetch_sent in Hin. destruct Hin as [H1 [H2 [H3 [H4 [H5 H6]]]]].
    repeat apply conj; try assumption; [rewrite H6; reflexivity|].
    exists a. repeat apply conj; [left; reflexivity|exact H2|exact H3].
  - apply in_map_iff in H. destruct H as [y [Hy Hin]]. destruct y as [ks' i'|]; [|discriminate Hy].
    inversion Hy. subst ks' i'. apply fetch_sent in Hin. destruct Hin as [H1 [H2 [H3 [H4 [H5 H6]]]]].
    repeat apply conj; try assumption; [rewrite H6; reflexivity|].
    exists a. repeat apply conj; [left; reflexivity|exact H2|exact H3].
  - rewrite evm_step_outs in H. exfalso. exact (wout_of_out_not_set _ ks i H).
  - apply in_app_or in H. destruct H as [H|H].
    + exfalso. exact (evm_steps_no_set _ _ _ ks i H).
    + destruct (snd (poll_tick (w_enabled s) (w_last s) answers)); [destruct H as [H|H]; [discriminate H|contradiction]|contradiction].
Qed.

(* an operation that sends nothing leaves the remembered index alone *)
Lemma gstep_silent : forall c s o, g_chan c = true ->
  (forall ks i, ~ In (WSet ks i) (snd (gstep c s o))) -> w_cur (fst (gstep c s o)) = w_cur s.
Proof.
  intros c s o Hc H. destruct o as [a|a h0|x|answers orc]; cbn [gstep fst snd] in *.
  - rewrite Hc in *. apply fetch_silent. intros ks i Hin. apply (H ks i).
    apply in_map_iff. exists (GSet ks i). split; [reflexivity|exact Hin].
  - rewrite Hc in *. apply fetch_silent. intros ks i Hin. apply (H ks i).
    apply in_map_iff. exists (GSet ks i). split; [reflexivity|exact Hin].
  - reflexivity.
  - rewrite evm_steps_cur. reflexivity.
Qed.

Lemma sent1_none : forall (l : list (wout K)), (forall ks i, ~ In (WSet ks i) l) -> sent1 l = [].
Proof.
  intros l. induction l as [|x t IH]; intros H; [reflexivity|].
  unfold sent1 in *. cbn [flat_map]. rewrite IH; [|intros ks i Hin; apply (H ks i); right; exact Hin].
  destruct x as [ks i| |y]; [exfalso; apply (H ks i); left; reflexivity|reflexivity|reflexivity].
Qed.
Lemma sent1_in : forall (l : list (wout K)) ks i, In (ks, i) (sent1 l) <-> In (WSet ks i) l.
Proof.
  intros l ks i. unfold sent1. rewrite in_flat_map. split.
  - intros [x [Hx Hin]]. destruct x as [ks' i'| |y]; cbn [sent_of] in Hin; try contradiction.
    destruct Hin as [Hin|Hin]; [inversion Hin; subst; exact Hx|contradiction].
  - intros H. exists (WSet ks i). split; [exact H|left; reflexivity].
Qed.
Lemma sent_cons : forall (l : list (wout K)) outs, sent (l :: outs) = sent1 l ++ sent outs.
Proof. intros l outs. unfold sent, sent1. cbn [concat]. apply flat_map_app. Qed.

(* one operation sends nothing, or exactly one set *)
Lemma gstep_sent_shape : forall c s o,
  (sent1 (snd (gstep c s o)) = [] /\ (g_chan c = true -> w_cur (fst (gstep c s o)) = w_cur s)) \/
  (exists ks i, sent1 (snd (gstep c s o)) = [(ks, i)] /\ g_chan c = true /\ w_cur s <> Some i /\ w_cur (fst (gstep c s o)) = Some i /\
                exists a, In a (answers_of o) /\ ga_idx a = Some i /\ ga_set a i = Some ks).
Proof.
  intros c s o. destruct (sent1 (snd (gstep c s o))) as [|[ks i] t] eqn:E.
  - left. split; [reflexivity|]. intros Hc. apply gstep_silent; [exact Hc|].
    intros ks i Hin. apply sent1_in in Hin. rewrite E in Hin. contradiction.
  - right. assert (Hin : In (WSet ks i) (snd (gstep c s o))) by (apply sent1_in; rewrite E; left; reflexivity).
    apply gstep_sent in Hin. destruct Hin as [H1 [H2 [H3 [H4 H5]]]]. rewrite E in H4. inversion H4. subst t.
    exists ks, i. repeat apply conj; assumption.
Qed.

(* ------------------------------------------------------------------ every set sent is the answer pair of one fetch *)
Theorem sent_is_answer_pair : forall c ops s ks i,
  In (ks, i) (sent (snd (grun c s ops))) ->
  exists a, In a (flat_map (@answers_of K) ops) /\ ga_idx a = Some i /\ ga_set a i = Some ks.
Proof.
  intros c ops. induction ops as [|o t IH]; intros s ks i H; [contradiction|].
  cbn [grun snd] in H. rewrite sent_cons in H. apply in_app_or in H. destruct H as [H|H].
  - apply sent1_in in H. apply gstep_sent in H. destruct H as [_ [_ [_ [_ [a [Ha [H1 H2]]]]]]].
    exists a. repeat apply conj; [cbn [flat_map]; apply in_or_app; left; exact Ha|exact H1|exact H2].
  - destruct (IH _ ks i H) as [a [Ha [H1 H2]]].
    exists a. repeat apply conj; [cbn [flat_map]; apply in_or_app; right; exact Ha|exact H1|exact H2].
Qed.

(* ------------------------------------------------------------------ never the same index twice in a row; the remembered index is
   the index of the last set sent *)
Fixpoint idx_chain (cur : option Z) (l : list Z) : Prop :=
  match l with [] => True | i :: t => cur <> Some i /\ idx_chain (Some i) t end.
Definition last_idx (cur : option Z) (l : list Z) : option Z := fold_left (fun _ i => Some i) l cur.

Theorem sent_no_repeat : forall c ops s, g_chan c = true ->
  idx_chain (w_cur s) (map snd (sent (snd (grun c s ops)))) /\
  w_cur (fst (grun c s ops)) = last_idx (w_cur s) (map snd (sent (snd (grun c s ops)))).
Proof.
  intros c ops. induction ops as [|o t IH]; intros s Hc; [split; [exact I|reflexivity]|].
  cbn [grun fst snd]. rewrite sent_cons, map_app.
  destruct (IH (fst (gstep c s o)) Hc) as [IH1 IH2].
  destruct (gstep_sent_shape c s o) as [[E Hcur]|[ks [i [E [_ [Hne [Hcur _]]]]]]]; rewrite E; cbn [map app].
  - rewrite (Hcur Hc) in IH1, IH2. split; assumption.
  - cbn [snd idx_chain]. rewrite Hcur in IH1, IH2. split; [split; assumption|].
    unfold last_idx. cbn [fold_left]. exact IH2.
Qed.

Lemma idx_chain_adjacent : forall l cur l1 a b l2, idx_chain cur l -> l = l1 ++ a :: b :: l2 -> a <> b.
Proof.
  intros l cur l1. revert l cur. induction l1 as [|x l1 IH]; intros l cur a b l2 H E; subst l.
  - cbn [app idx_chain] in H. destruct H as [_ [H _]]. intros Hab. subst. apply H. reflexivity.
  - cbn [app idx_chain] in H. destruct H as [_ H]. apply (IH _ (Some x) a b l2 H). reflexivity.
Qed.

Theorem sent_never_twice_in_a_row : forall c ops s l1 g1 g2 l2, g_chan c = true ->
  sent (snd (@grun K c s ops)) = l1 ++ g1 :: g2 :: l2 -> snd g1 <> snd g2.
Proof.
  intros c ops s l1 g1 g2 l2 Hc E. destruct (sent_no_repeat c ops s Hc) as [H _].
  apply (idx_chain_adjacent _ _ (map snd l1) (snd g1) (snd g2) (map snd l2) H).
  rewrite E, map_app. reflexivity.
Qed.

(* ------------------------------------------------------------------ liveness per fetch *)
Definition fetch_like (o : gop K) (a : gans K) : Prop := o = GFetch a \/ exists h0, o = GRestart a h0.

Theorem fetch_step_updates : forall c s o a i ks, g_chan c = true -> fetch_like o a ->
  ga_idx a = Some i -> ga_set a i = Some ks ->
  w_cur (fst (gstep c s o)) = Some i /\
  ((w_cur s <> Some i /\ sent1 (snd (gstep c s o)) = [(ks, i)]) \/ (w_cur s = Some i /\ snd (gstep c s o) = [])).
Proof.
  intros c s o a i ks Hc Ho Hi Hs.
  destruct (fetch_ok (g_chan c) (w_cur s) a i ks Hi Hs) as [F1 F2]. rewrite Hc in F1, F2.
  destruct Ho as [Ho|[h0 Ho]]; subst o; cbn [gstep fst snd]; rewrite Hc;
    (split; [exact F1|]); (destruct F2 as [[Q1 Q2]|[Q1 Q2]]; rewrite Q2; [left|right]; (split; [exact Q1|reflexivity])).
Qed.

(* a failing fetch: Run returns (errC / initial fetch), nothing is sent, the remembered index stays *)
Theorem fetch_step_error : forall c s o a, fetch_like o a ->
  (ga_idx a = None \/ exists i, ga_idx a = Some i /\ ga_set a i = None) ->
  snd (gstep c s o) = [WDied] /\ w_cur (fst (gstep c s o)) = w_cur s /\ w_pending (fst (gstep c s o)) = w_pending s.
Proof.
  intros c s o a Ho He. pose proof (fetch_err (g_chan c) (w_cur s) a He) as F.
  destruct Ho as [Ho|[h0 Ho]]; subst o; cbn [gstep fst snd]; rewrite F; repeat apply conj; reflexivity.
Qed.

(* the processor, having received in order everything that was sent, holds the last set sent, whose index is the remembered one *)
Lemma last_set_idx : forall (l : list (list K * Z)) init,
  option_map snd (last_set init l) = last_idx (option_map snd init) (map snd l).
Proof.
  intros l. induction l as [|g t IH]; intros init; [reflexivity|].
  unfold last_set, last_idx in *. cbn [fold_left map]. rewrite IH. reflexivity.
Qed.

Theorem processor_index_is_remembered_index : forall c ops s init, g_chan c = true ->
  option_map snd init = w_cur s ->
  option_map snd (last_set init (sent (snd (@grun K c s ops)))) = w_cur (fst (grun c s ops)).
Proof.
  intros c ops s init Hc Hi. rewrite last_set_idx, Hi. destruct (sent_no_repeat c ops s Hc) as [_ H]. symmetry. exact H.
Qed.

Lemma last_set_in : forall (l : list (list K * Z)) init g, last_set init l = Some g -> In g l \/ (init = Some g /\ l = []).
Proof.
  intros l. induction l as [|x t IH]; intros init g H.
  - right. split; [exact H|reflexivity].
  - unfold last_set in *. cbn [fold_left] in H. destruct (IH _ _ H) as [Q|[Q1 Q2]].
    + left. right. exact Q.
    + left. left. inversion Q1. reflexivity.
Qed.
End Histories.

(* ================================================================== the governance contract: append-only sets, two separate calls *)
Section Chain.
Context {K : Type}.

Lemma chain_set_app : forall (ch more : chain K) i, i <= chain_idx ch -> chain_set (ch ++ more) i = chain_set ch i.
Proof.
  intros ch more i H. unfold chain_set, chain_idx in *. destruct (i <? 0) eqn:E; [reflexivity|].
  apply Z.ltb_ge in E. apply app_nth1. lia.
Qed.
Lemma chain_idx_app : forall (ch more : chain K), chain_idx ch <= chain_idx (ch ++ more).
Proof. intros ch more. unfold chain_idx. rewrite app_length. lia. Qed.
Lemma chain_idx_nonneg : forall (ch : chain K), ch <> [] -> 0 <= chain_idx ch.
Proof. intros ch H. unfold chain_idx. destruct ch; [contradiction|cbn [length]; lia]. Qed.

Fixpoint incr_chain (cur : option Z) (l : list Z) : Prop :=
  match l with
  | [] => True
  | i :: t => match cur with Some c0 => c0 < i | None => True end /\ incr_chain (Some i) t
  end.

Definition cur_le (s : wstate) (ch : chain K) : Prop := forall c0, w_cur s = Some c0 -> c0 <= chain_idx ch.

Lemma cev_op_grows : forall (ch : chain K) e, exists more, snd (cev_op ch e) = ch ++ more.
Proof.
  intros ch e. destruct e as [ks|mid e1 e2|mid e1 e2 h0|o]; cbn [cev_op snd].
  - exists [ks]. reflexivity.
  - exists mid. reflexivity.
  - exists mid. reflexivity.
  - exists []. rewrite app_nil_r. reflexivity.
Qed.

(* the answers a contract event hands to the watcher are those of the contract: index before, set after the upgrades in between *)
Lemma cev_op_answers : forall (ch : chain K) e o a, fst (cev_op ch e) = Some o -> In a (answers_of o) ->
  exists mid e1 e2, a = chain_ans ch mid e1 e2.
Proof.
  intros ch e o a H Ha. destruct e as [ks|mid e1 e2|mid e1 e2 h0|o']; cbn [cev_op fst] in H.
  - discriminate H.
  - inversion H. subst o. destruct Ha as [Ha|Ha]; [|contradiction]. exists mid, e1, e2. symmetry. exact Ha.
  - inversion H. subst o. destruct Ha as [Ha|Ha]; [|contradiction]. exists mid, e1, e2. symmetry. exact Ha.
  - destruct (is_fetch o') eqn:E; [discriminate H|]. inversion H. subst o'.
    destruct o; try discriminate E; contradiction.
Qed.

(* one event.  What a fetch against the contract sends is the set OF THE INDEX READ BY ITS FIRST CALL - also when upgrades land
   between the two calls (the second call names that index, and a stored set never changes): keys of set i labelled i, never a mix *)
Lemma chain_step : forall c s (ch : chain K) e o,
  g_chan c = true -> ch <> [] -> cur_le s ch -> fst (cev_op ch e) = Some o ->
  cur_le (fst (gstep c s o)) (snd (cev_op ch e)) /\
  ((sent1 (snd (gstep c s o)) = [] /\ w_cur (fst (gstep c s o)) = w_cur s) \/
   (sent1 (snd (gstep c s o)) = [(chain_set ch (chain_idx ch), chain_idx ch)] /\
    w_cur s <> Some (chain_idx ch) /\ w_cur (fst (gstep c s o)) = Some (chain_idx ch))).
Proof.
  intros c s ch e o Hc Hne Hle Ho. destruct (cev_op_grows ch e) as [more Hm]. rewrite Hm.
  destruct (gstep_sent_shape c s o) as [[E Hcur]|[ks [i [E [_ [Hn [Hcur [a [Ha [Hi Hs]]]]]]]]]].
  - specialize (Hcur Hc). split; [|left; split; assumption].
    intros c0 H0. rewrite Hcur in H0. specialize (Hle c0 H0). pose proof (chain_idx_app ch more). lia.
  - destruct (cev_op_answers ch e o a Ho Ha) as [mid [e1 [e2 Ea]]]. subst a. cbn [chain_ans ga_idx ga_set] in Hi, Hs.
    destruct e1; [discriminate Hi|]. destruct e2; [discriminate Hs|]. inversion Hi. subst i. inversion Hs as [Hk].
    rewrite chain_set_app in Hk by lia. subst ks. split; [|right; repeat apply conj; assumption].
    intros c0 H0. rewrite Hcur in H0. inversion H0. apply chain_idx_app.
Qed.

(* every schedule of upgrades, fetches (with upgrades landing between their two calls, with failing calls), restarts, logs,
   heads, polls: what is sent is (set i of the final contract state, i) for strictly increasing i, and the remembered index
   never exceeds the contract's index *)
Theorem chain_run_spec : forall c evs (ch : chain K) s,
  g_chan c = true -> ch <> [] -> cur_le s ch ->
  let r := crun c ch s evs in
  (exists more, fst (fst r) = ch ++ more) /\
  cur_le (snd (fst r)) (fst (fst r)) /\
  incr_chain (w_cur s) (map snd (sent (snd r))) /\
  Forall (fun g => 0 <= snd g <= chain_idx (fst (fst r)) /\ fst g = chain_set (fst (fst r)) (snd g)) (sent (snd r)).
Proof.
  intros c evs. induction evs as [|e t IH]; intros ch s Hc Hne Hle.
  - cbn. repeat apply conj; [exists []; rewrite app_nil_r; reflexivity|exact Hle|exact I|constructor].
  - cbn [crun]. destruct (cev_op ch e) as [o ch1] eqn:Ec.
    destruct (cev_op_grows ch e) as [more1 Hm1]. rewrite Ec in Hm1. cbn [snd] in Hm1.
    assert (Hne1 : ch1 <> []) by (subst ch1; destruct ch; [contradiction|discriminate]).
    set (r0 := match o with Some o' => gstep c s o' | None => (s, []) end).
    assert (Hstep : cur_le (fst r0) ch1 /\
                    ((sent1 (snd r0) = [] /\ w_cur (fst r0) = w_cur s) \/
                     (sent1 (snd r0) = [(chain_set ch (chain_idx ch), chain_idx ch)] /\
                      w_cur s <> Some (chain_idx ch) /\ w_cur (fst r0) = Some (chain_idx ch)))).
    { subst r0. destruct o as [o'|].
      - assert (Eo : fst (cev_op ch e) = Some o') by (rewrite Ec; reflexivity).
        pose proof (chain_step c s ch e o' Hc Hne Hle Eo) as Q. rewrite Ec in Q. exact Q.
      - cbn [fst snd]. split; [|left; split; reflexivity].
        intros c0 H0. specialize (Hle c0 H0). pose proof (chain_idx_app ch more1). subst ch1. lia. }
    destruct Hstep as [Hle1 Hsent].
    specialize (IH ch1 (fst r0) Hc Hne1 Hle1). destruct (crun c ch1 (fst r0) t) as [[ch2 s2] outs] eqn:Er.
    cbn [fst snd] in *. destruct IH as [[more2 Hm2] [IH2 [IH3 IH4]]].
    rewrite sent_cons, map_app.
    repeat apply conj.
    + exists (more1 ++ more2). rewrite Hm2, Hm1, app_assoc. reflexivity.
    + exact IH2.
    + destruct Hsent as [[E Hcur]|[E [Hn Hcur]]]; rewrite E; cbn [map app snd].
      * rewrite Hcur in IH3. exact IH3.
      * cbn [incr_chain]. rewrite Hcur in IH3. split; [|exact IH3].
        destruct (w_cur s) as [c0|] eqn:Ecur; [|exact I]. specialize (Hle c0 Ecur).
        assert (c0 <> chain_idx ch) by (intros X; apply Hn; rewrite X; reflexivity). lia.
    + apply Forall_app. split; [|exact IH4].
      destruct Hsent as [[E _]|[E _]]; rewrite E; constructor; [|constructor]. cbn [fst snd].
      pose proof (chain_idx_nonneg ch Hne) as H0. pose proof (chain_idx_app ch (more1 ++ more2)) as H1.
      assert (Hch2 : ch2 = ch ++ (more1 ++ more2)) by (rewrite Hm2, Hm1, app_assoc; reflexivity).
      rewrite Hch2. split; [lia|]. symmetry. apply chain_set_app. lia.
Qed.

Lemma incr_chain_sorted : forall l cur, incr_chain cur l -> StronglySorted Z.lt l /\ (forall c0 i, cur = Some c0 -> In i l -> c0 < i).
Proof.
  intros l. induction l as [|x t IH]; intros cur H; [split; [constructor|intros c0 i _ Hin; contradiction]|].
  cbn [incr_chain] in H. destruct H as [H1 H2]. destruct (IH _ H2) as [S1 S2]. split.
  - constructor; [exact S1|]. apply Forall_forall. intros i Hin. exact (S2 x i eq_refl Hin).
  - intros c0 i Hc0 [Hin|Hin].
    + subst. exact H1.
    + subst cur. specialize (S2 x i eq_refl Hin). lia.
Qed.

(* a restart never resurrects an older set: over every schedule the indices sent are strictly increasing *)
Theorem chain_sent_strictly_increasing : forall c evs (ch : chain K) s,
  g_chan c = true -> ch <> [] -> cur_le s ch ->
  StronglySorted Z.lt (map snd (sent (snd (crun c ch s evs)))).
Proof.
  intros c evs ch s Hc Hne Hle. destruct (chain_run_spec c evs ch s Hc Hne Hle) as [_ [_ [H _]]].
  exact (proj1 (incr_chain_sorted _ _ H)).
Qed.

(* crun is grun on the operations the events amount to *)
Fixpoint cops (ch : chain K) (evs : list (cev K)) : list (gop K) :=
  match evs with
  | [] => []
  | e :: t => (match fst (cev_op ch e) with Some o => [o] | None => [] end) ++ cops (snd (cev_op ch e)) t
  end.

Lemma crun_grun : forall c evs (ch : chain K) s,
  snd (fst (crun c ch s evs)) = fst (grun c s (cops ch evs)) /\
  sent (snd (crun c ch s evs)) = sent (snd (grun c s (cops ch evs))).
Proof.
  intros c evs. induction evs as [|e t IH]; intros ch s; [split; reflexivity|].
  cbn [crun cops]. destruct (cev_op ch e) as [o ch1]. cbn [fst snd].
  destruct o as [o'|]; cbn [app].
  - specialize (IH ch1 (fst (gstep c s o'))). destruct (crun c ch1 (fst (gstep c s o')) t) as [[ch2 s2] outs].
    cbn [fst snd grun] in *. destruct IH as [IH1 IH2]. split; [exact IH1|]. rewrite !sent_cons, IH2. reflexivity.
  - specialize (IH ch1 s). cbn [fst snd]. destruct (crun c ch1 s t) as [[ch2 s2] outs].
    cbn [fst snd] in *. destruct IH as [IH1 IH2]. split; [exact IH1|]. rewrite sent_cons, IH2. reflexivity.
Qed.

(* liveness against the contract: a fetch whose two calls succeed with no upgrade in between leaves the watcher remembering the
   contract's current index, and the processor (having received everything that was sent) holding exactly the contract's
   current set under its own index *)
Theorem chain_fetch_delivers_current_set : forall c evs (ch : chain K) last,
  g_chan c = true -> ch <> [] ->
  (last = CFetch [] false false \/ exists h0, last = CRestart [] false false h0) ->
  let r := crun c ch winit (evs ++ [last]) in
  w_cur (snd (fst r)) = Some (chain_idx (fst (fst r))) /\
  last_set None (sent (snd r)) = Some (chain_set (fst (fst r)) (chain_idx (fst (fst r))), chain_idx (fst (fst r))).
Proof.
  intros c evs ch last Hc Hne Hl r.
  assert (Hle0 : cur_le winit ch) by (intros c0 H0; discriminate H0).
  destruct (chain_run_spec c (evs ++ [last]) ch winit Hc Hne Hle0) as [_ [_ [_ HF]]]. fold r in HF.
  destruct (crun_grun c (evs ++ [last]) ch winit) as [G1 G2]. fold r in G1, G2.
  pose proof (processor_index_is_remembered_index c (cops ch (evs ++ [last])) winit None Hc eq_refl) as P.
  rewrite <- G1, <- G2 in P.
  (* the remembered index after the last event *)
  assert (Hcur : w_cur (snd (fst r)) = Some (chain_idx (fst (fst r)))).
  { subst r. clear HF G1 G2 P Hle0. generalize winit as s. revert ch Hne. induction evs as [|e t IH]; intros ch Hne s.
    - cbn [app crun]. destruct Hl as [Hl|[h0 Hl]]; subst last; cbn [cev_op crun fst snd gstep]; rewrite app_nil_r;
        destruct (fetch_ok (g_chan c) (w_cur s) (chain_ans ch [] false false) (chain_idx ch) (chain_set (ch ++ []) (chain_idx ch)) eq_refl eq_refl) as [F _];
        exact F.
    - cbn [app crun]. destruct (cev_op ch e) as [o ch1] eqn:Ec.
      destruct (cev_op_grows ch e) as [more1 Hm1]. rewrite Ec in Hm1. cbn [snd] in Hm1.
      assert (Hne1 : ch1 <> []) by (subst ch1; destruct ch; [contradiction|discriminate]).
      specialize (IH ch1 Hne1 (fst (match o with Some o' => gstep c s o' | None => (s, []) end))).
      destruct (crun c ch1 _ (t ++ [last])) as [[ch2 s2] outs]. exact IH. }
  split; [exact Hcur|].
  rewrite Hcur in P. destruct (last_set None (sent (snd r))) as [[ks i]|] eqn:El; [|discriminate P].
  cbn [option_map snd] in P. inversion P. subst i.
  destruct (last_set_in _ _ _ El) as [Hin|[Hin _]]; [|discriminate Hin].
  rewrite Forall_forall in HF. destruct (HF _ Hin) as [_ Hk]. cbn [fst snd] in Hk. subst ks. reflexivity.
Qed.
End Chain.

(* ================================================================== C10 across restarts of Run *)
Section Restart.
Context {K : Type}.
Implicit Types (s : wstate) (c : gcfg).

Definition not_died (x : out) : bool := match x with Died => false | _ => true end.

Lemma evm_of_wout_of_out : forall (l : list out), flat_map (@evm_of K) (map wout_of_out l) = filter not_died l.
Proof.
  intros l. induction l as [|x t IH]; [reflexivity|].
  cbn [map flat_map filter]. rewrite IH. destruct x; reflexivity.
Qed.
Lemma evm_of_wout_of_gout : forall (l : list (gout K)), flat_map (@evm_of K) (map wout_of_gout l) = [].
Proof.
  intros l. induction l as [|x t IH]; [reflexivity|]. cbn [map flat_map]. rewrite IH. destruct x; reflexivity.
Qed.

(* the Watcher value's pending map and what its goroutines emit are those of the EVM-watcher model run on the operations the
   history executes: fetches and restarts neither touch w.pending nor emit messages *)
Lemma gstep_evm : forall c s (o : gop K),
  w_pending (fst (gstep c s o)) = fst (run (g_evm c) (w_pending s) (gtrace1 s o)) /\
  flat_map (@evm_of K) (snd (gstep c s o)) = filter not_died (concat (snd (run (g_evm c) (w_pending s) (gtrace1 s o)))).
Proof.
  intros c s o. destruct o as [a|a h0|x|answers orc]; cbn [gstep gtrace1 fst snd].
  - split; [reflexivity|]. apply evm_of_wout_of_gout.
  - split; [reflexivity|]. apply evm_of_wout_of_gout.
  - cbn [run fst snd concat]. rewrite app_nil_r. split; [reflexivity|]. rewrite evm_step_outs. apply evm_of_wout_of_out.
  - rewrite evm_steps_pending. cbn [w_pending]. split; [reflexivity|].
    rewrite flat_map_app, evm_steps_outs, evm_of_wout_of_out. cbn [w_pending].
    destruct (snd (poll_tick (w_enabled s) (w_last s) answers)); cbn [flat_map evm_of app]; rewrite app_nil_r; reflexivity.
Qed.

Lemma run_app : forall (c : cfg) a b (s : pending),
  fst (run c s (a ++ b)) = fst (run c (fst (run c s a)) b) /\
  snd (run c s (a ++ b)) = snd (run c s a) ++ snd (run c (fst (run c s a)) b).
Proof.
  intros c a. induction a as [|o t IH]; intros b s; [split; reflexivity|].
  cbn [app run fst snd]. destruct (IH b (fst (step c s o))) as [I1 I2]. rewrite I1, I2. split; reflexivity.
Qed.

Theorem grun_evm : forall c (ops : list (gop K)) s,
  w_pending (fst (grun c s ops)) = fst (run (g_evm c) (w_pending s) (gtrace c s ops)) /\
  evm_outs (snd (grun c s ops)) = filter not_died (concat (snd (run (g_evm c) (w_pending s) (gtrace c s ops)))).
Proof.
  intros c ops. induction ops as [|o t IH]; intros s; [split; reflexivity|].
  cbn [grun gtrace fst snd]. destruct (gstep_evm c s o) as [G1 G2]. destruct (IH (fst (gstep c s o))) as [I1 I2].
  destruct (run_app (g_evm c) (gtrace1 s o) (gtrace c (fst (gstep c s o)) t) (w_pending s)) as [R1 R2].
  rewrite R1, R2, <- G1. split; [exact I1|].
  unfold evm_outs in *. cbn [concat]. rewrite flat_map_app, concat_app, filter_app, G2, I2, G1. reflexivity.
Qed.

(* the logs and heads a history executes are those it was given (a poller tick contributes heads only) *)
Lemma gtrace_log : forall c (ops : list (gop K)) s e bt, In (OLog e bt) (gtrace c s ops) -> In (GEvm (OLog e bt)) ops.
Proof.
  intros c ops. induction ops as [|o t IH]; intros s e bt H; [contradiction|].
  cbn [gtrace] in H. apply in_app_or in H. destruct H as [H|H].
  - destruct o as [a|a h0|x|answers orc]; cbn [gtrace1] in H; try contradiction.
    + destruct H as [H|H]; [subst x; left; reflexivity|contradiction].
    + unfold poll_heads in H. apply in_map_iff in H. destruct H as [h [H _]]. discriminate H.
  - right. exact (IH _ e bt H).
Qed.

Lemma run_in_split : forall (c : cfg) ops (s : pending) x, In x (concat (snd (run c s ops))) ->
  exists pre o post, ops = pre ++ o :: post /\ In x (snd (step c (fst (run c s pre)) o)).
Proof.
  intros c ops. induction ops as [|o t IH]; intros s x H; [contradiction|].
  cbn [run snd concat] in H. apply in_app_or in H. destruct H as [H|H].
  - exists [], o, t. split; [reflexivity|exact H].
  - destruct (IH _ x H) as [pre [o' [post [E Hin]]]]. exists (o :: pre), o', post. split; [rewrite E; reflexivity|exact Hin].
Qed.

Lemma confirmed_only_by_head : forall (c : cfg) (s : pending) o k m, In (Confirmed k m) (snd (step c s o)) -> exists n safe orc, o = OHead n safe orc.
Proof.
  intros c s o k m H. destruct o as [e [tm|]|n safe orc|hb ha rc bt]; cbn [step snd] in H.
  - contradiction.
  - destruct H as [H|H]; [discriminate H|contradiction].
  - exists n, safe, orc. reflexivity.
  - exfalso. assert (Hf : filter (aboutb k) (reobserve c hb ha rc bt) = []) by apply about_reobserve.
    assert (Hin : In (Confirmed k m) (filter (aboutb k) (reobserve c hb ha rc bt))).
    { apply filter_In. split; [exact H|]. unfold aboutb. cbn [about]. apply key_eqb_refl. }
    rewrite Hf in Hin. contradiction.
Qed.

(* SAFETY across any number of restarts, guardian-set fetches and poller ticks, from a fresh Watcher value: a message leaves the
   per-head scan only if a log with that key was delivered earlier (with its block time), the scanned head has reached the log's
   height + expected confirmations (the source's uint64 arithmetic), and the receipt answer of THAT scan is error-free with status
   1 and the block hash recorded when the log was seen *)
Theorem restart_forward_safe : forall c (ops : list (gop K)) k m,
  In (WEvm (Confirmed k m)) (concat (snd (grun c winit ops))) ->
  exists e tm n safe orc,
    In (GEvm (OLog e (Some tm))) ops /\ key_of e = k /\ m = msg_of (g_evm c) e tm /\
    In (OHead n safe orc) (gtrace c winit ops) /\
    thr_of (c_wait (g_evm c)) safe (pm_of (g_evm c) e tm) <= u64 n /\
    orc k = mkAns (Some (1, e_bh e)) ENone.
Proof.
  intros c ops k m H.
  assert (Hin : In (Confirmed k m) (evm_outs (snd (grun c winit ops)))).
  { unfold evm_outs. apply in_flat_map. exists (WEvm (Confirmed k m)). split; [exact H|left; reflexivity]. }
  destruct (grun_evm c ops winit) as [_ G]. rewrite G in Hin. apply filter_In in Hin. destruct Hin as [Hin _].
  cbn [winit w_pending] in Hin.
  destruct (run_in_split _ _ _ _ Hin) as [pre [o [post [E Hs]]]].
  destruct (confirmed_only_by_head _ _ _ _ _ Hs) as [n [safe [orc Eo]]]. subst o.
  apply scan_step_safe in Hs. destruct Hs as [p [Hp [Hm [Hd Ha]]]].
  destruct (prov_init (g_evm c) pre k p Hp) as [e [tm [H1 [H2 H3]]]]. subst k p.
  exists e, tm, n, safe, orc. repeat apply conj; try reflexivity; try assumption.
  - apply (gtrace_log c ops winit). rewrite E. apply in_or_app. left. exact H1.
  - rewrite E. apply in_or_app. right. left. reflexivity.
Qed.

(* the same in plain arithmetic under the range hypotheses of C10 *)
Theorem restart_forward_safe_math : forall c (ops : list (gop K)) k m,
  (forall e tm, In (GEvm (OLog e (Some tm))) ops -> wf_ev e) ->
  (forall n safe orc, In (OHead n safe orc) (gtrace c winit ops) -> 0 <= n < two64) ->
  In (WEvm (Confirmed k m)) (concat (snd (grun c winit ops))) ->
  exists e tm n safe orc,
    In (GEvm (OLog e (Some tm))) ops /\ key_of e = k /\ m = msg_of (g_evm c) e tm /\
    In (OHead n safe orc) (gtrace c winit ops) /\
    e_h e + evm_expected (c_wait (g_evm c)) safe (e_cl e) <= n /\
    orc k = mkAns (Some (1, e_bh e)) ENone.
Proof.
  intros c ops k m Hwf Hn H. destruct (restart_forward_safe c ops k m H) as [e [tm [n [safe [orc [H1 [H2 [H3 [H4 [H5 H6]]]]]]]]]].
  exists e, tm, n, safe, orc. repeat apply conj; try assumption.
  rewrite (thr_math _ _ _ (wf_pm_of (g_evm c) e tm (Hwf e tm H1))) in H5. rewrite (u64_id n (Hn n safe orc H4)) in H5. exact H5.
Qed.

(* never twice across restarts (unless the node announces the log again) *)
Theorem restart_at_most_once : forall c (ops : list (gop K)) s k,
  NoDup (keys (w_pending s)) -> no_relog k (gtrace c s ops) ->
  (length (filter (confirmedb k) (evm_outs (snd (grun c s ops)))) <= 1)%nat.
Proof.
  intros c ops s k Hnd Hr. destruct (grun_evm c ops s) as [_ G]. rewrite G.
  pose proof (at_most_once (g_evm c) (w_pending s) k (gtrace c s ops) Hnd Hr) as H.
  eapply Nat.le_trans; [|exact H].
  generalize (concat (snd (run (g_evm c) (w_pending s) (gtrace c s ops)))). intros l.
  induction l as [|x t IH]; [cbn; lia|]. cbn [filter]. destruct (not_died x); cbn [filter]; destruct (confirmedb k x); cbn [length]; lia.
Qed.

Theorem restart_pending_keys_distinct : forall c (ops : list (gop K)), NoDup (keys (w_pending (fst (grun c winit ops)))).
Proof.
  intros c ops. destruct (grun_evm c ops winit) as [G _]. rewrite G. apply nodup_run. constructor.
Qed.

(* ------------------------------------------------------------------ what a restart does to liveness *)
(* the guard of repo commit b274c5a is in the source (gen.ExtractedEvmGs is regenerated on every run: without the guard this lemma
   stops compiling) *)
Lemma restart_guard : evm_restart_enables_poller = true.
Proof. reflexivity. Qed.

(* the state the property cannot live with: messages pending and the block poller switched off *)
Definition poller_inv (s : wstate) : Prop := w_pending s <> [] -> w_enabled s = true.

Lemma evm_step_inv : forall c s x, poller_inv s -> poller_inv (fst (@evm_step K c s x)).
Proof.
  intros c s x Hi. unfold poller_inv in *. destruct x as [e [tm|]|n safe orc|hb ha rc bt]; cbn [evm_step step fst w_pending w_enabled].
  - intros _. reflexivity.
  - exact Hi.
  - intros Hne. destruct (fst (scan (c_wait (g_evm c)) safe n orc (w_pending s))) eqn:E; [contradiction|].
    cbn [after_scan_enabled]. apply Hi. intros Hp. rewrite Hp in E. discriminate E.
  - exact Hi.
Qed.
Lemma evm_steps_inv : forall c os s, poller_inv s -> poller_inv (fst (@evm_steps K c s os)).
Proof.
  intros c os. induction os as [|x t IH]; intros s Hi; [exact Hi|].
  cbn [evm_steps fst]. apply IH. apply evm_step_inv. exact Hi.
Qed.

Lemma gstep_inv : forall c s (o : gop K), poller_inv s -> poller_inv (fst (gstep c s o)).
Proof.
  intros c s o Hi. destruct o as [a|a h0|x|answers orc]; cbn [gstep fst].
  - exact Hi.
  - unfold poller_inv. cbn [w_pending w_enabled]. rewrite restart_guard. intros Hne.
    unfold restart_enabled. destruct (w_pending s); [contradiction|reflexivity].
  - apply evm_step_inv. exact Hi.
  - apply evm_steps_inv. exact Hi.
Qed.

(* in EVERY reachable state - any number of restarts, failing fetches, logs, heads, re-observations, poller ticks - messages pending
   imply that the block poller is switched on *)
Theorem poller_on_while_pending : forall c (ops : list (gop K)) s, poller_inv s -> poller_inv (fst (grun c s ops)).
Proof.
  intros c ops. induction ops as [|o t IH]; intros s Hi; [exact Hi|].
  cbn [grun fst]. apply IH. apply gstep_inv. exact Hi.
Qed.
Lemma winit_inv : poller_inv winit.
Proof. intros H. exfalso. apply H. reflexivity. Qed.

(* ... and without the guard (the tree before repo commit b274c5a) a restart leaves the poller off whatever is pending: poller ticks,
   however many and whatever the node answers, process no head, emit nothing and leave w.pending as it is *)
Lemma unrepaired_polls_do_nothing : forall c (polls : list (list (option Z) * (key -> rans))) s,
  w_enabled s = false ->
  w_pending (fst (grun_gen false c s (map (fun p => @GPoll K (fst p) (snd p)) polls))) = w_pending s /\
  Forall (fun l => l = []) (snd (grun_gen false c s (map (fun p => @GPoll K (fst p) (snd p)) polls))).
Proof.
  intros c polls. induction polls as [|[answers orc] t IH]; intros s He; [split; [reflexivity|constructor]|].
  cbn [map grun_gen fst snd gstep_gen]. unfold poll_heads. rewrite He, poll_tick_disabled. cbn [fst snd map evm_steps app].
  destruct (IH (mkW (w_pending s) (w_cur s) false (w_last s)) eq_refl) as [I1 I2]. cbn [w_pending] in I1.
  split; [exact I1|constructor; [reflexivity|exact I2]].
Qed.

Theorem unrepaired_restart_stalls : forall c s (a : gans K) h0 (polls : list (list (option Z) * (key -> rans))),
  let s1 := fst (gstep_gen false c s (GRestart a h0)) in
  w_enabled s1 = false /\
  w_pending (fst (grun_gen false c s1 (map (fun p => @GPoll K (fst p) (snd p)) polls))) = w_pending s /\
  Forall (fun l => l = []) (snd (grun_gen false c s1 (map (fun p => @GPoll K (fst p) (snd p)) polls))).
Proof.
  intros c s a h0 polls s1.
  assert (He : w_enabled s1 = false) by reflexivity.
  destruct (unrepaired_polls_do_nothing c polls s1 He) as [H1 H2].
  repeat apply conj; [exact He|rewrite H1; reflexivity|exact H2].
Qed.

(* the next log (of any transaction) switches the poller on again ... *)
Lemma log_switches_poller_on : forall c s e tm, w_enabled (fst (@gstep K c s (GEvm (OLog e (Some tm))))) = true.
Proof. intros c s e tm. reflexivity. Qed.

(* ... and then the first poller tick that publishes a head at or beyond the depth forwards the entry left over from before the
   restart, if its receipt is unchanged (the scan after repo commit 40922fc abandons only after failed lookups) *)
Theorem restart_resumes_after_next_log : forall c s k p answers orc n sf last' err,
  w_enabled s = true -> NoDup (keys (w_pending s)) -> find k (w_pending s) = Some p -> wf_p p ->
  poll_tick true (w_last s) answers = (last', [(n, sf)], err) ->
  0 <= n < two64 -> p_height p + expected_of (c_wait (g_evm c)) sf p <= n ->
  orc k = mkAns (Some (1, k_bh k)) ENone ->
  In (WEvm (Confirmed k (p_msg p))) (snd (@gstep K c s (GPoll answers orc))) /\
  find k (w_pending (fst (@gstep K c s (GPoll answers orc)))) = None.
Proof.
  intros c s k p answers orc n sf last' err He Hnd Hf Hp Hpt Hn Hdeep Hgood.
  cbn [gstep fst snd]. unfold poll_heads. rewrite He, Hpt. cbn [fst snd map evm_steps].
  assert (Q : no_relog k ([] : list op)) by (intros o H; contradiction).
  destruct (forwarded_exactly_once (g_evm c) (w_pending s) k p [] n sf orc [] Hnd Hf Hp Q Q) as [_ [R2 R3]];
    try assumption.
  { intros n' safe' orc' H. contradiction. }
  cbn [app run fst snd length nth] in R2, R3. split.
  - apply in_or_app. left. rewrite app_nil_r. rewrite evm_step_outs. cbn [w_pending].
    apply in_map_iff. exists (Confirmed k (p_msg p)). split; [reflexivity|exact R2].
  - exact R3.
Qed.

(* LIVENESS across restarts, without any "next log": after ANY history from a fresh Watcher value, a message that is pending is
   forwarded by the first poller tick that publishes a head at or beyond its depth, if its receipt is unchanged *)
Theorem restart_liveness : forall c (pre : list (gop K)) k p answers orc n sf last' err,
  let s := fst (grun c winit pre) in
  find k (w_pending s) = Some p -> wf_p p ->
  poll_tick true (w_last s) answers = (last', [(n, sf)], err) ->
  0 <= n < two64 -> p_height p + expected_of (c_wait (g_evm c)) sf p <= n ->
  orc k = mkAns (Some (1, k_bh k)) ENone ->
  In (WEvm (Confirmed k (p_msg p))) (snd (@gstep K c s (GPoll answers orc))) /\
  find k (w_pending (fst (@gstep K c s (GPoll answers orc)))) = None.
Proof.
  intros c pre k p answers orc n sf last' err s Hf Hp Hpt Hn Hd Hg.
  apply (restart_resumes_after_next_log c s k p answers orc n sf last' err); try assumption.
  - apply (poller_on_while_pending c pre winit winit_inv). intros He. fold s in He. rewrite He in Hf. discriminate Hf.
  - apply restart_pending_keys_distinct.
Qed.

(* a log whose block-time lookup fails: Run returns, the log is in no data structure, and - the subscription of the next Run does
   not replay it - it is never forwarded, however the chain advances and whatever the receipts say, unless the node announces
   it again *)
Theorem log_lost_when_block_time_lookup_fails : forall c s e (ops : list (gop K)),
  NoDup (keys (w_pending s)) -> find (key_of e) (w_pending s) = None ->
  no_relog (key_of e) (gtrace c s ops) ->
  @gstep K c s (GEvm (OLog e None)) = (s, [WDied]) /\
  forall x, In x (evm_outs (snd (grun c s (GEvm (OLog e None) :: ops)))) -> aboutb (key_of e) x = false.
Proof.
  intros c s e ops Hnd Hf Hr.
  assert (Es : @gstep K c s (GEvm (OLog e None)) = (s, [WDied])) by (destruct s; reflexivity).
  split; [exact Es|].
  intros x Hin. destruct (aboutb (key_of e) x) eqn:Ea; [|reflexivity]. exfalso.
  cbn [grun snd] in Hin. rewrite Es in Hin. cbn [fst snd] in Hin.
  unfold evm_outs in Hin. cbn [concat app flat_map evm_of] in Hin.
  change (In x (evm_outs (snd (grun c s ops)))) in Hin.
  destruct (grun_evm c ops s) as [_ G]. rewrite G in Hin. apply filter_In in Hin. destruct Hin as [Hin _].
  destruct (run_fate (g_evm c) (key_of e) (gtrace c s ops) (w_pending s) Hnd) as [R _].
  rewrite Hf, (fate_none _ _ _ Hr) in R. cbn [fst] in R.
  assert (Hx : In x (concat (map (filter (aboutb (key_of e))) (snd (run (g_evm c) (w_pending s) (gtrace c s ops)))))).
  { apply in_concat in Hin. destruct Hin as [l [Hl Hxl]]. apply in_concat. exists (filter (aboutb (key_of e)) l).
    split; [apply in_map; exact Hl|apply filter_In; split; assumption]. }
  rewrite R in Hx. apply in_concat in Hx. destruct Hx as [l [Hl Hxl]]. apply in_map_iff in Hl. destruct Hl as [_ [El _]].
  subst l. contradiction.
Qed.
End Restart.
