(* C19: what the explorer's store can learn through GetGuardianSet when the fetched range is capped at the contract's current index
   (model/ExplorerRange.v), and what it keeps for good when it is not. *)
From Coq Require Import List ZArith Bool Arith Lia.
From Coq Require Import Strings.Byte.
From WH Require Import lib.Bytes gen.Extracted model.Vaa model.Explorer model.ExplorerRange proofs.ExplorerProofs.
Import ListNotations.
Open Scope Z_scope.

(* the contract labels its answers with the index asked for (Go side: `Index: index` in the loop) *)
Definition labels (c : contract) : Prop := forall i g, c_set c i = Some g -> g_index g = i.

(* g is the contract's answer for its own index, and that index is one the contract has *)
Definition chain_has (c : contract) (ci : Z) (g : gset) : Prop := g_index g <= ci /\ c_set c (g_index g) = Some g.

Lemma fetch_range_elems c : labels c -> forall n from l, fetch_range c from n = Some l ->
  Forall (fun g => from <= g_index g < from + Z.of_nat n /\ c_set c (g_index g) = Some g) l.
Proof.
  intros L. induction n as [|n IH]; intros from l H; cbn [fetch_range] in H.
  - inversion H. constructor.
  - destruct (c_set c from) as [g|] eqn:G; [|discriminate].
    destruct (fetch_range c (from + 1) n) as [t|] eqn:T; [|discriminate]. inversion H; subst. constructor.
    + pose proof (L _ _ G) as E. rewrite E. split; [lia | exact G].
    + specialize (IH _ _ T). eapply Forall_impl; [|exact IH]. cbn. intros a [B A]. split; [lia | exact A].
Qed.

Lemma range_capped_has c ci from to l : labels c -> c_cur c = Some ci -> range_of true c from to = Some l -> Forall (chain_has c ci) l.
Proof.
  intros L C H. unfold range_of in H. rewrite C in H. pose proof (fetch_range_elems c L _ _ _ H) as F.
  eapply Forall_impl; [|exact F]. cbn. intros g [B A]. split; [|exact A].
  assert (Z.of_nat (Z.to_nat (Z.min to ci - from + 1)) = Z.max 0 (Z.min to ci - from + 1)) as M by lia.
  rewrite M in B. lia.
Qed.

Lemma in_skipn {A} (x : A) : forall k l, In x (skipn k l) -> In x l.
Proof. induction k as [|k IH]; intros l H; [exact H|]. destruct l as [|a t]; [exact H|]. right. apply IH. exact H. Qed.

Lemma update_keeps (P : gset -> Prop) s batch : Forall P (lists s) -> Forall P batch -> Forall P (lists (update s batch)).
Proof.
  intros A B. unfold update. destruct (update_plan s batch) as [[c suf]|] eqn:U; [|exact A].
  cbn. apply Forall_app. split; [exact A|].
  unfold update_plan in U. destruct (last_index batch); [|discriminate]. destruct (_ <=? _); [discriminate|]. inversion U; subst.
  apply Forall_forall. intros x X. rewrite Forall_forall in B. apply B. eapply in_skipn. exact X.
Qed.

(* every lookup leaves a store that holds only sets the contract has *)
Theorem get_learns_only_chain_sets c ci s i s' r sent : labels c -> c_cur c = Some ci ->
  Forall (chain_has c ci) (lists s) -> get (range_of true c) s i = (s', r, sent) -> Forall (chain_has c ci) (lists s').
Proof.
  intros L C A H. unfold get in H. destruct (i <=? cur s).
  - inversion H; subst. exact A.
  - destruct (range_of true c (u32 (cur s + 1)) (u32 i)) as [b|] eqn:R.
    + assert (Forall (chain_has c ci) (lists (update s b))) as U by (apply update_keeps; [exact A | eapply range_capped_has; eassumption]).
      destruct (get_current (update s b)); [destruct (cur (update s b) <? i)|]; inversion H; subst; exact U.
    + inversion H; subst. exact A.
Qed.

(* a store that is up to date refuses an index the contract does not have yet and stores nothing for it *)
Theorem future_index_refused c ci s i : aligned s -> c_cur c = Some ci -> cur s = ci -> 0 <= ci -> ci < i < 2 ^ 32 ->
  exists g, get (range_of true c) s i = (s, GErrIndex, [g_index g]) /\ nth_set s i = None.
Proof.
  intros A C E Z I. destruct (nth_set_aligned s (cur s) A ltac:(lia)) as [g [G _]]. exists g.
  assert (nth_set s i = None) as N.
  { unfold nth_set. destruct (i <? 0) eqn:Q; [reflexivity|]. apply nth_error_None. destruct A as [A1 A2]. lia. }
  split; [|exact N]. unfold get. destruct (i <=? cur s) eqn:Q; [apply Z.leb_le in Q; lia|].
  rewrite !u32_small by lia. unfold range_of. rewrite C, E.
  replace (Z.min i ci - (ci + 1) + 1) with 0 by lia. cbn [Z.to_nat fetch_range].
  unfold update, update_plan. cbn [last_index rev]. unfold get_current. rewrite G.
  destruct (cur s <? i) eqn:Q2; [reflexivity | apply Z.ltb_ge in Q2; lia].
Qed.

(* without the cap: the empty answer for an index the contract does not have yet is stored, and it is still what the lookup returns after
   the contract got that set *)
Definition rx_k (b : byte) : bytes := [b].
Definition rx_hist0 : list (list bytes) := [[rx_k x01]].
Definition rx_hist1 : list (list bytes) := [[rx_k x01]; [rx_k x02; rx_k x03]].
Definition rx_store : store := {| cur := 0; lists := [{| g_index := 0; g_keys := Some [rx_k x01] |}] |}.

Lemma uncapped_keeps_the_empty_answer :
  let '(s1, r1, _) := get (range_of false (contract_of rx_hist0)) rx_store 1 in
  let '(_, r2, _) := get (range_of false (contract_of rx_hist1)) s1 1 in
  r1 = GOk {| g_index := 1; g_keys := Some [] |} /\ r2 = GOk {| g_index := 1; g_keys := Some [] |} /\
  c_set (contract_of rx_hist1) 1 = Some {| g_index := 1; g_keys := Some [rx_k x02; rx_k x03] |}.
Proof. vm_compute. repeat split; reflexivity. Qed.

(* ... and with it the same history ends with the contract's set *)
Lemma capped_learns_the_real_set :
  let '(s1, r1, _) := get (range_of true (contract_of rx_hist0)) rx_store 1 in
  let '(_, r2, _) := get (range_of true (contract_of rx_hist1)) s1 1 in
  r1 = GErrIndex /\ s1 = rx_store /\ r2 = GOk {| g_index := 1; g_keys := Some [rx_k x02; rx_k x03] |}.
Proof. vm_compute. repeat split; reflexivity. Qed.
