(* Extension X10, part 6: the EVM oracle instance INSIDE the re-observation loop (model/ReobsLoop.v): through the loop the processor
   handles - hence signs - only EVM messages that satisfy C10's re-observation contract (proofs/ClosureProofs2.v). *)
From Coq Require Import List ZArith Lia Bool Arith.
From Coq Require Import Strings.Byte.
From WH Require Import lib.Bytes lib.EvmAbi gen.Extracted gen.ExtractedWiring model.Vaa model.Processor model.ReobsLoop model.Closure.
From WH Require Import proofs.ReobsLoopBase proofs.ClosureProofs2.
Import ListNotations.
Open Scope Z_scope.

Section EvmLoop.
Variable recover : bytes -> bytes -> option bytes.
Variable keccak : bytes -> bytes.
Variable sign : bytes -> bytes.
Variable own : addr.
Variable gov_chain : Z.
Variable gov_addr : bytes.
Variable decode_hb : bytes -> option Z.
Variable decodeq : bytes -> option R.req.
Variable encq : R.req -> bytes.
Variable self : G.peerid.
Variable disable : bool.
Variable ecfg : Z -> EL.xcfg.
Variable enode : Z -> R.req -> Z -> evm_ans.
Variable other : Z -> R.req -> Z -> list msgpub.

Notation watch := (evm_watch ecfg enode other).
Notation lrun := (ReobsLoop.lrun recover keccak sign own gov_chain gov_addr decode_hb decodeq encq self disable watch).
Notation lstates := (ReobsLoop.lstates recover keccak sign own gov_chain gov_addr decode_hb decodeq encq self disable watch).

(* THROUGH THE LOOP: over every history of the composed node from its initial state - whatever requests arrive, from whatever peer,
   for whatever transaction, at whatever rate - every chain message the processor handles was handed over by a watcher's polling
   path, or is in the answer of watcher c to a request that names chain c; and if c is an EVM chain, the message is the content of a
   core-contract log of a status-1 receipt at the required depth when re-observed *)
Theorem loop_evm_signs_only_confirmed H u m outs : In (u, EProc (LocalMsg m) outs) (snd (lrun linit H)) ->
  (exists s, In (s, LEnv (VMsg m)) (lstates linit H)) \/
  (exists s c r, In (s, LWatch c) (lstates linit H) /\ R.chain_of r = c /\
     if is_evm_chain c then evm_confirmed (ecfg c) (enode c r (l_now s)) m else In m (other c r (l_now s))).
Proof.
  intros Hin.
  destruct (ReobsLoopBase.loop_signs_only_watched recover keccak sign own gov_chain gov_addr decode_hb decodeq encq self disable watch H u m outs Hin)
    as [L|(s & c & r & Hs & Hc & Hm)]; [left; exact L|].
  right. exists s, c, r. split; [exact Hs|]. split; [exact Hc|]. destruct (is_evm_chain c) eqn:E.
  - apply (evm_watch_contract ecfg enode other c r (l_now s) m E Hm).
  - unfold evm_watch in Hm. rewrite E in Hm. exact Hm.
Qed.

(* ... in particular an observation of its own goes out (the processor SIGNS) only in such a step, in an injection or when the
   cleanup tick re-broadcasts an earlier observation: ReobsLoopBase.sendobs_source *)
End EvmLoop.

