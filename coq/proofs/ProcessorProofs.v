(* Safety invariants of the processor model: C01 (published VAAs are quorum-valid), C03 (observation half), C13 (no panic). *)
From Coq Require Import List ZArith Lia Bool Arith.
From Coq Require Import Strings.Byte.
From WH Require Import lib.Bytes gen.Extracted model.Vaa model.Processor proofs.VaaProofs proofs.QuorumProofs.
Import ListNotations.
Open Scope Z_scope.

(* ------------------------------------------------------------------ association lists *)
Lemma alookup_In {V} k (m : list (bytes * V)) v : alookup k m = Some v -> In (k, v) m.
Proof.
  induction m as [|[k' v'] m IH]; cbn [alookup]; [discriminate|].
  destruct (bytes_eqb_spec k k') as [->|Hn]; [intros E; inversion E; left; reflexivity|intros H; right; auto].
Qed.

Lemma Forall_aremove {V} (P : bytes * V -> Prop) k m : Forall P m -> Forall P (aremove k m).
Proof. intros H. unfold aremove. apply Forall_forall. intros x Hx. apply filter_In in Hx as [Hx _]. rewrite Forall_forall in H. auto. Qed.

Lemma Forall_aset {V} (P : bytes * V -> Prop) k v m : P (k, v) -> Forall P m -> Forall P (aset k v m).
Proof. intros H1 H2. unfold aset. constructor; [assumption|apply Forall_aremove; assumption]. Qed.

Lemma alookup_aremove {V} k k' (m : list (bytes * V)) : alookup k' (aremove k m) = if bytes_eqb k k' then None else alookup k' m.
Proof.
  induction m as [|[k0 v0] m IH]; cbn [aremove filter alookup fst]; [destruct (bytes_eqb k k'); reflexivity|].
  fold (aremove k m).
  destruct (bytes_eqb_spec k k0) as [->|Hn]; cbn [negb].
  - rewrite IH. destruct (bytes_eqb_spec k0 k') as [->|Hn2]; [reflexivity|].
    destruct (bytes_eqb_spec k' k0) as [->|]; [contradiction|reflexivity].
  - cbn [alookup]. rewrite IH. destruct (bytes_eqb_spec k' k0) as [->|Hn2]; [|reflexivity].
    destruct (bytes_eqb_spec k k0) as [->|]; [contradiction|reflexivity].
Qed.

Lemma alookup_aset {V} k k' (v : V) m : alookup k' (aset k v m) = if bytes_eqb k' k then Some v else alookup k' m.
Proof.
  unfold aset. cbn [alookup]. destruct (bytes_eqb_spec k' k) as [->|Hn]; [reflexivity|].
  rewrite alookup_aremove. destruct (bytes_eqb_spec k k') as [->|]; [contradiction|reflexivity].
Qed.

Lemma id_eqb_eq a b : id_eqb a b = true <-> a = b.
Proof.
  destruct a as [[[c1 a1] t1] s1], b as [[[c2 a2] t2] s2]. unfold id_eqb. rewrite !andb_true_iff, !Z.eqb_eq, bytes_eqb_eq.
  split; [intros [[[-> ->] ->] ->]; reflexivity|intros E; inversion E; auto].
Qed.

Lemma dlookup_In i m b : dlookup i m = Some b -> In (i, b) m.
Proof.
  induction m as [|[i' b'] m IH]; cbn [dlookup]; [discriminate|].
  destruct (id_eqb i i') eqn:E; [apply id_eqb_eq in E; subst; intros H; inversion H; left; reflexivity|intros H; right; auto].
Qed.

(* ------------------------------------------------------------------ crypto wrapper *)
Lemma recover_checked_len recover h s a : recover_checked recover h s = Some a -> length h = 32%nat /\ length s = 65%nat.
Proof.
  unfold recover_checked. destruct (Nat.eqb_spec (length h) 32); cbn [andb]; [|discriminate].
  destruct (Nat.eqb_spec (length s) 65); [|discriminate]. intros _. split; assumption.
Qed.

Lemma go_quorum_pos n : 0 <= n -> 1 <= go_quorum n.
Proof. intros H. rewrite go_quorum_spec by assumption. apply quorum_pos. assumption. Qed.

(* the two quorum comparisons as read from observation.go (Extracted.v): these lemmas fail if the source compares differently *)
Lemma local_quorum_reached_iff q n : proc_local_quorum_reached q n = true <-> q <= n.
Proof. unfold proc_local_quorum_reached. apply Z.leb_le. Qed.
Lemma inbound_below_quorum_iff n q : proc_inbound_below_quorum n q = true <-> n < q.
Proof. unfold proc_inbound_below_quorum. apply Z.ltb_lt. Qed.
Lemma local_quorum_reached_spec q n : Bool.reflect (q <= n) (proc_local_quorum_reached q n).
Proof. apply Bool.iff_reflect. symmetry. apply local_quorum_reached_iff. Qed.
Lemma inbound_below_quorum_spec n q : Bool.reflect (n < q) (proc_inbound_below_quorum n q).
Proof. apply Bool.iff_reflect. symmetry. apply inbound_below_quorum_iff. Qed.

Section P.
Variable recover : bytes -> bytes -> option bytes.
Variable keccak : bytes -> bytes.
Variable sign : bytes -> bytes.
Variable own : addr.
Variable gov_chain : Z.
Variable gov_addr : bytes.

Notation rec := (Processor.rec recover).
Notation dg := (Processor.dg keccak).
Notation step := (Processor.step recover keccak sign own gov_chain gov_addr).
Notation run := (Processor.run recover keccak sign own gov_chain gov_addr).
Notation handle_obs := (Processor.handle_obs recover).
Notation handle_inbound := (Processor.handle_inbound recover keccak).
Notation handle_message := (Processor.handle_message keccak sign own gov_chain gov_addr).
Notation broadcast_signature := (Processor.broadcast_signature keccak own).

Definition gs_wf (g : gset) : Prop := NoDup (keys g) /\ (length (keys g) <= 256)%nat.

(* what "a valid quorum VAA of key list K" means: C06's acceptance + the node's count test *)
Definition quorum_valid (v : vaa) (K : list addr) : Prop :=
  accepts rec (dg v) K (sigs v) /\ go_quorum (Z.of_nat (length K)) <= Z.of_nat (length (sigs v)).

Definition sig_ok (h : bytes) (p : addr * bytes) : Prop := rec h (snd p) = Some (fst p).

(* ------------------------------------------------------------------ the aggregation loop *)
Lemma assemble_ok h es : Forall (sig_ok h) es -> forall ks pre,
  NoDup (pre ++ ks) -> (length pre + length ks <= 256)%nat ->
  exists sg, assemble ks (Z.of_nat (length pre)) es = Some sg /\
             increasing (Z.of_nat (length pre) - 1) (map s_idx sg) /\
             Forall (signer_ok rec h (pre ++ ks)) sg /\
             Forall (fun s => exists a, In a ks /\ alookup a es = Some (s_data s)) sg /\
             (length sg <= length ks)%nat /\
             Z.of_nat (length sg) = Z.of_nat (length (filter (fun a => match alookup a es with Some _ => true | None => false end) ks)).
Proof.
  intros Hes. induction ks as [|a ks IH]; intros pre ND Hl.
  - exists []. cbn. repeat split; constructor.
  - cbn [assemble filter].
    assert (ND' : NoDup ((pre ++ [a]) ++ ks)) by (rewrite <- app_assoc; exact ND).
    assert (Hl' : (length (pre ++ [a]) + length ks <= 256)%nat) by (rewrite app_length; cbn [length] in *; lia).
    destruct (IH (pre ++ [a]) ND' Hl') as (sg & Ha & Hi & Hf & Hm & Hlen & Hcnt).
    rewrite app_length in Ha, Hi. cbn [length] in Ha, Hi.
    replace (Z.of_nat (length pre + 1)) with (Z.of_nat (length pre) + 1) in Ha, Hi by lia.
    assert (Hf' : Forall (signer_ok rec h (pre ++ a :: ks)) sg) by (rewrite <- app_assoc in Hf; exact Hf).
    assert (Hm' : Forall (fun s => exists a0, In a0 (a :: ks) /\ alookup a0 es = Some (s_data s)) sg).
    { eapply Forall_impl; [|exact Hm]. intros s (a0 & H1 & H2). exists a0. split; [right; assumption|assumption]. }
    destruct (alookup a es) as [s|] eqn:El.
    + apply alookup_In in El as Hin. rewrite Forall_forall in Hes. pose proof (Hes _ Hin) as Hs. unfold sig_ok in Hs. cbn [fst snd] in Hs.
      destruct (recover_checked_len _ _ _ _ Hs) as [_ L65].
      destruct (Nat.ltb_spec (length s) 65); [lia|]. rewrite Ha.
      eexists. split; [reflexivity|].
      assert (Hmod : Z.of_nat (length pre) mod 256 = Z.of_nat (length pre)) by (apply Z.mod_small; cbn [length] in Hl; lia).
      assert (Hfn : firstn 65 s = s) by (apply firstn_all2; lia).
      cbn [map s_idx increasing]. rewrite Hmod, Hfn.
      split; [split; [lia|]; replace (Z.of_nat (length pre) + 1 - 1) with (Z.of_nat (length pre)) in Hi by lia; exact Hi|].
      split.
      { constructor; [|exact Hf']. unfold signer_ok. cbn [s_idx s_data]. rewrite app_length. cbn [length]. split; [lia|].
        exists a. split; [exact Hs|]. rewrite Nat2Z.id. rewrite nth_error_app2 by lia. rewrite Nat.sub_diag. reflexivity. }
      split.
      { constructor; [|exact Hm']. exists a. cbn [s_data]. split; [left; reflexivity|exact El]. }
      cbn [length]. split; [lia|lia].
    + exists sg. split; [exact Ha|]. split.
      { clear -Hi. revert Hi. generalize (map s_idx sg). intros l. destruct l as [|x l]; cbn [increasing]; [auto|]. intros [H1 H2]. split; [lia|exact H2]. }
      split; [exact Hf'|]. split; [exact Hm'|]. cbn [length]. split; [lia|exact Hcnt].
Qed.

(* ------------------------------------------------------------------ invariant *)
Record entry_ok (L : list gset) (st_cur : option gset) (h : bytes) (e : entry) : Prop := {
  EO_sigs : Forall (sig_ok h) (esigs e);
  EO_vaa : forall v, our_vaa e = Some v -> dg v = h;
  EO_snap : forall g, gs_snap e = Some g -> In g L;
  EO_chain : forall v, our_vaa e = Some v -> from_chain e = true -> exists g, gs_snap e = Some g /\ gsidx v = gidx g;
  EO_msg : our_msg e = None -> st_cur <> None;
  EO_novaa : our_vaa e = None -> submitted e = false /\ our_msg e = None }.

Definition db_ok (L : list gset) (p : vaaid * bytes) : Prop :=
  exists v g, snd p = marshal v /\ fst p = id_of v /\ In g L /\ quorum_valid v (keys g).

Record Inv (L : list gset) (st : pstate) : Prop := {
  I_agg : Forall (fun p => entry_ok L (cur st) (fst p) (snd p)) (agg st);
  I_db : Forall (db_ok L) (db st);
  I_cur : forall g, cur st = Some g -> In g L;
  I_wf : Forall gs_wf L }.

Lemma entry_ok_mono L L' c c' h e : incl L L' -> (c <> None -> c' <> None) -> entry_ok L c h e -> entry_ok L' c' h e.
Proof. intros HL Hc [H1 H2 H3 H5 H6 H7]. constructor; auto. Qed.

Lemma db_ok_mono L L' p : incl L L' -> db_ok L p -> db_ok L' p.
Proof. intros HL (v & g & H1 & H2 & H3 & H4). exists v, g. auto. Qed.

Lemma new_entry_ok L c h now : c <> None -> entry_ok L c h (new_entry now).
Proof. intros Hc. constructor; cbn; try discriminate; auto. Qed.

Definition is_publish (o : out) : option (vaaid * bytes) :=
  match o with Store i b => Some (i, b) | SendVAA b => None | _ => None end.

(* what every publishing output of a step satisfies *)
Definition out_ok (L : list gset) (o : out) : Prop :=
  match o with
  | Store i b => exists v g, b = marshal v /\ i = id_of v /\ In g L /\ quorum_valid v (keys g)
  | SendVAA b => exists v g, b = marshal v /\ In g L /\ quorum_valid v (keys g)
  | Panic _ => False
  | _ => True
  end.

Definition learned_after (L : list gset) (o : op) : list gset := match o with SetGS g => g :: L | _ => L end.

Definition op_wf (o : op) : Prop := match o with SetGS g => gs_wf g | _ => True end.

Hypothesis no_stored_panic : proc_stored_unmarshal_failure_panics = false.
Hypothesis nil_gs_guarded : proc_cleanup_nil_gs_guarded = true.

(* ---- handleObservation *)
Lemma handle_obs_inv L st o : Inv L st ->
  Inv L (fst (handle_obs st o)) /\ Forall (out_ok L) (snd (handle_obs st o)).
Proof.
  intros HI. pose proof HI as [Ia Id Ic Iw]. unfold Processor.handle_obs.
  destruct (rec (o_hash o) (o_sig o)) as [pk|] eqn:Er; [|split; [exact HI|constructor]].
  destruct (bytes_eqb_spec (bytes_to_address (o_addr o)) pk) as [Hpk|]; cbn [negb]; [|split; [exact HI|constructor]].
  set (their := bytes_to_address (o_addr o)) in *.
  set (e := alookup (o_hash o) (agg st)).
  set (gs := match e with Some e' => match gs_snap e' with Some g => Some g | None => cur st end | None => cur st end).
  destruct gs as [g|] eqn:Eg; [|split; [exact HI|constructor]].
  destruct (Processor.memb their (keys g)) eqn:Em; cbn [negb]; [|split; [exact HI|constructor]].
  set (e0 := match e with Some e' => e' | None => new_entry (clock st) end).
  (* the entry we start from is ok *)
  assert (Hcur : cur st <> None \/ exists e', e = Some e').
  { subst gs. destruct e as [e'|]; [right; eexists; reflexivity|left; congruence]. }
  assert (He0 : entry_ok L (cur st) (o_hash o) e0).
  { subst e0. destruct e as [e'|] eqn:Ee.
    - subst e. apply alookup_In in Ee. rewrite Forall_forall in Ia. apply (Ia _ Ee).
    - apply new_entry_ok. destruct Hcur as [H|[e' H]]; [exact H|discriminate]. }
  assert (Hg : In g L /\ gs_wf g).
  { assert (In g L).
    { subst gs. destruct e as [e'|] eqn:Ee.
      - destruct (gs_snap e') as [g'|] eqn:Es.
        + inversion Eg; subst g'. destruct He0 as [_ _ H3 _ _ _]. subst e0. apply H3. exact Es.
        + apply Ic. exact Eg.
      - apply Ic. exact Eg. }
    split; [assumption|]. rewrite Forall_forall in Iw. auto. }
  destruct Hg as [HgL [Hnd Hlen]].
  set (e1 := set_esigs e0 (aset their (o_sig o) (esigs e0))).
  assert (He1 : entry_ok L (cur st) (o_hash o) e1).
  { destruct He0 as [H1 H2 H3 H5 H6 H7]. subst e1. constructor; cbn [set_esigs esigs our_vaa gs_snap from_chain our_msg submitted]; auto.
    apply Forall_aset; [|exact H1]. unfold sig_ok. cbn [fst snd]. rewrite Hpk. exact Er. }
  assert (Hkeep : forall e2, entry_ok L (cur st) (o_hash o) e2 -> Inv L (with_agg st (aset (o_hash o) e2 (agg st)))).
  { intros e2 H2. constructor; cbn [with_agg cur agg db]; auto. apply Forall_aset; [exact H2|exact Ia]. }
  destruct (assemble_ok (o_hash o) (esigs e1) (EO_sigs _ _ _ _ He1) (keys g) [] Hnd ltac:(cbn [length]; lia))
    as (sg & Ha & Hinc & Hso & _ & Hle & _).
  cbn [length] in Ha, Hinc. change (Z.of_nat 0) with 0 in Ha, Hinc. rewrite Ha.
  destruct (our_vaa e1) as [v|] eqn:Ev; [|split; [apply Hkeep; exact He1|constructor]].
  destruct (proc_local_quorum_reached (go_quorum (Z.of_nat (length (keys g)))) (Z.of_nat (length sg)) && negb (submitted e1)) eqn:Eq;
    [|split; [apply Hkeep; exact He1|constructor]].
  apply andb_prop in Eq as [Eq _]. apply local_quorum_reached_iff in Eq.
  destruct sg as [|s0 sg'] eqn:Esg.
  { exfalso. pose proof (go_quorum_pos (Z.of_nat (length (keys g))) ltac:(lia)). cbn [length] in Eq. lia. }
  rewrite <- Esg in *. clear Esg.
  (* the assembled VAA is quorum-valid for g *)
  assert (Hdv : dg v = o_hash o) by (apply (EO_vaa _ _ _ _ He1); exact Ev).
  assert (Hqv : quorum_valid (set_sigs v sg) (keys g)).
  { split; [|exact Eq]. unfold accepts. cbn [sigs set_sigs].
    assert (Hd' : dg (set_sigs v sg) = o_hash o) by (rewrite <- Hdv; reflexivity).
    rewrite Hd'. cbn [app] in Hso. split; [exact Hinc|]. split; [exact Hso|].
    apply nodup_addrs_signers_distinct with (addrs := keys g); assumption. }
  split.
  - constructor; cbn [cur agg db]; auto.
    + apply Forall_aset; [|exact Ia]. cbn [fst snd]. destruct He1 as [H1 H2 H3 H5 H6 H7].
      constructor; cbn [set_submitted esigs our_vaa gs_snap from_chain our_msg submitted]; auto.
      intros Hn. rewrite Ev in Hn. discriminate.
    + constructor; [|exact Id]. exists (set_sigs v sg), g. cbn [fst snd]. auto.
  - constructor; [|constructor; [|constructor]].
    + exists (set_sigs v sg), g. auto.
    + exists (set_sigs v sg), g. auto.
Qed.

(* ---- broadcastSignature *)
Lemma broadcast_inv L st v s tx chain : Inv L st ->
  (chain = true -> exists g, cur st = Some g /\ gsidx v = gidx g) ->
  Inv L (fst (broadcast_signature st v s tx chain)) /\ Forall (out_ok L) (snd (broadcast_signature st v s tx chain)).
Proof.
  intros HI Hc. pose proof HI as [Ia Id Ic Iw]. unfold Processor.broadcast_signature. cbn [fst snd].
  split; [|repeat constructor].
  constructor; cbn [cur agg db]; auto.
  apply Forall_aset; [|exact Ia]. cbn [fst snd].
  set (e0 := match alookup (dg v) (agg st) with Some e => e | None => new_entry (clock st) end).
  assert (Hs : Forall (sig_ok (dg v)) (esigs e0) /\ (forall v', our_vaa e0 = Some v' -> True)).
  { subst e0. destruct (alookup (dg v) (agg st)) as [e|] eqn:El.
    - apply alookup_In in El. rewrite Forall_forall in Ia. destruct (Ia _ El) as [H1 _ _ _ _ _]. split; [exact H1|auto].
    - split; [constructor|auto]. }
  constructor; cbn [set_own esigs our_vaa gs_snap from_chain our_msg submitted]; try discriminate; auto.
  all: try (apply Hs).
  all: try (intros v' E; inversion E; reflexivity).
  all: try (intros v' E Hch; inversion E; subst v'; destruct (Hc Hch) as (g & Hg & Hi); exists g; split; assumption).
Qed.

(* ---- handleInboundSignedVAAWithQuorum *)
Lemma handle_inbound_inv L st b : Inv L st ->
  Inv L (fst (handle_inbound st b)) /\ Forall (out_ok L) (snd (handle_inbound st b)).
Proof.
  intros HI. pose proof HI as [Ia Id Ic Iw]. unfold Processor.handle_inbound.
  destruct (unmarshal b) as [v|] eqn:Eu; [|split; [exact HI|constructor]].
  destruct (cur st) as [g|] eqn:Ec; [|split; [exact HI|constructor]].
  destruct (length (keys g) =? 0)%nat; [split; [exact HI|constructor]|].
  destruct (length (sigs v) =? 0)%nat; [split; [exact HI|constructor]|].
  destruct (inbound_below_quorum_spec (Z.of_nat (length (sigs v))) (go_quorum (Z.of_nat (length (keys g))))) as [|Hq]; [split; [exact HI|constructor]|].
  destruct (verify_sigs rec keccak v (keys g)) eqn:Ev; cbn [negb]; [|split; [exact HI|constructor]].
  destruct (dlookup (id_of v) (db st)) as [x|] eqn:El; [split; [exact HI|constructor]|].
  assert (Hqv : quorum_valid v (keys g)).
  { split; [|lia]. apply verify_sigs_iff in Ev. exact Ev. }
  assert (HgL : In g L) by (apply Ic; reflexivity).
  cbn [fst snd]. split.
  - constructor; cbn [cur agg db]; auto.
    constructor; [|exact Id]. exists v, g. cbn [fst snd]. auto.
  - constructor; [|constructor]. exists v, g. auto.
Qed.

(* ---- handleCleanup *)
Lemma cleanup_entry_ok L c now indb ck h e : entry_ok L c h e ->
  (ck = false -> c = None) ->
  match cleanup_entry now indb ck e with
  | CKeep e' o => entry_ok L c h e' /\ Forall (out_ok L) o
  | CDelete => True
  | CPanic => False
  end.
Proof.
  intros He Hck. pose proof He as [H1 H2 H3 H5 H6 H7]. unfold cleanup_entry.
  destruct (negb (submitted e) && _ && _ && indb); [exact I|].
  destruct (negb (settled e) && _).
  { rewrite nil_gs_guarded, !orb_true_r. split; [|constructor]. constructor; cbn [set_settled esigs our_vaa gs_snap from_chain our_msg submitted]; auto. }
  destruct (submitted e && _); [exact I|].
  destruct (negb (submitted e) && _); [exact I|].
  destruct (negb (submitted e) && _ && _).
  - destruct (our_msg e) as [o|] eqn:Em.
    + split; [|repeat constructor]. constructor; cbn [set_retried esigs our_vaa gs_snap from_chain our_msg submitted]; auto.
      all: rewrite ?Em; try discriminate.
      all: try (intros Hn; destruct (H7 Hn) as [_ X]; discriminate).
    + destruct ck; cbn [negb andb]; [exact I|]. exfalso. apply (H6 eq_refl). apply Hck. reflexivity.
  - split; [exact He|constructor].
Qed.

Lemma cleanup_all_inv L st0 now l :
  Forall (fun p => entry_ok L (cur st0) (fst p) (snd p)) l ->
  Forall (fun p => entry_ok L (cur st0) (fst p) (snd p)) (fst (cleanup_all st0 now l)) /\ Forall (out_ok L) (snd (cleanup_all st0 now l)).
Proof.
  induction l as [|[h e] l IH]; intros F; cbn [cleanup_all]; [split; constructor|].
  inversion F as [|? ? He F']; subst. cbn [fst snd] in He.
  destruct (IH F') as [IH1 IH2]. destruct (cleanup_all st0 now l) as [t' o'] eqn:Ec. cbn [fst snd] in IH1, IH2.
  pose proof (cleanup_entry_ok L (cur st0) now (in_db_of st0 e) (match cur st0 with Some _ => true | None => false end) h e He) as Hc.
  assert (Hck : (match cur st0 with Some _ => true | None => false end) = false -> cur st0 = None) by (destruct (cur st0); [discriminate|reflexivity]).
  specialize (Hc Hck).
  destruct (cleanup_entry now _ _ e) as [e' o| |]; cbn [fst snd].
  - destruct Hc as [Hc1 Hc2]. split; [constructor; assumption|apply Forall_app; split; assumption].
  - split; assumption.
  - contradiction.
Qed.

(* ---- one step *)
Lemma step_inv L st o : Inv L st -> op_wf o ->
  Inv (learned_after L o) (fst (step st o)) /\ Forall (out_ok (learned_after L o)) (snd (step st o)).
Proof.
  intros HI Hw. pose proof HI as [Ia Id Ic Iw].
  destruct o as [g|t|m|v|ob|k|b|]; cbn [Processor.step learned_after].
  - (* SetGS *) cbn [fst snd]. split; [|constructor]. constructor; cbn [cur agg db].
    + eapply Forall_impl; [|exact Ia]. intros p. apply entry_ok_mono; [intros x Hx; right; exact Hx|discriminate].
    + eapply Forall_impl; [|exact Id]. intros p. apply db_ok_mono. intros x Hx; right; exact Hx.
    + intros g' E; inversion E; left; reflexivity.
    + constructor; [exact Hw|exact Iw].
  - (* SetClock *) cbn [fst snd]. split; [|constructor]. constructor; cbn [cur agg db]; auto.
  - (* LocalMsg *) unfold Processor.handle_message.
    destruct (cur st) as [g|] eqn:Ec; [|split; [exact HI|constructor]].
    destruct (bytes_eqb _ gov_addr && _); [split; [exact HI|constructor]|].
    assert (Hgo : Inv L (fst (broadcast_signature st (vaa_of_message (gidx g) m) (sign (dg (vaa_of_message (gidx g) m))) (m_tx m) true)) /\
                  Forall (out_ok L) (snd (broadcast_signature st (vaa_of_message (gidx g) m) (sign (dg (vaa_of_message (gidx g) m))) (m_tx m) true))).
    { apply broadcast_inv; [exact HI|]. intros _. exists g. split; [exact Ec|reflexivity]. }
    destruct (dlookup _ (db st)) as [vb|]; [|exact Hgo].
    destruct (unmarshal vb) as [ex|].
    + destruct (_ <? _); [split; [exact HI|constructor]|exact Hgo].
    + rewrite no_stored_panic. exact Hgo.
  - (* Inject *) unfold Processor.handle_injection. apply broadcast_inv; [exact HI|discriminate].
  - (* Obs *) apply handle_obs_inv. exact HI.
  - (* Loopback *) destruct (nth_error (loopq st) k) as [ob|]; [|split; [exact HI|constructor]].
    apply handle_obs_inv. constructor; cbn [cur agg db]; auto.
  - (* InboundVAA *) apply handle_inbound_inv. exact HI.
  - (* Cleanup *) unfold Processor.handle_cleanup.
    destruct (cleanup_all_inv L st (clock st + 1) (agg st) Ia) as [H1 H2].
    destruct (cleanup_all st (clock st + 1) (agg st)) as [a o]. cbn [fst snd] in *.
    split; [|exact H2]. constructor; cbn [with_agg cur agg db]; auto.
Qed.

Fixpoint learned (L : list gset) (ops : list op) : list gset :=
  match ops with [] => L | o :: t => learned (learned_after L o) t end.

Lemma learned_incl ops : forall L, incl L (learned L ops).
Proof.
  induction ops as [|o ops IH]; intros L; cbn [learned]; [apply incl_refl|].
  eapply incl_tran; [|apply IH]. destruct o; cbn [learned_after]; try apply incl_refl. intros x Hx; right; exact Hx.
Qed.

Lemma out_ok_mono L L' o : incl L L' -> out_ok L o -> out_ok L' o.
Proof.
  intros HL. destruct o; cbn [out_ok]; auto.
  - intros (v & g & H1 & H2 & H3). exists v, g. auto.
  - intros (v & g & H1 & H2 & H3 & H4). exists v, g. auto.
Qed.

Theorem run_inv : forall ops L st, Inv L st -> Forall op_wf ops ->
  Inv (learned L ops) (fst (run st ops)) /\ Forall (Forall (out_ok (learned L ops))) (snd (run st ops)).
Proof.
  induction ops as [|o ops IH]; intros L st HI Hw; cbn [Processor.run learned].
  - split; [exact HI|constructor].
  - inversion Hw as [|? ? Hw1 Hw2]; subst.
    destruct (step_inv L st o HI Hw1) as [H1 H2].
    destruct (step st o) as [st1 out1] eqn:Es. cbn [fst snd] in H1, H2.
    destruct (IH _ st1 H1 Hw2) as [H3 H4].
    destruct (run st1 ops) as [st2 outs]. cbn [fst snd] in *.
    split; [exact H3|]. constructor; [|exact H4].
    eapply Forall_impl; [|exact H2]. intros x. apply out_ok_mono. apply learned_incl.
Qed.

Lemma init_inv : Inv [] init.
Proof. constructor; cbn; try constructor; intros; discriminate. Qed.

(* ------------------------------------------------------------------ C03: only a valid member signature changes anything *)
Theorem obs_effect_only_if_valid st o :
  handle_obs st o <> (st, []) ->
  exists a g, rec (o_hash o) (o_sig o) = Some a /\ a = bytes_to_address (o_addr o) /\
              (match alookup (o_hash o) (agg st) with
               | Some e => match gs_snap e with Some g' => Some g' | None => cur st end
               | None => cur st end) = Some g /\ In a (keys g).
Proof.
  unfold Processor.handle_obs.
  destruct (rec (o_hash o) (o_sig o)) as [pk|] eqn:Er; [|intros H; contradiction].
  destruct (bytes_eqb_spec (bytes_to_address (o_addr o)) pk) as [Hpk|]; cbn [negb]; [|intros H; contradiction].
  destruct (match alookup (o_hash o) (agg st) with Some e => _ | None => cur st end) as [g|] eqn:Eg; [|intros H; contradiction].
  destruct (Processor.memb (bytes_to_address (o_addr o)) (keys g)) eqn:Em; cbn [negb]; [|intros H; contradiction].
  intros _. exists pk, g. split; [reflexivity|]. split; [auto|]. split; [reflexivity|].
  unfold Processor.memb in Em. apply existsb_exists in Em as (x & Hx & E). apply bytes_eqb_eq in E. subst x. rewrite <- Hpk. exact Hx.
Qed.
End P.
