(* Extension X10, part 3: C02's liveness over windows that DO contain cleanup ticks at the publishing node.
   The window of proofs/SystemLiveProofs.v excludes guardian-set changes and cleanup ticks; here only set changes are excluded and
   every cleanup tick of the window must not DELETE the entry of the message ([tick_keeps]); a tick that settles the entry or retries
   it (re-sends the observation, posts a re-observation request) changes neither the signatures recorded in it, nor the node's own
   VAA, nor the set it aggregates under.  [entry_survives_tick] gives the schedule conditions (C14's thresholds) under which a tick
   keeps an entry.  Part 2 lifts the statement to the network of model/System.v. *)
From Coq Require Import List ZArith Lia Bool Arith.
From Coq Require Import Strings.Byte.
From WH Require Import lib.Bytes gen.Extracted model.Vaa model.Processor model.ProcSpec model.System
     proofs.VaaProofs proofs.QuorumProofs proofs.ProcessorProofs proofs.ProcC01Proofs proofs.ProcC02Proofs proofs.ProcCleanupProofs
     proofs.SystemProofs proofs.SystemLiveProofs.
Import ListNotations.
Open Scope Z_scope.

(* two facts about the cleanup tick (as in proofs/ReobsLoopProofs.v; restated here so that C02 does not depend on the dispatcher) *)
Module LP.
Lemma cleanup_all_lookup st now h : forall l, NoDup (map fst l) ->
  alookup h (fst (cleanup_all st now l)) =
  match alookup h l with
  | None => None
  | Some e => match cleanup_entry now (in_db_of st e) (match cur st with Some _ => true | None => false end) e with
              | CKeep e' _ => Some e' | CDelete => None | CPanic => Some e end
  end.
Proof.
  induction l as [|[k e] l IH]; intros ND; cbn [cleanup_all]; [reflexivity|]. cbn [map fst] in ND. inversion ND as [|? ? Hn ND']; subst.
  pose proof (cleanup_all_keys st now l) as Hk. specialize (IH ND'). destruct (cleanup_all st now l) as [t' o'] eqn:Ect. cbn [fst] in *.
  assert (Hnt : ~ In k (map fst t')) by (intros X; apply Hn; apply Hk; exact X).
  cbn [alookup]. destruct (bytes_eqb_spec h k) as [->|Hne].
  - destruct (cleanup_entry now _ _ e); cbn [fst alookup]; rewrite ?bytes_eqb_refl; [reflexivity|apply alookup_notin; exact Hnt|reflexivity].
  - destruct (cleanup_entry now _ _ e); cbn [fst alookup]; [|exact IH|]; (destruct (bytes_eqb_spec h k); [contradiction|exact IH]).
Qed.

Lemma cleanup_keep_cases now indb ck e e' o : cleanup_entry now indb ck e = CKeep e' o ->
  (e' = e /\ o = []) \/ (e' = set_settled e /\ o = []) \/ (exists ob, our_msg e = Some ob /\ e' = set_retried e now).
Proof.
  unfold cleanup_entry. destruct (negb (submitted e) && _ && _ && _); [discriminate|].
  destruct (negb (settled e) && _); [destruct (_ || _ || _); [intros X; inversion X; subst; right; left; auto|discriminate]|].
  destruct (submitted e && _); [discriminate|].
  destruct (negb (submitted e) && ((_ && (proc_own_retry_budget <=? retries e)) || _)); [discriminate|].
  destruct (negb (submitted e) && _ && _).
  - destruct (our_msg e) as [ob|] eqn:Em; [|intros X; destruct (negb ck && proc_cleanup_nil_branch_uses_cur); discriminate X].
    intros X; inversion X; subst. right. right. exists ob. split; reflexivity.
  - intros X; inversion X; subst. left. auto.
Qed.
End LP.

(* "along the whole run from st over ops, P holds of the state and the op handled in it" *)
Fixpoint always {S X} (stp : S -> X -> S) (P : S -> X -> Prop) (st : S) (ops : list X) : Prop :=
  match ops with
  | [] => True
  | o :: t => P st o /\ always stp P (stp st o) t
  end.

(* an op that does not change the guardian set *)
Definition steady (o : op) : bool := match o with SetGS _ => false | _ => true end.

Definition ckb (st : pstate) : bool := match cur st with Some _ => true | None => false end.
(* the cleanup tick taken in st does not delete the entry of digest h *)
Definition tick_keeps (h : bytes) (st : pstate) : Prop :=
  forall e, alookup h (agg st) = Some e -> cleanup_entry (clock st + 1) (in_db_of st e) (ckb st) e <> CDelete.

(* ================================================================== the schedule: when a tick keeps an entry (C14's thresholds) *)
(* a completed entry younger than an hour; a pending entry for which no quorum VAA is stored (or that is at most 30 s old) and that
   either holds the node's own observation with retry budget left, or is younger than five minutes (never retried: fewer than
   the nil budget of retries) *)
Lemma entry_survives_tick now indb ck e :
  (submitted e = true -> now - first_seen e < proc_submitted_expiry_ns) ->
  (submitted e = false ->
     (indb = false \/ now - first_seen e <= proc_settlement_ns) /\
     ((our_msg e <> None /\ retries e < proc_own_retry_budget) \/
      (our_msg e = None /\ now - first_seen e < proc_retry_after_ns /\ retries e < proc_nil_retry_budget))) ->
  cleanup_entry now indb ck e <> CDelete.
Proof.
  intros Hs Hu. unfold cleanup_entry. destruct (submitted e) eqn:Es; cbn [negb andb].
  - specialize (Hs eq_refl). destruct (negb (settled e) && _); [destruct (_ || _ || _); discriminate|].
    destruct (Z.leb_spec proc_submitted_expiry_ns (now - first_seen e)); [lia|]. discriminate.
  - destruct (Hu eq_refl) as [Hd Hm]. clear Hs Hu.
    assert (A : (match our_vaa e with Some _ => true | None => false end) && (proc_settlement_ns <? now - first_seen e) && indb = false).
    { destruct Hd as [->|Hd]; [apply andb_false_r|]. destruct (Z.ltb_spec proc_settlement_ns (now - first_seen e)); [lia|]. rewrite andb_false_r. reflexivity. }
    rewrite A. destruct (negb (settled e) && _); [destruct (_ || _ || _); discriminate|].
    destruct Hm as [[Hm Hr]|(Hm & Ha & Hr)].
    + destruct (our_msg e) as [ob|]; [|contradiction]. cbn [andb negb orb].
      destruct (Z.leb_spec proc_own_retry_budget (retries e)); [lia|]. cbn [orb].
      destruct ((proc_retry_after_ns <=? now - first_seen e) && _); intros X; discriminate X.
    + rewrite Hm. cbn [andb negb orb]. destruct (Z.leb_spec proc_nil_retry_budget (retries e)); [lia|].
      destruct (Z.leb_spec proc_retry_after_ns (now - first_seen e)); [lia|]. cbn [andb]. discriminate.
Qed.

(* what a tick that keeps an entry leaves alone *)
Lemma keep_same now indb ck e e' o : cleanup_entry now indb ck e = CKeep e' o ->
  gs_snap e' = gs_snap e /\ our_vaa e' = our_vaa e /\ esigs e' = esigs e /\ submitted e' = submitted e.
Proof.
  intros Hc. destruct (LP.cleanup_keep_cases _ _ _ _ _ _ Hc) as [[-> _]|[[-> _]|(ob & _ & ->)]]; repeat split.
Qed.

Section Live2.
Variable recover : bytes -> bytes -> option bytes.
Variable keccak : bytes -> bytes.
Variable sign : bytes -> bytes.
Variable own : addr.
Variable gov_chain : Z.
Variable gov_addr : bytes.

Notation rec := (Processor.rec recover).
Notation dg := (Processor.dg keccak).
Notation step := (Processor.step recover keccak sign own gov_chain gov_addr).
Notation run := (Processor.run recover keccak sign own gov_chain gov_addr).
Notation Inv1 := (ProcC01Proofs.Inv1 recover keccak).
Notation Inv2 := (ProcC02Proofs.Inv2 sign own).
Notation stepf := (fun st o => fst (step st o)).

Hypothesis keccak_len : forall b, length (keccak b) = 32%nat.
Hypothesis own_len : length own = 20%nat.
Hypothesis sign_correct : forall d, length d = 32%nat -> rec d (sign d) = Some own.

Variable G : gset.
Variable h : bytes.
Hypothesis own_in : In own (keys G).

Notation K := (SystemLiveProofs.K own G h).
Notation recorded := (SystemLiveProofs.recorded h).
Notation observed := (SystemLiveProofs.observed h).

(* the cleanup tick, on the entry of h *)
Lemma tick_shape st : let st' := fst (step st Cleanup) in
  cur st' = cur st /\ loopq st' = loopq st /\ agg st' = fst (cleanup_all st (clock st + 1) (agg st)).
Proof. cbv zeta. cbn [Processor.step]. unfold Processor.handle_cleanup. destruct (cleanup_all st (clock st + 1) (agg st)). cbn. repeat split. Qed.

Lemma tick_back st e' : KeysND st -> alookup h (agg (fst (step st Cleanup))) = Some e' ->
  exists e, alookup h (agg st) = Some e /\ gs_snap e' = gs_snap e /\ our_vaa e' = our_vaa e /\ esigs e' = esigs e.
Proof.
  intros ND Hl. destruct (tick_shape st) as (_ & _ & Ea). cbv zeta in Ea. rewrite Ea in Hl.
  rewrite (LP.cleanup_all_lookup st (clock st + 1) h (agg st) ND) in Hl. destruct (alookup h (agg st)) as [e|]; [|discriminate]. exists e. split; [reflexivity|].
  destruct (cleanup_entry _ _ _ e) as [e2 o2| |] eqn:Ec; [|discriminate|].
  - inversion Hl; subst e2. destruct (keep_same _ _ _ _ _ _ Ec) as (A & B & C & _). auto.
  - inversion Hl; subst. auto.
Qed.

Lemma tick_fwd st e : KeysND st -> tick_keeps h st -> alookup h (agg st) = Some e ->
  exists e', alookup h (agg (fst (step st Cleanup))) = Some e' /\ gs_snap e' = gs_snap e /\ our_vaa e' = our_vaa e /\ esigs e' = esigs e.
Proof.
  intros ND Hk Hl. destruct (tick_shape st) as (_ & _ & Ea). cbv zeta in Ea. rewrite Ea.
  rewrite (LP.cleanup_all_lookup st (clock st + 1) h (agg st) ND), Hl. specialize (Hk e Hl). fold (ckb st).
  destruct (cleanup_entry _ _ _ e) as [e2 o2| |] eqn:Ec; [|contradiction|].
  - exists e2. split; [reflexivity|]. destruct (keep_same _ _ _ _ _ _ Ec) as (A & B & C & _). auto.
  - exists e. auto.
Qed.

Lemma tick_live st : KeysND st -> K st -> tick_keeps h st ->
  let st' := fst (step st Cleanup) in
  K st' /\ (forall a, recorded a st -> recorded a st') /\ (observed st -> observed st').
Proof.
  intros ND [K1 K2 K3] Hk. cbv zeta. destruct (tick_shape st) as (Ec & El & _). cbv zeta in Ec, El. split; [|split].
  - constructor.
    + rewrite Ec. exact K1.
    + intros e' He'. destruct (tick_back st e' ND He') as (e & He & A & _). rewrite A. apply K2. exact He.
    + intros e' He' Hv. destruct (tick_back st e' ND He') as (e & He & A & B & C). rewrite B in Hv. rewrite A, C, El. apply (K3 e He Hv).
  - intros a (e & He & Ha). destruct (tick_fwd st e ND Hk He) as (e' & He' & _ & _ & C). exists e'. split; [exact He'|rewrite C; exact Ha].
  - intros (e & He & Hv). destruct (tick_fwd st e ND Hk He) as (e' & He' & _ & B & _). exists e'. split; [exact He'|rewrite B; exact Hv].
Qed.

Definition ticks_keep (st : pstate) (ops : list op) : Prop := always stepf (fun s o => o = Cleanup -> tick_keeps h s) st ops.

Lemma steady_cases o : steady o = true -> o = Cleanup \/ calm o = true.
Proof. destruct o; cbn; intros H; try discriminate; auto. Qed.

Lemma run_live2 : forall ops O L st, Forall ProcSpec.op_wf ops -> forallb steady ops = true -> ticks_keep st ops ->
  Inv1 O L st -> Inv2 st -> KeysND st -> K st ->
  let st' := fst (run st ops) in
  K st' /\ (forall a, recorded a st -> recorded a st') /\ (observed st -> observed st') /\
  (forall a, In a (keys G) -> happens stepf (ev_obs recover h a) st ops -> recorded a st') /\
  (forall m, dg (vaa_of_message 0 m) = h -> happens stepf (ev_msg recover keccak sign own gov_chain gov_addr m) st ops -> observed st').
Proof.
  induction ops as [|o ops IH]; intros O L st Hw Hc Ht HI H2 ND HK; cbn [Processor.run].
  - cbn [fst]. split; [exact HK|]. split; [auto|]. split; [auto|]. split; [intros a _ []|intros m _ []].
  - inversion Hw as [|? ? Hw1 Hw2]; subst. cbn [forallb] in Hc. apply andb_prop in Hc as [Hc1 Hc2]. destruct Ht as [Ht1 Ht2].
    destruct (step_c01 recover keccak sign own gov_chain gov_addr O L st o HI Hw1) as [HI' _].
    pose proof (step_inv2 recover keccak sign own gov_chain gov_addr keccak_len own_len sign_correct O L st o HI H2) as H2'.
    pose proof (step_keys recover keccak sign own gov_chain gov_addr O L st o HI ND) as ND'.
    assert (S1 : K (fst (step st o)) /\ (forall a, recorded a st -> recorded a (fst (step st o))) /\ (observed st -> observed (fst (step st o))) /\
                 (forall ob a, o = Obs ob -> o_hash ob = h -> bytes_to_address (o_addr ob) = a -> rec h (o_sig ob) = Some a -> In a (keys G) -> recorded a (fst (step st o))) /\
                 (forall m, o = LocalMsg m -> dg (vaa_of_message 0 m) = h -> existsb is_sendobs (snd (step st o)) = true -> observed (fst (step st o)))).
    { destruct (steady_cases o Hc1) as [->|Hcalm].
      - destruct (tick_live st ND HK (Ht1 eq_refl)) as (A & B & C). cbv zeta in *. split; [exact A|]. split; [exact B|]. split; [exact C|]. split; intros; discriminate.
      - exact (step_live recover keccak sign own gov_chain gov_addr own_len sign_correct G h own_in O L st o Hcalm HI H2 HK). }
    destruct S1 as (A & B & C & D & E).
    destruct (step st o) as [st1 out1] eqn:Es. cbn [fst snd] in *.
    destruct (IH _ _ st1 Hw2 Hc2 Ht2 HI' H2' ND' A) as (A' & B' & C' & D' & E'). cbv zeta in *.
    destruct (run st1 ops) as [st2 outs]. cbn [fst] in *.
    split; [exact A'|]. split; [intros a Ha; apply B'; apply B; exact Ha|]. split; [intros Ho; apply C'; apply C; exact Ho|]. split.
    + intros a Hin Hev. cbn [happens] in Hev. destruct Hev as [(ob & Eo & Hh & Hb & Hr)|Hev].
      * apply B'. apply (D ob a Eo Hh Hb Hr Hin).
      * cbn beta in Hev. rewrite Es in Hev. cbn [fst] in Hev. apply D'; assumption.
    + intros m Hh Hev. cbn [happens] in Hev. destruct Hev as [[Eo Hs]|Hev].
      * apply C'. apply (E m Eo Hh). rewrite Es in Hs. exact Hs.
      * cbn beta in Hev. rewrite Es in Hev. cbn [fst] in Hev. apply E' with (m := m); assumption.
Qed.

Lemma run_app_fst : forall ops0 s ops, fst (run (fst (run s ops0)) ops) = fst (run s (ops0 ++ ops)).
Proof.
  induction ops0 as [|o t IH]; intros s ops; cbn [app Processor.run]; [reflexivity|].
  destruct (step s o) as [s1 o1]. specialize (IH s1 ops). destruct (run s1 t) as [s2 os]. cbn [fst] in *.
  destruct (run s1 (t ++ ops)) as [s3 os3]. cbn [fst] in *. exact IH.
Qed.

(* ---- the single-node statement: a window without set change, whose cleanup ticks keep the entry of h *)
Theorem window_liveness_ticks ops0 ops (signers : list addr) m :
  Forall ProcSpec.op_wf ops0 -> Forall ProcSpec.op_wf ops -> forallb steady ops = true ->
  let st0 := fst (run init ops0) in
  let st := fst (run st0 ops) in
  ticks_keep st0 ops ->
  cur st0 = Some G -> alookup h (agg st0) = None -> ProcSpec.gs_wf G ->
  dg (vaa_of_message 0 m) = h ->
  happens stepf (ev_msg recover keccak sign own gov_chain gov_addr m) st0 ops ->
  NoDup signers -> incl signers (keys G) -> go_quorum (Z.of_nat (length (keys G))) <= Z.of_nat (length signers) ->
  (forall a, In a signers -> a <> own -> happens stepf (ev_obs recover h a) st0 ops) ->
  (forall o, In o (loopq st) -> o_hash o <> h) ->
  (exists e, alookup h (agg st) = Some e /\ our_vaa e <> None /\ gs_snap e = Some G /\ submitted e = true) /\
  happens stepf (fun s o => bcast_for recover keccak sign own gov_chain gov_addr h s o = true) st0 ops.
Proof.
  intros Hw0 Hw Hc. cbv zeta. intros Htk Hcur Hno Hgwf Hh Hmsg ND Hincl Hq Hdel Hlq.
  set (st0 := fst (run init ops0)) in *. set (st := fst (run st0 ops)) in *.
  destruct (reachable_invariants recover keccak sign own gov_chain gov_addr ops0 Hw0) as [[O0 HI0] HK0]. fold st0 in HI0, HK0.
  pose proof (run_inv2 recover keccak sign own gov_chain gov_addr keccak_len own_len sign_correct ops0 [] [] init (init_inv1 recover keccak)
                (init_inv2 sign own) Hw0) as H20. fold st0 in H20.
  assert (HKw : K st0).
  { constructor; [exact Hcur| |]; intros e He; rewrite Hno in He; discriminate. }
  destruct (run_live2 ops O0 _ st0 Hw Hc Htk HI0 H20 HK0 HKw) as (HK & _ & _ & Hrec & Hobs). cbv zeta in *. fold st in HK, Hrec, Hobs.
  destruct (Hobs m Hh Hmsg) as (e & He & Hv). destruct HK as [K1 K2 K3]. destruct (K3 e He Hv) as [Hs Hown].
  assert (Hsub : submitted e = true).
  { assert (Hrun : st = fst (run init (ops0 ++ ops))) by (unfold st, st0; apply run_app_fst).
    assert (Hwall : Forall ProcSpec.op_wf (ops0 ++ ops)) by (apply Forall_app; split; assumption).
    assert (Hin : In (h, e) (agg st)) by (apply ProcessorProofs.alookup_In; exact He).
    rewrite Hrun in Hin, Hlq.
    apply (quorum_implies_published recover keccak sign own gov_chain gov_addr keccak_len own_len sign_correct (ops0 ++ ops) h e G Hwall Hin Hv Hs own_in Hlq).
    assert (Hhas : forall a, In a signers -> has (esigs e) a = true).
    { intros a Ha. unfold has. destruct (bytes_eq_dec a own) as [->|Hne].
      - destruct Hown as [Ho|(o & Ho & Hoh)]; [destruct (alookup own (esigs e)); [reflexivity|contradiction]|].
        exfalso. rewrite <- Hrun in Hlq. exact (Hlq o Ho Hoh).
      - destruct (Hrec a (Hincl a Ha) (Hdel a Ha Hne)) as (e' & He' & Ha'). assert (e' = e) by congruence. subst e'.
        destruct (alookup a (esigs e)); [reflexivity|contradiction]. }
    unfold nsigned.
    pose proof (filter_length_ge (has (esigs e)) (list_eq_dec Byte.byte_eq_dec) signers (keys G) ND Hincl Hhas). lia. }
  split; [exists e; repeat split; assumption|].
  apply (submitted_was_broadcast recover keccak sign own gov_chain gov_addr h e ops O0 _ st0 HI0 HK0 Hw); [|exact He|exact Hsub].
  intros e0 He0. rewrite Hno in He0. discriminate.
Qed.
End Live2.

(* ================================================================== 2. the network *)
Definition steady_nop (x : nop) : bool := match x with NEnv _ (ESetGS _) => false | _ => true end.

Section LiveNet2.
Variable recover : bytes -> bytes -> option bytes.
Variable keccak : bytes -> bytes.
Variable gov_chain : Z.
Variable gov_addr : bytes.
Variable owns : nat -> addr.
Variable signs : nat -> bytes -> bytes.

Notation rec := (Processor.rec recover).
Notation dg := (Processor.dg keccak).
Notation node_run := (System.node_run recover keccak gov_chain gov_addr owns signs).
Notation nstep := (System.nstep recover keccak gov_chain gov_addr owns signs).
Notation nrun := (System.nrun recover keccak gov_chain gov_addr owns signs).
Notation trace := (System.trace recover keccak gov_chain gov_addr owns signs).
Notation nstepf := (fun n x => fst (nstep n x)).
Notation stepf i := (fun st o => fst (Processor.step recover keccak (signs i) (owns i) gov_chain gov_addr st o)).

Lemma resolve_steady n x j o : resolve n x = Some (j, o) -> target x = j /\ steady o = steady_nop x /\ (o = Cleanup -> x = NEnv j ECleanup).
Proof.
  destruct x as [i e|i k|i g|i k]; cbn [resolve target steady_nop]; intros H.
  - inversion H; subst. split; [reflexivity|]. destruct e; (split; [reflexivity|]); intros X; try discriminate X. reflexivity.
  - destruct (nth_error (pool n) k) as [g|]; [|discriminate]. inversion H; subst. split; [reflexivity|]. destruct g; (split; [reflexivity|]); intros X; discriminate X.
  - inversion H; subst. split; [reflexivity|]. destruct g; (split; [reflexivity|]); intros X; discriminate X.
  - inversion H; subst. split; [reflexivity|]. split; [reflexivity|]. intros X; discriminate X.
Qed.

Lemma steady_trace i : forall xs n, (forall x, In x xs -> target x = i -> steady_nop x = true) ->
  forallb steady (ops_of i (trace n xs)) = true.
Proof.
  induction xs as [|x xs IH]; intros n Hc; cbn [System.trace]; [reflexivity|].
  assert (Hc' : forall y, In y xs -> target y = i -> steady_nop y = true) by (intros y Hy; apply Hc; right; exact Hy).
  destruct (resolve n x) as [[j o]|] eqn:Hr; [|apply IH; exact Hc'].
  destruct (j <? length (nodes n))%nat; [|apply IH; exact Hc'].
  unfold ops_of. cbn [filter fst]. destruct (Nat.eqb_spec j i) as [->|_]; [|apply IH; exact Hc'].
  cbn [map snd forallb]. destruct (resolve_steady n x i o Hr) as (Ht & Hs & _). rewrite Hs, (Hc x (or_introl eq_refl) Ht). apply IH. exact Hc'.
Qed.

(* a property of every network step is a property of every step of node i's projected history *)
Lemma always_lift i (Pn : net -> nop -> Prop) (P : pstate -> op -> Prop) :
  (forall n x st o, nth_error (nodes n) i = Some st -> resolve n x = Some (i, o) -> Pn n x -> P st o) ->
  forall xs n st, nth_error (nodes n) i = Some st -> always nstepf Pn n xs -> always (stepf i) P st (ops_of i (trace n xs)).
Proof.
  intros Hl. induction xs as [|x xs IH]; intros n st Hn Hal; cbn [System.trace]; [exact I|]. cbn [always] in Hal. destruct Hal as [Hp Hal].
  destruct (resolve n x) as [[j o]|] eqn:Hr.
  2:{ rewrite (nstep_idle_resolve recover keccak gov_chain gov_addr owns signs n x Hr) in *. cbn [fst] in *. apply (IH n st Hn Hal). }
  destruct (nth_error (nodes n) j) as [stj|] eqn:Hj.
  2:{ assert (Hlt' : (j <? length (nodes n))%nat = false) by (apply Nat.ltb_ge; apply nth_error_None; exact Hj). rewrite Hlt'.
      rewrite (nstep_idle_node recover keccak gov_chain gov_addr owns signs n x j o Hr Hj) in *. cbn [fst] in *. apply (IH n st Hn Hal). }
  assert (Hlt' : (j <? length (nodes n))%nat = true) by (apply Nat.ltb_lt; apply nth_error_Some; congruence). rewrite Hlt'.
  rewrite (nstep_unfold recover keccak gov_chain gov_addr owns signs n x j o stj Hr Hj) in *. cbn [fst] in *.
  unfold ops_of. cbn [filter fst]. destruct (Nat.eqb_spec j i) as [->|Hne].
  - rewrite Hn in Hj. inversion Hj; subst stj. cbn [map snd always]. split; [apply (Hl n x st o Hn Hr Hp)|].
    refine (IH _ _ _ Hal). cbn [nodes]. apply (nth_error_set_nth_same _ _ _ _ Hn).
  - apply (IH _ st); [cbn [nodes]; rewrite nth_error_set_nth_other by congruence; exact Hn|exact Hal].
Qed.

Hypothesis keccak_len : forall b, length (keccak b) = 32%nat.

(* every cleanup tick at node i in the window keeps node i's entry of h *)
Definition net_ticks_keep (i : nat) (h : bytes) (n : net) (xs : list nop) : Prop :=
  always nstepf (fun n x => x = NEnv i ECleanup -> forall st, nth_error (nodes n) i = Some st -> tick_keeps h st) n xs.

(* NETWORK LIVENESS WITH CLEANUP TICKS.  As C02_network_liveness, but the window may contain cleanup ticks at node i (and clock
   steps, retries, anything but a guardian-set change at i), as long as no tick of the window deletes node i's entry of the message.
   Conclusion: the entry is submitted at the end of the window, and some step of the window broadcasts the VAA. *)
Theorem net_liveness_ticks N xs0 xs i G m (S : list nat) :
  (i < N)%nat -> Forall nop_wf xs0 -> Forall nop_wf xs ->
  let n0 := fst (nrun (ninit N) xs0) in
  let n1 := fst (nrun n0 xs) in
  let h := dg (vaa_of_message 0 m) in
  (forall st0, nth_error (nodes n0) i = Some st0 -> cur st0 = Some G /\ alookup h (agg st0) = None) -> ProcSpec.gs_wf G ->
  (forall x, In x xs -> target x = i -> steady_nop x = true) ->
  net_ticks_keep i h n0 xs ->
  NoDup (map owns S) -> (forall j, In j S -> honest_member recover owns signs G j) ->
  go_quorum (Z.of_nat (length (keys G))) <= Z.of_nat (length S) -> In i S ->
  happens nstepf (ev_observes recover keccak gov_chain gov_addr owns signs i m) n0 xs ->
  (forall j, In j S -> j <> i -> happens nstepf (ev_delivered owns signs i j h) n0 xs) ->
  (forall st, nth_error (nodes n1) i = Some st -> forall o, In o (loopq st) -> o_hash o <> h) ->
  (exists st e, nth_error (nodes n1) i = Some st /\ alookup h (agg st) = Some e /\
                our_vaa e <> None /\ gs_snap e = Some G /\ submitted e = true) /\
  happens nstepf (ev_publishes recover keccak gov_chain gov_addr owns signs i h) n0 xs.
Proof.
  intros Hi Hw0 Hw. cbv zeta. intros Hst0 Hgwf Hsteady Hkeep ND Hhon Hq HiS Hobs Hdel Hlq.
  set (n0 := fst (nrun (ninit N) xs0)) in *. set (h := dg (vaa_of_message 0 m)) in *.
  pose proof (projection_init recover keccak gov_chain gov_addr owns signs N xs0 i Hi) as Hp0. fold n0 in Hp0.
  set (ops0 := ops_of i (trace (ninit N) xs0)) in *.
  set (st0 := fst (node_run i init ops0)) in *.
  pose proof (projection recover keccak gov_chain gov_addr owns signs xs n0 i st0 Hp0) as Hp1.
  set (ops := ops_of i (trace n0 xs)) in *.
  destruct (Hst0 st0 Hp0) as [Hcur Hno].
  destruct (Hhon i HiS) as (Hin_i & Hlen_i & Hsc_i).
  assert (Hwf0 : Forall ProcSpec.op_wf ops0) by (apply projected_wf; exact Hw0).
  assert (Hwf1 : Forall ProcSpec.op_wf ops) by (apply projected_wf; exact Hw).
  assert (Hc : forallb steady ops = true) by (apply steady_trace; exact Hsteady).
  assert (Htk : ticks_keep recover keccak (signs i) (owns i) gov_chain gov_addr h st0 ops).
  { apply (always_lift i (fun n x => x = NEnv i ECleanup -> forall st, nth_error (nodes n) i = Some st -> tick_keeps h st)); [|exact Hp0|exact Hkeep].
    intros n x st o Hn Hr Hp Ho. destruct (resolve_steady n x i o Hr) as (_ & _ & Hx). apply (Hp (Hx Ho) st Hn). }
  assert (Hmsg : happens (stepf i) (ev_msg recover keccak (signs i) (owns i) gov_chain gov_addr m) st0 ops).
  { apply (happens_lift recover keccak gov_chain gov_addr owns signs i (ev_observes recover keccak gov_chain gov_addr owns signs i m)); [|exact Hp0|exact Hobs].
    intros n x st Hn [Hx Hs]. subst x. exists (LocalMsg m). split; [reflexivity|]. split; [reflexivity|].
    rewrite (nstep_unfold recover keccak gov_chain gov_addr owns signs n (NEnv i (EMsg m)) i (LocalMsg m) st eq_refl Hn) in Hs. exact Hs. }
  assert (Hothers : forall a, In a (map owns S) -> a <> owns i -> happens (stepf i) (ev_obs recover h a) st0 ops).
  { intros a Ha Hne. apply in_map_iff in Ha as (j & <- & Hj).
    assert (Hji : j <> i) by (intros ->; apply Hne; reflexivity).
    destruct (Hhon j Hj) as (_ & Hlen_j & Hsc_j).
    apply (happens_lift recover keccak gov_chain gov_addr owns signs i (ev_delivered owns signs i j h)); [|exact Hp0|exact (Hdel j Hj Hji)].
    intros n x st Hn (k & tx & Hx & Hk). subst x. eexists. split; [cbn [resolve]; rewrite Hk; reflexivity|].
    eexists. split; [reflexivity|]. cbn [o_hash o_addr o_sig]. split; [reflexivity|]. split.
    - unfold bytes_to_address. rewrite Hlen_j. reflexivity.
    - apply Hsc_j. unfold h, Processor.dg, digest. apply keccak_len. }
  destruct (window_liveness_ticks recover keccak (signs i) (owns i) gov_chain gov_addr keccak_len Hlen_i Hsc_i G h Hin_i ops0 ops (map owns S) m
              Hwf0 Hwf1 Hc Htk Hcur Hno Hgwf eq_refl Hmsg ND) as [(e & He & Hv & Hs & Hsub) Hpub].
  - intros a Ha. apply in_map_iff in Ha as (j & <- & Hj). destruct (Hhon j Hj) as (H1 & _). exact H1.
  - rewrite map_length. exact Hq.
  - exact Hothers.
  - apply (Hlq _ Hp1).
  - split; [eexists; exists e; split; [exact Hp1|]; repeat split; assumption|].
    apply (happens_lower recover keccak gov_chain gov_addr owns signs i (fun st o => bcast_for recover keccak (signs i) (owns i) gov_chain gov_addr h st o = true)
             (ev_publishes recover keccak gov_chain gov_addr owns signs i h)) with (st := st0); [|exact Hp0|exact Hpub].
    intros n x st' o Hn Hr Hb. exists st', o. repeat split; assumption.
Qed.
End LiveNet2.
