(* Proofs about the EVM watcher model (C10). *)
From Coq Require Import List ZArith Bool Lia.
From WH Require Import gen.Extracted model.EvmWatcher.
Import ListNotations.
Open Scope Z_scope.

(* ================================================================== facts read off the generated definitions.
   Each of them is what the source says today; a change of an operator, of the order of the tests or of a filter
   changes gen.Extracted and the corresponding lemma stops compiling. *)
Lemma shape_timeout : evm_timeout_before_depth = false.
Proof. reflexivity. Qed.
Lemma shape_transient : evm_transient_before_orphan = true.
Proof. reflexivity. Qed.
Lemma depth_reached_spec : forall a b, evm_depth_reached a b = true <-> a <= b.
Proof. intros a b. unfold evm_depth_reached. apply Z.leb_le. Qed.
Lemma window_passed_spec : forall a b, evm_window_passed a b = true <-> a <= b.
Proof. intros a b. unfold evm_window_passed. apply Z.leb_le. Qed.
Lemma status_ok_spec : forall s, evm_status_ok s = true <-> s = 1.
Proof. intros s. unfold evm_status_ok. apply Z.eqb_eq. Qed.
Lemma expected_spec : forall wait safe cl, evm_expected wait safe cl = if wait && negb safe then cl else 0.
Proof. reflexivity. Qed.
Lemma max_wait_nonneg : 0 <= evm_max_wait.
Proof. unfold evm_max_wait. lia. Qed.
Lemma reobs_head_first : evm_reobs_head_first = true.
Proof. reflexivity. Qed.
Lemma reobs_checks_status : evm_reobs_checks_status = true.
Proof. reflexivity. Qed.
Lemma reobs_checks_address : evm_reobs_checks_address = true.
Proof. reflexivity. Qed.
Lemma reobs_checks_topic : evm_reobs_checks_topic = true.
Proof. reflexivity. Qed.
Lemma reobs_status_ok_spec : forall s, evm_reobs_status_ok s = true <-> s = 1.
Proof. intros s. unfold evm_reobs_status_ok. apply Z.eqb_eq. Qed.
Lemma reobs_depth_spec : forall a b, evm_reobs_depth_reached a b = true <-> a <= b.
Proof. intros a b. unfold evm_reobs_depth_reached. apply Z.leb_le. Qed.
Lemma reobs_zero_guard : evm_reobs_zero_head_guard = true.
Proof. reflexivity. Qed.

(* ================================================================== small arithmetic *)
Lemma two64_pos : 0 < two64.
Proof. unfold two64. lia. Qed.
Lemma u64_id : forall x, 0 <= x < two64 -> u64 x = x.
Proof. intros x H. unfold u64. apply Z.mod_small. exact H. Qed.
Lemma u64_range : forall x, 0 <= u64 x < two64.
Proof. intros x. unfold u64. apply Z.mod_pos_bound. exact two64_pos. Qed.

(* ================================================================== keys *)
Lemma key_eqb_eq : forall a b, key_eqb a b = true <-> a = b.
Proof.
  intros [a1 a2 a3 a4] [b1 b2 b3 b4]. unfold key_eqb. cbn [k_tx k_bh k_em k_seq].
  rewrite !andb_true_iff, !Z.eqb_eq. split.
  - intros [[[H1 H2] H3] H4]. subst. reflexivity.
  - intros H. inversion H. subst. repeat apply conj; reflexivity.
Qed.
Lemma key_eqb_refl : forall a, key_eqb a a = true.
Proof. intros a. apply key_eqb_eq. reflexivity. Qed.
Lemma key_eqb_neq : forall a b, key_eqb a b = false <-> a <> b.
Proof.
  intros a b. split.
  - intros H E. apply key_eqb_eq in E. rewrite E in H. discriminate.
  - intros H. destruct (key_eqb a b) eqn:E; [|reflexivity]. apply key_eqb_eq in E. contradiction.
Qed.
Lemma key_eqb_sym : forall a b, key_eqb a b = key_eqb b a.
Proof.
  intros a b. destruct (key_eqb a b) eqn:E.
  - apply key_eqb_eq in E. subst. symmetry. apply key_eqb_refl.
  - symmetry. apply key_eqb_neq. apply key_eqb_neq in E. congruence.
Qed.

(* ================================================================== the per-entry decision in closed form *)
Inductive verdict := VWait | VRetry | VAbandon | VOrphan | VFailed | VRemined | VForward.

(* thr = height + expected, lim = thr + maxWait, bn = head, bh = block hash recorded when the log was seen *)
Definition verdict_of (thr lim bn : Z) (a : rans) (bh : Z) : verdict :=
  if bn <? thr then VWait
  else if is_transient (a_err a) then (if bn <? lim then VRetry else VAbandon)
  else if is_orphan a then VOrphan
  else match a_rc a with
       | None => VOrphan
       | Some (st, h) => if st =? 1 then (if h =? bh then VForward else VRemined) else VFailed
       end.

Definition result_of (v : verdict) (k : key) (p : pmsg) : bool * list out :=
  match v with
  | VWait => (true, [])
  | VRetry => (true, [Looked k])
  | VAbandon => (false, [Looked k; Dropped k WTimeout])
  | VOrphan => (false, [Looked k; Dropped k WOrphan])
  | VFailed => (false, [Looked k; Dropped k WFailed])
  | VRemined => (false, [Looked k; Dropped k WRemined])
  | VForward => (false, [Looked k; Confirmed k (p_msg p)])
  end.

Definition verdict_at (wait safe : bool) (n : Z) (a : rans) (k : key) (p : pmsg) : verdict :=
  verdict_of (thr_of wait safe p) (lim_of wait safe p) (u64 n) a (k_bh k).

Lemma not_transient_not_orphan : forall a,
  is_transient (a_err a) = false -> is_orphan a = false -> a_err a = ENone /\ exists st h, a_rc a = Some (st, h).
Proof.
  intros [rc e] Ht Ho. unfold is_orphan in Ho. cbn [a_rc a_err] in *.
  destruct rc as [[st h]|]; [|discriminate].
  destruct e; try discriminate. split; [reflexivity|]. exists st, h. reflexivity.
Qed.

Lemma scan_entry_verdict : forall wait safe n a k p,
  scan_entry wait safe n a k p = result_of (verdict_at wait safe n a k p) k p.
Proof.
  intros wait safe n a k p. unfold scan_entry, scan_entry_gen, verdict_at, verdict_of.
  rewrite shape_timeout, shape_transient. cbn [andb negb].
  set (thr := thr_of wait safe p). set (lim := lim_of wait safe p). set (bn := u64 n).
  destruct (evm_depth_reached thr bn) eqn:Hd.
  - apply depth_reached_spec in Hd.
    destruct (Z.ltb_spec bn thr) as [Hlt|Hge]; [lia|].
    destruct (is_transient (a_err a)) eqn:Ht.
    + destruct (evm_window_passed lim bn) eqn:Hw.
      * apply window_passed_spec in Hw. destruct (Z.ltb_spec bn lim) as [Hl|Hl]; [lia|]. reflexivity.
      * destruct (Z.ltb_spec bn lim) as [Hl|Hl]; [reflexivity|].
        assert (Hw' : evm_window_passed lim bn = true) by (apply window_passed_spec; lia).
        rewrite Hw' in Hw. discriminate.
    + destruct (is_orphan a) eqn:Ho; [reflexivity|].
      destruct (not_transient_not_orphan a Ht Ho) as [He [st [h Hrc]]].
      rewrite Hrc.
      destruct (evm_status_ok st) eqn:Hs.
      * apply status_ok_spec in Hs. subst st. cbn [negb]. rewrite Z.eqb_refl.
        destruct (h =? k_bh k); reflexivity.
      * cbn [negb]. destruct (Z.eqb_spec st 1) as [E|E]; [|reflexivity].
        assert (Hs' : evm_status_ok st = true) by (apply status_ok_spec; exact E).
        rewrite Hs' in Hs. discriminate.
  - destruct (Z.ltb_spec bn thr) as [Hlt|Hge]; [reflexivity|].
    assert (Hd' : evm_depth_reached thr bn = true) by (apply depth_reached_spec; lia).
    rewrite Hd' in Hd. discriminate.
Qed.

(* what each verdict means *)
Lemma verdict_forward_inv : forall thr lim bn a bh,
  verdict_of thr lim bn a bh = VForward -> thr <= bn /\ a = mkAns (Some (1, bh)) ENone.
Proof.
  intros thr lim bn a bh. unfold verdict_of.
  destruct (Z.ltb_spec bn thr) as [Hlt|Hge]; [discriminate|].
  destruct (is_transient (a_err a)) eqn:Ht; [destruct (bn <? lim); discriminate|].
  destruct (is_orphan a) eqn:Ho; [discriminate|].
  destruct (not_transient_not_orphan a Ht Ho) as [He [st [h Hrc]]]. rewrite Hrc.
  destruct (Z.eqb_spec st 1) as [E|E]; [|discriminate].
  destruct (Z.eqb_spec h bh) as [E2|E2]; [|discriminate].
  intros _. split; [exact Hge|]. destruct a as [rc e]. cbn [a_rc a_err] in *. subst. reflexivity.
Qed.

Lemma verdict_forward_intro : forall thr lim bn bh,
  thr <= bn -> verdict_of thr lim bn (mkAns (Some (1, bh)) ENone) bh = VForward.
Proof.
  intros thr lim bn bh H. unfold verdict_of. destruct (Z.ltb_spec bn thr) as [Hlt|Hge]; [lia|].
  cbn [a_err a_rc is_transient is_orphan]. rewrite !Z.eqb_refl. reflexivity.
Qed.

Lemma verdict_abandon_inv : forall thr lim bn a bh,
  verdict_of thr lim bn a bh = VAbandon -> thr <= bn /\ lim <= bn /\ is_transient (a_err a) = true.
Proof.
  intros thr lim bn a bh. unfold verdict_of.
  destruct (Z.ltb_spec bn thr) as [Hlt|Hge]; [discriminate|].
  destruct (is_transient (a_err a)) eqn:Ht.
  - destruct (Z.ltb_spec bn lim) as [Hl|Hl]; [discriminate|]. intros _. repeat apply conj; [lia|lia|reflexivity].
  - destruct (is_orphan a); [discriminate|]. destruct (a_rc a) as [[st h]|]; [|discriminate].
    destruct (st =? 1); [destruct (h =? bh)|]; discriminate.
Qed.

Lemma verdict_wait_iff : forall thr lim bn a bh, verdict_of thr lim bn a bh = VWait <-> bn < thr.
Proof.
  intros thr lim bn a bh. unfold verdict_of. destruct (Z.ltb_spec bn thr) as [Hlt|Hge].
  - split; [intros _; exact Hlt|reflexivity].
  - split; [|lia]. destruct (is_transient (a_err a)); [destruct (bn <? lim); discriminate|].
    destruct (is_orphan a); [discriminate|]. destruct (a_rc a) as [[st h]|]; [|discriminate].
    destruct (st =? 1); [destruct (h =? bh)|]; discriminate.
Qed.

Lemma verdict_retry_inv : forall thr lim bn a bh,
  verdict_of thr lim bn a bh = VRetry -> thr <= bn /\ bn < lim /\ is_transient (a_err a) = true.
Proof.
  intros thr lim bn a bh. unfold verdict_of.
  destruct (Z.ltb_spec bn thr) as [Hlt|Hge]; [discriminate|].
  destruct (is_transient (a_err a)) eqn:Ht.
  - destruct (Z.ltb_spec bn lim) as [Hl|Hl]; [|discriminate]. intros _. repeat apply conj; [lia|lia|reflexivity].
  - destruct (is_orphan a); [discriminate|]. destruct (a_rc a) as [[st h]|]; [|discriminate].
    destruct (st =? 1); [destruct (h =? bh)|]; discriminate.
Qed.

Lemma verdict_retry_intro : forall thr lim bn a bh,
  thr <= bn -> bn < lim -> is_transient (a_err a) = true -> verdict_of thr lim bn a bh = VRetry.
Proof.
  intros thr lim bn a bh H1 H2 H3. unfold verdict_of. rewrite H3.
  destruct (Z.ltb_spec bn thr); [lia|]. destruct (Z.ltb_spec bn lim); [reflexivity|lia].
Qed.

Lemma verdict_orphan_intro : forall thr lim bn a bh,
  thr <= bn -> is_transient (a_err a) = false -> is_orphan a = true -> verdict_of thr lim bn a bh = VOrphan.
Proof.
  intros thr lim bn a bh H1 H2 H3. unfold verdict_of. rewrite H2, H3.
  destruct (Z.ltb_spec bn thr); [lia|reflexivity].
Qed.

Lemma verdict_failed_intro : forall thr lim bn st h bh,
  thr <= bn -> st <> 1 -> verdict_of thr lim bn (mkAns (Some (st, h)) ENone) bh = VFailed.
Proof.
  intros thr lim bn st h bh H1 H2. unfold verdict_of. cbn [a_err a_rc is_transient is_orphan].
  destruct (Z.ltb_spec bn thr); [lia|]. destruct (Z.eqb_spec st 1); [contradiction|reflexivity].
Qed.

Lemma verdict_remined_intro : forall thr lim bn h bh,
  thr <= bn -> h <> bh -> verdict_of thr lim bn (mkAns (Some (1, h)) ENone) bh = VRemined.
Proof.
  intros thr lim bn h bh H1 H2. unfold verdict_of. cbn [a_err a_rc is_transient is_orphan].
  destruct (Z.ltb_spec bn thr); [lia|]. rewrite Z.eqb_refl. destruct (Z.eqb_spec h bh); [contradiction|reflexivity].
Qed.

(* ================================================================== events "about" a key *)
Definition about (o : out) : option key :=
  match o with Confirmed k _ | Dropped k _ | Looked k => Some k | _ => None end.
Definition aboutb (k : key) (o : out) : bool :=
  match about o with Some k' => key_eqb k k' | None => false end.
(* decisions: the events that end the life of an entry *)
Definition decisionb (k : key) (o : out) : bool :=
  match o with Confirmed k' _ | Dropped k' _ => key_eqb k k' | _ => false end.
Definition decisions (k : key) (outs : list (list out)) : list out := filter (decisionb k) (concat outs).
Definition confirmedb (k : key) (o : out) : bool :=
  match o with Confirmed k' _ => key_eqb k k' | _ => false end.

Lemma result_all_about : forall v k p o, In o (snd (result_of v k p)) -> about o = Some k.
Proof.
  intros v k p o H. destruct v; cbn [result_of snd] in H; cbn [In] in H;
    repeat (destruct H as [H|H]; [subst o; reflexivity|]); contradiction.
Qed.

Lemma filter_all : forall (A : Type) (f : A -> bool) l, (forall x, In x l -> f x = true) -> filter f l = l.
Proof.
  intros A f l. induction l as [|x t IH]; intros H; [reflexivity|].
  cbn [filter]. rewrite (H x (or_introl eq_refl)). f_equal. apply IH. intros y Hy. apply H. right. exact Hy.
Qed.
Lemma filter_none : forall (A : Type) (f : A -> bool) l, (forall x, In x l -> f x = false) -> filter f l = [].
Proof.
  intros A f l. induction l as [|x t IH]; intros H; [reflexivity|].
  cbn [filter]. rewrite (H x (or_introl eq_refl)). apply IH. intros y Hy. apply H. right. exact Hy.
Qed.

Lemma about_same : forall wait safe n a k p,
  filter (aboutb k) (snd (scan_entry wait safe n a k p)) = snd (scan_entry wait safe n a k p).
Proof.
  intros. apply filter_all. intros o Ho. rewrite scan_entry_verdict in Ho.
  apply result_all_about in Ho. unfold aboutb. rewrite Ho. apply key_eqb_refl.
Qed.
Lemma about_other : forall wait safe n a k k' p, k <> k' ->
  filter (aboutb k) (snd (scan_entry wait safe n a k' p)) = [].
Proof.
  intros wait safe n a k k' p Hne. apply filter_none. intros o Ho. rewrite scan_entry_verdict in Ho.
  apply result_all_about in Ho. unfold aboutb. rewrite Ho. apply key_eqb_neq. exact Hne.
Qed.

(* ================================================================== w.pending as an association list *)
Lemma find_none_keys : forall k l, find k l = None <-> ~ In k (keys l).
Proof.
  intros k l. induction l as [|[k' p] t IH]; cbn [find keys map fst In].
  - split; [intros _ H; exact H|reflexivity].
  - destruct (key_eqb k k') eqn:E.
    + apply key_eqb_eq in E. subst k'. split; [discriminate|]. intros H. exfalso. apply H. left. reflexivity.
    + apply key_eqb_neq in E. rewrite IH. unfold keys. split.
      * intros H [H1|H1]; [congruence|contradiction].
      * intros H H1. apply H. right. exact H1.
Qed.

Lemma find_some_in : forall k l p, find k l = Some p -> In (k, p) l.
Proof.
  intros k l p. induction l as [|[k' p'] t IH]; cbn [find In]; [discriminate|].
  destruct (key_eqb k k') eqn:E.
  - apply key_eqb_eq in E. subst k'. intros H. inversion H. left. reflexivity.
  - intros H. right. apply IH. exact H.
Qed.

Lemma in_find : forall k p l, NoDup (keys l) -> In (k, p) l -> find k l = Some p.
Proof.
  intros k p l. induction l as [|[k' p'] t IH]; cbn [find keys map fst In]; intros Hnd Hin; [contradiction|].
  inversion Hnd as [|x xs Hx Hnd']. subst.
  destruct Hin as [Hin|Hin].
  - inversion Hin. subst. rewrite key_eqb_refl. reflexivity.
  - destruct (key_eqb k k') eqn:E.
    + apply key_eqb_eq in E. subst k'. exfalso. apply Hx. change (In k (keys t)). unfold keys.
      apply in_map_iff. exists (k, p). split; [reflexivity|exact Hin].
    + apply IH; assumption.
Qed.

Lemma keys_remove : forall k l x, In x (keys (remove_key k l)) <-> In x (keys l) /\ x <> k.
Proof.
  intros k l x. induction l as [|[k' p] t IH]; cbn [remove_key keys map fst In].
  - split; [contradiction|intros [H _]; exact H].
  - destruct (key_eqb k k') eqn:E.
    + apply key_eqb_eq in E. subst k'. rewrite IH. unfold keys. split.
      * intros [H1 H2]. split; [right; exact H1|exact H2].
      * intros [[H1|H1] H2]; [congruence|]. split; assumption.
    + apply key_eqb_neq in E. cbn [keys map fst In]. fold (keys (remove_key k t)). rewrite IH. unfold keys. split.
      * intros [H|[H1 H2]]; [subst x; split; [left; reflexivity|congruence]|]. split; [right; exact H1|exact H2].
      * intros [[H1|H1] H2]; [left; exact H1|right; split; assumption].
Qed.

Lemma nodup_remove : forall k l, NoDup (keys l) -> NoDup (keys (remove_key k l)).
Proof.
  intros k l. induction l as [|[k' p] t IH]; cbn [remove_key keys map fst]; intros H; [constructor|].
  inversion H as [|x xs Hx Hnd]. subst.
  destruct (key_eqb k k'); [apply IH; exact Hnd|].
  cbn [keys map fst]. constructor; [|apply IH; exact Hnd].
  intros Hin. apply keys_remove in Hin. apply Hx. exact (proj1 Hin).
Qed.

Lemma nodup_insert : forall k p l, NoDup (keys l) -> NoDup (keys (insert k p l)).
Proof.
  intros k p l H. unfold insert. cbn [keys map fst]. constructor; [|apply nodup_remove; exact H].
  intros Hin. apply keys_remove in Hin. destruct Hin as [_ Hne]. apply Hne. reflexivity.
Qed.

Lemma find_remove : forall k k' l, find k (remove_key k' l) = if key_eqb k k' then None else find k l.
Proof.
  intros k k' l. induction l as [|[k2 p2] t IH]; cbn [remove_key find].
  - destruct (key_eqb k k'); reflexivity.
  - destruct (key_eqb k' k2) eqn:E2.
    + apply key_eqb_eq in E2. subst k2. rewrite IH. destruct (key_eqb k k'); reflexivity.
    + cbn [find]. rewrite IH. destruct (key_eqb k k') eqn:E.
      * apply key_eqb_eq in E. subst k'. rewrite E2. reflexivity.
      * reflexivity.
Qed.

Lemma find_insert : forall k k' p l, find k (insert k' p l) = if key_eqb k k' then Some p else find k l.
Proof.
  intros k k' p l. unfold insert. cbn [find]. rewrite find_remove. destruct (key_eqb k k'); reflexivity.
Qed.

(* ================================================================== the scan as filter / flat_map *)
Lemma scan_fst : forall wait safe n orc l,
  fst (scan wait safe n orc l) = filter (fun kp => fst (scan_entry wait safe n (orc (fst kp)) (fst kp) (snd kp))) l.
Proof.
  intros wait safe n orc l. induction l as [|[k p] t IH]; [reflexivity|].
  cbn [scan fst snd filter]. rewrite IH. destruct (fst (scan_entry wait safe n (orc k) k p)); reflexivity.
Qed.
Lemma scan_snd : forall wait safe n orc l,
  snd (scan wait safe n orc l) = flat_map (fun kp => snd (scan_entry wait safe n (orc (fst kp)) (fst kp) (snd kp))) l.
Proof.
  intros wait safe n orc l. induction l as [|[k p] t IH]; [reflexivity|].
  cbn [scan fst snd flat_map]. rewrite IH. reflexivity.
Qed.

Lemma keys_scan_sub : forall wait safe n orc l x, In x (keys (fst (scan wait safe n orc l))) -> In x (keys l).
Proof.
  intros wait safe n orc l x. rewrite scan_fst. unfold keys. rewrite !in_map_iff.
  intros [kp [H1 H2]]. apply filter_In in H2. exists kp. split; [exact H1|exact (proj1 H2)].
Qed.

Lemma nodup_scan : forall wait safe n orc l, NoDup (keys l) -> NoDup (keys (fst (scan wait safe n orc l))).
Proof.
  intros wait safe n orc l. induction l as [|[k p] t IH]; intros H; [constructor|].
  cbn [keys map fst] in H. inversion H as [|x xs Hx Hnd]. subst.
  cbn [scan fst snd]. destruct (fst (scan_entry wait safe n (orc k) k p)).
  - cbn [keys map fst]. constructor; [|apply IH; exact Hnd].
    intros Hin. apply Hx. apply (keys_scan_sub wait safe n orc t k). exact Hin.
  - apply IH. exact Hnd.
Qed.

Lemma find_scan : forall wait safe n orc k l, NoDup (keys l) ->
  find k (fst (scan wait safe n orc l)) =
  match find k l with
  | Some p => if fst (scan_entry wait safe n (orc k) k p) then Some p else None
  | None => None
  end.
Proof.
  intros wait safe n orc k l. induction l as [|[k' p'] t IH]; intros H; [reflexivity|].
  cbn [keys map fst] in H. inversion H as [|x xs Hx Hnd]. subst.
  cbn [scan fst snd find]. destruct (key_eqb k k') eqn:E.
  - apply key_eqb_eq in E. subst k'.
    destruct (fst (scan_entry wait safe n (orc k) k p')).
    + cbn [find]. rewrite key_eqb_refl. reflexivity.
    + rewrite (IH Hnd). assert (Hn : find k t = None) by (apply find_none_keys; exact Hx). rewrite Hn. reflexivity.
  - destruct (fst (scan_entry wait safe n (orc k') k' p')).
    + cbn [find]. rewrite E. apply IH. exact Hnd.
    + apply IH. exact Hnd.
Qed.

Lemma about_scan : forall wait safe n orc k l, NoDup (keys l) ->
  filter (aboutb k) (snd (scan wait safe n orc l)) =
  match find k l with
  | Some p => snd (scan_entry wait safe n (orc k) k p)
  | None => []
  end.
Proof.
  intros wait safe n orc k l. induction l as [|[k' p'] t IH]; intros H; [reflexivity|].
  cbn [keys map fst] in H. inversion H as [|x xs Hx Hnd]. subst.
  cbn [scan fst snd find]. rewrite filter_app. rewrite (IH Hnd). destruct (key_eqb k k') eqn:E.
  - apply key_eqb_eq in E. subst k'. rewrite about_same.
    assert (Hn : find k t = None) by (apply find_none_keys; exact Hx). rewrite Hn. apply app_nil_r.
  - apply key_eqb_neq in E. rewrite (about_other wait safe n (orc k') k k' p' E). reflexivity.
Qed.

(* ================================================================== one key's view of the machine (non-interference) *)
(* what happens to key k, given whether it is pending (cur); the other entries of w.pending play no role *)
Fixpoint fate (c : cfg) (k : key) (cur : option pmsg) (ops : list op) : list (list out) * option pmsg :=
  match ops with
  | [] => ([], cur)
  | o :: t =>
    match o with
    | OLog e (Some tm) =>
      let cur' := if key_eqb k (key_of e) then Some (pm_of c e tm) else cur in
      let r := fate c k cur' t in ([] :: fst r, snd r)
    | OHead n safe orc =>
      match cur with
      | Some p =>
        let r0 := scan_entry (c_wait c) safe n (orc k) k p in
        let r := fate c k (if fst r0 then Some p else None) t in (snd r0 :: fst r, snd r)
      | None => let r := fate c k None t in ([] :: fst r, snd r)
      end
    | _ => let r := fate c k cur t in ([] :: fst r, snd r)
    end
  end.

Lemma nodup_step : forall c s o, NoDup (keys s) -> NoDup (keys (fst (step c s o))).
Proof.
  intros c s o H. destruct o as [e [tm|]|n safe orc|hb ha rc bt]; cbn [step fst].
  - apply nodup_insert. exact H.
  - exact H.
  - apply nodup_scan. exact H.
  - exact H.
Qed.

Lemma about_reobserve : forall c k hb ha rc bt, filter (aboutb k) (reobserve c hb ha rc bt) = [].
Proof.
  intros c k hb ha rc bt. apply filter_none. intros o Ho. unfold reobserve in Ho.
  destruct (if evm_reobs_head_first then hb else ha) as [hd|]; [|contradiction].
  destruct (events_for_tx c rc bt) as [| |blk ms].
  - contradiction.
  - destruct Ho as [Ho|Ho]; [subst o; reflexivity|contradiction].
  - apply in_flat_map in Ho. destruct Ho as [m [_ Ho]].
    destruct (evm_reobs_zero_head_guard && (u64 hd =? 0)); [contradiction|].
    destruct (evm_reobs_depth_reached _ _); [|contradiction].
    destruct Ho as [Ho|Ho]; [subst o; reflexivity|contradiction].
Qed.

Theorem run_fate : forall c k ops s, NoDup (keys s) ->
  map (filter (aboutb k)) (snd (run c s ops)) = fst (fate c k (find k s) ops) /\
  find k (fst (run c s ops)) = snd (fate c k (find k s) ops).
Proof.
  intros c k ops. induction ops as [|o t IH]; intros s Hnd; [split; reflexivity|].
  cbn [run fst snd map].
  specialize (IH (fst (step c s o)) (nodup_step c s o Hnd)). destruct IH as [IH1 IH2].
  rewrite IH1, IH2. clear IH1 IH2.
  destruct o as [e [tm|]|n safe orc|hb ha rc bt]; cbn [step fst snd fate].
  - rewrite find_insert. cbn [filter]. split; reflexivity.
  - cbn [filter aboutb about]. split; reflexivity.
  - rewrite (find_scan _ _ _ _ _ _ Hnd), (about_scan _ _ _ _ _ _ Hnd).
    destruct (find k s) as [p|]; cbn [fst snd]; split; reflexivity.
  - rewrite about_reobserve. split; reflexivity.
Qed.

(* ------------------------------------------------------------------ reasoning about fate *)
Definition relogs (k : key) (o : op) : bool :=
  match o with OLog e (Some _) => key_eqb k (key_of e) | _ => false end.
Definition no_relog (k : key) (ops : list op) : Prop := forall o, In o ops -> relogs k o = false.

Lemma no_relog_cons : forall k o t, no_relog k (o :: t) -> relogs k o = false /\ no_relog k t.
Proof. intros k o t H. split; [apply H; left; reflexivity|intros x Hx; apply H; right; exact Hx]. Qed.
Lemma no_relog_app : forall k a b, no_relog k (a ++ b) -> no_relog k a /\ no_relog k b.
Proof. intros k a b H. split; intros x Hx; apply H; apply in_or_app; [left|right]; exact Hx. Qed.

Lemma fate_app : forall c k a b cur,
  fate c k cur (a ++ b) = (fst (fate c k cur a) ++ fst (fate c k (snd (fate c k cur a)) b), snd (fate c k (snd (fate c k cur a)) b)).
Proof.
  intros c k a b. induction a as [|o t IH]; intros cur.
  - cbn [app fate fst snd]. destruct (fate c k cur b); reflexivity.
  - cbn [app fate]. destruct o as [e [tm|]|n safe orc|hb ha rc bt].
    + rewrite IH. reflexivity.
    + rewrite IH. reflexivity.
    + destruct cur as [p|]; rewrite IH; reflexivity.
    + rewrite IH. reflexivity.
Qed.

Lemma fate_none : forall c k ops, no_relog k ops -> fate c k None ops = (map (fun _ => []) ops, None).
Proof.
  intros c k ops. induction ops as [|o t IH]; intros H; [reflexivity|].
  apply no_relog_cons in H. destruct H as [Ho Ht]. specialize (IH Ht).
  cbn [fate map]. destruct o as [e [tm|]|n safe orc|hb ha rc bt]; cbn [relogs] in Ho.
  - rewrite Ho. rewrite IH. reflexivity.
  - rewrite IH. reflexivity.
  - rewrite IH. reflexivity.
  - rewrite IH. reflexivity.
Qed.

(* an operation that leaves the entry (k, p) pending *)
Definition quiet (c : cfg) (k : key) (p : pmsg) (o : op) : Prop :=
  match o with
  | OLog e (Some _) => key_of e <> k
  | OHead n safe orc =>
    verdict_at (c_wait c) safe n (orc k) k p = VWait \/ verdict_at (c_wait c) safe n (orc k) k p = VRetry
  | _ => True
  end.

Lemma decision_filter_concat_map_nil : forall (k : key) (A : Type) (l : list A),
  filter (decisionb k) (concat (map (fun _ : A => @nil out) l)) = [].
Proof. intros k A l. induction l as [|x t IH]; [reflexivity|]. cbn [map concat app]. exact IH. Qed.

Lemma fate_quiet : forall c k p pre, Forall (quiet c k p) pre ->
  snd (fate c k (Some p) pre) = Some p /\
  filter (decisionb k) (concat (fst (fate c k (Some p) pre))) = [] /\
  length (fst (fate c k (Some p) pre)) = length pre.
Proof.
  intros c k p pre. induction pre as [|o t IH]; intros H; [repeat apply conj; reflexivity|].
  inversion H as [|x xs Hq Ht]. subst. specialize (IH Ht). destruct IH as [IH1 [IH2 IH3]].
  cbn [fate]. destruct o as [e [tm|]|n safe orc|hb ha rc bt]; cbn [quiet] in Hq.
  - assert (E : key_eqb k (key_of e) = false) by (apply key_eqb_neq; congruence). rewrite E.
    cbn [fst snd concat app length]. repeat apply conj; [exact IH1|exact IH2|f_equal; exact IH3].
  - cbn [fst snd concat app length]. repeat apply conj; [exact IH1|exact IH2|f_equal; exact IH3].
  - rewrite scan_entry_verdict. destruct Hq as [Hq|Hq]; rewrite Hq; cbn [result_of fst snd concat app length filter decisionb].
    + repeat apply conj; [exact IH1|exact IH2|f_equal; exact IH3].
    + repeat apply conj; [exact IH1|exact IH2|f_equal; exact IH3].
  - cbn [fst snd concat app length]. repeat apply conj; [exact IH1|exact IH2|f_equal; exact IH3].
Qed.

(* the event that a decisive verdict produces *)
Definition decision_of (v : verdict) (k : key) (p : pmsg) : list out :=
  match v with
  | VWait | VRetry => []
  | VAbandon => [Dropped k WTimeout]
  | VOrphan => [Dropped k WOrphan]
  | VFailed => [Dropped k WFailed]
  | VRemined => [Dropped k WRemined]
  | VForward => [Confirmed k (p_msg p)]
  end.

Lemma decisions_result : forall v k p, filter (decisionb k) (snd (result_of v k p)) = decision_of v k p.
Proof. intros v k p. destruct v; cbn [result_of snd filter decisionb decision_of]; rewrite ?key_eqb_refl; reflexivity. Qed.

Lemma nth_app_len : forall (A : Type) (a b : list A) (x d : A), nth (length a) (a ++ x :: b) d = x.
Proof. intros A a b x d. induction a as [|y t IH]; [reflexivity|exact IH]. Qed.

Lemma decision_concat_about : forall k l,
  filter (decisionb k) (concat l) = filter (decisionb k) (concat (map (filter (aboutb k)) l)).
Proof.
  intros k l. induction l as [|x t IH]; [reflexivity|].
  cbn [map concat]. rewrite !filter_app. rewrite IH. f_equal.
  clear. induction x as [|o t IH]; [reflexivity|]. cbn [filter].
  destruct (aboutb k o) eqn:Ea.
  - cbn [filter]. destruct (decisionb k o); [f_equal|]; exact IH.
  - assert (Ed : decisionb k o = false).
    { destruct o; try reflexivity; unfold aboutb in Ea; cbn [about] in Ea; exact Ea. }
    rewrite Ed. exact IH.
Qed.

(* RESOLUTION: the first head at which the verdict for (k, p) is neither "wait" nor "retry" decides the entry, once and for all *)
Theorem resolution : forall c s k p pre n safe orc post,
  NoDup (keys s) -> find k s = Some p ->
  Forall (quiet c k p) pre -> no_relog k post ->
  let v := verdict_at (c_wait c) safe n (orc k) k p in
  v <> VWait -> v <> VRetry ->
  let r := run c s (pre ++ OHead n safe orc :: post) in
  decisions k (snd r) = decision_of v k p /\
  filter (aboutb k) (nth (length pre) (snd r) []) = snd (result_of v k p) /\
  find k (fst r) = None.
Proof.
  intros c s k p pre n safe orc post Hnd Hf Hq Hpost v Hv1 Hv2 r.
  destruct (run_fate c k (pre ++ OHead n safe orc :: post) s Hnd) as [R1 R2]. fold r in R1, R2.
  rewrite Hf in R1, R2. rewrite fate_app in R1, R2. cbn [fst snd] in R1, R2.
  destruct (fate_quiet c k p pre Hq) as [Q1 [Q2 Q3]]. rewrite Q1 in R1, R2.
  cbn [fate] in R1, R2. rewrite scan_entry_verdict in R1, R2. fold v in R1, R2.
  assert (Hgone : fst (result_of v k p) = false) by (destruct v; try reflexivity; congruence).
  rewrite Hgone in R1, R2. rewrite (fate_none c k post Hpost) in R1, R2. cbn [fst snd] in R1, R2.
  repeat apply conj.
  - unfold decisions.
    rewrite decision_concat_about, R1. rewrite concat_app, filter_app, Q2. cbn [app concat]. rewrite filter_app.
    rewrite decisions_result. rewrite decision_filter_concat_map_nil. apply app_nil_r.
  - assert (E : filter (aboutb k) (nth (length pre) (snd r) []) = nth (length pre) (map (filter (aboutb k)) (snd r)) []).
    { change (@nil out) with (filter (aboutb k) []) at 2. rewrite map_nth. reflexivity. }
    rewrite E, R1. rewrite <- Q3. apply nth_app_len.
  - exact R2.
Qed.

(* while every operation is quiet the entry stays and no decision about it is emitted *)
Theorem quiet_keeps : forall c s k p ops,
  NoDup (keys s) -> find k s = Some p -> Forall (quiet c k p) ops ->
  find k (fst (run c s ops)) = Some p /\ decisions k (snd (run c s ops)) = [].
Proof.
  intros c s k p ops Hnd Hf Hq.
  destruct (run_fate c k ops s Hnd) as [R1 R2]. rewrite Hf in R1, R2.
  destruct (fate_quiet c k p ops Hq) as [Q1 [Q2 _]].
  split; [rewrite R2; exact Q1|].
  unfold decisions.
  rewrite decision_concat_about, R1. exact Q2.
Qed.

(* ================================================================== ranges: uint64 arithmetic does not wrap *)
Definition wf_p (p : pmsg) : Prop :=
  0 <= p_height p /\ 0 <= m_cl (p_msg p) <= 255 /\ p_height p + 255 + evm_max_wait < two64.

Lemma expected_range : forall wait safe p, wf_p p -> 0 <= expected_of wait safe p <= 255.
Proof.
  intros wait safe p [_ [H _]]. unfold expected_of. rewrite expected_spec. destruct (wait && negb safe); lia.
Qed.
Lemma thr_math : forall wait safe p, wf_p p -> thr_of wait safe p = p_height p + expected_of wait safe p.
Proof.
  intros wait safe p H. pose proof (expected_range wait safe p H) as He. destruct H as [H1 [H2 H3]].
  pose proof max_wait_nonneg as Hm. unfold thr_of. apply u64_id. lia.
Qed.
Lemma lim_math : forall wait safe p, wf_p p -> lim_of wait safe p = p_height p + expected_of wait safe p + evm_max_wait.
Proof.
  intros wait safe p H. unfold lim_of. rewrite (thr_math wait safe p H).
  pose proof (expected_range wait safe p H) as He. destruct H as [H1 [H2 H3]].
  pose proof max_wait_nonneg as Hm. apply u64_id. lia.
Qed.

(* the verdict in unbounded arithmetic *)
Definition verdict_math (wait safe : bool) (n : Z) (a : rans) (k : key) (p : pmsg) : verdict :=
  verdict_of (p_height p + expected_of wait safe p) (p_height p + expected_of wait safe p + evm_max_wait) n a (k_bh k).
Lemma verdict_at_math : forall wait safe n a k p, wf_p p -> 0 <= n < two64 ->
  verdict_at wait safe n a k p = verdict_math wait safe n a k p.
Proof.
  intros wait safe n a k p Hp Hn. unfold verdict_at, verdict_math.
  rewrite (thr_math wait safe p Hp), (lim_math wait safe p Hp), (u64_id n Hn). reflexivity.
Qed.

(* heads observed before the decisive one: too shallow, or inside the window with a transient failure of the lookup *)
Definition early_heads (c : cfg) (k : key) (p : pmsg) (pre : list op) : Prop :=
  forall n safe orc, In (OHead n safe orc) pre ->
    0 <= n < two64 /\
    (n < p_height p + expected_of (c_wait c) safe p \/
     (n < p_height p + expected_of (c_wait c) safe p + evm_max_wait /\ is_transient (a_err (orc k)) = true)).

Lemma early_quiet : forall c k p pre, wf_p p -> no_relog k pre -> early_heads c k p pre -> Forall (quiet c k p) pre.
Proof.
  intros c k p pre Hp Hr He. apply Forall_forall. intros o Ho.
  destruct o as [e [tm|]|n safe orc|hb ha rc bt]; cbn [quiet]; try exact I.
  - specialize (Hr _ Ho). cbn [relogs] in Hr. apply key_eqb_neq in Hr. congruence.
  - destruct (He n safe orc Ho) as [Hn Hc]. rewrite (verdict_at_math _ _ _ _ _ _ Hp Hn). unfold verdict_math.
    destruct (Z.lt_ge_cases n (p_height p + expected_of (c_wait c) safe p)) as [Hlt|Hge].
    + left. apply verdict_wait_iff. exact Hlt.
    + right. destruct Hc as [Hc|[Hc1 Hc2]]; [lia|]. apply verdict_retry_intro; assumption.
Qed.

Lemma in_filter_in : forall (A : Type) (f : A -> bool) x l, In x (filter f l) -> In x l.
Proof. intros A f x l H. apply filter_In in H. exact (proj1 H). Qed.

(* FIRST DECISIVE HEAD, in unbounded arithmetic *)
Theorem first_decisive_head : forall c s k p pre n safe orc post,
  NoDup (keys s) -> find k s = Some p -> wf_p p ->
  no_relog k pre -> no_relog k post -> early_heads c k p pre ->
  0 <= n < two64 ->
  p_height p + expected_of (c_wait c) safe p <= n ->
  (is_transient (a_err (orc k)) = true -> p_height p + expected_of (c_wait c) safe p + evm_max_wait <= n) ->
  let v := verdict_math (c_wait c) safe n (orc k) k p in
  let r := run c s (pre ++ OHead n safe orc :: post) in
  decisions k (snd r) = decision_of v k p /\
  (forall o, In o (decision_of v k p) -> In o (nth (length pre) (snd r) [])) /\
  find k (fst r) = None.
Proof.
  intros c s k p pre n safe orc post Hnd Hf Hp Hr1 Hr2 He Hn Hdeep Htr v r.
  pose proof (early_quiet c k p pre Hp Hr1 He) as Hq.
  assert (Hv : verdict_at (c_wait c) safe n (orc k) k p = v) by (apply verdict_at_math; assumption).
  assert (Hv1 : v <> VWait).
  { intros E. apply verdict_wait_iff in E. lia. }
  assert (Hv2 : v <> VRetry).
  { intros E. apply verdict_retry_inv in E. destruct E as [_ [E1 E2]]. specialize (Htr E2). lia. }
  rewrite <- Hv in Hv1, Hv2.
  destruct (resolution c s k p pre n safe orc post Hnd Hf Hq Hr2 Hv1 Hv2) as [R1 [R2 R3]].
  fold r in R1, R2, R3. rewrite Hv in R1, R2.
  repeat apply conj; [exact R1| |exact R3].
  intros o Ho. apply (in_filter_in _ (aboutb k)). rewrite R2.
  rewrite <- decisions_result in Ho. apply in_filter_in in Ho. exact Ho.
Qed.

(* LIVENESS: a message whose receipt is unchanged at the first sufficiently deep head that answers is forwarded exactly once,
   there, whatever the heads before (shallow, or transient failures inside the window) and after *)
Theorem forwarded_exactly_once : forall c s k p pre n safe orc post,
  NoDup (keys s) -> find k s = Some p -> wf_p p ->
  no_relog k pre -> no_relog k post -> early_heads c k p pre ->
  0 <= n < two64 ->
  p_height p + expected_of (c_wait c) safe p <= n ->
  orc k = mkAns (Some (1, k_bh k)) ENone ->
  let r := run c s (pre ++ OHead n safe orc :: post) in
  decisions k (snd r) = [Confirmed k (p_msg p)] /\
  In (Confirmed k (p_msg p)) (nth (length pre) (snd r) []) /\
  find k (fst r) = None.
Proof.
  intros c s k p pre n safe orc post Hnd Hf Hp Hr1 Hr2 He Hn Hdeep Hgood r.
  assert (Htr : is_transient (a_err (orc k)) = true -> p_height p + expected_of (c_wait c) safe p + evm_max_wait <= n).
  { rewrite Hgood. cbn [a_err is_transient]. discriminate. }
  destruct (first_decisive_head c s k p pre n safe orc post Hnd Hf Hp Hr1 Hr2 He Hn Hdeep Htr) as [R1 [R2 R3]].
  fold r in R1, R2, R3.
  assert (Hv : verdict_math (c_wait c) safe n (orc k) k p = VForward).
  { unfold verdict_math. rewrite Hgood. apply verdict_forward_intro. exact Hdeep. }
  rewrite Hv in R1, R2. cbn [decision_of] in R1, R2.
  repeat apply conj; [exact R1| |exact R3]. apply R2. left. reflexivity.
Qed.

(* DROPS *)
Theorem dropped_when_resolved_otherwise : forall c s k p pre n safe orc post,
  NoDup (keys s) -> find k s = Some p -> wf_p p ->
  no_relog k pre -> no_relog k post -> early_heads c k p pre ->
  0 <= n < two64 ->
  p_height p + expected_of (c_wait c) safe p <= n ->
  let r := run c s (pre ++ OHead n safe orc :: post) in
  (* orphaned: no receipt, and the error (if any) is "not found" / ErrNoResult / none *)
  ((is_transient (a_err (orc k)) = false /\ is_orphan (orc k) = true) ->
     decisions k (snd r) = [Dropped k WOrphan] /\ find k (fst r) = None) /\
  (* failed *)
  (forall st h, orc k = mkAns (Some (st, h)) ENone -> st <> 1 ->
     decisions k (snd r) = [Dropped k WFailed] /\ find k (fst r) = None) /\
  (* re-mined in another block *)
  (forall h, orc k = mkAns (Some (1, h)) ENone -> h <> k_bh k ->
     decisions k (snd r) = [Dropped k WRemined] /\ find k (fst r) = None).
Proof.
  intros c s k p pre n safe orc post Hnd Hf Hp Hr1 Hr2 He Hn Hdeep r.
  repeat apply conj.
  - intros [Ht Ho].
    assert (Htr : is_transient (a_err (orc k)) = true -> p_height p + expected_of (c_wait c) safe p + evm_max_wait <= n)
      by (rewrite Ht; discriminate).
    destruct (first_decisive_head c s k p pre n safe orc post Hnd Hf Hp Hr1 Hr2 He Hn Hdeep Htr) as [R1 [_ R3]].
    fold r in R1, R3. unfold verdict_math in R1. rewrite (verdict_orphan_intro _ _ _ _ _ Hdeep Ht Ho) in R1.
    split; [exact R1|exact R3].
  - intros st h Ha Hst.
    assert (Htr : is_transient (a_err (orc k)) = true -> p_height p + expected_of (c_wait c) safe p + evm_max_wait <= n)
      by (rewrite Ha; cbn [a_err is_transient]; discriminate).
    destruct (first_decisive_head c s k p pre n safe orc post Hnd Hf Hp Hr1 Hr2 He Hn Hdeep Htr) as [R1 [_ R3]].
    fold r in R1, R3. unfold verdict_math in R1. rewrite Ha in R1. rewrite (verdict_failed_intro _ _ _ _ _ _ Hdeep Hst) in R1.
    split; [exact R1|exact R3].
  - intros h Ha Hh.
    assert (Htr : is_transient (a_err (orc k)) = true -> p_height p + expected_of (c_wait c) safe p + evm_max_wait <= n)
      by (rewrite Ha; cbn [a_err is_transient]; discriminate).
    destruct (first_decisive_head c s k p pre n safe orc post Hnd Hf Hp Hr1 Hr2 He Hn Hdeep Htr) as [R1 [_ R3]].
    fold r in R1, R3. unfold verdict_math in R1. rewrite Ha in R1. rewrite (verdict_remined_intro _ _ _ _ _ Hdeep Hh) in R1.
    split; [exact R1|exact R3].
Qed.

(* ------------------------------------------------------------------ abandonment *)
Lemma fate_length : forall c k ops cur, length (fst (fate c k cur ops)) = length ops.
Proof.
  intros c k ops. induction ops as [|o t IH]; intros cur; [reflexivity|].
  cbn [fate]. destruct o as [e [tm|]|n safe orc|hb ha rc bt]; try (cbn [fst length]; f_equal; apply IH).
  destruct cur as [p|]; cbn [fst length]; f_equal; apply IH.
Qed.

Lemma fate_norelog : forall c k p pre, no_relog k pre ->
  snd (fate c k (Some p) pre) = None \/ (snd (fate c k (Some p) pre) = Some p /\ Forall (quiet c k p) pre).
Proof.
  intros c k p pre. induction pre as [|o t IH]; intros H; [right; split; [reflexivity|constructor]|].
  apply no_relog_cons in H. destruct H as [Ho Ht]. specialize (IH Ht).
  cbn [fate]. destruct o as [e [tm|]|n safe orc|hb ha rc bt]; cbn [relogs] in Ho.
  - rewrite Ho. cbn [snd]. destruct IH as [IH|[IH1 IH2]]; [left; exact IH|right].
    split; [exact IH1|]. constructor; [|exact IH2]. cbn [quiet]. apply key_eqb_neq in Ho. congruence.
  - cbn [snd]. destruct IH as [IH|[IH1 IH2]]; [left; exact IH|right]. split; [exact IH1|]. constructor; [exact I|exact IH2].
  - rewrite scan_entry_verdict. cbn [snd].
    destruct (verdict_at (c_wait c) safe n (orc k) k p) eqn:Ev; cbn [result_of fst];
      try (left; rewrite (fate_none c k t Ht); reflexivity).
    + destruct IH as [IH|[IH1 IH2]]; [left; exact IH|right]. split; [exact IH1|]. constructor; [|exact IH2].
      cbn [quiet]. left. exact Ev.
    + destruct IH as [IH|[IH1 IH2]]; [left; exact IH|right]. split; [exact IH1|]. constructor; [|exact IH2].
      cbn [quiet]. right. exact Ev.
  - cbn [snd]. destruct IH as [IH|[IH1 IH2]]; [left; exact IH|right]. split; [exact IH1|]. constructor; [exact I|exact IH2].
Qed.

(* ABANDONMENT happens only after the whole window, and only if every lookup issued for the entry failed transiently *)
Theorem abandoned_only_after_window : forall c s k p pre n safe orc post,
  NoDup (keys s) -> find k s = Some p -> wf_p p -> no_relog k pre ->
  (forall n' safe' orc', In (OHead n' safe' orc') pre -> 0 <= n' < two64) -> 0 <= n < two64 ->
  In (Dropped k WTimeout) (nth (length pre) (snd (run c s (pre ++ OHead n safe orc :: post))) []) ->
  is_transient (a_err (orc k)) = true /\
  p_height p + expected_of (c_wait c) safe p + evm_max_wait <= n /\
  (forall n' safe' orc', In (OHead n' safe' orc') pre -> p_height p + expected_of (c_wait c) safe' p <= n' ->
     is_transient (a_err (orc' k)) = true /\ n' < p_height p + expected_of (c_wait c) safe' p + evm_max_wait).
Proof.
  intros c s k p pre n safe orc post Hnd Hf Hp Hr Hpre Hn Hin.
  destruct (run_fate c k (pre ++ OHead n safe orc :: post) s Hnd) as [R1 _].
  assert (Hin' : In (Dropped k WTimeout) (nth (length pre) (map (filter (aboutb k)) (snd (run c s (pre ++ OHead n safe orc :: post)))) [])).
  { change (@nil out) with (filter (aboutb k) []). rewrite map_nth. apply filter_In. split; [exact Hin|].
    unfold aboutb. cbn [about]. apply key_eqb_refl. }
  rewrite R1 in Hin'. rewrite Hf in Hin'. rewrite fate_app in Hin'. cbn [fst] in Hin'.
  rewrite <- (fate_length c k pre (Some p)) in Hin'. 
  destruct (fate_norelog c k p pre Hr) as [Hnone|[Hsome Hq]].
  - rewrite Hnone in Hin'. cbn [fate fst] in Hin'. rewrite nth_app_len in Hin'. contradiction.
  - rewrite Hsome in Hin'. cbn [fate fst] in Hin'. rewrite nth_app_len in Hin'.
    rewrite scan_entry_verdict in Hin'. rewrite (verdict_at_math _ _ _ _ _ _ Hp Hn) in Hin'.
    destruct (verdict_math (c_wait c) safe n (orc k) k p) eqn:Ev; cbn [result_of snd In] in Hin';
      try (repeat (destruct Hin' as [Hin'|Hin']; [discriminate Hin'|]); contradiction).
    unfold verdict_math in Ev. apply verdict_abandon_inv in Ev. destruct Ev as [E1 [E2 E3]].
    repeat apply conj; [exact E3|exact E2|].
    intros n' safe' orc' Hin2 Hdeep. rewrite Forall_forall in Hq. specialize (Hq _ Hin2). cbn [quiet] in Hq.
    rewrite (verdict_at_math _ _ _ _ _ _ Hp (Hpre _ _ _ Hin2)) in Hq. unfold verdict_math in Hq.
    destruct Hq as [Hq|Hq].
    + apply verdict_wait_iff in Hq. lia.
    + apply verdict_retry_inv in Hq. destruct Hq as [_ [Q1 Q2]]. split; assumption.
Qed.

(* ================================================================== SAFETY of the per-head scan over whole histories *)
(* every pending entry was put there by a log the subscription delivered *)
Definition prov (c : cfg) (hist : list op) (s : pending) : Prop :=
  forall k p, In (k, p) s -> exists e tm, In (OLog e (Some tm)) hist /\ k = key_of e /\ p = pm_of c e tm.

Lemma in_remove_sub : forall k x l, In x (remove_key k l) -> In x l.
Proof.
  intros k x l. induction l as [|[k' p] t IH]; cbn [remove_key]; [intros H; exact H|].
  destruct (key_eqb k k'); intros H.
  - right. apply IH. exact H.
  - destruct H as [H|H]; [left; exact H|right; apply IH; exact H].
Qed.

Lemma prov_weaken : forall c hist o s, prov c hist s -> prov c (hist ++ [o]) s.
Proof.
  intros c hist o s H k p Hin. destruct (H k p Hin) as [e [tm [H1 H2]]].
  exists e, tm. split; [apply in_or_app; left; exact H1|exact H2].
Qed.

Lemma prov_step : forall c hist s o, prov c hist s -> prov c (hist ++ [o]) (fst (step c s o)).
Proof.
  intros c hist s o H. destruct o as [e [tm|]|n safe orc|hb ha rc bt]; cbn [step fst].
  - intros k p Hin. unfold insert in Hin. destruct Hin as [Hin|Hin].
    + inversion Hin. subst. exists e, tm. split; [apply in_or_app; right; left; reflexivity|split; reflexivity].
    + apply in_remove_sub in Hin. apply (prov_weaken c hist _ s H). exact Hin.
  - apply prov_weaken. exact H.
  - intros k p Hin. rewrite scan_fst in Hin. apply filter_In in Hin. apply (prov_weaken c hist _ s H). exact (proj1 Hin).
  - apply prov_weaken. exact H.
Qed.

Lemma prov_run : forall c ops hist s, prov c hist s -> prov c (hist ++ ops) (fst (run c s ops)).
Proof.
  intros c ops. induction ops as [|o t IH]; intros hist s H.
  - rewrite app_nil_r. exact H.
  - cbn [run fst]. replace (hist ++ o :: t) with ((hist ++ [o]) ++ t) by (rewrite <- app_assoc; reflexivity).
    apply IH. apply prov_step. exact H.
Qed.

Lemma prov_init : forall c ops, prov c ops (fst (run c init ops)).
Proof.
  intros c ops. apply (prov_run c ops [] init). intros k p Hin. contradiction.
Qed.

Lemma confirmed_in_result : forall v k p k' m, In (Confirmed k' m) (snd (result_of v k p)) -> v = VForward /\ k' = k /\ m = p_msg p.
Proof.
  intros v k p k' m H. destruct v; cbn [result_of snd In] in H;
    repeat (destruct H as [H|H]; [try discriminate H|]); try contradiction.
  inversion H. subst. repeat apply conj; reflexivity.
Qed.

(* one step: a forwarded message comes from a pending entry whose depth is reached and whose receipt is unchanged *)
Theorem scan_step_safe : forall c s n safe orc k m,
  In (Confirmed k m) (snd (step c s (OHead n safe orc))) ->
  exists p, In (k, p) s /\ m = p_msg p /\ thr_of (c_wait c) safe p <= u64 n /\ orc k = mkAns (Some (1, k_bh k)) ENone.
Proof.
  intros c s n safe orc k m H. cbn [step] in H. rewrite scan_snd in H. apply in_flat_map in H.
  destruct H as [[k' p'] [Hin H]]. cbn [fst snd] in H. rewrite scan_entry_verdict in H.
  apply confirmed_in_result in H. destruct H as [Hv [Hk Hm]]. subst k' m.
  unfold verdict_at in Hv. apply verdict_forward_inv in Hv. destruct Hv as [Hd Ha].
  exists p'. repeat apply conj; [exact Hin|reflexivity|exact Hd|exact Ha].
Qed.

Definition wf_ev (e : ev) : Prop := 0 <= e_h e /\ 0 <= e_cl e <= 255 /\ e_h e + 255 + evm_max_wait < two64.
Lemma wf_pm_of : forall c e tm, wf_ev e -> wf_p (pm_of c e tm).
Proof. intros c e tm H. exact H. Qed.

(* whole histories, from the empty watcher *)
Theorem scan_forward_safe : forall c hist n safe orc k m,
  (forall e tm, In (OLog e (Some tm)) hist -> wf_ev e) -> 0 <= n < two64 ->
  In (Confirmed k m) (snd (step c (fst (run c init hist)) (OHead n safe orc))) ->
  exists e tm, In (OLog e (Some tm)) hist /\ key_of e = k /\ m = msg_of c e tm /\
    e_h e + evm_expected (c_wait c) safe (e_cl e) <= n /\
    orc k = mkAns (Some (1, e_bh e)) ENone.
Proof.
  intros c hist n safe orc k m Hwf Hn H. apply scan_step_safe in H. destruct H as [p [Hin [Hm [Hd Ha]]]].
  destruct (prov_init c hist k p Hin) as [e [tm [H1 [H2 H3]]]]. subst k p.
  exists e, tm. repeat apply conj; [exact H1|reflexivity|exact Hm| |exact Ha].
  rewrite (thr_math _ _ _ (wf_pm_of c e tm (Hwf e tm H1))) in Hd. rewrite (u64_id n Hn) in Hd. exact Hd.
Qed.

(* a forwarded entry leaves w.pending in the same step: it cannot be forwarded again unless the node announces the log again *)
Lemma count_confirmed_result : forall v k p, (length (filter (confirmedb k) (snd (result_of v k p))) <= 1)%nat.
Proof. intros v k p. destruct v; cbn [result_of snd filter confirmedb length]; rewrite ?key_eqb_refl; cbn [length]; lia. Qed.

Lemma count_confirmed_nils : forall (k : key) (A : Type) (l : list A),
  filter (confirmedb k) (concat (map (fun _ : A => @nil out) l)) = [].
Proof. intros k A l. induction l as [|x t IH]; [reflexivity|]. cbn [map concat app]. exact IH. Qed.

Lemma fate_at_most_once : forall c k ops cur, no_relog k ops ->
  (length (filter (confirmedb k) (concat (fst (fate c k cur ops)))) <= 1)%nat.
Proof.
  intros c k ops. induction ops as [|o t IH]; intros cur H; [cbn; lia|].
  apply no_relog_cons in H. destruct H as [Ho Ht].
  cbn [fate]. destruct o as [e [tm|]|n safe orc|hb ha rc bt]; cbn [relogs] in Ho.
  - rewrite Ho. cbn [fst concat app]. apply IH. exact Ht.
  - cbn [fst concat app]. apply IH. exact Ht.
  - destruct cur as [p|]; [|cbn [fst concat app]; apply IH; exact Ht].
    rewrite scan_entry_verdict. cbn [fst snd concat]. rewrite filter_app, app_length.
    destruct (verdict_at (c_wait c) safe n (orc k) k p) eqn:Ev; cbn [result_of fst snd filter confirmedb length];
      rewrite ?key_eqb_refl; cbn [length plus];
      try (specialize (IH (Some p) Ht); lia);
      try (rewrite (fate_none c k t Ht); cbn [fst]; rewrite count_confirmed_nils; cbn [length]; lia).
  - cbn [fst concat app]. apply IH. exact Ht.
Qed.

Lemma confirmed_concat_about : forall k l,
  filter (confirmedb k) (concat l) = filter (confirmedb k) (concat (map (filter (aboutb k)) l)).
Proof.
  intros k l. induction l as [|x t IH]; [reflexivity|].
  cbn [map concat]. rewrite !filter_app. rewrite IH. f_equal.
  clear. induction x as [|o t IH]; [reflexivity|]. cbn [filter].
  destruct (aboutb k o) eqn:Ea.
  - cbn [filter]. destruct (confirmedb k o); [f_equal|]; exact IH.
  - assert (Ed : confirmedb k o = false).
    { destruct o; try reflexivity; unfold aboutb in Ea; cbn [about] in Ea; exact Ea. }
    rewrite Ed. exact IH.
Qed.

Theorem at_most_once : forall c s k ops, NoDup (keys s) -> no_relog k ops ->
  (length (filter (confirmedb k) (concat (snd (run c s ops)))) <= 1)%nat.
Proof.
  intros c s k ops Hnd Hr. rewrite confirmed_concat_about.
  destruct (run_fate c k ops s Hnd) as [R1 _]. rewrite R1. apply fate_at_most_once. exact Hr.
Qed.

Lemma nodup_run : forall c ops s, NoDup (keys s) -> NoDup (keys (fst (run c s ops))).
Proof.
  intros c ops. induction ops as [|o t IH]; intros s H; [exact H|].
  cbn [run fst]. apply IH. apply nodup_step. exact H.
Qed.

(* ================================================================== SAFETY of the re-observation path *)
Lemma log_loop_spec : forall c t ls acc ms, log_loop c t ls acc = Some (Some ms) ->
  forall m, In m ms ->
    In m acc \/
    exists l e, In (Some l) ls /\ l_addr l = c_contract c /\ l_topic0 l = Some evm_lmp_topic /\ l_ev l = Some e /\ m = msg_of c e t.
Proof.
  intros c t ls. induction ls as [|[l|] r IH]; intros acc ms H m Hm.
  - cbn [log_loop] in H. inversion H. subst ms. left. apply in_rev. exact Hm.
  - cbn [log_loop] in H. rewrite reobs_checks_address, reobs_checks_topic in H. cbn [andb] in H.
    destruct (Z.eqb_spec (l_addr l) (c_contract c)) as [Ea|Ea]; cbn [negb] in H.
    + destruct (l_topic0 l) as [t0|] eqn:Et; [|discriminate].
      destruct (Z.eqb_spec t0 evm_lmp_topic) as [Eq|Eq]; cbn [negb] in H.
      * destruct (l_ev l) as [e|] eqn:Ee; [|discriminate].
        destruct (IH _ _ H m Hm) as [Hacc|[l' [e' [H1 H2]]]].
        -- destruct Hacc as [Hacc|Hacc].
           ++ right. exists l, e. subst t0. repeat apply conj; [left; reflexivity|exact Ea|exact Et|exact Ee|symmetry; exact Hacc].
           ++ left. exact Hacc.
        -- right. exists l', e'. split; [right; exact H1|exact H2].
      * destruct (IH _ _ H m Hm) as [Hacc|[l' [e' [H1 H2]]]]; [left; exact Hacc|].
        right. exists l', e'. split; [right; exact H1|exact H2].
    + destruct (IH _ _ H m Hm) as [Hacc|[l' [e' [H1 H2]]]]; [left; exact Hacc|].
      right. exists l', e'. split; [right; exact H1|exact H2].
  - cbn [log_loop] in H. destruct (IH _ _ H m Hm) as [Hacc|[l' [e' [H1 H2]]]]; [left; exact Hacc|].
    right. exists l', e'. split; [right; exact H1|exact H2].
Qed.

Theorem reobserve_safe : forall c hb ha rc bt m,
  In (Reobserved m) (reobserve c hb ha rc bt) ->
  exists hd r t blk l e,
    hb = Some hd /\                                  (* the head that was read BEFORE the receipt *)
    rc = Some r /\ r_status r = 1 /\ bt = Some t /\ r_blk r = Some blk /\
    In (Some l) (r_logs r) /\ l_addr l = c_contract c /\ l_topic0 l = Some evm_lmp_topic /\ l_ev l = Some e /\
    m = msg_of c e t /\
    u64 hd <> 0 /\
    u64 (u64 blk + (if c_wait c then e_cl e else 0)) <= u64 hd.
Proof.
  intros c hb ha rc bt m H. unfold reobserve in H. rewrite reobs_head_first in H.
  destruct hb as [hd|]; [|contradiction].
  destruct (events_for_tx c rc bt) as [| |blk ms] eqn:Ev; [contradiction| |].
  - destruct H as [H|H]; [discriminate H|contradiction].
  - apply in_flat_map in H. destruct H as [m' [Hm' H]].
    rewrite reobs_zero_guard in H. cbn [andb] in H.
    destruct (Z.eqb_spec (u64 hd) 0) as [Ez|Ez]; [contradiction|].
    destruct (evm_reobs_depth_reached _ _) eqn:Ed; [|contradiction].
    destruct H as [H|H]; [|contradiction]. inversion H. subst m'. clear H.
    apply reobs_depth_spec in Ed.
    unfold events_for_tx in Ev. destruct rc as [r|]; [|discriminate].
    rewrite reobs_checks_status in Ev. cbn [andb] in Ev.
    destruct (evm_reobs_status_ok (r_status r)) eqn:Es; cbn [negb] in Ev; [|discriminate].
    apply reobs_status_ok_spec in Es.
    destruct bt as [t|]; [|discriminate].
    destruct (log_loop c t (r_logs r) []) as [[ms'|]|] eqn:El; try discriminate.
    destruct (r_blk r) as [b|] eqn:Eb; [|discriminate].
    inversion Ev. subst blk ms'. clear Ev.
    destruct (log_loop_spec c t (r_logs r) [] ms El m Hm') as [Hacc|[l [e [H1 [H2 [H3 [H4 H5]]]]]]]; [contradiction|].
    exists hd, r, t, b, l, e. subst m. cbn [msg_of m_cl] in Ed.
    repeat apply conj; try reflexivity; assumption.
Qed.

(* the same in unbounded arithmetic *)
Theorem reobserve_safe_math : forall c hb ha rc bt m,
  (forall r blk, rc = Some r -> r_blk r = Some blk -> 0 <= blk /\ blk + 255 < two64) ->
  (forall hd, hb = Some hd -> 0 <= hd < two64) ->
  (forall r l e, rc = Some r -> In (Some l) (r_logs r) -> l_ev l = Some e -> 0 <= e_cl e <= 255) ->
  In (Reobserved m) (reobserve c hb ha rc bt) ->
  exists hd r t blk l e,
    hb = Some hd /\ rc = Some r /\ r_status r = 1 /\ bt = Some t /\ r_blk r = Some blk /\
    In (Some l) (r_logs r) /\ l_addr l = c_contract c /\ l_topic0 l = Some evm_lmp_topic /\ l_ev l = Some e /\
    m = msg_of c e t /\
    blk + (if c_wait c then e_cl e else 0) <= hd.
Proof.
  intros c hb ha rc bt m Hblk Hhd Hcl H. apply reobserve_safe in H.
  destruct H as [hd [r [t [blk [l [e [H1 [H2 [H3 [H4 [H5 [H6 [H7 [H8 [H9 [H10 [H11 H12]]]]]]]]]]]]]]]]].
  exists hd, r, t, blk, l, e. repeat apply conj; try assumption.
  destruct (Hblk r blk H2 H5) as [B1 B2]. specialize (Hhd hd H1). specialize (Hcl r l e H2 H6 H9).
  rewrite (u64_id hd Hhd) in H12. rewrite (u64_id blk) in H12 by lia.
  rewrite u64_id in H12; [exact H12|]. destruct (c_wait c); lia.
Qed.

(* while every observed head is early (too shallow, or a transient failure inside the window) the entry stays pending *)
Theorem still_pending_while_early : forall c s k p ops,
  NoDup (keys s) -> find k s = Some p -> wf_p p -> no_relog k ops -> early_heads c k p ops ->
  find k (fst (run c s ops)) = Some p /\ decisions k (snd (run c s ops)) = [].
Proof.
  intros c s k p ops Hnd Hf Hp Hr He. apply quiet_keeps; [exact Hnd|exact Hf|].
  apply early_quiet; assumption.
Qed.

(* the defect that repo commit 40922fc repaired, on the model with the ORIGINAL order of the tests (abandonment test before
   the depth test, transient errors after the orphan test) *)
Definition ex_key : key := mkKey 1 1 1 1.
Definition ex_pm : pmsg := mkP (mkMsg 1 1600000007 8 1 4 2 1 1 1) 1000.
Definition ex_good : rans := mkAns (Some (1, 1)) ENone.
Lemma original_order_head_jump :
  scan_entry_gen true false true false 1065 ex_good ex_key ex_pm = (false, [Dropped ex_key WTimeout]) /\
  scan_entry_gen false true true false 1065 ex_good ex_key ex_pm = (false, [Looked ex_key; Confirmed ex_key (p_msg ex_pm)]).
Proof. split; vm_compute; reflexivity. Qed.
Lemma original_order_transient_error :
  scan_entry_gen true false true false 1001 (mkAns None EOther) ex_key ex_pm = (false, [Looked ex_key; Dropped ex_key WOrphan]) /\
  scan_entry_gen false true true false 1001 (mkAns None EOther) ex_key ex_pm = (true, [Looked ex_key]).
Proof. split; vm_compute; reflexivity. Qed.

(* ================================================================== the block poller *)
From Coq Require Import Sorted.

Lemma poll_not_newer_spec : forall a b, evm_poll_not_newer a b = true <-> b <= a.
Proof. intros a b. unfold evm_poll_not_newer. apply Z.geb_le. Qed.
Lemma poll_safe_false : evm_poll_safe = false.
Proof. reflexivity. Qed.

Lemma poll_blocks_spec : forall last ans,
  poll_blocks last ans =
  match ans with
  | None => (last, [], true)
  | Some l => if last <? l then (l, [(l, false)], false) else (last, [], false)
  end.
Proof.
  intros last [l|]; [|reflexivity]. unfold poll_blocks. rewrite poll_safe_false.
  destruct (evm_poll_not_newer last l) eqn:E.
  - apply poll_not_newer_spec in E. destruct (Z.ltb_spec last l); [lia|reflexivity].
  - destruct (Z.ltb_spec last l) as [H|H]; [reflexivity|].
    assert (E' : evm_poll_not_newer last l = true) by (apply poll_not_newer_spec; exact H).
    rewrite E' in E. discriminate.
Qed.

(* successive polls publish a strictly increasing sequence of heads, each of them a head the node served in its poll,
   all with Safe = false; lastBlock ends at least as high as every answer *)
Theorem poll_seq_spec : forall answers last,
  last <= fst (poll_seq last answers) /\
  (forall a, In (Some a) answers -> a <= fst (poll_seq last answers)) /\
  StronglySorted Z.lt (map fst (snd (poll_seq last answers))) /\
  Forall (fun h => last < fst h /\ fst h <= fst (poll_seq last answers) /\ In (Some (fst h)) answers /\ snd h = false)
         (snd (poll_seq last answers)).
Proof.
  intros answers. induction answers as [|a t IH]; intros last.
  - cbn [poll_seq fst snd map]. repeat apply conj; [lia|intros a H; contradiction|constructor|constructor].
  - cbn [poll_seq]. rewrite poll_blocks_spec. destruct a as [l|].
    + destruct (Z.ltb_spec last l) as [Hlt|Hge]; cbn [fst snd app map].
      * destruct (IH l) as [I1 [I2 [I3 I4]]]. repeat apply conj.
        -- lia.
        -- intros a [Ha|Ha]; [inversion Ha; subst; exact I1|apply I2; exact Ha].
        -- constructor; [exact I3|]. rewrite Forall_forall in I4. apply Forall_forall. intros x Hx.
           apply in_map_iff in Hx. destruct Hx as [h [Hh1 Hh2]]. subst x. exact (proj1 (I4 h Hh2)).
        -- constructor.
           ++ cbn [fst snd]. repeat apply conj; [exact Hlt|exact I1|left; reflexivity|reflexivity].
           ++ rewrite Forall_forall in I4. apply Forall_forall. intros h Hh. destruct (I4 h Hh) as [J1 [J2 [J3 J4]]].
              repeat apply conj; [lia|exact J2|right; exact J3|exact J4].
      * destruct (IH last) as [I1 [I2 [I3 I4]]]. repeat apply conj.
        -- exact I1.
        -- intros a [Ha|Ha]; [inversion Ha; subst; lia|apply I2; exact Ha].
        -- exact I3.
        -- rewrite Forall_forall in I4. apply Forall_forall. intros h Hh. destruct (I4 h Hh) as [J1 [J2 [J3 J4]]].
           repeat apply conj; [exact J1|exact J2|right; exact J3|exact J4].
    + cbn [fst snd app map]. destruct (IH last) as [I1 [I2 [I3 I4]]]. repeat apply conj.
      * exact I1.
      * intros a [Ha|Ha]; [discriminate Ha|apply I2; exact Ha].
      * exact I3.
      * rewrite Forall_forall in I4. apply Forall_forall. intros h Hh. destruct (I4 h Hh) as [J1 [J2 [J3 J4]]].
        repeat apply conj; [exact J1|exact J2|right; exact J3|exact J4].
Qed.

(* on heads that come from the poller the scan waits for the full consistency level in wait mode *)
Theorem polled_head_expected : forall last answers n sf wait p,
  In (n, sf) (snd (poll_seq last answers)) -> expected_of wait sf p = if wait then m_cl (p_msg p) else 0.
Proof.
  intros last answers n sf wait p H.
  destruct (poll_seq_spec answers last) as [_ [_ [_ F]]]. rewrite Forall_forall in F.
  destruct (F _ H) as [_ [_ [_ Hs]]]. cbn [snd] in Hs. subst sf.
  unfold expected_of. rewrite expected_spec. destruct wait; reflexivity.
Qed.

(* a disabled poller publishes nothing; an enabled one stops at the first successful poll *)
Lemma poll_tick_disabled : forall last answers, poll_tick false last answers = (last, [], false).
Proof. reflexivity. Qed.

(* ================================================================== poller + watcher: end to end *)
Lemma split_first : forall (A : Type) (P : A -> bool) (l : list A),
  (exists x, In x l /\ P x = true) ->
  exists pre x post, l = pre ++ x :: post /\ P x = true /\ forall y, In y pre -> P y = false.
Proof.
  intros A P l. induction l as [|a t IH]; intros [x [Hin Hp]]; [contradiction|].
  destruct (P a) eqn:Ea.
  - exists [], a, t. repeat apply conj; [reflexivity|exact Ea|intros y Hy; contradiction].
  - destruct Hin as [Hin|Hin]; [subst a; rewrite Hp in Ea; discriminate|].
    destruct (IH (ex_intro _ x (conj Hin Hp))) as [pre [x' [post [E1 [E2 E3]]]]].
    exists (a :: pre), x', post. repeat apply conj.
    + rewrite E1. reflexivity.
    + exact E2.
    + intros y [Hy|Hy]; [subst y; exact Ea|apply E3; exact Hy].
Qed.

(* the poller's lastBlock is its first lastBlock or the last head it published *)
Lemma poll_seq_last : forall answers last,
  fst (poll_seq last answers) = last \/ In (fst (poll_seq last answers)) (map fst (snd (poll_seq last answers))).
Proof.
  intros answers. induction answers as [|a t IH]; intros last; [left; reflexivity|].
  cbn [poll_seq]. rewrite poll_blocks_spec. destruct a as [l|].
  - destruct (Z.ltb_spec last l) as [Hlt|Hge]; cbn [fst snd app map].
    + right. destruct (IH l) as [E|E]; [left; symmetry; exact E|right; exact E].
    + apply IH.
  - cbn [fst snd app map]. apply IH.
Qed.

Definition heads_ops (orc : key -> rans) (heads : list (Z * bool)) : list op :=
  map (fun h => OHead (fst h) (snd h) orc) heads.

(* the node's answers to the polls are arbitrary (errors, stale blocks, jumps of any size); as soon as one of them is a new head
   at or beyond height + consistency level, the message - whose receipt stays - has been forwarded exactly once *)
Theorem end_to_end : forall c s k p orc last answers,
  NoDup (keys s) -> find k s = Some p -> wf_p p ->
  orc k = mkAns (Some (1, k_bh k)) ENone ->
  0 <= last -> (forall a, In (Some a) answers -> a < two64) ->
  (exists a, In (Some a) answers /\ last < a /\ p_height p + (if c_wait c then m_cl (p_msg p) else 0) <= a) ->
  let r := run c s (heads_ops orc (snd (poll_seq last answers))) in
  decisions k (snd r) = [Confirmed k (p_msg p)] /\ find k (fst r) = None.
Proof.
  intros c s k p orc last answers Hnd Hf Hp Hgood Hlast Hrange [a [Ha1 [Ha2 Ha3]]] r.
  set (thr := p_height p + (if c_wait c then m_cl (p_msg p) else 0)) in *.
  destruct (poll_seq_spec answers last) as [S1 [S2 [S3 S4]]].
  rewrite Forall_forall in S4.
  (* some published head is deep enough *)
  assert (Hex : exists h, In h (snd (poll_seq last answers)) /\ (thr <=? fst h) = true).
  { destruct (poll_seq_last answers last) as [E|E].
    - specialize (S2 a Ha1). rewrite E in S2. lia.
    - apply in_map_iff in E. destruct E as [h [Eh Hh]]. exists h. split; [exact Hh|].
      apply Z.leb_le. rewrite Eh. specialize (S2 a Ha1). lia. }
  destruct (split_first _ (fun h => thr <=? fst h) _ Hex) as [pre [x [post [E1 [E2 E3]]]]].
  apply Z.leb_le in E2.
  assert (Hin_all : forall h, In h (pre ++ x :: post) -> 0 <= fst h < two64 /\ snd h = false).
  { intros h Hh. rewrite <- E1 in Hh. destruct (S4 h Hh) as [J1 [_ [J3 J4]]]. split; [|exact J4].
    split; [lia|apply Hrange; exact J3]. }
  assert (Hexp : forall sf, sf = false -> expected_of (c_wait c) sf p = if c_wait c then m_cl (p_msg p) else 0).
  { intros sf E. subst sf. unfold expected_of. rewrite expected_spec. destruct (c_wait c); reflexivity. }
  subst r. rewrite E1. unfold heads_ops. rewrite map_app. cbn [map].
  destruct (Hin_all x) as [Hxr Hxs]; [apply in_or_app; right; left; reflexivity|].
  assert (Hrl : forall l, no_relog k (map (fun h : Z * bool => OHead (fst h) (snd h) orc) l)).
  { intros l o Ho. apply in_map_iff in Ho. destruct Ho as [h [Eo _]]. subst o. reflexivity. }
  destruct (forwarded_exactly_once c s k p (map (fun h => OHead (fst h) (snd h) orc) pre) (fst x) (snd x) orc
              (map (fun h => OHead (fst h) (snd h) orc) post) Hnd Hf Hp (Hrl pre) (Hrl post)) as [R1 [_ R3]].
  - intros n safe orc' Hin. apply in_map_iff in Hin. destruct Hin as [h [Eh Hh]]. inversion Eh. subst n safe orc'.
    destruct (Hin_all h) as [Hr Hs]; [apply in_or_app; left; exact Hh|].
    split; [exact Hr|]. left. rewrite (Hexp _ Hs). specialize (E3 h Hh). apply Z.leb_gt in E3. exact E3.
  - exact Hxr.
  - rewrite (Hexp _ Hxs). exact E2.
  - exact Hgood.
  - split; [exact R1|exact R3].
Qed.
