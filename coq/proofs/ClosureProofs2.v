(* Extension X10, part 2.
   The EVM watcher's re-observation path (model/EvmLog.v [xreobserve]: by_transaction.go over raw receipts, watcher.go's depth
      test) as an instance of the watcher oracle of the re-observation loop (model/ReobsLoop.v), with C10's re-observation safety
      theorem as its contract: through the loop the processor handles - hence signs - only EVM messages that are the content of one
      core-contract LogMessagePublished log of a status-1 receipt, deep enough w.r.t. the head read before the receipt.
   (through the loop: proofs/ClosureProofs6.v; agreement: proofs/ClosureProofs5.v) *)
From Coq Require Import List ZArith Lia Bool Arith.
From Coq Require Import Strings.Byte.
From WH Require Import lib.Bytes lib.EvmAbi gen.Extracted gen.ExtractedWiring gen.ExtractedEvmLog model.Vaa model.Processor model.ProcSpec model.System
     model.ReobsLoop model.Closure.
From WH Require model.EvmWatcher model.EvmLog proofs.EvmLogProofs.
Import ListNotations.
Open Scope Z_scope.

Module EW := EvmWatcher.
Module ELP := EvmLogProofs.

(* ================================================================== A. the EVM oracle *)
Lemma evm_chains_are : evm_chains = [2; 4].
Proof. reflexivity. Qed.
Lemma evm_chains_watched : incl evm_chains watched_chains.
Proof. intros c [<-|[<-|[]]]; cbn; tauto. Qed.

(* C10's re-observation statement, for the message as the processor receives it: m is the content of ONE log l of the receipt the
   node served - emitted by the configured core contract, topics = [event id; sender], unpacked by abigen's UnpackLog - out of a
   receipt with status 1, stamped with the time of the receipt's block, and the receipt's block (plus the message's consistency
   level when the watcher waits for confirmations) is not above the head the watcher read BEFORE it asked for the receipt *)
Definition evm_confirmed (c : EL.xcfg) (a : evm_ans) (m : msgpub) : Prop :=
  exists hd r t blk l e,
    ea_hb a = Some hd /\ ea_rc a = Some r /\ EL.xr_status r = 1 /\ ea_bt a = Some t /\ EL.xr_blk r = Some blk /\
    In (Some l) (EL.xr_logs r) /\ EL.rl_addr l = EL.xc_contract c /\ (exists t1, EL.rl_topics l = [EL.evm_abi_lmp_id; t1]) /\
    EL.decode_log l = EL.DOk e /\
    m = evm_pub (ELP.message_of_log (EL.xc_chain c) l t e) /\
    EW.u64 hd <> 0 /\ EW.u64 (EW.u64 blk + (if EL.xc_wait c then x_cl e else 0)) <= EW.u64 hd.

Theorem evm_reobs_contract c a m : In m (evm_reobs_msgs c a) -> evm_confirmed c a m.
Proof.
  unfold evm_reobs_msgs. intros Hin. apply in_flat_map in Hin as (o & Ho & Hm). destruct o; try (destruct Hm; fail). destruct Hm as [<-|[]].
  destruct (ELP.reobserved_is_log_content c _ _ _ _ _ Ho) as (hd & r & t & blk & l & e & A1 & A2 & A3 & A4 & A5 & A6 & A7 & A8 & A9 & A10 & A11 & A12).
  exists hd, r, t, blk, l, e. rewrite A10. repeat apply conj; try assumption; reflexivity.
Qed.

Theorem evm_watch_contract ecfg enode other c r t m : is_evm_chain c = true ->
  In m (evm_watch ecfg enode other c r t) -> evm_confirmed (ecfg c) (enode c r t) m.
Proof. intros Hc. unfold evm_watch. rewrite Hc. apply evm_reobs_contract. Qed.

(* the fields of a re-observed EVM message, as the processor signs them *)
Lemma evm_pub_fields chain l t e : let m := evm_pub (ELP.message_of_log chain l t e) in
  m_tx m = xm_tx (ELP.message_of_log chain l t e) /\ m_echain m = xm_chain (ELP.message_of_log chain l t e) /\
  m_eaddr m = xm_em (ELP.message_of_log chain l t e) /\ m_seq m = xm_seq (ELP.message_of_log chain l t e) /\
  m_payload m = xm_payload (ELP.message_of_log chain l t e) /\ m_cl m = xm_cl (ELP.message_of_log chain l t e) /\ m_tns m = 0.
Proof. cbv zeta. repeat split. Qed.

(* both instances together: the Alephium pipeline for chain 255 takes the EVM oracle as "the other watchers" *)
Lemma evm_not_alph : is_evm_chain alph_chain_id = false.
Proof. reflexivity. Qed.


(* ---------------------------------------------------------------- a computed instance (boundary: exactly deep enough) *)
Definition cx_contract : bytes := be 20 14651161671794117674551848346179720820815891478.
Definition cx_ev : xev := mkXev (be 20 4660) 255 5 1 [x01; x02] 1.
Definition cx_tx : bytes := be 32 777.
Definition cx_log : EL.rawlog := EL.sol_emit cx_contract cx_ev (be 32 888) 1000 cx_tx.
Definition cx_cfg : EL.xcfg := EL.mkXCfg true cx_contract 2.
(* the node: head 1255 before and after, a status-1 receipt in block 1000 with the log (and a nil entry), block time *)
Definition cx_ans : evm_ans :=
  {| ea_hb := Some 1255; ea_ha := Some 1255; ea_rc := Some (EL.mkXRcpt 1 (Some 1000) [None; Some cx_log]); ea_bt := Some 1600000007 |}.
Definition cx_none : evm_ans := {| ea_hb := Some 1255; ea_ha := Some 1255; ea_rc := None; ea_bt := None |}.
Definition cx_node (c : Z) (r : R.req) (t : Z) : evm_ans := if bytes_eqb (R.r_tx r) cx_tx then cx_ans else cx_none.
Definition cx_m : msgpub := evm_pub (ELP.message_of_log 2 cx_log 1600000007 cx_ev).
Lemma ex_evm_oracle :
  evm_reobs_msgs cx_cfg cx_ans = [cx_m] /\
  m_echain cx_m = 2 /\ m_seq cx_m = 5 /\ m_payload cx_m = [x01; x02] /\ m_tx cx_m = cx_tx /\ m_tns cx_m = 0 /\
  (* a receipt that is not yet deep enough (head 1000 < block 1000 + level 1), has status 0, or is missing: nothing *)
  evm_reobs_msgs cx_cfg {| ea_hb := Some 1000; ea_ha := Some 1300; ea_rc := ea_rc cx_ans; ea_bt := ea_bt cx_ans |} = [] /\
  evm_reobs_msgs cx_cfg {| ea_hb := Some 1001; ea_ha := Some 1001; ea_rc := ea_rc cx_ans; ea_bt := ea_bt cx_ans |} = [cx_m] /\
  evm_reobs_msgs cx_cfg {| ea_hb := Some 1255; ea_ha := Some 1255; ea_rc := Some (EL.mkXRcpt 0 (Some 1000) [Some cx_log]); ea_bt := ea_bt cx_ans |} = [] /\
  evm_reobs_msgs cx_cfg cx_none = [].
Proof. vm_compute. repeat split; reflexivity. Qed.
