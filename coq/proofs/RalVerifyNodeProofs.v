(* X11: the fully translated governance.ral parseAndVerifyVAA against the NODE's own acceptance (model.Vaa.verify_sigs = the model of
   VAA.VerifySignatures, tied to the Go code by C06's harness; go_quorum generated from quorum.go): on the bytes of a well-formed VAA,
   with the named guardian set stored as the contract stores it, the contract accepts EXACTLY when the node considers the VAA complete. *)
From Coq Require Import List ZArith Lia Bool Arith.
From Coq Require Import Strings.Byte.
From WH Require Import lib.Bytes lib.Ralph lib.RalphLoop gen.Extracted.
From WH Require Import model.Vaa model.Contracts model.RalVerifyModel proofs.RalVerifyProofs.
Import ListNotations.
Open Scope Z_scope.

Definition keys20 (K : list bytes) : Prop := Forall (fun k => length k = 20%nat) K.

Lemma concat_len20 K : keys20 K -> length (concat K) = (20 * length K)%nat.
Proof. induction 1 as [|k K Hk _ IH]; [reflexivity|]. cbn [concat length]. rewrite app_length, Hk, IH. lia. Qed.

Lemma concat_slot K : keys20 K -> forall i k, nth_error K i = Some k -> slice (concat K) (20 * i) (20 * i + 20) = Some k.
Proof.
  induction 1 as [|k0 K Hk _ IH]; intros i k Hn; [destruct i; discriminate|].
  destruct i as [|i]; cbn [nth_error] in Hn.
  - injection Hn as <-. cbn [concat]. apply slice_head. exact Hk.
  - cbn [concat]. rewrite (slice_skip k0 (concat K) (20 * S i) (20 * S i + 20) 20 Hk) by lia.
    replace (20 * S i - 20)%nat with (20 * i)%nat by lia. replace (20 * S i + 20 - 20)%nat with (20 * i + 20)%nat by lia.
    apply IH. exact Hn.
Qed.

Lemma stored_len K : keys20 K -> length (stored_set K) = (1 + 20 * length K)%nat.
Proof. intros F. unfold stored_set. rewrite app_length, be_length, (concat_len20 K F). reflexivity. Qed.

Lemma stored_slot K gi k : keys20 K -> 0 <= gi -> nth_error K (Z.to_nat gi) = Some k ->
  slice (stored_set K) (Z.to_nat (1 + 20 * gi)) (Z.to_nat (1 + 20 * gi + 20)) = Some k.
Proof.
  intros F Hg Hn. unfold stored_set.
  rewrite (slice_skip (be 1 (Z.of_nat (length K))) (concat K) _ _ 1 (be_length 1 _)) by lia.
  replace (Z.to_nat (1 + 20 * gi) - 1)%nat with (20 * Z.to_nat gi)%nat by lia.
  replace (Z.to_nat (1 + 20 * gi + 20) - 1)%nat with (20 * Z.to_nat gi + 20)%nat by lia.
  apply concat_slot; assumption.
Qed.

Lemma stored_slot_none K gi : keys20 K -> 0 <= gi -> nth_error K (Z.to_nat gi) = None ->
  slice (stored_set K) (Z.to_nat (1 + 20 * gi)) (Z.to_nat (1 + 20 * gi + 20)) = None.
Proof.
  intros F Hg Hn. apply nth_error_None in Hn. unfold slice. rewrite (stored_len K F).
  destruct (Nat.leb_spec (Z.to_nat (1 + 20 * gi + 20)) (1 + 20 * length K)); [lia|]. rewrite andb_false_r. reflexivity.
Qed.

Lemma stored_size K : (length K <= 255)%nat -> set_size (stored_set K) = Some (Z.of_nat (length K)).
Proof.
  intros L. unfold set_size, stored_set. rewrite (slice_head (be 1 (Z.of_nat (length K))) (concat K) 1 (be_length 1 _)).
  rewrite unbe_be_small by (change (256 ^ Z.of_nat 1) with 256; lia). reflexivity.
Qed.

Lemma bytes_eqb_sym a b : bytes_eqb a b = bytes_eqb b a.
Proof. destruct (bytes_eqb_spec a b), (bytes_eqb_spec b a); congruence. Qed.

Section Node.
Variable keccak : bytes -> bytes.
(* the node's recovery (crypto.Ecrecover + Keccak + last 20 bytes on r ++ s ++ v) and the VM's ethEcRecover! *)
Variable recover : bytes -> bytes -> option bytes.
Variable ecrecover : bytes -> bytes -> option bytes.
(* how the two are related: on r ++ s ++ (v + 27) the VM recovers what the node recovers on r ++ s ++ v; where v + 27 does not fit a
   byte (the contract aborts in u256To1Byte!) the node's recovery fails.  Satisfied by ecrecover := GovPipeline.eth_ec_recover rec0,
   recover := Vaa.recover_checked rec0 for any rec0. *)
Hypothesis vm_is_node : forall h sg, length sg = 65%nat ->
  (if unbe (skipn 64 sg) + 27 <? 256 then ecrecover h (firstn 64 sg ++ be 1 (unbe (skipn 64 sg) + 27)) else None) = recover h sg.

Lemma loop_is_node_loop K h : keys20 K -> NoDup K ->
  forall ss last seen, -1 <= last -> Forall wf_sig ss ->
  (forall a, In a seen -> exists j, (Z.of_nat j <= last) /\ nth_error K j = Some a) ->
  verify_loop recover h K last seen ss = recs_ok ecrecover h (stored_set K) last (map (fun s => (s_idx s, s_data s)) ss).
Proof.
  intros F ND. induction ss as [|s ss IH]; intros last seen Hl W Hseen; [reflexivity|].
  inversion W as [|? ? [Hr L65] W']; subst. unfold rng in Hr. change (256 ^ Z.of_nat 1) with 256 in Hr.
  cbn [verify_loop map recs_ok]. unfold rec_ok.
  destruct (slice_tail65 (s_data s) L65) as [E1 _]. rewrite E1.
  rewrite <- (vm_is_node h (s_data s) L65).
  destruct (Z.leb_spec (Z.of_nat (length K)) (s_idx s)) as [Hge|Hlt].
  { (* index outside the set: the node refuses, the contract's key slice is out of range *)
    rewrite (stored_slot_none K (s_idx s) F) by (try apply nth_error_None; lia).
    destruct (last <? s_idx s); [|reflexivity]. destruct (unbe (skipn 64 (s_data s)) + 27 <? 256); reflexivity. }
  destruct (nth_error K (Z.to_nat (s_idx s))) as [k|] eqn:Ek; [|apply nth_error_None in Ek; lia].
  rewrite (stored_slot K (s_idx s) k F) by (assumption || lia).
  rewrite Z.leb_antisym. destruct (Z.ltb_spec last (s_idx s)) as [Hlast|]; [|reflexivity]. cbn [negb andb].
  destruct (unbe (skipn 64 (s_data s)) + 27 <? 256); [|reflexivity]. cbn [andb].
  destruct (ecrecover h (firstn 64 (s_data s) ++ be 1 (unbe (skipn 64 (s_data s)) + 27))) as [a|]; [|reflexivity].
  rewrite (bytes_eqb_sym k a). destruct (bytes_eqb_spec a k) as [->|]; [|reflexivity]. cbn [negb andb].
  (* the recovered key was not seen before: every seen key sits at a smaller index of a duplicate-free set *)
  assert (Hnot : existsb (bytes_eqb k) seen = false).
  { apply not_true_is_false. intros Hex. apply existsb_exists in Hex. destruct Hex as [x [Hin Hx]].
    apply bytes_eqb_eq in Hx. subst x. destruct (Hseen k Hin) as [j [Hj Hnj]].
    assert (j = Z.to_nat (s_idx s)) by (apply (proj1 (NoDup_nth_error K) ND); [apply nth_error_Some; congruence|congruence]). lia. }
  rewrite Hnot. apply IH; [lia|assumption|].
  intros a Ha. apply in_app_or in Ha. destruct Ha as [Ha|[<-|[]]].
  - destruct (Hseen a Ha) as [j [Hj Hnj]]. exists j. split; [lia|assumption].
  - exists (Z.to_nat (s_idx s)). split; [lia|assumption].
Qed.

(* a list that passes the node's loop has no more entries than the set has slots above the last index *)
Lemma node_loop_count K h : forall ss last seen, -1 <= last < Z.of_nat (length K) ->
  verify_loop recover h K last seen ss = true -> Z.of_nat (length ss) <= Z.of_nat (length K) - (last + 1).
Proof.
  induction ss as [|s ss IH]; intros last seen Hl H.
  - cbn [length]. lia.
  - cbn [verify_loop] in H.
    destruct (Z.leb_spec (Z.of_nat (length K)) (s_idx s)); [discriminate|].
    destruct (Z.leb_spec (s_idx s) last); [discriminate|].
    destruct (recover h (s_data s)) as [a|]; [|discriminate].
    destruct (nth_error K (Z.to_nat (s_idx s))) as [k|]; [|discriminate].
    destruct (negb (bytes_eqb a k)); [discriminate|]. destruct (existsb (bytes_eqb a) seen); [discriminate|].
    apply IH in H; [|lia]. cbn [length]. lia.
Qed.

(* THE statement: accepted on chain (with the node's field values) exactly when the node considers the VAA complete *)
Theorem contract_accepts_iff_node_complete s gov v K : wf v -> keys20 K -> NoDup K -> (1 <= length K <= 255)%nat ->
  guardians_for s (gsidx v) = Some (stored_set K) -> (gov = true -> gsidx v = gs_cur_idx s) ->
  ral_source keccak ecrecover s gov (marshal v) =
  if verify_sigs recover keccak v K && (go_quorum (Z.of_nat (length K)) <=? Z.of_nat (length (sigs v)))
  then Some [RZ (echain v); RZ (tchain v); RB (eaddr v); RZ (seq v); RB (payload v)] else None.
Proof.
  intros W F ND LK Hg Hgov. rewrite (ral_source_on_marshal keccak ecrecover s gov v W).
  assert (Eg : gov && negb (gsidx v =? gs_cur_idx s) = false).
  { destruct gov; [|reflexivity]. rewrite (Hgov eq_refl), Z.eqb_refl. reflexivity. }
  rewrite Eg, Hg, (stored_size K) by lia.
  destruct (Z.eqb_spec (Z.of_nat (length K)) 0); [lia|].
  unfold verify_sigs.
  rewrite <- (loop_is_node_loop K (digest keccak v) F ND (sigs v) (-1) [] ltac:(lia) (wf_sigs v W)) by (intros a []).
  destruct (go_quorum (Z.of_nat (length K)) <=? Z.of_nat (length (sigs v))); cbn [negb].
  2:{ rewrite andb_false_r. reflexivity. }
  rewrite andb_true_r.
  destruct (verify_loop recover (digest keccak v) K (-1) [] (sigs v)) eqn:El.
  - pose proof (node_loop_count K (digest keccak v) (sigs v) (-1) [] ltac:(lia) El) as Hc.
    destruct (Nat.ltb_spec (length K) (length (sigs v))); [lia|reflexivity].
  - destruct (length K <? length (sigs v))%nat; reflexivity.
Qed.

End Node.
