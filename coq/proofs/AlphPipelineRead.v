(* The composed Alephium pipeline (model.AlphPipeline): WHAT a handed-over message is (`faithful`), read field by field
   through C11's theorems about the conversions, and the real rejection predicate `unfit`.  This file depends on
   proofs.AlphConvProofs only - on none of the watcher's extracted guards - so that C11 can use it. *)
From Coq Require Import List ZArith Bool Lia Arith.
From Coq Require Import Strings.Byte.
From WH Require Import lib.Bytes gen.Extracted model.Vaa model.AlphPipeline.
From WH Require model.AlphConv model.AlphWatcher proofs.AlphConvProofs.
Import ListNotations.
Open Scope Z_scope.

From Coq Require Strings.String.
Module CP := AlphConvProofs.
(* the type strings of sdk.Val (string literals need String's notation, kept local to this module) *)
Module Ty. Import Coq.Strings.String. Definition bytevec : bytes := C.str "ByteVec". Definition u256 : bytes := C.str "U256". End Ty.

Section Faithful.
Variable c : xcfg.
(* provenance predicates on the node's RAW answers, arbitrary (as in C08) *)
Variable EP : xevent -> Prop.          (* "an event of the configured governance contract, as the node reports it" *)
Variable HP : Z -> W.header -> Prop.   (* "the header of that block" *)
Variable AP : xmc_ans -> Prop.         (* "an answer of the node to the token-metadata multicall" *)

(* an attestation carries what GetTokenInfo made of an answer of the node, and its payload parses to exactly that *)
Definition xattest_ok (w : C.wmsg) (ch : option C.token_info) : Prop :=
  xis_attest w = true -> exists t a, ch = Some t /\ C.parse_attest_token (C.w_payload w) = C.COk t /\ AP a /\ xget_token_info (C.t_id t) a = XTiOk t.


(* THE MESSAGE: exactly the conversion of ONE event's raw fields, handed over as toMessagePublication with the header of
   that event's block, sender = the configured token bridge *)
Definition faithful (f : xfwd) : Prop :=
  EP (xf_ev f) /\ HP (x_block (xf_ev f)) (xf_hdr f) /\
  x_index (xf_ev f) = alph_wm_event_index /\
  C.to_wormhole_message (x_fields (xf_ev f)) (x_txid (xf_ev f)) = C.COk (xf_msg f) /\
  C.w_sender (xf_msg f) = xc_bridge c /\
  xf_pub f = C.to_message_publication (xf_msg f) (W.h_ts (xf_hdr f)) /\
  xattest_ok (xf_msg f) (xf_chain f).

End Faithful.

(* ================================================================== 4. reading a faithful message; attestations *)
(* field by field: the message carries exactly the values the event's raw fields denote, the block timestamp in whole
   seconds (+ the millisecond remainder as nanoseconds), the Alephium chain id and the hash of the event's tx id *)
Theorem faithful_message_fields : forall c EP HP AP f, faithful c EP HP AP f -> 0 <= W.h_ts (xf_hdr f) ->
  let m := xf_pub f in
  exists s0 s1 s2 s3 s4 s5 nonce,
    x_fields (xf_ev f) = [C.VByteVec Ty.bytevec s0; C.VU256 Ty.u256 s1; C.VU256 Ty.u256 s2;
                          C.VByteVec Ty.bytevec s3; C.VByteVec Ty.bytevec s4; C.VU256 Ty.u256 s5] /\
    C.hex_decode s0 = Some (m_eaddr m) /\ length (m_eaddr m) = 32%nat /\ m_eaddr m = xc_bridge c /\
    C.parse_dec s1 = Some (m_tchain m) /\ 0 <= m_tchain m <= 65535 /\
    C.parse_dec s2 = Some (m_seq m) /\ 0 <= m_seq m < 18446744073709551616 /\
    C.hex_decode s3 = Some nonce /\ length nonce = 4%nat /\ m_nonce m = unbe nonce /\
    C.hex_decode s4 = Some (m_payload m) /\
    C.parse_dec s5 = Some (m_cl m) /\ 0 <= m_cl m <= 255 /\
    m_echain m = 255 /\ m_tx m = C.hex_to_hash (x_txid (xf_ev f)) /\
    m_ts m = W.h_ts (xf_hdr f) / 1000 /\ m_tns m = (W.h_ts (xf_hdr f) mod 1000) * 1000000.
Proof.
  intros c EP HP AP f (_ & _ & _ & Cv & Sd & Pb & _) Hts. cbv zeta. rewrite Pb.
  destruct (CP.wm_accepts_only _ _ _ Cv) as (s0 & s1 & s2 & s3 & s4 & s5 & nonce & E & D0 & L0 & P1 & R1 & P2 & R2 & D3 & L3 & EN & D4 & P5 & R5 & ET).
  pose proof (CP.mp_fields (xf_msg f) (W.h_ts (xf_hdr f))) as F. cbv zeta in F. destruct F as (F1 & F2 & F3 & F4 & F5 & F6 & F7 & F8).
  pose proof (CP.mp_time_nonneg (xf_msg f) (W.h_ts (xf_hdr f)) Hts) as Tm. cbv zeta in Tm. destruct Tm as [T1 T2].
  exists s0, s1, s2, s3, s4, s5, nonce. rewrite F1, F2, F3, F4, F5, F6, F7, F8, T1, T2, ET. repeat apply conj; auto; lia.
Qed.

(* on the re-observation path the tx hash of the message is the requested hash itself *)

(* ATTESTATIONS END TO END: a forwarded attest-token message decodes (token id, decimals, symbol, name) to exactly what
   GetTokenInfo made of an answer of the node about that token *)
Theorem forwarded_attestation_equals_chain : forall c EP HP AP f, faithful c EP HP AP f -> xis_attest (xf_msg f) = true ->
  exists t a, C.parse_attest_token (m_payload (xf_pub f)) = C.COk t /\ xf_chain f = Some t /\ AP a /\ xget_token_info (C.t_id t) a = XTiOk t.
Proof.
  intros c EP HP AP f (_ & _ & _ & _ & _ & Pb & At) A. destruct (At A) as (t & a & E1 & E2 & E3 & E4).
  exists t, a. rewrite Pb. pose proof (CP.mp_fields (xf_msg f) (W.h_ts (xf_hdr f))) as F. cbv zeta in F.
  destruct F as (_ & _ & _ & _ & _ & _ & F7 & _). rewrite F7. auto.
Qed.

(* ... composed with the contract side (C11): if the payload is the one token_bridge.ral builds for (id, decimals, symbol, name),
   then the token contract's answer the watcher compared it with is exactly (id, decimals, trimmed symbol, trimmed name) *)
Theorem forwarded_contract_attestation : forall c EP HP AP f id decimals symbol name nonce,
  faithful c EP HP AP f -> xis_attest (xf_msg f) = true ->
  C.attest_payload id go_chain_id_alephium decimals symbol name nonce = Some (m_payload (xf_pub f)) ->
  exists a, AP a /\ xget_token_info id a =
    XTiOk {| C.t_id := id; C.t_decimals := decimals; C.t_symbol := C.bytes_to_string symbol; C.t_name := C.bytes_to_string name |}.
Proof.
  intros c EP HP AP f id decimals symbol name nonce Hf A Hp.
  destruct (forwarded_attestation_equals_chain c EP HP AP f Hf A) as (t & a & E1 & _ & E3 & E4).
  apply CP.attest_payload_inv in Hp as (Ep & Li & Ls & Ln & _ & Hc & Hd).
  rewrite Ep, (CP.parse_attest_payload id go_chain_id_alephium decimals symbol name Li Ls Ln Hc Hd), Z.eqb_refl in E1. injection E1 as <-.
  exists a. auto.
Qed.

(* the REAL rejection predicate: the event index is not the WormholeMessage index, or ToWormholeMessage rejects the fields *)
Definition unfit (e : xevent) : Prop :=
  x_index e <> alph_wm_event_index \/ exists err, C.to_wormhole_message (x_fields e) (x_txid e) = C.CErr err.

Lemma unfit_unconv : forall e, unfit e -> xto_unconfirmed e = None.
Proof.
  intros e [H|[err H]]; unfold xto_unconfirmed, conv.
  - destruct (Z.eqb_spec (x_index e) alph_wm_event_index); [contradiction|reflexivity].
  - rewrite H. destruct (x_index e =? alph_wm_event_index); reflexivity.
Qed.

(* ================================================================== 5. glue with C11's acceptance / rejection theorems *)
(* C11's rejection cases are `unfit`: values outside the ranges (any other fields), wrong field count *)
Lemma rejected_values_unfit : forall e f0 s1 s2 f3 f4 s5,
  x_fields e = [f0; C.VU256 Ty.u256 s1; C.VU256 Ty.u256 s2; f3; f4; C.VU256 Ty.u256 s5] ->
  ~ CP.fits 16 (C.parse_dec s1) \/ ~ CP.fits 64 (C.parse_dec s2) \/ ~ CP.fits 8 (C.parse_dec s5) -> unfit e.
Proof. intros e f0 s1 s2 f3 f4 s5 E H. right. rewrite E. apply CP.wm_rejects. exact H. Qed.

Lemma wrong_count_unfit : forall e, length (x_fields e) <> 6%nat -> unfit e.
Proof.
  intros e H. right. exists C.EFieldCount. unfold C.to_wormhole_message. change go_wm_field_size with 6%nat.
  destruct (Nat.eqb_spec (length (x_fields e)) 6); [contradiction|reflexivity].
Qed.

(* no forwarded message stems from an unfit event *)
Lemma faithful_not_unfit : forall c EP HP AP f, faithful c EP HP AP f -> ~ unfit (xf_ev f).
Proof. intros c EP HP AP f (_ & _ & Hi & Cv & _) [H|[err H]]; [contradiction|]. rewrite Cv in H. discriminate H. Qed.

(* the event as the contract emits it and a node reports it (C11's event_fields): the forwarded message has exactly its values *)
Theorem fitting_event_message : forall c EP HP AP f sender target sequence nonce payload level,
  faithful c EP HP AP f -> x_fields (xf_ev f) = C.event_fields sender target sequence nonce payload level ->
  length sender = 32%nat -> 0 <= target <= 65535 -> 0 <= sequence < 18446744073709551616 -> length nonce = 4%nat -> 0 <= level <= 255 ->
  0 <= W.h_ts (xf_hdr f) ->
  let m := xf_pub f in
  m_eaddr m = sender /\ sender = xc_bridge c /\ m_tchain m = target /\ m_seq m = sequence /\ m_nonce m = unbe nonce /\ m_payload m = payload /\ m_cl m = level /\
  m_echain m = 255 /\ m_tx m = C.hex_to_hash (x_txid (xf_ev f)) /\
  m_ts m = W.h_ts (xf_hdr f) / 1000 /\ m_tns m = (W.h_ts (xf_hdr f) mod 1000) * 1000000.
Proof.
  intros c EP HP AP f sender target sequence nonce payload level (_ & _ & _ & Cv & Sd & Pb & _) E Ls Rt Rs Ln Rl Hts. cbv zeta.
  rewrite E, (CP.wm_decodes sender target sequence nonce payload level (x_txid (xf_ev f)) Ls Rt Rs Ln Rl) in Cv. injection Cv as Cv.
  rewrite Pb. pose proof (CP.mp_fields (xf_msg f) (W.h_ts (xf_hdr f))) as F. cbv zeta in F. destruct F as (F1 & F2 & F3 & F4 & F5 & F6 & F7 & F8).
  pose proof (CP.mp_time_nonneg (xf_msg f) (W.h_ts (xf_hdr f)) Hts) as Tm. cbv zeta in Tm. destruct Tm as [T1 T2].
  rewrite F1, F2, F3, F4, F5, F6, F7, F8, T1, T2, <- Sd, <- Cv. cbn [C.w_sender C.w_target C.w_seq C.w_nonce C.w_payload C.w_cl C.w_txid].
  repeat apply conj; reflexivity.
Qed.
