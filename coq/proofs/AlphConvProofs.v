(* Proofs about model/AlphConv.v (C11). *)
From Coq Require Import Strings.String.
From Coq Require Import List ZArith Lia Bool Arith.
From Coq Require Import Strings.Byte.
From WH Require Import lib.Bytes lib.Digits gen.Extracted model.Vaa model.AlphConv.
Import ListNotations.
Open Scope Z_scope.

(* ------------------------------------------------------------------ small tools *)
Lemma below_check (n : nat) (P : Z -> bool) :
  forallb P (map Z.of_nat (List.seq 0 n)) = true -> forall d, 0 <= d < Z.of_nat n -> P d = true.
Proof.
  intros H d Hd. rewrite forallb_forall in H. apply H.
  apply in_map_iff. exists (Z.to_nat d). split; [lia|]. apply in_seq. lia.
Qed.

Lemma byte_eqb_eq a b : Byte.eqb a b = true <-> a = b.
Proof.
  split; [apply Byte.byte_dec_bl|]. intros ->. apply Byte.byte_dec_lb. reflexivity.
Qed.
Lemma byte_eqb_neq a b : Byte.eqb a b = false <-> a <> b.
Proof.
  split.
  - intros H E. apply byte_eqb_eq in E. congruence.
  - intros H. destruct (Byte.eqb a b) eqn:E; [apply byte_eqb_eq in E; contradiction|reflexivity].
Qed.

Lemma Z_of_byte_inj a b : Z_of_byte a = Z_of_byte b -> a = b.
Proof. intros H. rewrite <- (byte_of_Z_of_byte a), <- (byte_of_Z_of_byte b), H. reflexivity. Qed.

Lemma byte_of_Z_small_inj x y : 0 <= x < 256 -> 0 <= y < 256 -> byte_of_Z x = byte_of_Z y -> x = y.
Proof.
  intros Hx Hy E. apply (f_equal Z_of_byte) in E. rewrite !Z_of_byte_of_Z in E.
  rewrite !Z.mod_small in E by lia. exact E.
Qed.

Lemma pair_ind (P : bytes -> Prop) :
  P [] -> (forall a, P [a]) -> (forall a b t, P t -> P (a :: b :: t)) -> forall l, P l.
Proof.
  intros H0 H1 H2. assert (H : forall l, P l /\ forall a, P (a :: l)).
  { induction l as [|x l [IH1 IH2]]; [split; [exact H0|exact H1]|].
    split; [apply IH2|]. intros a. apply H2. exact IH1. }
  intros l. apply H.
Qed.

(* ------------------------------------------------------------------ hex *)
Lemma hex_val_digit d : 0 <= d < 16 -> hex_val (hex_digit d) = Some d.
Proof.
  intros Hd.
  assert (H := below_check 16 (fun d => match hex_val (hex_digit d) with Some x => x =? d | None => false end) eq_refl d Hd).
  cbn beta in H. destruct (hex_val (hex_digit d)) as [x|]; [|discriminate]. apply Z.eqb_eq in H. subst. reflexivity.
Qed.

Lemma hex_decode_go_cons2 a c t : hex_decode_go (a :: c :: t) =
  match hex_val a, hex_val c with
  | Some x, Some y => let '(r, ok) := hex_decode_go t in (byte_of_Z (16 * x + y) :: r, ok)
  | _, _ => ([], false)
  end.
Proof. reflexivity. Qed.

Lemma hex_decode_go_encode b : hex_decode_go (hex_encode b) = (b, true).
Proof.
  induction b as [|c b IH]; [reflexivity|].
  unfold hex_encode. cbn [flat_map]. unfold hex_byte at 1. cbn [app].
  change (flat_map hex_byte b) with (hex_encode b).
  pose proof (Z_of_byte_range c) as Hc.
  rewrite hex_decode_go_cons2.
  rewrite (hex_val_digit (Z_of_byte c / 16)) by (split; [apply Z.div_pos; lia|apply Z.div_lt_upper_bound; lia]).
  rewrite (hex_val_digit (Z_of_byte c mod 16)) by (apply Z.mod_pos_bound; lia).
  rewrite IH. f_equal. f_equal.
  rewrite <- (Z.div_mod (Z_of_byte c) 16) by lia. apply byte_of_Z_of_byte.
Qed.

Lemma hex_decode_encode b : hex_decode (hex_encode b) = Some b.
Proof. unfold hex_decode. rewrite hex_decode_go_encode. reflexivity. Qed.

Lemma hex_encode_length b : length (hex_encode b) = (length b * 2)%nat.
Proof. induction b as [|c b IH]; [reflexivity|]. unfold hex_encode in *. cbn [flat_map hex_byte app length]. rewrite IH. lia. Qed.

(* lower-case hex digits *)
Definition is_lower_hex (c : byte) : bool :=
  let x := Z_of_byte c in ((48 <=? x) && (x <=? 57)) || ((97 <=? x) && (x <=? 102)).

Lemma hex_val_range c x : hex_val c = Some x -> 0 <= x < 16.
Proof.
  unfold hex_val. intros H.
  destruct ((48 <=? Z_of_byte c) && (Z_of_byte c <=? 57)) eqn:E1; [inversion H; lia|].
  destruct ((97 <=? Z_of_byte c) && (Z_of_byte c <=? 102)) eqn:E2; [inversion H; lia|].
  destruct ((65 <=? Z_of_byte c) && (Z_of_byte c <=? 70)) eqn:E3; [inversion H; lia|discriminate].
Qed.

Lemma hex_digit_val_lower c x : is_lower_hex c = true -> hex_val c = Some x -> hex_digit x = c.
Proof.
  unfold is_lower_hex, hex_val, hex_digit. intros L H.
  destruct ((48 <=? Z_of_byte c) && (Z_of_byte c <=? 57)) eqn:E1.
  - inversion H; subst. destruct (Z.ltb_spec (Z_of_byte c - 48) 10); [|lia].
    replace (48 + (Z_of_byte c - 48)) with (Z_of_byte c) by lia. apply byte_of_Z_of_byte.
  - cbn [orb] in L. rewrite L in H. inversion H; subst.
    destruct (Z.ltb_spec (Z_of_byte c - 87) 10); [lia|].
    replace (87 + (Z_of_byte c - 87)) with (Z_of_byte c) by lia. apply byte_of_Z_of_byte.
Qed.

Lemma hex_decode_go_ok_inv : forall s b, hex_decode_go s = (b, true) ->
  length s = (length b * 2)%nat /\ (forallb is_lower_hex s = true -> hex_encode b = s).
Proof.
  intros s. induction s as [| a | a c t IH] using pair_ind; intros b H.
  - inversion H. split; [reflexivity|]. reflexivity.
  - discriminate.
  - rewrite hex_decode_go_cons2 in H.
    destruct (hex_val a) as [x|] eqn:Ea; [|discriminate].
    destruct (hex_val c) as [y|] eqn:Ec; [|discriminate].
    destruct (hex_decode_go t) as [r ok] eqn:Et. inversion H; subst.
    destruct (IH r eq_refl) as [IHl IHe]. split; [cbn [length]; lia|].
    intros L. cbn [forallb] in L. apply andb_prop in L as [La L]. apply andb_prop in L as [Lc Lt].
    pose proof (hex_val_range _ _ Ea) as Hx. pose proof (hex_val_range _ _ Ec) as Hy.
    unfold hex_encode. cbn [flat_map]. change (flat_map hex_byte r) with (hex_encode r). rewrite (IHe Lt).
    unfold hex_byte. rewrite Z_of_byte_of_Z. rewrite (Z.mod_small (16 * x + y) 256) by lia.
    replace ((16 * x + y) / 16) with x by (rewrite Z.mul_comm, Z.div_add_l by lia; rewrite (Z.div_small y 16) by lia; lia).
    replace ((16 * x + y) mod 16) with y by (rewrite Z.add_comm, Z.mul_comm, Z.mod_add by lia; symmetry; apply Z.mod_small; lia).
    rewrite (hex_digit_val_lower a x La Ea), (hex_digit_val_lower c y Lc Ec). reflexivity.
Qed.

Lemma hex_decode_inv s b : hex_decode s = Some b ->
  length s = (length b * 2)%nat /\ (forallb is_lower_hex s = true -> hex_encode b = s).
Proof.
  unfold hex_decode. destruct (hex_decode_go s) as [r ok] eqn:E. destruct ok; [|discriminate].
  intros H; inversion H; subst. apply hex_decode_go_ok_inv. exact E.
Qed.

Lemma hex_to_byte32_to_hex b : length b = 32%nat -> hex_to_byte32 (to_hex b) = COk b.
Proof.
  intros L. unfold hex_to_byte32, hex_to_fixed, to_hex. rewrite hex_encode_length, L.
  change ((32 * 2 =? go_hash_length * 2)%nat) with true. cbn [negb]. rewrite hex_decode_encode. reflexivity.
Qed.

Lemma hex_to_fixed_inv s n b : hex_to_fixed s n = COk b ->
  hex_decode s = Some b /\ length b = n /\ length s = (n * 2)%nat.
Proof.
  unfold hex_to_fixed. destruct (Nat.eqb_spec (length s) (n * 2)) as [L|L]; cbn [negb]; [|discriminate].
  destruct (hex_decode s) as [r|] eqn:E; [|discriminate]. intros H; inversion H; subst.
  split; [reflexivity|]. apply hex_decode_inv in E as [E _]. lia.
Qed.

Lemma to_hex_hex_to_byte32 s b : hex_to_byte32 s = COk b -> forallb is_lower_hex s = true -> to_hex b = s /\ length b = 32%nat.
Proof.
  intros H L. apply hex_to_fixed_inv in H as (E & Lb & _). split; [|exact Lb].
  apply hex_decode_inv in E as [_ E]. apply E. exact L.
Qed.

(* ------------------------------------------------------------------ decimal strings *)
Lemma base_10 : go_u256_base = 10.
Proof. reflexivity. Qed.

Lemma digit_char_props d : 0 <= d < 10 ->
  let c := byte_of_Z (48 + d) in
  is_digit c = true /\ digit_val c = d /\ Byte.eqb c "-"%byte = false /\ Byte.eqb c "+"%byte = false.
Proof.
  intros Hd.
  assert (H := below_check 10 (fun d => let c := byte_of_Z (48 + d) in
     is_digit c && (digit_val c =? d) && negb (Byte.eqb c "-"%byte) && negb (Byte.eqb c "+"%byte)) eq_refl d Hd).
  cbn beta zeta in H. apply andb_prop in H as [H H4]. apply andb_prop in H as [H H3]. apply andb_prop in H as [H1 H2].
  cbn zeta. rewrite H1. apply Z.eqb_eq in H2. rewrite H2.
  apply negb_true_iff in H3. apply negb_true_iff in H4. auto.
Qed.

Lemma dec_digits n : 0 <= n -> exists d t,
  to_digits 10 n = d :: t /\ Forall (fun d => 0 <= d < 10) (d :: t) /\ undigits 10 (d :: t) = n.
Proof.
  intros Hn. destruct (to_digits_spec 10 ltac:(lia) n Hn) as (Hu & Hf & d & t & Hd & _).
  exists d, t. rewrite <- Hd. auto.
Qed.

Lemma parse_dec_dec n : 0 <= n -> parse_dec (dec n) = Some n.
Proof.
  intros Hn. destruct (dec_digits n Hn) as (d & t & Hd & Hf & Hu).
  unfold dec. rewrite Hd. cbn [map].
  inversion Hf as [|? ? Hd0 Hft]; subst.
  destruct (digit_char_props d Hd0) as (D1 & D2 & D3 & D4). cbn zeta in *.
  unfold parse_dec. rewrite D3, D4.
  assert (Hall : forall l, Forall (fun d => 0 <= d < 10) l ->
            forallb is_digit (map (fun d => byte_of_Z (48 + d)) l) = true /\
            map digit_val (map (fun d => byte_of_Z (48 + d)) l) = l).
  { induction l as [|x l IH]; intros F; [split; reflexivity|]. inversion F as [|? ? Hx Fl]; subst.
    destruct (digit_char_props x Hx) as (X1 & X2 & _). cbn zeta in *. destruct (IH Fl) as [I1 I2].
    cbn [map forallb]. rewrite X1, I1, X2, I2. split; reflexivity. }
  destruct (Hall (d :: t) Hf) as [A1 A2]. cbn [map] in A1, A2.
  rewrite A1. unfold dec_val. cbn [map]. rewrite A2, base_10, Hu. reflexivity.
Qed.

(* ------------------------------------------------------------------ field accessors on what a node reports *)
Lemma to_bytevec_vbytes b : to_bytevec (vbytes b) = COk b.
Proof. unfold to_bytevec, vbytes. rewrite bytes_eqb_refl. cbn [negb]. rewrite hex_decode_encode. reflexivity. Qed.

Lemma to_u256_vu256 n : 0 <= n -> to_u256 (vu256 n) = COk n.
Proof. intros Hn. unfold to_u256, vu256. rewrite bytes_eqb_refl. cbn [negb]. rewrite parse_dec_dec by exact Hn. reflexivity. Qed.

Lemma big_uint64_small x : 0 <= x < 18446744073709551616 -> big_uint64 x = x.
Proof. intros H. unfold big_uint64. rewrite Z.abs_eq by lia. apply Z.mod_small. exact H. Qed.

(* exact characterisation of the three narrowing conversions (the range tests are the generated ones) *)
Lemma uint8_test_spec v : go_uint8_test v = true <-> 0 <= v <= 255.
Proof. unfold go_uint8_test. rewrite andb_true_iff. lia. Qed.
Lemma uint16_test_spec v : go_uint16_test v = true <-> 0 <= v <= 65535.
Proof. unfold go_uint16_test. rewrite andb_true_iff. lia. Qed.

Lemma to_uint8_ok f x : to_uint8 f = COk x <-> exists v, to_u256 f = COk v /\ v = x /\ 0 <= x <= 255.
Proof.
  unfold to_uint8. destruct (to_u256 f) as [v|e]; [|split; [discriminate|intros (v & H & _); discriminate]].
  destruct (go_uint8_test v) eqn:T.
  - apply uint8_test_spec in T. rewrite big_uint64_small by lia. rewrite Z.mod_small by lia.
    split; [intros H; inversion H; subst; exists x; auto|intros (v' & H & -> & _); inversion H; reflexivity].
  - split; [discriminate|]. intros (v' & H & -> & R). inversion H; subst.
    apply uint8_test_spec in R. congruence.
Qed.
Lemma to_uint16_ok f x : to_uint16 f = COk x <-> exists v, to_u256 f = COk v /\ v = x /\ 0 <= x <= 65535.
Proof.
  unfold to_uint16. destruct (to_u256 f) as [v|e]; [|split; [discriminate|intros (v & H & _); discriminate]].
  destruct (go_uint16_test v) eqn:T.
  - apply uint16_test_spec in T. rewrite big_uint64_small by lia. rewrite Z.mod_small by lia.
    split; [intros H; inversion H; subst; exists x; auto|intros (v' & H & -> & _); inversion H; reflexivity].
  - split; [discriminate|]. intros (v' & H & -> & R). inversion H; subst.
    apply uint16_test_spec in R. congruence.
Qed.
Lemma to_uint64_ok f x : to_uint64 f = COk x <-> exists v, to_u256 f = COk v /\ v = x /\ 0 <= x < 18446744073709551616.
Proof.
  unfold to_uint64. destruct (to_u256 f) as [v|e]; [|split; [discriminate|intros (v & H & _); discriminate]].
  destruct ((0 <=? v) && (v <? 18446744073709551616)) eqn:T.
  - apply andb_prop in T as [T1 T2]. rewrite big_uint64_small by lia.
    split; [intros H; inversion H; subst; exists x; split; [reflexivity|split; [reflexivity|lia]]|intros (v' & H & -> & _); inversion H; reflexivity].
  - split; [discriminate|]. intros (v' & H & -> & R). inversion H; subst.
    apply andb_false_iff in T. lia.
Qed.

Lemma to_u256_ok f x : to_u256 f = COk x <-> exists s, f = VU256 (str "U256") s /\ parse_dec s = Some x.
Proof.
  unfold to_u256. destruct f as [| |ty v|ty v]; try (split; [discriminate|intros (s & H & _); discriminate]).
  destruct (bytes_eqb_spec ty (str "U256")) as [->|N]; cbn [negb].
  - destruct (parse_dec v) as [y|] eqn:E.
    + split; [intros H; inversion H; subst; exists v; auto|intros (s & H & P); inversion H; subst; congruence].
    + split; [discriminate|intros (s & H & P); inversion H; subst; congruence].
  - split; [discriminate|intros (s & H & _); inversion H; subst; contradiction].
Qed.

Lemma to_bytevec_ok f b : to_bytevec f = COk b <-> exists s, f = VByteVec (str "ByteVec") s /\ hex_decode s = Some b.
Proof.
  unfold to_bytevec. destruct f as [| |ty v|ty v]; try (split; [discriminate|intros (s & H & _); discriminate]).
  destruct (bytes_eqb_spec ty (str "ByteVec")) as [->|N]; cbn [negb].
  - destruct (hex_decode v) as [y|] eqn:E.
    + split; [intros H; inversion H; subst; exists v; auto|intros (s & H & P); inversion H; subst; congruence].
    + split; [discriminate|intros (s & H & P); inversion H; subst; congruence].
  - split; [discriminate|intros (s & H & _); inversion H; subst; contradiction].
Qed.

(* ------------------------------------------------------------------ ToWormholeMessage *)
Lemma event_fields_eq sender target sequence nonce payload level :
  event_fields sender target sequence nonce payload level =
  [vbytes sender; vu256 target; vu256 sequence; vbytes nonce; vbytes payload; vu256 level].
Proof. reflexivity. Qed.

Lemma wm_decodes sender target sequence nonce payload level txid :
  length sender = 32%nat -> 0 <= target <= 65535 -> 0 <= sequence < 18446744073709551616 ->
  length nonce = 4%nat -> 0 <= level <= 255 ->
  to_wormhole_message (event_fields sender target sequence nonce payload level) txid =
  COk {| w_txid := txid; w_sender := sender; w_target := target; w_nonce := unbe nonce; w_payload := payload;
         w_seq := sequence; w_cl := level |}.
Proof.
  intros Ls Ht Hs Ln Hl. rewrite event_fields_eq. unfold to_wormhole_message.
  change (length [vbytes sender; vu256 target; vu256 sequence; vbytes nonce; vbytes payload; vu256 level] =? go_wm_field_size)%nat with true.
  cbn [negb].
  change (fld [vbytes sender; vu256 target; vu256 sequence; vbytes nonce; vbytes payload; vu256 level] go_wm_idx_sender) with (vbytes sender).
  change (fld [vbytes sender; vu256 target; vu256 sequence; vbytes nonce; vbytes payload; vu256 level] go_wm_idx_target) with (vu256 target).
  change (fld [vbytes sender; vu256 target; vu256 sequence; vbytes nonce; vbytes payload; vu256 level] go_wm_idx_seq) with (vu256 sequence).
  change (fld [vbytes sender; vu256 target; vu256 sequence; vbytes nonce; vbytes payload; vu256 level] go_wm_idx_nonce) with (vbytes nonce).
  change (fld [vbytes sender; vu256 target; vu256 sequence; vbytes nonce; vbytes payload; vu256 level] go_wm_idx_payload) with (vbytes payload).
  change (fld [vbytes sender; vu256 target; vu256 sequence; vbytes nonce; vbytes payload; vu256 level] go_wm_idx_cl) with (vu256 level).
  unfold to_byte32. rewrite !to_bytevec_vbytes, Ls, Ln.
  change (32 =? go_byte32_len)%nat with true. change (4 =? go_wm_nonce_len)%nat with true. cbn [negb].
  assert (E16 : to_uint16 (vu256 target) = COk target).
  { apply to_uint16_ok. exists target. split; [apply to_u256_vu256; lia|auto]. }
  assert (E64 : to_uint64 (vu256 sequence) = COk sequence).
  { apply to_uint64_ok. exists sequence. split; [apply to_u256_vu256; lia|auto]. }
  assert (E8 : to_uint8 (vu256 level) = COk level).
  { apply to_uint8_ok. exists level. split; [apply to_u256_vu256; lia|auto]. }
  rewrite E16, E64, E8. reflexivity.
Qed.

(* what a decimal / hex string denotes *)
Definition fits (bits : Z) (o : option Z) : Prop := match o with Some v => 0 <= v < 2 ^ bits | None => False end.

Lemma wm_accepts_only fields txid m : to_wormhole_message fields txid = COk m ->
  exists s0 s1 s2 s3 s4 s5 nonce,
    fields = [VByteVec (str "ByteVec") s0; VU256 (str "U256") s1; VU256 (str "U256") s2;
              VByteVec (str "ByteVec") s3; VByteVec (str "ByteVec") s4; VU256 (str "U256") s5] /\
    hex_decode s0 = Some (w_sender m) /\ length (w_sender m) = 32%nat /\
    parse_dec s1 = Some (w_target m) /\ 0 <= w_target m <= 65535 /\
    parse_dec s2 = Some (w_seq m) /\ 0 <= w_seq m < 18446744073709551616 /\
    hex_decode s3 = Some nonce /\ length nonce = 4%nat /\ w_nonce m = unbe nonce /\
    hex_decode s4 = Some (w_payload m) /\
    parse_dec s5 = Some (w_cl m) /\ 0 <= w_cl m <= 255 /\
    w_txid m = txid.
Proof.
  unfold to_wormhole_message. intros H.
  destruct (Nat.eqb_spec (length fields) go_wm_field_size) as [L|L]; cbn [negb] in H; [|discriminate].
  destruct fields as [|f0 [|f1 [|f2 [|f3 [|f4 [|f5 [|f6 rest]]]]]]]; try discriminate L.
  change (fld [f0; f1; f2; f3; f4; f5] go_wm_idx_sender) with f0 in H.
  change (fld [f0; f1; f2; f3; f4; f5] go_wm_idx_target) with f1 in H.
  change (fld [f0; f1; f2; f3; f4; f5] go_wm_idx_seq) with f2 in H.
  change (fld [f0; f1; f2; f3; f4; f5] go_wm_idx_nonce) with f3 in H.
  change (fld [f0; f1; f2; f3; f4; f5] go_wm_idx_payload) with f4 in H.
  change (fld [f0; f1; f2; f3; f4; f5] go_wm_idx_cl) with f5 in H.
  unfold to_byte32 in H.
  destruct (to_bytevec f0) as [emitter|] eqn:E0; [|discriminate].
  destruct (Nat.eqb_spec (length emitter) go_byte32_len) as [L0|L0]; cbn [negb] in H; [|discriminate].
  destruct (to_uint16 f1) as [target|] eqn:E1; [|discriminate].
  destruct (to_uint64 f2) as [sequence|] eqn:E2; [|discriminate].
  destruct (to_bytevec f3) as [nonce|] eqn:E3; [|discriminate].
  destruct (Nat.eqb_spec (length nonce) go_wm_nonce_len) as [L3|L3]; cbn [negb] in H; [|discriminate].
  destruct (to_bytevec f4) as [payload|] eqn:E4; [|discriminate].
  destruct (to_uint8 f5) as [level|] eqn:E5; [|discriminate].
  inversion H; subst m; clear H. cbn [w_txid w_sender w_target w_nonce w_payload w_seq w_cl].
  apply to_bytevec_ok in E0 as (s0 & -> & D0). apply to_bytevec_ok in E3 as (s3 & -> & D3). apply to_bytevec_ok in E4 as (s4 & -> & D4).
  apply to_uint16_ok in E1 as (v1 & U1 & -> & R1). apply to_u256_ok in U1 as (s1 & -> & P1).
  apply to_uint64_ok in E2 as (v2 & U2 & -> & R2). apply to_u256_ok in U2 as (s2 & -> & P2).
  apply to_uint8_ok in E5 as (v5 & U5 & -> & R5). apply to_u256_ok in U5 as (s5 & -> & P5).
  exists s0, s1, s2, s3, s4, s5, nonce. repeat apply conj; auto; lia.
Qed.

Lemma wm_rejects f0 s1 s2 f3 f4 s5 txid :
  ~ fits 16 (parse_dec s1) \/ ~ fits 64 (parse_dec s2) \/ ~ fits 8 (parse_dec s5) ->
  exists e, to_wormhole_message [f0; VU256 (str "U256") s1; VU256 (str "U256") s2; f3; f4; VU256 (str "U256") s5] txid = CErr e.
Proof.
  intros H.
  destruct (to_wormhole_message [f0; VU256 (str "U256") s1; VU256 (str "U256") s2; f3; f4; VU256 (str "U256") s5] txid) as [m|e] eqn:E;
    [|exists e; reflexivity].
  exfalso. apply wm_accepts_only in E as (t0 & t1 & t2 & t3 & t4 & t5 & nonce & F & _ & _ & P1 & R1 & P2 & R2 & _ & _ & _ & _ & P5 & R5 & _).
  inversion F; subst.
  destruct H as [H|[H|H]]; apply H; [rewrite P1|rewrite P2|rewrite P5]; cbn [fits]; lia.
Qed.
