(* Proofs about model/AlphConv.v (C11). *)
From Coq Require Import Strings.String.
From Coq Require Import List ZArith Lia Bool Arith.
From Coq Require Import Strings.Byte.
From WH Require Import lib.Bytes lib.Digits gen.Extracted model.Vaa model.AlphConv.
Import ListNotations.
Open Scope Z_scope.

(* ------------------------------------------------------------------ small tools *)
Lemma below_check (n : nat) (P : Z -> bool) :
  forallb P (map Z.of_nat (List.seq 0 n)) = true -> forall d, 0 <= d < Z.of_nat n -> P d = true.
Proof.
  intros H d Hd. rewrite forallb_forall in H. apply H.
  apply in_map_iff. exists (Z.to_nat d). split; [lia|]. apply in_seq. lia.
Qed.

Lemma byte_eqb_eq a b : Byte.eqb a b = true <-> a = b.
Proof.
  split; [apply Byte.byte_dec_bl|]. intros ->. apply Byte.byte_dec_lb. reflexivity.
Qed.
Lemma byte_eqb_neq a b : Byte.eqb a b = false <-> a <> b.
Proof.
  split.
  - intros H E. apply byte_eqb_eq in E. congruence.
  - intros H. destruct (Byte.eqb a b) eqn:E; [apply byte_eqb_eq in E; contradiction|reflexivity].
Qed.

Lemma Z_of_byte_inj a b : Z_of_byte a = Z_of_byte b -> a = b.
Proof. intros H. rewrite <- (byte_of_Z_of_byte a), <- (byte_of_Z_of_byte b), H. reflexivity. Qed.

Lemma byte_of_Z_small_inj x y : 0 <= x < 256 -> 0 <= y < 256 -> byte_of_Z x = byte_of_Z y -> x = y.
Proof.
  intros Hx Hy E. apply (f_equal Z_of_byte) in E. rewrite !Z_of_byte_of_Z in E.
  rewrite !Z.mod_small in E by lia. exact E.
Qed.

Lemma pair_ind (P : bytes -> Prop) :
  P [] -> (forall a, P [a]) -> (forall a b t, P t -> P (a :: b :: t)) -> forall l, P l.
Proof.
  intros H0 H1 H2. assert (H : forall l, P l /\ forall a, P (a :: l)).
  { induction l as [|x l [IH1 IH2]]; [split; [exact H0|exact H1]|].
    split; [apply IH2|]. intros a. apply H2. exact IH1. }
  intros l. apply H.
Qed.

(* ------------------------------------------------------------------ hex *)
Lemma hex_val_digit d : 0 <= d < 16 -> hex_val (hex_digit d) = Some d.
Proof.
  intros Hd.
  assert (H := below_check 16 (fun d => match hex_val (hex_digit d) with Some x => x =? d | None => false end) eq_refl d Hd).
  cbn beta in H. destruct (hex_val (hex_digit d)) as [x|]; [|discriminate]. apply Z.eqb_eq in H. subst. reflexivity.
Qed.

Definition hexpair (x y : Z) : Z := 16 * x + y.
Lemma hex_decode_go_cons2 a c t : hex_decode_go (a :: c :: t) =
  match hex_val a, hex_val c with
  | Some x, Some y => let '(r, ok) := hex_decode_go t in (byte_of_Z (hexpair x y) :: r, ok)
  | _, _ => ([], false)
  end.
Proof. reflexivity. Qed.
Lemma hex_byte_pair x y : 0 <= x < 16 -> 0 <= y < 16 -> hex_byte (byte_of_Z (hexpair x y)) = [hex_digit x; hex_digit y].
Proof.
  intros Hx Hy. unfold hex_byte. cbv zeta. rewrite Z_of_byte_of_Z. unfold hexpair. rewrite (Z.mod_small (16 * x + y) 256) by lia.
  replace ((16 * x + y) / 16) with x by (rewrite Z.mul_comm, Z.div_add_l by lia; rewrite (Z.div_small y 16) by lia; lia).
  replace ((16 * x + y) mod 16) with y by (rewrite Z.add_comm, Z.mul_comm, Z.mod_add by lia; symmetry; apply Z.mod_small; lia).
  reflexivity.
Qed.
Global Opaque hexpair.

Lemma hex_decode_go_encode b : hex_decode_go (hex_encode b) = (b, true).
Proof.
  induction b as [|c b IH]; [reflexivity|].
  unfold hex_encode. cbn [flat_map]. unfold hex_byte at 1. cbn [app].
  change (flat_map hex_byte b) with (hex_encode b).
  pose proof (Z_of_byte_range c) as Hc.
  rewrite hex_decode_go_cons2.
  rewrite (hex_val_digit (Z_of_byte c / 16)) by (split; [apply Z.div_pos; lia|apply Z.div_lt_upper_bound; lia]).
  rewrite (hex_val_digit (Z_of_byte c mod 16)) by (apply Z.mod_pos_bound; lia).
  rewrite IH. f_equal. f_equal. Transparent hexpair. unfold hexpair. Opaque hexpair.
  rewrite <- (Z.div_mod (Z_of_byte c) 16) by lia. apply byte_of_Z_of_byte.
Qed.

Lemma hex_decode_encode b : hex_decode (hex_encode b) = Some b.
Proof. unfold hex_decode. rewrite hex_decode_go_encode. reflexivity. Qed.

Lemma hex_encode_length b : length (hex_encode b) = (length b * 2)%nat.
Proof. induction b as [|c b IH]; [reflexivity|]. unfold hex_encode in *. cbn [flat_map hex_byte app length]. rewrite IH. lia. Qed.

(* lower-case hex digits *)
Definition is_lower_hex (c : byte) : bool :=
  let x := Z_of_byte c in ((48 <=? x) && (x <=? 57)) || ((97 <=? x) && (x <=? 102)).

Lemma hex_val_range c x : hex_val c = Some x -> 0 <= x < 16.
Proof.
  unfold hex_val. intros H.
  destruct ((48 <=? Z_of_byte c) && (Z_of_byte c <=? 57)) eqn:E1; [inversion H; lia|].
  destruct ((97 <=? Z_of_byte c) && (Z_of_byte c <=? 102)) eqn:E2; [inversion H; lia|].
  destruct ((65 <=? Z_of_byte c) && (Z_of_byte c <=? 70)) eqn:E3; [inversion H; lia|discriminate].
Qed.

Lemma hex_digit_val_lower c x : is_lower_hex c = true -> hex_val c = Some x -> hex_digit x = c.
Proof.
  unfold is_lower_hex, hex_val, hex_digit. intros L H.
  destruct ((48 <=? Z_of_byte c) && (Z_of_byte c <=? 57)) eqn:E1.
  - inversion H; subst. destruct (Z.ltb_spec (Z_of_byte c - 48) 10); [|lia].
    replace (48 + (Z_of_byte c - 48)) with (Z_of_byte c) by lia. apply byte_of_Z_of_byte.
  - cbn [orb] in L. rewrite L in H. inversion H; subst.
    destruct (Z.ltb_spec (Z_of_byte c - 87) 10); [lia|].
    replace (87 + (Z_of_byte c - 87)) with (Z_of_byte c) by lia. apply byte_of_Z_of_byte.
Qed.

Lemma hex_decode_go_ok_inv : forall s b, hex_decode_go s = (b, true) ->
  length s = (length b * 2)%nat /\ (forallb is_lower_hex s = true -> hex_encode b = s).
Proof.
  intros s. induction s as [| a | a c t IH] using pair_ind; intros b H.
  - inversion H. split; [reflexivity|]. reflexivity.
  - discriminate.
  - rewrite hex_decode_go_cons2 in H.
    destruct (hex_val a) as [x|] eqn:Ea; [|discriminate].
    destruct (hex_val c) as [y|] eqn:Ec; [|discriminate].
    destruct (hex_decode_go t) as [r ok] eqn:Et. injection H as Hb Hok. subst b ok.
    destruct (IH r eq_refl) as [IHl IHe]. split; [cbn [length]; lia|].
    intros L. cbn [forallb] in L. apply andb_prop in L as [La L]. apply andb_prop in L as [Lc Lt].
    pose proof (hex_val_range _ _ Ea) as Hx. pose proof (hex_val_range _ _ Ec) as Hy.
    unfold hex_encode. cbn [flat_map]. change (flat_map hex_byte r) with (hex_encode r). rewrite (IHe Lt).
    rewrite (hex_byte_pair x y Hx Hy). cbn [app].
    rewrite (hex_digit_val_lower a x La Ea), (hex_digit_val_lower c y Lc Ec). reflexivity.
Qed.

Lemma hex_decode_inv s b : hex_decode s = Some b ->
  length s = (length b * 2)%nat /\ (forallb is_lower_hex s = true -> hex_encode b = s).
Proof.
  unfold hex_decode. destruct (hex_decode_go s) as [r ok] eqn:E. destruct ok; [|discriminate].
  intros H; inversion H; subst. apply hex_decode_go_ok_inv. exact E.
Qed.

Lemma hex_to_byte32_to_hex b : length b = 32%nat -> hex_to_byte32 (to_hex b) = COk b.
Proof.
  intros L. unfold hex_to_byte32, hex_to_fixed, to_hex. rewrite hex_encode_length, L.
  change ((32 * 2 =? go_hash_length * 2)%nat) with true. cbn [negb]. rewrite hex_decode_encode. reflexivity.
Qed.

Lemma hex_to_fixed_inv s n b : hex_to_fixed s n = COk b ->
  hex_decode s = Some b /\ length b = n /\ length s = (n * 2)%nat.
Proof.
  unfold hex_to_fixed. destruct (Nat.eqb_spec (length s) (n * 2)) as [L|L]; cbn [negb]; [|discriminate].
  destruct (hex_decode s) as [r|] eqn:E; [|discriminate]. intros H; inversion H; subst.
  split; [reflexivity|]. apply hex_decode_inv in E as [E _]. lia.
Qed.

Lemma to_hex_hex_to_byte32 s b : hex_to_byte32 s = COk b -> forallb is_lower_hex s = true -> to_hex b = s /\ length b = 32%nat.
Proof.
  intros H L. apply hex_to_fixed_inv in H as (E & Lb & _). split; [|exact Lb].
  apply hex_decode_inv in E as [_ E]. apply E. exact L.
Qed.

(* ------------------------------------------------------------------ decimal strings *)
Lemma base_10 : go_u256_base = 10.
Proof. reflexivity. Qed.

Lemma digit_char_props d : 0 <= d < 10 ->
  let c := byte_of_Z (48 + d) in
  is_digit c = true /\ digit_val c = d /\ Byte.eqb c "-"%byte = false /\ Byte.eqb c "+"%byte = false.
Proof.
  intros Hd.
  assert (H := below_check 10 (fun d => let c := byte_of_Z (48 + d) in
     is_digit c && (digit_val c =? d) && negb (Byte.eqb c "-"%byte) && negb (Byte.eqb c "+"%byte)) eq_refl d Hd).
  cbn beta zeta in H. apply andb_prop in H as [H H4]. apply andb_prop in H as [H H3]. apply andb_prop in H as [H1 H2].
  cbn zeta. rewrite H1. apply Z.eqb_eq in H2. rewrite H2.
  apply negb_true_iff in H3. apply negb_true_iff in H4. auto.
Qed.

Lemma dec_digits n : 0 <= n -> exists d t,
  to_digits 10 n = d :: t /\ Forall (fun d => 0 <= d < 10) (d :: t) /\ undigits 10 (d :: t) = n.
Proof.
  intros Hn. destruct (to_digits_spec 10 ltac:(lia) n Hn) as (Hu & Hf & d & t & Hd & _).
  exists d, t. rewrite <- Hd. auto.
Qed.

Lemma parse_dec_dec n : 0 <= n -> parse_dec (dec n) = Some n.
Proof.
  intros Hn. destruct (dec_digits n Hn) as (d & t & Hd & Hf & Hu).
  unfold dec. rewrite Hd. cbn [map].
  pose proof (Forall_inv Hf) as Hd0. cbn beta in Hd0.
  destruct (digit_char_props d Hd0) as (D1 & D2 & D3 & D4). cbn zeta in *.
  unfold parse_dec. rewrite D3, D4.
  assert (Hall : forall l, Forall (fun d => 0 <= d < 10) l ->
            forallb is_digit (map (fun d => byte_of_Z (48 + d)) l) = true /\
            map digit_val (map (fun d => byte_of_Z (48 + d)) l) = l).
  { induction l as [|x l IH]; intros F; [split; reflexivity|]. inversion F as [|? ? Hx Fl]; subst.
    destruct (digit_char_props x Hx) as (X1 & X2 & _). cbn zeta in *. destruct (IH Fl) as [I1 I2].
    cbn [map forallb]. rewrite X1, I1, X2, I2. split; reflexivity. }
  destruct (Hall (d :: t) Hf) as [A1 A2]. cbn [map] in A1, A2.
  rewrite A1. unfold dec_val. cbn [map]. rewrite A2, base_10, Hu. reflexivity.
Qed.

(* ------------------------------------------------------------------ field accessors on what a node reports *)
Lemma to_bytevec_vbytes b : to_bytevec (vbytes b) = COk b.
Proof. unfold to_bytevec, vbytes. rewrite bytes_eqb_refl. cbn [negb]. rewrite hex_decode_encode. reflexivity. Qed.

Lemma to_u256_vu256 n : 0 <= n -> to_u256 (vu256 n) = COk n.
Proof. intros Hn. unfold to_u256, vu256. rewrite bytes_eqb_refl. cbn [negb]. rewrite parse_dec_dec by exact Hn. reflexivity. Qed.

Lemma big_uint64_small x : 0 <= x < 18446744073709551616 -> big_uint64 x = x.
Proof. intros H. unfold big_uint64. rewrite Z.abs_eq by lia. apply Z.mod_small. exact H. Qed.

(* exact characterisation of the three narrowing conversions (the range tests are the generated ones) *)
Lemma uint8_test_spec v : go_uint8_test v = true <-> 0 <= v <= 255.
Proof. unfold go_uint8_test. rewrite andb_true_iff. lia. Qed.
Lemma uint16_test_spec v : go_uint16_test v = true <-> 0 <= v <= 65535.
Proof. unfold go_uint16_test. rewrite andb_true_iff. lia. Qed.

Lemma to_uint8_ok f x : to_uint8 f = COk x <-> exists v, to_u256 f = COk v /\ v = x /\ 0 <= x <= 255.
Proof.
  unfold to_uint8. destruct (to_u256 f) as [v|e]; [|split; [discriminate|intros (v & H & _); discriminate]].
  destruct (go_uint8_test v) eqn:T.
  - apply uint8_test_spec in T. rewrite big_uint64_small by lia. rewrite Z.mod_small by lia.
    split; [intros H; inversion H; subst; exists x; auto|intros (v' & H & -> & _); inversion H; reflexivity].
  - split; [discriminate|]. intros (v' & H & -> & R). inversion H; subst.
    apply uint8_test_spec in R. congruence.
Qed.
Lemma to_uint16_ok f x : to_uint16 f = COk x <-> exists v, to_u256 f = COk v /\ v = x /\ 0 <= x <= 65535.
Proof.
  unfold to_uint16. destruct (to_u256 f) as [v|e]; [|split; [discriminate|intros (v & H & _); discriminate]].
  destruct (go_uint16_test v) eqn:T.
  - apply uint16_test_spec in T. rewrite big_uint64_small by lia. rewrite Z.mod_small by lia.
    split; [intros H; inversion H; subst; exists x; auto|intros (v' & H & -> & _); inversion H; reflexivity].
  - split; [discriminate|]. intros (v' & H & -> & R). inversion H; subst.
    apply uint16_test_spec in R. congruence.
Qed.
Lemma to_uint64_ok f x : to_uint64 f = COk x <-> exists v, to_u256 f = COk v /\ v = x /\ 0 <= x < 18446744073709551616.
Proof.
  unfold to_uint64. destruct (to_u256 f) as [v|e]; [|split; [discriminate|intros (v & H & _); discriminate]].
  destruct ((0 <=? v) && (v <? 18446744073709551616)) eqn:T.
  - apply andb_prop in T as [T1 T2]. rewrite big_uint64_small by lia.
    split; [intros H; inversion H; subst; exists x; split; [reflexivity|split; [reflexivity|lia]]|intros (v' & H & -> & _); inversion H; reflexivity].
  - split; [discriminate|]. intros (v' & H & -> & R). inversion H; subst.
    apply andb_false_iff in T. lia.
Qed.

Lemma to_u256_ok f x : to_u256 f = COk x <-> exists s, f = VU256 (str "U256") s /\ parse_dec s = Some x.
Proof.
  unfold to_u256. destruct f as [| |ty v|ty v]; try (split; [discriminate|intros (s & H & _); discriminate]).
  destruct (bytes_eqb_spec ty (str "U256")) as [->|N]; cbn [negb].
  - destruct (parse_dec v) as [y|] eqn:E.
    + split; [intros H; inversion H; subst; exists v; auto|intros (s & H & P); inversion H; subst; congruence].
    + split; [discriminate|intros (s & H & P); inversion H; subst; congruence].
  - split; [discriminate|intros (s & H & _); inversion H; subst; contradiction].
Qed.

Lemma to_bytevec_ok f b : to_bytevec f = COk b <-> exists s, f = VByteVec (str "ByteVec") s /\ hex_decode s = Some b.
Proof.
  unfold to_bytevec. destruct f as [| |ty v|ty v]; try (split; [discriminate|intros (s & H & _); discriminate]).
  destruct (bytes_eqb_spec ty (str "ByteVec")) as [->|N]; cbn [negb].
  - destruct (hex_decode v) as [y|] eqn:E.
    + split; [intros H; inversion H; subst; exists v; auto|intros (s & H & P); inversion H; subst; congruence].
    + split; [discriminate|intros (s & H & P); inversion H; subst; congruence].
  - split; [discriminate|intros (s & H & _); inversion H; subst; contradiction].
Qed.

(* ------------------------------------------------------------------ ToWormholeMessage *)
Lemma event_fields_eq sender target sequence nonce payload level :
  event_fields sender target sequence nonce payload level =
  [vbytes sender; vu256 target; vu256 sequence; vbytes nonce; vbytes payload; vu256 level].
Proof. reflexivity. Qed.

Lemma wm_decodes sender target sequence nonce payload level txid :
  length sender = 32%nat -> 0 <= target <= 65535 -> 0 <= sequence < 18446744073709551616 ->
  length nonce = 4%nat -> 0 <= level <= 255 ->
  to_wormhole_message (event_fields sender target sequence nonce payload level) txid =
  COk {| w_txid := txid; w_sender := sender; w_target := target; w_nonce := unbe nonce; w_payload := payload;
         w_seq := sequence; w_cl := level |}.
Proof.
  intros Ls Ht Hs Ln Hl. rewrite event_fields_eq. unfold to_wormhole_message.
  change (length [vbytes sender; vu256 target; vu256 sequence; vbytes nonce; vbytes payload; vu256 level] =? go_wm_field_size)%nat with true.
  cbn [negb].
  change (fld [vbytes sender; vu256 target; vu256 sequence; vbytes nonce; vbytes payload; vu256 level] go_wm_idx_sender) with (vbytes sender).
  change (fld [vbytes sender; vu256 target; vu256 sequence; vbytes nonce; vbytes payload; vu256 level] go_wm_idx_target) with (vu256 target).
  change (fld [vbytes sender; vu256 target; vu256 sequence; vbytes nonce; vbytes payload; vu256 level] go_wm_idx_seq) with (vu256 sequence).
  change (fld [vbytes sender; vu256 target; vu256 sequence; vbytes nonce; vbytes payload; vu256 level] go_wm_idx_nonce) with (vbytes nonce).
  change (fld [vbytes sender; vu256 target; vu256 sequence; vbytes nonce; vbytes payload; vu256 level] go_wm_idx_payload) with (vbytes payload).
  change (fld [vbytes sender; vu256 target; vu256 sequence; vbytes nonce; vbytes payload; vu256 level] go_wm_idx_cl) with (vu256 level).
  unfold to_byte32. rewrite !to_bytevec_vbytes, Ls, Ln.
  change (32 =? go_byte32_len)%nat with true. change (4 =? go_wm_nonce_len)%nat with true. cbn [negb].
  assert (E16 : to_uint16 (vu256 target) = COk target).
  { apply to_uint16_ok. exists target. split; [apply to_u256_vu256; lia|auto]. }
  assert (E64 : to_uint64 (vu256 sequence) = COk sequence).
  { apply to_uint64_ok. exists sequence. split; [apply to_u256_vu256; lia|auto]. }
  assert (E8 : to_uint8 (vu256 level) = COk level).
  { apply to_uint8_ok. exists level. split; [apply to_u256_vu256; lia|auto]. }
  rewrite E16, E64, E8. reflexivity.
Qed.

(* what a decimal / hex string denotes *)
Definition fits (bits : Z) (o : option Z) : Prop := match o with Some v => 0 <= v < 2 ^ bits | None => False end.

Lemma wm_accepts_only fields txid m : to_wormhole_message fields txid = COk m ->
  exists s0 s1 s2 s3 s4 s5 nonce,
    fields = [VByteVec (str "ByteVec") s0; VU256 (str "U256") s1; VU256 (str "U256") s2;
              VByteVec (str "ByteVec") s3; VByteVec (str "ByteVec") s4; VU256 (str "U256") s5] /\
    hex_decode s0 = Some (w_sender m) /\ length (w_sender m) = 32%nat /\
    parse_dec s1 = Some (w_target m) /\ 0 <= w_target m <= 65535 /\
    parse_dec s2 = Some (w_seq m) /\ 0 <= w_seq m < 18446744073709551616 /\
    hex_decode s3 = Some nonce /\ length nonce = 4%nat /\ w_nonce m = unbe nonce /\
    hex_decode s4 = Some (w_payload m) /\
    parse_dec s5 = Some (w_cl m) /\ 0 <= w_cl m <= 255 /\
    w_txid m = txid.
Proof.
  unfold to_wormhole_message. intros H.
  destruct (Nat.eqb_spec (length fields) go_wm_field_size) as [L|L]; cbn [negb] in H; [|discriminate].
  destruct fields as [|f0 [|f1 [|f2 [|f3 [|f4 [|f5 [|f6 rest]]]]]]]; try discriminate L.
  change (fld [f0; f1; f2; f3; f4; f5] go_wm_idx_sender) with f0 in H.
  change (fld [f0; f1; f2; f3; f4; f5] go_wm_idx_target) with f1 in H.
  change (fld [f0; f1; f2; f3; f4; f5] go_wm_idx_seq) with f2 in H.
  change (fld [f0; f1; f2; f3; f4; f5] go_wm_idx_nonce) with f3 in H.
  change (fld [f0; f1; f2; f3; f4; f5] go_wm_idx_payload) with f4 in H.
  change (fld [f0; f1; f2; f3; f4; f5] go_wm_idx_cl) with f5 in H.
  unfold to_byte32 in H.
  destruct (to_bytevec f0) as [emitter|] eqn:E0; [|discriminate].
  destruct (Nat.eqb_spec (length emitter) go_byte32_len) as [L0|L0]; cbn [negb] in H; [|discriminate].
  destruct (to_uint16 f1) as [target|] eqn:E1; [|discriminate].
  destruct (to_uint64 f2) as [sequence|] eqn:E2; [|discriminate].
  destruct (to_bytevec f3) as [nonce|] eqn:E3; [|discriminate].
  destruct (Nat.eqb_spec (length nonce) go_wm_nonce_len) as [L3|L3]; cbn [negb] in H; [|discriminate].
  destruct (to_bytevec f4) as [payload|] eqn:E4; [|discriminate].
  destruct (to_uint8 f5) as [level|] eqn:E5; [|discriminate].
  inversion H; subst m; clear H. cbn [w_txid w_sender w_target w_nonce w_payload w_seq w_cl].
  apply to_bytevec_ok in E0 as (s0 & -> & D0). apply to_bytevec_ok in E3 as (s3 & -> & D3). apply to_bytevec_ok in E4 as (s4 & -> & D4).
  apply to_uint16_ok in E1 as (v1 & U1 & -> & R1). apply to_u256_ok in U1 as (s1 & -> & P1).
  apply to_uint64_ok in E2 as (v2 & U2 & -> & R2). apply to_u256_ok in U2 as (s2 & -> & P2).
  apply to_uint8_ok in E5 as (v5 & U5 & -> & R5). apply to_u256_ok in U5 as (s5 & -> & P5).
  exists s0, s1, s2, s3, s4, s5, nonce. repeat apply conj; auto; lia.
Qed.

Lemma wm_rejects f0 s1 s2 f3 f4 s5 txid :
  ~ fits 16 (parse_dec s1) \/ ~ fits 64 (parse_dec s2) \/ ~ fits 8 (parse_dec s5) ->
  exists e, to_wormhole_message [f0; VU256 (str "U256") s1; VU256 (str "U256") s2; f3; f4; VU256 (str "U256") s5] txid = CErr e.
Proof.
  intros H.
  destruct (to_wormhole_message [f0; VU256 (str "U256") s1; VU256 (str "U256") s2; f3; f4; VU256 (str "U256") s5] txid) as [m|e] eqn:E;
    [|exists e; reflexivity].
  exfalso. apply wm_accepts_only in E as (t0 & t1 & t2 & t3 & t4 & t5 & nonce & F & _ & _ & P1 & R1 & P2 & R2 & _ & _ & _ & _ & P5 & R5 & _).
  inversion F; subst.
  destruct H as [H|[H|H]]; apply H; [rewrite P1|rewrite P2|rewrite P5]; cbn [fits]; lia.
Qed.

(* ------------------------------------------------------------------ exact acceptance condition *)
Lemma wm_accepts_if s0 s1 s2 s3 s4 s5 sender target sequence nonce payload level txid :
  hex_decode s0 = Some sender -> length sender = 32%nat ->
  parse_dec s1 = Some target -> 0 <= target <= 65535 ->
  parse_dec s2 = Some sequence -> 0 <= sequence < 18446744073709551616 ->
  hex_decode s3 = Some nonce -> length nonce = 4%nat ->
  hex_decode s4 = Some payload ->
  parse_dec s5 = Some level -> 0 <= level <= 255 ->
  to_wormhole_message [VByteVec (str "ByteVec") s0; VU256 (str "U256") s1; VU256 (str "U256") s2;
                       VByteVec (str "ByteVec") s3; VByteVec (str "ByteVec") s4; VU256 (str "U256") s5] txid =
  COk {| w_txid := txid; w_sender := sender; w_target := target; w_nonce := unbe nonce; w_payload := payload;
         w_seq := sequence; w_cl := level |}.
Proof.
  intros D0 L0 P1 R1 P2 R2 D3 L3 D4 P5 R5.
  set (f0 := VByteVec (str "ByteVec") s0). set (f1 := VU256 (str "U256") s1). set (f2 := VU256 (str "U256") s2).
  set (f3 := VByteVec (str "ByteVec") s3). set (f4 := VByteVec (str "ByteVec") s4). set (f5 := VU256 (str "U256") s5).
  unfold to_wormhole_message.
  change (length [f0; f1; f2; f3; f4; f5] =? go_wm_field_size)%nat with true. cbn [negb].
  change (fld [f0; f1; f2; f3; f4; f5] go_wm_idx_sender) with f0.
  change (fld [f0; f1; f2; f3; f4; f5] go_wm_idx_target) with f1.
  change (fld [f0; f1; f2; f3; f4; f5] go_wm_idx_seq) with f2.
  change (fld [f0; f1; f2; f3; f4; f5] go_wm_idx_nonce) with f3.
  change (fld [f0; f1; f2; f3; f4; f5] go_wm_idx_payload) with f4.
  change (fld [f0; f1; f2; f3; f4; f5] go_wm_idx_cl) with f5.
  assert (E0 : to_bytevec f0 = COk sender) by (apply to_bytevec_ok; exists s0; auto).
  assert (E3 : to_bytevec f3 = COk nonce) by (apply to_bytevec_ok; exists s3; auto).
  assert (E4 : to_bytevec f4 = COk payload) by (apply to_bytevec_ok; exists s4; auto).
  assert (E1 : to_uint16 f1 = COk target).
  { apply to_uint16_ok. exists target. split; [apply to_u256_ok; exists s1; auto|auto]. }
  assert (E2 : to_uint64 f2 = COk sequence).
  { apply to_uint64_ok. exists sequence. split; [apply to_u256_ok; exists s2; auto|auto]. }
  assert (E5 : to_uint8 f5 = COk level).
  { apply to_uint8_ok. exists level. split; [apply to_u256_ok; exists s5; auto|auto]. }
  unfold to_byte32. rewrite E0, L0. change (32 =? go_byte32_len)%nat with true. cbn [negb].
  rewrite E1, E2, E3, L3. change (4 =? go_wm_nonce_len)%nat with true. cbn [negb].
  rewrite E4, E5. reflexivity.
Qed.

(* negative decimal strings *)
Lemma dec_is_digits n : 0 <= n -> dec n <> [] /\ forallb is_digit (dec n) = true /\ dec_val (dec n) = n.
Proof.
  intros Hn. destruct (dec_digits n Hn) as (d & t & Hd & Hf & Hu).
  assert (Hall : forall l, Forall (fun d => 0 <= d < 10) l ->
            forallb is_digit (map (fun d => byte_of_Z (48 + d)) l) = true /\
            map digit_val (map (fun d => byte_of_Z (48 + d)) l) = l).
  { induction l as [|x l IH]; intros F; [split; reflexivity|]. pose proof (Forall_inv F) as Hx. pose proof (Forall_inv_tail F) as Fl.
    cbn beta in Hx. destruct (digit_char_props x Hx) as (X1 & X2 & _). cbv zeta in X1, X2. destruct (IH Fl) as [I1 I2].
    cbn [map forallb]. rewrite X1, I1, X2, I2. split; reflexivity. }
  unfold dec. rewrite Hd. destruct (Hall (d :: t) Hf) as [A1 A2]. split; [cbn [map]; discriminate|]. split; [exact A1|].
  unfold dec_val. rewrite A2, base_10. exact Hu.
Qed.

Lemma parse_dec_neg n : 0 <= n -> parse_dec ("-"%byte :: dec n) = Some (- n).
Proof.
  intros Hn. destruct (dec_is_digits n Hn) as (Hne & Hdig & Hval).
  unfold parse_dec. change (Byte.eqb "-" "-") with true. cbv iota.
  destruct (dec n) as [|c l] eqn:E; [contradiction|]. rewrite Hdig, Hval. reflexivity.
Qed.

(* ------------------------------------------------------------------ toMessagePublication *)
Lemma mp_fields w ms :
  let m := to_message_publication w ms in
  m_echain m = 255 /\ m_tchain m = w_target w /\ m_eaddr m = w_sender w /\ m_seq m = w_seq w /\ m_cl m = w_cl w /\
  m_nonce m = w_nonce w /\ m_payload m = w_payload w /\ m_tx m = hex_to_hash (w_txid w).
Proof.
  cbv zeta. unfold to_message_publication.
  destruct (time_unix (Z.quot ms go_ts_div) (Z.rem ms go_ts_rem * go_ts_nsec_mul)) as [s ns].
  cbn [m_echain m_tchain m_eaddr m_seq m_cl m_nonce m_payload m_tx]. repeat apply conj; reflexivity.
Qed.

Lemma time_unix_spec sec nsec : - 1000000000 < nsec < 1000000000 ->
  let '(s, ns) := time_unix sec nsec in s * 1000000000 + ns = sec * 1000000000 + nsec /\ 0 <= ns < 1000000000.
Proof.
  intros H. unfold time_unix.
  destruct ((nsec <? 0) || (1000000000 <=? nsec)) eqn:E.
  - assert (Q : Z.quot nsec 1000000000 = 0).
    { destruct (Z.leb_spec 0 nsec); [apply Z.quot_small; lia|].
      rewrite <- (Z.opp_involutive nsec), Z.quot_opp_l by lia. rewrite Z.quot_small by lia. reflexivity. }
    rewrite Q. replace (nsec - 0 * 1000000000) with nsec by lia. replace (sec + 0) with sec by lia.
    destruct (Z.ltb_spec nsec 0); lia.
  - apply orb_false_iff in E as [E1 E2]. lia.
Qed.

Lemma mp_time w ms :
  let m := to_message_publication w ms in
  m_ts m * 1000000000 + m_tns m = ms * 1000000 /\ 0 <= m_tns m < 1000000000.
Proof.
  cbv zeta. unfold to_message_publication.
  change go_ts_div with 1000. change go_ts_rem with 1000. change go_ts_nsec_mul with 1000000.
  pose proof (Z.quot_rem' ms 1000) as QR.
  assert (RB : - 1000 < Z.rem ms 1000 < 1000).
  { pose proof (Z.rem_bound_abs ms 1000 ltac:(lia)). lia. }
  pose proof (time_unix_spec (Z.quot ms 1000) (Z.rem ms 1000 * 1000000) ltac:(lia)) as T.
  destruct (time_unix (Z.quot ms 1000) (Z.rem ms 1000 * 1000000)) as [s ns].
  cbn [m_ts m_tns]. lia.
Qed.

Lemma mp_time_nonneg w ms : 0 <= ms ->
  let m := to_message_publication w ms in m_ts m = ms / 1000 /\ m_tns m = (ms mod 1000) * 1000000.
Proof.
  intros Hms. cbv zeta. destruct (mp_time w ms) as [E R].
  pose proof (Z.div_mod ms 1000 ltac:(lia)) as DM. pose proof (Z.mod_pos_bound ms 1000 ltac:(lia)) as MB.
  split; nia.
Qed.

(* ------------------------------------------------------------------ HexToHash on what a node reports as a transaction id *)
Lemma hex_digit_not_x d : 0 <= d < 16 -> Byte.eqb (hex_digit d) "x"%byte = false /\ Byte.eqb (hex_digit d) "X"%byte = false.
Proof.
  intros Hd.
  assert (H := below_check 16 (fun d => negb (Byte.eqb (hex_digit d) "x"%byte) && negb (Byte.eqb (hex_digit d) "X"%byte)) eq_refl d Hd).
  cbn beta in H. apply andb_prop in H as [H1 H2]. apply negb_true_iff in H1. apply negb_true_iff in H2. auto.
Qed.

Lemma has_0x_hex_encode b : has_0x (hex_encode b) = false.
Proof.
  destruct b as [|c b]; [reflexivity|].
  unfold hex_encode. cbn [flat_map]. unfold hex_byte at 1. cbv zeta. cbn [app]. unfold has_0x.
  pose proof (Z_of_byte_range c) as Hc.
  destruct (hex_digit_not_x (Z_of_byte c mod 16) ltac:(apply Z.mod_pos_bound; lia)) as [E1 E2].
  rewrite E1, E2. apply andb_false_r.
Qed.

Lemma hex_to_hash_to_hex b : length b = 32%nat -> hex_to_hash (to_hex b) = b.
Proof.
  intros L. unfold hex_to_hash, from_hex, to_hex. rewrite has_0x_hex_encode, hex_encode_length.
  replace (Nat.odd (length b * 2)) with false by (rewrite Nat.odd_mul; cbn [Nat.odd]; symmetry; apply andb_false_r).
  rewrite hex_decode_go_encode. cbn [fst]. unfold bytes_to_hash. rewrite L. reflexivity.
Qed.

(* ------------------------------------------------------------------ base 58 *)
Lemma b58_char_props d : 0 <= d < 58 ->
  b58_index (b58_char d) = Some d /\ (Byte.eqb (b58_char d) "1"%byte = (d =? 0)) /\ (128 <=? Z_of_byte (b58_char d)) = false.
Proof.
  intros Hd.
  assert (H := below_check 58 (fun d => match b58_index (b58_char d) with Some x => x =? d | None => false end
                                    && Bool.eqb (Byte.eqb (b58_char d) "1"%byte) (d =? 0) && negb (128 <=? Z_of_byte (b58_char d))) eq_refl d Hd).
  cbn beta in H. apply andb_prop in H as [H H3]. apply andb_prop in H as [H1 H2].
  destruct (b58_index (b58_char d)) as [x|]; [|discriminate]. apply Z.eqb_eq in H1. subst x.
  apply Bool.eqb_prop in H2. apply negb_true_iff in H3. auto.
Qed.

Lemma index_of_spec c : forall l i d, index_of c l i = Some d ->
  i <= d < i + Z.of_nat (length l) /\ nth (Z.to_nat (d - i)) l x00 = c.
Proof.
  induction l as [|x l IH]; intros i d H; [discriminate|]. cbn [index_of] in H.
  destruct (Byte.eqb x c) eqn:E.
  - inversion H; subst. apply byte_eqb_eq in E. subst. rewrite Z.sub_diag. cbn [length]. split; [lia|reflexivity].
  - apply IH in H as [H1 H2]. cbn [length]. split; [lia|].
    replace (Z.to_nat (d - i)) with (S (Z.to_nat (d - (i + 1)))) by lia. exact H2.
Qed.

Lemma b58_index_char c d : b58_index c = Some d -> 0 <= d < 58 /\ b58_char d = c.
Proof.
  unfold b58_index, b58_char. intros H. apply index_of_spec in H as [H1 H2].
  change (Z.of_nat (length b58_alphabet)) with 58 in H1. rewrite Z.sub_0_r in H2. split; [lia|exact H2].
Qed.

Lemma map_opt_map {A B} (f : A -> option B) (g : B -> A) (P : B -> Prop) :
  (forall x, P x -> f (g x) = Some x) -> forall l, Forall P l -> map_opt f (map g l) = Some l.
Proof.
  intros H. induction l as [|x l IH]; intros F; [reflexivity|].
  cbn [map map_opt]. rewrite (H x (Forall_inv F)), (IH (Forall_inv_tail F)). reflexivity.
Qed.

Lemma map_opt_inv {A B} (f : A -> option B) (g : B -> A) (P : B -> Prop) :
  (forall a x, f a = Some x -> P x /\ g x = a) -> forall l r, map_opt f l = Some r -> Forall P r /\ map g r = l.
Proof.
  intros H. induction l as [|a l IH]; intros r E.
  - inversion E. split; [constructor|reflexivity].
  - cbn [map_opt] in E. destruct (f a) as [x|] eqn:Ea; [|discriminate]. destruct (map_opt f l) as [r'|] eqn:El; [|discriminate].
    inversion E; subst. destruct (H a x Ea) as [Px Gx]. destruct (IH r' eq_refl) as [F M].
    split; [constructor; assumption|]. cbn [map]. rewrite Gx, M. reflexivity.
Qed.

Lemma unbe_acc_undigits l : forall acc, unbe_acc l acc = undigits_acc 256 (map Z_of_byte l) acc.
Proof. induction l as [|c l IH]; intros acc; [reflexivity|]. cbn [unbe_acc map undigits_acc]. apply IH. Qed.
Lemma unbe_undigits l : unbe l = undigits 256 (map Z_of_byte l).
Proof. apply unbe_acc_undigits. Qed.

Lemma map_byte_of_Z_of_byte l : map byte_of_Z (map Z_of_byte l) = l.
Proof. induction l as [|c l IH]; [reflexivity|]. cbn [map]. rewrite byte_of_Z_of_byte, IH. reflexivity. Qed.
Lemma map_Z_of_byte_of_Z l : Forall (fun d => 0 <= d < 256) l -> map Z_of_byte (map byte_of_Z l) = l.
Proof.
  induction l as [|c l IH]; intros F; [reflexivity|]. cbn [map]. rewrite Z_of_byte_of_Z, (IH (Forall_inv_tail F)).
  pose proof (Forall_inv F) as Hc. cbn beta in Hc. rewrite Z.mod_small by lia. reflexivity.
Qed.
Lemma Forall_byte_range l : Forall (fun d => 0 <= d < 256) (map Z_of_byte l).
Proof. induction l as [|c l IH]; [constructor|]. cbn [map]. constructor; [apply Z_of_byte_range|exact IH]. Qed.

(* a byte string with a non-zero first byte is the minimal big-endian representation of its value *)
Lemma min_bytes_unbe c b : c <> x00 -> min_bytes (unbe (c :: b)) = c :: b /\ 1 <= unbe (c :: b).
Proof.
  intros Hc. rewrite unbe_undigits. cbn [map].
  assert (Hc0 : Z_of_byte c <> 0).
  { intros E. apply Hc. rewrite <- (byte_of_Z_of_byte c), E. reflexivity. }
  pose proof (Forall_byte_range (c :: b)) as F. cbn [map] in F.
  pose proof (undigits_pos 256 ltac:(lia) (Z_of_byte c) (map Z_of_byte b) F Hc0) as Hpos.
  split; [|exact Hpos]. unfold min_bytes. destruct (Z.eqb_spec (undigits 256 (Z_of_byte c :: map Z_of_byte b)) 0) as [E|_]; [lia|].
  rewrite to_digits_undigits; [|lia|].
  - apply (map_byte_of_Z_of_byte (c :: b)).
  - split; [exact F|]. exists (Z_of_byte c), (map Z_of_byte b). split; [reflexivity|]. intros E; contradiction.
Qed.

Lemma unbe_min_bytes n : 0 <= n -> unbe (min_bytes n) = n.
Proof.
  intros Hn. unfold min_bytes. destruct (Z.eqb_spec n 0) as [->|N]; [reflexivity|].
  destruct (to_digits_spec 256 ltac:(lia) n Hn) as (Hu & Hf & _).
  rewrite unbe_undigits, map_Z_of_byte_of_Z by exact Hf. exact Hu.
Qed.

Lemma b58_ascii ds : Forall (fun d => 0 <= d < 58) ds -> existsb (fun c => 128 <=? Z_of_byte c) (map b58_char ds) = false.
Proof.
  induction ds as [|d ds IH]; intros F; [reflexivity|]. cbn [map existsb].
  destruct (b58_char_props d (Forall_inv F)) as (_ & _ & A). rewrite A, (IH (Forall_inv_tail F)). reflexivity.
Qed.

Lemma b58_decode_encode c b : c <> x00 ->
  b58_decode (b58_encode (c :: b)) = c :: b /\ existsb (fun ch => 128 <=? Z_of_byte ch) (b58_encode (c :: b)) = false.
Proof.
  intros Hc. destruct (min_bytes_unbe c b Hc) as [Hmin Hpos].
  assert (Hnn : 0 <= unbe (c :: b)) by lia.
  destruct (to_digits_spec 58 ltac:(lia) (unbe (c :: b)) Hnn) as (Hu & Hf & d0 & t & Hd & Hz).
  assert (Hd0 : d0 <> 0) by (intros E; specialize (Hz E); lia).
  assert (Henc : b58_encode (c :: b) = map b58_char (d0 :: t)).
  { unfold b58_encode. cbn [count_leading]. apply byte_eqb_neq in Hc. rewrite Hc. cbn [repeat app].
    unfold b58_digits. destruct (Z.eqb_spec (unbe (c :: b)) 0) as [E|_]; [lia|]. rewrite Hd. reflexivity. }
  rewrite Henc. rewrite Hd in Hf, Hu. split; [|apply b58_ascii; exact Hf].
  unfold b58_decode.
  rewrite (map_opt_map b58_index b58_char (fun d => 0 <= d < 58)) by (exact Hf || (intros x Hx; apply b58_char_props; exact Hx)).
  cbn [map count_leading]. destruct (b58_char_props d0 (Forall_inv Hf)) as (_ & E1 & _). rewrite E1.
  destruct (Z.eqb_spec d0 0) as [E|_]; [contradiction|]. cbn [repeat app]. rewrite Hu. exact Hmin.
Qed.

Lemma count_leading_repeat z n l : count_leading z (repeat z n ++ l) = (n + count_leading z l)%nat.
Proof. induction n as [|n IH]; [reflexivity|]. cbn [repeat app count_leading]. rewrite (Byte.byte_dec_lb eq_refl), IH. reflexivity. Qed.

(* the other direction: a string that decodes to a byte string with non-zero first byte is the encoding of that byte string *)
Lemma b58_encode_decode s c b : b58_decode s = c :: b -> c <> x00 -> b58_encode (c :: b) = s.
Proof.
  intros H Hc. unfold b58_decode in H. destruct (map_opt b58_index s) as [ds|] eqn:E; [|discriminate].
  destruct (map_opt_inv b58_index b58_char (fun d => 0 <= d < 58) b58_index_char s ds E) as [F M].
  destruct (count_leading "1"%byte s) as [|k] eqn:K; [|cbn [repeat app] in H; inversion H; subst; contradiction].
  cbn [repeat app] in H.
  pose proof (undigits_nonneg 58 ltac:(lia) ds F) as Hnn.
  assert (HN : unbe (c :: b) = undigits 58 ds) by (rewrite <- H; apply unbe_min_bytes; exact Hnn).
  assert (HN0 : undigits 58 ds <> 0).
  { intros E0. rewrite E0 in H. discriminate H. }
  destruct ds as [|d0 t]; [exfalso; apply HN0; reflexivity|].
  assert (Hd0 : d0 <> 0).
  { intros ->. cbn [map] in M. rewrite <- M in K. cbn [count_leading] in K.
    change (Byte.eqb (b58_char 0) "1") with true in K. discriminate. }
  unfold b58_encode. cbn [count_leading]. apply byte_eqb_neq in Hc. rewrite Hc. cbn [repeat app].
  unfold b58_digits. rewrite HN. destruct (Z.eqb_spec (undigits 58 (d0 :: t)) 0) as [E0|_]; [contradiction|].
  rewrite to_digits_undigits; [exact M|lia|]. split; [exact F|]. exists d0, t. split; [reflexivity|]. intros; contradiction.
Qed.

(* ------------------------------------------------------------------ contract id <-> address *)
Lemma to_contract_address_hex id : length id = 32%nat ->
  to_contract_address (to_hex id) = COk (b58_encode (x03 :: id)).
Proof.
  intros L. unfold to_contract_address, hex_to_fixed, to_hex. rewrite hex_encode_length, L.
  change ((32 * 2 =? go_contract_hex_bytes * 2)%nat) with true. cbn [negb]. rewrite hex_decode_encode.
  change (byte_of_Z go_contract_addr_prefix) with x03. reflexivity.
Qed.

Lemma contract_id_of_address id : length id = 32%nat -> to_contract_id (b58_encode (x03 :: id)) = COk id.
Proof.
  intros L. unfold to_contract_id. destruct (b58_decode_encode x03 id ltac:(discriminate)) as [D A].
  rewrite A, D. cbn [length]. rewrite L. change (33 =? go_contract_addr_len)%nat with true. cbn [negb].
  change go_contract_id_from with 1%nat. reflexivity.
Qed.

Lemma contract_address_of_id a id : to_contract_id a = COk id ->
  length id = 32%nat /\ exists p, b58_decode a = p :: id /\ (p = x03 -> to_contract_address (to_hex id) = COk a).
Proof.
  unfold to_contract_id. destruct (existsb (fun c => 128 <=? Z_of_byte c) a); [discriminate|].
  destruct (Nat.eqb_spec (length (b58_decode a)) go_contract_addr_len) as [L|L]; cbn [negb]; [|discriminate].
  intros H. inversion H as [H1]. change go_contract_addr_len with 33%nat in L. change go_contract_id_from with 1%nat in *.
  destruct (b58_decode a) as [|p r] eqn:D; [discriminate|]. cbn [skipn] in *. cbn [length] in L.
  split; [lia|]. exists p. split; [reflexivity|]. intros ->.
  rewrite to_contract_address_hex by lia. f_equal. apply b58_encode_decode; [exact D|discriminate].
Qed.

(* ------------------------------------------------------------------ bytesToString *)
Lemma drop_nul_repeat k l : drop_nul (repeat x00 k ++ l) = drop_nul l.
Proof. induction k as [|k IH]; [reflexivity|]. cbn [repeat app drop_nul]. change (is_nul x00) with true. exact IH. Qed.

Lemma rev_repeat {A} (x : A) n : rev (repeat x n) = repeat x n.
Proof.
  induction n as [|n IH]; [reflexivity|]. cbn [repeat rev]. rewrite IH. clear IH.
  induction n as [|n IH]; [reflexivity|]. cbn [repeat app]. rewrite IH. reflexivity.
Qed.

Definition no_nul_ends (s : bytes) : Prop :=
  (forall c t, s = c :: t -> c <> x00) /\ (forall c t, s = t ++ [c] -> c <> x00).

Lemma drop_nul_id s : (forall c t, s = c :: t -> c <> x00) -> drop_nul s = s.
Proof.
  destruct s as [|c t]; intros H; [reflexivity|]. cbn [drop_nul]. specialize (H c t eq_refl).
  unfold is_nul. apply byte_eqb_neq in H. rewrite H. reflexivity.
Qed.

Lemma bytes_to_string_padded k j s : no_nul_ends s -> bytes_to_string (repeat x00 k ++ s ++ repeat x00 j) = s.
Proof.
  intros [Hh Hl]. unfold bytes_to_string. rewrite drop_nul_repeat.
  destruct s as [|c t].
  - cbn [app]. rewrite <- (app_nil_r (repeat x00 j)), drop_nul_repeat. reflexivity.
  - assert (E : drop_nul ((c :: t) ++ repeat x00 j) = (c :: t) ++ repeat x00 j).
    { apply drop_nul_id. intros c' t' E. cbn [app] in E. inversion E; subst. apply (Hh c' t eq_refl). }
    rewrite E, rev_app_distr, rev_repeat, drop_nul_repeat.
    rewrite (drop_nul_id (rev (c :: t))); [apply rev_involutive|].
    intros c' t' E'. apply (Hl c' (rev t')). rewrite <- (rev_involutive (c :: t)), E'. reflexivity.
Qed.

Lemma no_nul_no_nul_ends s : Forall (fun c => c <> x00) s -> no_nul_ends s.
Proof.
  intros F. rewrite Forall_forall in F. split; intros c t E; apply F; rewrite E; [left; reflexivity|].
  apply in_or_app. right. left. reflexivity.
Qed.

(* ------------------------------------------------------------------ attestation payloads *)
Lemma sub_at pre m post lo hi : length pre = lo -> (lo + length m = hi)%nat -> sub (pre ++ m ++ post) (lo, hi) = m.
Proof.
  intros <- <-. unfold sub. cbn [fst snd]. rewrite skipn_app, skipn_all, Nat.sub_diag, skipn_O. cbn [app].
  replace (length pre + length m - length pre)%nat with (length m) by lia.
  rewrite firstn_app, firstn_all, Nat.sub_diag, firstn_O, app_nil_r. reflexivity.
Qed.

Lemma attest_payload_inv id chain dec sym name nonce p : attest_payload id chain dec sym name nonce = Some p ->
  p = ral_attest_payload id chain dec sym name /\ length id = 32%nat /\ length sym = 32%nat /\ length name = 32%nat /\
  length nonce = 4%nat /\ 0 <= chain < 65536 /\ 0 <= dec < 256.
Proof.
  unfold attest_payload, ral_attest_size_asserts, ral_attest_u256_ranges.
  destruct (forallb _ _ && forallb _ _) eqn:E; [|discriminate]. intros H. inversion H as [H1]. clear H.
  apply andb_prop in E as [E1 E2]. cbn [forallb fst snd] in E1, E2.
  change (256 ^ Z.of_nat 2) with 65536 in E2. change (256 ^ Z.of_nat 1) with 256 in E2.
  repeat (apply andb_prop in E1 as [? E1]). repeat (apply andb_prop in E2 as [? E2]).
  repeat match goal with H : (_ =? _)%nat = true |- _ => apply Nat.eqb_eq in H end.
  repeat apply conj; try reflexivity; try assumption; lia.
Qed.

Lemma parse_attest_payload id chain dec sym name : length id = 32%nat -> length sym = 32%nat -> length name = 32%nat ->
  0 <= chain < 65536 -> 0 <= dec < 256 ->
  parse_attest_token (ral_attest_payload id chain dec sym name) =
  if chain =? go_chain_id_alephium then
    COk {| t_id := id; t_decimals := dec; t_symbol := bytes_to_string sym; t_name := bytes_to_string name |}
  else CErr EAttestChain.
Proof.
  intros Li Ls Ln Hc Hd. unfold parse_attest_token, ral_attest_payload.
  set (p := [x02] ++ id ++ be 2 chain ++ be 1 dec ++ sym ++ name).
  assert (Lp : length p = 100%nat) by (unfold p; rewrite !app_length, !be_length, Li, Ls, Ln; reflexivity).
  rewrite Lp. change (100 =? go_attest_len)%nat with true. cbn [negb].
  assert (S1 : sub p go_attest_tokenid = id).
  { unfold p. apply sub_at; [reflexivity|rewrite Li; reflexivity]. }
  assert (S2 : sub p go_attest_chain = be 2 chain).
  { unfold p. rewrite (app_assoc [x02] id). apply sub_at; [rewrite app_length, Li; reflexivity|rewrite be_length; reflexivity]. }
  assert (S3 : sub p (go_attest_decimals_at, S go_attest_decimals_at) = be 1 dec).
  { unfold p. rewrite (app_assoc id), (app_assoc [x02]). apply sub_at; [rewrite !app_length, be_length, Li; reflexivity|rewrite be_length; reflexivity]. }
  assert (S4 : sub p go_attest_symbol = sym).
  { unfold p. rewrite (app_assoc (be 2 chain)), (app_assoc id), (app_assoc [x02]).
    apply sub_at; [rewrite !app_length, !be_length, Li; reflexivity|rewrite Ls; reflexivity]. }
  assert (S5 : sub p go_attest_name = name).
  { unfold p. rewrite <- (app_nil_r name) at 1. rewrite (app_assoc (be 1 dec)), (app_assoc (be 2 chain)), (app_assoc id), (app_assoc [x02]).
    apply sub_at; [rewrite !app_length, !be_length, Li, Ls; reflexivity|rewrite Ln; reflexivity]. }
  rewrite S1, S2, S3, S4, S5. rewrite !unbe_be.
  change (256 ^ Z.of_nat 2) with 65536. change (256 ^ Z.of_nat 1) with 256.
  rewrite (Z.mod_small chain) by lia. rewrite (Z.mod_small dec) by lia.
  change (go_chain_id_alephium mod 65536) with go_chain_id_alephium.
  destruct (chain =? go_chain_id_alephium); reflexivity.
Qed.
