(* X12 — Messages.sol parseVM / verifySignatures / verifyVM / parseAndVerifyVM as TRANSLATED statement by statement from the tree
   (gen/x_solverify.py -> gen/ExtractedSolVerify.v) against the contract model (model/Contracts.v sol_parse over the extracted layouts,
   gen/ExtractedContractVerify.v sol_verifyVM):
     src_parseVM_eq                      translated parseVM = sol_parse, field for field, for every input; it reverts exactly when sol_parse
                                         fails or a signature's 65th byte + 27 leaves uint8 (checked arithmetic of Solidity 0.8)
     src_verifySignatures_eq / _accepts_iff / _outcomes
                                         the signature loop in closed form: strictly ascending indices from the second record on, index
                                         outside the key list = revert (array bounds panic), wrong signer = (false, _)
     src_verifyVM_eq                     translated verifyVM (with the translated verifySignatures inside) = sol_verifyVM at that verdict
     src_parseAndVerifyVM_eq             the composition
     src_parseVM_marshal, sol_source_accepts_iff, sol_source_accepted_has_quorum_of_distinct_signers
                                         the node's Marshal output through the translated entry point
   uint256 arithmetic on `index`: modelled as checked (revert on overflow) and PROVED never to fire for inputs whose length + 31 is below
   2^256 (fits_memory; every memory array satisfies it).  keccak256 / ecrecover / contract state are fields of the environment record. *)
From Coq Require Import String.
From Coq Require Import List ZArith Lia Bool Arith.
From Coq Require Import Strings.Byte.
From WH Require Import lib.Bytes lib.Layout lib.SolRt gen.Extracted gen.ExtractedSolVerify gen.ExtractedContractVerify model.Vaa model.Contracts
  proofs.VaaProofs proofs.LayoutProofs proofs.QuorumProofs proofs.ContractVerifyProofs.
Import ListNotations.
Open Scope Z_scope.

(* ------------------------------------------------------------------ primitives *)
Lemma skipn_app_exact {A} (a b : list A) : skipn (length a) (a ++ b) = b.
Proof. rewrite skipn_app, Nat.sub_diag, skipn_all. reflexivity. Qed.

Lemma step_read w bs pre rest idx : bs = pre ++ rest -> Z.of_nat (length pre) = idx -> Z.of_nat (length bs) + 31 < 2 ^ 256 ->
  rd_at w bs idx = match take w rest with Some (a, _) => Some a | None => None end.
Proof.
  intros Hb Hl Hlen. unfold rd_at, take. subst bs idx. rewrite app_length in *. rewrite Nat2Z.id, skipn_app_exact.
  destruct (Nat.leb_spec w (length rest)) as [H|H].
  - destruct (Z.ltb_spec (Z.of_nat (length pre) + Z.of_nat w) (2 ^ 256)); [|lia].
    destruct (Z.leb_spec (Z.of_nat (length pre) + Z.of_nat w) (Z.of_nat (length pre + length rest))); [|lia]. reflexivity.
  - destruct (Z.leb_spec (Z.of_nat (length pre) + Z.of_nat w) (Z.of_nat (length pre + length rest))); [lia|].
    rewrite andb_false_r. reflexivity.
Qed.

Lemma add_chk_ok bits a b : a + b < 2 ^ bits -> add_chk bits a b = Some (a + b).
Proof. intros H. unfold add_chk. destruct (Z.ltb_spec (a + b) (2 ^ bits)); [reflexivity|lia]. Qed.

Lemma take_step w rest a r pre bs idx : take w rest = Some (a, r) -> bs = pre ++ rest -> Z.of_nat (length pre) = idx ->
  bs = (pre ++ a) ++ r /\ Z.of_nat (length (pre ++ a)) = idx + Z.of_nat w.
Proof.
  intros T Hb Hl. apply take_inv in T as [-> Ha]. split; [rewrite <- app_assoc; exact Hb|rewrite app_length; lia].
Qed.

Lemma idx_le (bs pre rest : list byte) idx : bs = pre ++ rest -> Z.of_nat (length pre) = idx -> idx <= Z.of_nat (length bs).
Proof. intros -> <-. rewrite app_length. lia. Qed.

Lemma slice_rest bs pre rest idx : bs = pre ++ rest -> Z.of_nat (length pre) = idx -> Z.of_nat (length bs) + 31 < 2 ^ 256 ->
  sub_chk (Z.of_nat (length bs)) idx = Some (Z.of_nat (length rest)) /\ sol_slice bs idx (Z.of_nat (length rest)) = Some rest.
Proof.
  intros Hb Hl Hlen. subst bs idx. rewrite app_length in *. split.
  - unfold sub_chk. destruct (Z.leb_spec (Z.of_nat (length pre)) (Z.of_nat (length pre + length rest))); [|lia]. f_equal. lia.
  - unfold sol_slice. rewrite app_length.
    destruct (Z.ltb_spec (Z.of_nat (length rest) + 31) (2 ^ 256)); [|lia].
    destruct (Z.ltb_spec (Z.of_nat (length pre) + Z.of_nat (length rest)) (2 ^ 256)); [|lia].
    destruct (Z.leb_spec (Z.of_nat (length pre) + Z.of_nat (length rest)) (Z.of_nat (length pre + length rest))); [|lia].
    cbn [andb]. rewrite !Nat2Z.id, skipn_app_exact, firstn_all. reflexivity.
Qed.

Lemma sol_nth_mid {A} (done : list A) x tl : sol_nth (done ++ x :: tl) (Z.of_nat (length done)) = Some x.
Proof. unfold sol_nth. rewrite Nat2Z.id, nth_error_app2, Nat.sub_diag by lia. reflexivity. Qed.

Lemma upd_nat_mid {A} (done : list A) x tl y : upd_nat (done ++ x :: tl) (length done) y = Some (done ++ y :: tl).
Proof. induction done as [|d done IH]; [reflexivity|]. cbn [app length upd_nat]. rewrite IH. reflexivity. Qed.
Lemma sol_upd_mid {A} (done : list A) x tl y : sol_upd (done ++ x :: tl) (Z.of_nat (length done)) y = Some (done ++ y :: tl).
Proof. unfold sol_upd. rewrite Nat2Z.id. apply upd_nat_mid. Qed.

(* ------------------------------------------------------------------ layouts: what a successful sequential read consumed *)
Definition lay_len (L : layout) : nat := fold_right (fun fw acc => (snd fw + acc)%nat) 0%nat L.

Lemma read_layout_consumes L : forall l fs r, read_layout L l = Some (fs, r) -> exists mid, l = mid ++ r /\ length mid = lay_len L.
Proof.
  induction L as [|[f w] L IH]; intros l fs r H; cbn [read_layout] in H.
  - inversion H; subst. exists []. split; reflexivity.
  - destruct (take w l) as [[a r1]|] eqn:T; [|discriminate].
    destruct (read_layout L r1) as [[fs' r']|] eqn:R; [|discriminate]. inversion H; subst.
    apply take_inv in T as [-> Ha]. destruct (IH _ _ _ R) as (mid & -> & Hm).
    exists (a ++ mid). split; [rewrite app_assoc; reflexivity|]. rewrite app_length. cbn [lay_len fold_right snd]. fold (lay_len L). lia.
Qed.

Lemma read_layouts_consumes L : forall n l fss r, read_layouts n L l = Some (fss, r) ->
  exists mid, l = mid ++ r /\ length mid = (n * lay_len L)%nat /\ length fss = n.
Proof.
  induction n as [|n IH]; intros l fss r H; cbn [read_layouts] in H.
  - inversion H; subst. exists []. repeat split; reflexivity.
  - destruct (read_layout L l) as [[fs r1]|] eqn:R1; [|discriminate].
    destruct (read_layouts n L r1) as [[fss' r']|] eqn:R2; [|discriminate]. inversion H; subst.
    destruct (read_layout_consumes _ _ _ _ R1) as (m1 & -> & H1). destruct (IH _ _ _ R2) as (m2 & -> & H2 & H3).
    exists (m1 ++ m2). repeat split; [rewrite app_assoc; reflexivity|rewrite app_length; lia|cbn [length]; lia].
Qed.

(* ------------------------------------------------------------------ the hand model's result as a VM struct *)
Definition fz (f : fld) (fs : list (fld * list byte)) : Z := match fget f fs with Some b => unbe b | None => 0 end.
Definition fb (f : fld) (fs : list (fld * list byte)) : list byte := match fget f fs with Some b => b | None => [] end.
Definition sig_of_fields (fs : list (fld * list byte)) : Signature :=
  {| Signature_r := fb FSigR fs; Signature_s := fb FSigS fs; Signature_v := fz FSigV fs + sol_sig_v_plus; Signature_guardianIndex := fz FSigIndex fs |}.
(* `toUint8(index) + 27` is a checked uint8 addition *)
Definition v_fits (fs : list (fld * list byte)) : bool := fz FSigV fs + sol_sig_v_plus <? 2 ^ 8.
Definition vm_of_sol (k : list byte -> list byte) (sv : sol_vm) : VM :=
  {| VM_version := fz FVersion (sv_header sv); VM_timestamp := fz FTimestamp (sv_body sv); VM_nonce := fz FNonce (sv_body sv);
     VM_emitterChainId := fz FEChain (sv_body sv); VM_targetChainId := fz FTChain (sv_body sv); VM_emitterAddress := fb FEAddr (sv_body sv);
     VM_sequence := fz FSeq (sv_body sv); VM_consistencyLevel := fz FCL (sv_body sv); VM_payload := sv_payload sv;
     VM_guardianSetIndex := fz FGsIndex (sv_header sv); VM_signatures := map sig_of_fields (sv_sigs sv);
     VM_hash := if sol_hash_double_keccak then k (k (sv_hashed sv)) else k (sv_hashed sv) |}.
Definition sol_parse_vm (k : list byte -> list byte) (bs : list byte) : option VM :=
  match sol_parse bs with
  | None => None
  | Some sv => if forallb v_fits (sv_sigs sv) then Some (vm_of_sol k sv) else None
  end.

Definition fits_memory (bs : list byte) : Prop := Z.of_nat (length bs) + 31 < 2 ^ 256.

Ltac rd_step T a r :=
  match goal with
  | Hb : ?bs = ?pre ++ ?rest, Hl : Z.of_nat (length ?pre) = ?idx, Hlen : Z.of_nat (length ?bs) + 31 < 2 ^ 256 |- context [rd_at ?w ?bs ?idx] =>
    rewrite (step_read w bs pre rest idx Hb Hl Hlen);
    destruct (take w rest) as [[a r]|] eqn:T;
    [ let H1 := fresh "Hb" in let H2 := fresh "Hl" in
      let wz := eval cbv in (Z.of_nat w) in
      destruct (take_step w rest a r pre bs idx T Hb Hl) as [H1 H2]; clear Hb Hl;
      change (Z.of_nat w) with wz in H2;
      rewrite (add_chk_ok 256 idx wz) by (pose proof (idx_le _ _ _ _ H1 H2); lia);
      rename H1 into Hb; rename H2 into Hl
    | ]
  end.

Ltac fin :=
  repeat match goal with
  | |- context [match take ?w ?l with _ => _ end] => destruct (take w l) as [[? ?]|]
  end; cbn [fget option_map]; try reflexivity.

Lemma set_sigs_twice a b v : set_VM_signatures a (set_VM_signatures b v) = set_VM_signatures a v.
Proof. reflexivity. Qed.

Lemma loop_eq E bs : fits_memory bs -> forall fuel done pre rest i idx vm slen,
  bs = pre ++ rest -> Z.of_nat (length pre) = idx -> i = Z.of_nat (length done) ->
  VM_signatures vm = done ++ repeat zero_Signature fuel ->
  src_parseVM_loop1 E fuel i bs vm idx slen =
  match read_layouts fuel sol_sig_layout rest with
  | None => None
  | Some (fss, _) => if forallb v_fits fss
                     then Some (inr (set_VM_signatures (done ++ map sig_of_fields fss) vm, idx + Z.of_nat (fuel * lay_len sol_sig_layout)))
                     else None
  end.
Proof.
  unfold fits_memory. intros Hlen fuel. induction fuel as [|fuel IH]; intros done pre rest i idx vm slen Hb Hl Hi Hs.
  - cbn [src_parseVM_loop1 read_layouts forallb map repeat] in *. rewrite app_nil_r in *. rewrite <- Hs. do 3 f_equal; [destruct vm; reflexivity|cbn; lia].
  - cbn [src_parseVM_loop1 read_layouts read_layout sol_sig_layout]. unfold toUint, toBytes32.
    cbn [repeat] in Hs. subst i.
    rd_step T1 a1 r1; [|fin]. cbn [option_map]. rewrite Hs, sol_nth_mid, sol_upd_mid. cbn [VM_signatures set_VM_signatures].
    rd_step T2 a2 r2; [|fin]. rewrite sol_nth_mid, sol_upd_mid. cbn [VM_signatures set_VM_signatures].
    rd_step T3 a3 r3; [|fin]. rewrite sol_nth_mid, sol_upd_mid. cbn [VM_signatures set_VM_signatures].
    rd_step T4 a4 r4; [|fin]. cbn [option_map].
    assert (VF : forall fss, forallb v_fits ([(FSigIndex, a1); (FSigR, a2); (FSigS, a3); (FSigV, a4)] :: fss) = (unbe a4 + 27 <? 2 ^ 8) && forallb v_fits fss) by reflexivity.
    unfold add_chk at 1. destruct (unbe a4 + 27 <? 2 ^ 8) eqn:V.
    2:{ destruct (read_layouts fuel _ r4) as [[? ?]|]; [rewrite VF|]; reflexivity. }
    rewrite sol_nth_mid, sol_upd_mid. cbn [VM_signatures set_VM_signatures].
    rewrite !set_sigs_twice.
    match goal with |- src_parseVM_loop1 E fuel _ bs (set_VM_signatures (done ++ ?s :: _) vm) ?ix slen = _ =>
      rewrite (IH (done ++ [s]) _ r4 _ ix _ slen Hb Hl)
    end.
    + destruct (read_layouts fuel sol_sig_layout r4) as [[fss r5]|]; [|reflexivity]. rewrite VF. cbn [andb].
      destruct (forallb v_fits fss); [|reflexivity]. rewrite set_sigs_twice. cbn [map]. rewrite <- app_assoc. cbn [app].
      do 3 f_equal. cbn [lay_len sol_sig_layout fold_right snd]. lia.
    + rewrite app_length. cbn [length]. lia.
    + cbn [VM_signatures set_VM_signatures]. rewrite <- app_assoc. reflexivity.
Qed.

Theorem src_parseVM_eq E bs : fits_memory bs -> src_parseVM E bs = sol_parse_vm (e_keccak256 E) bs.
Proof.
  unfold fits_memory. intros Hlen. unfold src_parseVM, sol_parse_vm, sol_parse. cbn [read_layout sol_header_layout]. unfold toUint, toBytes32.
  assert (Hb : bs = [] ++ bs) by reflexivity. assert (Hl : Z.of_nat (length (@nil byte)) = 0) by reflexivity.
  rd_step T1 a1 r1; [|fin]. cbn [option_map VM_version set_VM_version].
  change sol_version_required with 1.
  destruct (unbe a1 =? 1) eqn:V; [|fin; rewrite V; reflexivity].
  rd_step T2 a2 r2; [|fin].
  rd_step T3 a3 r3; [|fin]. cbn [option_map fget]. rewrite V. cbn [negb].
  rewrite (loop_eq E bs Hlen (Z.to_nat (unbe a3)) [] _ r3 0 _ _ (unbe a3) Hb Hl eq_refl) by reflexivity.
  destruct (read_layouts (Z.to_nat (unbe a3)) sol_sig_layout r3) as [[fss r4]|] eqn:RL; [|reflexivity].
  cbn [sv_sigs].
  destruct (read_layouts_consumes _ _ _ _ _ RL) as (mid & Hr3 & Hmid & _).
  assert (Hb' : bs = ((([] ++ a1) ++ a2) ++ a3 ++ mid) ++ r4) by (rewrite Hb, Hr3, <- !app_assoc; reflexivity).
  assert (Hl' : Z.of_nat (length ((([] ++ a1) ++ a2) ++ a3 ++ mid)) = 0 + 1 + 4 + 1 + Z.of_nat (Z.to_nat (unbe a3) * lay_len sol_sig_layout)).
  { rewrite app_assoc, app_length, Hmid. rewrite <- Hl. lia. }
  clear Hb Hl. rename Hb' into Hb, Hl' into Hl.
  change (firstn sol_hash_after_body_fields sol_body_layout) with (@nil (fld * nat)). cbn [read_layout sol_body_layout].
  destruct (forallb v_fits fss) eqn:VF.
  2:{ fin. cbn [sv_sigs]. rewrite VF. reflexivity. }
  destruct (slice_rest bs _ r4 _ Hb Hl Hlen) as [S1 S2]. rewrite S1, S2.
  cbn [VM_hash set_VM_hash].
  rd_step U1 b1 s1; [|fin].
  rd_step U2 b2 s2; [|fin].
  rd_step U3 b3 s3; [|fin].
  rd_step U4 b4 s4; [|fin].
  rd_step U5 b5 s5; [|fin].
  rd_step U6 b6 s6; [|fin].
  rd_step U7 b7 s7; [|fin].
  destruct (slice_rest bs _ s7 _ Hb Hl Hlen) as [S3 S4]. rewrite S3, S4.
  cbn [option_map sv_sigs]. rewrite VF. reflexivity.
Qed.

(* ------------------------------------------------------------------ verifySignatures *)
(* the recovered address of one signature record *)
Definition sig_signer (E : SolEnv) (h : list byte) (s : Signature) : list byte :=
  e_ecrecover E h (Signature_v s) (Signature_r s) (Signature_s s).

(* the closed form: walk the list; position 0 is exempt from the ordering test (`i == 0 ||`), an index outside the key list reverts
   (Solidity's array bounds panic — the source has no explicit require), a wrong signer returns (false, _) *)
Inductive vs_outcome := VsAccept | VsReject | VsRevert.
Fixpoint vs_spec (E : SolEnv) (h : list byte) (keys : list (list byte)) (first : bool) (last : Z) (sigs : list Signature) : vs_outcome :=
  match sigs with
  | [] => VsAccept
  | s :: t =>
    if first || (Signature_guardianIndex s >? last) then
      match nth_error keys (Z.to_nat (Signature_guardianIndex s)) with
      | None => VsRevert
      | Some k => if bytes_eqb (sig_signer E h s) k then vs_spec E h keys false (Signature_guardianIndex s) t else VsReject
      end
    else VsRevert
  end.
Definition vs_result (o : vs_outcome) : option (bool * string) :=
  match o with VsAccept => Some (true, ""%string) | VsReject => Some (false, "VM signature invalid"%string) | VsRevert => None end.

Lemma vs_loop_eq E h gs valid reason : forall todo done last,
  src_verifySignatures_loop1 E (length todo) (Z.of_nat (length done)) h (done ++ todo) gs valid reason last =
  match vs_spec E h (GuardianSet_keys gs) (Z.of_nat (length done) =? 0) last todo with
  | VsAccept => match todo with [] => Some (inr last) | _ => Some (inr (Signature_guardianIndex (List.last todo zero_Signature))) end
  | VsReject => Some (inl (false, "VM signature invalid"%string))
  | VsRevert => None
  end.
Proof.
  induction todo as [|s todo IH]; intros done last; [reflexivity|].
  cbn [length src_verifySignatures_loop1 vs_spec]. rewrite sol_nth_mid.
  destruct ((Z.of_nat (length done) =? 0) || (Signature_guardianIndex s >? last)); [|reflexivity].
  unfold sol_nth. destruct (nth_error (GuardianSet_keys gs) (Z.to_nat (Signature_guardianIndex s))) as [k|]; [|reflexivity].
  unfold sig_signer. destruct (bytes_eqb (e_ecrecover E h (Signature_v s) (Signature_r s) (Signature_s s)) k); cbn [negb]; [|reflexivity].
  replace (done ++ s :: todo) with ((done ++ [s]) ++ todo) by (rewrite <- app_assoc; reflexivity).
  replace (Z.of_nat (length done) + 1) with (Z.of_nat (length (done ++ [s]))) by (rewrite app_length; cbn [length]; lia).
  rewrite IH. replace (Z.of_nat (length (done ++ [s])) =? 0) with false by (rewrite app_length; cbn [length]; symmetry; apply Z.eqb_neq; lia).
  destruct (vs_spec E h (GuardianSet_keys gs) false (Signature_guardianIndex s) todo); try reflexivity.
  destruct todo; reflexivity.
Qed.

Theorem src_verifySignatures_eq E h sigs gs :
  src_verifySignatures E h sigs gs = vs_result (vs_spec E h (GuardianSet_keys gs) true 0 sigs).
Proof.
  unfold src_verifySignatures. rewrite Nat2Z.id.
  pose proof (vs_loop_eq E h gs false ""%string sigs [] 0) as H. cbn [app length] in H. change (Z.of_nat 0) with 0 in H. rewrite H.
  change (0 =? 0) with true.
  destruct (vs_spec E h (GuardianSet_keys gs) true 0 sigs); [destruct sigs|..]; reflexivity.
Qed.

(* what "accept" means *)
Fixpoint ascending (l : list Z) : Prop :=
  match l with
  | [] => True
  | a :: t => match t with [] => True | b :: _ => a < b /\ ascending t end
  end.
Definition sig_valid (E : SolEnv) (h : list byte) (keys : list (list byte)) (s : Signature) : Prop :=
  exists k, nth_error keys (Z.to_nat (Signature_guardianIndex s)) = Some k /\ sig_signer E h s = k.

Lemma vs_spec_accept_iff E h keys : forall sigs first last,
  vs_spec E h keys first last sigs = VsAccept <->
  (first = false -> match sigs with [] => True | s :: _ => last < Signature_guardianIndex s end) /\
  ascending (map Signature_guardianIndex sigs) /\ Forall (sig_valid E h keys) sigs.
Proof.
  induction sigs as [|s t IH]; intros first last.
  - cbn. split; [intros _; repeat split; auto|reflexivity].
  - cbn [vs_spec map ascending]. split.
    + intros H. destruct (first || (Signature_guardianIndex s >? last)) eqn:C; [|discriminate].
      destruct (nth_error keys (Z.to_nat (Signature_guardianIndex s))) as [k|] eqn:N; [|discriminate].
      destruct (bytes_eqb (sig_signer E h s) k) eqn:B; [|discriminate].
      apply IH in H as (H1 & H2 & H3). apply bytes_eqb_eq in B. repeat split.
      * intros ->. cbn [orb] in C. lia.
      * destruct t as [|s' t]; [exact I|]. cbn [map]. split; [apply H1; reflexivity|exact H2].
      * constructor; [exists k; split; assumption|exact H3].
    + intros (H1 & H2 & H3). inversion H3 as [|? ? Hv H3']; subst. destruct Hv as [k [N B]].
      replace (first || (Signature_guardianIndex s >? last)) with true.
      2:{ destruct first; [reflexivity|]. cbn [orb]. symmetry. specialize (H1 eq_refl). lia. }
      rewrite N. apply bytes_eqb_eq in B. rewrite B. apply IH. repeat split; [|destruct t; [exact I|apply H2]|exact H3'].
      intros _. destruct t as [|s' t]; [exact I|]. cbn [map] in H2. apply H2.
Qed.

Lemma ascending_lt_all : forall l a, ascending (a :: l) -> Forall (fun x => a < x) l.
Proof.
  induction l as [|b l IH]; intros a H; [constructor|]. destruct H as [H1 H2]. constructor; [exact H1|].
  eapply Forall_impl; [|apply IH; exact H2]. cbn. intros; lia.
Qed.
Lemma ascending_tail a l : ascending (a :: l) -> ascending l.
Proof. destruct l; [intros; exact I|intros [_ H]; exact H]. Qed.
Lemma ascending_NoDup : forall l, ascending l -> NoDup l.
Proof.
  induction l as [|a l IH]; intros H; [constructor|]. constructor; [|apply IH; eapply ascending_tail; exact H].
  intros I. pose proof (ascending_lt_all _ _ H) as F. rewrite Forall_forall in F. specialize (F _ I). lia.
Qed.

(* verifySignatures as translated accepts exactly: guardian indices strictly ascending from the second record on (hence pairwise
   distinct), every index inside the key list, every recovered address equal to the key at its index *)
Theorem src_verifySignatures_accepts_iff E h sigs gs :
  (exists r, src_verifySignatures E h sigs gs = Some (true, r)) <->
  ascending (map Signature_guardianIndex sigs) /\ Forall (sig_valid E h (GuardianSet_keys gs)) sigs.
Proof.
  rewrite src_verifySignatures_eq. pose proof (vs_spec_accept_iff E h (GuardianSet_keys gs) sigs true 0) as A.
  destruct (vs_spec E h (GuardianSet_keys gs) true 0 sigs); cbn [vs_result]; split.
  - intros _. apply A. reflexivity.
  - intros _. eexists; reflexivity.
  - intros [r H]; discriminate.
  - intros H. assert (VsReject = VsAccept) by (apply A; split; [discriminate|exact H]). discriminate.
  - intros [r H]; discriminate.
  - intros H. assert (VsRevert = VsAccept) by (apply A; split; [discriminate|exact H]). discriminate.
Qed.

(* the other two outcomes, by the first offending record: a record whose index is not above its predecessor's (position >= 1) or lies
   outside the key list reverts the call; a record that passes both tests but recovers another address returns (false, _) *)
Theorem src_verifySignatures_outcomes E h gs : forall pre s post,
  ascending (map Signature_guardianIndex pre) -> Forall (sig_valid E h (GuardianSet_keys gs)) pre ->
  let gi := Signature_guardianIndex s in
  let ordered := match pre with [] => True | _ => Signature_guardianIndex (List.last pre zero_Signature) < gi end in
  (~ ordered -> src_verifySignatures E h (pre ++ s :: post) gs = None) /\
  (ordered -> nth_error (GuardianSet_keys gs) (Z.to_nat gi) = None -> src_verifySignatures E h (pre ++ s :: post) gs = None) /\
  (ordered -> forall k, nth_error (GuardianSet_keys gs) (Z.to_nat gi) = Some k -> sig_signer E h s <> k ->
     src_verifySignatures E h (pre ++ s :: post) gs = Some (false, "VM signature invalid"%string)).
Proof.
  intros pre s post Hasc Hval gi ordered. rewrite src_verifySignatures_eq.
  assert (G : forall first last, (first = false -> match pre with [] => True | p :: _ => last < Signature_guardianIndex p end) ->
     vs_spec E h (GuardianSet_keys gs) first last (pre ++ s :: post) =
     vs_spec E h (GuardianSet_keys gs) (match pre with [] => first | _ => false end)
             (match pre with [] => last | _ => Signature_guardianIndex (List.last pre zero_Signature) end) (s :: post)).
  { clear ordered. induction pre as [|p pre IH]; intros first last H1; [reflexivity|].
    cbn [app vs_spec]. inversion Hval as [|? ? Hv Hval']; subst. destruct Hv as [k [N B]].
    replace (first || (Signature_guardianIndex p >? last)) with true.
    2:{ destruct first; [reflexivity|]. cbn [orb]. symmetry. specialize (H1 eq_refl). lia. }
    rewrite N. apply bytes_eqb_eq in B. rewrite B.
    rewrite IH; [|eapply ascending_tail; exact Hasc|exact Hval'|].
    - destruct pre as [|p' pre]; reflexivity.
    - intros _. destruct pre as [|p' pre]; [exact I|]. cbn [map] in Hasc. apply Hasc. }
  rewrite G by discriminate. clear G. cbn [vs_spec]. fold gi.
  repeat split.
  - intros HN. destruct pre as [|p pre]; [exfalso; apply HN; exact I|]. cbn [orb].
    replace (gi >? Signature_guardianIndex (List.last (p :: pre) zero_Signature)) with false by (symmetry; unfold ordered in HN; lia). reflexivity.
  - intros HO N. rewrite N. destruct pre as [|p pre]; [reflexivity|]. cbn [orb].
    replace (gi >? Signature_guardianIndex (List.last (p :: pre) zero_Signature)) with true by (symmetry; unfold ordered in HO; lia). reflexivity.
  - intros HO k N B. rewrite N.
    replace (bytes_eqb (sig_signer E h s) k) with false by (symmetry; apply not_true_is_false; intros X; apply bytes_eqb_eq in X; contradiction).
    destruct pre as [|p pre]; [reflexivity|]. cbn [orb].
    replace (gi >? Signature_guardianIndex (List.last (p :: pre) zero_Signature)) with true by (symmetry; unfold ordered in HO; lia). reflexivity.
Qed.

(* ------------------------------------------------------------------ verifyVM, parseAndVerifyVM *)
Definition accepted (r : option (bool * string)) : bool := match r with Some (true, _) => true | _ => false end.
Definition accepted3 (r : option (VM * bool * string)) : bool := match r with Some (_, true, _) => true | _ => false end.

(* the translated verifyVM, with the translated verifySignatures inside, IS the function C07's accept-iff theorems are about
   (sol_verifyVM of gen/x_contractverify.py) at sigs_valid := the verdict of the translated verifySignatures *)
Theorem src_verifyVM_eq E vm :
  let gs := e_getGuardianSet E (VM_guardianSetIndex vm) in
  accepted (src_verifyVM E vm) =
  sol_verifyVM (Z.of_nat (length (GuardianSet_keys gs))) (Z.of_nat (length (VM_signatures vm))) (VM_guardianSetIndex vm) (e_curidx E)
               (GuardianSet_expirationTime gs) (e_now E) (accepted (src_verifySignatures E (VM_hash vm) (VM_signatures vm) gs)).
Proof.
  cbv zeta. unfold src_verifyVM, sol_verifyVM.
  destruct (src_verifySignatures E (VM_hash vm) (VM_signatures vm) (e_getGuardianSet E (VM_guardianSetIndex vm))) as [[[|] r]|];
    cbn [accepted negb]; repeat match goal with |- context [if ?c then _ else _] => destruct c end; reflexivity.
Qed.

(* verifyVM reverts only through verifySignatures, and only when its own three guards let the call get there *)
Theorem src_verifyVM_reverts_iff E vm :
  let gs := e_getGuardianSet E (VM_guardianSetIndex vm) in
  src_verifyVM E vm = None <->
  sol_verifyVM (Z.of_nat (length (GuardianSet_keys gs))) (Z.of_nat (length (VM_signatures vm))) (VM_guardianSetIndex vm) (e_curidx E)
               (GuardianSet_expirationTime gs) (e_now E) true = true /\
  src_verifySignatures E (VM_hash vm) (VM_signatures vm) gs = None.
Proof.
  cbv zeta. unfold src_verifyVM, sol_verifyVM.
  destruct (src_verifySignatures E (VM_hash vm) (VM_signatures vm) (e_getGuardianSet E (VM_guardianSetIndex vm))) as [[[|] r]|];
    cbn [negb]; repeat match goal with |- context [if ?c then _ else _] => destruct c end; cbn; split; intros H; try discriminate; try (destruct H; discriminate); auto.
Qed.

Theorem src_parseAndVerifyVM_eq E bs :
  src_parseAndVerifyVM E bs =
  match src_parseVM E bs with
  | None => None
  | Some vm => match src_verifyVM E vm with None => None | Some (valid, reason) => Some (vm, valid, reason) end
  end.
Proof.
  unfold src_parseAndVerifyVM. destruct (src_parseVM E bs) as [vm|]; [|reflexivity].
  destruct (src_verifyVM E vm) as [[valid reason]|]; reflexivity.
Qed.

(* ------------------------------------------------------------------ the node's wire form through the translated entry point *)
Definition sig_of_go (s : sig) : Signature :=
  {| Signature_r := firstn 32 (s_data s); Signature_s := firstn 32 (skipn 32 (s_data s));
     Signature_v := unbe (skipn 64 (s_data s)) + 27; Signature_guardianIndex := s_idx s |}.
Definition vm_of_vaa (k : list byte -> list byte) (v : vaa) : VM :=
  {| VM_version := version v; VM_timestamp := ts v; VM_nonce := nonce v; VM_emitterChainId := echain v; VM_targetChainId := tchain v;
     VM_emitterAddress := eaddr v; VM_sequence := seq v; VM_consistencyLevel := cl v; VM_payload := payload v;
     VM_guardianSetIndex := gsidx v; VM_signatures := map sig_of_go (sigs v); VM_hash := digest k v |}.
(* the recovery id the node writes as 65th signature byte, plus 27, is a uint8 (0 / 1 in every signature go-ethereum produces) *)
Definition recid_ok (s : sig) : Prop := unbe (skipn 64 (s_data s)) + 27 < 2 ^ 8.

Lemma fits_go_sigs l : Forall recid_ok l -> forallb v_fits (map go_sig_fields l) = true.
Proof.
  induction l as [|s l IH]; intros F; [reflexivity|]. inversion F as [|? ? H F']; subst. cbn [map forallb]. rewrite IH by assumption.
  unfold v_fits, fz, go_sig_fields. cbn [fget]. change sol_sig_v_plus with 27. unfold recid_ok in H.
  destruct (Z.ltb_spec (unbe (skipn 64 (s_data s)) + 27) (2 ^ 8)); [reflexivity|lia].
Qed.

Lemma sigs_of_go l : Forall wf_sig l -> map sig_of_fields (map go_sig_fields l) = map sig_of_go l.
Proof.
  intros F. rewrite map_map. apply map_ext_in. intros s I. rewrite Forall_forall in F. destruct (F s I) as [Hi _].
  unfold sig_of_fields, sig_of_go, go_sig_fields, fz, fb. cbn [fget]. change sol_sig_v_plus with 27. rewrite unbe_be_small by exact Hi. reflexivity.
Qed.

Theorem src_parseVM_marshal E v : wf v -> fits_memory (marshal v) -> Forall recid_ok (sigs v) ->
  src_parseVM E (marshal v) = Some (vm_of_vaa (e_keccak256 E) v).
Proof.
  intros W M R. destruct W as [Wv Wgs Wns Wsigs Wts Wtns Wno Wec Wtc Wea Wseq Wcl Wpl].
  rewrite src_parseVM_eq by exact M. unfold sol_parse_vm. rewrite sol_parse_marshal by assumption. cbn [sv_sigs].
  rewrite fits_go_sigs by exact R. f_equal. unfold vm_of_sol, vm_of_vaa. cbn [sv_header sv_body sv_sigs sv_payload sv_hashed].
  rewrite sigs_of_go by exact Wsigs. unfold fz, fb, go_header_fields, go_body_fields. cbn [fget].
  change sol_hash_double_keccak with true. cbv iota. unfold digest.
  rewrite (unbe_be_small 1 (version v)) by (rewrite Wv; vm_compute; split; [discriminate|reflexivity]).
  rewrite !unbe_be_small by assumption.
  reflexivity.
Qed.

Lemma accepted_true_iff r : accepted r = true <-> exists m, r = Some (true, m).
Proof. destruct r as [[[|] m]|]; cbn; split; intros H; try discriminate; try (eexists; reflexivity); destruct H; discriminate. Qed.

(* C07: a serialized VAA of the node goes through the translated parseAndVerifyVM exactly when the set it names is non-empty and current
   or unexpired, its signature count reaches the node's quorum, the guardian indices are strictly ascending and every signature
   recovers, over the digest the node signs, the key at its index *)
Theorem sol_source_accepts_iff E v : wf v -> fits_memory (marshal v) -> Forall recid_ok (sigs v) ->
  let gs := e_getGuardianSet E (gsidx v) in
  let n := Z.of_nat (length (GuardianSet_keys gs)) in
  accepted3 (src_parseAndVerifyVM E (marshal v)) = true <->
  n <> 0 /\ (gsidx v = e_curidx E \/ e_now E <= GuardianSet_expirationTime gs) /\ go_quorum n <= Z.of_nat (length (sigs v)) /\
  ascending (map s_idx (sigs v)) /\
  Forall (fun s => sig_valid E (digest (e_keccak256 E) v) (GuardianSet_keys gs) (sig_of_go s)) (sigs v).
Proof.
  intros W M R gs n. rewrite src_parseAndVerifyVM_eq, src_parseVM_marshal by assumption.
  set (vm := vm_of_vaa (e_keccak256 E) v).
  assert (A : accepted3 match src_verifyVM E vm with None => None | Some (valid, reason) => Some (vm, valid, reason) end = accepted (src_verifyVM E vm))
    by (destruct (src_verifyVM E vm) as [[[|] r]|]; reflexivity).
  rewrite A, src_verifyVM_eq. cbv zeta. subst vm. cbn [VM_guardianSetIndex VM_signatures VM_hash vm_of_vaa]. fold gs. rewrite map_length.
  fold n. rewrite sol_accepts_iff by (unfold n; lia).
  rewrite accepted_true_iff, src_verifySignatures_accepts_iff. rewrite map_map. cbn [Signature_guardianIndex sig_of_go].
  rewrite Forall_map. tauto.
Qed.

(* ... hence with fewer DISTINCT signers than the quorum it is never accepted: an accepted VAA carries pairwise distinct guardian indices,
   at least quorum many *)
Theorem sol_source_accepted_has_quorum_of_distinct_signers E v : wf v -> fits_memory (marshal v) -> Forall recid_ok (sigs v) ->
  accepted3 (src_parseAndVerifyVM E (marshal v)) = true ->
  NoDup (map s_idx (sigs v)) /\
  go_quorum (Z.of_nat (length (GuardianSet_keys (e_getGuardianSet E (gsidx v))))) <= Z.of_nat (length (map s_idx (sigs v))).
Proof.
  intros W M R A. apply sol_source_accepts_iff in A as (_ & _ & Q & As & _); try assumption.
  split; [apply ascending_NoDup; exact As|rewrite map_length; exact Q].
Qed.

(* the reason text the translated verifySignatures returns for a wrong signer (for statements in files that do not open string_scope) *)
Definition reason_signature_invalid : string := "VM signature invalid"%string.
