(* Proofs about model/GovPipeline.v: governance end to end.
   1. the admin RPC: the loop as the source indexes its `digests` array = Governance.inject; digest k belongs to message k;
   2. one node: over a calm window of ANY history, a node that was handed the VAA v and receives the observations of a quorum
      publishes [marshal (set_sigs v sg)] with a valid quorum [sg] of the set in force (liveness of C02 for injections + the form
      of what is published), unless another of its own VAAs aliases v's digest (explicit hypothesis, no hash assumption);
   3. the network (projection);
   4. the contract side: the published bytes pass parseAndVerifyVAA (slices, governance set index, quorum, signature loop) and the
      generic module / action / emitter / sequence check, and the entry point binds the requested values;
   5. different requests: aggregation entries are keyed by digest, a body determines the request's fields. *)
From Coq Require Import Strings.String.
From Coq Require Import List ZArith Lia Bool Arith.
From Coq Require Import Strings.Byte.
From WH Require Import lib.Bytes lib.Ralph gen.Extracted gen.ExtractedGov model.Vaa model.AlphConv model.Governance
     model.Processor model.ProcSpec model.System model.GovPipeline
     proofs.VaaProofs proofs.QuorumProofs proofs.ProcessorProofs proofs.ProcC01Proofs proofs.ProcC02Proofs proofs.ProcCleanupProofs
     proofs.SystemProofs proofs.SystemLiveProofs proofs.GovernanceProofs.
From WH Require model.Contracts lib.Layout proofs.LayoutProofs.
Import ListNotations.
Import ExtractedGov.GoPay ExtractedGov.RalGov ExtractedGov.RalGlue.
Open Scope Z_scope.

(* ================================================================== 0. what the model relies on in handleInjection / the loop *)
(* handleInjection hands the VAA it was given, unchanged, to broadcastSignature (no field of v is written on the way: the model's
   [handle_injection st v = broadcast_signature st v (sign (dg v)) [] false]); the send on injectC precedes the store of the digest *)
Lemma injection_shape : go_injection_writes = [] /\ go_inj_send_before_store = true.
Proof. split; reflexivity. Qed.

(* ================================================================== 1. the admin RPC *)
Lemma set_nth_app_repeat {A} (d x : A) : forall done k, set_nth (length done) x (done ++ repeat d (S k)) = (done ++ [x]) ++ repeat d k.
Proof.
  induction done as [|a done IH]; intros k; [reflexivity|]. cbn [length app set_nth]. rewrite IH. reflexivity.
Qed.

Section RpcProofs.
Variable keccak : bytes -> bytes.

Lemma inject_array_loop c ts gsi : forall msgs n i sent done, length done = i -> n = (i + length msgs)%nat ->
  inject_array keccak c ts gsi n i msgs sent (done ++ repeat [] (length msgs)) = inject_loop keccak c ts gsi msgs sent done.
Proof.
  induction msgs as [|m rest IH]; intros n i sent done Hd Hn; cbn [inject_array inject_loop length repeat].
  - rewrite app_nil_r. reflexivity.
  - destruct (gm_tchain m >? go_adm_target_max); [reflexivity|].
    destruct (conv c (env_of ts gsi m) (gm_payload m)) as [v|x|]; [|reflexivity|reflexivity].
    change (go_inj_slot i n) with i. rewrite <- Hd.
    change (?a :: repeat [] (length rest)) with (repeat (@nil byte) (S (length rest))).
    rewrite set_nth_app_repeat. apply IH; [rewrite app_length; cbn [Datatypes.length]; unfold bytes; lia|cbn [Datatypes.length] in Hn; unfold bytes in *; lia].
Qed.

(* the loop as adminserver.go writes it (array slots) is the loop of model/Governance.v (append) *)
Theorem inject_rpc_is_inject c q : inject_rpc keccak c q = inject keccak c (q_ts q) (q_gsi q) (q_msgs q).
Proof. unfold inject_rpc, inject. apply (inject_array_loop c (q_ts q) (q_gsi q) (q_msgs q) _ 0%nat [] []); reflexivity. Qed.

Lemma Forall2_nth_error {A B} (P : A -> B -> Prop) : forall l1 l2, Forall2 P l1 l2 ->
  forall k a, nth_error l1 k = Some a -> exists b, nth_error l2 k = Some b /\ P a b.
Proof.
  induction 1 as [|a0 b0 l1 l2 H0 _ IH]; intros k a Hk; [destruct k; discriminate|].
  destruct k as [|k]; cbn [nth_error] in *; [inversion Hk; subst; exists b0; auto|apply IH; exact Hk].
Qed.

(* (e) the response: one digest per message, in the order of the messages; digest k is the digest of the VAA message k converts
   to, which is the k-th VAA put on injectC *)
Theorem rpc_digest_order c q sent ds : inject_rpc keccak c q = (sent, IOk ds) ->
  length ds = length (q_msgs q) /\ length sent = length (q_msgs q) /\
  forall k m, nth_error (q_msgs q) k = Some m ->
    exists v, gm_tchain m <= 65535 /\ conv c (env_of (q_ts q) (q_gsi q) m) (gm_payload m) = GOk v /\
              nth_error sent k = Some v /\ nth_error ds k = Some (digest keccak v).
Proof.
  rewrite inject_rpc_is_inject. intros H. destruct (inject_spec keccak c _ _ _ _ _ H) as (_ & F & D).
  destruct (D ds eq_refl) as [Hds Hlen]. rewrite Hlen, firstn_all in F.
  split; [rewrite Hds, map_length; exact Hlen|]. split; [exact Hlen|].
  intros k m Hk. destruct (Forall2_nth_error _ _ _ F k m Hk) as (v & Hv & Ht & Hc).
  exists v. split; [exact Ht|]. split; [exact Hc|]. split; [exact Hv|]. rewrite Hds. apply map_nth_error. exact Hv.
Qed.

(* what the operator's call hands to the node: Inject ops, one per produced VAA, in order — a function of the configuration and the
   request alone, whatever node it is submitted to *)
Theorem admin_rpc_same_everywhere c q i j :
  snd (admin_rpc keccak c i q) = snd (admin_rpc keccak c j q) /\
  exists sent, fst (admin_rpc keccak c i q) = map (fun v => NEnv i (EInject v)) sent /\
               fst (admin_rpc keccak c j q) = map (fun v => NEnv j (EInject v)) sent /\ sent = fst (inject_rpc keccak c q).
Proof.
  unfold admin_rpc. destruct (inject_rpc keccak c q) as [sent r]. cbn [fst snd]. split; [reflexivity|]. exists sent. auto.
Qed.
End RpcProofs.

(* ================================================================== 2. one node *)
Fixpoint all_ops {X} (Q : X -> Prop) (l : list X) : Prop := match l with [] => True | o :: t => Q o /\ all_ops Q t end.

Lemma happens_inv {S X} (stp : S -> X -> S) (I : S -> Prop) (Q : X -> Prop) (P : S -> X -> Prop) :
  (forall s o, Q o -> I s -> I (stp s o)) ->
  forall ops st, all_ops Q ops -> I st -> happens stp P st ops -> happens stp (fun s o => I s /\ Q o /\ P s o) st ops.
Proof.
  intros Hstep. induction ops as [|o ops IH]; intros st HQ HI Hev; [destruct Hev|].
  destruct HQ as [Hq HQ]. cbn [happens] in *. destruct Hev as [Hp|Hev]; [left; auto|right].
  apply IH; [exact HQ|apply Hstep; assumption|exact Hev].
Qed.

Lemma happens_impl {S X} (stp : S -> X -> S) (P P' : S -> X -> Prop) : (forall s o, P s o -> P' s o) ->
  forall ops st, happens stp P st ops -> happens stp P' st ops.
Proof. intros H. induction ops as [|o ops IH]; intros st Hev; [destruct Hev|]. destruct Hev as [Hp|Hev]; [left; auto|right; auto]. Qed.

Section Win.
Variable recover : bytes -> bytes -> option bytes.
Variable keccak : bytes -> bytes.
Variable sign : bytes -> bytes.
Variable own : addr.
Variable gov_chain : Z.
Variable gov_addr : bytes.

Notation rec := (Processor.rec recover).
Notation dg := (Processor.dg keccak).
Notation step := (Processor.step recover keccak sign own gov_chain gov_addr).
Notation run := (Processor.run recover keccak sign own gov_chain gov_addr).
Notation handle_obs := (Processor.handle_obs recover).
Notation broadcast_signature := (Processor.broadcast_signature keccak own).
Notation Inv1 := (ProcC01Proofs.Inv1 recover keccak).
Notation Inv2 := (ProcC02Proofs.Inv2 sign own).
Notation accepted := (ProcC02Proofs.accepted recover).
Notation qvalid := (ProcSpec.qvalid recover keccak).
Notation stepf := (fun st o => fst (step st o)).

(* ---- what handleObservation publishes: the entry's own VAA with the assembled signatures, a valid quorum of the applicable set *)
Lemma handle_obs_pub O L st ob x : Inv1 O L st -> In x (snd (handle_obs st ob)) -> is_pub x = true ->
  exists e0 w g sg, alookup (o_hash ob) (agg st) = Some e0 /\ our_vaa e0 = Some w /\ applicable st (o_hash ob) = Some g /\
    qvalid (set_sigs w sg) (keys g) /\
    (x = Store (id_of (set_sigs w sg)) (marshal (set_sigs w sg)) \/ x = SendVAA (marshal (set_sigs w sg))).
Proof.
  intros HI. pose proof HI as [Ia Id Ic Iw]. unfold Processor.handle_obs, applicable.
  destruct (rec (o_hash ob) (o_sig ob)) as [pk|] eqn:Er; [|intros []].
  destruct (bytes_eqb_spec (bytes_to_address (o_addr ob)) pk) as [Hpk|]; cbn [negb]; [|intros []].
  set (their := bytes_to_address (o_addr ob)) in *.
  destruct (alookup (o_hash ob) (agg st)) as [e0|] eqn:Ee.
  2:{ (* no entry: nothing can be published *)
    destruct (cur st) as [g|]; [|intros []]. destruct (Processor.memb their (keys g)); cbn [negb]; [|intros []].
    cbn [new_entry set_esigs esigs our_vaa]. destruct (assemble _ _ _); cbn [snd]; [intros []|intros [E|[]] Hp; subst x; discriminate]. }
  set (gs := match gs_snap e0 with Some g => Some g | None => cur st end).
  destruct gs as [g|] eqn:Eg; [|intros []].
  destruct (Processor.memb their (keys g)) eqn:Em; cbn [negb]; [|intros []].
  assert (He0 : ProcC01Proofs.eok recover keccak O L (o_hash ob) e0).
  { apply alookup_In in Ee. rewrite Forall_forall in Ia. apply (Ia _ Ee). }
  assert (HgL : In g L).
  { subst gs. destruct (gs_snap e0) as [g'|] eqn:Es; [inversion Eg; subst g'; apply (E_snap _ _ _ _ _ _ He0); exact Es|apply Ic; exact Eg]. }
  assert (Hwf : ProcSpec.gs_wf g) by (rewrite Forall_forall in Iw; auto).
  destruct Hwf as [Hnd Hlen].
  set (e1 := set_esigs e0 (aset their (o_sig ob) (esigs e0))).
  assert (Hs1 : Forall (ProcessorProofs.sig_ok recover (o_hash ob)) (esigs e1)).
  { subst e1. cbn [set_esigs esigs]. apply Forall_aset; [|apply (E_sigs _ _ _ _ _ _ He0)].
    unfold ProcessorProofs.sig_ok. cbn [fst snd]. rewrite Hpk. exact Er. }
  destruct (assemble_ok recover (o_hash ob) (esigs e1) Hs1 (keys g) [] Hnd ltac:(cbn [length]; lia))
    as (sg & Ha & Hinc & Hso & _ & Hle & _).
  cbn [length] in Ha, Hinc. change (Z.of_nat 0) with 0 in Ha, Hinc. rewrite Ha.
  change (our_vaa e1) with (our_vaa e0). destruct (our_vaa e0) as [w|] eqn:Ev; [|intros []].
  destruct (proc_local_quorum_reached (go_quorum (Z.of_nat (length (keys g)))) (Z.of_nat (length sg)) && negb (submitted e1)) eqn:Eq; [|intros []].
  apply andb_prop in Eq as [Eq _]. apply local_quorum_reached_iff in Eq.
  destruct sg as [|s0 sg'] eqn:Esg; [intros [E|[]] Hp; subst x; discriminate|]. rewrite <- Esg in *. clear Esg.
  destruct (E_vaa _ _ _ _ _ _ He0 w Ev) as [Hdw _].
  assert (Hqv : qvalid (set_sigs w sg) (keys g)).
  { split; [|exact Eq]. unfold accepts. cbn [sigs set_sigs].
    change (Processor.dg keccak (set_sigs w sg)) with (dg w). rewrite Hdw. cbn [app] in Hso. split; [exact Hinc|]. split; [exact Hso|].
    apply nodup_addrs_signers_distinct with (addrs := keys g); assumption. }
  cbn [snd]. intros Hin _. exists e0, w, g, sg. split; [reflexivity|]. split; [exact Ev|]. split; [reflexivity|]. split; [exact Hqv|].
  destruct Hin as [E|[E|[]]]; [left|right]; symmetry; exact E.
Qed.

Variable G : gset.
Variable v : vaa.
Let h : bytes := dg v.

(* no OTHER own VAA of this node is filed under v's digest: another injected VAA with that digest is v itself, no chain message has
   that digest.  (Entries are keyed by digest; with a collision-free Keccak the premise follows from the bodies being different.) *)
Definition no_alias (o : op) : Prop :=
  match o with
  | Inject v' => dg v' = h -> v' = v
  | LocalMsg m => dg (vaa_of_message 0 m) <> h
  | _ => True
  end.
Definition ours (st : pstate) : Prop := forall e w, alookup h (agg st) = Some e -> our_vaa e = Some w -> w = v.

Lemma bcast_ours st w s tx chain : (dg w = h -> w = v) -> ours st -> ours (fst (broadcast_signature st w s tx chain)).
Proof.
  intros Hw Ho e w' He Hv. unfold Processor.broadcast_signature in He. cbn [fst agg] in He. rewrite alookup_aset in He.
  destruct (bytes_eqb_spec h (dg w)) as [Eh|_]; [|exact (Ho e w' He Hv)].
  inversion He; subst e. cbn [set_own our_vaa] in Hv. inversion Hv; subst w'. apply Hw. symmetry. exact Eh.
Qed.

Lemma obs_ours O L st ob : Inv1 O L st -> ours st -> ours (fst (handle_obs st ob)).
Proof.
  intros HI Ho. destruct (accepted st ob) as [[a g]|] eqn:Ea; [|rewrite (handle_obs_rejected recover st ob Ea); exact Ho].
  destruct (handle_obs_accepted recover keccak O L st ob a g HI Ea) as (e' & Hst & _ & Hold & Hnew & _).
  rewrite Hst. intros e w He Hv. cbn [agg] in He. rewrite alookup_aset in He.
  destruct (bytes_eqb_spec h (o_hash ob)) as [Eh|_]; [|exact (Ho e w He Hv)].
  inversion He; subst e. rewrite <- Eh in Hold, Hnew. destruct (alookup h (agg st)) as [e0|] eqn:E0.
  - destruct (Hold e0 eq_refl) as (A & _). rewrite A in Hv. exact (Ho e0 w E0 Hv).
  - rewrite (Hnew eq_refl) in Hv. discriminate.
Qed.

Lemma step_ours O L st o : Inv1 O L st -> calm o = true -> no_alias o -> ours st -> ours (fst (step st o)).
Proof.
  intros HI Hc Hn Ho. destruct o as [g|t|m|w|ob|k|b|]; try discriminate; cbn [Processor.step].
  - exact Ho.
  - destruct (handle_message_cases keccak sign own gov_chain gov_addr st m) as [[Hs _]|(g & _ & Hr)]; cbv zeta in *.
    + rewrite Hs. exact Ho.
    + rewrite Hr. apply bcast_ours; [|exact Ho]. intros E. exfalso. apply Hn. exact E.
  - unfold Processor.handle_injection. apply bcast_ours; [exact Hn|exact Ho].
  - apply (obs_ours O L); assumption.
  - destruct (nth_error (loopq st) k) as [ob|]; [|exact Ho].
    apply (obs_ours O L); [destruct HI; constructor; assumption|exact Ho].
  - intros e w He. apply Ho. revert He. unfold Processor.handle_inbound. destruct (unmarshal b) as [vb|]; [|auto]. destruct (cur st) as [gc|]; [|auto].
    repeat match goal with |- context [if ?c then _ else _] => destruct c end; cbn [fst agg]; auto.
Qed.

Hypothesis keccak_len : forall b, length (keccak b) = 32%nat.
Hypothesis own_len : length own = 20%nat.
Hypothesis sign_correct : forall d, length d = 32%nat -> rec d (sign d) = Some own.
Hypothesis own_in : In own (keys G).

Notation K := (SystemLiveProofs.K own G h).

(* ---- the form of a broadcast for v's digest in a state of the window *)
Lemma step_pub_form O L st o : Inv1 O L st -> K st -> ours st ->
  bcast_for recover keccak sign own gov_chain gov_addr h st o = true ->
  exists sg, In (SendVAA (marshal (set_sigs v sg))) (snd (step st o)) /\ qvalid (set_sigs v sg) (keys G).
Proof.
  intros HI [K1 K2 K3] Ho. unfold bcast_for, obs_of_op.
  assert (Hcore : forall st1 ob, Inv1 O L st1 -> agg st1 = agg st -> cur st1 = cur st -> o_hash ob = h ->
            existsb is_bcast (snd (handle_obs st1 ob)) = true ->
            exists sg, In (SendVAA (marshal (set_sigs v sg))) (snd (handle_obs st1 ob)) /\ qvalid (set_sigs v sg) (keys G)).
  { intros st1 ob HI1 Hag Hcu Hh Hb. apply existsb_exists in Hb as (x & Hx & Hxb).
    destruct (handle_obs_pub O L st1 ob x HI1 Hx) as (e0 & w & g & sg & He & Hw & Hap & Hq & Hform); [destruct x; try discriminate; reflexivity|].
    rewrite Hh, Hag in He. assert (w = v) by (apply (Ho e0 w He Hw)). subst w.
    destruct (K3 e0 He ltac:(rewrite Hw; discriminate)) as [Hsnap _].
    unfold applicable in Hap. rewrite Hh, Hag, He, Hsnap in Hap. inversion Hap; subst g.
    exists sg. split; [|exact Hq]. destruct Hform as [E|E]; [subst x; discriminate|subst x; exact Hx]. }
  destruct o as [g|t|m|w|ob|k|b|]; try discriminate.
  - intros Hb. apply andb_prop in Hb as [Hh Hb]. apply bytes_eqb_eq in Hh. cbn [Processor.step] in *. apply (Hcore st ob HI eq_refl eq_refl Hh Hb).
  - cbn [Processor.step]. destruct (nth_error (loopq st) k) as [ob|]; [|discriminate].
    intros Hb. apply andb_prop in Hb as [Hh Hb]. apply bytes_eqb_eq in Hh.
    match type of Hb with context [handle_obs ?s ob] => apply (Hcore s ob) end; [destruct HI; constructor; assumption|reflexivity|reflexivity|exact Hh|exact Hb].
Qed.

(* the node is handed v *)
Definition ev_inj (_ : pstate) (o : op) : Prop := o = Inject v.

Lemma run_observed_inj : forall ops O L st, Forall ProcSpec.op_wf ops -> forallb calm ops = true -> Inv1 O L st -> Inv2 st -> K st ->
  happens stepf ev_inj st ops -> observed h (fst (run st ops)).
Proof.
  induction ops as [|o ops IH]; intros O L st Hw Hc HI H2 HK Hev; [destruct Hev|].
  inversion Hw as [|? ? Hw1 Hw2]; subst. cbn [forallb] in Hc. apply andb_prop in Hc as [Hc1 Hc2].
  destruct (step_c01 recover keccak sign own gov_chain gov_addr O L st o HI Hw1) as [HI' _].
  pose proof (step_inv2 recover keccak sign own gov_chain gov_addr keccak_len own_len sign_correct O L st o HI H2) as H2'.
  destruct (step_live recover keccak sign own gov_chain gov_addr own_len sign_correct G h own_in O L st o Hc1 HI H2 HK) as (A & _ & C & _). cbv zeta in *.
  cbn [happens] in Hev. cbn [Processor.run].
  destruct Hev as [Hp|Hev].
  - unfold ev_inj in Hp. subst o.
    assert (Hobs : observed h (fst (step st (Inject v)))).
    { cbn [Processor.step]. unfold Processor.handle_injection.
      destruct (bcast_live keccak own G h st v (sign (dg v)) [] false HK) as (_ & _ & _ & D). apply D. reflexivity. }
    destruct (run_live recover keccak sign own gov_chain gov_addr keccak_len own_len sign_correct G h own_in ops _ _ _ Hw2 Hc2 HI' H2' A) as (_ & _ & C' & _).
    cbv zeta in C'. destruct (step st (Inject v)) as [st1 out1]. cbn [fst] in *. destruct (run st1 ops) as [st2 outs]. cbn [fst] in *. apply C'. exact Hobs.
  - specialize (IH _ _ _ Hw2 Hc2 HI' H2' A Hev). destruct (step st o) as [st1 out1]. cbn [fst] in *. destruct (run st1 ops) as [st2 outs]. exact IH.
Qed.

Lemma run_app : forall ops0 ops s, fst (run s (ops0 ++ ops)) = fst (run (fst (run s ops0)) ops).
Proof.
  induction ops0 as [|o t IH]; intros ops s; cbn [app Processor.run]; [reflexivity|].
  destruct (step s o) as [s1 o1]. specialize (IH ops s1). destruct (run s1 t) as [s2 os]. cbn [fst] in *.
  destruct (run s1 (t ++ ops)) as [s3 os3]. cbn [fst] in *. exact IH.
Qed.

(* ---- one node, one window: after ANY pre-history that leaves G in force and nothing known about v's digest, over ANY window
   without set change / cleanup tick in which the node is handed v, the observations of a quorum of G's members (own included)
   arrive and the own signature loops back: at some step of the window the node broadcasts [marshal (set_sigs v sg)] carrying a
   valid quorum of G over v's digest *)
Theorem inject_window_publishes ops0 ops (signers : list addr) :
  Forall ProcSpec.op_wf ops0 -> Forall ProcSpec.op_wf ops -> forallb calm ops = true -> all_ops no_alias ops ->
  let st0 := fst (run init ops0) in
  let st := fst (run st0 ops) in
  cur st0 = Some G -> alookup h (agg st0) = None -> ProcSpec.gs_wf G ->
  happens stepf ev_inj st0 ops ->
  NoDup signers -> incl signers (keys G) -> go_quorum (Z.of_nat (length (keys G))) <= Z.of_nat (length signers) ->
  (forall a, In a signers -> a <> own -> happens stepf (ev_obs recover h a) st0 ops) ->
  (forall o, In o (loopq st) -> o_hash o <> h) ->
  happens stepf (fun s o => exists sg, In (SendVAA (marshal (set_sigs v sg))) (snd (step s o)) /\ qvalid (set_sigs v sg) (keys G)) st0 ops.
Proof.
  intros Hw0 Hw Hc Hna. cbv zeta. intros Hcur Hno Hgwf Hinj ND Hincl Hq Hdel Hlq.
  set (st0 := fst (run init ops0)) in *. set (st := fst (run st0 ops)) in *.
  destruct (reachable_invariants recover keccak sign own gov_chain gov_addr ops0 Hw0) as [[O0 HI0] HK0]. fold st0 in HI0, HK0.
  pose proof (run_inv2 recover keccak sign own gov_chain gov_addr keccak_len own_len sign_correct ops0 [] [] init (init_inv1 recover keccak)
                (init_inv2 sign own) Hw0) as H20. fold st0 in H20.
  assert (HKw : K st0) by (constructor; [exact Hcur| |]; intros e He; rewrite Hno in He; discriminate).
  assert (Ho0 : ours st0) by (intros e w He; rewrite Hno in He; discriminate).
  (* liveness: the entry ends up submitted *)
  destruct (run_live recover keccak sign own gov_chain gov_addr keccak_len own_len sign_correct G h own_in ops O0 _ st0 Hw Hc HI0 H20 HKw)
    as (HK & _ & _ & Hrec & _). cbv zeta in *. fold st in HK, Hrec.
  pose proof (run_observed_inj ops O0 _ st0 Hw Hc HI0 H20 HKw Hinj) as Hobs. fold st in Hobs.
  destruct Hobs as (e & He & Hv). destruct HK as [K1 K2 K3]. destruct (K3 e He Hv) as [Hs Hown].
  assert (Hrun : st = fst (run init (ops0 ++ ops))) by (subst st st0; symmetry; apply run_app).
  assert (Hwall : Forall ProcSpec.op_wf (ops0 ++ ops)) by (apply Forall_app; split; assumption).
  assert (Hsub : submitted e = true).
  { assert (Hin : In (h, e) (agg st)) by (apply alookup_In; exact He).
    rewrite Hrun in Hin, Hlq.
    apply (quorum_implies_published recover keccak sign own gov_chain gov_addr keccak_len own_len sign_correct (ops0 ++ ops) h e G Hwall Hin Hv Hs own_in Hlq).
    assert (Hhas : forall a, In a signers -> has (esigs e) a = true).
    { intros a Ha. unfold has. destruct (bytes_eq_dec a own) as [->|Hne].
      - destruct Hown as [Ho|(o & Ho & Hoh)]; [destruct (alookup own (esigs e)); [reflexivity|contradiction]|].
        exfalso. rewrite <- Hrun in Hlq. exact (Hlq o Ho Hoh).
      - destruct (Hrec a (Hincl a Ha) (Hdel a Ha Hne)) as (e' & He' & Ha'). assert (e' = e) by congruence. subst e'.
        destruct (alookup a (esigs e)); [reflexivity|contradiction]. }
    unfold nsigned.
    pose proof (filter_length_ge (has (esigs e)) (list_eq_dec Byte.byte_eq_dec) signers (keys G) ND Hincl Hhas). lia. }
  (* "submitted" was set by a broadcasting step of the window ... *)
  assert (Hb : happens stepf (fun s o => bcast_for recover keccak sign own gov_chain gov_addr h s o = true) st0 ops).
  { apply (submitted_was_broadcast recover keccak sign own gov_chain gov_addr h e ops O0 _ st0 HI0 HK0 Hw); [|exact He|exact Hsub].
    intros e0 He0. rewrite Hno in He0. discriminate. }
  (* ... in a state that still satisfies the window invariants: the broadcast is v with a quorum of G *)
  set (I := fun s => (exists O L, Inv1 O L s) /\ Inv2 s /\ K s /\ ours s).
  set (Q := fun o => ProcSpec.op_wf o /\ calm o = true /\ no_alias o).
  assert (HQ : all_ops Q ops).
  { clear -Hw Hc Hna. induction ops as [|o t IH]; [exact I|]. inversion Hw; subst. cbn [forallb] in Hc. apply andb_prop in Hc as [C1 C2].
    destruct Hna as [N1 N2]. split; [split; [assumption|split; assumption]|apply IH; assumption]. }
  assert (HI : I st0) by (split; [exists O0; eexists; exact HI0|split; [exact H20|split; [exact HKw|exact Ho0]]]).
  assert (Hstep : forall s o, Q o -> I s -> I (fst (step s o))).
  { intros s o (Q1 & Q2 & Q3) ((O & L & J1) & J2 & J3 & J4).
    destruct (step_c01 recover keccak sign own gov_chain gov_addr O L s o J1 Q1) as [J1' _].
    split; [eexists; eexists; exact J1'|]. split; [apply (step_inv2 recover keccak sign own gov_chain gov_addr keccak_len own_len sign_correct O L); assumption|].
    split; [apply (step_live recover keccak sign own gov_chain gov_addr own_len sign_correct G h own_in O L s o Q2 J1 J2 J3)|].
    apply (step_ours O L); assumption. }
  pose proof (happens_inv stepf I Q _ Hstep ops st0 HQ HI Hb) as Hb'.
  apply (happens_impl stepf _ _) with (2 := Hb').
  intros s o (((O & L & J1) & _ & J3 & J4) & _ & Hbc). apply (step_pub_form O L); assumption.
Qed.
End Win.

(* ================================================================== 3. the network *)
Section NetGov.
Variable recover : bytes -> bytes -> option bytes.
Variable keccak : bytes -> bytes.
Variable gov_chain : Z.
Variable gov_addr : bytes.
Variable owns : nat -> addr.
Variable signs : nat -> bytes -> bytes.

Notation rec := (Processor.rec recover).
Notation dg := (Processor.dg keccak).
Notation qvalid := (ProcSpec.qvalid recover keccak).
Notation node_step := (System.node_step recover keccak gov_chain gov_addr owns signs).
Notation node_run := (System.node_run recover keccak gov_chain gov_addr owns signs).
Notation nstep := (System.nstep recover keccak gov_chain gov_addr owns signs).
Notation nrun := (System.nrun recover keccak gov_chain gov_addr owns signs).
Notation trace := (System.trace recover keccak gov_chain gov_addr owns signs).
Notation nstepf := (fun n x => fst (nstep n x)).
Notation stepf i := (fun st o => fst (Processor.step recover keccak (signs i) (owns i) gov_chain gov_addr st o)).

Lemma trace_all_ops i (Q : op -> Prop) (Qn : nop -> Prop) : (forall n x o, resolve n x = Some (i, o) -> Qn x -> Q o) ->
  forall xs n, (forall x, In x xs -> target x = i -> Qn x) -> all_ops Q (ops_of i (trace n xs)).
Proof.
  intros HQ. induction xs as [|x xs IH]; intros n Hc; cbn [System.trace]; [exact I|].
  assert (Hc' : forall y, In y xs -> target y = i -> Qn y) by (intros y Hy; apply Hc; right; exact Hy).
  destruct (resolve n x) as [[j o]|] eqn:Hr; [|apply IH; exact Hc'].
  destruct (j <? length (nodes n))%nat; [|apply IH; exact Hc'].
  unfold ops_of. cbn [filter fst]. destruct (Nat.eqb_spec j i) as [->|_]; [|apply IH; exact Hc'].
  cbn [map snd all_ops]. destruct (resolve_target n x i o Hr) as [Ht _]. split; [apply (HQ n x o Hr); apply Hc; [left; reflexivity|exact Ht]|apply IH; exact Hc'].
Qed.

(* node i's operator submits the request: the admin RPC hands v to the processor *)
Definition ev_injects (i : nat) (v : vaa) (_ : net) (x : nop) : Prop := x = NEnv i (EInject v).

(* at node i no OTHER own VAA is filed under v's digest (see [no_alias]) *)
Definition no_alias_nop (v : vaa) (x : nop) : Prop :=
  match x with
  | NEnv _ (EInject v') => dg v' = dg v -> v' = v
  | NEnv _ (EMsg m) => dg (vaa_of_message 0 m) <> dg v
  | _ => True
  end.

(* "at this network step node i broadcasts v with a valid quorum of G" *)
Definition ev_gov_published (i : nat) (v : vaa) (G : gset) (n : net) (x : nop) : Prop :=
  target x = i /\ exists sg, In (SendVAA (marshal (set_sigs v sg))) (snd (nstep n x)) /\ qvalid (set_sigs v sg) (keys G).

Hypothesis keccak_len : forall b, length (keccak b) = 32%nat.

(* (a) the operators sign the same digest: whatever node the request is submitted to, the node signs [digest keccak v] with its own
   key and gossips exactly that observation; v and its digest are functions of configuration and request *)
Theorem operator_signs_request_digest n i st v : nth_error (nodes n) i = Some st ->
  In (SendObs {| o_addr := owns i; o_hash := digest keccak v; o_sig := signs i (digest keccak v); o_tx := [] |})
     (snd (nstep n (NEnv i (EInject v)))) /\
  In (GObs {| o_addr := owns i; o_hash := digest keccak v; o_sig := signs i (digest keccak v); o_tx := [] |})
     (pool (fst (nstep n (NEnv i (EInject v))))).
Proof.
  intros Hn. rewrite (nstep_unfold recover keccak gov_chain gov_addr owns signs n (NEnv i (EInject v)) i (Inject v) st eq_refl Hn).
  cbn [fst snd pool]. unfold System.node_step. cbn [Processor.step]. unfold Processor.handle_injection, Processor.broadcast_signature. cbn [snd].
  split; [left; reflexivity|]. apply in_or_app. right. cbn [flat_map gossip_of app]. left. reflexivity.
Qed.

Theorem net_gov_publishes N xs0 xs i G v (S : list nat) :
  (i < N)%nat -> Forall nop_wf xs0 -> Forall nop_wf xs ->
  let n0 := fst (nrun (ninit N) xs0) in
  let n1 := fst (nrun n0 xs) in
  let h := dg v in
  (forall st0, nth_error (nodes n0) i = Some st0 -> cur st0 = Some G /\ alookup h (agg st0) = None) -> ProcSpec.gs_wf G ->
  (forall x, In x xs -> target x = i -> calm_nop x = true) ->
  (forall x, In x xs -> target x = i -> no_alias_nop v x) ->
  NoDup (map owns S) -> (forall j, In j S -> honest_member recover owns signs G j) ->
  go_quorum (Z.of_nat (length (keys G))) <= Z.of_nat (length S) -> In i S ->
  happens nstepf (ev_injects i v) n0 xs ->
  (forall j, In j S -> j <> i -> happens nstepf (ev_delivered owns signs i j h) n0 xs) ->
  (forall st, nth_error (nodes n1) i = Some st -> forall o, In o (loopq st) -> o_hash o <> h) ->
  happens nstepf (ev_gov_published i v G) n0 xs.
Proof.
  intros Hi Hw0 Hw. cbv zeta. intros Hst0 Hgwf Hcalm Hna ND Hhon Hq HiS Hinj Hdel Hlq.
  set (n0 := fst (nrun (ninit N) xs0)) in *. set (h := dg v) in *.
  pose proof (projection_init recover keccak gov_chain gov_addr owns signs N xs0 i Hi) as Hp0. fold n0 in Hp0.
  set (ops0 := ops_of i (trace (ninit N) xs0)) in *.
  set (st0 := fst (node_run i init ops0)) in *.
  pose proof (projection recover keccak gov_chain gov_addr owns signs xs n0 i st0 Hp0) as Hp1.
  set (ops := ops_of i (trace n0 xs)) in *.
  destruct (Hst0 st0 Hp0) as [Hcur Hno].
  destruct (Hhon i HiS) as (Hin_i & Hlen_i & Hsc_i).
  assert (Hwf0 : Forall ProcSpec.op_wf ops0) by (apply projected_wf; exact Hw0).
  assert (Hwf1 : Forall ProcSpec.op_wf ops) by (apply projected_wf; exact Hw).
  assert (Hc : forallb calm ops = true) by (apply calm_trace; exact Hcalm).
  assert (Hal : all_ops (no_alias keccak v) ops).
  { apply (trace_all_ops i (no_alias keccak v) (no_alias_nop v)); [|exact Hna].
    intros n x o Hr Hx. destruct x as [j e|j k|j g|j k]; cbn [resolve] in Hr.
    - inversion Hr; subst. destruct e; cbn [op_of_env no_alias no_alias_nop] in *; try exact I; exact Hx.
    - destruct (nth_error (pool n) k) as [g|]; [|discriminate]. inversion Hr; subst. destruct g; exact I.
    - inversion Hr; subst. destruct g; exact I.
    - inversion Hr; subst. exact I. }
  assert (Hinj' : happens (stepf i) (ev_inj v) st0 ops).
  { apply (happens_lift recover keccak gov_chain gov_addr owns signs i (ev_injects i v)); [|exact Hp0|exact Hinj].
    intros n x st Hn Hx. unfold ev_injects in Hx. subst x. exists (Inject v). split; reflexivity. }
  assert (Hothers : forall a, In a (map owns S) -> a <> owns i -> happens (stepf i) (ev_obs recover h a) st0 ops).
  { intros a Ha Hne. apply in_map_iff in Ha as (j & <- & Hj).
    assert (Hji : j <> i) by (intros ->; apply Hne; reflexivity).
    destruct (Hhon j Hj) as (_ & Hlen_j & Hsc_j).
    apply (happens_lift recover keccak gov_chain gov_addr owns signs i (ev_delivered owns signs i j h)); [|exact Hp0|exact (Hdel j Hj Hji)].
    intros n x st Hn (k & tx & Hx & Hk). subst x. eexists. split; [cbn [resolve]; rewrite Hk; reflexivity|].
    eexists. split; [reflexivity|]. cbn [o_hash o_addr o_sig]. split; [reflexivity|]. split.
    - unfold bytes_to_address. rewrite Hlen_j. reflexivity.
    - apply Hsc_j. unfold h, Processor.dg, digest. apply keccak_len. }
  pose proof (inject_window_publishes recover keccak (signs i) (owns i) gov_chain gov_addr G v keccak_len Hlen_i Hsc_i Hin_i ops0 ops (map owns S)
                Hwf0 Hwf1 Hc Hal Hcur Hno Hgwf Hinj' ND) as Hpub.
  apply (happens_lower recover keccak gov_chain gov_addr owns signs i
           (fun s o => exists sg, In (SendVAA (marshal (set_sigs v sg))) (snd (Processor.step recover keccak (signs i) (owns i) gov_chain gov_addr s o)) /\
                                  qvalid (set_sigs v sg) (keys G))
           (ev_gov_published i v G)) with (st := st0); [|exact Hp0|].
  - intros n x st' o Hn Hr (sg & Hin & Hqv). destruct (resolve_target n x i o Hr) as [Ht _]. split; [exact Ht|]. exists sg. split; [|exact Hqv].
    rewrite (nstep_unfold recover keccak gov_chain gov_addr owns signs n x i o st' Hr Hn). exact Hin.
  - apply Hpub.
    + intros a Ha. apply in_map_iff in Ha as (j & <- & Hj). destruct (Hhon j Hj) as (H1 & _). exact H1.
    + rewrite map_length. exact Hq.
    + exact Hothers.
    + apply (Hlq _ Hp1).
Qed.

(* ================================================================== 5a. different requests: separate aggregation entries *)
(* entries are keyed by digest: handling a VAA / an observation of another digest leaves the entry of h untouched — no hash assumption *)
Theorem other_digest_other_entry (sign : bytes -> bytes) (own : addr) st o h :
  match o with Inject v' => dg v' <> h | Obs ob => o_hash ob <> h | _ => False end ->
  (exists O L, ProcC01Proofs.Inv1 recover keccak O L st) ->
  alookup h (agg (fst (Processor.step recover keccak sign own gov_chain gov_addr st o))) = alookup h (agg st).
Proof.
  intros Ho (O & L & HI). destruct o as [g|t|m|w|ob|k|b|]; try contradiction; cbn [Processor.step].
  - unfold Processor.handle_injection, Processor.broadcast_signature. cbn [fst agg]. rewrite alookup_aset.
    destruct (bytes_eqb_spec h (dg w)) as [E|_]; [exfalso; apply Ho; symmetry; exact E|reflexivity].
  - destruct (ProcC02Proofs.accepted recover st ob) as [[a g]|] eqn:Ea; [|rewrite (handle_obs_rejected recover st ob Ea); reflexivity].
    destruct (handle_obs_accepted recover keccak O L st ob a g HI Ea) as (e' & Hst & _). rewrite Hst. cbn [agg]. rewrite alookup_aset.
    destruct (bytes_eqb_spec h (o_hash ob)) as [E|_]; [exfalso; apply Ho; symmetry; exact E|reflexivity].
Qed.

(* what is recorded under a digest verifies over THAT digest: in every state of every node after every network history, a signature
   filed in the entry of h recovers to its signer over h itself.  So the signature an operator made for another request (another
   digest) is filed — and later published — with h only if it ALSO verifies over h: a property of the recovery oracle. *)
Theorem recorded_signatures_verify_over_their_digest N xs i st h e a s : Forall nop_wf xs ->
  nth_error (nodes (fst (nrun (ninit N) xs))) i = Some st -> In (h, e) (agg st) -> In (a, s) (esigs e) -> rec h s = Some a.
Proof.
  intros Hw Hn He Hs. destruct (net_reachable_inv recover keccak gov_chain gov_addr owns signs N xs i st Hw Hn) as [O HO].
  destruct HO as [Ja _ _ _]. rewrite Forall_forall in Ja. destruct (Ja _ He) as [Es _ _ _]. cbn [fst snd] in Es.
  rewrite Forall_forall in Es. exact (Es _ Hs).
Qed.
End NetGov.

(* a published VAA consists of signatures over ITS OWN digest, by the members its indices name *)
Lemma published_signatures_over_own_digest recover keccak w K s : ProcSpec.qvalid recover keccak w K -> In s (sigs w) ->
  exists a, Processor.rec recover (Processor.dg keccak w) (s_data s) = Some a /\ nth_error K (Z.to_nat (s_idx s)) = Some a.
Proof. intros [(_ & F & _) _] Hs. rewrite Forall_forall in F. destruct (F s Hs) as [_ H]. exact H. Qed.

(* requests that differ in a body field have different bodies (C04: the body determines every field it carries) *)
Theorem different_requests_different_bodies v1 v2 : wf v1 -> wf v2 ->
  (ts v1, nonce v1, echain v1, tchain v1, eaddr v1, seq v1, cl v1, payload v1) <>
  (ts v2, nonce v2, echain v2, tchain v2, eaddr v2, seq v2, cl v2, payload v2) -> body v1 <> body v2.
Proof.
  intros W1 W2 Hne E. apply Hne. destruct (body_inj_wf v1 v2 W1 W2 E) as (H1 & H2 & H3 & H4 & H5 & H6 & H7 & H8). congruence.
Qed.

(* ================================================================== 4. the contract side *)
(* the request values are what protobuf / the Go types can carry: uint32 timestamp, set index, nonce; uint64 sequence; ChainID
   uint16; Address [32]byte *)
Definition req_wf (c : gcfg) (e : genv) : Prop :=
  rng 4 (e_ts e) /\ rng 4 (e_gsi e) /\ rng 4 (e_nonce e) /\ rng 8 (e_seq e) /\ rng 2 (e_tchain e) /\ rng 2 (g_chain c) /\ length (g_addr c) = 32%nat.

Lemma envelope_wf c e v : envelope_ok c e v -> req_wf c e -> payload v <> [] -> wf (set_sigs v []).
Proof.
  intros (E1 & E2 & E3 & E4 & E5 & E6 & E7 & E8 & E9 & E10 & E11) (R1 & R2 & R3 & R4 & R5 & R6 & R7) Hp.
  constructor; cbn [set_sigs version gsidx sigs ts tns nonce echain tchain eaddr seq cl payload].
  - exact E1.
  - rewrite E3. exact R2.
  - cbn [Datatypes.length]. lia.
  - constructor.
  - rewrite E4. exact R1.
  - exact E5.
  - rewrite E6. exact R3.
  - rewrite E7. exact R6.
  - rewrite E8. exact R5.
  - rewrite E9. exact R7.
  - rewrite E10. exact R4.
  - rewrite E11. unfold rng. cbn. lia.
  - exact Hp.
Qed.

Definition module_of (k : gov_kind) : rv :=
  match k with KGuardianSet | KMessageFee | KTransferFee | KContractUpgrade => ral_module_gov | _ => ral_module_tb end.
Definition action_of (k : gov_kind) : rv :=
  match k with
  | KGuardianSet => ral_action_submitNewGuardianSet | KMessageFee => ral_action_submitSetMessageFee
  | KTransferFee => ral_action_submitTransferFees | KContractUpgrade => ral_action_submitContractUpgrade
  | KRegisterChain => ral_action_parseAndVerifyRegisterChain | KBridgeUpgrade => ral_action_upgradeContract
  | KDestroy => ral_action_destroyUnexecutedSequenceContracts | KMinLevel => ral_action_updateMinimalConsistencyLevel
  | KRefund => ral_action_updateRefundAddress
  end.
(* the entry point's generated payload parser, with the state it reads from the executing contract *)
Definition payload_parser (k : gov_kind) (ct : ral_contract) (tc p : rval) : option rres :=
  match k with
  | KGuardianSet => ral_submitNewGuardianSet tc p (RZ (rc_chain ct)) (RZ (rc_gs_index ct))
  | KMessageFee => ral_submitSetMessageFee tc p (RZ (rc_chain ct))
  | KTransferFee => ral_submitTransferFees tc p (RZ (rc_chain ct))
  | KContractUpgrade => ral_submitContractUpgrade tc p (RZ (rc_chain ct))
  | KRegisterChain => ral_parseAndVerifyRegisterChain tc p (RZ (rc_chain ct))
  | KBridgeUpgrade => ral_upgradeContract tc p (RZ (rc_chain ct))
  | KDestroy => ral_destroyUnexecutedSequenceContracts tc p (RZ (rc_chain ct))
  | KMinLevel => ral_updateMinimalConsistencyLevel tc p (RZ (rc_chain ct))
  | KRefund => ral_updateRefundAddress tc p (RZ (rc_chain ct))
  end.

(* the generic check returns (msgSequence, targetChainId, payload) of the VAA it was handed *)
Lemma rassert_inv e k r : rassert e k = Some r -> k = Some r.
Proof. unfold rassert. destruct e as [x|]; [|discriminate]. destruct x as [z|b|t]; try discriminate. destruct t; [auto|discriminate]. Qed.

Lemma generic_result M A gc ga t w r : ral_generic M A gc ga t w = Some r -> r = ([RZ (seq w); RZ (tchain w); RB (payload w)], []).
Proof.
  unfold ral_generic. destruct M as [m|]; [|discriminate]. destruct A as [a|]; [|discriminate].
  unfold ral_parseAndVerifyGovernanceVAAGeneric. intros H. repeat (apply rassert_inv in H).
  unfold rlet, r_var in H. inversion H. reflexivity.
Qed.

Lemma concat_nth_slice (pre : bytes) : forall (K : list bytes) i a, Forall (fun k => length k = 20%nat) K -> nth_error K i = Some a ->
  slice (pre ++ concat K) (length pre + 20 * i) (length pre + 20 * i + 20) = Some a.
Proof.
  intros K i a F Hn. destruct (nth_error_split K i Hn) as (l1 & l2 & -> & Hl).
  apply Forall_app in F as [F1 F2]. inversion F2 as [|? ? Ha _]; subst.
  rewrite concat_app. cbn [concat]. rewrite (app_assoc pre).
  assert (Hlen : length (pre ++ concat l1) = (length pre + 20 * length l1)%nat) by (rewrite app_length, (concat_length20 l1 F1); reflexivity).
  rewrite <- Hlen, <- Ha. apply slice_app_mid.
Qed.

Lemma slice_last (a x : bytes) n : length a = n -> slice (a ++ x) n (n + length x) = Some x.
Proof. intros <-. rewrite <- (app_nil_r x) at 1. apply slice_app_mid. Qed.

Section ContractSide.
Variable recover : bytes -> bytes -> option bytes.
Variable keccak : bytes -> bytes.
Notation rec := (Processor.rec recover).
Notation dg := (Processor.dg keccak).
Notation qvalid := (ProcSpec.qvalid recover keccak).

(* the signature loop of parseAndVerifyVAA passes on what the Go side accepts (C06's acceptance over the VAA's own digest) *)
Lemma ral_sig_loop_accepts h (K : list bytes) : Forall (fun k => length k = 20%nat) K -> (length K <= 255)%nat ->
  forall ss last, increasing last (map s_idx ss) -> -1 <= last -> Forall (signer_ok rec h K) ss ->
  ral_sig_loop recover h (guardians_of K) last (map (fun s => (s_idx s, s_data s)) ss) = true.
Proof.
  intros FK LK. induction ss as [|s ss IH]; intros last Hinc Hlast F; [reflexivity|].
  cbn [map ral_sig_loop]. cbn [map increasing] in Hinc. destruct Hinc as [Hlt Hinc]. inversion F as [|? ? [Hidx (a & Hr & Hn)] F']; subst.
  change ral_index_strict with true. cbv iota. replace (last <? s_idx s) with true by (symmetry; apply Z.ltb_lt; exact Hlt). cbn [negb].
  destruct (recover_checked_len _ _ _ _ Hr) as [_ L65].
  change (fst ral_recid_slice) with 64%nat. change (snd ral_recid_slice) with 65%nat. change ral_recid_plus with 27.
  (* the signature is r ++ s ++ [recid] *)
  assert (Hsplit : exists rs rb, s_data s = rs ++ [rb] /\ length rs = 64%nat).
  { exists (firstn 64 (s_data s)), (nth 64 (s_data s) x00). split; [|rewrite firstn_length; unfold bytes in *; lia].
    rewrite <- (firstn_skipn 64 (s_data s)) at 1. f_equal.
    assert (Hsk : length (skipn 64 (s_data s)) = 1%nat) by (rewrite skipn_length; unfold bytes in *; lia).
    destruct (skipn 64 (s_data s)) as [|b [|? ?]] eqn:Es; try discriminate.
    rewrite <- (firstn_skipn 64 (s_data s)) at 1. rewrite Es, app_nth2 by (rewrite firstn_length; unfold bytes in *; lia).
    rewrite firstn_length. replace (64 - Nat.min 64 (length (s_data s)))%nat with 0%nat by (unfold bytes in *; lia). reflexivity. }
  destruct Hsplit as (rs & rb & Hd & Lrs). rewrite Hd in *.
  assert (Hsl : slice (rs ++ [rb]) 64 65 = Some [rb]) by exact (slice_last rs [rb] 64%nat Lrs).
  rewrite Hsl.
  (* the key slot *)
  assert (Hi0 : 0 <= s_idx s) by lia.
  assert (Hkey : slice (guardians_of K) (Z.to_nat (fst (ral_key_slot (s_idx s)))) (Z.to_nat (snd (ral_key_slot (s_idx s)))) = Some a).
  { unfold guardians_of, ral_key_slot. cbn [fst snd]. replace (Z.to_nat (1 + s_idx s * 20)) with (length (be 1 (Z.of_nat (length K))) + 20 * Z.to_nat (s_idx s))%nat by (rewrite be_length; lia).
    replace (Z.to_nat (1 + s_idx s * 20 + 20)) with (length (be 1 (Z.of_nat (length K))) + 20 * Z.to_nat (s_idx s) + 20)%nat by (rewrite be_length; lia).
    apply concat_nth_slice; assumption. }
  rewrite Hkey.
  (* the recovery id *)
  assert (Hrb : Z_of_byte rb < 4).
  { unfold Processor.rec, recover_checked in Hr. destruct ((length h =? 32) && (length (rs ++ [rb]) =? 65))%nat; [|discriminate].
    rewrite nth_error_app2 in Hr by lia. rewrite Lrs, Nat.sub_diag in Hr. cbn [nth_error] in Hr.
    destruct (Z.ltb_spec (Z_of_byte rb) 4); [assumption|discriminate]. }
  assert (Hun : unbe [rb] = Z_of_byte rb) by (unfold unbe; cbn [unbe_acc]; lia).
  pose proof (Z_of_byte_range rb) as Hrng.
  rewrite Hun. destruct (Z.leb_spec 256 (Z_of_byte rb + 27)) as [|_]; [lia|].
  unfold eth_ec_recover. change ral_recid_plus with 27.
  assert (Hf : firstn 64 (rs ++ [rb]) = rs) by (rewrite firstn_app, Lrs, Nat.sub_diag, firstn_O, app_nil_r; apply firstn_all2; lia).
  rewrite Hf.
  assert (Hsl2 : slice (rs ++ be 1 (Z_of_byte rb + 27)) 64 65 = Some (be 1 (Z_of_byte rb + 27))) by exact (slice_last rs (be 1 (Z_of_byte rb + 27)) 64%nat Lrs).
  rewrite Hsl2.
  rewrite unbe_be_small by (change (256 ^ Z.of_nat 1) with 256; lia).
  assert (Hf2 : firstn 64 (rs ++ be 1 (Z_of_byte rb + 27)) = rs) by (rewrite firstn_app, Lrs, Nat.sub_diag, firstn_O, app_nil_r; apply firstn_all2; lia).
  rewrite Hf2. replace (Z_of_byte rb + 27 - 27) with (Z_of_byte rb) by lia.
  assert (Hb1 : be 1 (Z_of_byte rb) = [rb]) by (cbn [be app]; rewrite byte_of_Z_of_byte; reflexivity).
  rewrite Hb1. unfold Processor.rec in Hr. rewrite Hr, bytes_eqb_refl. cbn [andb].
  apply IH; [exact Hinc|lia|exact F'].
Qed.

Lemma ral_sigs_ok_published w K : qvalid w K -> wf w -> Forall (fun k => length k = 20%nat) K -> (length K <= 255)%nat ->
  ral_sigs_ok recover keccak
    {| Contracts.rv_gsidx := gsidx w; Contracts.rv_numsigs := Z.of_nat (length (sigs w));
       Contracts.rv_sig_records := map (fun s => (s_idx s, s_data s)) (sigs w); Contracts.rv_hashed := body w;
       Contracts.rv_echain := echain w; Contracts.rv_tchain := tchain w; Contracts.rv_eaddr := eaddr w; Contracts.rv_seq := seq w;
       Contracts.rv_payload := payload w |} (guardians_of K) = true.
Proof.
  intros [(Hinc & F & _) _] W FK LK. unfold ral_sigs_ok. cbn [Contracts.rv_hashed Contracts.rv_sig_records].
  change ral_last_index_init with (-1). apply ral_sig_loop_accepts; try assumption. lia.
Qed.

(* parseAndVerifyVAA(data, true) on what a guardian publishes under the set the contract holds as current: it returns the fields
   the Go serializer wrote *)
Theorem ral_receive_published ct w K : qvalid w K -> wf w -> Forall (fun k => length k = 20%nat) K -> (0 < length K <= 255)%nat ->
  rc_gs_index ct = gsidx w -> rc_guardians ct = guardians_of K ->
  ral_receive recover keccak ct (marshal w) =
  Some (ral_vaa_returns (RZ (echain w)) (RZ (tchain w)) (RB (eaddr w)) (RZ (seq w)) (RB (payload w))).
Proof.
  intros Hq W FK [LK0 LK] Hgi Hg. unfold ral_receive. rewrite (LayoutProofs.ral_parse_marshal w W).
  cbn [Contracts.rv_gsidx Contracts.rv_numsigs Contracts.rv_echain Contracts.rv_tchain Contracts.rv_eaddr Contracts.rv_seq Contracts.rv_payload].
  unfold ral_gov_index_check, r_var. rewrite r_eq_Z, Hgi, Z.eqb_refl. cbn [rtrue negb].
  rewrite Hg. unfold ral_guardian_size, guardians_of, r_var, r_num.
  rewrite (r_slice_eq _ [] (be 1 (Z.of_nat (length K))) (concat K) 0 1) by (rewrite ?be_length; reflexivity).
  rewrite r_u256from_be by (change (256 ^ Z.of_nat 1) with 256; lia).
  unfold ral_guardian_size_check, r_ne, r_var, r_num. rewrite r_eq_Z.
  destruct (Z.eqb_spec (Z.of_nat (length K)) 0) as [E|_]; [lia|]. cbn [r_not rtrue negb].
  destruct (qvalid_passes_contract_quorum recover keccak w K Hq) as [_ Hr]. rewrite Hr. cbn [negb].
  fold (guardians_of K). rewrite (ral_sigs_ok_published w K Hq W FK LK). reflexivity.
Qed.

(* the generic check on the wire bytes = the generic check on the VAA's envelope values (C15's [ral_generic]) *)
Lemma ral_generic_call_published ct w K t M A : qvalid w K -> wf w -> Forall (fun k => length k = 20%nat) K -> (0 < length K <= 255)%nat ->
  rc_gs_index ct = gsidx w -> rc_guardians ct = guardians_of K ->
  ral_generic_call recover keccak ct (marshal w) (Some (RZ t)) M A = ral_generic M A (rc_gov_chain ct) (rc_gov_addr ct) t w.
Proof.
  intros Hq W FK LK Hgi Hg. unfold ral_generic_call, ral_generic. destruct M as [m|]; [|reflexivity]. destruct A as [a|]; [|reflexivity].
  rewrite (ral_receive_published ct w K Hq W FK LK Hgi Hg). reflexivity.
Qed.

(* (b) + (c): the VAA of a governance request, signed by a quorum of G, submitted to the entry point of its kind on a contract
   configured with the node's governance emitter, holding G as current set and expecting a sequence not above the request's: the
   envelope parser accepts it (set index, quorum, signatures), the generic check passes (emitter, sequence, module, action), the
   entry point's payload parser runs on exactly the payload and target chain of the request, and receivedSequence becomes the
   request's sequence + 1 *)
Theorem contract_executes_request k c e v sg G local tseq r :
  envelope_ok c e v -> req_wf c e -> payload v <> [] ->
  qvalid (set_sigs v sg) (keys G) -> Forall (fun a => length a = 20%nat) (keys G) -> (0 < length (keys G) <= 255)%nat -> e_gsi e = gidx G ->
  accepted_by (module_of k) (action_of k) c e v -> tseq <= e_seq e ->
  payload_parser k (contract_for c local tseq G) (RZ (e_tchain e)) (RB (payload v)) = Some r ->
  ral_execute recover keccak k (contract_for c local tseq G) (marshal (set_sigs v sg)) = Some (r, Some (RZ (e_seq e + 1))).
Proof.
  intros He Hreq Hp Hq FK LK Hgsi Hacc Hts Hpar.
  pose proof He as (E1 & E2 & E3 & E4 & E5 & E6 & E7 & E8 & E9 & E10 & E11).
  assert (W : wf (set_sigs v sg)).
  { apply (qvalid_wf recover keccak (set_sigs v sg) (keys G) Hq); [lia|]. apply (envelope_wf c e v He Hreq Hp). }
  set (ct := contract_for c local tseq G) in *.
  assert (Hgi : rc_gs_index ct = gsidx (set_sigs v sg)) by (cbn [ct contract_for rc_gs_index set_sigs gsidx]; congruence).
  assert (Hg : rc_guardians ct = guardians_of (keys G)) by reflexivity.
  destruct (Hacc tseq Hts) as [r0 Hr0].
  assert (Hgen : forall A, ral_generic_call recover keccak ct (marshal (set_sigs v sg)) (Some (RZ tseq)) (module_of k) A =
                           ral_generic (module_of k) A (g_chain c) (g_addr c) tseq v).
  { intros A. rewrite (ral_generic_call_published ct (set_sigs v sg) (keys G) tseq (module_of k) A Hq W FK LK Hgi Hg). reflexivity. }
  pose proof (generic_result _ _ _ _ _ _ _ Hr0) as Er0. subst r0.
  assert (Hseq : r_add (r_var (RZ (seq v))) (r_num 1) = Some (RZ (e_seq e + 1))).
  { unfold r_var, r_num. rewrite E10. apply r_add_ok. destruct Hreq as (_ & _ & _ & R4 & _). unfold rng in R4.
    change (256 ^ Z.of_nat 8) with 18446744073709551616 in R4. unfold u256_max. lia. }
  rewrite <- E8 in Hpar.
  destruct k; cbn [module_of action_of payload_parser] in *; unfold ral_execute, gov_wrapper, tb_wrapper;
    cbn [ct contract_for rc_recv_seq rc_chain rc_gs_index];
    [unfold ral_entry_submitNewGuardianSet|unfold ral_entry_submitSetMessageFee|unfold ral_entry_submitTransferFees|unfold ral_entry_submitContractUpgrade
    |unfold ral_entry_parseAndVerifyRegisterChain|unfold ral_entry_upgradeContract|unfold ral_entry_destroyUnexecutedSequenceContracts
    |unfold ral_entry_updateMinimalConsistencyLevel|unfold ral_entry_updateRefundAddress];
    match goal with |- match ?act with Some a => _ | None => None end = _ =>
      let av := eval hnf in act in match av with Some ?a0 => change act with (Some a0) in * end end; cbv iota beta;
    unfold ral_wrapper_gov, ral_wrapper_tb, r_var;
    fold ct;
    match goal with H : ral_generic ?M (Some ?a0) _ _ _ _ = Some _ |- _ =>
      change c_gov_CoreModule with ral_module_gov; change c_tb_TokenBridgeModule with ral_module_tb;
      rewrite (Hgen (Some a0)), H end;
    cbv iota beta; unfold r_var in Hseq; rewrite Hseq;
    cbn [ct contract_for rc_recv_seq rc_chain rc_gs_index] in Hpar; rewrite Hpar; reflexivity.
Qed.
End ContractSide.

(* ================================================================== 6. the whole chain *)
Section EndToEnd.
Variable recover : bytes -> bytes -> option bytes.
Variable keccak : bytes -> bytes.
Variable gov_chain : Z.
Variable gov_addr : bytes.
Variable owns : nat -> addr.
Variable signs : nat -> bytes -> bytes.
Notation dg := (Processor.dg keccak).
Notation nstep := (System.nstep recover keccak gov_chain gov_addr owns signs).
Notation nrun := (System.nrun recover keccak gov_chain gov_addr owns signs).
Notation nstepf := (fun n x => fst (nstep n x)).
Hypothesis keccak_len : forall b, length (keccak b) = 32%nat.

(* "at this network step node i broadcasts bytes on which the contract's entry point for kind k returns r and advances its sequence" *)
Definition ev_executable (i : nat) (k : gov_kind) (ct : ral_contract) (r : rres) (sq : Z) (n : net) (x : nop) : Prop :=
  target x = i /\ exists b, In (SendVAA b) (snd (nstep n x)) /\ ral_execute recover keccak k ct b = Some (r, Some (RZ sq)).

(* operator request -> conversion -> injection at the operators' nodes -> observations -> quorum -> published bytes -> contract:
   for every N, every pre-history and every fair window (see [net_gov_publishes]), every request kind k whose conversion produced v *)
Theorem gov_end_to_end N xs0 xs i G (S : list nat) k c e v local tseq r :
  (i < N)%nat -> Forall nop_wf xs0 -> Forall nop_wf xs ->
  let n0 := fst (nrun (ninit N) xs0) in
  let n1 := fst (nrun n0 xs) in
  let h := dg v in
  (* the request *)
  envelope_ok c e v -> req_wf c e -> payload v <> [] -> accepted_by (module_of k) (action_of k) c e v ->
  (* the guardians: G in force at node i, nothing known about the digest, a calm window, a quorum S of honest operators who all
     submit the request; their observations reach node i *)
  (forall st0, nth_error (nodes n0) i = Some st0 -> cur st0 = Some G /\ alookup h (agg st0) = None) -> ProcSpec.gs_wf G ->
  (forall x, In x xs -> target x = i -> calm_nop x = true) ->
  (forall x, In x xs -> target x = i -> no_alias_nop keccak v x) ->
  NoDup (map owns S) -> (forall j, In j S -> honest_member recover owns signs G j) ->
  go_quorum (Z.of_nat (length (keys G))) <= Z.of_nat (length S) -> In i S ->
  happens nstepf (ev_injects i v) n0 xs ->
  (forall j, In j S -> j <> i -> happens nstepf (ev_delivered owns signs i j h) n0 xs) ->
  (forall st, nth_error (nodes n1) i = Some st -> forall o, In o (loopq st) -> o_hash o <> h) ->
  (* the contract: holds G as current set, named by the request; expects a sequence not above the request's *)
  Forall (fun a => length a = 20%nat) (keys G) -> (length (keys G) <= 255)%nat -> e_gsi e = gidx G -> tseq <= e_seq e ->
  payload_parser k (contract_for c local tseq G) (RZ (e_tchain e)) (RB (payload v)) = Some r ->
  happens nstepf (ev_executable i k (contract_for c local tseq G) r (e_seq e + 1)) n0 xs.
Proof.
  intros Hi Hw0 Hw. cbv zeta. intros He Hreq Hp Hacc Hst0 Hgwf Hcalm Hna ND Hhon Hq HiS Hinj Hdel Hlq FK LK Hgsi Hts Hpar.
  pose proof (net_gov_publishes recover keccak gov_chain gov_addr owns signs keccak_len N xs0 xs i G v S Hi Hw0 Hw Hst0 Hgwf Hcalm Hna ND Hhon Hq HiS Hinj Hdel Hlq) as Hpub.
  assert (Hpos : (0 < length (keys G))%nat).
  { destruct (Hhon i HiS) as (Hin & _). destruct (keys G); [destruct Hin|cbn [length]; lia]. }
  apply (happens_impl nstepf _ _) with (2 := Hpub).
  intros n x (Ht & sg & Hin & Hqv). split; [exact Ht|]. exists (marshal (set_sigs v sg)). split; [exact Hin|].
  apply (contract_executes_request recover keccak k c e v sg G local tseq r); try assumption. split; assumption.
Qed.

(* (d) two different requests: their bodies differ; where Keccak does not collide on these two bodies (the one place a collision
   would matter) their digests differ, so handing the second to a node leaves the aggregation entry of the first untouched *)
Theorem different_requests_separate_entries sign own v1 v2 st :
  wf v1 -> wf v2 ->
  (ts v1, nonce v1, echain v1, tchain v1, eaddr v1, seq v1, cl v1, payload v1) <>
  (ts v2, nonce v2, echain v2, tchain v2, eaddr v2, seq v2, cl v2, payload v2) ->
  (keccak (keccak (body v1)) = keccak (keccak (body v2)) -> body v1 = body v2) ->
  (exists O L, ProcC01Proofs.Inv1 recover keccak O L st) ->
  dg v1 <> dg v2 /\
  alookup (dg v1) (agg (fst (Processor.step recover keccak sign own gov_chain gov_addr st (Inject v2)))) = alookup (dg v1) (agg st).
Proof.
  intros W1 W2 Hne Hcoll HI.
  assert (Hd : dg v1 <> dg v2).
  { intros E. apply (different_requests_different_bodies v1 v2 W1 W2 Hne). apply Hcoll. exact E. }
  split; [exact Hd|]. apply (other_digest_other_entry recover keccak gov_chain gov_addr sign own st (Inject v2) (dg v1)); [|exact HI].
  intros E. apply Hd. symmetry. exact E.
Qed.
End EndToEnd.
