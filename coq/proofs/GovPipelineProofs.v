(* Proofs about model/GovPipeline.v: governance end to end.
   1. the admin RPC: the loop as the source indexes its `digests` array = Governance.inject; digest k belongs to message k;
   2. one node: over a calm window of ANY history, a node that was handed the VAA v and receives the observations of a quorum
      publishes [marshal (set_sigs v sg)] with a valid quorum [sg] of the set in force (liveness of C02 for injections + the form
      of what is published), unless another of its own VAAs aliases v's digest (explicit hypothesis, no hash assumption);
   3. the network (projection);
   4. the contract side: the published bytes pass parseAndVerifyVAA (slices, governance set index, quorum, signature loop) and the
      generic module / action / emitter / sequence check, and the entry point binds the requested values;
   5. different requests: aggregation entries are keyed by digest, a body determines the request's fields. *)
From Coq Require Import Strings.String.
From Coq Require Import List ZArith Lia Bool Arith.
From Coq Require Import Strings.Byte.
From WH Require Import lib.Bytes lib.Ralph gen.Extracted gen.ExtractedGov model.Vaa model.AlphConv model.Governance
     model.Processor model.ProcSpec model.System model.GovPipeline
     proofs.VaaProofs proofs.QuorumProofs proofs.ProcessorProofs proofs.ProcC01Proofs proofs.ProcC02Proofs proofs.ProcCleanupProofs
     proofs.SystemProofs proofs.SystemLiveProofs proofs.GovernanceProofs.
From WH Require model.Contracts lib.Layout proofs.LayoutProofs.
Import ListNotations.
Import ExtractedGov.GoPay ExtractedGov.RalGov ExtractedGov.RalGlue.
Open Scope Z_scope.

(* ================================================================== 0. what the model relies on in handleInjection / the loop *)
(* handleInjection hands the VAA it was given, unchanged, to broadcastSignature (no field of v is written on the way: the model's
   [handle_injection st v = broadcast_signature st v (sign (dg v)) [] false]); the send on injectC precedes the store of the digest *)
Lemma injection_shape : go_injection_writes = [] /\ go_inj_send_before_store = true.
Proof. split; reflexivity. Qed.

(* ================================================================== 1. the admin RPC *)
Lemma set_nth_app_repeat {A} (d x : A) : forall done k, set_nth (length done) x (done ++ repeat d (S k)) = (done ++ [x]) ++ repeat d k.
Proof.
  induction done as [|a done IH]; intros k; [reflexivity|]. cbn [length app set_nth]. rewrite IH. reflexivity.
Qed.

Section RpcProofs.
Variable keccak : bytes -> bytes.

Lemma inject_array_loop c ts gsi : forall msgs n i sent done, length done = i -> n = (i + length msgs)%nat ->
  inject_array keccak c ts gsi n i msgs sent (done ++ repeat [] (length msgs)) = inject_loop keccak c ts gsi msgs sent done.
Proof.
  induction msgs as [|m rest IH]; intros n i sent done Hd Hn; cbn [inject_array inject_loop length repeat].
  - rewrite app_nil_r. reflexivity.
  - destruct (gm_tchain m >? go_adm_target_max); [reflexivity|].
    destruct (conv c (env_of ts gsi m) (gm_payload m)) as [v|x|]; [|reflexivity|reflexivity].
    change (go_inj_slot i n) with i. rewrite <- Hd.
    change (?a :: repeat [] (length rest)) with (repeat (@nil byte) (S (length rest))).
    rewrite set_nth_app_repeat. apply IH; [rewrite app_length; cbn [Datatypes.length]; unfold bytes; lia|cbn [Datatypes.length] in Hn; unfold bytes in *; lia].
Qed.

(* the loop as adminserver.go writes it (array slots) is the loop of model/Governance.v (append) *)
Theorem inject_rpc_is_inject c q : inject_rpc keccak c q = inject keccak c (q_ts q) (q_gsi q) (q_msgs q).
Proof. unfold inject_rpc, inject. apply (inject_array_loop c (q_ts q) (q_gsi q) (q_msgs q) _ 0%nat [] []); reflexivity. Qed.

Lemma Forall2_nth_error {A B} (P : A -> B -> Prop) : forall l1 l2, Forall2 P l1 l2 ->
  forall k a, nth_error l1 k = Some a -> exists b, nth_error l2 k = Some b /\ P a b.
Proof.
  induction 1 as [|a0 b0 l1 l2 H0 _ IH]; intros k a Hk; [destruct k; discriminate|].
  destruct k as [|k]; cbn [nth_error] in *; [inversion Hk; subst; exists b0; auto|apply IH; exact Hk].
Qed.

(* (e) the response: one digest per message, in the order of the messages; digest k is the digest of the VAA message k converts
   to, which is the k-th VAA put on injectC *)
Theorem rpc_digest_order c q sent ds : inject_rpc keccak c q = (sent, IOk ds) ->
  length ds = length (q_msgs q) /\ length sent = length (q_msgs q) /\
  forall k m, nth_error (q_msgs q) k = Some m ->
    exists v, gm_tchain m <= 65535 /\ conv c (env_of (q_ts q) (q_gsi q) m) (gm_payload m) = GOk v /\
              nth_error sent k = Some v /\ nth_error ds k = Some (digest keccak v).
Proof.
  rewrite inject_rpc_is_inject. intros H. destruct (inject_spec keccak c _ _ _ _ _ H) as (_ & F & D).
  destruct (D ds eq_refl) as [Hds Hlen]. rewrite Hlen, firstn_all in F.
  split; [rewrite Hds, map_length; exact Hlen|]. split; [exact Hlen|].
  intros k m Hk. destruct (Forall2_nth_error _ _ _ F k m Hk) as (v & Hv & Ht & Hc).
  exists v. split; [exact Ht|]. split; [exact Hc|]. split; [exact Hv|]. rewrite Hds. apply map_nth_error. exact Hv.
Qed.

(* what the operator's call hands to the node: Inject ops, one per produced VAA, in order — a function of the configuration and the
   request alone, whatever node it is submitted to *)
Theorem admin_rpc_same_everywhere c q i j :
  snd (admin_rpc keccak c i q) = snd (admin_rpc keccak c j q) /\
  exists sent, fst (admin_rpc keccak c i q) = map (fun v => NEnv i (EInject v)) sent /\
               fst (admin_rpc keccak c j q) = map (fun v => NEnv j (EInject v)) sent /\ sent = fst (inject_rpc keccak c q).
Proof.
  unfold admin_rpc. destruct (inject_rpc keccak c q) as [sent r]. cbn [fst snd]. split; [reflexivity|]. exists sent. auto.
Qed.
End RpcProofs.

(* ================================================================== 2. one node *)
Fixpoint all_ops {X} (Q : X -> Prop) (l : list X) : Prop := match l with [] => True | o :: t => Q o /\ all_ops Q t end.

Lemma happens_inv {S X} (stp : S -> X -> S) (I : S -> Prop) (Q : X -> Prop) (P : S -> X -> Prop) :
  (forall s o, Q o -> I s -> I (stp s o)) ->
  forall ops st, all_ops Q ops -> I st -> happens stp P st ops -> happens stp (fun s o => I s /\ Q o /\ P s o) st ops.
Proof.
  intros Hstep. induction ops as [|o ops IH]; intros st HQ HI Hev; [destruct Hev|].
  destruct HQ as [Hq HQ]. cbn [happens] in *. destruct Hev as [Hp|Hev]; [left; auto|right].
  apply IH; [exact HQ|apply Hstep; assumption|exact Hev].
Qed.

Lemma happens_impl {S X} (stp : S -> X -> S) (P P' : S -> X -> Prop) : (forall s o, P s o -> P' s o) ->
  forall ops st, happens stp P st ops -> happens stp P' st ops.
Proof. intros H. induction ops as [|o ops IH]; intros st Hev; [destruct Hev|]. destruct Hev as [Hp|Hev]; [left; auto|right; auto]. Qed.

Section Win.
Variable recover : bytes -> bytes -> option bytes.
Variable keccak : bytes -> bytes.
Variable sign : bytes -> bytes.
Variable own : addr.
Variable gov_chain : Z.
Variable gov_addr : bytes.

Notation rec := (Processor.rec recover).
Notation dg := (Processor.dg keccak).
Notation step := (Processor.step recover keccak sign own gov_chain gov_addr).
Notation run := (Processor.run recover keccak sign own gov_chain gov_addr).
Notation handle_obs := (Processor.handle_obs recover).
Notation broadcast_signature := (Processor.broadcast_signature keccak own).
Notation Inv1 := (ProcC01Proofs.Inv1 recover keccak).
Notation Inv2 := (ProcC02Proofs.Inv2 sign own).
Notation accepted := (ProcC02Proofs.accepted recover).
Notation qvalid := (ProcSpec.qvalid recover keccak).
Notation stepf := (fun st o => fst (step st o)).

(* ---- what handleObservation publishes: the entry's own VAA with the assembled signatures, a valid quorum of the applicable set *)
Lemma handle_obs_pub O L st ob x : Inv1 O L st -> In x (snd (handle_obs st ob)) -> is_pub x = true ->
  exists e0 w g sg, alookup (o_hash ob) (agg st) = Some e0 /\ our_vaa e0 = Some w /\ applicable st (o_hash ob) = Some g /\
    qvalid (set_sigs w sg) (keys g) /\
    (x = Store (id_of (set_sigs w sg)) (marshal (set_sigs w sg)) \/ x = SendVAA (marshal (set_sigs w sg))).
Proof.
  intros HI. pose proof HI as [Ia Id Ic Iw]. unfold Processor.handle_obs, applicable.
  destruct (rec (o_hash ob) (o_sig ob)) as [pk|] eqn:Er; [|intros []].
  destruct (bytes_eqb_spec (bytes_to_address (o_addr ob)) pk) as [Hpk|]; cbn [negb]; [|intros []].
  set (their := bytes_to_address (o_addr ob)) in *.
  destruct (alookup (o_hash ob) (agg st)) as [e0|] eqn:Ee.
  2:{ (* no entry: nothing can be published *)
    destruct (cur st) as [g|]; [|intros []]. destruct (Processor.memb their (keys g)); cbn [negb]; [|intros []].
    cbn [new_entry set_esigs esigs our_vaa]. destruct (assemble _ _ _); cbn [snd]; [intros []|intros [E|[]] Hp; subst x; discriminate]. }
  set (gs := match gs_snap e0 with Some g => Some g | None => cur st end).
  destruct gs as [g|] eqn:Eg; [|intros []].
  destruct (Processor.memb their (keys g)) eqn:Em; cbn [negb]; [|intros []].
  assert (He0 : ProcC01Proofs.eok recover keccak O L (o_hash ob) e0).
  { apply alookup_In in Ee. rewrite Forall_forall in Ia. apply (Ia _ Ee). }
  assert (HgL : In g L).
  { subst gs. destruct (gs_snap e0) as [g'|] eqn:Es; [inversion Eg; subst g'; apply (E_snap _ _ _ _ _ _ He0); exact Es|apply Ic; exact Eg]. }
  assert (Hwf : ProcSpec.gs_wf g) by (rewrite Forall_forall in Iw; auto).
  destruct Hwf as [Hnd Hlen].
  set (e1 := set_esigs e0 (aset their (o_sig ob) (esigs e0))).
  assert (Hs1 : Forall (ProcessorProofs.sig_ok recover (o_hash ob)) (esigs e1)).
  { subst e1. cbn [set_esigs esigs]. apply Forall_aset; [|apply (E_sigs _ _ _ _ _ _ He0)].
    unfold ProcessorProofs.sig_ok. cbn [fst snd]. rewrite Hpk. exact Er. }
  destruct (assemble_ok recover (o_hash ob) (esigs e1) Hs1 (keys g) [] Hnd ltac:(cbn [length]; lia))
    as (sg & Ha & Hinc & Hso & _ & Hle & _).
  cbn [length] in Ha, Hinc. change (Z.of_nat 0) with 0 in Ha, Hinc. rewrite Ha.
  change (our_vaa e1) with (our_vaa e0). destruct (our_vaa e0) as [w|] eqn:Ev; [|intros []].
  destruct (proc_local_quorum_reached (go_quorum (Z.of_nat (length (keys g)))) (Z.of_nat (length sg)) && negb (submitted e1)) eqn:Eq; [|intros []].
  apply andb_prop in Eq as [Eq _]. apply local_quorum_reached_iff in Eq.
  destruct sg as [|s0 sg'] eqn:Esg; [intros [E|[]] Hp; subst x; discriminate|]. rewrite <- Esg in *. clear Esg.
  destruct (E_vaa _ _ _ _ _ _ He0 w Ev) as [Hdw _].
  assert (Hqv : qvalid (set_sigs w sg) (keys g)).
  { split; [|exact Eq]. unfold accepts. cbn [sigs set_sigs].
    change (Processor.dg keccak (set_sigs w sg)) with (dg w). rewrite Hdw. cbn [app] in Hso. split; [exact Hinc|]. split; [exact Hso|].
    apply nodup_addrs_signers_distinct with (addrs := keys g); assumption. }
  cbn [snd]. intros Hin _. exists e0, w, g, sg. split; [reflexivity|]. split; [exact Ev|]. split; [reflexivity|]. split; [exact Hqv|].
  destruct Hin as [E|[E|[]]]; [left|right]; symmetry; exact E.
Qed.

Variable G : gset.
Variable v : vaa.
Let h : bytes := dg v.

(* no OTHER own VAA of this node is filed under v's digest: another injected VAA with that digest is v itself, no chain message has
   that digest.  (Entries are keyed by digest; with a collision-free Keccak the premise follows from the bodies being different.) *)
Definition no_alias (o : op) : Prop :=
  match o with
  | Inject v' => dg v' = h -> v' = v
  | LocalMsg m => dg (vaa_of_message 0 m) <> h
  | _ => True
  end.
Definition ours (st : pstate) : Prop := forall e w, alookup h (agg st) = Some e -> our_vaa e = Some w -> w = v.

Lemma bcast_ours st w s tx chain : (dg w = h -> w = v) -> ours st -> ours (fst (broadcast_signature st w s tx chain)).
Proof.
  intros Hw Ho e w' He Hv. unfold Processor.broadcast_signature in He. cbn [fst agg] in He. rewrite alookup_aset in He.
  destruct (bytes_eqb_spec h (dg w)) as [Eh|_]; [|exact (Ho e w' He Hv)].
  inversion He; subst e. cbn [set_own our_vaa] in Hv. inversion Hv; subst w'. apply Hw. symmetry. exact Eh.
Qed.

Lemma obs_ours O L st ob : Inv1 O L st -> ours st -> ours (fst (handle_obs st ob)).
Proof.
  intros HI Ho. destruct (accepted st ob) as [[a g]|] eqn:Ea; [|rewrite (handle_obs_rejected recover st ob Ea); exact Ho].
  destruct (handle_obs_accepted recover keccak O L st ob a g HI Ea) as (e' & Hst & _ & Hold & Hnew & _).
  rewrite Hst. intros e w He Hv. cbn [agg] in He. rewrite alookup_aset in He.
  destruct (bytes_eqb_spec h (o_hash ob)) as [Eh|_]; [|exact (Ho e w He Hv)].
  inversion He; subst e. rewrite <- Eh in Hold, Hnew. destruct (alookup h (agg st)) as [e0|] eqn:E0.
  - destruct (Hold e0 eq_refl) as (A & _). rewrite A in Hv. exact (Ho e0 w E0 Hv).
  - rewrite (Hnew eq_refl) in Hv. discriminate.
Qed.

Lemma step_ours O L st o : Inv1 O L st -> calm o = true -> no_alias o -> ours st -> ours (fst (step st o)).
Proof.
  intros HI Hc Hn Ho. destruct o as [g|t|m|w|ob|k|b|]; try discriminate; cbn [Processor.step].
  - exact Ho.
  - destruct (handle_message_cases keccak sign own gov_chain gov_addr st m) as [[Hs _]|(g & _ & Hr)]; cbv zeta in *.
    + rewrite Hs. exact Ho.
    + rewrite Hr. apply bcast_ours; [|exact Ho]. intros E. exfalso. apply Hn. exact E.
  - unfold Processor.handle_injection. apply bcast_ours; [exact Hn|exact Ho].
  - apply (obs_ours O L); assumption.
  - destruct (nth_error (loopq st) k) as [ob|]; [|exact Ho].
    apply (obs_ours O L); [destruct HI; constructor; assumption|exact Ho].
  - intros e w He. apply Ho. revert He. unfold Processor.handle_inbound. destruct (unmarshal b) as [vb|]; [|auto]. destruct (cur st) as [gc|]; [|auto].
    repeat match goal with |- context [if ?c then _ else _] => destruct c end; cbn [fst agg]; auto.
Qed.

Hypothesis keccak_len : forall b, length (keccak b) = 32%nat.
Hypothesis own_len : length own = 20%nat.
Hypothesis sign_correct : forall d, length d = 32%nat -> rec d (sign d) = Some own.
Hypothesis own_in : In own (keys G).

Notation K := (SystemLiveProofs.K own G h).

(* ---- the form of a broadcast for v's digest in a state of the window *)
Lemma step_pub_form O L st o : Inv1 O L st -> K st -> ours st ->
  bcast_for recover keccak sign own gov_chain gov_addr h st o = true ->
  exists sg, In (SendVAA (marshal (set_sigs v sg))) (snd (step st o)) /\ qvalid (set_sigs v sg) (keys G).
Proof.
  intros HI [K1 K2 K3] Ho. unfold bcast_for, obs_of_op.
  assert (Hcore : forall st1 ob, Inv1 O L st1 -> agg st1 = agg st -> cur st1 = cur st -> o_hash ob = h ->
            existsb is_bcast (snd (handle_obs st1 ob)) = true ->
            exists sg, In (SendVAA (marshal (set_sigs v sg))) (snd (handle_obs st1 ob)) /\ qvalid (set_sigs v sg) (keys G)).
  { intros st1 ob HI1 Hag Hcu Hh Hb. apply existsb_exists in Hb as (x & Hx & Hxb).
    destruct (handle_obs_pub O L st1 ob x HI1 Hx) as (e0 & w & g & sg & He & Hw & Hap & Hq & Hform); [destruct x; try discriminate; reflexivity|].
    rewrite Hh, Hag in He. assert (w = v) by (apply (Ho e0 w He Hw)). subst w.
    destruct (K3 e0 He ltac:(rewrite Hw; discriminate)) as [Hsnap _].
    unfold applicable in Hap. rewrite Hh, Hag, He, Hsnap in Hap. inversion Hap; subst g.
    exists sg. split; [|exact Hq]. destruct Hform as [E|E]; [subst x; discriminate|subst x; exact Hx]. }
  destruct o as [g|t|m|w|ob|k|b|]; try discriminate.
  - intros Hb. apply andb_prop in Hb as [Hh Hb]. apply bytes_eqb_eq in Hh. cbn [Processor.step] in *. apply (Hcore st ob HI eq_refl eq_refl Hh Hb).
  - cbn [Processor.step]. destruct (nth_error (loopq st) k) as [ob|]; [|discriminate].
    intros Hb. apply andb_prop in Hb as [Hh Hb]. apply bytes_eqb_eq in Hh.
    match type of Hb with context [handle_obs ?s ob] => apply (Hcore s ob) end; [destruct HI; constructor; assumption|reflexivity|reflexivity|exact Hh|exact Hb].
Qed.

(* the node is handed v *)
Definition ev_inj (_ : pstate) (o : op) : Prop := o = Inject v.

Lemma run_observed_inj : forall ops O L st, Forall ProcSpec.op_wf ops -> forallb calm ops = true -> Inv1 O L st -> Inv2 st -> K st ->
  happens stepf ev_inj st ops -> observed h (fst (run st ops)).
Proof.
  induction ops as [|o ops IH]; intros O L st Hw Hc HI H2 HK Hev; [destruct Hev|].
  inversion Hw as [|? ? Hw1 Hw2]; subst. cbn [forallb] in Hc. apply andb_prop in Hc as [Hc1 Hc2].
  destruct (step_c01 recover keccak sign own gov_chain gov_addr O L st o HI Hw1) as [HI' _].
  pose proof (step_inv2 recover keccak sign own gov_chain gov_addr keccak_len own_len sign_correct O L st o HI H2) as H2'.
  destruct (step_live recover keccak sign own gov_chain gov_addr own_len sign_correct G h own_in O L st o Hc1 HI H2 HK) as (A & _ & C & _). cbv zeta in *.
  cbn [happens] in Hev. cbn [Processor.run].
  destruct Hev as [Hp|Hev].
  - unfold ev_inj in Hp. subst o.
    assert (Hobs : observed h (fst (step st (Inject v)))).
    { cbn [Processor.step]. unfold Processor.handle_injection.
      destruct (bcast_live keccak own G h st v (sign (dg v)) [] false HK) as (_ & _ & _ & D). apply D. reflexivity. }
    destruct (run_live recover keccak sign own gov_chain gov_addr keccak_len own_len sign_correct G h own_in ops _ _ _ Hw2 Hc2 HI' H2' A) as (_ & _ & C' & _).
    cbv zeta in C'. destruct (step st (Inject v)) as [st1 out1]. cbn [fst] in *. destruct (run st1 ops) as [st2 outs]. cbn [fst] in *. apply C'. exact Hobs.
  - specialize (IH _ _ _ Hw2 Hc2 HI' H2' A Hev). destruct (step st o) as [st1 out1]. cbn [fst] in *. destruct (run st1 ops) as [st2 outs]. exact IH.
Qed.

Lemma run_app : forall ops0 ops s, fst (run s (ops0 ++ ops)) = fst (run (fst (run s ops0)) ops).
Proof.
  induction ops0 as [|o t IH]; intros ops s; cbn [app Processor.run]; [reflexivity|].
  destruct (step s o) as [s1 o1]. specialize (IH ops s1). destruct (run s1 t) as [s2 os]. cbn [fst] in *.
  destruct (run s1 (t ++ ops)) as [s3 os3]. cbn [fst] in *. exact IH.
Qed.

(* ---- one node, one window: after ANY pre-history that leaves G in force and nothing known about v's digest, over ANY window
   without set change / cleanup tick in which the node is handed v, the observations of a quorum of G's members (own included)
   arrive and the own signature loops back: at some step of the window the node broadcasts [marshal (set_sigs v sg)] carrying a
   valid quorum of G over v's digest *)
Theorem inject_window_publishes ops0 ops (signers : list addr) :
  Forall ProcSpec.op_wf ops0 -> Forall ProcSpec.op_wf ops -> forallb calm ops = true -> all_ops no_alias ops ->
  let st0 := fst (run init ops0) in
  let st := fst (run st0 ops) in
  cur st0 = Some G -> alookup h (agg st0) = None -> ProcSpec.gs_wf G ->
  happens stepf ev_inj st0 ops ->
  NoDup signers -> incl signers (keys G) -> go_quorum (Z.of_nat (length (keys G))) <= Z.of_nat (length signers) ->
  (forall a, In a signers -> a <> own -> happens stepf (ev_obs recover h a) st0 ops) ->
  (forall o, In o (loopq st) -> o_hash o <> h) ->
  happens stepf (fun s o => exists sg, In (SendVAA (marshal (set_sigs v sg))) (snd (step s o)) /\ qvalid (set_sigs v sg) (keys G)) st0 ops.
Proof.
  intros Hw0 Hw Hc Hna. cbv zeta. intros Hcur Hno Hgwf Hinj ND Hincl Hq Hdel Hlq.
  set (st0 := fst (run init ops0)) in *. set (st := fst (run st0 ops)) in *.
  destruct (reachable_invariants recover keccak sign own gov_chain gov_addr ops0 Hw0) as [[O0 HI0] HK0]. fold st0 in HI0, HK0.
  pose proof (run_inv2 recover keccak sign own gov_chain gov_addr keccak_len own_len sign_correct ops0 [] [] init (init_inv1 recover keccak)
                (init_inv2 sign own) Hw0) as H20. fold st0 in H20.
  assert (HKw : K st0) by (constructor; [exact Hcur| |]; intros e He; rewrite Hno in He; discriminate).
  assert (Ho0 : ours st0) by (intros e w He; rewrite Hno in He; discriminate).
  (* liveness: the entry ends up submitted *)
  destruct (run_live recover keccak sign own gov_chain gov_addr keccak_len own_len sign_correct G h own_in ops O0 _ st0 Hw Hc HI0 H20 HKw)
    as (HK & _ & _ & Hrec & _). cbv zeta in *. fold st in HK, Hrec.
  pose proof (run_observed_inj ops O0 _ st0 Hw Hc HI0 H20 HKw Hinj) as Hobs. fold st in Hobs.
  destruct Hobs as (e & He & Hv). destruct HK as [K1 K2 K3]. destruct (K3 e He Hv) as [Hs Hown].
  assert (Hrun : st = fst (run init (ops0 ++ ops))) by (subst st st0; symmetry; apply run_app).
  assert (Hwall : Forall ProcSpec.op_wf (ops0 ++ ops)) by (apply Forall_app; split; assumption).
  assert (Hsub : submitted e = true).
  { assert (Hin : In (h, e) (agg st)) by (apply alookup_In; exact He).
    rewrite Hrun in Hin, Hlq.
    apply (quorum_implies_published recover keccak sign own gov_chain gov_addr keccak_len own_len sign_correct (ops0 ++ ops) h e G Hwall Hin Hv Hs own_in Hlq).
    assert (Hhas : forall a, In a signers -> has (esigs e) a = true).
    { intros a Ha. unfold has. destruct (bytes_eq_dec a own) as [->|Hne].
      - destruct Hown as [Ho|(o & Ho & Hoh)]; [destruct (alookup own (esigs e)); [reflexivity|contradiction]|].
        exfalso. rewrite <- Hrun in Hlq. exact (Hlq o Ho Hoh).
      - destruct (Hrec a (Hincl a Ha) (Hdel a Ha Hne)) as (e' & He' & Ha'). assert (e' = e) by congruence. subst e'.
        destruct (alookup a (esigs e)); [reflexivity|contradiction]. }
    unfold nsigned.
    pose proof (filter_length_ge (has (esigs e)) (list_eq_dec Byte.byte_eq_dec) signers (keys G) ND Hincl Hhas). lia. }
  (* "submitted" was set by a broadcasting step of the window ... *)
  assert (Hb : happens stepf (fun s o => bcast_for recover keccak sign own gov_chain gov_addr h s o = true) st0 ops).
  { apply (submitted_was_broadcast recover keccak sign own gov_chain gov_addr h e ops O0 _ st0 HI0 HK0 Hw); [|exact He|exact Hsub].
    intros e0 He0. rewrite Hno in He0. discriminate. }
  (* ... in a state that still satisfies the window invariants: the broadcast is v with a quorum of G *)
  set (I := fun s => (exists O L, Inv1 O L s) /\ Inv2 s /\ K s /\ ours s).
  set (Q := fun o => ProcSpec.op_wf o /\ calm o = true /\ no_alias o).
  assert (HQ : all_ops Q ops).
  { clear -Hw Hc Hna. induction ops as [|o t IH]; [exact I|]. inversion Hw; subst. cbn [forallb] in Hc. apply andb_prop in Hc as [C1 C2].
    destruct Hna as [N1 N2]. split; [split; [assumption|split; assumption]|apply IH; assumption]. }
  assert (HI : I st0) by (split; [exists O0; eexists; exact HI0|split; [exact H20|split; [exact HKw|exact Ho0]]]).
  assert (Hstep : forall s o, Q o -> I s -> I (fst (step s o))).
  { intros s o (Q1 & Q2 & Q3) ((O & L & J1) & J2 & J3 & J4).
    destruct (step_c01 recover keccak sign own gov_chain gov_addr O L s o J1 Q1) as [J1' _].
    split; [eexists; eexists; exact J1'|]. split; [apply (step_inv2 recover keccak sign own gov_chain gov_addr keccak_len own_len sign_correct O L); assumption|].
    split; [apply (step_live recover keccak sign own gov_chain gov_addr own_len sign_correct G h own_in O L s o Q2 J1 J2 J3)|].
    apply (step_ours O L); assumption. }
  pose proof (happens_inv stepf I Q _ Hstep ops st0 HQ HI Hb) as Hb'.
  apply (happens_impl stepf _ _) with (2 := Hb').
  intros s o (((O & L & J1) & _ & J3 & J4) & _ & Hbc). apply (step_pub_form O L); assumption.
Qed.
End Win.
