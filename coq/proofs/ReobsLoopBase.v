(* Proofs about the composed re-observation loop (model/ReobsLoop.v), extension X7 - the half that needs no processor proofs
   (props/C17.v depends on this file only, so that a change of the processor's constants cannot break the dispatcher's check).
   Part 0: the hops are the wiring of node.go.   Part 1: every history of the composition projects onto a history of each
   component (so every theorem of C02 / C03 / C14 / C17 holds of the component inside the loop).   Part 2: time.
   Part 3: the dispatcher under an arbitrary request stream (forward again after a purge, timed), window inside the loop, where the
   chain messages the processor handles come from, queue provenance.   The retry stream, cadence, budget, recovery and the network
   hop are in proofs/ReobsLoopProofs.v. *)
From Coq Require Import List ZArith Lia Bool Arith.
From Coq Require Import Strings.Byte.
From WH Require Import lib.Bytes gen.Extracted gen.ExtractedWiring gen.ExtractedP2P model.Vaa model.Processor model.ReobsLoop.
From WH Require proofs.ReobserveProofs.
Import ListNotations.
Open Scope Z_scope.

Module RP := ReobserveProofs.

(* ================================================================== Part 0: hops and numbers *)
Lemma hops_match : loop_hops = extracted_hops.
Proof. reflexivity. Qed.
Lemma watched_chains_are : watched_chains = [2; 4; 255].
Proof. reflexivity. Qed.
Lemma node_queues_known c : In c watched_chains -> R.find_queue node_queues c <> None.
Proof. intros [<-|[<-|[<-|[]]]]; discriminate. Qed.

(* ================================================================== Part 1: projections *)
Lemma R_run_app : forall a st b, R.run st (a ++ b) = R.run st a ++ R.run (R.final st a) b.
Proof. induction a as [|o a IH]; intros st b; [reflexivity|]. cbn [app]. rewrite !RP.run_cons, IH. reflexivity. Qed.
Lemma R_final_app : forall a st b, R.final st (a ++ b) = R.final (R.final st a) b.
Proof. induction a as [|o a IH]; intros st b; [reflexivity|]. cbn [app R.final]. apply IH. Qed.

Definition dops (tr : list tev) : list R.op := map (fun x => snd (fst x)) (disp_of tr).
Definition pops (tr : list tev) : list op := map fst (proc_of tr).

Lemma disp_of_app a b : disp_of (a ++ b) = disp_of a ++ disp_of b.
Proof. unfold disp_of. apply flat_map_app. Qed.
Lemma proc_of_app a b : proc_of (a ++ b) = proc_of a ++ proc_of b.
Proof. unfold proc_of. apply flat_map_app. Qed.
Lemma dops_app a b : dops (a ++ b) = dops a ++ dops b.
Proof. unfold dops. rewrite disp_of_app, map_app. reflexivity. Qed.
Lemma pops_app a b : pops (a ++ b) = pops a ++ pops b.
Proof. unfold pops. rewrite proc_of_app, map_app. reflexivity. Qed.

Section Loop.
Variable recover : bytes -> bytes -> option bytes.
Variable keccak : bytes -> bytes.
Variable sign : bytes -> bytes.
Variable own : addr.
Variable gov_chain : Z.
Variable gov_addr : bytes.
Variable decode_hb : bytes -> option Z.
Variable decodeq : bytes -> option R.req.
Variable encq : R.req -> bytes.
Variable self : G.peerid.
Variable disable : bool.
Variable watch : Z -> R.req -> Z -> list msgpub.

Notation pstep := (ReobsLoop.pstep recover keccak sign own gov_chain gov_addr).
Notation prun := (Processor.run recover keccak sign own gov_chain gov_addr).
Notation gstep := (ReobsLoop.gstep recover keccak decode_hb decodeq self disable).
Notation feed := (ReobsLoop.feed recover keccak sign own gov_chain gov_addr).
Notation lstep := (ReobsLoop.lstep recover keccak sign own gov_chain gov_addr decode_hb decodeq encq self disable watch).
Notation lrun := (ReobsLoop.lrun recover keccak sign own gov_chain gov_addr decode_hb decodeq encq self disable watch).
Notation lstates := (ReobsLoop.lstates recover keccak sign own gov_chain gov_addr decode_hb decodeq encq self disable watch).

Lemma prun_app : forall a st b, prun st (a ++ b) = let '(s1, o1) := prun st a in let '(s2, o2) := prun s1 b in (s2, o1 ++ o2).
Proof.
  induction a as [|o a IH]; intros st b; cbn [app Processor.run]; [destruct (prun st b); reflexivity|].
  destruct (Processor.step _ _ _ _ _ _ st o) as [st1 out1]. rewrite IH. destruct (prun st1 a) as [s1 o1]. destruct (prun s1 b) as [s2 o2]. reflexivity.
Qed.

(* the dispatcher events of a trace are a run of the dispatcher model, the processor events a run of the processor model *)
Definition dwf (s : R.state) (tr : list tev) (s' : R.state) : Prop := disp_of tr = R.run s (dops tr) /\ s' = R.final s (dops tr).
Definition pwf (p : pstate) (tr : list tev) (p' : pstate) : Prop := prun p (pops tr) = (p', map snd (proc_of tr)).
(* the parts of the node a step leaves alone *)
Definition same_but_proc (a b : lnode) : Prop := l_p2p a = l_p2p b /\ l_disp a = l_disp b /\ l_sendq a = l_sendq b /\ l_now a = l_now b.

Lemma dwf_app s tr1 s1 tr2 s2 : dwf s tr1 s1 -> dwf s1 tr2 s2 -> dwf s (tr1 ++ tr2) s2.
Proof.
  intros [A1 A2] [B1 B2]. unfold dwf. rewrite disp_of_app, dops_app, R_run_app, R_final_app, <- A2, <- A1, <- B1. auto.
Qed.
Lemma pwf_app p tr1 p1 tr2 p2 : pwf p tr1 p1 -> pwf p1 tr2 p2 -> pwf p (tr1 ++ tr2) p2.
Proof.
  unfold pwf. intros A B. rewrite pops_app, prun_app, A, B, proc_of_app, map_app. reflexivity.
Qed.
Lemma dwf_none s tr : disp_of tr = [] -> dwf s tr s.
Proof. intros E. unfold dwf, dops. rewrite E. split; reflexivity. Qed.
Lemma pwf_none p tr : proc_of tr = [] -> pwf p tr p.
Proof. intros E. unfold pwf, pops. rewrite E. reflexivity. Qed.

(* ---- feed *)
Lemma feed_spec : forall os st, let r := feed st os in
  same_but_proc st (fst r) /\ pwf (l_proc st) (snd r) (l_proc (fst r)) /\ disp_of (snd r) = [] /\
  Forall (fun e => fst e = l_now st /\ exists o outs, snd e = EProc o outs) (snd r) /\ pops (snd r) = os.
Proof.
  induction os as [|o os IH]; intros st; cbv zeta; cbn [ReobsLoop.feed].
  - cbn. repeat split; constructor.
  - unfold ReobsLoop.pstep. destruct (Processor.step _ _ _ _ _ _ (l_proc st) o) as [p' outs] eqn:Es.
    specialize (IH (with_proc st p')). destruct (feed (with_proc st p') os) as [st' evs]. cbn [fst snd] in *.
    destruct IH as ((I1 & I2 & I3 & I4) & Ip & Id & If & Io). cbn [with_proc l_p2p l_disp l_sendq l_now l_proc] in *.
    split; [repeat split; assumption|]. split; [|split; [exact Id|split]].
    + unfold pwf in *. cbn [pops proc_of flat_map snd app map fst Processor.run]. fold (proc_of evs). fold (pops evs).
      rewrite Es, Ip. reflexivity.
    + constructor; [split; [reflexivity|do 2 eexists; reflexivity]|exact If].
    + cbn [pops proc_of flat_map snd app map fst]. fold (proc_of evs). fold (pops evs). rewrite Io. reflexivity.
Qed.

(* ---- dispatch, dispatch_all *)
Definition same_but_disp (a b : lnode) : Prop := l_p2p a = l_p2p b /\ l_proc a = l_proc b /\ l_sendq a = l_sendq b /\ l_now a = l_now b.

Lemma dispatch_spec st o : let r := dispatch st o in
  same_but_disp st (fst r) /\ snd r = [(l_now st, EDisp (l_disp st) o (snd (R.step (l_disp st) o)))] /\
  l_disp (fst r) = fst (R.step (l_disp st) o).
Proof.
  cbv zeta. unfold dispatch. destruct (R.step (l_disp st) o) as [d' x]. cbn. repeat split.
Qed.

Lemma dwf_one s o t : dwf s [(t, EDisp s o (snd (R.step s o)))] (fst (R.step s o)).
Proof. unfold dwf, dops. cbn. destruct (R.step s o); split; reflexivity. Qed.

Lemma dispatch_all_spec : forall rs st, let r := dispatch_all st rs in
  same_but_disp st (fst r) /\ dwf (l_disp st) (snd r) (l_disp (fst r)) /\ proc_of (snd r) = [] /\
  Forall (fun e => fst e = l_now st /\ exists s q x, snd e = EDisp s (R.Req q (l_now st)) x /\ In q rs) (snd r) /\
  dops (snd r) = map (fun q => R.Req q (l_now st)) rs.
Proof.
  induction rs as [|q rs IH]; intros st; cbv zeta; cbn [ReobsLoop.dispatch_all].
  - cbn. split; [repeat split|]. split; [apply dwf_none; reflexivity|]. repeat split; constructor.
  - pose proof (dispatch_spec st (R.Req q (l_now st))) as D. destruct (dispatch st (R.Req q (l_now st))) as [st1 e1]. cbn [fst snd] in D.
    destruct D as ((D1 & D2 & D3 & D4) & De & Dd). specialize (IH st1). destruct (dispatch_all st1 rs) as [st2 e2]. cbn [fst snd] in *.
    destruct IH as ((I1 & I2 & I3 & I4) & Iw & Ip & If & Io). rewrite <- D4 in *.
    split; [repeat split; congruence|]. split; [|split; [|split]].
    + eapply dwf_app; [|exact Iw]. rewrite De, Dd. apply dwf_one.
    + rewrite proc_of_app, Ip, De. reflexivity.
    + apply Forall_app. split.
      * rewrite De. constructor; [|constructor]. split; [reflexivity|]. do 3 eexists. split; [reflexivity|left; reflexivity].
      * eapply Forall_impl; [|exact If]. intros e (A & s & q' & x & B & C). split; [exact A|]. exists s, q', x. split; [exact B|right; exact C].
    + rewrite dops_app, Io, De. reflexivity.
Qed.

(* ---- post_all *)
Definition same_but_sendq (a b : lnode) : Prop := l_p2p a = l_p2p b /\ l_proc a = l_proc b /\ l_disp a = l_disp b /\ l_now a = l_now b.

Lemma post_all_spec : forall rs st, let r := post_all st rs in
  same_but_sendq st (fst r) /\ disp_of (snd r) = [] /\ proc_of (snd r) = [] /\
  Forall (fun e => fst e = l_now st /\ exists q res, snd e = EPost q res) (snd r).
Proof.
  induction rs as [|q rs IH]; intros st; cbv zeta; cbn [ReobsLoop.post_all].
  - cbn. repeat split; constructor.
  - destruct (R.post sendq_cap (l_sendq st) q) as [q' res]. specialize (IH (with_sendq st q')).
    destruct (post_all (with_sendq st q') rs) as [st2 e2]. cbn [fst snd with_sendq l_p2p l_proc l_disp l_now] in *.
    destruct IH as ((I1 & I2 & I3 & I4) & Id & Ip & If).
    split; [repeat split; assumption|]. split; [exact Id|]. split; [exact Ip|]. constructor; [split; [reflexivity|do 2 eexists; reflexivity]|exact If].
Qed.

Ltac simp_fields := cbn [with_p2p with_sendq with_disp with_proc l_disp l_proc l_p2p l_sendq l_now fst snd] in *.

(* ---- one step, a whole history *)
Lemma lstep_wf st o : let r := lstep st o in
  dwf (l_disp st) (snd r) (l_disp (fst r)) /\ pwf (l_proc st) (snd r) (l_proc (fst r)).
Proof.
  cbv zeta. destruct o as [t| |q| |from m| |c|e]; cbn [ReobsLoop.lstep].
  - match goal with |- context [feed ?s ?os] => pose proof (feed_spec os s) as F; destruct (feed s os) as [st' evs] end.
    cbn [fst snd l_disp l_proc] in *. destruct F as ((_ & F2 & _) & Fp & Fd & _). split; [rewrite <- F2; apply dwf_none; exact Fd|exact Fp].
  - pose proof (feed_spec (cleanup_ops (l_now st)) st) as F. destruct (feed st (cleanup_ops (l_now st))) as [st1 e1]. cbn [fst snd] in F.
    destruct F as ((_ & F2 & _) & Fp & Fd & _).
    pose proof (post_all_spec (reqs_of_evs e1) st1) as Q. destruct (post_all st1 (reqs_of_evs e1)) as [st2 e2]. cbn [fst snd] in *.
    destruct Q as ((_ & Q2 & Q3 & _) & Qd & Qp & _). split.
    + eapply dwf_app; [rewrite F2; apply dwf_none; exact Fd|rewrite <- Q3; apply dwf_none; exact Qd].
    + eapply pwf_app; [exact Fp|rewrite <- Q2; apply pwf_none; exact Qp].
  - pose proof (post_all_spec [q] st) as Q. destruct (post_all st [q]) as [st2 e2]. cbn [fst snd] in *.
    destruct Q as ((_ & Q2 & Q3 & _) & Qd & Qp & _). split; [rewrite <- Q3; apply dwf_none; exact Qd|rewrite <- Q2; apply pwf_none; exact Qp].
  - destruct (l_sendq st) as [|q qs]; [cbn; split; [apply dwf_none|apply pwf_none]; reflexivity|].
    destruct (gstep (l_p2p st) (G.LLocalReq (encq q))) as [g' outs].
    match goal with |- context [dispatch_all ?s ?rs] => pose proof (dispatch_all_spec rs s) as D; destruct (dispatch_all s rs) as [st1 e1] end.
    cbn [fst snd with_p2p with_sendq l_disp l_proc] in *. destruct D as ((_ & D2 & _) & Dw & Dp & _). split.
    + eapply dwf_app; [exact Dw|apply dwf_none; reflexivity].
    + rewrite <- D2. apply pwf_none. rewrite proc_of_app, Dp. reflexivity.
  - destruct (gstep (l_p2p st) (G.LRecv from m)) as [g' outs].
    match goal with |- context [feed ?s ?os] => pose proof (feed_spec os s) as F; destruct (feed s os) as [st1 e1] end.
    cbn [fst snd with_p2p l_disp l_proc] in F. destruct F as ((_ & F2 & _) & Fp & Fd & _). simp_fields.
    pose proof (dispatch_all_spec (reqs_of decodeq outs) st1) as D. destruct (dispatch_all st1 (reqs_of decodeq outs)) as [st2 e2]. cbn [fst snd] in *.
    destruct D as ((_ & D2 & _) & Dw & Dp & _). split.
    + eapply dwf_app; [rewrite F2; apply dwf_none; exact Fd|exact Dw].
    + eapply pwf_app; [exact Fp|rewrite <- D2; apply pwf_none; exact Dp].
  - pose proof (dispatch_spec st (R.Tick (l_now st))) as D. destruct (dispatch st (R.Tick (l_now st))) as [st1 e1]. cbn [fst snd] in *.
    destruct D as ((_ & D2 & _) & De & Dd). split; [rewrite De, Dd; apply dwf_one|rewrite <- D2; apply pwf_none; rewrite De; reflexivity].
  - destruct (R.step (l_disp st) (R.Drain c)) as [d' x] eqn:Es.
    assert (W1 : dwf (l_disp st) [(l_now st, EDisp (l_disp st) (R.Drain c) x)] d').
    { pose proof (dwf_one (l_disp st) (R.Drain c) (l_now st)) as W. rewrite Es in W. exact W. }
    destruct x as [c0| | | | | |[r|]]; try (cbn [fst snd with_disp l_disp l_proc]; split; [exact W1|apply pwf_none; reflexivity]).
    match goal with |- context [feed ?s ?os] => pose proof (feed_spec os s) as F; destruct (feed s os) as [st2 e2] end.
    cbn [fst snd with_disp l_disp l_proc] in *. destruct F as ((_ & F2 & _) & Fp & Fd & _). split.
    + change (?a :: ?b :: e2) with ([a] ++ (b :: e2)). eapply dwf_app; [exact W1|]. rewrite <- F2. apply dwf_none. cbn. exact Fd.
    + change (?a :: ?b :: e2) with ([a; b] ++ e2). eapply pwf_app; [apply pwf_none; reflexivity|exact Fp].
  - match goal with |- context [feed ?s ?os] => pose proof (feed_spec os s) as F; destruct (feed s os) as [st' evs] end.
    cbn [fst snd] in *. destruct F as ((_ & F2 & _) & Fp & Fd & _).
    assert (E1 : l_disp st = l_disp st') by (rewrite <- F2; destruct e; reflexivity).
    assert (E2 : forall p, pwf (l_proc match e with VSetGS g => with_p2p st (fst (gstep (l_p2p st) (G.LSetGS (keys g)))) | _ => st end) evs p -> pwf (l_proc st) evs p)
      by (destruct e; intros p Hp; exact Hp).
    split; [rewrite <- E1; apply dwf_none; exact Fd|apply E2; exact Fp].
Qed.

Theorem lrun_wf : forall H st, let r := lrun st H in
  dwf (l_disp st) (snd r) (l_disp (fst r)) /\ pwf (l_proc st) (snd r) (l_proc (fst r)).
Proof.
  induction H as [|o H IH]; intros st; cbv zeta; cbn [ReobsLoop.lrun].
  - cbn. split; [apply dwf_none|apply pwf_none]; reflexivity.
  - pose proof (lstep_wf st o) as S1. destruct (lstep st o) as [st1 e1]. specialize (IH st1). destruct (lrun st1 H) as [st2 e2]. cbn [fst snd] in *.
    destruct S1 as [A1 A2], IH as [B1 B2]. split; [eapply dwf_app; eassumption|eapply pwf_app; eassumption].
Qed.
End Loop.

Lemma lop_eq_cleanup (o : lop) : o = LCleanup \/ o <> LCleanup.
Proof. destruct o; try (right; discriminate). left; reflexivity. Qed.
Lemma op_eq_cleanup (o : op) : o = Cleanup \/ o <> Cleanup.
Proof. destruct o; [right; discriminate..|left; reflexivity]. Qed.


(* ================================================================== Part 3: the dispatcher under an arbitrary request stream *)
Section Dispatcher.
Import RP.

Lemma mono_ge : forall ops t0 o t, mono t0 ops -> In o ops -> op_time o = Some t -> t0 <= t.
Proof.
  induction ops as [|o' ops IH]; intros t0 o t Hm Hin Ht; [destruct Hin|]. cbn [mono] in Hm. destruct Hin as [->|Hin].
  - rewrite Ht in Hm. destruct Hm; assumption.
  - destruct (op_time o') as [t'|]; [destruct Hm as [L Hm]; specialize (IH _ _ _ Hm Hin Ht); lia|eapply IH; eassumption].
Qed.

(* the ops of a run are the ops it was given *)
Lemma run_ops : forall ops st, map (fun x => snd (fst x)) (R.run st ops) = ops.
Proof. induction ops as [|o ops IH]; intros st; [reflexivity|]. rewrite run_cons. cbn [map fst snd]. rewrite IH. reflexivity. Qed.

Lemma in_run_in_ops st ops s o x : In (s, o, x) (R.run st ops) -> In o ops.
Proof. intros H. rewrite <- (run_ops ops st). apply in_map_iff. exists (s, o, x). auto. Qed.

(* position and time: in a history with monotone clock readings, what precedes a step is not later, what follows is not earlier *)
Lemma run_order st t0 ops pre s o x post t : mono t0 ops -> R.run st ops = pre ++ (s, o, x) :: post -> op_time o = Some t ->
  (forall s' o' x' t', In (s', o', x') pre -> op_time o' = Some t' -> t' <= t) /\
  (forall s' o' x' t', In (s', o', x') post -> op_time o' = Some t' -> t <= t').
Proof.
  intros Hm Hr Ht. destruct (run_split _ _ _ _ _ Hr) as (ops1 & o1 & ops2 & st1 & -> & E1 & _ & Ex & Epost). injection Ex as _ <- _.
  apply mono_app in Hm as (t1 & _ & Hm & Hb). cbn [mono] in Hm. rewrite Ht in Hm. destruct Hm as [L Hm]. split.
  - intros s' o' x' t' Hin Ho. rewrite <- E1 in Hin. apply in_run_in_ops in Hin. specialize (Hb _ _ Hin Ho). lia.
  - intros s' o' x' t' Hin Ho. rewrite Epost in Hin. apply in_run_in_ops in Hin. eapply mono_ge; eassumption.
Qed.

(* two steps at different clock readings come in the order of their readings *)
Lemma run_two st t0 ops a b ta tb : mono t0 ops -> In a (R.run st ops) -> In b (R.run st ops) ->
  op_time (snd (fst a)) = Some ta -> op_time (snd (fst b)) = Some tb -> ta < tb ->
  exists pre mid post, R.run st ops = pre ++ a :: mid ++ b :: post.
Proof.
  intros Hm Ha Hb Hta Htb Hlt. destruct (in_split _ _ Ha) as (pre & post' & E). destruct a as [[sa oa] xa], b as [[sb ob] xb]. cbn [fst snd] in *.
  destruct (run_order _ _ _ _ _ _ _ _ _ Hm E Hta) as [Hpre Hpost].
  rewrite E in Hb. apply in_app_or in Hb as [Hb|[Hb|Hb]].
  - specialize (Hpre _ _ _ _ Hb Htb). lia.
  - inversion Hb; subst. rewrite Hta in Htb. inversion Htb. lia.
  - destruct (in_split _ _ Hb) as (mid & post & E2). exists pre, mid, post. rewrite E, E2. reflexivity.
Qed.

(* every remembered time of k stems from a forward of k in the history, or was remembered in the starting state *)
Lemma cache_from_forward : forall ops st k t, In (k, t) (R.cache (R.final st ops)) ->
  In (k, t) (R.cache st) \/ exists s r c, In (s, R.Req r t, R.Forward c) (R.run st ops) /\ R.key_of r = k.
Proof.
  induction ops as [|o ops IH]; intros st k t Hin; [left; exact Hin|]. cbn [R.final] in Hin. rewrite run_cons.
  destruct (IH _ _ _ Hin) as [Hc|(s & r & c & Hr & Hk)]; [|right; exists s, r, c; split; [right; exact Hr|exact Hk]].
  destruct o as [r u|u|c].
  - destruct (req_cases st r u) as [(_ & Ef & Ec)|(Es & _)]; [|rewrite Es in Hc; left; exact Hc].
    rewrite Ec in Hc. destruct Hc as [Hc|Hc]; [|left; exact Hc]. inversion Hc; subst. right. exists st, r, (R.chain_of r). split; [left; rewrite Ef; reflexivity|reflexivity].
  - cbn [R.step fst R.cache] in Hc. apply filter_In in Hc as [Hc _]. left. exact Hc.
  - cbn [R.step] in Hc. destruct (R.find_queue (R.queues st) c) as [q|]; [destruct (R.q_items q)|]; left; exact Hc.
Qed.

Definition is_fwd (k : R.rkey) (e : R.state * R.op * R.out) : bool :=
  match e with (_, R.Req r _, R.Forward _) => R.key_eqb (R.key_of r) k | _ => false end.

Lemma nofwd_of_existsb k tr : existsb (is_fwd k) tr = false -> nofwd k tr.
Proof.
  intros H s r t c Hin E. assert (X : existsb (is_fwd k) tr = true); [|congruence].
  apply existsb_exists. exists (s, R.Req r t, R.Forward c). split; [exact Hin|]. cbn. rewrite E. apply key_eqb_refl.
Qed.

(* "forwarded again", positional form: a purge tick later than t + window, LATER IN THE HISTORY a request of k that finds room:
   some request of k has been forwarded after t and not later than that request - whatever else arrived in between *)
Theorem forward_between_pos st t0 ops k t pre stau tau mid s2 r2 u o2 post :
  mono t0 ops -> cache_wf st -> known st (fst k) ->
  (forall t', In (k, t') (R.cache st) -> t' <= t) ->
  R.run st ops = pre ++ (stau, R.Tick tau, R.Purged) :: mid ++ (s2, R.Req r2 u, o2) :: post ->
  t + reobs_window < tau -> R.key_of r2 = k -> o2 <> R.DropFull ->
  exists s r f c, In (s, R.Req r f, R.Forward c) (R.run st ops) /\ R.key_of r = k /\ t < f <= u.
Proof.
  intros Hm W K Hold E Hgap Hk Hnf. pose proof window_pos as Wpos.
  destruct (run_order _ _ _ _ _ _ _ _ _ Hm E eq_refl) as [Hpre Hpost].
  assert (Hlt : tau <= u) by (eapply (Hpost s2 (R.Req r2 u) o2); [apply in_or_app; right; left; reflexivity|reflexivity]).
  destruct (existsb (is_fwd k) mid) eqn:Ex.
  - apply existsb_exists in Ex as ([[s o] x] & Hin & Hf). destruct o as [r f| |]; try discriminate Hf. destruct x; try discriminate Hf.
    cbn [is_fwd] in Hf. apply key_eqb_eq in Hf. exists s, r, f, c. split; [rewrite E; apply in_or_app; right; right; apply in_or_app; left; exact Hin|]. split; [exact Hf|].
    assert (A : tau <= f) by (eapply (Hpost s (R.Req r f) (R.Forward c)); [apply in_or_app; left; exact Hin|reflexivity]).
    assert (E' : R.run st ops = (pre ++ (stau, R.Tick tau, R.Purged) :: mid) ++ (s2, R.Req r2 u, o2) :: post) by (rewrite E, <- app_assoc; reflexivity).
    destruct (run_order _ _ _ _ _ _ _ _ _ Hm E' eq_refl) as [Hpre2 _].
    assert (B : f <= u) by (eapply (Hpre2 s (R.Req r f) (R.Forward c)); [apply in_or_app; right; right; exact Hin|reflexivity]). lia.
  - apply nofwd_of_existsb in Ex.
    destruct (run_final_split _ _ _ _ _ E) as (ops1 & o & ops2 & -> & Epre & Ex1 & Epost). injection Ex1 as -> <- _.
    set (sa := R.final st ops1) in *. set (sb := fst (R.step sa (R.Tick tau))) in *.
    symmetry in Epost. destruct (run_final_split _ _ _ _ _ Epost) as (opsm & o' & opsp & -> & Em & Ex2 & _). injection Ex2 as -> <- Ho2.
    set (sc := R.final sb opsm) in *.
    assert (Wb : cache_wf sb) by (apply wf_step; apply wf_final; exact W).
    assert (Kc : known sc (fst k)) by (apply known_final; apply known_step; apply known_final; exact K).
    destruct (R.cache_get (R.cache sb) k) as [t3|] eqn:Eg.
    + (* still remembered after the purge: remembered later than t, hence forwarded later than t *)
      unfold sb in Eg. cbn [R.step fst R.cache] in Eg. apply cache_get_filter_some in Eg as [Hin3 Hnp].
      assert (Hge : tau - t3 <= reobs_window) by (destruct (Z_lt_le_dec reobs_window (tau - t3)) as [X|X]; [apply purge_strict in X; congruence|exact X]).
      destruct (cache_from_forward ops1 st k t3 Hin3) as [Hc|(s & r & c & Hr & Hkk)]; [specialize (Hold _ Hc); lia|].
      exists s, r, t3, c. rewrite Epre in Hr. split; [rewrite E; apply in_or_app; left; exact Hr|]. split; [exact Hkk|].
      specialize (Hpre _ _ _ _ Hr eq_refl). lia.
    + (* forgotten: it stays forgotten until the request, which is therefore forwarded *)
      assert (Hnone : R.cache_get (R.cache sc) k = None) by (apply stay_none; [exact Eg|rewrite Em; exact Ex]).
      assert (Ho : o2 = R.Forward (R.chain_of r2)).
      { subst k. unfold known in Kc. cbn [R.key_of fst] in Kc. rewrite Ho2 in Hnf |- *. cbn [R.step] in Hnf |- *. rewrite Hnone in Hnf |- *. cbn [R.key_of fst] in Hnf |- *.
        destruct (R.find_queue (R.queues sc) (R.chain_of r2)) as [q|] eqn:Eq; [|contradiction].
        destruct (R.full q) eqn:Ef; [|reflexivity]. exfalso. apply Hnf. cbn [snd]. rewrite send_nonblocking. reflexivity. }
      exists sc, r2, u, (R.chain_of r2). split; [|split; [exact Hk|lia]].
      rewrite E. apply in_or_app; right; right. apply in_or_app; right; left. rewrite Ho. reflexivity.
Qed.

(* ... and with clock readings deciding the order *)
Corollary forward_between st t0 ops k t stau tau s2 r2 u o2 :
  mono t0 ops -> cache_wf st -> known st (fst k) ->
  (forall t', In (k, t') (R.cache st) -> t' <= t) ->
  In (stau, R.Tick tau, R.Purged) (R.run st ops) -> t + reobs_window < tau ->
  In (s2, R.Req r2 u, o2) (R.run st ops) -> R.key_of r2 = k -> tau < u -> o2 <> R.DropFull ->
  exists s r f c, In (s, R.Req r f, R.Forward c) (R.run st ops) /\ R.key_of r = k /\ t < f <= u.
Proof.
  intros Hm W K Hold Htick Hgap Hreq Hk Hlt Hnf.
  destruct (run_two st t0 ops _ _ tau u Hm Htick Hreq eq_refl eq_refl Hlt) as (pre & mid & post & E).
  eapply forward_between_pos; eassumption.
Qed.
End Dispatcher.

(* ================================================================== Part 2: time and structure of composed histories *)
(* clock readings never decrease along a history *)
Fixpoint lmono (t0 : Z) (H : list lop) : Prop :=
  match H with
  | [] => True
  | LClock t :: r => t0 <= t /\ lmono t r
  | _ :: r => lmono t0 r
  end.

Definition last_clock (c : Z) (ops : list op) : Z := fold_left (fun c o => match o with SetClock t => t | _ => c end) ops c.

Section Loop2.
Variable recover : bytes -> bytes -> option bytes.
Variable keccak : bytes -> bytes.
Variable sign : bytes -> bytes.
Variable own : addr.
Variable gov_chain : Z.
Variable gov_addr : bytes.
Variable decode_hb : bytes -> option Z.
Variable decodeq : bytes -> option R.req.
Variable encq : R.req -> bytes.
Variable self : G.peerid.
Variable disable : bool.
Variable watch : Z -> R.req -> Z -> list msgpub.

Notation step := (Processor.step recover keccak sign own gov_chain gov_addr).
Notation prun := (Processor.run recover keccak sign own gov_chain gov_addr).
Notation gstep := (ReobsLoop.gstep recover keccak decode_hb decodeq self disable).
Notation feed := (ReobsLoop.feed recover keccak sign own gov_chain gov_addr).
Notation lstep := (ReobsLoop.lstep recover keccak sign own gov_chain gov_addr decode_hb decodeq encq self disable watch).
Notation lrun := (ReobsLoop.lrun recover keccak sign own gov_chain gov_addr decode_hb decodeq encq self disable watch).
Notation lstates := (ReobsLoop.lstates recover keccak sign own gov_chain gov_addr decode_hb decodeq encq self disable watch).
Notation feed_spec := (feed_spec recover keccak sign own gov_chain gov_addr).
Notation lstep_wf := (lstep_wf recover keccak sign own gov_chain gov_addr decode_hb decodeq encq self disable watch).
Notation lrun_wf := (lrun_wf recover keccak sign own gov_chain gov_addr decode_hb decodeq encq self disable watch).

Lemma lrun_app : forall H1 st H2, lrun st (H1 ++ H2) = let '(s1, e1) := lrun st H1 in let '(s2, e2) := lrun s1 H2 in (s2, e1 ++ e2).
Proof.
  induction H1 as [|o H1 IH]; intros st H2; cbn [app ReobsLoop.lrun]; [destruct (lrun st H2); reflexivity|].
  destruct (lstep st o) as [st1 e1]. rewrite IH. destruct (lrun st1 H1) as [s1 e1']. destruct (lrun s1 H2) as [s2 e2]. rewrite app_assoc. reflexivity.
Qed.
Lemma lrun_cons st o H : lrun st (o :: H) = (fst (lrun (fst (lstep st o)) H), snd (lstep st o) ++ snd (lrun (fst (lstep st o)) H)).
Proof. cbn [ReobsLoop.lrun]. destruct (lstep st o) as [st1 e1]. cbn [fst snd]. destruct (lrun st1 H). reflexivity. Qed.
Lemma lrun_app_fst st H1 H2 : fst (lrun st (H1 ++ H2)) = fst (lrun (fst (lrun st H1)) H2).
Proof. rewrite lrun_app. destruct (lrun st H1) as [s1 e1]. cbn [fst snd]. destruct (lrun s1 H2). reflexivity. Qed.
Lemma lrun_app_snd st H1 H2 : snd (lrun st (H1 ++ H2)) = snd (lrun st H1) ++ snd (lrun (fst (lrun st H1)) H2).
Proof. rewrite lrun_app. destruct (lrun st H1) as [s1 e1]. cbn [fst snd]. destruct (lrun s1 H2). reflexivity. Qed.

Lemma lstates_app : forall H1 st H2, lstates st (H1 ++ H2) = lstates st H1 ++ lstates (fst (lrun st H1)) H2.
Proof.
  induction H1 as [|o H1 IH]; intros st H2; [reflexivity|]. cbn [app ReobsLoop.lstates]. rewrite IH, lrun_cons. reflexivity.
Qed.
Lemma lstates_split : forall H st s o, In (s, o) (lstates st H) -> exists H1 H2, H = H1 ++ o :: H2 /\ s = fst (lrun st H1).
Proof.
  induction H as [|o' H IH]; intros st s o Hin; [destruct Hin|]. cbn [ReobsLoop.lstates] in Hin. destruct Hin as [E|Hin].
  - inversion E; subst. exists [], H. split; reflexivity.
  - destruct (IH _ _ _ Hin) as (H1 & H2 & -> & ->). exists (o' :: H1), H2. split; [reflexivity|]. rewrite lrun_cons. reflexivity.
Qed.

(* ---- one step: the clock, the time tags, the processor inputs, the send queue *)
Lemma lstep_now st o : l_now (fst (lstep st o)) = match o with LClock t => t | _ => l_now st end.
Proof.
  destruct o as [t| |q| |from m| |c|e]; cbn [ReobsLoop.lstep].
  - match goal with |- context [feed ?s ?os] => destruct (feed_spec os s) as ((_ & _ & _ & F) & _); destruct (feed s os) end. cbn [fst l_now] in *. congruence.
  - pose proof (feed_spec (cleanup_ops (l_now st)) st) as F. destruct (feed st (cleanup_ops (l_now st))) as [st1 e1]. destruct F as ((_ & _ & _ & F) & _).
    pose proof (post_all_spec (reqs_of_evs e1) st1) as Q. destruct (post_all st1 (reqs_of_evs e1)) as [st2 e2]. destruct Q as ((_ & _ & _ & Q) & _). cbn [fst] in *. congruence.
  - pose proof (post_all_spec [q] st) as Q. destruct (post_all st [q]) as [st2 e2]. destruct Q as ((_ & _ & _ & Q) & _). cbn [fst] in *. congruence.
  - destruct (l_sendq st) as [|q qs]; [reflexivity|]. destruct (gstep (l_p2p st) (G.LLocalReq (encq q))) as [g' outs].
    match goal with |- context [dispatch_all ?s ?rs] => pose proof (dispatch_all_spec rs s) as D; destruct (dispatch_all s rs) as [st1 e1] end.
    destruct D as ((_ & _ & _ & D) & _). cbn [fst with_p2p with_sendq l_now] in *. congruence.
  - destruct (gstep (l_p2p st) (G.LRecv from m)) as [g' outs].
    match goal with |- context [feed ?s ?os] => pose proof (feed_spec os s) as F; destruct (feed s os) as [st1 e1] end. destruct F as ((_ & _ & _ & F) & _).
    pose proof (dispatch_all_spec (reqs_of decodeq outs) st1) as D. destruct (dispatch_all st1 (reqs_of decodeq outs)) as [st2 e2]. destruct D as ((_ & _ & _ & D) & _).
    cbn [fst with_p2p l_now] in *. congruence.
  - unfold dispatch. destruct (R.step _ _). reflexivity.
  - destruct (R.step (l_disp st) (R.Drain c)) as [d' x]. destruct x as [c0| | | | | |[r|]]; try reflexivity.
    match goal with |- context [feed ?s ?os] => pose proof (feed_spec os s) as F; destruct (feed s os) as [st2 e2] end. destruct F as ((_ & _ & _ & F) & _). cbn [fst with_disp l_now] in *. congruence.
  - match goal with |- context [feed ?s ?os] => pose proof (feed_spec os s) as F; destruct (feed s os) as [st2 e2] end. destruct F as ((_ & _ & _ & F) & _). cbn [fst] in *. rewrite <- F. destruct e; reflexivity.
Qed.

Ltac open_feed F := match goal with |- context [feed ?s ?os] => pose proof (feed_spec os s) as F; destruct (feed s os) as [? ?] end.
Ltac open_dall D := match goal with |- context [dispatch_all ?s ?rs] => pose proof (dispatch_all_spec rs s) as D; destruct (dispatch_all s rs) as [? ?] end.
Ltac open_post Q := match goal with |- context [post_all ?s ?rs] => pose proof (post_all_spec rs s) as Q; destruct (post_all s rs) as [? ?] end.

(* every event of a step carries the clock reading the step ends with *)
Lemma lstep_tags st o : Forall (fun e => fst e = l_now (fst (lstep st o))) (snd (lstep st o)).
Proof.
  rewrite lstep_now. destruct o as [t| |q| |from m| |c|e]; cbn [ReobsLoop.lstep].
  - open_feed F. destruct F as (_ & _ & _ & F & _). cbn [snd l_now] in *. eapply Forall_impl; [|exact F]. intros a [A _]. exact A.
  - open_feed F. destruct F as ((_ & _ & _ & F0) & _ & _ & F & _). open_post Q. destruct Q as (_ & _ & _ & Q). cbn [fst snd] in *.
    apply Forall_app. split; [eapply Forall_impl; [|exact F]; intros a [A _]; exact A|eapply Forall_impl; [|exact Q]; intros a [A _]; congruence].
  - open_post Q. destruct Q as (_ & _ & _ & Q). cbn [snd]. eapply Forall_impl; [|exact Q]. intros a [A _]. exact A.
  - destruct (l_sendq st) as [|q qs]; [constructor|]. destruct (gstep (l_p2p st) (G.LLocalReq (encq q))) as [g' outs]. open_dall D.
    destruct D as (_ & _ & _ & D & _). cbn [snd with_p2p with_sendq l_now] in *. apply Forall_app. split; [eapply Forall_impl; [|exact D]; intros a [A _]; exact A|constructor; [reflexivity|constructor]].
  - destruct (gstep (l_p2p st) (G.LRecv from m)) as [g' outs]. open_feed F. destruct F as ((_ & _ & _ & F0) & _ & _ & F & _). open_dall D. destruct D as (_ & _ & _ & D & _).
    cbn [fst snd with_p2p l_now] in *. apply Forall_app. split; [eapply Forall_impl; [|exact F]; intros a [A _]; exact A|eapply Forall_impl; [|exact D]; intros a [A _]; congruence].
  - unfold dispatch. destruct (R.step _ _). constructor; [reflexivity|constructor].
  - destruct (R.step (l_disp st) (R.Drain c)) as [d' x]. destruct x as [c0| | | | | |[r|]]; try (constructor; [reflexivity|constructor]).
    open_feed F. destruct F as (_ & _ & _ & F & _). cbn [snd with_disp l_now] in *. constructor; [reflexivity|]. constructor; [reflexivity|]. eapply Forall_impl; [|exact F]. intros a [A _]. exact A.
  - open_feed F. destruct F as (_ & _ & _ & F & _). cbn [snd] in *. eapply Forall_impl; [|exact F]. intros a [A _]. rewrite A. destruct e; reflexivity.
Qed.

(* the processor inputs of a step *)
Lemma lstep_pops st o : pops (snd (lstep st o)) =
  match o with
  | LClock t => [SetClock t]
  | LCleanup => cleanup_ops (l_now st)
  | LGossip from m => proc_ops_of (snd (gstep (l_p2p st) (G.LRecv from m)))
  | LWatch c => match snd (R.step (l_disp st) (R.Drain c)) with R.Drained (Some r) => map LocalMsg (watch c r (l_now st)) | _ => [] end
  | LEnv e => [op_of_env e]
  | _ => []
  end.
Proof.
  destruct o as [t| |q| |from m| |c|e]; cbn [ReobsLoop.lstep].
  - open_feed F. destruct F as (_ & _ & _ & _ & F). exact F.
  - open_feed F. destruct F as (_ & _ & _ & _ & F). open_post Q. destruct Q as (_ & _ & Q & _). cbn [snd] in *. rewrite pops_app, F. unfold pops. rewrite Q. apply app_nil_r.
  - open_post Q. destruct Q as (_ & _ & Q & _). cbn [snd] in *. unfold pops. rewrite Q. reflexivity.
  - destruct (l_sendq st) as [|q qs]; [reflexivity|]. destruct (gstep (l_p2p st) (G.LLocalReq (encq q))) as [g' outs]. open_dall D.
    destruct D as (_ & _ & D & _). cbn [snd] in *. unfold pops. rewrite proc_of_app, D. reflexivity.
  - destruct (gstep (l_p2p st) (G.LRecv from m)) as [g' outs]. open_feed F. destruct F as (_ & _ & _ & _ & F). open_dall D. destruct D as (_ & _ & D & _).
    cbn [snd] in *. rewrite pops_app, F. unfold pops. rewrite D. apply app_nil_r.
  - unfold dispatch. destruct (R.step _ _). reflexivity.
  - destruct (R.step (l_disp st) (R.Drain c)) as [d' x]. cbn [snd]. destruct x as [c0| | | | | |[r|]]; try reflexivity.
    open_feed F. destruct F as (_ & _ & _ & _ & F). cbn [snd] in *. exact F.
  - open_feed F. destruct F as (_ & _ & _ & _ & F). exact F.
Qed.

Lemma lstep_no_cleanup st o : o <> LCleanup -> Forall (fun x => x <> Cleanup) (pops (snd (lstep st o))).
Proof.
  intros Hn. rewrite lstep_pops. destruct o as [t| |q| |from m| |c|e]; try contradiction; try constructor; try discriminate; try constructor.
  - unfold proc_ops_of. apply Forall_forall. intros x Hx. apply in_flat_map in Hx as (y & _ & Hy). destruct y; [destruct Hy as [<-|[]]; discriminate|destruct Hy as [<-|[]]; discriminate|destruct Hy].
  - destruct (snd (R.step (l_disp st) (R.Drain c))) as [c0| | | | | |[r|]]; try constructor. apply Forall_forall. intros x Hx. apply in_map_iff in Hx as (y & <- & _). discriminate.
  - destruct e; discriminate.
Qed.

(* the dispatcher ops of a step carry the clock reading of the step (a drain carries none) *)
Lemma lstep_dops st o : Forall (fun d => RP.op_time d = Some (l_now (fst (lstep st o))) \/ RP.op_time d = None) (dops (snd (lstep st o))).
Proof.
  rewrite lstep_now. destruct o as [t| |q| |from m| |c|e]; cbn [ReobsLoop.lstep].
  - open_feed F. destruct F as (_ & _ & F & _). unfold dops. cbn [snd] in *. rewrite F. constructor.
  - open_feed F. destruct F as (_ & _ & F & _). open_post Q. destruct Q as (_ & Q & _). unfold dops. cbn [snd] in *. rewrite disp_of_app, F, Q. constructor.
  - open_post Q. destruct Q as (_ & Q & _). unfold dops. cbn [snd] in *. rewrite Q. constructor.
  - destruct (l_sendq st) as [|q qs]; [constructor|]. destruct (gstep (l_p2p st) (G.LLocalReq (encq q))) as [g' outs]. open_dall D.
    destruct D as (_ & _ & _ & _ & D). cbn [snd with_p2p with_sendq l_now] in *. rewrite dops_app, D. apply Forall_app. split; [|constructor].
    apply Forall_forall. intros d Hd. apply in_map_iff in Hd as (y & <- & _). left. reflexivity.
  - destruct (gstep (l_p2p st) (G.LRecv from m)) as [g' outs]. open_feed F. destruct F as ((_ & _ & _ & F0) & _ & F & _). open_dall D. destruct D as (_ & _ & _ & _ & D).
    cbn [fst snd with_p2p l_now] in *. rewrite dops_app, D. unfold dops at 1. rewrite F. cbn [map app].
    apply Forall_forall. intros d Hd. apply in_map_iff in Hd as (y & <- & _). left. cbn. congruence.
  - unfold dispatch. destruct (R.step _ _). constructor; [left; reflexivity|constructor].
  - destruct (R.step (l_disp st) (R.Drain c)) as [d' x]. destruct x as [c0| | | | | |[r|]]; try (constructor; [right; reflexivity|constructor]).
    open_feed F. destruct F as (_ & _ & F & _). cbn [snd] in *. unfold dops. cbn [disp_of flat_map snd app map fst]. fold (disp_of l0). rewrite F. constructor; [right; reflexivity|constructor].
  - open_feed F. destruct F as (_ & _ & F & _). unfold dops. cbn [snd] in *. rewrite F. constructor.
Qed.

(* ---- monotone clock: the dispatcher's sub-history has monotone clock readings *)
Lemma mono_app_intro t1 : forall a t0 b, Forall (fun d => RP.op_time d = Some t1 \/ RP.op_time d = None) a -> t0 <= t1 -> RP.mono t1 b -> RP.mono t0 (a ++ b).
Proof.
  induction a as [|d a IH]; intros t0 b Ha Hle Hb; [eapply RP.mono_weaken; eassumption|]. inversion Ha as [|? ? Hd Ha']; subst. cbn [app RP.mono].
  destruct Hd as [Hd|Hd]; rewrite Hd; [split; [exact Hle|apply IH; [exact Ha'|lia|exact Hb]]|apply IH; assumption].
Qed.

Lemma lmono_step st o H : lmono (l_now st) (o :: H) -> l_now st <= l_now (fst (lstep st o)) /\ lmono (l_now (fst (lstep st o))) H.
Proof. rewrite lstep_now. destruct o; cbn [lmono]; intros Hm; try (split; [lia|exact Hm]). exact Hm. Qed.

Lemma lrun_mono : forall H st, lmono (l_now st) H -> RP.mono (l_now st) (dops (snd (lrun st H))).
Proof.
  induction H as [|o H IH]; intros st Hm; [exact I|]. rewrite lrun_cons. cbn [snd]. rewrite dops_app.
  apply lmono_step in Hm as [Hle Hm]. eapply mono_app_intro; [apply lstep_dops|exact Hle|apply IH; exact Hm].
Qed.

Lemma lrun_now_le : forall H st, lmono (l_now st) H -> l_now st <= l_now (fst (lrun st H)).
Proof.
  induction H as [|o H IH]; intros st Hm; [cbn; lia|]. rewrite lrun_cons. cbn [fst]. apply lmono_step in Hm as [Hle Hm]. specialize (IH _ Hm). lia.
Qed.
Lemma lmono_app : forall H1 st H2, lmono (l_now st) (H1 ++ H2) -> lmono (l_now st) H1 /\ lmono (l_now (fst (lrun st H1))) H2.
Proof.
  induction H1 as [|o H1 IH]; intros st H2 Hm; [split; [exact I|exact Hm]|]. cbn [app] in Hm. apply lmono_step in Hm as [Hle Hm].
  destruct (IH _ _ Hm) as [A B]. rewrite lrun_cons. cbn [fst]. split; [|exact B]. rewrite lstep_now in A. destruct o; cbn [lmono]; try exact A. rewrite lstep_now in Hle. split; [exact Hle|exact A].
Qed.
(* every event of a history carries a clock reading between those of its first and its last state *)
Lemma lrun_tags : forall H st, lmono (l_now st) H -> Forall (fun e => l_now st <= fst e <= l_now (fst (lrun st H))) (snd (lrun st H)).
Proof.
  induction H as [|o H IH]; intros st Hm; [constructor|]. rewrite lrun_cons. cbn [fst snd]. apply lmono_step in Hm as [Hle Hm].
  pose proof (lrun_now_le _ _ Hm) as Hle2. apply Forall_app. split.
  - eapply Forall_impl; [|apply lstep_tags]. intros e He. cbn beta in He. lia.
  - eapply Forall_impl; [|apply IH; exact Hm]. intros e He. cbn beta in He. lia.
Qed.

(* ---- PostObservationRequest of a burst *)
Lemma post_all_incl : forall rs st, incl (l_sendq st) (l_sendq (fst (post_all st rs))).
Proof.
  induction rs as [|q rs IH]; intros st; [apply incl_refl|]. cbn [ReobsLoop.post_all].
  destruct (R.post sendq_cap (l_sendq st) q) as [q' res] eqn:Ep. specialize (IH (with_sendq st q')).
  destruct (post_all (with_sendq st q') rs) as [st2 e2]. cbn [fst with_sendq l_sendq] in *.
  eapply incl_tran; [|exact IH]. unfold R.post in Ep. destruct (sendq_cap <=? length (l_sendq st))%nat; inversion Ep; subst; [apply incl_refl|apply incl_appl; apply incl_refl].
Qed.

Lemma post_all_in : forall rs st r, In r rs ->
  In r (l_sendq (fst (post_all st rs))) \/ In (l_now st, EPost r R.PostErrChanFull) (snd (post_all st rs)).
Proof.
  induction rs as [|q rs IH]; intros st r Hin; [destruct Hin|]. cbn [ReobsLoop.post_all].
  destruct (R.post sendq_cap (l_sendq st) q) as [q' res] eqn:Ep. specialize (IH (with_sendq st q') r).
  pose proof (post_all_incl rs (with_sendq st q')) as Hk.
  destruct (post_all (with_sendq st q') rs) as [st2 e2]. cbn [fst snd with_sendq l_sendq l_now] in *.
  destruct Hin as [->|Hin]; [|destruct (IH Hin) as [A|A]; [left; exact A|right; right; exact A]].
  unfold R.post in Ep. destruct (sendq_cap <=? length (l_sendq st))%nat; inversion Ep; subst.
  - right. left. reflexivity.
  - left. apply Hk. apply in_or_app. right. left. reflexivity.
Qed.

(* ---- events of a trace, the dispatcher inside the loop *)
Lemma disp_of_in tr s o x : In (s, o, x) (disp_of tr) <-> exists u, In (u, EDisp s o x) tr.
Proof.
  unfold disp_of. rewrite in_flat_map. split.
  - intros ([u e] & Hin & He). cbn [snd] in He. destruct e; try (destruct He; fail). destruct He as [He|[]]. inversion He; subst. exists u. exact Hin.
  - intros (u & Hin). exists (u, EDisp s o x). split; [exact Hin|left; reflexivity].
Qed.

Theorem loop_forwards_window_apart H st0 pre u1 s1 r1 t1 c1 mid u2 s2 r2 t2 c2 post :
  lmono (l_now st0) H ->
  snd (lrun st0 H) = pre ++ (u1, EDisp s1 (R.Req r1 t1) (R.Forward c1)) :: mid ++ (u2, EDisp s2 (R.Req r2 t2) (R.Forward c2)) :: post ->
  R.key_of r1 = R.key_of r2 -> reobs_window < t2 - t1.
Proof.
  intros Hm E Hk. destruct (lrun_wf H st0) as [[Dw _] _]. rewrite E in Dw at 1. rewrite disp_of_app in Dw. cbn [disp_of flat_map snd app] in Dw.
  fold (disp_of (mid ++ (u2, EDisp s2 (R.Req r2 t2) (R.Forward c2)) :: post)) in Dw. rewrite disp_of_app in Dw. cbn [disp_of flat_map snd app] in Dw. fold (disp_of post) in Dw.
  eapply RP.forwards_window_apart; [apply lrun_mono; exact Hm|symmetry; exact Dw|exact Hk].
Qed.

(* (b) NO AMPLIFICATION at the processor: two retries of one pending message (within one lifetime of its aggregation entry) are at
   least the retry period apart - one request per message per five minutes, however often the ticker fires *)
Lemma in_proc_event tr u o outs : In (u, EProc o outs) tr -> In o (pops tr).
Proof. intros Hin. unfold pops, proc_of. apply in_map_iff. exists (o, outs). split; [reflexivity|]. apply in_flat_map. exists (u, EProc o outs). split; [exact Hin|left; reflexivity]. Qed.

(* where a chain message handled by the processor in one step of the composition comes from: the environment (a watcher's
   polling path) or the answer of the watcher's re-observation path to the request it took from its queue in this very step.
   In particular NO gossip step - whatever request, observation or VAA a peer sends - makes the processor handle a chain message *)
Lemma lstep_localmsg_source st o u m outs : In (u, EProc (LocalMsg m) outs) (snd (lstep st o)) ->
  o = LEnv (VMsg m) \/
  exists c r, o = LWatch c /\ snd (R.step (l_disp st) (R.Drain c)) = R.Drained (Some r) /\ In m (watch c r (l_now st)).
Proof.
  intros Hin. apply in_proc_event in Hin. rewrite lstep_pops in Hin. destruct o as [t| |q| |from mm| |c|e].
  - destruct Hin as [X|[]]; discriminate X.
  - cbn in Hin. destruct Hin as [X|[X|[X|[]]]]; discriminate X.
  - destruct Hin.
  - destruct Hin.
  - unfold proc_ops_of in Hin. apply in_flat_map in Hin as (y & _ & Hy). destruct y; [destruct Hy as [X|[]]; discriminate X|destruct Hy as [X|[]]; discriminate X|destruct Hy].
  - destruct Hin.
  - right. destruct (snd (R.step (l_disp st) (R.Drain c))) as [c0| | | | | |[r|]] eqn:E; try destruct Hin. exists c, r. split; [reflexivity|]. split; [exact E|].
    apply in_map_iff in Hin as (m' & X & Hm). inversion X; subst. exact Hm.
  - left. destruct Hin as [X|[]]. destruct e; try discriminate X. inversion X; subst. reflexivity.
Qed.

(* what a watcher takes from its queue was put there by a forward: it names the chain of that watcher *)
Definition queues_named (d : R.state) : Prop := forall c q, R.find_queue (R.queues d) c = Some q -> forall r, In r (R.q_items q) -> R.chain_of r = c.

Lemma queues_named_step d o : queues_named d -> queues_named (fst (R.step d o)).
Proof.
  intros QN. destruct o as [r t|t|c]; cbn [R.step].
  - destruct (R.cache_get (R.cache d) (R.key_of r)); [exact QN|]. cbn [R.key_of fst].
    destruct (R.find_queue (R.queues d) (R.chain_of r)) as [q|] eqn:Eq; [|exact QN]. destruct (R.full q); [destruct reobs_remember_always; exact QN|].
    cbn [fst]. intros c q' Hq' r' Hr'. cbn [R.queues] in Hq'. rewrite RP.find_set_items in Hq'. destruct (Z.eqb_spec c (R.chain_of r)) as [->|Hn].
    + rewrite Eq in Hq'. cbn [option_map] in Hq'. inversion Hq'; subst q'. cbn [R.q_items] in Hr'. apply in_app_or in Hr' as [Hr'|[<-|[]]]; [eapply QN; eassumption|reflexivity].
    + eapply QN; eassumption.
  - exact QN.
  - destruct (R.find_queue (R.queues d) c) as [q|] eqn:Eq; [|exact QN]. destruct (R.q_items q) as [|x rest] eqn:Ei; [exact QN|].
    cbn [fst]. intros c' q' Hq' r' Hr'. cbn [R.queues] in Hq'. rewrite RP.find_set_items in Hq'. destruct (Z.eqb_spec c' c) as [->|Hn].
    + rewrite Eq in Hq'. cbn [option_map] in Hq'. inversion Hq'; subst q'. cbn [R.q_items] in Hr'. eapply QN; [exact Eq|]. rewrite Ei. right. exact Hr'.
    + eapply QN; eassumption.
Qed.

Lemma queues_named_final : forall ops d, queues_named d -> queues_named (R.final d ops).
Proof. induction ops as [|o ops IH]; intros d QN; [exact QN|]. cbn [R.final]. apply IH. apply queues_named_step. exact QN. Qed.

Lemma queues_named_init : queues_named (R.init node_queues).
Proof.
  intros c q Hq r Hr. unfold R.init, node_queues in Hq. cbn [R.queues] in Hq. rewrite watched_chains_are in Hq. cbn [map R.find_queue R.q_chain] in Hq.
  repeat (match type of Hq with (if ?b then _ else _) = _ => destruct b end; [inversion Hq; subst q; destruct Hr|]). discriminate Hq.
Qed.

Lemma drained_is_head d c r : snd (R.step d (R.Drain c)) = R.Drained (Some r) ->
  exists q rest, R.find_queue (R.queues d) c = Some q /\ R.q_items q = r :: rest.
Proof.
  cbn [R.step]. destruct (R.find_queue (R.queues d) c) as [q|]; [|discriminate]. destruct (R.q_items q) as [|x rest] eqn:E; [discriminate|].
  cbn [snd]. intros X. inversion X; subst. exists q, rest. auto.
Qed.

(* over whole histories from the initial state: every chain message the processor handles was handed over by the environment, or
   is in the answer of watcher c's re-observation path to a request that names chain c *)
Theorem loop_signs_only_watched H u m outs : In (u, EProc (LocalMsg m) outs) (snd (lrun linit H)) ->
  (exists s, In (s, LEnv (VMsg m)) (lstates linit H)) \/
  (exists s c r, In (s, LWatch c) (lstates linit H) /\ R.chain_of r = c /\ In m (watch c r (l_now s))).
Proof.
  intros Hin.
  assert (G : forall H st, queues_named (l_disp st) -> In (u, EProc (LocalMsg m) outs) (snd (lrun st H)) ->
              (exists s, In (s, LEnv (VMsg m)) (lstates st H)) \/
              (exists s c r, In (s, LWatch c) (lstates st H) /\ R.chain_of r = c /\ In m (watch c r (l_now s)))).
  { clear. induction H as [|o H IH]; intros st QN Hin; [destruct Hin|]. rewrite lrun_cons in Hin. cbn [snd] in Hin. apply in_app_or in Hin as [Hin|Hin].
    - destruct (lstep_localmsg_source _ _ _ _ _ Hin) as [->|(c & r & -> & Hd & Hm)]; [left; exists st; left; reflexivity|].
      right. exists st, c, r. split; [left; reflexivity|]. split; [|exact Hm]. destruct (drained_is_head _ _ _ Hd) as (q & rest & Hq & Hi). eapply QN; [exact Hq|]. rewrite Hi. left. reflexivity.
    - assert (QN1 : queues_named (l_disp (fst (lstep st o)))).
      { destruct (lstep_wf st o) as [[_ Dw] _]. rewrite Dw. apply queues_named_final. exact QN. }
      destruct (IH _ QN1 Hin) as [(s & Hs)|(s & c & r & Hs & X)]; [left; exists s; right; exact Hs|right; exists s, c, r; split; [right; exact Hs|exact X]]. }
  apply G; [apply queues_named_init|exact Hin].
Qed.

(* with a contract for the watchers' re-observation paths ("forwards only final messages of its own chain", C08 / C10) and for what
   the environment hands over, EVERY chain message the processor ever handles satisfies the contract - whatever requests arrive *)
Corollary loop_signs_only_final (Final : Z -> msgpub -> Prop) (FinalEnv : msgpub -> Prop) H :
  (forall c r t m, R.chain_of r = c -> In m (watch c r t) -> Final c m) ->
  (forall s m, In (s, LEnv (VMsg m)) (lstates linit H) -> FinalEnv m) ->
  forall u m outs, In (u, EProc (LocalMsg m) outs) (snd (lrun linit H)) -> FinalEnv m \/ exists c, Final c m.
Proof.
  intros Hw He u m outs Hin. destruct (loop_signs_only_watched _ _ _ _ Hin) as [(s & Hs)|(s & c & r & _ & Hc & Hm)]; [left; eapply He; exact Hs|right; exists c; eapply Hw; eassumption].
Qed.

(* the processor signs (puts an observation of its own on the wire) only while handling a chain message or an injection, or when the
   cleanup tick re-broadcasts an observation it made earlier; handling a chain message never publishes a VAA *)
Lemma sendobs_source p o ob : In (SendObs ob) (snd (step p o)) -> (exists m, o = LocalMsg m) \/ (exists v, o = Inject v) \/ o = Cleanup.
Proof.
  destruct o as [g|t|m|v|ob'|k|b|]; cbn [Processor.step]; try (intros []); eauto.
  - unfold Processor.handle_obs. destruct (Processor.rec _ _ _); [|intros []]. destruct (negb _); [intros []|].
    destruct (match alookup (o_hash ob') (agg p) with Some e' => _ | None => cur p end); [|intros []]. destruct (negb _); [intros []|].
    destruct (assemble _ _ _); [|intros [X|[]]; discriminate X]. destruct (our_vaa _); [|intros []]. destruct (_ && _); [|intros []].
    destruct l; [intros [X|[]]; discriminate X|intros [X|[X|[]]]; discriminate X].
  - destruct (nth_error _ _); [|intros []]. unfold Processor.handle_obs. destruct (Processor.rec _ _ _); [|intros []]. destruct (negb _); [intros []|].
    match goal with |- context [match ?x with Some g => _ | None => (_, [])  end] => destruct x end; [|intros []]. destruct (negb _); [intros []|].
    destruct (assemble _ _ _); [|intros [X|[]]; discriminate X]. destruct (our_vaa _); [|intros []]. destruct (_ && _); [|intros []].
    destruct l; [intros [X|[]]; discriminate X|intros [X|[X|[]]]; discriminate X].
  - unfold Processor.handle_inbound. destruct (unmarshal b); [|intros []]. destruct (cur p); [|intros []]. destruct (_ =? _)%nat; [intros []|]. destruct (_ =? _)%nat; [intros []|].
    destruct (proc_inbound_below_quorum _ _); [intros []|]. destruct (negb _); [intros []|]. destruct (dlookup _ _); [intros []|intros [X|[]]; discriminate X].
Qed.

Lemma handle_message_never_publishes p m x : In x (snd (step p (LocalMsg m))) -> match x with SendVAA _ | Store _ _ => False | _ => True end.
Proof.
  cbn [Processor.step]. unfold Processor.handle_message. destruct (cur p); [|intros []]. destruct (_ && _); [intros []|].
  assert (K : forall v s tx c, In x (snd (Processor.broadcast_signature keccak own p v s tx c)) -> match x with SendVAA _ | Store _ _ => False | _ => True end)
    by (intros v s tx c [<-|[<-|[]]]; exact I).
  destruct (dlookup _ _); [|apply K]. destruct (unmarshal _); [destruct (_ <? _); [intros []|apply K]|]. destruct proc_stored_unmarshal_failure_panics; [intros [<-|[]]; exact I|apply K].
Qed.

(* (d) RECOVERY *)
(* the watcher answers the request at the head of its queue: every message of the answer is handed to the processor *)
Lemma lstep_watch_feeds st c q r rest : R.find_queue (R.queues (l_disp st)) c = Some q -> R.q_items q = r :: rest ->
  pops (snd (lstep st (LWatch c))) = map LocalMsg (watch c r (l_now st)) /\
  In (l_now st, EWatch c r (watch c r (l_now st))) (snd (lstep st (LWatch c))).
Proof.
  intros Hq Hi. split.
  - rewrite lstep_pops. cbn [R.step]. rewrite Hq, Hi. reflexivity.
  - cbn [ReobsLoop.lstep R.step]. rewrite Hq, Hi. open_feed F. right. left. reflexivity.
Qed.

(* a forwarded request is in the queue of its chain *)
Lemma forwarded_is_queued d r now c : snd (R.step d (R.Req r now)) = R.Forward c ->
  exists q, R.find_queue (R.queues (fst (R.step d (R.Req r now)))) c = Some q /\ In r (R.q_items q).
Proof.
  intros Hf. destruct (R.step d (R.Req r now)) as [d' x] eqn:Es. cbn [fst snd] in *. subst x.
  destruct (RP.forward_to_named_chain _ _ _ _ _ Es) as (_ & _ & _ & (q & Hq & _ & Hit) & _). unfold RP.items in Hit.
  destruct (R.find_queue (R.queues d') c) as [q'|]; [|discriminate]. cbn [option_map] in Hit. inversion Hit as [E]. exists q'. split; [reflexivity|]. rewrite E. apply in_or_app. right. left. reflexivity.
Qed.
End Loop2.

(* ================================================================== boolean forms of the premises (for computed example histories) *)
Definition is_cleanup (o : lop) : bool := match o with LCleanup => true | _ => false end.
Definition is_purge (o : lop) : bool := match o with LPurge => true | _ => false end.
Definition is_clock (o : lop) : bool := match o with LClock _ => true | _ => false end.

Fixpoint lmonob (t0 : Z) (H : list lop) : bool :=
  match H with
  | [] => true
  | LClock t :: r => (t0 <=? t) && lmonob t r
  | _ :: r => lmonob t0 r
  end.
Lemma lmonob_sound : forall H t0, lmonob t0 H = true -> lmono t0 H.
Proof.
  induction H as [|o H IH]; intros t0 Hb; [exact I|]. destruct o; cbn [lmonob lmono] in *; try (apply IH; exact Hb).
  apply andb_prop in Hb as [A B]. split; [apply Z.leb_le; exact A|apply IH; exact B].
Qed.

Lemma forallb_states {A} (f : A -> bool) (l : list A) : forallb f l = true -> forall x, In x l -> f x = true.
Proof. intros H. apply forallb_forall. exact H. Qed.

Fixpoint allz (f : Z -> bool) (lo : Z) (n : nat) : bool := match n with O => true | S k => f lo && allz f (lo + 1) k end.
Lemma allz_sound f : forall n lo, allz f lo n = true -> forall k, lo <= k < lo + Z.of_nat n -> f k = true.
Proof.
  induction n as [|n IH]; intros lo Hb k Hk; [lia|]. cbn [allz] in Hb. apply andb_prop in Hb as [A B].
  destruct (Z.eq_dec k lo) as [->|Hn]; [exact A|]. apply (IH (lo + 1) B). lia.
Qed.

