(* Proofs about model/CrashKV.v (C16): over every history of start / commit / abort / ack / error / crash / reopen / get
   events of the abstract crash-prone engine with the db.go wrapper on top. *)
From Coq Require Import List ZArith Lia Bool Arith.
From Coq Require Import Strings.Byte.
From WH Require Import lib.Bytes lib.Digits lib.KeyFmt gen.Extracted model.Vaa proofs.VaaProofs model.Db proofs.DbProofs model.CrashKV.
Import ListNotations.
Open Scope Z_scope.

(* the shape of db.go the theorems are proved for *)
Lemma error_propagated : db_store_error_propagated = true.
Proof. reflexivity. Qed.
Lemma unsigned_panics : db_store_panics_unsigned = true.
Proof. reflexivity. Qed.

(* the VAAs for which a transaction was started, in order: transaction n stores the n-th of them *)
Definition starts (h : list ev) : list vaa := flat_map (fun e => match e with EStart v => [v] | _ => [] end) h.

Lemma starts_app a b : starts (a ++ b) = starts a ++ starts b.
Proof. unfold starts. apply flat_map_app. Qed.

Lemma nmem_In n l : nmem n l = true <-> In n l.
Proof.
  unfold nmem. rewrite existsb_exists. split; [intros (x & Hx & E); apply Nat.eqb_eq in E; subst; exact Hx|].
  intros H. exists n. split; [exact H|apply Nat.eqb_refl].
Qed.

Lemma find_txn_In n l t : find_txn n l = Some t -> In t l /\ t_id t = n.
Proof.
  induction l as [|t' l IH]; [discriminate|]. cbn [find_txn]. destruct (Nat.eqb_spec (t_id t') n) as [E|N].
  - intros H. injection H as <-. split; [left; reflexivity|exact E].
  - intros H. destruct (IH H) as [H1 H2]. split; [right; exact H1|exact H2].
Qed.

Lemma drop_txn_In n l t : In t (drop_txn n l) -> In t l.
Proof. unfold drop_txn. intros H. apply filter_In in H as [H _]. exact H. Qed.

Lemma lres_eqb_eq a b : lres_eqb a b = true <-> a = b.
Proof.
  destruct a as [x|], b as [y|]; cbn [lres_eqb]; try (split; [discriminate|discriminate]); [|split; reflexivity].
  rewrite bytes_eqb_eq. split; [intros ->; reflexivity|intros H; injection H; auto].
Qed.

(* ------------------------------------------------------------------ invariant of every history from the empty store *)
Record Inv (st : cstate) (h : list ev) : Prop := {
  i_next : next st = length (starts h);
  i_infl : forall t, In t (infl st) -> exists v, nth_error (starts h) (t_id t) = Some v /\ t_key t = key (id_of v) /\ t_val t = marshal v;
  i_comm : forall n, In n (committed st) -> exists v, nth_error (starts h) n = Some v /\ exists b, get (dur st) (key (id_of v)) = Some b;
  i_dur : forall k b, get (dur st) k = Some b -> exists v, In v (starts h) /\ k = key (id_of v) /\ b = marshal v }.

Lemma inv_init : Inv cinit [].
Proof. split; cbn; [reflexivity|intros t []|intros n []|intros k b H; discriminate]. Qed.

Lemma nth_error_app_some {A} (l l' : list A) n x : nth_error l n = Some x -> nth_error (l ++ l') n = Some x.
Proof. intros H. rewrite nth_error_app1; [exact H|]. apply nth_error_Some. congruence. Qed.

Lemma starts_snoc h e : starts (h ++ [e]) = starts h ++ match e with EStart v => [v] | _ => [] end.
Proof. rewrite starts_app. unfold starts at 2. cbn [flat_map]. rewrite app_nil_r. reflexivity. Qed.

Lemma inv_step st h e st' : Inv st h -> exec st e = Some st' -> Inv st' (h ++ [e]).
Proof.
  intros [N I C D] H. pose proof (starts_snoc h e) as Hs.
  destruct e as [v|v|n|n|n|n|k| | |i res]; cbn [exec] in H; lazy beta iota in Hs; try rewrite app_nil_r in Hs.
  - (* EStart *)
    destruct (up st && match sigs v with [] => false | _ => true end); [|discriminate]. injection H as <-.
    split; rewrite Hs; cbn [next infl committed dur].
    + rewrite app_length, N. cbn. lia.
    + intros t [<-|Ht]; cbn [t_id t_key t_val].
      * exists v. split; [|split; reflexivity]. rewrite N, nth_error_app2 by lia. rewrite Nat.sub_diag. reflexivity.
      * destruct (I t Ht) as (v' & H1 & H2). exists v'. split; [apply nth_error_app_some; exact H1|exact H2].
    + intros n Hn. destruct (C n Hn) as (v' & H1 & H2). exists v'. split; [apply nth_error_app_some; exact H1|exact H2].
    + intros k b Hg. destruct (D k b Hg) as (v' & H1 & H2). exists v'. split; [apply in_or_app; left; exact H1|exact H2].
  - (* EPanic *)
    destruct (up st && db_store_panics_unsigned && _); [|discriminate]. injection H as <-. split; rewrite Hs; assumption.
  - (* ECommit *)
    destruct (up st); [|discriminate]. destruct (find_txn n (infl st)) as [t|] eqn:Ef; [|discriminate]. injection H as <-.
    apply find_txn_In in Ef as [Hin Hid]. destruct (I t Hin) as (v & Hv & Hk & Hb).
    split; rewrite Hs; cbn [next infl committed dur].
    + exact N.
    + intros t' Ht'. apply I. eapply drop_txn_In. exact Ht'.
    + intros m [<-|Hm].
      * exists v. rewrite <- Hid. split; [exact Hv|]. exists (t_val t). rewrite get_put, <- Hk, bytes_eqb_refl. reflexivity.
      * destruct (C m Hm) as (v' & H1 & b & H2). exists v'. split; [exact H1|]. rewrite get_put.
        destruct (bytes_eqb (t_key t) (key (id_of v'))); [eexists; reflexivity|exists b; exact H2].
    + intros k b. rewrite get_put. destruct (bytes_eqb_spec (t_key t) k) as [<-|Nk].
      * intros Hg. injection Hg as <-. exists v. split; [eapply nth_error_In; exact Hv|auto].
      * apply D.
  - (* EAbort *)
    destruct (up st); [|discriminate]. destruct (find_txn n (infl st)) as [t|] eqn:Ef; [|discriminate]. injection H as <-.
    split; rewrite Hs; cbn [next infl committed dur]; [exact N| |exact C|exact D]. intros t' Ht'. apply I. eapply drop_txn_In. exact Ht'.
  - destruct (up st && _); [|discriminate]. injection H as <-. split; rewrite Hs; assumption.
  - destruct (up st && _); [|discriminate]. injection H as <-. split; rewrite Hs; assumption.
  - (* ECrash *)
    destruct (up st); [|discriminate]. injection H as <-. split; rewrite Hs; cbn [next infl committed dur]; [exact N|intros t []|exact C|exact D].
  - destruct (up st); [discriminate|]. destruct (_ <? _); [|discriminate]. injection H as <-. split; rewrite Hs; assumption.
  - destruct (up st); [discriminate|]. destruct (_ <? _); [discriminate|]. injection H as <-. split; rewrite Hs; assumption.
  - destruct (up st && _); [|discriminate]. injection H as <-. split; rewrite Hs; assumption.
Qed.

Lemma inv_run_from : forall h h0 st0 st, Inv st0 h0 -> run_evs st0 h = Some st -> Inv st (h0 ++ h).
Proof.
  induction h as [|e h IH]; intros h0 st0 st HI H; cbn [run_evs] in H.
  - injection H as <-. rewrite app_nil_r. exact HI.
  - destruct (exec st0 e) as [st1|] eqn:E; [|discriminate].
    replace (h0 ++ e :: h) with ((h0 ++ [e]) ++ h) by (rewrite <- app_assoc; reflexivity).
    eapply IH; [eapply inv_step; eassumption|exact H].
Qed.

Lemma inv_run h st : run_evs cinit h = Some st -> Inv st h.
Proof. intros H. exact (inv_run_from h [] cinit st inv_init H). Qed.

Lemma run_evs_app : forall a b st, run_evs st (a ++ b) = match run_evs st a with Some s => run_evs s b | None => None end.
Proof. induction a as [|e a IH]; intros b st; [reflexivity|]. cbn [app run_evs]. destruct (exec st e); [apply IH|reflexivity]. Qed.

(* what became durable stays durable: no event — in particular no crash — removes a transaction from the committed set *)
Lemma committed_step st e st' n : exec st e = Some st' -> In n (committed st) -> In n (committed st').
Proof.
  intros H Hn. destruct e as [v|v|m|m|m|m|k| | |i res]; cbn [exec] in H;
    repeat match type of H with
           | (if ?c then _ else _) = Some _ => destruct c; try discriminate
           | match ?c with Some _ => _ | None => _ end = Some _ => destruct c; try discriminate
           end; injection H as <-; cbn [committed]; try exact Hn.
  right. exact Hn.
Qed.

Lemma committed_run : forall h st st' n, run_evs st h = Some st' -> In n (committed st) -> In n (committed st').
Proof.
  induction h as [|e h IH]; intros st st' n H Hn; cbn [run_evs] in H; [injection H as <-; exact Hn|].
  destruct (exec st e) as [st1|] eqn:E; [|discriminate]. eapply IH; [exact H|]. eapply committed_step; eassumption.
Qed.

(* ------------------------------------------------------------------ the theorems *)
(* success returned => committed (this is where the wrapper's error propagation is used) *)
Theorem ack_implies_committed st n st' : exec st (EAck n) = Some st' -> In n (committed st).
Proof.
  cbn [exec]. rewrite error_propagated. cbn [negb andb]. rewrite orb_false_r.
  destruct (up st); cbn [andb]; [|discriminate]. destruct (nmem n (committed st)) eqn:E; [|discriminate]. intros _. apply nmem_In. exact E.
Qed.

(* DURABILITY.  Once StoreSignedVAA returned success for v, every later lookup of v's identifier — after any number of
   further stores, crashes and reopens — finds a VAA that was stored under exactly that identifier (never not-found,
   never foreign bytes) *)
Theorem acked_survives h1 n h2 i res v st :
  run_evs cinit (h1 ++ EAck n :: h2 ++ [EGet i res]) = Some st ->
  nth_error (starts h1) n = Some v -> id_of v = i ->
  Forall wf (starts (h1 ++ EAck n :: h2)) ->
  exists v', In v' (starts (h1 ++ EAck n :: h2)) /\ id_of v' = i /\ res = Found (marshal v').
Proof.
  intros H Hv Hi W. rewrite run_evs_app in H. destruct (run_evs cinit h1) as [s1|] eqn:E1; [|discriminate].
  cbn [run_evs] in H. destruct (exec s1 (EAck n)) as [s1'|] eqn:Ea; [|discriminate].
  pose proof (ack_implies_committed _ _ _ Ea) as Hc.
  assert (s1' = s1) by (cbn [exec] in Ea; destruct (up s1 && _); [injection Ea as <-; reflexivity|discriminate]). subst s1'.
  rewrite run_evs_app in H. destruct (run_evs s1 h2) as [s2|] eqn:E2; [|discriminate].
  cbn [run_evs] in H. destruct (exec s2 (EGet i res)) as [s3|] eqn:Eg; [|discriminate].
  pose proof (committed_run _ _ _ _ E2 Hc) as Hc2.
  assert (R : run_evs cinit (h1 ++ EAck n :: h2) = Some s2).
  { rewrite run_evs_app, E1. cbn [run_evs]. rewrite Ea. exact E2. }
  destruct (inv_run _ _ R) as [_ _ C D]. destruct (C n Hc2) as (v2 & Hv2 & b & Hb).
  assert (v2 = v). { rewrite starts_app in Hv2. rewrite (nth_error_app_some _ _ _ _ Hv) in Hv2. congruence. } subst v2.
  cbn [exec] in Eg. destruct (up s2); [|discriminate]. cbn [andb] in Eg.
  destruct (lres_eqb (get_signed_vaa_bytes (dur s2) i) res) eqn:El; [|discriminate]. apply lres_eqb_eq in El.
  unfold get_signed_vaa_bytes in El. rewrite <- Hi, Hb in El. destruct (D _ _ Hb) as (v' & Hin' & Hk' & Hb').
  exists v'. rewrite Forall_forall in W. split; [exact Hin'|]. split; [|rewrite <- El, Hb'; reflexivity].
  rewrite <- Hi. symmetry. apply key_inj; [apply wf_idwf, W, (nth_error_In _ _ Hv2)|apply wf_idwf, W; exact Hin'|exact Hk'].
Qed.

(* ... in particular byte-exact when every store under that identifier carried the same bytes *)
Corollary acked_survives_intact h1 n h2 i res v st :
  run_evs cinit (h1 ++ EAck n :: h2 ++ [EGet i res]) = Some st ->
  nth_error (starts h1) n = Some v -> id_of v = i ->
  Forall wf (starts (h1 ++ EAck n :: h2)) ->
  (forall v', In v' (starts (h1 ++ EAck n :: h2)) -> id_of v' = i -> marshal v' = marshal v) ->
  res = Found (marshal v).
Proof.
  intros H Hv Hi W Hs. destruct (acked_survives _ _ _ _ _ _ _ H Hv Hi W) as (v' & Hin & Hid & ->). rewrite (Hs v' Hin Hid). reflexivity.
Qed.

(* a lookup never returns bytes that were not stored under that identifier, crash or not *)
Theorem get_never_foreign h i b st : run_evs cinit (h ++ [EGet i (Found b)]) = Some st -> Forall wf (starts h) -> idwf i ->
  exists v, In v (starts h) /\ id_of v = i /\ b = marshal v.
Proof.
  intros H W Hi. rewrite run_evs_app in H. destruct (run_evs cinit h) as [s|] eqn:E; [|discriminate].
  cbn [run_evs] in H. destruct (exec s (EGet i (Found b))) as [s'|] eqn:Eg; [|discriminate].
  cbn [exec] in Eg. destruct (up s); [|discriminate]. cbn [andb] in Eg.
  destruct (lres_eqb (get_signed_vaa_bytes (dur s) i) (Found b)) eqn:El; [|discriminate]. apply lres_eqb_eq in El.
  unfold get_signed_vaa_bytes in El. destruct (get (dur s) (key i)) as [b'|] eqn:Eb; [|discriminate]. injection El as ->.
  destruct (inv_run _ _ E) as [_ _ _ D]. destruct (D _ _ Eb) as (v & Hin & Hk & Hb). exists v. split; [exact Hin|]. split; [|exact Hb].
  rewrite Forall_forall in W. symmetry. apply key_inj; [exact Hi|apply wf_idwf, W; exact Hin|exact Hk].
Qed.

(* db.Open makes more attempts than a kill can have left damaged files, whatever their number (shape of db.go's loop bound) *)
Lemma open_attempts_suffice d : 0 <= d -> d < db_open_attempts d.
Proof. intros H. unfold db_open_attempts. lia. Qed.

(* the store always reopens after a kill — however many zero-length log files the kill left — with exactly the durable
   contents it had *)
Theorem reopens_after_crash st k st' : exec st (ECrash k) = Some st' ->
  exists st'', exec st' EReopen = Some st'' /\ dur st'' = dur st /\ up st'' = true /\ infl st'' = [] /\ damaged st'' = 0%nat.
Proof.
  cbn [exec]. destruct (up st); [|discriminate]. intros H. injection H as <-. cbn [exec up damaged].
  destruct (Z.ltb_spec (Z.of_nat k) (db_open_attempts (Z.of_nat k))) as [_|Hge]; [|pose proof (open_attempts_suffice (Z.of_nat k) ltac:(lia)); lia].
  eexists. split; [reflexivity|]. repeat split.
Qed.

(* ... and db.Open never returns an error on a store a kill left behind *)
Theorem reopen_never_fails st k st' : exec st (ECrash k) = Some st' -> exec st' EReopenFail = None.
Proof.
  cbn [exec]. destruct (up st); [|discriminate]. intros H. injection H as <-. cbn [exec up damaged].
  destruct (Z.ltb_spec (Z.of_nat k) (db_open_attempts (Z.of_nat k))) as [_|Hge]; [reflexivity|pose proof (open_attempts_suffice (Z.of_nat k) ltac:(lia)); lia].
Qed.

(* a kill can happen at any moment the process runs, and may leave any number of damaged files *)
Theorem crash_always_possible st k : up st = true -> exists st', exec st (ECrash k) = Some st'.
Proof. intros H. cbn [exec]. rewrite H. eexists. reflexivity. Qed.

(* an unsigned VAA never reaches the store *)
Theorem unsigned_changes_nothing st v st' : exec st (EPanic v) = Some st' -> st' = st /\ sigs v = [].
Proof.
  cbn [exec]. destruct (up st && db_store_panics_unsigned); cbn [andb]; [|discriminate]. destruct (sigs v); [|discriminate].
  intros H. injection H as <-. auto.
Qed.

(* an error return means the transaction did not commit through this call (it was aborted) *)
Theorem err_means_aborted st n st' : exec st (EErr n) = Some st' -> In n (aborted st).
Proof. cbn [exec]. destruct (up st); cbn [andb]; [|discriminate]. destruct (nmem n (aborted st)) eqn:E; [|discriminate]. intros _. apply nmem_In. exact E. Qed.

(* without crashes, with every call completing, the durable map is exactly model/Db.v's history store (C12's object) *)
Fixpoint plain (n : nat) (vs : list vaa) : list ev :=
  match vs with
  | [] => []
  | v :: r => if signed v then EStart v :: ECommit n :: EAck n :: plain (S n) r else EPanic v :: plain n r
  end.

Theorem plain_history_is_store_all : forall vs st, up st = true ->
  exists st', run_evs st (plain (next st) vs) = Some st' /\ dur st' = store_all (dur st) vs /\ up st' = true.
Proof.
  induction vs as [|v vs IH]; intros st U; [exists st; auto|]. cbn [plain]. unfold signed. destruct (sigs v) as [|sg sgs] eqn:Es.
  - cbn [run_evs exec]. rewrite U, unsigned_panics, Es. cbn [andb]. destruct (IH st U) as (st' & H1 & H2 & H3). exists st'. split; [exact H1|]. split; [|exact H3].
    rewrite H2. change (store_all (dur st) (v :: vs)) with (store_all (store_step (dur st) v) vs).
    unfold store_step, store_vaa. rewrite Es. reflexivity.
  - set (s1 := {| dur := dur st; infl := {| t_id := next st; t_key := key (id_of v); t_val := marshal v |} :: infl st; next := S (next st);
                  committed := committed st; aborted := aborted st; damaged := damaged st; up := true |}).
    assert (E1 : exec st (EStart v) = Some s1) by (cbn [exec]; rewrite U, Es; reflexivity).
    set (s2 := {| dur := put (dur st) (key (id_of v)) (marshal v); infl := drop_txn (next st) (infl s1); next := S (next st);
                  committed := next st :: committed st; aborted := aborted st; damaged := damaged st; up := true |}).
    assert (E2 : exec s1 (ECommit (next st)) = Some s2).
    { cbn [exec]. unfold s1 at 1 2. cbn [up infl find_txn t_id]. rewrite Nat.eqb_refl. reflexivity. }
    assert (E3 : exec s2 (EAck (next st)) = Some s2).
    { cbn [exec]. unfold s2 at 1 2. cbn [up committed nmem existsb]. rewrite Nat.eqb_refl. reflexivity. }
    cbn [run_evs]. rewrite E1, E2, E3. destruct (IH s2 eq_refl) as (st' & H1 & H2 & H3).
    exists st'. split; [exact H1|]. split; [|exact H3]. rewrite H2. unfold s2. cbn [dur].
    change (store_all (dur st) (v :: vs)) with (store_all (store_step (dur st) v) vs).
    unfold store_step, store_vaa. rewrite Es. reflexivity.
Qed.

(* ------------------------------------------------------------------ exactly the last committed store under the identifier *)
(* transactions committed by a history, newest first *)
Definition commits (h : list ev) : list nat := fold_left (fun acc e => match e with ECommit n => n :: acc | _ => acc end) h [].
(* does transaction m store under identifier i? *)
Definition stores_id (h : list ev) (i : vid) (m : nat) : bool :=
  match nth_error (starts h) m with Some v => id_eqb (id_of v) i | None => false end.
Definition last_committed (h : list ev) (i : vid) : option vaa :=
  match find (stores_id h i) (commits h) with Some m => nth_error (starts h) m | None => None end.

Lemma commits_snoc h e : commits (h ++ [e]) = match e with ECommit n => n :: commits h | _ => commits h end.
Proof. unfold commits. rewrite fold_left_app. reflexivity. Qed.

Lemma find_ext_in {A} (f g : A -> bool) l : (forall x, In x l -> f x = g x) -> find f l = find g l.
Proof.
  induction l as [|x l IH]; intros H; [reflexivity|]. cbn [find]. rewrite (H x (or_introl eq_refl)).
  destruct (g x); [reflexivity|]. apply IH. intros y Hy. apply H. right. exact Hy.
Qed.

Record Inv2 (st : cstate) (h : list ev) : Prop := {
  j_comm : committed st = commits h;
  j_get : forall i, idwf i -> get (dur st) (key i) = option_map marshal (last_committed h i) }.

Lemma inv2_init : Inv2 cinit [].
Proof. split; [reflexivity|intros i _; reflexivity]. Qed.

Lemma inv2_step st h e st' : Inv st h -> Inv2 st h -> Forall wf (starts (h ++ [e])) -> exec st e = Some st' -> Inv2 st' (h ++ [e]).
Proof.
  intros [N I C D] [JC JG] W H. pose proof (starts_snoc h e) as Hs. pose proof (commits_snoc h e) as Hc.
  assert (Same : forall i, starts (h ++ [e]) = starts h -> commits (h ++ [e]) = commits h -> last_committed (h ++ [e]) i = last_committed h i).
  { intros i E1 E2. unfold last_committed, stores_id. rewrite E1, E2. reflexivity. }
  destruct e as [v|v|n|n|n|n|k| | |i0 res]; cbn [exec] in H; lazy beta iota in Hs, Hc; try rewrite app_nil_r in Hs.
  - (* EStart: one more started VAA, nothing committed *)
    destruct (up st && _); [|discriminate]. injection H as <-. split; cbn [committed dur]; [rewrite Hc; exact JC|].
    intros i Hi. rewrite (JG i Hi). f_equal. unfold last_committed. rewrite Hc.
    assert (Hlt : forall m, In m (commits h) -> nth_error (starts (h ++ [EStart v])) m = nth_error (starts h) m).
    { intros m Hm. rewrite <- JC in Hm. destruct (C m Hm) as (v' & Hv' & _). rewrite Hs, Hv'. apply nth_error_app_some. exact Hv'. }
    rewrite (find_ext_in (stores_id (h ++ [EStart v]) i) (stores_id h i)).
    2:{ intros m Hm. unfold stores_id. rewrite (Hlt m Hm). reflexivity. }
    destruct (find (stores_id h i) (commits h)) as [m|] eqn:Ef; [|reflexivity]. symmetry. apply Hlt. apply (find_some _ _ Ef).
  - destruct (up st && db_store_panics_unsigned && _); [|discriminate]. injection H as <-.
    split; [rewrite Hc; exact JC|]. intros i Hi. rewrite (Same i Hs Hc). apply JG. exact Hi.
  - (* ECommit *)
    destruct (up st); [|discriminate]. destruct (find_txn n (infl st)) as [t|] eqn:Ef; [|discriminate]. injection H as <-.
    apply find_txn_In in Ef as [Hin Hid]. destruct (I t Hin) as (v & Hv & Hk & Hb). rewrite Hid in Hv.
    split; cbn [committed dur]; [rewrite Hc, JC; reflexivity|]. intros i Hi. rewrite get_put, Hk, Hb.
    assert (Wv : wf v). { rewrite Hs in W. rewrite Forall_forall in W. apply W. eapply nth_error_In. exact Hv. }
    rewrite (key_eqb _ _ (wf_idwf v Wv) Hi). unfold last_committed. rewrite Hc, Hs. cbn [find]. unfold stores_id at 1. rewrite Hs, Hv.
    destruct (id_eqb (id_of v) i); [rewrite Hv; reflexivity|]. rewrite (JG i Hi). unfold last_committed.
    rewrite (find_ext_in (stores_id (h ++ [ECommit n]) i) (stores_id h i)); [reflexivity|].
    intros m _. unfold stores_id. rewrite Hs. reflexivity.
  - destruct (up st); [|discriminate]. destruct (find_txn n (infl st)) as [t|]; [|discriminate]. injection H as <-.
    split; cbn [committed dur]; [rewrite Hc; exact JC|]. intros i Hi. rewrite (Same i Hs Hc). apply JG. exact Hi.
  - destruct (up st && _); [|discriminate]. injection H as <-. split; [rewrite Hc; exact JC|]. intros i Hi. rewrite (Same i Hs Hc). apply JG. exact Hi.
  - destruct (up st && _); [|discriminate]. injection H as <-. split; [rewrite Hc; exact JC|]. intros i Hi. rewrite (Same i Hs Hc). apply JG. exact Hi.
  - destruct (up st); [|discriminate]. injection H as <-. split; cbn [committed dur]; [rewrite Hc; exact JC|]. intros i Hi. rewrite (Same i Hs Hc). apply JG. exact Hi.
  - destruct (up st); [discriminate|]. destruct (_ <? _); [|discriminate]. injection H as <-. split; cbn [committed dur]; [rewrite Hc; exact JC|]. intros i Hi. rewrite (Same i Hs Hc). apply JG. exact Hi.
  - destruct (up st); [discriminate|]. destruct (_ <? _); [discriminate|]. injection H as <-. split; cbn [committed dur]; [rewrite Hc; exact JC|]. intros i Hi. rewrite (Same i Hs Hc). apply JG. exact Hi.
  - destruct (up st && _); [|discriminate]. injection H as <-. split; [rewrite Hc; exact JC|]. intros i Hi. rewrite (Same i Hs Hc). apply JG. exact Hi.
Qed.

Lemma inv2_run_from : forall h h0 st0 st, Inv st0 h0 -> Inv2 st0 h0 -> Forall wf (starts (h0 ++ h)) -> run_evs st0 h = Some st -> Inv2 st (h0 ++ h).
Proof.
  induction h as [|e h IH]; intros h0 st0 st HI HJ W H; cbn [run_evs] in H.
  - injection H as <-. rewrite app_nil_r. exact HJ.
  - destruct (exec st0 e) as [st1|] eqn:E; [|discriminate].
    replace (h0 ++ e :: h) with ((h0 ++ [e]) ++ h) in * by (rewrite <- app_assoc; reflexivity).
    assert (W1 : Forall wf (starts (h0 ++ [e]))). { rewrite starts_app in W. apply Forall_app in W as [W _]. exact W. }
    eapply IH; [eapply inv_step; eassumption|eapply inv2_step; eassumption|exact W|exact H].
Qed.

(* a lookup returns exactly the bytes of the most recently committed store under that identifier, and not-found exactly when
   no store under it has committed — whatever kills and reopens lie in between *)
Theorem lookup_is_last_committed h i res st : run_evs cinit (h ++ [EGet i res]) = Some st -> Forall wf (starts h) -> idwf i ->
  res = match last_committed h i with Some v => Found (marshal v) | None => NotFound end.
Proof.
  intros H W Hi. rewrite run_evs_app in H. destruct (run_evs cinit h) as [s|] eqn:E; [|discriminate].
  cbn [run_evs] in H. destruct (exec s (EGet i res)) as [s'|] eqn:Eg; [|discriminate].
  cbn [exec] in Eg. destruct (up s); [|discriminate]. cbn [andb] in Eg.
  destruct (lres_eqb (get_signed_vaa_bytes (dur s) i) res) eqn:El; [|discriminate]. apply lres_eqb_eq in El. subst res.
  pose proof (inv2_run_from h [] cinit s inv_init inv2_init W E) as [_ JG]. cbn [app] in JG.
  unfold get_signed_vaa_bytes. rewrite (JG i Hi). destruct (last_committed h i); reflexivity.
Qed.

(* ------------------------------------------------------------------ the engine contract as a hypothesis *)
(* Any concrete engine + wrapper (badger under db.go) whose steps are simulated by [exec] through an abstraction function
   inherits the theorems above.  The simulation itself is the TRUSTED engine contract: it cannot be proved here and is the
   assumption the kill harness attacks. *)
Section Engine.
Variable E : Type.
Variable estep : E -> ev -> E -> Prop.
Variable abs : E -> cstate.
Variable e0 : E.
Hypothesis abs_init : abs e0 = cinit.
Hypothesis engine_contract : forall e x e', estep e x e' -> exec (abs e) x = Some (abs e').

Inductive etrace : E -> list ev -> E -> Prop :=
| et_nil e : etrace e [] e
| et_cons e x e1 h e2 : estep e x e1 -> etrace e1 h e2 -> etrace e (x :: h) e2.

Lemma etrace_run : forall e h e', etrace e h e' -> run_evs (abs e) h = Some (abs e').
Proof. induction 1 as [e|e x e1 h e2 Hs Ht IH]; [reflexivity|]. cbn [run_evs]. rewrite (engine_contract _ _ _ Hs). exact IH. Qed.

Theorem engine_acked_survives h1 n h2 i res v e :
  etrace e0 (h1 ++ EAck n :: h2 ++ [EGet i res]) e ->
  nth_error (starts h1) n = Some v -> id_of v = i -> Forall wf (starts (h1 ++ EAck n :: h2)) ->
  exists v', In v' (starts (h1 ++ EAck n :: h2)) /\ id_of v' = i /\ res = Found (marshal v').
Proof. intros T. apply etrace_run in T. rewrite abs_init in T. eapply acked_survives. exact T. Qed.

Theorem engine_get_never_foreign h i b e : etrace e0 (h ++ [EGet i (Found b)]) e -> Forall wf (starts h) -> idwf i ->
  exists v, In v (starts h) /\ id_of v = i /\ b = marshal v.
Proof. intros T. apply etrace_run in T. rewrite abs_init in T. eapply get_never_foreign. exact T. Qed.
End Engine.
