(* C14: the retry / expiry schedule of handleCleanup, per aggregation entry, for every tick instant.
   Thresholds are the constants extracted from cleanup.go; the statements carry the human-scale literals (30 s, 5 min, 1 h,
   14400 retries), so a changed constant or a reordered switch breaks them. Time is in nanoseconds. *)
From Coq Require Import List ZArith Lia Bool Arith.
From Coq Require Import Strings.Byte.
From WH Require Import lib.Bytes gen.Extracted model.Vaa model.Processor proofs.ProcessorProofs.
Import ListNotations.
Open Scope Z_scope.

Definition sec : Z := 1000000000.
Definition age (now : Z) (e : entry) : Z := now - first_seen e.

(* an entry for a message the node has signed and that still lacks quorum *)
Definition pending_own (e : entry) (o : obs) (v : vaa) : Prop :=
  our_msg e = Some o /\ our_vaa e = Some v /\ submitted e = false.
(* signatures for a message the node never observed *)
(* (never retried: only entries with an own message are; invariant [unobserved_never_retried] below) *)
Definition unobserved (e : entry) : Prop := our_msg e = None /\ our_vaa e = None /\ submitted e = false /\ last_retry e = None.

Definition retry_due (now : Z) (e : entry) : bool :=
  (300 * sec <=? age now e) && match last_retry e with None => true | Some t => 300 * sec <=? now - t end.

Ltac cmp :=
  repeat match goal with
         | |- context [?a <? ?b] => destruct (Z.ltb_spec a b)
         | |- context [?a <=? ?b] => destruct (Z.leb_spec a b)
         end; cbn [andb orb negb]; try reflexivity; try lia; try discriminate.

Ltac open_consts := unfold proc_settlement_ns, proc_retry_ns, proc_retry_after_ns, proc_submitted_expiry_ns,
                     proc_own_retry_budget, proc_nil_retry_budget, sec, age in *.

Section Cleanup.
Hypothesis nil_gs_guarded : proc_cleanup_nil_gs_guarded = true.

(* 1. a signed, still pending entry is never discarded (nor does the tick panic) before its retry budget of 14400 is spent,
      unless a quorum VAA for the message is already in the store *)
Lemma own_pending_kept now ck e o v : pending_own e o v -> retries e < 14400 ->
  exists e' out, cleanup_entry now false ck e = CKeep e' out /\ our_msg e' = Some o /\ our_vaa e' = Some v /\ submitted e' = false /\
                 retries e <= retries e' <= retries e + 1.
Proof.
  intros (Hm & Hv & Hs) Hr. unfold cleanup_entry. rewrite Hm, Hv, Hs, nil_gs_guarded. cbn [negb andb orb]. rewrite !andb_false_r. cbn [andb orb].
  destruct (negb (settled e) && _).
  { rewrite !orb_true_r. eexists _, _. split; [reflexivity|]. cbn [set_settled our_msg our_vaa submitted retries]. repeat split; try assumption; lia. }
  open_consts. destruct (14400 <=? retries e) eqn:E; [apply Z.leb_le in E; lia|]. cbn [orb andb].
  destruct ((_ <=? _) && _).
  - eexists _, _. split; [reflexivity|]. cbn [set_retried our_msg our_vaa submitted retries]. repeat split; try assumption; lia.
  - eexists _, _. split; [reflexivity|]. repeat split; try assumption; lia.
Qed.

(* 2. once settled, such an entry is retried exactly when it is at least five minutes old and the previous retry (if any) is at
      least five minutes ago: the tick re-broadcasts the node's own observation, issues a re-observation request for the
      originating transaction on the emitter chain, counts the retry and remembers the instant; otherwise the tick does nothing *)
Lemma own_pending_retry_iff now ck e o v : pending_own e o v -> settled e = true -> retries e < 14400 ->
  cleanup_entry now false ck e =
  if retry_due now e then CKeep (set_retried e now) [ObsReq (echain v mod 2 ^ 32) (txh e); SendObs o] else CKeep e [].
Proof.
  intros (Hm & Hv & Hs) Hse Hr. unfold cleanup_entry, retry_due. rewrite Hm, Hv, Hs, Hse. cbn [negb andb orb]. rewrite !andb_false_r. cbn [andb orb].
  open_consts. destruct (14400 <=? retries e) eqn:E; [apply Z.leb_le in E; lia|]. cbn [orb andb].
  destruct (last_retry e) as [t|]; cmp.
Qed.

(* consequences: consecutive retries are at least five minutes apart ... *)
Lemma no_retry_within_five_minutes now ck e o v t : pending_own e o v -> settled e = true -> retries e < 14400 ->
  last_retry e = Some t -> now - t < 300 * sec -> cleanup_entry now false ck e = CKeep e [].
Proof.
  intros Hp Hse Hr Hl Hlt. rewrite (own_pending_retry_iff now ck e o v Hp Hse Hr). unfold retry_due. rewrite Hl.
  destruct (Z.leb_spec (300 * sec) (now - t)); [lia|]. rewrite andb_false_r. reflexivity.
Qed.

(* ... and, with ticks at most 30 s apart, at most five and a half minutes: the first tick at or after t + 5 min retries, and it
   comes before t + 5 min 30 s *)
Lemma retry_within_five_and_a_half_minutes prev now ck e o v t : pending_own e o v -> settled e = true -> retries e < 14400 ->
  last_retry e = Some t -> 300 * sec <= age now e ->
  prev - t < 300 * sec -> now - prev <= proc_tick_ns -> 300 * sec <= now - t ->
  cleanup_entry now false ck e = CKeep (set_retried e now) [ObsReq (echain v mod 2 ^ 32) (txh e); SendObs o] /\ now - t < 330 * sec.
Proof.
  intros Hp Hse Hr Hl Ha Hprev Hgap Hdue. rewrite (own_pending_retry_iff now ck e o v Hp Hse Hr). unfold retry_due. rewrite Hl.
  destruct (Z.leb_spec (300 * sec) (age now e)); [|lia]. destruct (Z.leb_spec (300 * sec) (now - t)); [|lia].
  cbn [andb]. split; [reflexivity|]. unfold proc_tick_ns, sec in *. lia.
Qed.

(* 3. an own pending entry whose quorum VAA is already stored is dropped at the first tick more than 30 s after it was created *)
Lemma own_pending_with_stored_vaa_dropped now ck e o v : pending_own e o v -> 30 * sec < age now e -> cleanup_entry now true ck e = CDelete.
Proof.
  intros (Hm & Hv & Hs) Ha. unfold cleanup_entry. rewrite Hv, Hs. cbn [negb andb]. open_consts. cmp.
Qed.

(* 4. the budget: an own pending entry that has been retried 14400 times is discarded at the next tick (after settling) *)
Lemma own_pending_budget_spent now indb ck e o v : pending_own e o v -> settled e = true -> 14400 <= retries e ->
  cleanup_entry now indb ck e = CDelete.
Proof.
  intros (Hm & Hv & Hs) Hse Hr. unfold cleanup_entry. rewrite Hm, Hv, Hs, Hse. cbn [negb andb orb]. open_consts.
  destruct (_ && indb); [reflexivity|]. destruct (14400 <=? retries e) eqn:E; [reflexivity|apply Z.leb_gt in E; lia].
Qed.

(* 5. signatures for a message the node never observed: removed at the first tick at which the entry is settled and at least five
      minutes old (the current set is known whenever such an entry exists: invariant EO_msg of ProcessorProofs) *)
Lemma unobserved_removed now indb e : unobserved e -> settled e = true -> 300 * sec <= age now e ->
  cleanup_entry now indb true e = CDelete.
Proof.
  intros (Hm & Hv & Hs & Hl) Hse Ha. unfold cleanup_entry. rewrite Hm, Hv, Hs, Hse, Hl. cbn [negb andb orb]. open_consts.
  destruct (10 <=? retries e); [reflexivity|]. cbn [orb andb]. cmp.
Qed.

(* an unsettled entry older than 30 s is settled by the tick (and nothing else happens to it at that tick) *)
Lemma settle_first now indb ck e : settled e = false -> 30 * sec < age now e ->
  (submitted e = true \/ our_vaa e = None \/ indb = false) ->
  cleanup_entry now indb ck e = CKeep (set_settled e) [].
Proof.
  intros Hse Ha Hc. unfold cleanup_entry. rewrite Hse, nil_gs_guarded. cbn [negb]. open_consts.
  destruct (Z.ltb_spec 30000000000 (now - first_seen e)); [|lia]. rewrite !orb_true_r. cbn [andb].
  destruct Hc as [Hc|[Hc|Hc]]; rewrite Hc; cbn [negb andb]; rewrite ?andb_false_r; reflexivity.
Qed.

(* hence: gone at the first or second tick past five minutes *)
Lemma unobserved_gone_after_two_ticks now1 now2 indb1 indb2 e : unobserved e ->
  300 * sec <= age now1 e -> now1 <= now2 ->
  cleanup_entry now1 indb1 true e = CDelete \/
  (exists e', cleanup_entry now1 indb1 true e = CKeep e' [] /\ cleanup_entry now2 indb2 true e' = CDelete).
Proof.
  intros Hu Ha Hle. destruct (settled e) eqn:Hse.
  - left. apply unobserved_removed; assumption.
  - right. exists (set_settled e). split.
    + apply settle_first; [exact Hse|unfold sec, age in *; lia|right; left; apply Hu].
    + apply unobserved_removed; [destruct Hu as (U1 & U2 & U3 & U4); repeat split; assumption|reflexivity|]. unfold age in *. cbn [set_settled first_seen]. lia.
Qed.

(* 6. completed entries: kept for an hour (late observations are still attributed), removed at the first tick at which the entry
      is settled and at least one hour old *)
Lemma submitted_removed now indb ck e : submitted e = true -> settled e = true -> 3600 * sec <= age now e ->
  cleanup_entry now indb ck e = CDelete.
Proof.
  intros Hs Hse Ha. unfold cleanup_entry. rewrite Hs, Hse. cbn [negb andb orb]. open_consts. cmp.
Qed.

Lemma submitted_kept_for_an_hour now indb ck e : submitted e = true -> settled e = true -> age now e < 3600 * sec ->
  cleanup_entry now indb ck e = CKeep e [].
Proof.
  intros Hs Hse Ha. unfold cleanup_entry. rewrite Hs, Hse. cbn [negb andb orb]. open_consts. cmp.
Qed.

Lemma submitted_gone_after_two_ticks now1 now2 indb1 indb2 ck1 ck2 e : submitted e = true ->
  3600 * sec <= age now1 e -> now1 <= now2 ->
  cleanup_entry now1 indb1 ck1 e = CDelete \/
  (exists e', cleanup_entry now1 indb1 ck1 e = CKeep e' [] /\ cleanup_entry now2 indb2 ck2 e' = CDelete).
Proof.
  intros Hs Ha Hle. destruct (settled e) eqn:Hse.
  - left. apply submitted_removed; assumption.
  - right. exists (set_settled e). split.
    + apply settle_first; [exact Hse|unfold sec, age in *; lia|left; exact Hs].
    + apply submitted_removed; [exact Hs|reflexivity|]. unfold age in *. cbn [set_settled first_seen]. lia.
Qed.

(* 7. no entry lives forever: the life of one entry under an arbitrary sequence of ticks.  [ticks] = (instant, is a quorum VAA
      for it in the store at that instant).  An own pending entry survives at most 14400 due ticks after it settled. *)
Fixpoint life (e : entry) (ck : bool) (ticks : list (Z * bool)) : option entry :=
  match ticks with
  | [] => Some e
  | (now, indb) :: t =>
    match cleanup_entry now indb ck e with
    | CKeep e' _ => life e' ck t
    | CDelete => None
    | CPanic => Some e
    end
  end.

(* every tick of the list finds the entry due for a retry: five minutes old and five minutes after the previous tick *)
Fixpoint all_due (first : Z) (prev : option Z) (ticks : list (Z * bool)) : Prop :=
  match ticks with
  | [] => True
  | (now, _) :: t => 300 * sec <= now - first /\ match prev with None => True | Some p => 300 * sec <= now - p end /\ all_due first (Some now) t
  end.

Lemma own_pending_dies_when_budget_spent : forall n ticks ck e o v,
  pending_own e o v -> settled e = true -> 0 <= retries e -> retries e + Z.of_nat n = 14400 ->
  all_due (first_seen e) (last_retry e) ticks -> length ticks = S n -> life e ck ticks = None.
Proof.
  induction n as [|n IH]; intros ticks ck e o v Hp Hse H0 Hr Hd Hl.
  - destruct ticks as [|[now indb] [|? ?]]; cbn [length] in Hl; try discriminate. cbn [life].
    rewrite (own_pending_budget_spent now indb ck e o v Hp Hse); [reflexivity|lia].
  - destruct ticks as [|[now indb] t]; cbn [length] in Hl; [discriminate|]. cbn [life all_due] in *.
    destruct Hd as (D1 & D2 & D3).
    destruct indb.
    + rewrite (own_pending_with_stored_vaa_dropped now ck e o v Hp); [reflexivity|unfold age, sec in *; lia].
    + rewrite (own_pending_retry_iff now ck e o v Hp Hse ltac:(lia)).
      assert (Hdue : retry_due now e = true).
      { unfold retry_due, age. destruct (Z.leb_spec (300 * sec) (now - first_seen e)); [|lia]. cbn [andb].
        destruct (last_retry e) as [p|]; [apply Z.leb_le; exact D2|reflexivity]. }
      rewrite Hdue. destruct Hp as (Hm & Hv & Hs).
      injection Hl as Hl.
      apply (IH t ck (set_retried e now) o v); cbn [set_retried our_msg our_vaa submitted settled retries first_seen last_retry]; try assumption; try lia.
      repeat split; assumption.
Qed.
End Cleanup.

(* the per-entry function is what the tick applies to every entry of the map *)
Lemma cleanup_all_entry st now : forall l h e, In (h, e) l ->
  match cleanup_entry now (in_db_of st e) (match cur st with Some _ => true | None => false end) e with
  | CKeep e' o => In (h, e') (fst (cleanup_all st now l)) /\ incl o (snd (cleanup_all st now l))
  | CDelete => True
  | CPanic => In (Panic PanicNilGuardianSet) (snd (cleanup_all st now l))
  end.
Proof.
  induction l as [|[h0 e0] l IH]; intros h e Hin; [destruct Hin|].
  cbn [cleanup_all]. destruct (cleanup_all st now l) as [t' o'] eqn:Ec. destruct Hin as [Heq|Hin].
  - inversion Heq; subst h0 e0. destruct (cleanup_entry now _ _ e) as [e' o| |]; cbn [fst snd].
    + split; [left; reflexivity|intros x Hx; apply in_or_app; left; exact Hx].
    + exact I.
    + left; reflexivity.
  - specialize (IH h e Hin). cbn [fst snd] in IH.
    destruct (cleanup_entry now (in_db_of st e) _ e) as [e' o| |].
    + destruct IH as [I1 I2]. destruct (cleanup_entry now (in_db_of st e0) _ e0) as [e0' o0| |]; cbn [fst snd].
      * split; [right; exact I1|intros x Hx; apply in_or_app; right; apply I2; exact Hx].
      * split; assumption.
      * split; [right; exact I1|intros x Hx; right; apply I2; exact Hx].
    + exact I.
    + destruct (cleanup_entry now (in_db_of st e0) _ e0) as [e0' o0| |]; cbn [fst snd].
      * apply in_or_app; right; exact IH.
      * exact IH.
      * right; exact IH.
Qed.

(* a deleted entry is really gone from the map (keys of the aggregation map are unique) *)
Lemma cleanup_all_keys st now : forall l, incl (map fst (fst (cleanup_all st now l))) (map fst l).
Proof.
  induction l as [|[h e] l IH]; cbn [cleanup_all]; [intros x []|].
  destruct (cleanup_all st now l) as [t' o']. cbn [fst] in IH.
  destruct (cleanup_entry now _ _ e); cbn [fst map]; intros x Hx.
  - destruct Hx as [<-|Hx]; [left; reflexivity|right; apply IH; exact Hx].
  - right; apply IH; exact Hx.
  - destruct Hx as [<-|Hx]; [left; reflexivity|right; apply IH; exact Hx].
Qed.

(* ------------------------------------------------------------------ every reachable entry is of one of the three kinds *)
Section Reach.
Variable recover : bytes -> bytes -> option bytes.
Variable keccak : bytes -> bytes.
Variable sign : bytes -> bytes.
Variable own : addr.
Variable gov_chain : Z.
Variable gov_addr : bytes.
Notation step := (Processor.step recover keccak sign own gov_chain gov_addr).
Notation run := (Processor.run recover keccak sign own gov_chain gov_addr).
Notation handle_obs := (Processor.handle_obs recover).

Record e14 (c : option gset) (e : entry) : Prop := {
  K_none : our_msg e = None -> our_vaa e = None /\ submitted e = false /\ last_retry e = None /\ c <> None;
  K_some : forall o, our_msg e = Some o -> exists v, our_vaa e = Some v }.

Definition Inv14 (st : pstate) : Prop := Forall (fun p => e14 (cur st) (snd p)) (agg st).

Lemma e14_mono c c' e : (c <> None -> c' <> None) -> e14 c e -> e14 c' e.
Proof. intros H [H1 H2]. constructor; [|exact H2]. intros Hn. destruct (H1 Hn) as (A & B & C & D). auto. Qed.

Lemma handle_obs_14 st o : Inv14 st -> Inv14 (fst (handle_obs st o)).
Proof.
  intros HI. unfold Processor.handle_obs.
  destruct (Processor.rec recover (o_hash o) (o_sig o)) as [pk|]; [|exact HI].
  destruct (bytes_eqb (bytes_to_address (o_addr o)) pk); cbn [negb]; [|exact HI].
  set (e := alookup (o_hash o) (agg st)).
  destruct (match e with Some e' => match gs_snap e' with Some g => Some g | None => cur st end | None => cur st end) as [g|] eqn:Eg; [|exact HI].
  destruct (Processor.memb _ (keys g)); cbn [negb]; [|exact HI].
  set (e0 := match e with Some e' => e' | None => new_entry (clock st) end).
  assert (He0 : e14 (cur st) e0).
  { subst e0. destruct e as [e'|] eqn:Ee.
    - subst e. apply alookup_In in Ee. unfold Inv14 in HI. rewrite Forall_forall in HI. apply (HI _ Ee).
    - constructor; cbn [new_entry our_msg our_vaa submitted last_retry]; [|discriminate].
      intros _. repeat split. rewrite Eg. discriminate. }
  set (e1 := set_esigs e0 _).
  assert (He1 : e14 (cur st) e1) by (destruct He0 as [H1 H2]; constructor; cbn [e1 set_esigs our_msg our_vaa submitted last_retry]; assumption).
  assert (Hkeep : Inv14 (with_agg st (aset (o_hash o) e1 (agg st)))).
  { unfold Inv14. cbn [with_agg cur agg]. apply Forall_aset; [exact He1|exact HI]. }
  destruct (assemble _ _ _) as [sg|]; [|exact Hkeep].
  destruct (our_vaa e1) as [v|] eqn:Ev; [|exact Hkeep].
  destruct (_ && _); [|exact Hkeep].
  destruct sg; [exact Hkeep|]. cbn [fst]. unfold Inv14. cbn [cur agg]. apply Forall_aset; [|exact HI]. cbn [snd].
  destruct He1 as [H1 H2]. constructor; cbn [set_submitted our_msg our_vaa submitted last_retry]; [|exact H2].
  intros Hn. destruct (H1 Hn) as (A & _). rewrite Ev in A. discriminate.
Qed.

Lemma broadcast_14 st v s tx chain : Inv14 st -> Inv14 (fst (broadcast_signature keccak own st v s tx chain)).
Proof.
  intros HI. unfold Processor.broadcast_signature. cbn [fst]. unfold Inv14. cbn [cur agg]. apply Forall_aset; [|exact HI]. cbn [snd].
  constructor; cbn [set_own our_msg our_vaa]; [discriminate|]. intros o _. eexists; reflexivity.
Qed.

Lemma cleanup_all_14 st0 now : forall l,
  Forall (fun p => e14 (cur st0) (snd p)) l -> Forall (fun p => e14 (cur st0) (snd p)) (fst (cleanup_all st0 now l)).
Proof.
  induction l as [|[h e] l IH]; intros F; cbn [cleanup_all]; [constructor|].
  inversion F as [|? ? He F']; subst. cbn [snd] in He. specialize (IH F').
  destruct (cleanup_all st0 now l) as [t' o']. cbn [fst] in IH.
  destruct (cleanup_entry now _ _ e) as [e' o| |] eqn:Ec; cbn [fst]; [|exact IH|constructor; assumption].
  constructor; [|exact IH]. cbn [snd]. destruct He as [H1 H2]. unfold cleanup_entry in Ec.
  destruct (negb (submitted e) && _ && _ && _); [discriminate|].
  destruct (negb (settled e) && _).
  { destruct (_ || _ || _); [|discriminate]. inversion Ec; subst. constructor; cbn [set_settled our_msg our_vaa submitted last_retry]; assumption. }
  destruct (submitted e && _); [discriminate|].
  destruct (negb (submitted e) && _); [discriminate|].
  destruct (negb (submitted e) && _ && _).
  - destruct (our_msg e) as [ob|] eqn:Em.
    + inversion Ec; subst. constructor; cbn [set_retried our_msg our_vaa submitted last_retry]; rewrite Em; [discriminate|]. exact H2.
    + destruct (_ && _); discriminate.
  - inversion Ec; subst. constructor; assumption.
Qed.

Lemma step_14 st o : Inv14 st -> Inv14 (fst (step st o)).
Proof.
  intros HI. destruct o as [g|t|m|v|ob|k|b|]; cbn [Processor.step].
  - cbn [fst]. unfold Inv14 in *. cbn [cur agg]. eapply Forall_impl; [|exact HI]. intros p. apply e14_mono. discriminate.
  - exact HI.
  - unfold Processor.handle_message. destruct (cur st); [|exact HI]. destruct (_ && _); [exact HI|].
    destruct (dlookup _ _); [|apply broadcast_14; exact HI].
    destruct (unmarshal _); [destruct (_ <? _); [exact HI|apply broadcast_14; exact HI]|].
    destruct proc_stored_unmarshal_failure_panics; [exact HI|apply broadcast_14; exact HI].
  - apply broadcast_14; exact HI.
  - apply handle_obs_14; exact HI.
  - destruct (nth_error _ _); [|exact HI]. apply handle_obs_14. exact HI.
  - unfold Processor.handle_inbound. destruct (unmarshal b); [|exact HI]. destruct (cur st) eqn:Ec; [|exact HI].
    destruct (_ =? _)%nat; [exact HI|]. destruct (_ =? _)%nat; [exact HI|]. destruct (proc_inbound_below_quorum _ _); [exact HI|].
    destruct (verify_sigs _ _ _ _); cbn [negb]; [|exact HI]. destruct (dlookup _ _); [exact HI|].
    cbn [fst]. unfold Inv14 in *. cbn [cur agg]. rewrite Ec in HI. exact HI.
  - unfold Processor.handle_cleanup. pose proof (cleanup_all_14 st (clock st + 1) (agg st) HI) as H.
    destruct (cleanup_all _ _ _) as [a o]. exact H.
Qed.

Lemma run_14 : forall ops st, Inv14 st -> Inv14 (fst (run st ops)).
Proof.
  induction ops as [|o ops IH]; intros st HI; cbn [Processor.run]; [exact HI|].
  pose proof (step_14 st o HI) as H1. destruct (step st o) as [st1 out1]. cbn [fst] in H1.
  specialize (IH st1 H1). destruct (run st1 ops) as [st2 outs]. exact IH.
Qed.

(* the three kinds of the property are exhaustive for every entry of every reachable state *)
Theorem reachable_entry_kinds ops h e : In (h, e) (agg (fst (run init ops))) ->
  submitted e = true \/ (exists o v, pending_own e o v) \/ (unobserved e /\ cur (fst (run init ops)) <> None).
Proof.
  intros Hin. assert (HI : Inv14 init) by constructor.
  pose proof (run_14 ops init HI) as H. unfold Inv14 in H. rewrite Forall_forall in H. specialize (H _ Hin). cbn [snd] in H.
  destruct H as [H1 H2]. destruct (submitted e) eqn:Hs; [left; reflexivity|right].
  destruct (our_msg e) as [o|] eqn:Em.
  - left. destruct (H2 o eq_refl) as [v Hv]. exists o, v. repeat split; assumption.
  - right. destruct (H1 eq_refl) as (A & B & C & D). repeat split; assumption.
Qed.
End Reach.
