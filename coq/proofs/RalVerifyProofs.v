(* X11: the function GENERATED from governance.ral parseAndVerifyVAA (gen/ExtractedRalVerify.v, with its signature loop) equals the
   hand model RalVerifyModel.ral_accepts — Contracts.ral_parse + guardian-set selection + governance index test + set-size and quorum
   tests (the node's go_quorum) + the signature loop — for EVERY input: data, contract state, flag, hash and recovery oracles. *)
From Coq Require Import List ZArith Lia Bool Arith.
From Coq Require Import Strings.Byte.
From WH Require Import lib.Bytes lib.Ralph lib.RalphLoop gen.Extracted gen.ExtractedRalVerify gen.ExtractedContractVerify.
From WH Require Import model.Vaa model.Contracts model.RalVerifyModel proofs.QuorumProofs proofs.ContractVerifyProofs proofs.LayoutProofs.
Import ListNotations.
Import ExtractedRalVerify.RalVerify.
Open Scope Z_scope.

(* ------------------------------------------------------------------ slices *)
Lemma slice_len l f t s : slice l f t = Some s -> length s = (t - f)%nat /\ (f <= t)%nat /\ (t <= length l)%nat.
Proof.
  unfold slice. destruct (Nat.leb_spec f t) as [H1|H1]; [|discriminate].
  destruct (Nat.leb_spec t (length l)) as [H2|H2]; [|discriminate].
  cbn [andb]. intros E. injection E as <-. rewrite firstn_length, skipn_length. lia.
Qed.

Lemma slice_none l f t : slice l f t = None -> (t < f)%nat \/ (length l < t)%nat.
Proof.
  unfold slice. destruct (Nat.leb_spec f t) as [H1|H1]; [|intros _; lia].
  destruct (Nat.leb_spec t (length l)) as [H2|H2]; [discriminate|intros _; lia].
Qed.

Lemma slice_tail65 sg : length sg = 65%nat -> slice sg 64 65 = Some (skipn 64 sg) /\ slice sg 0 64 = Some (firstn 64 sg).
Proof.
  intros L. unfold slice. rewrite L.
  change ((64 <=? 65)%nat && (65 <=? 65)%nat) with true. change ((0 <=? 64)%nat && (64 <=? 65)%nat) with true.
  change (65 - 64)%nat with 1%nat. change (64 - 0)%nat with 64%nat. cbv iota. split; [|reflexivity].
  f_equal. apply firstn_all2. rewrite skipn_length. lia.
Qed.

Lemma one_byte_eq ver : length ver = 1%nat -> bytes_eqb ver [x01] = (unbe ver =? 1).
Proof.
  destruct ver as [|b [|c t]]; try discriminate. intros _. destruct b; reflexivity.
Qed.

(* ------------------------------------------------------------------ evaluation of the combinators on values *)
Lemma in_u256_ok z : 0 <= z <= 2 ^ 64 -> in_u256 z = true.
Proof. intros H. apply in_u256_small. unfold u256_max. lia. Qed.

Lemma r_add_small x y : 0 <= x + y <= 2 ^ 64 -> r_add (Some (RZ x)) (Some (RZ y)) = Some (RZ (x + y)).
Proof. intros H. apply r_add_ok. unfold u256_max. lia. Qed.
Lemma r_mul_small x y : 0 <= x * y <= 2 ^ 64 -> r_mul (Some (RZ x)) (Some (RZ y)) = Some (RZ (x * y)).
Proof. intros H. apply r_mul_ok. unfold u256_max. lia. Qed.

Lemma r_toI256_small z : 0 <= z <= 2 ^ 64 -> r_toI256 (Some (RZ z)) = Some (RZ z).
Proof.
  intros H. unfold r_toI256, i256_max.
  destruct (Z.leb_spec 0 z); [|lia].
  destruct (Z.leb_spec z 57896044618658097711785492504343953926634992332820282019728792003956564819967); [reflexivity|lia].
Qed.

Lemma r_slice_val b f t :
  r_slice (Some (RB b)) (Some (RZ f)) (Some (RZ t)) = match slice b (Z.to_nat f) (Z.to_nat t) with Some s => Some (RB s) | None => None end.
Proof. reflexivity. Qed.

Lemma r_u256to1 z : 0 <= z -> r_u256to 1 (Some (RZ z)) = if z <? 256 then Some (RB (be 1 z)) else None.
Proof. reflexivity. Qed.

Lemma unbe1_range b : length b = 1%nat -> 0 <= unbe b < 256.
Proof. intros L. apply (unbe_range 1 b L). Qed.

Section Proofs.
Variable keccak : bytes -> bytes.
Variable ecrecover : bytes -> bytes -> option bytes.

(* ------------------------------------------------------------------ one iteration of the generated loop *)
Lemma body_step D G H i last off : 0 <= i <= 2 ^ 32 -> 0 <= off <= 2 ^ 32 ->
  ral_parseAndVerifyVAA_loop1_body keccak ecrecover (RB D) (RB G) (RB H) [RZ i; RZ last; RZ off] =
  match slice D (Z.to_nat off) (Z.to_nat off + 1), slice D (Z.to_nat off + 1) (Z.to_nat off + 66) with
  | Some gi, Some sg =>
    if rec_ok ecrecover H G last (unbe gi) sg then Some ([RZ (i + 1); RZ (unbe gi); RZ (off + 66)], []) else None
  | Some gi, None => None
  | None, _ => None
  end.
Proof.
  intros Hi Ho. unfold ral_parseAndVerifyVAA_loop1_body. unfold r_var, r_num.
  rewrite !r_add_small by lia. rewrite !r_slice_val.
  replace (Z.to_nat (off + 1)) with (Z.to_nat off + 1)%nat by lia.
  replace (Z.to_nat (off + 66)) with (Z.to_nat off + 66)%nat by lia.
  destruct (slice D (Z.to_nat off) (Z.to_nat off + 1)) as [gi|] eqn:Egi; [|reflexivity].
  destruct (slice_len _ _ _ _ Egi) as [Lgi _]. replace (Z.to_nat off + 1 - Z.to_nat off)%nat with 1%nat in Lgi by lia.
  pose proof (unbe1_range gi Lgi) as Rgi.
  rewrite (r_u256from_ok 1 gi Lgi). cbn [rlet].
  rewrite r_toI256_small by lia. cbn [rlet r_gt r_cmp rassert].
  unfold rec_ok. rewrite Z.gtb_ltb.
  destruct (slice D (Z.to_nat off + 1) (Z.to_nat off + 66)) as [sg|] eqn:Esg.
  2:{ destruct (last <? unbe gi); reflexivity. }
  destruct (slice_len _ _ _ _ Esg) as [Lsg _]. replace (Z.to_nat off + 66 - (Z.to_nat off + 1))%nat with 65%nat in Lsg by lia.
  destruct (last <? unbe gi); [|reflexivity]. cbn [andb rlet].
  rewrite !r_slice_val. change (Z.to_nat 64) with 64%nat. change (Z.to_nat 65) with 65%nat. change (Z.to_nat 0) with 0%nat.
  destruct (slice_tail65 sg Lsg) as [E1 E2]. rewrite E1, E2.
  assert (Lvb : length (skipn 64 sg) = 1%nat) by (rewrite skipn_length; lia).
  pose proof (unbe1_range _ Lvb) as Rvb.
  rewrite (r_u256from_ok 1 _ Lvb). rewrite r_add_small by lia. cbn [rlet].
  rewrite r_u256to1 by lia.
  destruct (unbe (skipn 64 sg) + 27 <? 256); [|reflexivity]. cbn [r_concat rlet andb].
  rewrite r_mul_small by lia. rewrite r_add_small by lia. cbn [rlet].
  rewrite r_add_small by lia. rewrite r_slice_val.
  replace (1 + unbe gi * 20) with (1 + 20 * unbe gi) by lia.
  destruct (slice G (Z.to_nat (1 + 20 * unbe gi)) (Z.to_nat (1 + 20 * unbe gi + 20))) as [key|]; [|reflexivity].
  cbn [rlet r_ecrecover].
  destruct (ecrecover H (firstn 64 sg ++ be 1 (unbe (skipn 64 sg) + 27))) as [a|]; [|reflexivity].
  cbn [r_eq rassert]. destruct (bytes_eqb key a); reflexivity.
Qed.


(* ------------------------------------------------------------------ the whole loop *)
(* the loop read directly off the data: [n] records from byte [off] on *)
Fixpoint sig_loop (D G H : bytes) (n off : nat) (last : Z) : bool :=
  match n with
  | O => true
  | S k =>
    match slice D off (off + 1), slice D (off + 1) (off + 66) with
    | Some gi, Some sg => rec_ok ecrecover H G last (unbe gi) sg && sig_loop D G H k (off + 66) (unbe gi)
    | _, _ => false
    end
  end.

Lemma loop_eq D G H n : 0 <= n <= 2 ^ 20 ->
  forall k fuel i last off, (k <= fuel)%nat -> i + Z.of_nat k = n -> 0 <= i -> 0 <= off -> off + 66 * Z.of_nat k <= 2 ^ 31 ->
  (sig_loop D G H k (Z.to_nat off) last = true ->
     exists a b, r_for fuel (ral_parseAndVerifyVAA_loop1_cond keccak ecrecover (RZ n)) (ral_parseAndVerifyVAA_loop1_body keccak ecrecover (RB D) (RB G) (RB H))
                   [RZ i; RZ last; RZ off] = Some ([RZ n; a; b], [])) /\
  (sig_loop D G H k (Z.to_nat off) last = false ->
     r_for fuel (ral_parseAndVerifyVAA_loop1_cond keccak ecrecover (RZ n)) (ral_parseAndVerifyVAA_loop1_body keccak ecrecover (RB D) (RB G) (RB H))
       [RZ i; RZ last; RZ off] = None).
Proof.
  intros Hn. induction k as [|k IH]; intros fuel i last off Hf Hi Hi0 Ho Hb.
  - assert (i = n) by lia. subst i. split; [intros _|cbn [sig_loop]; discriminate].
    exists (RZ last), (RZ off). destruct fuel; cbn [r_for]; unfold ral_parseAndVerifyVAA_loop1_cond, r_var; cbn [r_lt r_cmp];
      rewrite Z.ltb_irrefl; reflexivity.
  - destruct fuel as [|fuel]; [lia|]. cbn [r_for]. unfold ral_parseAndVerifyVAA_loop1_cond at 1 3. unfold r_var. cbn [r_lt r_cmp].
    destruct (Z.ltb_spec i n) as [Hlt|]; [|lia].
    rewrite body_step by lia. cbn [sig_loop].
    replace (Z.to_nat off + 66)%nat with (Z.to_nat (off + 66)) by lia.
    destruct (slice D (Z.to_nat off) (Z.to_nat off + 1)) as [gi|]; [|split; [discriminate|reflexivity]].
    destruct (slice D (Z.to_nat off + 1) (Z.to_nat (off + 66))) as [sg|]; [|split; [discriminate|reflexivity]].
    destruct (rec_ok ecrecover H G last (unbe gi) sg); [|split; [discriminate|reflexivity]].
    cbn [andb]. apply IH; lia.
Qed.

(* ... is the hand model's record list checked record by record *)
Lemma sig_loop_recs D G H : forall n off last,
  sig_loop D G H n off last = match ral_sigs D n off with Some recs => recs_ok ecrecover H G last recs | None => false end.
Proof.
  induction n as [|n IH]; intros off last; [reflexivity|].
  cbn [sig_loop ral_sigs]. unfold ral_sig_index_rel, ral_sig_data_rel, ral_sig_stride. cbn [fst snd]. rewrite Nat.add_0_r.
  destruct (slice D off (off + 1)) as [gi|]; [|reflexivity].
  destruct (slice D (off + 1) (off + 66)) as [sg|]; [|reflexivity].
  rewrite IH. destruct (ral_sigs D n (off + 66)) as [t|]; [reflexivity|]. apply andb_false_r.
Qed.

(* ------------------------------------------------------------------ getGuardiansInfo *)
Lemma getGuardiansInfo_eq s idx :
  ral_getGuardiansInfo keccak ecrecover (RZ idx) (RZ (gs_cur_idx s)) (RB (gs_cur s)) (RZ (gs_prev_idx s)) (RZ (gs_now s)) (RZ (gs_prev_exp s)) (RB (gs_prev s))
  = match guardians_for s idx with Some g => Some ([RB g], []) | None => None end.
Proof.
  unfold ral_getGuardiansInfo, guardians_for, r_var. cbn [r_eq rif].
  destruct (idx =? gs_cur_idx s); [reflexivity|]. destruct (idx =? gs_prev_idx s); [|reflexivity].
  cbn [r_le r_cmp rassert]. destruct (gs_now s <=? gs_prev_exp s); reflexivity.
Qed.


(* ------------------------------------------------------------------ the whole function *)
Lemma gov_step gov c (K : list rval -> option rres) :
  rcall (rif (Some (RBool gov)) (rassert (Some (RBool c)) (Some ([], []))) (Some ([], []))) K
  = if gov && negb c then None else K [].
Proof. destruct gov; cbn [rif rassert rcall andb]; [destruct c|]; reflexivity. Qed.

(* the hand model's parse chain, destructed in its own order; closes the goal when the model aborts *)
Ltac rhs_parse :=
  repeat match goal with
  | |- context [match slice ?a ?b ?c with _ => _ end] => destruct (slice a b c) eqn:?
  | |- context [match ral_sigs ?a ?b ?c with _ => _ end] => destruct (ral_sigs a b c) eqn:?
  end;
  cbn [rv_gsidx rv_numsigs rv_sig_records rv_hashed rv_echain rv_tchain rv_eaddr rv_seq rv_payload option_map]; try reflexivity.

Theorem ral_source_eq s gov data :
  ral_source keccak ecrecover s gov data = option_map rets_of (ral_accepts keccak ecrecover s gov data).
Proof.
  unfold ral_source, ral_source_full, ral_accepts, ral_parse, ral_parseAndVerifyVAA_on, ral_parseAndVerifyVAA, sl.
  unfold ral_version_slice, ral_gsidx_slice, ral_numsigs_slice, ral_version_byte, c_Version, r_hex.
  unfold ral_body_from, ral_sig_offset0, ral_echain_slice, ral_tchain_slice, ral_eaddr_slice, ral_seq_slice, ral_payload_from. cbn [fst snd].
  unfold r_var, r_num. rewrite !r_slice_val.
  change (Z.to_nat 0) with 0%nat. change (Z.to_nat 1) with 1%nat. change (Z.to_nat 5) with 5%nat. change (Z.to_nat 6) with 6%nat.
  destruct (slice data 0 1) as [ver|] eqn:Ever; [|reflexivity].
  destruct (slice_len _ _ _ _ Ever) as [Lver _]. change (1 - 0)%nat with 1%nat in Lver.
  cbn [r_eq]. rewrite (one_byte_eq ver Lver). cbn [rassert].
  destruct (slice data 1 5) as [gi|] eqn:Egi.
  2:{ destruct (unbe ver =? 1); reflexivity. }
  destruct (slice_len _ _ _ _ Egi) as [Lgi _]. change (5 - 1)%nat with 4%nat in Lgi.
  rewrite (r_u256from_ok 4 gi Lgi). cbn [rlet].
  rewrite gov_step.
  destruct (slice data 5 6) as [ns|] eqn:Ens.
  2:{ destruct (unbe ver =? 1); [|reflexivity]. destruct (gov && negb (unbe gi =? gs_cur_idx s)); reflexivity. }
  destruct (slice_len _ _ _ _ Ens) as [Lns _]. change (6 - 5)%nat with 1%nat in Lns.
  pose proof (unbe1_range ns Lns) as Rns.
  destruct (unbe ver =? 1); [|reflexivity]. cbn [negb].
  rewrite (r_u256from_ok 1 ns Lns). cbn [rlet].
  destruct (gov && negb (unbe gi =? gs_cur_idx s)) eqn:Egov.
  { rhs_parse. rewrite Egov. reflexivity. }
  rewrite getGuardiansInfo_eq.
  destruct (guardians_for s (unbe gi)) as [g|] eqn:Eg.
  2:{ cbn [rcall option_map]. rhs_parse. rewrite Egov, Eg. reflexivity. }
  cbn [rcall]. rewrite r_slice_val. change (Z.to_nat 0) with 0%nat. change (Z.to_nat 1) with 1%nat.
  destruct (slice g 0 1) as [nb|] eqn:Enb.
  2:{ cbn [r_u256from rlet option_map]. rhs_parse. rewrite Egov, Eg. unfold set_size. rewrite Enb. reflexivity. }
  destruct (slice_len _ _ _ _ Enb) as [Lnb _]. change (1 - 0)%nat with 1%nat in Lnb.
  pose proof (unbe1_range nb Lnb) as Rnb.
  rewrite (r_u256from_ok 1 nb Lnb). cbn [rlet]. unfold r_ne. cbn [r_eq r_not rassert].
  destruct (unbe nb =? 0) eqn:En0.
  { cbn [negb option_map]. rhs_parse. rewrite Egov, Eg. unfold set_size. rewrite Enb, En0. reflexivity. }
  cbn [negb]. rewrite r_mul_small by lia. cbn [r_div]. change (3 =? 0) with false. cbv iota.
  assert (0 <= unbe nb * 2 / 3 <= 2 ^ 32) by (split; [apply Z.div_pos; lia|apply Z.div_le_upper_bound; lia]).
  rewrite r_add_small by lia. cbn [rlet r_le r_cmp rassert].
  assert (Eq : go_quorum (unbe nb) = unbe nb * 2 / 3 + 1).
  { rewrite go_quorum_spec by lia. unfold spec_quorum. rewrite (Z.mul_comm 2). reflexivity. }
  destruct (unbe nb * 2 / 3 + 1 <=? unbe ns) eqn:Equo.
  2:{ cbn [option_map]. rhs_parse. rewrite Egov, Eg. unfold set_size. rewrite Enb, En0, Eq, Equo. reflexivity. }
  rewrite r_mul_small by lia. rewrite r_add_small by lia. cbn [r_size]. rewrite r_slice_val. rewrite Nat2Z.id.
  replace (Z.to_nat (6 + unbe ns * 66)) with (6 + Z.to_nat (unbe ns) * 66)%nat by lia.
  destruct (slice data (6 + Z.to_nat (unbe ns) * 66) (length data)) as [bd|] eqn:Ebd; [|reflexivity].
  cbn [rlet r_keccak]. unfold r_fuel.
  destruct (loop_eq data g (keccak (keccak bd)) (unbe ns) ltac:(lia) (Z.to_nat (unbe ns)) (Z.to_nat (unbe ns - 0 + 1)) 0 (-1) 6
              ltac:(lia) ltac:(lia) ltac:(lia) ltac:(lia) ltac:(lia)) as [Ht Hf].
  change (Z.to_nat 6) with 6%nat in Ht, Hf. rewrite sig_loop_recs in Ht, Hf.
  destruct (ral_sigs data (Z.to_nat (unbe ns)) 6) as [recs|] eqn:Erecs.
  2:{ rewrite (Hf eq_refl). reflexivity. }
  destruct (recs_ok ecrecover (keccak (keccak bd)) g (-1) recs) eqn:Erok.
  2:{ rewrite (Hf eq_refl). cbn [rcall option_map]. rhs_parse. rewrite Egov, Eg. unfold set_size. rewrite Enb, En0, Eq, Equo, Erok. reflexivity. }
  destruct (Ht eq_refl) as [a [b Hl]]. rewrite Hl. cbn [rcall]. clear Ht Hf Hl.
  rewrite !r_slice_val. rewrite Nat2Z.id.
  change (Z.to_nat 8) with 8%nat. change (Z.to_nat 10) with 10%nat. change (Z.to_nat 12) with 12%nat. change (Z.to_nat 44) with 44%nat.
  change (Z.to_nat 52) with 52%nat. change (Z.to_nat 53) with 53%nat.
  destruct (slice bd 8 10) as [ec|] eqn:Eec; [|reflexivity].
  destruct (slice_len _ _ _ _ Eec) as [Lec _]. change (10 - 8)%nat with 2%nat in Lec. rewrite (r_u256from_ok 2 ec Lec). cbn [rlet].
  destruct (slice bd 10 12) as [tc|] eqn:Etc; [|reflexivity].
  destruct (slice_len _ _ _ _ Etc) as [Ltc _]. change (12 - 10)%nat with 2%nat in Ltc. rewrite (r_u256from_ok 2 tc Ltc). cbn [rlet].
  destruct (slice bd 12 44) as [ea|] eqn:Eea; [|reflexivity]. cbn [rlet].
  destruct (slice bd 44 52) as [sq|] eqn:Esq; [|reflexivity].
  destruct (slice_len _ _ _ _ Esq) as [Lsq _]. change (52 - 44)%nat with 8%nat in Lsq. rewrite (r_u256from_ok 8 sq Lsq). cbn [rlet].
  destruct (slice bd 53 (length bd)) as [pl|] eqn:Epl; [|reflexivity]. cbn [rlet option_map fst].
  cbn [rv_gsidx rv_numsigs rv_sig_records rv_hashed rv_echain rv_tchain rv_eaddr rv_seq rv_payload].
  rewrite Egov, Eg. unfold set_size. rewrite Enb, En0, Eq, Equo, Erok. reflexivity.
Qed.


(* ------------------------------------------------------------------ corollaries *)
Lemma set_size_nonneg g n : set_size g = Some n -> 0 <= n.
Proof. unfold set_size. destruct (slice g 0 1); [|discriminate]. intros E. injection E as <-. apply unbe_nonneg. Qed.

(* accepted exactly when the byte-level parse succeeds and every test of the property passes; the values handed back are the parsed
   fields; None (abort) in every other case *)
Theorem ral_source_accepts_iff s gov data rets :
  ral_source keccak ecrecover s gov data = Some rets <->
  exists r g n, ral_parse data = Some r /\ (gov = true -> rv_gsidx r = gs_cur_idx s) /\ guardians_for s (rv_gsidx r) = Some g /\
    set_size g = Some n /\ n <> 0 /\ go_quorum n <= rv_numsigs r /\
    recs_ok ecrecover (keccak (keccak (rv_hashed r))) g (-1) (rv_sig_records r) = true /\
    rets = [RZ (rv_echain r); RZ (rv_tchain r); RB (rv_eaddr r); RZ (rv_seq r); RB (rv_payload r)].
Proof.
  rewrite ral_source_eq. unfold ral_accepts. split.
  - destruct (ral_parse data) as [r|]; [|discriminate].
    destruct (gov && negb (rv_gsidx r =? gs_cur_idx s)) eqn:Egov; [discriminate|].
    destruct (guardians_for s (rv_gsidx r)) as [g|] eqn:Eg; [|discriminate].
    destruct (set_size g) as [n|] eqn:En; [|discriminate].
    destruct (n =? 0) eqn:En0; [discriminate|].
    destruct (go_quorum n <=? rv_numsigs r) eqn:Eq; [|discriminate]. cbn [negb].
    destruct (recs_ok ecrecover (keccak (keccak (rv_hashed r))) g (-1) (rv_sig_records r)) eqn:Er; [|discriminate].
    cbn [option_map rets_of]. intros E. injection E as <-. exists r, g, n.
    repeat apply conj; try reflexivity; try assumption; [|apply Z.eqb_neq; exact En0|apply Z.leb_le; exact Eq].
    intros ->. cbn [andb] in Egov. apply negb_false_iff, Z.eqb_eq in Egov. exact Egov.
  - intros [r [g [n [-> [Hg [-> [-> [Hn [Hq [-> ->]]]]]]]]]].
    assert (Egov : gov && negb (rv_gsidx r =? gs_cur_idx s) = false).
    { destruct gov; [|reflexivity]. rewrite (Hg eq_refl), Z.eqb_refl. reflexivity. }
    rewrite Egov. apply Z.eqb_neq in Hn. apply Z.leb_le in Hq. rewrite Hn, Hq. reflexivity.
Qed.

(* the decision of the translated function IS x_contractverify's ral_parse_and_verify (the guards around the quorum test, translated
   separately) with its oracle bit instantiated by the verdict of the translated signature loop: C07's theorems about
   ral_parse_and_verify are theorems about the one translated entry point *)
Definition is_some {A} (o : option A) : bool := match o with Some _ => true | None => false end.

Theorem ral_source_decision s gov data r g n :
  ral_parse data = Some r -> guardians_for s (rv_gsidx r) = Some g -> set_size g = Some n ->
  is_some (ral_source keccak ecrecover s gov data) =
  ral_parse_and_verify ral_version_byte ral_version_byte (rv_gsidx r) (gs_cur_idx s) n (rv_numsigs r) gov
    (recs_ok ecrecover (keccak (keccak (rv_hashed r))) g (-1) (rv_sig_records r)).
Proof.
  intros Hp Hg Hn. apply eq_true_iff_eq. rewrite (ral_accepts_iff _ _ _ _ _ _ _ _ (set_size_nonneg g n Hn)).
  split.
  - destruct (ral_source keccak ecrecover s gov data) as [rets|] eqn:E; [|discriminate]. intros _.
    apply ral_source_accepts_iff in E. destruct E as [r' [g' [n' [Hp' [Hgov [Hg' [Hn' [N0 [Hq [Hr _]]]]]]]]]].
    rewrite Hp in Hp'. injection Hp' as <-. rewrite Hg in Hg'. injection Hg' as <-. rewrite Hn in Hn'. injection Hn' as <-.
    repeat apply conj; assumption || reflexivity.
  - intros [_ [Hgov [N0 [Hq Hr]]]].
    destruct (ral_source keccak ecrecover s gov data) as [rets|] eqn:E; [reflexivity|]. exfalso.
    assert (X : ral_source keccak ecrecover s gov data = Some [RZ (rv_echain r); RZ (rv_tchain r); RB (rv_eaddr r); RZ (rv_seq r); RB (rv_payload r)]).
    { apply ral_source_accepts_iff. exists r, g, n. repeat apply conj; assumption || reflexivity. }
    congruence.
Qed.

(* the flag only matters for VAAs that name another set than the current one *)
Theorem ral_source_flag_irrelevant s data r gov gov' :
  ral_parse data = Some r -> rv_gsidx r = gs_cur_idx s ->
  ral_source keccak ecrecover s gov data = ral_source keccak ecrecover s gov' data.
Proof.
  intros Hp Hi. rewrite !ral_source_eq. unfold ral_accepts. rewrite Hp, Hi, Z.eqb_refl. cbn [negb]. rewrite !andb_false_r. reflexivity.
Qed.

(* on the bytes the node's Marshal produces: the translated function hashes the node's signing body (the recovery oracle is consulted
   over the node's digest), reads the signature records the node wrote, and hands back the node's own field values *)
Theorem ral_source_on_marshal s gov v : wf v ->
  ral_source keccak ecrecover s gov (marshal v) =
  if gov && negb (gsidx v =? gs_cur_idx s) then None else
  match guardians_for s (gsidx v) with
  | None => None
  | Some g =>
    match set_size g with
    | None => None
    | Some n =>
      if n =? 0 then None else
      if negb (go_quorum n <=? Z.of_nat (length (sigs v))) then None else
      if recs_ok ecrecover (digest keccak v) g (-1) (map (fun sg => (s_idx sg, s_data sg)) (sigs v))
      then Some [RZ (echain v); RZ (tchain v); RB (eaddr v); RZ (seq v); RB (payload v)] else None
    end
  end.
Proof.
  intros W. rewrite ral_source_eq. unfold ral_accepts. rewrite (ral_parse_marshal v W).
  cbn [rv_gsidx rv_numsigs rv_sig_records rv_hashed rv_echain rv_tchain rv_eaddr rv_seq rv_payload]. unfold digest.
  destruct (gov && negb (gsidx v =? gs_cur_idx s)); [reflexivity|].
  destruct (guardians_for s (gsidx v)) as [g|]; [|reflexivity].
  destruct (set_size g) as [n|]; [|reflexivity].
  destruct (n =? 0); [reflexivity|]. destruct (go_quorum n <=? Z.of_nat (length (sigs v))); [|reflexivity]. cbn [negb].
  destruct (recs_ok ecrecover (keccak (keccak (body v))) g (-1) (map (fun sg => (s_idx sg, s_data sg)) (sigs v))); reflexivity.
Qed.

End Proofs.
