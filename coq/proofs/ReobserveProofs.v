(* Proofs about model/Reobserve.v (C17). *)
From Coq Require Import List ZArith Lia Bool Arith.
From Coq Require Import Strings.Byte.
From WH Require Import lib.Bytes gen.Extracted model.Reobserve.
Import ListNotations.
Open Scope Z_scope.

(* the shapes of the source the theorems are proved for (fail to compile when the source changes them) *)
Lemma send_nonblocking : reobs_send_nonblocking = true.
Proof. reflexivity. Qed.
Lemma remember_on_send_only : reobs_remember_always = false.
Proof. reflexivity. Qed.
Lemma post_is_nonblocking : post_nonblocking = true.
Proof. reflexivity. Qed.
Lemma purge_strict age : reobs_purge age = true <-> reobs_window < age.
Proof. unfold reobs_purge. apply Z.ltb_lt. Qed.
Lemma window_pos : 0 < reobs_window.
Proof. reflexivity. Qed.

(* ------------------------------------------------------------------ keys, cache *)
Lemma key_eqb_eq a b : key_eqb a b = true <-> a = b.
Proof.
  unfold key_eqb. rewrite andb_true_iff, Z.eqb_eq, bytes_eqb_eq. destruct a, b; cbn [fst snd]. split; [intros [-> ->]; reflexivity|intros H; injection H; auto].
Qed.
Lemma key_eqb_refl a : key_eqb a a = true.
Proof. apply key_eqb_eq. reflexivity. Qed.
Lemma key_eqb_neq a b : a <> b -> key_eqb a b = false.
Proof. intros N. destruct (key_eqb a b) eqn:E; [apply key_eqb_eq in E; contradiction|reflexivity]. Qed.

Lemma cache_get_cons c k k' t : cache_get ((k', t) :: c) k = if key_eqb k k' then Some t else cache_get c k.
Proof. reflexivity. Qed.

Lemma cache_get_In c k t : cache_get c k = Some t -> In (k, t) c.
Proof.
  induction c as [|[k' t'] c IH]; [discriminate|]. rewrite cache_get_cons. destruct (key_eqb k k') eqn:E.
  - apply key_eqb_eq in E. subst. intros H; injection H as ->. left; reflexivity.
  - intros H. right. apply IH. exact H.
Qed.

Lemma cache_get_none_filter f c k : cache_get c k = None -> cache_get (filter f c) k = None.
Proof.
  induction c as [|[k' t'] c IH]; [reflexivity|]. rewrite cache_get_cons. destruct (key_eqb k k') eqn:E; [discriminate|].
  intros H. cbn [filter]. destruct (f (k', t')); [rewrite cache_get_cons, E|]; apply IH; exact H.
Qed.

(* after a purge an entry survives only if it was there with the same time and is not older than the window *)
Lemma cache_get_filter_some now c k t :
  cache_get (filter (fun e => negb (reobs_purge (now - snd e))) c) k = Some t -> In (k, t) c /\ reobs_purge (now - t) = false.
Proof.
  intros H. apply cache_get_In in H. apply filter_In in H as [H1 H2]. cbn [snd] in H2. apply negb_true_iff in H2. auto.
Qed.

(* ------------------------------------------------------------------ queues *)
Definition items (st : state) (c : Z) : option (list req) := option_map q_items (find_queue (queues st) c).

Lemma find_queue_chain qs c q : find_queue qs c = Some q -> q_chain q = c.
Proof. induction qs as [|q' qs IH]; [discriminate|]. cbn [find_queue]. destruct (Z.eqb_spec (q_chain q') c); [intros H; injection H as <-; assumption|exact IH]. Qed.

Lemma find_set_items qs c its c' :
  find_queue (set_items qs c its) c' =
  if c' =? c then option_map (fun q => {| q_chain := q_chain q; q_cap := q_cap q; q_items := its |}) (find_queue qs c) else find_queue qs c'.
Proof.
  induction qs as [|q qs IH]; cbn [set_items find_queue]; [destruct (c' =? c); reflexivity|].
  destruct (Z.eqb_spec (q_chain q) c) as [E|N]; cbn [find_queue q_chain].
  - destruct (Z.eqb_spec c' c) as [Ec|N'].
    + rewrite Ec. replace (q_chain q =? c) with true by (symmetry; apply Z.eqb_eq; exact E). reflexivity.
    + destruct (Z.eqb_spec (q_chain q) c') as [E'|_]; [exfalso; apply N'; rewrite <- E', E; reflexivity|reflexivity].
  - destruct (Z.eqb_spec (q_chain q) c') as [E'|N'].
    + destruct (Z.eqb_spec c' c) as [Ec|_]; [exfalso; apply N; rewrite E', Ec; reflexivity|reflexivity].
    + exact IH.
Qed.

(* ------------------------------------------------------------------ single steps *)
(* a request is forwarded only to the queue of the chain it names; nothing else changes *)
Theorem forward_to_named_chain st r now st' c : step st (Req r now) = (st', Forward c) ->
  c = chain_of r /\ cache_get (cache st) (key_of r) = None /\ cache_get (cache st') (key_of r) = Some now /\
  (exists q, find_queue (queues st) c = Some q /\ full q = false /\ items st' c = Some (q_items q ++ [r])) /\
  (forall c', c' <> c -> items st' c' = items st c').
Proof.
  cbn [step]. destruct (cache_get (cache st) (key_of r)) eqn:Ec; [discriminate|].
  cbn [key_of fst]. destruct (find_queue (queues st) (chain_of r)) as [q|] eqn:Eq; [|discriminate].
  destruct (full q) eqn:Ef; [destruct reobs_send_nonblocking; discriminate|].
  intros H. injection H as <- <-. split; [reflexivity|]. split; [reflexivity|]. split; [|split].
  - cbn [cache]. unfold remember. rewrite cache_get_cons, key_eqb_refl. reflexivity.
  - exists q. split; [exact Eq|]. split; [exact Ef|]. unfold items. cbn [queues]. rewrite find_set_items, Z.eqb_refl, Eq. reflexivity.
  - intros c' N. unfold items. cbn [queues]. rewrite find_set_items. destruct (Z.eqb_spec c' (chain_of r)); [contradiction|reflexivity].
Qed.

(* requests that are dropped (duplicate, queue full, unknown chain) leave cache and queues exactly as they were: they
   are not remembered, so a later retry is not suppressed *)
Theorem drop_changes_nothing st r now st' o : step st (Req r now) = (st', o) -> o = DropDup \/ o = DropFull \/ o = DropUnknown -> st' = st.
Proof.
  cbn [step]. destruct (cache_get (cache st) (key_of r)); [intros H _; injection H as <- _; reflexivity|].
  destruct (find_queue (queues st) (fst (key_of r))) as [q|]; [|intros H _; injection H as <- _; reflexivity].
  destruct (full q).
  - rewrite remember_on_send_only. intros H _. injection H as <- _. destruct st; reflexivity.
  - intros H [E|[E|E]]; injection H as _ <-; discriminate.
Qed.

(* why a request is dropped *)
Theorem drop_reasons st r now st' o : step st (Req r now) = (st', o) ->
  match o with
  | DropDup => exists t, cache_get (cache st) (key_of r) = Some t
  | DropUnknown => cache_get (cache st) (key_of r) = None /\ find_queue (queues st) (chain_of r) = None
  | DropFull => cache_get (cache st) (key_of r) = None /\ exists q, find_queue (queues st) (chain_of r) = Some q /\ full q = true
  | Forward _ => True
  | _ => False
  end.
Proof.
  cbn [step]. destruct (cache_get (cache st) (key_of r)) as [t|]; [intros H; injection H as _ <-; exists t; reflexivity|].
  cbn [key_of fst]. destruct (find_queue (queues st) (chain_of r)) as [q|] eqn:Eq; [|intros H; injection H as _ <-; auto].
  destruct (full q) eqn:Ef; intros H; injection H as _ <-; [|exact I]. try rewrite send_nonblocking. split; [reflexivity|]. exists q. auto.
Qed.

(* no step of the dispatcher can block *)
Theorem never_blocked st o : snd (step st o) <> Blocked.
Proof.
  destruct o as [r now|now|c]; cbn [step].
  - destruct (cache_get (cache st) (key_of r)); [cbn; discriminate|].
    destruct (find_queue (queues st) (fst (key_of r))) as [q|]; [|cbn; discriminate].
    destruct (full q); cbn [snd]; [rewrite send_nonblocking|]; discriminate.
  - cbn. discriminate.
  - destruct (find_queue (queues st) c) as [q|]; [destruct (q_items q)|]; cbn; discriminate.
Qed.

(* posting to the outbound queue: full => ErrChanFull at once, queue unchanged; room => appended *)
Theorem post_full cap its r : (cap <= length its)%nat -> post cap its r = (its, PostErrChanFull).
Proof. intros H. unfold post. destruct (Nat.leb_spec cap (length its)); [rewrite post_is_nonblocking; reflexivity|lia]. Qed.
Theorem post_room cap its r : (length its < cap)%nat -> post cap its r = (its ++ [r], PostOk).
Proof. intros H. unfold post. destruct (Nat.leb_spec cap (length its)); [lia|reflexivity]. Qed.
Theorem post_never_blocks cap its r : snd (post cap its r) <> PostBlocked.
Proof. unfold post. destruct (cap <=? length its)%nat; cbn [snd]; [rewrite post_is_nonblocking|]; discriminate. Qed.

(* ------------------------------------------------------------------ histories *)
Definition op_time (o : op) : option Z := match o with Req _ t => Some t | Tick t => Some t | Drain _ => None end.
(* clock readings never decrease along a history *)
Fixpoint mono (t0 : Z) (ops : list op) : Prop :=
  match ops with
  | [] => True
  | o :: r => match op_time o with Some t => t0 <= t /\ mono t r | None => mono t0 r end
  end.

Lemma run_cons st o ops : run st (o :: ops) = (st, o, snd (step st o)) :: run (fst (step st o)) ops.
Proof. cbn [run]. destruct (step st o); reflexivity. Qed.

Lemma run_split : forall ops st pre x post, run st ops = pre ++ x :: post ->
  exists ops1 o ops2 st1, ops = ops1 ++ o :: ops2 /\ run st ops1 = pre /\ st1 = final st ops1 /\
    x = (st1, o, snd (step st1 o)) /\ post = run (fst (step st1 o)) ops2.
Proof.
  induction ops as [|o ops IH]; intros st pre x post H; [destruct pre; discriminate|].
  rewrite run_cons in H. destruct pre as [|y pre].
  - cbn [app] in H. injection H as <- <-. exists [], o, ops, st. repeat split.
  - cbn [app] in H. injection H as <- H. destruct (IH _ _ _ _ H) as (ops1 & o' & ops2 & st1 & -> & E1 & E2 & E3 & E4).
    exists (o :: ops1), o', ops2, st1. split; [reflexivity|]. split; [rewrite run_cons, E1; reflexivity|]. split; [exact E2|auto].
Qed.

Lemma mono_app t0 ops1 ops2 : mono t0 (ops1 ++ ops2) -> exists t1, t0 <= t1 /\ mono t1 ops2 /\
  (forall o t, In o ops1 -> op_time o = Some t -> t <= t1).
Proof.
  revert t0. induction ops1 as [|o ops1 IH]; intros t0 H; [exists t0; split; [lia|split; [exact H|intros o t []]]|].
  cbn [app mono] in H. destruct (op_time o) as [t|] eqn:Eo.
  - destruct H as [H0 H]. destruct (IH _ H) as (t1 & L & M & B). exists t1. split; [lia|]. split; [exact M|].
    intros o' t' [<-|Hin] Ho'; [rewrite Eo in Ho'; injection Ho' as <-; exact L|exact (B o' t' Hin Ho')].
  - destruct (IH _ H) as (t1 & L & M & B). exists t1. split; [exact L|]. split; [exact M|].
    intros o' t' [<-|Hin] Ho'; [congruence|exact (B o' t' Hin Ho')].
Qed.

Lemma mono_weaken t0 t1 ops : t0 <= t1 -> mono t1 ops -> mono t0 ops.
Proof.
  revert t0 t1. induction ops as [|o ops IH]; intros t0 t1 L H; [exact I|]. cbn [mono] in *.
  destruct (op_time o); [destruct H; split; [lia|assumption]|eapply IH; eassumption].
Qed.

(* a request either is forwarded (remembered with its time, having been absent) or leaves the state as it was *)
Lemma req_cases st r now :
  (cache_get (cache st) (key_of r) = None /\ snd (step st (Req r now)) = Forward (chain_of r) /\
   cache (fst (step st (Req r now))) = (key_of r, now) :: cache st) \/
  (fst (step st (Req r now)) = st /\ forall c, snd (step st (Req r now)) <> Forward c).
Proof.
  destruct (step st (Req r now)) as [st' x] eqn:Es. cbn [fst snd]. destruct x.
  - left. pose proof Es as Es'. apply forward_to_named_chain in Es' as (-> & Hc & _). split; [exact Hc|]. split; [reflexivity|].
    cbn [step] in Es. rewrite Hc in Es. destruct (find_queue (queues st) (fst (key_of r))); [|discriminate].
    destruct (full q); [destruct reobs_send_nonblocking; discriminate|]. injection Es as <-. reflexivity.
  - right. split; [eapply drop_changes_nothing; [exact Es|auto]|discriminate].
  - right. split; [eapply drop_changes_nothing; [exact Es|auto]|discriminate].
  - right. split; [eapply drop_changes_nothing; [exact Es|auto]|discriminate].
  - exfalso. pose proof (never_blocked st (Req r now)) as N. rewrite Es in N. apply N. reflexivity.
  - exfalso. pose proof (drop_reasons _ _ _ _ _ Es) as H. exact H.
  - exfalso. pose proof (drop_reasons _ _ _ _ _ Es) as H. exact H.
Qed.

Lemma cache_get_none_notin c k : cache_get c k = None -> forall t, ~ In (k, t) c.
Proof.
  induction c as [|[k' t'] c IH]; intros H t; [intros []|]. rewrite cache_get_cons in H. destruct (key_eqb k k') eqn:E; [discriminate|].
  intros [Hin|Hin]; [injection Hin as -> _; rewrite key_eqb_refl in E; discriminate|exact (IH H t Hin)].
Qed.
Lemma cache_get_some_in c k : (exists t, In (k, t) c) -> exists t, cache_get c k = Some t.
Proof.
  intros [t Hin]. destruct (cache_get c k) as [t'|] eqn:E; [exists t'; reflexivity|]. exfalso. exact (cache_get_none_notin c k E t Hin).
Qed.

(* --- the suppression window.  J: relative to a forward of k at t0, every remembered time of k is >= t0, and if k is
       not remembered the clock has already passed t0 + window *)
Definition J (st : state) (tnow : Z) (k : rkey) (t0 : Z) : Prop :=
  (forall t', In (k, t') (cache st) -> t0 <= t') /\ (cache_get (cache st) k = None -> reobs_window < tnow - t0).

Lemma J_forward_gap st tnow k t0 r t : J st tnow k t0 -> tnow <= t -> key_of r = k ->
  cache_get (cache st) (key_of r) = None -> reobs_window < t - t0.
Proof. intros [_ H2] Hle <- Hc. specialize (H2 Hc). lia. Qed.

Lemma J_step st tnow k t0 o : J st tnow k t0 ->
  match op_time o with Some t => tnow <= t -> J (fst (step st o)) t k t0 | None => J (fst (step st o)) tnow k t0 end.
Proof.
  intros HJ. destruct o as [r t|t|c]; cbn [op_time].
  - intros Hle. destruct (req_cases st r t) as [(Hc & _ & Ec)|(Es & _)].
    + unfold J. rewrite Ec. destruct HJ as [H1 H2]. destruct (key_eqb k (key_of r)) eqn:Ek.
      * apply key_eqb_eq in Ek. subst k. pose proof (H2 Hc) as Hw. pose proof window_pos. split.
        -- intros t' [Hin|Hin]; [injection Hin as <-; lia|apply H1; exact Hin].
        -- rewrite cache_get_cons, key_eqb_refl. discriminate.
      * split.
        -- intros t' [Hin|Hin]; [injection Hin as <- _; rewrite key_eqb_refl in Ek; discriminate|apply H1; exact Hin].
        -- rewrite cache_get_cons, Ek. intros Hn. specialize (H2 Hn). lia.
    + rewrite Es. destruct HJ as [H1 H2]. split; [exact H1|]. intros Hn. specialize (H2 Hn). lia.
  - intros Hle. cbn [step fst]. destruct HJ as [H1 H2]. unfold J. cbn [cache]. split.
    + intros t' Hin. apply filter_In in Hin as [Hin _]. apply H1. exact Hin.
    + intros Hn. destruct (cache_get (cache st) k) as [t3|] eqn:E3; [|specialize (H2 eq_refl); lia].
      apply cache_get_In in E3. pose proof (H1 _ E3) as Hge.
      destruct (reobs_purge (t - t3)) eqn:Ep; [apply purge_strict in Ep; lia|].
      exfalso. apply (cache_get_none_notin _ _ Hn t3). apply filter_In. split; [exact E3|]. cbn [snd]. rewrite Ep. reflexivity.
  - cbn [step]. destruct (find_queue (queues st) c) as [q|]; [destruct (q_items q)|]; exact HJ.
Qed.

Lemma J_forwards : forall ops st tnow k t0, J st tnow k t0 -> mono tnow ops ->
  forall s r t c, In (s, Req r t, Forward c) (run st ops) -> key_of r = k -> reobs_window < t - t0.
Proof.
  induction ops as [|o ops IH]; intros st tnow k t0 HJ Hm s r t c Hin Ek; [destruct Hin|].
  rewrite run_cons in Hin. cbn [mono] in Hm. pose proof (J_step st tnow k t0 o HJ) as HS. destruct Hin as [Hin|Hin].
  - injection Hin as <- -> Ho. cbn [op_time] in Hm. destruct Hm as [Hle _].
    destruct (req_cases st r t) as [(Hc & _ & _)|(_ & Hn)]; [|exfalso; exact (Hn c Ho)].
    eapply J_forward_gap; eassumption.
  - destruct (op_time o) as [t'|]; [destruct Hm as [Hle Hm]; eapply IH; [exact (HS Hle)|exact Hm|exact Hin|exact Ek]|
                                    eapply IH; [exact HS|exact Hm|exact Hin|exact Ek]].
Qed.

(* two forwards of the same (chain, transaction) are more than the window apart, whatever happens in between and
   whatever the state the history starts from *)
Theorem forwards_window_apart st t0 ops pre s1 r1 t1 c1 mid s2 r2 t2 c2 post : mono t0 ops ->
  run st ops = pre ++ (s1, Req r1 t1, Forward c1) :: mid ++ (s2, Req r2 t2, Forward c2) :: post ->
  key_of r1 = key_of r2 -> reobs_window < t2 - t1.
Proof.
  intros Hm Hr Ek. destruct (run_split _ _ _ _ _ Hr) as (ops1 & o & ops2 & st1 & -> & _ & _ & Ex & Epost).
  injection Ex as -> <- Ho. apply mono_app in Hm as (t1' & _ & Hm & _). cbn [mono op_time] in Hm. destruct Hm as [_ Hm].
  destruct (req_cases st1 r1 t1) as [(Hc & _ & Ec)|(_ & Hn)]; [|exfalso; exact (Hn c1 (eq_sym Ho))].
  assert (HJ : J (fst (step st1 (Req r1 t1))) t1 (key_of r1) t1).
  { unfold J. rewrite Ec. split.
    - intros t' [Hin|Hin]; [injection Hin as <-; lia|exfalso; exact (cache_get_none_notin _ _ Hc t' Hin)].
    - rewrite cache_get_cons, key_eqb_refl. discriminate. }
  eapply (J_forwards ops2 _ t1 (key_of r1) t1 HJ Hm s2 r2 t2 c2); [|symmetry; exact Ek].
  rewrite <- Epost. apply in_or_app. right. left. reflexivity.
Qed.

(* ------------------------------------------------------------------ forwarded again once the window has lapsed *)
Definition cache_wf (st : state) : Prop := NoDup (map fst (cache st)).
Definition known (st : state) (c : Z) : Prop := find_queue (queues st) c <> None.

Lemma cache_get_notin_keys c k : cache_get c k = None -> ~ In k (map fst c).
Proof. intros H Hin. apply in_map_iff in Hin as ([k' t] & E & Hin). cbn [fst] in E. subst k'. exact (cache_get_none_notin c k H t Hin). Qed.

Lemma NoDup_map_filter {A B} (g : A -> B) (f : A -> bool) : forall l, NoDup (map g l) -> NoDup (map g (filter f l)).
Proof.
  induction l as [|x l IH]; intros H; [constructor|]. cbn [map] in H. inversion H as [|? ? Hn Hl]; subst. cbn [filter].
  destruct (f x); [|apply IH; exact Hl]. cbn [map]. constructor; [|apply IH; exact Hl].
  intros Hin. apply Hn. apply in_map_iff in Hin as (y & Ey & Hy). apply filter_In in Hy as [Hy _]. apply in_map_iff. exists y. auto.
Qed.

Lemma wf_get_In c k t : NoDup (map fst c) -> In (k, t) c -> cache_get c k = Some t.
Proof.
  induction c as [|[k' t'] c IH]; intros Hn Hin; [destruct Hin|]. cbn [map fst] in Hn. inversion Hn as [|? ? Hnot Hn']; subst.
  rewrite cache_get_cons. destruct Hin as [Hin|Hin].
  - injection Hin as -> ->. rewrite key_eqb_refl. reflexivity.
  - destruct (key_eqb k k') eqn:E; [|apply IH; assumption]. apply key_eqb_eq in E. subst k'.
    exfalso. apply Hnot. apply in_map_iff. exists (k, t). auto.
Qed.

Lemma wf_step st o : cache_wf st -> cache_wf (fst (step st o)).
Proof.
  unfold cache_wf. intros W. destruct o as [r t|t|c].
  - destruct (req_cases st r t) as [(Hc & _ & Ec)|(Es & _)]; [|rewrite Es; exact W].
    rewrite Ec. cbn [map fst]. constructor; [apply cache_get_notin_keys; exact Hc|exact W].
  - cbn [step fst cache]. apply NoDup_map_filter. exact W.
  - cbn [step]. destruct (find_queue (queues st) c) as [q|]; [destruct (q_items q)|]; exact W.
Qed.

Lemma wf_final : forall ops st, cache_wf st -> cache_wf (final st ops).
Proof. induction ops as [|o ops IH]; intros st W; [exact W|]. cbn [final]. apply IH. apply wf_step. exact W. Qed.

Lemma known_step st o c : known st c -> known (fst (step st o)) c.
Proof.
  unfold known. intros K. destruct o as [r t|t|c'].
  - cbn [step]. destruct (cache_get (cache st) (key_of r)); [exact K|].
    destruct (find_queue (queues st) (fst (key_of r))) as [q|] eqn:Eq; [|exact K].
    destruct (full q); cbn [fst queues]; [exact K|]. rewrite find_set_items.
    destruct (c =? fst (key_of r)); [rewrite Eq; discriminate|exact K].
  - exact K.
  - cbn [step]. destruct (find_queue (queues st) c') as [q|] eqn:Eq; [|exact K]. destruct (q_items q); [exact K|].
    cbn [fst queues]. rewrite find_set_items. destruct (c =? c'); [rewrite Eq; discriminate|exact K].
Qed.
Lemma known_final : forall ops st c, known st c -> known (final st ops) c.
Proof. induction ops as [|o ops IH]; intros st c K; [exact K|]. cbn [final]. apply IH. apply known_step. exact K. Qed.

Definition nofwd (k : rkey) (tr : list (state * op * out)) : Prop :=
  forall s r t c, In (s, Req r t, Forward c) tr -> key_of r <> k.

Lemma nofwd_tail k x tr : nofwd k (x :: tr) -> nofwd k tr.
Proof. intros H s r t c Hin. apply (H s r t c). right. exact Hin. Qed.

(* what one step that does not forward k does to k's cache entry *)
Lemma step_other st o k : (forall r t c, o = Req r t -> snd (step st o) = Forward c -> key_of r <> k) ->
  match o with
  | Tick _ => True
  | _ => cache_get (cache (fst (step st o))) k = cache_get (cache st) k
  end.
Proof.
  intros H. destruct o as [r t|t|c]; [|exact I|].
  - destruct (req_cases st r t) as [(Hc & Ef & Ec)|(Es & _)]; [|rewrite Es; reflexivity].
    rewrite Ec, cache_get_cons. rewrite key_eqb_neq; [reflexivity|]. intros E. exact (H r t _ eq_refl Ef (eq_sym E)).
  - cbn [step]. destruct (find_queue (queues st) c) as [q|]; [destruct (q_items q)|]; reflexivity.
Qed.

Lemma stay_none : forall ops st k, cache_get (cache st) k = None -> nofwd k (run st ops) -> cache_get (cache (final st ops)) k = None.
Proof.
  induction ops as [|o ops IH]; intros st k Hc Hn; [exact Hc|]. cbn [final]. rewrite run_cons in Hn. apply IH; [|exact (nofwd_tail _ _ _ Hn)].
  destruct o as [r t|t|c].
  - rewrite (step_other st (Req r t) k); [exact Hc|]. intros r' t' c' E Ef. injection E as <- <-. apply (Hn st r t c'). left. rewrite Ef. reflexivity.
  - cbn [step fst cache]. apply cache_get_none_filter. exact Hc.
  - rewrite (step_other st (Drain c) k); [exact Hc|]. intros r' t' c' E. discriminate.
Qed.

Lemma purged_then_none : forall ops st k t1, cache_wf st ->
  cache_get (cache st) k = Some t1 \/ cache_get (cache st) k = None -> nofwd k (run st ops) ->
  (exists s tau, In (s, Tick tau, Purged) (run st ops) /\ reobs_window < tau - t1) ->
  cache_get (cache (final st ops)) k = None.
Proof.
  induction ops as [|o ops IH]; intros st k t1 W Hc Hn (s & tau & Hin & Hp); [destruct Hin|].
  rewrite run_cons in Hin, Hn. cbn [final]. destruct Hin as [Hin|Hin].
  - (* this step is the purging tick *)
    injection Hin as <- -> _. apply stay_none; [|exact (nofwd_tail _ _ _ Hn)]. cbn [step fst cache].
    destruct (cache_get (filter _ (cache st)) k) as [t2|] eqn:E2; [|reflexivity]. exfalso.
    apply cache_get_filter_some in E2 as [Hin2 Hnp]. pose proof (wf_get_In _ _ _ W Hin2) as Hg.
    destruct Hc as [Hc|Hc]; [|congruence]. assert (t2 = t1) by congruence. subst t2.
    apply purge_strict in Hp. congruence.
  - apply (IH _ k t1); [apply wf_step; exact W| |exact (nofwd_tail _ _ _ Hn)|exists s, tau; auto].
    destruct o as [r t|t|c].
    + rewrite (step_other st (Req r t) k); [exact Hc|]. intros r' t' c' E Ef. injection E as <- <-. apply (Hn st r t c'). left. rewrite Ef. reflexivity.
    + cbn [step fst cache]. destruct (cache_get (filter _ (cache st)) k) as [t2|] eqn:E2; [|right; reflexivity].
      apply cache_get_filter_some in E2 as [Hin2 _]. pose proof (wf_get_In _ _ _ W Hin2) as Hg.
      destruct Hc as [Hc|Hc]; [left; congruence|congruence].
    + rewrite (step_other st (Drain c) k); [exact Hc|]. intros r' t' c' E. discriminate.
Qed.

Lemma run_final_split : forall ops st pre x post, run st ops = pre ++ x :: post ->
  exists ops1 o ops2, ops = ops1 ++ o :: ops2 /\ run st ops1 = pre /\ x = (final st ops1, o, snd (step (final st ops1) o)) /\
    post = run (fst (step (final st ops1) o)) ops2.
Proof.
  intros ops st pre x post H. destruct (run_split _ _ _ _ _ H) as (ops1 & o & ops2 & st1 & E1 & E2 & -> & E4 & E5). exists ops1, o, ops2. auto.
Qed.

(* once a purge tick later than t1 + window has fired after the forward at t1, and no other forward of the key
   happened, the next request of that key is forwarded again if its queue has room (and only the full queue stops it) *)
Theorem forwarded_again_after_purge st ops pre s1 r1 t1 c1 mid s2 r2 t2 o2 post : cache_wf st ->
  run st ops = pre ++ (s1, Req r1 t1, Forward c1) :: mid ++ (s2, Req r2 t2, o2) :: post ->
  key_of r1 = key_of r2 -> nofwd (key_of r1) mid ->
  (exists s tau, In (s, Tick tau, Purged) mid /\ reobs_window < tau - t1) ->
  exists q, find_queue (queues s2) (chain_of r2) = Some q /\ o2 = if full q then DropFull else Forward (chain_of r2).
Proof.
  intros W Hr Ek Hn Hp. destruct (run_final_split _ _ _ _ _ Hr) as (ops1 & o & ops2 & -> & _ & Ex & Epost).
  injection Ex as -> <- Ho. set (sa := final st ops1) in *.
  destruct (req_cases sa r1 t1) as [(Hc & _ & Ec)|(_ & Hnf)]; [|exfalso; exact (Hnf c1 (eq_sym Ho))].
  pose proof (forward_to_named_chain sa r1 t1 (fst (step sa (Req r1 t1))) c1) as F.
  destruct (step sa (Req r1 t1)) as [sb x] eqn:Es. cbn [fst snd] in *. subst x. destruct (F eq_refl) as (-> & _ & Hgb & (q1 & Hq1 & _ & Hit) & _).
  assert (Wb : cache_wf sb). { pose proof (wf_step sa (Req r1 t1) (wf_final _ _ W)) as H. rewrite Es in H. exact H. }
  assert (Kb : known sb (chain_of r1)). { unfold known, items in *. destruct (find_queue (queues sb) (chain_of r1)); [discriminate|discriminate Hit]. }
  symmetry in Epost. destruct (run_final_split _ _ _ _ _ Epost) as (opsm & o' & opsp & -> & Em & Ex' & _).
  injection Ex' as -> <- Ho'. set (sc := final sb opsm) in *.
  assert (Hnone : cache_get (cache sc) (key_of r1) = None).
  { apply (purged_then_none opsm sb (key_of r1) t1 Wb); [left; exact Hgb|rewrite Em; exact Hn|rewrite Em; exact Hp]. }
  pose proof (known_final opsm sb _ Kb) as Kc. fold sc in Kc. unfold known in Kc.
  assert (Ech : chain_of r2 = chain_of r1) by (unfold key_of in Ek; congruence).
  rewrite Ho'. cbn [step]. rewrite <- Ek, Hnone. cbn [key_of fst]. rewrite Ech.
  destruct (find_queue (queues sc) (chain_of r1)) as [q|]; [|contradiction]. exists q. split; [reflexivity|].
  destruct (full q); cbn [snd]; [rewrite send_nonblocking; reflexivity|reflexivity].
Qed.

(* ... in particular with purge ticks at most [reobs_period] apart: 18 minutes (window + period) after the forward *)
Corollary forwarded_again_after_window_plus_period st ops pre s1 r1 t1 c1 mid s2 r2 t2 o2 post : cache_wf st ->
  run st ops = pre ++ (s1, Req r1 t1, Forward c1) :: mid ++ (s2, Req r2 t2, o2) :: post ->
  key_of r1 = key_of r2 -> nofwd (key_of r1) mid ->
  (forall a, t1 <= a -> a + reobs_period <= t2 -> exists s tau, In (s, Tick tau, Purged) mid /\ a < tau <= a + reobs_period) ->
  reobs_window + reobs_period <= t2 - t1 ->
  exists q, find_queue (queues s2) (chain_of r2) = Some q /\ o2 = if full q then DropFull else Forward (chain_of r2).
Proof.
  intros W Hr Ek Hn Ht Hd. eapply forwarded_again_after_purge; try eassumption.
  pose proof window_pos. destruct (Ht (t1 + reobs_window)) as (s & tau & Hin & Hlt); [lia|lia|]. exists s, tau. split; [exact Hin|lia].
Qed.

(* the numbers of the statement: 7 minutes, 11 minutes, 18 minutes (in nanoseconds) *)
Lemma reobs_numbers : reobs_period = 7 * 60 * 10 ^ 9 /\ reobs_window = 11 * 60 * 10 ^ 9 /\ reobs_window + reobs_period = 18 * 60 * 10 ^ 9.
Proof. repeat split; reflexivity. Qed.

(* ------------------------------------------------------------------ concurrent posts *)
Lemma post_is_atomic : post_atomic = true.
Proof. reflexivity. Qed.

Definition settled (ps : pstate) : Prop := ps = PStart \/ ps = PDone PostOk \/ ps = PDone PostErrChanFull.

Lemma pstep_settled cap items ps r : settled ps -> settled (snd (pstep cap items ps r)).
Proof.
  intros [E|[E|E]]; subst ps; cbn [pstep]; [|right; left; reflexivity|right; right; reflexivity].
  rewrite post_is_atomic. unfold post. destruct (cap <=? length items)%nat; cbn [snd]; [rewrite post_is_nonblocking; right; right; reflexivity|right; left; reflexivity].
Qed.

Lemma set_nth_Forall {A} (P : A -> Prop) : forall l i x, Forall P l -> P x -> Forall P (set_nth l i x).
Proof.
  induction l as [|h t IH]; intros i x Hl Hx; [constructor|]. inversion Hl; subst. destruct i as [|j]; cbn [set_nth]; constructor; auto.
Qed.

(* however the steps of any number of concurrent callers interleave, no caller is ever between a passed fullness test and
   its send: nobody can be stalled on a full queue, every finished call returned nil or ErrChanFull *)
Theorem posts_never_stall cap reqs : forall sched items pss, Forall settled pss ->
  Forall settled (snd (psched cap reqs items pss sched)).
Proof.
  induction sched as [|i rest IH]; intros items pss H; [exact H|]. cbn [psched].
  destruct (nth_error pss i) as [ps|] eqn:E; [|apply IH; exact H].
  destruct (pstep cap items ps (nth i reqs _)) as [items' ps'] eqn:Es. apply IH. apply set_nth_Forall; [exact H|].
  assert (Hs : settled ps) by (rewrite Forall_forall in H; apply H; eapply nth_error_In; exact E).
  pose proof (pstep_settled cap items ps (nth i reqs {| r_chain := 0; r_tx := [] |}) Hs) as H'. rewrite Es in H'. exact H'.
Qed.

Corollary posts_never_stall_from_start cap reqs n sched items :
  let '(items', pss) := psched cap reqs items (repeat PStart n) sched in Forall (fun ps => stalled cap items' ps = false) pss.
Proof.
  pose proof (posts_never_stall cap reqs sched items (repeat PStart n)) as H.
  destruct (psched cap reqs items (repeat PStart n) sched) as [items' pss]. cbn [snd] in H.
  assert (H0 : Forall settled (repeat PStart n)) by (apply Forall_forall; intros x Hx; apply repeat_spec in Hx; left; exact Hx).
  specialize (H H0). rewrite Forall_forall in *. intros ps Hps. destruct (H ps Hps) as [E|[E|E]]; subst ps; reflexivity.
Qed.
