(* Extension X10: toy oracles shared by the computed examples of proofs/ClosureProofsExA.v / ExB.v *)
From Coq Require Import List ZArith Bool Lia.
From Coq Require Import Strings.Byte.
From WH Require Import lib.Bytes gen.Extracted model.Vaa model.Processor model.ProcSpec model.System proofs.SystemLiveProofs.
Import ListNotations.
Open Scope Z_scope.

(* ---------------------------------------------------------------- oracles shared by the examples *)
Definition qx_owns (i : nat) : addr := repeat (byte_of_Z (Z.of_nat i + 1)) 20.
Definition qx_signs (i : nat) (d : bytes) : bytes := qx_owns i ++ repeat x00 45.
Definition qx_recover (h s : bytes) : option bytes := Some (firstn 20 s).
Definition qx_keccak (b : bytes) : bytes := repeat x00 32.
Definition qx_msg : msgpub := {| m_tx := [x07]; m_ts := 1700000000; m_tns := 0; m_nonce := 1; m_seq := 5; m_cl := 1;
                                 m_echain := 2; m_tchain := 255; m_eaddr := repeat x02 32; m_payload := [x01; x02] |}.
Definition qx_G : gset := {| keys := [qx_owns 0; qx_owns 1]; gidx := 3 |}.
Definition qx_h : bytes := repeat x00 32.

Lemma qx_G_wf : ProcSpec.gs_wf qx_G.
Proof. split; [|cbn; lia]. constructor; [intros [H|[]]; discriminate H|constructor; [intros []|constructor]]. Qed.
Lemma qx_honest j : In j [0; 1]%nat -> honest_member qx_recover qx_owns qx_signs qx_G j.
Proof. intros [<-|[<-|[]]]; (split; [cbn; tauto|split; [reflexivity|]]); intros d Hd; unfold Processor.rec, recover_checked; rewrite Hd; reflexivity. Qed.

