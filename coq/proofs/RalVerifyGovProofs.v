(* X11 / C15: the contract side of the governance pipeline (GovPipeline.ral_receive, X6's hand composition of ral_parse, the glue
   definitions and ral_sig_loop) IS the function generated from governance.ral parseAndVerifyVAA with isGovernanceVAA = true, for every
   byte string and every contract state whose current set / index are the ones ral_receive is given.  X6's and X3's theorems about
   ral_receive therefore hold of the translated entry point. *)
From Coq Require Import List ZArith Lia Bool Arith.
From Coq Require Import Strings.Byte.
From WH Require Import lib.Bytes lib.Ralph lib.RalphLoop gen.Extracted gen.ExtractedGov.
From WH Require Import model.Vaa model.Contracts model.RalVerifyModel model.ProcSpec model.GovPipeline.
From WH Require Import proofs.QuorumProofs proofs.RalVerifyProofs proofs.GovPipelineProofs.
From WH Require proofs.LayoutProofs.
Import ListNotations.
Import ExtractedGov.RalGlue.
Open Scope Z_scope.

Section Bridge.
Variable recover : bytes -> bytes -> option bytes.
Variable keccak : bytes -> bytes.

(* X6's loop (extracted constants: strictness, recovery-id slice and offset, key slot) is the loop of the property-level model *)
Lemma sig_loop_bridge : forall recs h g last,
  ral_sig_loop recover h g last recs = recs_ok (eth_ec_recover recover) h g last recs.
Proof.
  induction recs as [|[gi sg] t IH]; intros h g last; [reflexivity|].
  cbn [ral_sig_loop recs_ok]. unfold rec_ok.
  change ral_index_strict with true. cbv iota.
  change (fst ral_recid_slice) with 64%nat. change (snd ral_recid_slice) with 65%nat. change ral_recid_plus with 27.
  unfold ral_key_slot. cbn [fst snd].
  replace (1 + gi * 20) with (1 + 20 * gi) by lia.
  destruct (last <? gi); [|reflexivity]. cbn [negb andb].
  destruct (slice sg 64 65) as [vb|]; [|reflexivity].
  destruct (slice g (Z.to_nat (1 + 20 * gi)) (Z.to_nat (1 + 20 * gi + 20))) as [key|].
  2:{ destruct (unbe vb + 27 <? 256); reflexivity. }
  rewrite Z.leb_antisym. destruct (unbe vb + 27 <? 256); [|reflexivity]. cbn [negb andb].
  destruct (eth_ec_recover recover h (firstn 64 sg ++ be 1 (unbe vb + 27))) as [a|]; [|reflexivity].
  rewrite IH. reflexivity.
Qed.

Theorem ral_receive_is_the_translated_source ct st data :
  gs_cur_idx st = rc_gs_index ct -> gs_cur st = rc_guardians ct ->
  ral_receive recover keccak ct data = ral_source keccak (eth_ec_recover recover) st true data.
Proof.
  intros Hi Hg. rewrite ral_source_eq. unfold ral_receive, ral_accepts.
  destruct (ral_parse data) as [r|]; [|reflexivity].
  unfold ral_gov_index_check, r_var. cbn [r_eq rtrue andb]. rewrite Hi.
  unfold guardians_for. rewrite Hi.
  destruct (rv_gsidx r =? rc_gs_index ct); [|reflexivity]. cbn [negb]. rewrite Hg.
  unfold ral_guardian_size, set_size, r_var, r_num. rewrite r_slice_val.
  change (Z.to_nat 0) with 0%nat. change (Z.to_nat 1) with 1%nat.
  destruct (slice (rc_guardians ct) 0 1) as [nb|] eqn:Enb; [|reflexivity].
  destruct (slice_len _ _ _ _ Enb) as [Lnb _]. change (1 - 0)%nat with 1%nat in Lnb.
  rewrite (r_u256from_ok 1 nb Lnb).
  unfold ral_guardian_size_check, r_ne, r_var, r_num. cbn [r_eq r_not rtrue].
  destruct (unbe nb =? 0); [reflexivity|]. cbn [negb].
  unfold ral_quorum_accepts, ral_quorum. rewrite (go_quorum_spec (unbe nb)) by apply unbe_nonneg. unfold spec_quorum.
  rewrite (Z.mul_comm 2 (unbe nb)).
  destruct (unbe nb * 2 / 3 + 1 <=? rv_numsigs r); [|reflexivity]. cbn [negb].
  unfold ral_sigs_ok. change ral_last_index_init with (-1). rewrite sig_loop_bridge.
  destruct (recs_ok (eth_ec_recover recover) (keccak (keccak (rv_hashed r))) (rc_guardians ct) (-1) (rv_sig_records r)); reflexivity.
Qed.

(* what a quorum of guardians publishes is accepted by the translated entry point of a contract that holds their set as current, and
   the node's field values are what it returns *)
Theorem ral_source_accepts_published ct st gov w K :
  qvalid recover keccak w K -> wf w -> Forall (fun k => length k = 20%nat) K -> (0 < length K <= 255)%nat ->
  rc_gs_index ct = gsidx w -> rc_guardians ct = guardians_of K -> gs_cur_idx st = rc_gs_index ct -> gs_cur st = rc_guardians ct ->
  ral_source keccak (eth_ec_recover recover) st gov (marshal w) =
  Some [RZ (echain w); RZ (tchain w); RB (eaddr w); RZ (seq w); RB (payload w)].
Proof.
  intros Hq W FK LK Hgi Hg Hi Hc.
  rewrite (ral_source_flag_irrelevant keccak (eth_ec_recover recover) st (marshal w) _ gov true (LayoutProofs.ral_parse_marshal w W))
    by (cbn [rv_gsidx]; congruence).
  rewrite <- (ral_receive_is_the_translated_source ct st (marshal w) Hi Hc).
  rewrite (ral_receive_published recover keccak ct w K Hq W FK LK Hgi Hg). reflexivity.
Qed.

End Bridge.
